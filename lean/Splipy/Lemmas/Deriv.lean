import Splipy.Lemmas.Basic
import Mathlib.Algebra.Polynomial.Derivative
import Mathlib.Tactic.LinearCombination

/-!
# L3: the polynomial pieces of the B-splines and their derivatives

`Bpoly τ μ q i : K[X]` is the Cox–de Boor recursion carried out in `Polynomial K` on the knot
span number `μ` (`[τ μ, τ (μ+1))` resp. `(τ μ, τ (μ+1)]`).  We prove

* `B_eq_eval_Bpoly` : on the span, `B` is `Polynomial.eval` of the piece,
* `Bpoly_derivative` : the classical derivative formula (Piegl–Tiller §2.3) for
  `Polynomial.derivative` of the piece on a non-empty span,
* `dB_eq_eval_iterate_derivative` : the spec's recursively defined `dB … d` is `eval` of the
  `d`-fold formal derivative of the piece.
-/

namespace Splipy

open Polynomial

variable {K : Type} [Field K]

/-- Polynomial piece of `B · τ q i` on the knot span number `μ`. -/
noncomputable def Bpoly (τ : ℕ → K) (μ : ℕ) : ℕ → ℕ → Polynomial K
  | 0,   i => if i = μ then 1 else 0
  | q+1, i =>
      (X - C (τ i)) * C ((τ (i+q+1) - τ i)⁻¹) * Bpoly τ μ q i
      + (C (τ (i+q+2)) - X) * C ((τ (i+q+2) - τ (i+1))⁻¹) * Bpoly τ μ q (i+1)

theorem Bpoly_zero (τ : ℕ → K) (μ i : ℕ) :
    Bpoly τ μ 0 i = if i = μ then 1 else 0 := by
  rw [Bpoly]

theorem Bpoly_succ (τ : ℕ → K) (μ q i : ℕ) :
    Bpoly τ μ (q+1) i =
      (X - C (τ i)) * C ((τ (i+q+1) - τ i)⁻¹) * Bpoly τ μ q i
      + (C (τ (i+q+2)) - X) * C ((τ (i+q+2) - τ (i+1))⁻¹) * Bpoly τ μ q (i+1) := by
  rw [Bpoly]

/-! ## Support at the polynomial level -/

/-- The piece on span `μ` vanishes unless `i ≤ μ ≤ i+q` (no hypothesis on the knots). -/
theorem Bpoly_eq_zero_of_not_mem (τ : ℕ → K) (μ q i : ℕ) (h : μ < i ∨ i + q < μ) :
    Bpoly τ μ q i = 0 := by
  induction q generalizing i with
  | zero =>
    rw [Bpoly_zero, if_neg]
    omega
  | succ q ih =>
    rw [Bpoly_succ, ih i (by omega), ih (i+1) (by omega)]
    simp

theorem Bpoly_eq_zero_of_gt (τ : ℕ → K) (μ q i : ℕ) (h : μ < i) : Bpoly τ μ q i = 0 :=
  Bpoly_eq_zero_of_not_mem τ μ q i (Or.inl h)

theorem Bpoly_eq_zero_of_lt (τ : ℕ → K) (μ q i : ℕ) (h : i + q < μ) : Bpoly τ μ q i = 0 :=
  Bpoly_eq_zero_of_not_mem τ μ q i (Or.inr h)

variable [LinearOrder K]

/-- On a non-empty span, a piece with degenerate support vanishes. -/
theorem Bpoly_eq_zero_of_knots_eq (τ : ℕ → K) (hτ : Monotone τ) (μ : ℕ) (hμ : τ μ < τ (μ+1))
    (q i : ℕ) (h : τ (i+q+1) = τ i) : Bpoly τ μ q i = 0 := by
  apply Bpoly_eq_zero_of_not_mem
  by_contra hc
  have h1 : τ i ≤ τ μ := hτ (by omega)
  have h2 : τ (μ+1) ≤ τ (i+q+1) := hτ (by omega)
  exact absurd (lt_of_le_of_lt h1 (lt_of_lt_of_le hμ h2)) (by rw [h]; exact lt_irrefl _)

/-- On a non-empty span, `Δ⁻¹ * Δ` acts as `1` on the piece `Bpoly τ μ q i` for every knot
difference `Δ = τ b - τ a` spanning its support (`a ≤ i`, `i+q+1 ≤ b`). -/
theorem Bpoly_inv_mul_cancel (τ : ℕ → K) (hτ : Monotone τ) (μ : ℕ) (hμ : τ μ < τ (μ+1))
    (q i a b : ℕ) (ha : a ≤ i) (hb : i + q + 1 ≤ b) :
    C ((τ b - τ a)⁻¹) * (C (τ b) - C (τ a)) * Bpoly τ μ q i = Bpoly τ μ q i := by
  by_cases hc : μ < i ∨ i + q < μ
  · rw [Bpoly_eq_zero_of_not_mem τ μ q i hc, mul_zero]
  · have h1 : τ a ≤ τ μ := hτ (by omega)
    have h2 : τ (μ+1) ≤ τ b := hτ (by omega)
    have h3 : τ b - τ a ≠ 0 := sub_ne_zero.mpr (ne_of_gt (lt_of_le_of_lt h1 (lt_of_lt_of_le hμ h2)))
    rw [← C_sub, ← C_mul, inv_mul_cancel₀ h3, C_1, one_mul]

/-! ## 1. `B` is `eval` of the piece -/

theorem B_eq_eval_Bpoly (s : Side) (τ : ℕ → K) (hτ : Monotone τ) (μ q i : ℕ) (t : K)
    (h : s.mem (τ μ) (τ (μ+1)) t) : B s τ q i t = (Bpoly τ μ q i).eval t := by
  induction q generalizing i with
  | zero =>
    rw [Bpoly_zero]
    by_cases hi : i = μ
    · subst hi
      rw [if_pos rfl, eval_one, B_zero]
      exact ind_eq_one s _ _ _ h
    · rw [if_neg hi, eval_zero]
      rcases Nat.lt_or_gt_of_ne hi with hi | hi
      · exact B_eq_zero_of_mem_of_le s τ hτ 0 i μ t h (by omega)
      · exact B_eq_zero_of_mem_of_gt s τ hτ 0 i μ t h hi
  | succ q ih =>
    rw [B_succ, Bpoly_succ, ih i, ih (i+1)]
    simp only [eval_add, eval_mul, eval_sub, eval_X, eval_C, div_eq_mul_inv]

/-! ## 2. The derivative formula -/

/-- **L3**, the classical derivative formula for the polynomial pieces on a non-empty span. -/
theorem Bpoly_derivative (τ : ℕ → K) (hτ : Monotone τ) (μ : ℕ) (hμ : τ μ < τ (μ+1))
    (q i : ℕ) :
    derivative (Bpoly τ μ (q+1) i) =
      C ((q:K)+1) * (C ((τ (i+q+1) - τ i)⁻¹) * Bpoly τ μ q i
                      - C ((τ (i+q+2) - τ (i+1))⁻¹) * Bpoly τ μ q (i+1)) := by
  induction q generalizing i with
  | zero =>
    rw [Bpoly_succ]
    have hc : ∀ j, derivative (Bpoly τ μ 0 j) = 0 := by
      intro j
      rw [Bpoly_zero]
      split_ifs <;> simp
    simp only [derivative_add, derivative_mul, derivative_sub, derivative_X, derivative_C, hc,
      Nat.cast_zero, zero_add, C_1]
    ring
  | succ q ih =>
    rw [Bpoly_succ τ μ (q+1) i]
    simp only [derivative_add, derivative_mul, derivative_sub, derivative_X, derivative_C]
    have e1 : i + 1 + q + 1 = i + q + 2 := by omega
    have e2 : i + 1 + q + 2 = i + q + 3 := by omega
    have e3 : i + 1 + 1 = i + 2 := by omega
    have e4 : i + (q + 1) + 1 = i + q + 2 := by omega
    have e5 : i + (q + 1) + 2 = i + q + 3 := by omega
    have ih1 := ih i
    have ih2 := ih (i+1)
    have r1 := Bpoly_succ τ μ q i
    have r2 := Bpoly_succ τ μ q (i+1)
    have c1 := Bpoly_inv_mul_cancel τ hτ μ hμ q (i+1) i (i+q+2) (by omega) (by omega)
    have c2 := Bpoly_inv_mul_cancel τ hτ μ hμ q (i+1) (i+1) (i+q+3) (by omega) (by omega)
    simp only [e1, e2, e3] at ih2 r2
    simp only [e4, e5]
    rw [ih1, ih2, r1, r2]
    push_cast
    simp only [C_add, C_1]
    generalize Bpoly τ μ q i = N0 at *
    generalize Bpoly τ μ q (i+1) = N1 at *
    generalize Bpoly τ μ q (i+2) = N2 at *
    generalize C ((τ (i+q+2) - τ i)⁻¹) = A at *
    generalize C ((τ (i+q+3) - τ (i+1))⁻¹) = A' at *
    generalize C ((τ (i+q+1) - τ i)⁻¹) = a0 at *
    generalize C ((τ (i+q+2) - τ (i+1))⁻¹) = a1 at *
    generalize C ((τ (i+q+3) - τ (i+2))⁻¹) = a2 at *
    generalize (C (q:K) : K[X]) = Q at *
    linear_combination ((Q + 1) * a1 * (-1 : K[X])) * c1 + ((Q + 1) * a1) * c2

/-! ## 3. `dB` is `eval` of the iterated formal derivative of the piece -/

theorem dB_eq_eval_iterate_derivative (s : Side) (τ : ℕ → K) (hτ : Monotone τ) (μ q i d : ℕ)
    (t : K) (h : s.mem (τ μ) (τ (μ+1)) t) :
    dB s τ q i d t = ((derivative^[d]) (Bpoly τ μ q i)).eval t := by
  have hμ : τ μ < τ (μ+1) := by
    cases s
    · exact lt_of_le_of_lt h.1 h.2
    · exact lt_of_lt_of_le h.1 h.2
  induction q generalizing i d with
  | zero =>
    cases d with
    | zero =>
      rw [dB_zero, Function.iterate_zero, id_eq]
      exact B_eq_eval_Bpoly s τ hτ μ 0 i t h
    | succ d =>
      rw [dB_zero_succ, Function.iterate_succ_apply, Bpoly_zero]
      have : derivative (if i = μ then (1 : K[X]) else 0) = 0 := by
        split_ifs <;> simp
      rw [this, iterate_derivative_zero, eval_zero]
  | succ q ih =>
    cases d with
    | zero =>
      rw [dB_zero, Function.iterate_zero, id_eq]
      exact B_eq_eval_Bpoly s τ hτ μ (q+1) i t h
    | succ d =>
      rw [dB_succ_succ, Function.iterate_succ_apply, Bpoly_derivative τ hτ μ hμ q i,
        iterate_derivative_C_mul, iterate_derivative_sub, iterate_derivative_C_mul,
        iterate_derivative_C_mul, ih i d, ih (i+1) d]
      simp only [eval_mul, eval_sub, eval_C, div_eq_mul_inv]
      ring

/-- First-derivative special case: `dB … 1` is `eval` of the formal derivative of the piece. -/
theorem dB_one_eq_eval_derivative (s : Side) (τ : ℕ → K) (hτ : Monotone τ) (μ q i : ℕ)
    (t : K) (h : s.mem (τ μ) (τ (μ+1)) t) :
    dB s τ q i 1 t = (derivative (Bpoly τ μ q i)).eval t :=
  dB_eq_eval_iterate_derivative s τ hτ μ q i 1 t h

/-- The `(d+1)`-th spec derivative is `eval` of the formal derivative of the polynomial
representing the `d`-th one. -/
theorem dB_succ_eq_eval_derivative (s : Side) (τ : ℕ → K) (hτ : Monotone τ) (μ q i d : ℕ)
    (t : K) (h : s.mem (τ μ) (τ (μ+1)) t) :
    dB s τ q i (d+1) t = (derivative ((derivative^[d]) (Bpoly τ μ q i))).eval t := by
  rw [dB_eq_eval_iterate_derivative s τ hτ μ q i (d+1) t h, Function.iterate_succ_apply']

end Splipy
