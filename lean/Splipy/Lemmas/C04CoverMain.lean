import Splipy.Lemmas.C04CoverFold
import Splipy.Lemmas.C04LocalIndep

/-!
# C04 helper lemmas, part 22: periodic insertion into a basis with fewer than `p+k` functions

`insertKnot_periodic_small`: the cover branch of `Basis.insertKnot` returns a valid periodic basis
with one more function, the same domain, and the periodic spline is unchanged (all derivatives,
both sides); the knots of one period are the old ones plus the inserted value.
-/

namespace Splipy
namespace C04

set_option linter.unusedSectionVars false

variable {K : Type} [Field K] [LinearOrder K] [IsStrictOrderedRing K] [FloorRing K]

/-- the number of periods of the cover -/
theorem cover_R (p k n : ℕ) (hn : 1 ≤ n) (hsmall : n < p + k) :
    ∃ r, (p + k + n - 1) / n = r + 1 ∧ 1 ≤ r ∧ p + k ≤ (r + 1) * n := by
  have h1 := Nat.div_add_mod (p + k + n - 1) n
  have h2 := Nat.mod_lt (p + k + n - 1) (show 0 < n by omega)
  set R := (p + k + n - 1) / n with hR
  have h3 : p + k ≤ R * n := by
    have e : n * R + (p + k + n - 1) % n = p + k + n - 1 := h1
    rw [Nat.mul_comm]
    generalize n * R = w at e ⊢
    omega
  have h4 : 2 ≤ R := by
    by_contra hc
    have : R ≤ 1 := by omega
    have : R * n ≤ 1 * n := Nat.mul_le_mul_right n this
    omega
  exact ⟨R - 1, by omega, by omega, by rw [show R - 1 + 1 = R by omega]; exact h3⟩

theorem extract_kn (b c : Basis K) (m : ℕ) (hm : m ≤ c.knots.size) (i : ℕ) (hi : i < m) :
    ({ b with knots := c.knots.extract 0 m } : Basis K).kn i = c.kn i := by
  have hs : (c.knots.extract 0 m).size = m := by simp; omega
  rw [kn_eq_getD _ (show i < (c.knots.extract 0 m).size by rw [hs]; exact hi), kn_eq_getD _ (by omega)]
  simp only [Array.getD_eq_getD_getElem?, Array.getElem?_extract]
  rw [if_pos (by omega)]
  simp

theorem shape_extract (M : Mat K) (rows cols m : ℕ) (h : Shape rows cols M) (hm : m ≤ rows) :
    Shape m cols (M.extract 0 m) ∧ ∀ r c, r < m → entry (M.extract 0 m) r c = entry M r c := by
  have hs : (M.extract 0 m).size = m := by simp; rw [h.1]; omega
  have hrow : ∀ r, r < m → (M.extract 0 m).getD r #[] = M.getD r #[] := by
    intro r hr
    simp only [Array.getD_eq_getD_getElem?, Array.getElem?_extract]
    rw [if_pos (by rw [h.1]; omega)]
    simp
  refine ⟨⟨hs, fun r hr => ?_⟩, fun r c hr => ?_⟩
  · rw [hrow r hr]; exact h.2 r (by omega)
  · unfold entry; rw [hrow r hr]

section small

variable (b : Basis K) (hv : b.Valid) (k : ℕ) (hk : b.periodic = (k : Int)) (r : ℕ) (hr1 : 1 ≤ r)
  (hR : b.order + k ≤ (r + 1) * b.numFunctions) (hsmall : b.numFunctions < b.order + k)
  (x : K) (hx : b.start ≤ x ∧ x ≤ b.stop)

include hv hk hr1 hR hsmall hx

/-- the knots of the refined cover fold, on the array -/
theorem cR_fold (i : ℕ) (hi : i + (b.numFunctions + 1) < (cB b r x (r + 1)).knots.size) :
    (cB b r x (r + 1)).kn (i + (b.numFunctions + 1))
      = (cB b r x (r + 1)).kn i + (b.stop - b.start) := by
  have hs := cB_state b hv k hk r hR x hx (r + 1) (le_refl _)
  have hper : 0 ≤ (cB b r x (r + 1)).periodic := by rw [hs.per]; omega
  have := cover_fold b hv k hk r hr1 hR hsmall x hx (i : ℤ)
  unfold cF at this
  rw [show ((i : ℤ) + ((b.numFunctions : ℤ) + 1)) = ((i + (b.numFunctions + 1) : ℕ) : ℤ) by push_cast; ring,
    zext_kn _ hs.valid hper _ hi, zext_kn _ hs.valid hper _ (by omega)] at this
  exact this

theorem cR_size : (cB b r x (r + 1)).knots.size
    = b.knots.size + r * b.numFunctions + (r + 1) :=
  (cB_state b hv k hk r hR x hx (r + 1) (le_refl _)).size

/-- `κ (p-1) = start`, `κ (k+1) = start`, `κ (n+1+k+1) = end` -/
theorem cR_ends :
    (cB b r x (r + 1)).kn (b.order - 1) = b.start ∧
    (cB b r x (r + 1)).kn (k + 1) = b.start ∧
    (cB b r x (r + 1)).kn (b.numFunctions + 1 + k + 1) = b.stop := by
  have hs := cB_state b hv k hk r hR x hx (r + 1) (le_refl _)
  have hper : 0 ≤ (cB b r x (r + 1)).periodic := by rw [hs.per]; omega
  have hsz := cR_size b hv k hk r hr1 hR hsmall x hx
  have hn := numFunctions_periodic b k hk
  have hn1 := numFunctions_pos hv
  have hp := hv.order_pos
  have hsz0 := hv.size_ge
  have hr0 : 0 < (r + 1) * b.numFunctions := by nlinarith
  have e : (r + 1) * b.numFunctions = r * b.numFunctions + b.numFunctions := by ring
  have h1 : (cB b r x (r + 1)).kn (b.order - 1) = b.start := by
    have := hs.start
    unfold Basis.start at this
    rw [hs.order] at this
    exact this
  have h2 : (cB b r x (r + 1)).kn (k + 1) = b.start := by
    have hg := hs.valid.ghosts hper (k + 1) (by rw [hs.num, hsz]; omega)
    have hst : (cB b r x (r + 1)).stop
        = (cB b r x (r + 1)).kn (k + 1 + (cB b r x (r + 1)).numFunctions) := by
      unfold Basis.stop
      congr 1
      rw [hs.order, hs.num, hsz]
      omega
    rw [← hst] at hg
    have := hs.start
    linarith
  refine ⟨h1, h2, ?_⟩
  have := cR_fold b hv k hk r hr1 hR hsmall x hx (k + 1) (by rw [hsz]; omega)
  rw [show b.numFunctions + 1 + k + 1 = k + 1 + (b.numFunctions + 1) by omega, this, h2]
  ring

/-- The spline of the refined cover, `m` periods to the right, written on the first period. -/
theorem cover_G (m : ℕ) (hm : m ≤ r) (c0 : ℕ → K) (s : Side) (d : ℕ) (t : K)
    (ht : s.mem b.start b.stop t) :
    (Finset.range (b.numFunctions + 1 + k + 1)).sum (fun i =>
        mulVec (cM b r x (r + 1)) b.numFunctions c0
            ((m * (b.numFunctions + 1) + i) % ((r + 1) * b.numFunctions + (r + 1)))
          * dB s (cB b r x (r + 1)).kn (b.order - 1) i d t)
      = wsum s b.kn (b.order - 1) (b.numFunctions + k + 1) b.numFunctions c0 d t := by
  have hs := cB_state b hv k hk r hR x hx (r + 1) (le_refl _)
  have hT : 0 < b.stop - b.start := sub_pos.2 hv.start_lt_stop
  have hsz := cR_size b hv k hk r hr1 hR hsmall x hx
  obtain ⟨e1, e2, e3⟩ := cR_ends b hv k hk r hr1 hR hsmall x hx
  have hn := numFunctions_periodic b k hk
  have hn1 := numFunctions_pos hv
  have hp := hv.order_pos
  have hsz0 := hv.size_ge
  have hmK : (m : K) ≤ (r : K) := by exact_mod_cast hm
  have hm0 : 0 ≤ (m : K) * (b.stop - b.start) := mul_nonneg (Nat.cast_nonneg m) (le_of_lt hT)
  have hmr : (m : K) * (b.stop - b.start) ≤ (r : K) * (b.stop - b.start) :=
    mul_le_mul_of_nonneg_right hmK (le_of_lt hT)
  have ht' : s.mem b.start (b.stop + (r : K) * (b.stop - b.start)) (t + (m : K) * (b.stop - b.start)) := by
    cases s
    · exact ⟨by linarith [ht.1], by linarith [ht.2]⟩
    · exact ⟨by linarith [ht.1], by linarith [ht.2]⟩
  have hsame := hs.same c0 s d _ ht'
  rw [cover_wsum b hv k hk r m hm c0 s d t ht] at hsame
  rw [← hsame]
  unfold wsum
  have eN : (r + 1) * b.numFunctions + (r + 1) + k + 1 = (r + 1) * (b.numFunctions + 1) + k + 1 := by ring
  have eN' : (r + 1) * (b.numFunctions + 1) = r * b.numFunctions + b.numFunctions + r + 1 := by ring
  rw [eN]
  have hst : s.mem ((cB b r x (r + 1)).kn (b.order - 1))
      ((cB b r x (r + 1)).kn (b.numFunctions + 1 + k + 1)) t := by rw [e1, e3]; exact ht
  rw [shift_window s (cB b r x (r + 1)).kn (kn_mono hs.valid.sorted) (b.order - 1)
    (b.numFunctions + 1) k (r + 1) m (b.stop - b.start) (by omega)
    (fun i hi => cR_fold b hv k hk r hr1 hR hsmall x hx i (by rw [hsz]; omega))
    (fun i => mulVec (cM b r x (r + 1)) b.numFunctions c0 (i % ((r + 1) * b.numFunctions + (r + 1))))
    d t hst]

/-- **Geometric half for the cover branch.**  The first `n+1` rows of the accumulated matrix,
    wrapped over the first `len(knots)+1` knots of the refined cover, reproduce the periodic
    spline. -/
theorem cover_geom (c0 : ℕ → K) (s : Side) (d : ℕ) (t : K) (ht : s.mem b.start b.stop t) :
    (Finset.range (b.numFunctions + 1 + k + 1)).sum (fun i =>
        mulVec (cM b r x (r + 1)) b.numFunctions c0 (i % (b.numFunctions + 1))
          * dB s (cB b r x (r + 1)).kn (b.order - 1) i d t)
      = wsum s b.kn (b.order - 1) (b.numFunctions + k + 1) b.numFunctions c0 d t := by
  have hs := cB_state b hv k hk r hR x hx (r + 1) (le_refl _)
  obtain ⟨e1, e2, e3⟩ := cR_ends b hv k hk r hr1 hR hsmall x hx
  have hn1 := numFunctions_pos hv
  have hp := hv.order_pos
  have hpk : k + 2 ≤ b.order := by
    rcases hv.periodic_le with h | h
    · rw [hk] at h; omega
    · rw [hk] at h; omega
  have hκ : Monotone (cB b r x (r + 1)).kn := kn_mono hs.valid.sorted
  have hNR : b.numFunctions + k + 1 < (r + 1) * b.numFunctions + (r + 1) := by
    have : 2 * b.numFunctions ≤ (r + 1) * b.numFunctions := by nlinarith
    omega
  have hNRe : (r + 1) * b.numFunctions + (r + 1) = (r + 1) * (b.numFunctions + 1) := by ring
  -- coefficient differences between the first period and the period `m'`
  have hz : ∀ m', m' ≤ r → ∀ t', (cB b r x (r + 1)).kn (b.order - 1) ≤ t' →
      t' < (cB b r x (r + 1)).kn (b.numFunctions + 1 + k + 1) →
      ∑ i ∈ Finset.range (b.numFunctions + 1 + k + 1),
        (mulVec (cM b r x (r + 1)) b.numFunctions c0 ((0 * (b.numFunctions + 1) + i) % ((r + 1) * b.numFunctions + (r + 1)))
          - mulVec (cM b r x (r + 1)) b.numFunctions c0 ((m' * (b.numFunctions + 1) + i) % ((r + 1) * b.numFunctions + (r + 1))))
          * B .right (cB b r x (r + 1)).kn (b.order - 1) i t' = 0 := by
    intro m' hm' t' h1 h2
    rw [e1] at h1
    rw [e3] at h2
    have g0 := cover_G b hv k hk r hr1 hR hsmall x hx 0 (by omega) c0 .right 0 t' ⟨h1, h2⟩
    have gr := cover_G b hv k hk r hr1 hR hsmall x hx m' hm' c0 .right 0 t' ⟨h1, h2⟩
    simp only [dB_zero] at g0 gr
    simp only [sub_mul]
    rw [Finset.sum_sub_distrib, g0, gr, sub_self]
  have hst : s.mem ((cB b r x (r + 1)).kn (b.order - 1))
      ((cB b r x (r + 1)).kn (b.numFunctions + 1 + k + 1)) t := by rw [e1, e3]; exact ht
  rw [← cover_G b hv k hk r hr1 hR hsmall x hx 0 (by omega) c0 s d t ht]
  apply Finset.sum_congr rfl
  intro i hi
  have hi' := Finset.mem_range.1 hi
  have h0mod : (0 * (b.numFunctions + 1) + i) % ((r + 1) * b.numFunctions + (r + 1)) = i := by
    rw [Nat.zero_mul, Nat.zero_add]; exact Nat.mod_eq_of_lt (by omega)
  rw [h0mod]
  -- `i = m·(n+1) + i0`
  have hdm := Nat.div_add_mod i (b.numFunctions + 1)
  have hi0 := Nat.mod_lt i (show 0 < b.numFunctions + 1 by omega)
  set m := i / (b.numFunctions + 1) with hm
  set i0 := i % (b.numFunctions + 1) with hi0def
  clear_value m i0
  by_cases hc : m = 0
  · have : i = i0 := by rw [hc] at hdm; omega
    rw [← this]
  · have hmr : m ≤ r := by
      by_contra hcon
      have : (r + 1) * (b.numFunctions + 1) ≤ m * (b.numFunctions + 1) :=
        Nat.mul_le_mul_right _ (by omega)
      rw [Nat.mul_comm m] at this
      omega
    have hU := uniq_window (cB b r x (r + 1)).kn hκ (b.order - 1) (b.numFunctions + 1 + k + 1) (by omega)
      (fun i => mulVec (cM b r x (r + 1)) b.numFunctions c0 ((0 * (b.numFunctions + 1) + i) % ((r + 1) * b.numFunctions + (r + 1)))
        - mulVec (cM b r x (r + 1)) b.numFunctions c0 (((r + 1 - m) * (b.numFunctions + 1) + i) % ((r + 1) * b.numFunctions + (r + 1))))
      (hz (r + 1 - m) (by omega)) s d t hst i hi'
    have hmod2 : ((r + 1 - m) * (b.numFunctions + 1) + i) % ((r + 1) * b.numFunctions + (r + 1)) = i0 := by
      have e : (r + 1 - m) * (b.numFunctions + 1) + i
          = (r + 1) * b.numFunctions + (r + 1) + i0 := by
        rw [hNRe, ← hdm, Nat.mul_comm (b.numFunctions + 1) m, ← Nat.add_assoc, ← Nat.add_mul,
          Nat.sub_add_cancel (le_trans hmr (Nat.le_succ r))]
      rw [e, Nat.add_mod_left, Nat.mod_eq_of_lt (by omega)]
    rcases hU with h | h
    · have h' : mulVec (cM b r x (r + 1)) b.numFunctions c0 ((0 * (b.numFunctions + 1) + i) % ((r + 1) * b.numFunctions + (r + 1)))
          - mulVec (cM b r x (r + 1)) b.numFunctions c0 (((r + 1 - m) * (b.numFunctions + 1) + i) % ((r + 1) * b.numFunctions + (r + 1))) = 0 := h
      rw [h0mod, hmod2] at h'
      have : mulVec (cM b r x (r + 1)) b.numFunctions c0 i = mulVec (cM b r x (r + 1)) b.numFunctions c0 i0 := by linarith
      rw [this]
    · rw [h, mul_zero, mul_zero]

end small

/-- **Periodic insertion into a small basis (cover branch).**  Valid periodic basis with fewer
    than `p+k` functions, `start ≤ x ≤ end`: `insert_knot` succeeds; the result is a valid periodic
    basis with one more function and the same domain; `C` is `(n+1) × n` and maps the coefficients
    of every periodic spline to coefficients of the same function (all derivatives, both sides);
    on `ℤ`, one period of the new knots is one period of the old knots with `x` inserted. -/
theorem insertKnot_periodic_small (b : Basis K) (hv : b.Valid) (k : ℕ) (hk : b.periodic = (k : Int))
    (hsmall : b.numFunctions < b.order + k) (x : K) (hx : b.start ≤ x ∧ x ≤ b.stop) :
    ∃ b' C, b.insertKnot x = .ok (b', C) ∧ PerRefines b b' C 1 ∧
      ∃ μ : ℤ, ∀ i, μ - b.numFunctions ≤ i → i ≤ μ → zext b' i = insZ (zext b) μ x i := by
  have hn1 := numFunctions_pos hv
  have hn := numFunctions_periodic b k hk
  have hp := hv.order_pos
  have hsz0 := hv.size_ge
  have hper : 0 ≤ b.periodic := by rw [hk]; omega
  have hpk : k + 2 ≤ b.order := by
    rcases hv.periodic_le with h | h
    · rw [hk] at h; omega
    · rw [hk] at h; omega
  obtain ⟨r, hRdef, hr1, hR⟩ := cover_R b.order k b.numFunctions hn1 hsmall
  have hnI : (b.knots.size : Int) - (b.order : Int) - (b.periodic + 1) = (b.numFunctions : Int) := by
    rw [hk]; omega
  have hcc : coverCond b := by
    unfold coverCond
    refine ⟨hper, ?_⟩
    rw [hnI, hk]; omega
  have hw : wrapX b x = .ok x := by
    unfold wrapX
    rw [if_pos hper, if_neg (not_or.2 ⟨not_lt.2 hx.1, not_lt.2 hx.2⟩)]
  have hRe : (b.order + b.periodic.toNat + b.numFunctions - 1) / b.numFunctions = r + 1 := by
    rw [hk]; exact hRdef
  have hs := cB_state b hv k hk r hR x hx (r + 1) (le_refl _)
  have hrun := cB_run b hv k hk r hR x hx (r + 1) (le_refl _)
  have hsz := cR_size b hv k hk r hr1 hR hsmall x hx
  obtain ⟨e1, e2, e3⟩ := cR_ends b hv k hk r hr1 hR hsmall x hx
  have hfold := cR_fold b hv k hk r hr1 hR hsmall x hx
  have hκ : Monotone (cB b r x (r + 1)).kn := kn_mono hs.valid.sorted
  have hle : b.knots.size + 1 ≤ (cB b r x (r + 1)).knots.size := by rw [hsz]; omega
  set b' : Basis K := { b with knots := (cB b r x (r + 1)).knots.extract 0 (b.knots.size + 1) } with hb'
  have hkn : ∀ i, i < b.knots.size + 1 → b'.kn i = (cB b r x (r + 1)).kn i :=
    fun i hi => extract_kn b _ _ hle i hi
  have hsize' : b'.knots.size = b.knots.size + 1 := by
    show ((cB b r x (r + 1)).knots.extract 0 (b.knots.size + 1)).size = _
    simp; omega
  have hnum' : b'.numFunctions = b.numFunctions + 1 := by
    rw [numFunctions_periodic b' k hk, hsize']
    show b.knots.size + 1 - b.order - (k + 1) = _
    omega
  have hstart' : b'.start = b.start := by
    show b'.kn (b.order - 1) = _
    rw [hkn _ (by omega), e1]
  have hstop' : b'.stop = b.stop := by
    show b'.kn (b'.knots.size - b.order) = _
    rw [hsize', show b.knots.size + 1 - b.order = b.numFunctions + 1 + k + 1 by omega,
      hkn _ (by omega), e3]
  have hvalid' : b'.Valid := by
    refine ⟨hp, by show 2 * b.order ≤ b'.knots.size; rw [hsize']; omega, fun i hi => ?_,
      hv.periodic_ge, hv.periodic_le, ?_,
      fun _ i hi => ?_⟩
    · rw [hsize'] at hi
      rw [hkn _ (by omega), hkn _ hi]
      exact hκ (Nat.le_succ i)
    · rw [hstart', hstop']; exact hv.start_lt_stop
    · rw [hnum', hsize'] at hi
      rw [hnum', hstart', hstop', hkn _ hi, hkn _ (by omega)]
      exact hfold i (by omega)
  obtain ⟨hshape, hentry⟩ := shape_extract (cM b r x (r + 1)) _ _ (b.numFunctions + 1) hs.shape
    (by have : b.numFunctions ≤ (r + 1) * b.numFunctions := by nlinarith
        omega)
  refine ⟨b', (cM b r x (r + 1)).extract 0 (b.numFunctions + 1), ?_,
    ⟨hvalid', rfl, rfl, hsize', hnum', hstart', hstop', hshape, fun c s d t ht => ?_⟩, ?_⟩
  · rw [insertKnot_cover_eq b x x hw hcc hn1 hnI, hRe]
    have : coverRun (b.stop - b.start)
        (coverBasis b (r + 1), (Basis.tileIdentity b.numFunctions (r + 1) : Mat K), x) (r + 1)
        = .ok (cB b r x (r + 1), cM b r x (r + 1),
            x + ((r + 1 : ℕ) : K) * (b.stop - b.start)) := hrun
    rw [this]
  · have hnAll : b.nAll = b.numFunctions + k + 1 := by unfold Basis.nAll; omega
    rw [hnAll, ← cover_geom b hv k hk r hr1 hR hsmall x hx c s d t ht]
    unfold wsum
    rw [show b.numFunctions + k + 1 + 1 = b.numFunctions + 1 + k + 1 by omega]
    apply Finset.sum_congr rfl
    intro i hi
    have hi' := Finset.mem_range.1 hi
    have hlt := Nat.mod_lt i (show 0 < b.numFunctions + 1 by omega)
    congr 1
    · unfold mulVec
      apply Finset.sum_congr rfl
      intro j _
      rw [hentry _ j hlt]
    · apply dB_congr_knots
      intro j hj
      exact hkn _ (by omega)
  · refine ⟨((coverBasis b (r + 1)).insertMu x : ℤ), fun i h1 h2 => ?_⟩
    have hper' : 0 ≤ b'.periodic := hper
    have hperR : 0 ≤ (cB b r x (r + 1)).periodic := by rw [hs.per]; omega
    -- the two extensions
    have hz1 : ∀ i, zext b' i = cF b r x (r + 1) i := by
      apply zper_unique (zext b') (cF b r x (r + 1)) ((b.numFunctions : ℤ) + 1) (b.stop - b.start)
        (by omega)
        (fun i => by
          have := zext_add b' hvalid' i
          rw [hnum', hstart', hstop'] at this
          push_cast at this
          exact this)
        (fun i => cover_fold b hv k hk r hr1 hR hsmall x hx i) 0
      intro i h1 h2
      obtain ⟨j, rfl⟩ : ∃ j : ℕ, i = (j : ℤ) := ⟨i.toNat, by omega⟩
      have hj : j < b.numFunctions + 1 := by omega
      unfold cF
      rw [zext_kn b' hvalid' hper' j (by rw [hsize']; omega),
        zext_kn _ hs.valid hperR j (by omega), hkn j (by omega)]
    have hz0 : ∀ i, zext b i = cF b r x 0 i := by
      obtain ⟨hcv, _, _, _⟩ := coverBasis_valid b hv k hk r
      have hcsz : (coverBasis b (r + 1)).knots.size = b.knots.size + r * b.numFunctions := by
        rw [coverBasis_size b hv (r + 1)]; rfl
      apply zper_unique (zext b) (cF b r x 0) (b.numFunctions : ℤ) (b.stop - b.start) (by omega)
        (fun i => zext_add b hv i)
        (fun i => cF_zero_per b hv k hk r hR hsmall x hx i) 0
      intro i h1 h2
      obtain ⟨j, rfl⟩ : ∃ j : ℕ, i = (j : ℤ) := ⟨i.toNat, by omega⟩
      have hj : j < b.numFunctions := by omega
      unfold cF
      rw [cB_zero, zext_kn b hv hper j (by omega),
        zext_kn _ hcv (show 0 ≤ (coverBasis b (r + 1)).periodic from hper) j (by omega),
        coverBasis_kn_lt b hv _ j (by omega)]
    rw [hz1, cover_low b hv k hk r hr1 hR hsmall x hx r (le_refl r) i h1 h2]
    congr 1
    funext i
    exact (hz0 i).symm

end C04
end Splipy
