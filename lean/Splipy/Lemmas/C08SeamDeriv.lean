import Splipy.Lemmas.C08SeamRow
import Splipy.Lemmas.C08Periodicity
import Splipy.Model.Object

/-!
# Seam smoothness at the level of `BSplineBasis.evaluate` and `SplineObject.derivative`

`Basis.SeamMultLe b m`: at most `m` knots of `b` equal `start` (no `m + 1` consecutive ones).  For a
valid periodic basis of order `p` and every derivative order `d` with `d + m ≤ p - 1` (for the
declared seam multiplicity `m = p - 1 - k`: every `d ≤ k`) the derivative ROW the code returns at the
domain end `stop` — from either side: beyond `stop` the evaluator uses the left limit — and at `start`
from below (which the code maps to the left limit at `stop`) is the row at `start` from above.

The periodic continuation `Basis.ext` of the knots (`Lemmas/C07Roll.lean`) supplies the infinite
periodic sequence that `periodic_seam_smooth` needs; the rows only see knots `< knots.size`, where
`ext` and `kn` agree.
-/

namespace Splipy

set_option linter.unusedSectionVars false
set_option linter.unusedVariables false

variable {K : Type} [Field K] [LinearOrder K] [IsStrictOrderedRing K] [FloorRing K]

/-- At most `m` knots equal `start`. `m = p - 1` is `Basis.SeamSimple`. -/
def Basis.SeamMultLe (b : Basis K) (m : ℕ) : Prop :=
  ∀ j, j + m < b.knots.size → b.kn j = b.start → b.kn (j + m) ≠ b.start

theorem Basis.seamSimple_iff (b : Basis K) : b.SeamSimple ↔ b.SeamMultLe (b.order - 1) := Iff.rfl

theorem periodicEff_stop {b : Basis K} (hlt : b.start < b.stop) (fr : Bool) :
    periodicEff b b.stop fr = (b.stop, .left) := by
  unfold periodicEff effSide
  rw [if_neg (fun h => absurd h.1 (ne_of_gt hlt)), if_pos rfl]

theorem periodicEff_start_right {b : Basis K} (hlt : b.start < b.stop) :
    periodicEff b b.start true = (b.start, .right) := by
  unfold periodicEff effSide
  rw [if_neg (by simp), if_neg (ne_of_lt hlt)]
  rfl

theorem periodicEff_start_left (b : Basis K) :
    periodicEff b b.start false = (b.stop, .left) := by
  unfold periodicEff
  rw [if_pos ⟨rfl, rfl⟩]

/-- Entry `c` of the derivative row whose effective point/side is the left limit at `stop`
equals the entry of the row at `start` from the right. -/
theorem seam_entry {b : Basis K} (hv : b.Valid) (hper : 0 ≤ b.periodic) {m d : ℕ}
    (hmult : b.SeamMultLe m) (hd : d + m ≤ b.order - 1) (c : ℕ) :
    ∑ i ∈ (Finset.range b.nAll).filter (fun i => i % b.numFunctions = c),
        dB Side.left b.kn (b.order - 1) i d b.stop
      = ∑ i ∈ (Finset.range b.nAll).filter (fun i => i % b.numFunctions = c),
        dB Side.right b.kn (b.order - 1) i d b.start := by
  have hp := hv.order_pos
  have hlt := hv.start_lt_stop
  have hs := Basis.per_size hv hper
  have hnAll := Basis.per_nAll hv hper
  have hk := Basis.per_k_le hv hper
  have hn := hv.numFunctions_pos
  rw [sum_filter_eq_splineDeriv, sum_filter_eq_splineDeriv]
  have hext : ∀ i, i < b.knots.size → b.ext i = b.kn i := Basis.ext_eq hv hper
  have hcongr : ∀ (s : Side) (t : K),
      splineDeriv s b.kn (b.order - 1) b.nAll (fun i => if i % b.numFunctions = c then (1:K) else 0) d t
        = splineDeriv s b.ext (b.order - 1) b.nAll (fun i => if i % b.numFunctions = c then (1:K) else 0) d t := by
    intro s t
    unfold splineDeriv
    apply Finset.sum_congr rfl
    intro i hi
    rw [Finset.mem_range] at hi
    congr 1
    apply dB_congr_knots
    intro j hj
    exact (hext (i + j) (by unfold Basis.nAll at hi; omega)).symm
  rw [hcongr, hcongr]
  have hq : b.ext (b.order - 1) = b.start := by rw [hext _ (by omega)]; rfl
  have hstopT : b.stop = b.ext (b.order - 1) + (b.stop - b.start) := by rw [hq]; ring
  rw [show splineDeriv Side.left b.ext (b.order - 1) b.nAll
        (fun i => if i % b.numFunctions = c then (1:K) else 0) d b.stop
      = splineDeriv Side.left b.ext (b.order - 1) b.nAll
        (fun i => if i % b.numFunctions = c then (1:K) else 0) d
        (b.ext (b.order - 1) + (b.stop - b.start)) from by rw [← hstopT]]
  rw [show splineDeriv Side.right b.ext (b.order - 1) b.nAll
        (fun i => if i % b.numFunctions = c then (1:K) else 0) d b.start
      = splineDeriv Side.right b.ext (b.order - 1) b.nAll
        (fun i => if i % b.numFunctions = c then (1:K) else 0) d (b.ext (b.order - 1)) from by rw [hq]]
  apply periodic_seam_smooth b.ext (Basis.ext_mono hv hper) b.numFunctions (b.stop - b.start)
    (Basis.ext_add hv hper) (fun i => if i % b.numFunctions = c then (1:K) else 0)
    (fun i => by simp only [Nat.add_mod_right]) (b.order - 1) m d b.nAll
    (sub_pos.2 hlt) hd
  · intro j hj
    rw [hq] at hj ⊢
    have hmono := Basis.ext_mono hv hper
    have hlast : b.stop ≤ b.ext (b.knots.size - 1) := by
      rw [hext _ (by omega)]
      exact hv.kn_mono (by omega)
    by_cases hjs : j + m < b.knots.size
    · rw [hext _ hjs]
      exact hmult j hjs (by rw [← hext _ (by omega)]; exact hj)
    · intro hc'
      have : b.ext (b.knots.size - 1) ≤ b.ext (j + m) := hmono (by omega)
      rw [hc'] at this
      exact absurd (lt_of_lt_of_le hlt (le_trans hlast this)) (lt_irrefl _)
  · rw [hq, hext _ (by unfold Basis.nAll; omega)]
    show b.start + (b.stop - b.start) ≤ b.stop
    linarith
  · unfold Basis.nAll; omega

/-- **Derivative rows across the seam**: the row at `stop` (either side) is the row at `start` from
above, for every `d` with `d + m ≤ p - 1`. -/
theorem evaluate_stop_eq_start_deriv {b : Basis K} (hv : b.Valid) (hper : 0 ≤ b.periodic) {m d : ℕ}
    (hmult : b.SeamMultLe m) (hd : d + m ≤ b.order - 1)
    {tol : K} (htol : 0 < tol) (hex0 : b.ExactAt tol b.start) (hex1 : b.ExactAt tol b.stop)
    (fr : Bool) :
    b.evaluate tol b.stop d fr = b.evaluate tol b.start d true := by
  have hp := hv.order_pos
  have hlt := hv.start_lt_stop
  apply array_ext_getD _ _ b.numFunctions (evaluate_size _ _ _ _ _) (evaluate_size _ _ _ _ _)
  intro c hc
  rw [evaluate_getD_periodic hv hper htol hex1 (le_of_lt hlt) (le_refl _) fr (by omega) hc,
    evaluate_getD_periodic hv hper htol hex0 (le_refl _) (le_of_lt hlt) true (by omega) hc,
    periodicEff_stop hlt, periodicEff_start_right hlt]
  exact seam_entry hv hper hmult hd c

/-- The row at `start` from BELOW (the code evaluates the left limit at `stop`) is the row at `start`
from above. -/
theorem evaluate_start_left_eq_right_deriv {b : Basis K} (hv : b.Valid) (hper : 0 ≤ b.periodic)
    {m d : ℕ} (hmult : b.SeamMultLe m) (hd : d + m ≤ b.order - 1)
    {tol : K} (htol : 0 < tol) (hex0 : b.ExactAt tol b.start) :
    b.evaluate tol b.start d false = b.evaluate tol b.start d true := by
  have hp := hv.order_pos
  have hlt := hv.start_lt_stop
  apply array_ext_getD _ _ b.numFunctions (evaluate_size _ _ _ _ _) (evaluate_size _ _ _ _ _)
  intro c hc
  rw [evaluate_getD_periodic hv hper htol hex0 (le_refl _) (le_of_lt hlt) false (by omega) hc,
    evaluate_getD_periodic hv hper htol hex0 (le_refl _) (le_of_lt hlt) true (by omega) hc,
    periodicEff_start_left, periodicEff_start_right hlt]
  exact seam_entry hv hper hmult hd c

/-- The contraction `mk ds ab` inside `Obj.derivativeGeneric`. -/
def Obj.derivMk (o : Obj K) (tol : K) (ps : List (List K)) (ds : List ℕ) (ab : List Bool)
    (tensor : Bool) : Tensor K :=
  let Ns := (List.zip (List.zip o.bases.toList ps) (List.zip ds ab)).map
              (fun ((b, p), (d, a)) => Obj.basisMat b tol p d a)
  if tensor then Obj.contractGrid Ns o.cps else Obj.contractPointwise Ns o.cps (ps.headD []).length

/-- The post-processing of `Obj.derivativeGeneric` (projection / quotient rule for rational objects). -/
def Obj.derivPost (o : Obj K) (derivs : List ℕ) (res nond : Tensor K) : PyM (Tensor K) :=
  if o.rational then
    if derivs.sum > 1 then .error .runtime else
    if derivs.sum = 0 then
      .ok { shape := res.shape.dropLast ++ [o.dimension],
            data := Array.ofFn (n := res.size / o.ncomp * o.dimension) (fun idx =>
              let pI := idx.val / o.dimension
              let c := idx.val % o.dimension
              res.get (pI * o.ncomp + c) / res.get (pI * o.ncomp + o.dimension)) }
    else
    let dim := o.dimension
    let nc := o.ncomp
    let npts := res.size / nc
    .ok { shape := res.shape.dropLast ++ [dim],
          data := Array.ofFn (n := npts * dim) (fun idx =>
            let pI := idx.val / dim
            let c := idx.val % dim
            RatDeriv.first (nond.get (pI * nc + c)) (res.get (pI * nc + c))
                           (nond.get (pI * nc + dim)) (res.get (pI * nc + dim))) }
  else .ok res

theorem Obj.derivativeGeneric_eq_post (o : Obj K) (tol : K) (params : List (List K))
    (derivs : List ℕ) (above : List Bool) (tensor : Bool) :
    o.derivativeGeneric tol params derivs above tensor =
      if !tensor ∧ (params.map List.length).eraseDups.length ≠ 1 then .error .value else
      match o.validateDomain tol params with
      | .error e => .error e
      | .ok ps => o.derivPost derivs (o.derivMk tol ps derivs above tensor)
          (o.derivMk tol ps (above.map (fun _ => 0)) above tensor) := rfl

theorem Obj.derivMk_curve (o : Obj K) {b : Basis K} (hb : o.bases = #[b]) (tol u : K) (d : ℕ)
    (a tensor : Bool) :
    o.derivMk tol [[u]] [d] [a] tensor =
      if tensor then Obj.contractGrid [#[b.evaluate tol u d a]] o.cps
      else Obj.contractPointwise [#[b.evaluate tol u d a]] o.cps 1 := by
  simp [Obj.derivMk, hb, Obj.basisMat]

/-- `SplineObject.derivative` of a curve over a periodic basis sees the parameter only through the
rows of order `0` and `d` at the snapped parameter. -/
theorem derivativeGeneric_curve_rows (o : Obj K) {b : Basis K} (hb : o.bases = #[b])
    (hper : 0 ≤ b.periodic) (tol t t' : K) (d : ℕ) (a a' tensor : Bool)
    (h0 : b.evaluate tol (snap b tol t) 0 a = b.evaluate tol (snap b tol t') 0 a')
    (hd : b.evaluate tol (snap b tol t) d a = b.evaluate tol (snap b tol t') d a') :
    o.derivativeGeneric tol [[t]] [d] [a] tensor = o.derivativeGeneric tol [[t']] [d] [a'] tensor := by
  have hv : ∀ u, o.validateDomain tol [[u]] = .ok [[snap b tol u]] := by
    intro u
    unfold Obj.validateDomain
    simp [hb, not_lt.2 hper]
  rw [Obj.derivativeGeneric_eq_post, Obj.derivativeGeneric_eq_post, hv, hv]
  simp only [List.map_cons, List.map_nil]
  rw [Obj.derivMk_curve o hb, Obj.derivMk_curve o hb, Obj.derivMk_curve o hb,
    Obj.derivMk_curve o hb, h0, hd]
  rfl

/-- **Object level: derivatives up to the order the seam multiplicity allows agree across the
seam.**  Curve (rational or not) over a valid periodic basis `b` with at most `m` knots at `start`;
`d + m ≤ p - 1`; `start`, `stop` exact for the tolerance.  Then `derivative(stop, d, above)` (either
side) and `derivative(start, d, above=False)` return what `derivative(start, d, above=True)` returns
(the same tensor, or the same error for rational curves and `d > 1`). -/
theorem derivativeGeneric_seam (o : Obj K) {b : Basis K} (hb : o.bases = #[b]) (hv : b.Valid)
    (hper : 0 ≤ b.periodic) {m d : ℕ} (hmult : b.SeamMultLe m) (hd : d + m ≤ b.order - 1)
    {tol : K} (htol : 0 < tol) (hex0 : b.ExactAt tol b.start) (hex1 : b.ExactAt tol b.stop)
    (a tensor : Bool) :
    o.derivativeGeneric tol [[b.stop]] [d] [a] tensor
        = o.derivativeGeneric tol [[b.start]] [d] [true] tensor ∧
      o.derivativeGeneric tol [[b.start]] [d] [false] tensor
        = o.derivativeGeneric tol [[b.start]] [d] [true] tensor := by
  have hd0 : 0 + m ≤ b.order - 1 := by omega
  have s0 := snap_of_exact b htol hex0
  have s1 := snap_of_exact b htol hex1
  have r0 := evaluate_stop_eq_start_deriv hv hper hmult hd0 htol hex0 hex1 a
  have rd := evaluate_stop_eq_start_deriv hv hper hmult hd htol hex0 hex1 a
  have l0 := evaluate_start_left_eq_right_deriv hv hper hmult hd0 htol hex0
  have ld := evaluate_start_left_eq_right_deriv hv hper hmult hd htol hex0
  rw [← s0] at l0 ld
  rw [← s0, ← s1] at r0 rd
  exact ⟨derivativeGeneric_curve_rows o hb hper tol b.stop b.start d a true tensor r0 rd,
    derivativeGeneric_curve_rows o hb hper tol b.start b.start d false true tensor l0 ld⟩

end Splipy
