import Splipy.Lemmas.C15EvaluateVol

/-!
# "The face of the volume `X` is the surface `a`", in the forms the library offers

`FaceAgrees tol X a B0 B1 sel params unwrap`:
* `SplineObject.section` (`Obj.sectionSel X sel`) returns a `Surface` on `B0 × B1` that is the same map as `a` and
  evaluates (`Obj.evaluate`) to the same array as `a` at all admissible parameter grids;
* evaluating `X` itself on the face (`params us vs` = `[[x], us, vs]`, `[us, [x], vs]` or `[us, vs, [x]]`) returns
  the numbers of evaluating `a` on `us × vs`.
-/

set_option linter.unusedSectionVars false

namespace Splipy
namespace C15

open C06 C12 Obj Basis Finset Sections

variable {K : Type} [Field K] [LinearOrder K] [IsStrictOrderedRing K] [FloorRing K]

structure FaceAgrees (tol : K) (X a : Obj K) (B0 B1 : Basis K) (sel : Sec)
    (params : List K → List K → List (List K)) (unwrap : Bool) : Prop where
  /-- boundary extraction by `section` -/
  sec : ∃ A : Obj K, X.sectionSel sel unwrap = .ok (.obj "Surface" A) ∧ A.bases = #[B0, B1] ∧ SameMap 2 a A
    ∧ ∀ us vs : List K, us ≠ [] → vs ≠ [] → (∀ u ∈ us, B0.Admissible tol u) → (∀ v ∈ vs, B1.Admissible tol v) →
        ∃ res, a.evaluate tol [us, vs] true = .ok res ∧ A.evaluate tol [us, vs] true = .ok res
  /-- evaluation of the volume itself on the face -/
  ev : ∀ us vs : List K, us ≠ [] → vs ≠ [] → (∀ u ∈ us, B0.Admissible tol u) → (∀ v ∈ vs, B1.Admissible tol v) →
        ∃ rX ra, X.evaluate tol (params us vs) true = .ok rX ∧ a.evaluate tol [us, vs] true = .ok ra
          ∧ rX.data = ra.data

/-- What the three face lemmas share: a face section `A` of `X` with the map `F`, and a surface `a` with the
    same map, both on `B0 × B1`. -/
theorem faceAgrees_sec {tol : K} (htol : 0 < tol) {A a : Obj K} {pa pb : ℕ} {Ua Ub : List K} {Ma Mb : List ℕ}
    {rat : Bool} {nc : ℕ}
    (hA : UnitSurf a pa pb Ua Ub Ma Mb rat nc) (hpos : rat = true → 1 ≤ nc)
    (F : ℕ → Side → Side → K → K → K)
    (hf : IsFaceOf A (unitBasis pa Ua Ma) (unitBasis pb Ub Mb) rat nc F)
    (hmap : ∀ comp, comp < nc → ∀ (s1 s2 : Side) (x y : K), F comp s1 s2 x y = (toTP a 2 comp).eval ![s1, s2] ![x, y]) :
    A.bases = #[unitBasis pa Ua Ma, unitBasis pb Ub Mb] ∧ SameMap 2 a A
      ∧ ∀ us vs : List K, us ≠ [] → vs ≠ [] → (∀ u ∈ us, (unitBasis pa Ua Ma).Admissible tol u) →
          (∀ v ∈ vs, (unitBasis pb Ub Mb).Admissible tol v) →
          ∃ res, a.evaluate tol [us, vs] true = .ok res ∧ A.evaluate tol [us, vs] true = .ok res := by
  obtain ⟨hb, hr, hw, hn, hev⟩ := hf
  have b0 : A.basis 0 = unitBasis pa Ua Ma := by unfold Obj.basis; rw [hb]; rfl
  have b1 : A.basis 1 = unitBasis pb Ub Mb := by unfold Obj.basis; rw [hb]; rfl
  have hsm : SameMap 2 a A := by
    apply sameMap_surface_of (hn.trans hA.ncomp.symm)
    intro comp hc s1 s2 x y
    rw [hA.ncomp] at hc
    rw [hev comp hc, hmap comp hc]
  refine ⟨hb, hsm, fun us vs hnu hnv hu hv => ?_⟩
  obtain ⟨res, r1, r2, _⟩ := evaluate_eq_surface hA.wf hw (by rw [hA.b0]; rfl) (by rw [hA.b1]; rfl)
    (by rw [b0]; rfl) (by rw [b1]; rfl) (by rw [b0, hA.b0]) (by rw [b1, hA.b1]) (hr.trans hA.rational.symm)
    (fun h => by rw [hA.ncomp]; exact hpos (hA.rational.symm.trans h)) hsm htol hnu hnv
    (by rw [hA.b0]; exact hu) (by rw [b0]; exact hu) (by rw [hA.b1]; exact hv) (by rw [b1]; exact hv)
  exact ⟨res, r1, r2⟩

/-- Face `u = 0` / `u = 1` of a volume of the family. -/
theorem UnitVol.face_u_agrees {tol : K} (htol : 0 < tol) {X : Obj K} {p : Fin 3 → ℕ} {U : Fin 3 → List K}
    {M : Fin 3 → List ℕ} {rat : Bool} {nc : ℕ} (h : UnitVol X p U M rat nc)
    (k : ∀ d, UnitKnots tol (p d) (U d) (M d)) (e : Bool) (a : Obj K)
    (hA : UnitSurf a (p 1) (p 2) (U 1) (U 2) (M 1) (M 2) rat nc) (hpos : rat = true → 1 ≤ nc)
    (hmap : ∀ comp, comp < nc → ∀ (s1 s2 : Side) (x y : K),
      (toTP X 3 comp).eval ![sideOf e, s1, s2] ![endOf e, x, y] = (toTP a 2 comp).eval ![s1, s2] ![x, y])
    (unwrap : Bool) :
    FaceAgrees tol X a (unitBasis (p 1) (U 1) (M 1)) (unitBasis (p 2) (U 2) (M 2)) [endSel e, none, none]
      (fun vs ws => [[endOf e], vs, ws]) unwrap := by
  obtain ⟨⟨A, hs, hf⟩, _, _⟩ := h.face_sections htol k e unwrap
  have hB0 : X.basis 0 = unitBasis (p 0) (U 0) (M 0) := h.basis 0
  have hB1 : X.basis 1 = unitBasis (p 1) (U 1) (M 1) := h.basis 1
  have hB2 : X.basis 2 = unitBasis (p 2) (U 2) (M 2) := h.basis 2
  rw [hB1, hB2] at hf
  obtain ⟨g1, g2, g3⟩ := faceAgrees_sec htol hA hpos _ hf hmap
  obtain ⟨adm0, adm1, es0, es1, _, _⟩ := (k 0).ends_admissible htol
  refine ⟨⟨A, hs, g1, g2, g3⟩, fun vs ws hnv hnw hv hw => ?_⟩
  have hx : (X.basis 0).Admissible tol (endOf e) := by
    rw [hB0]; unfold endOf; cases e
    · simpa using adm0
    · simpa using adm1
  have hside : effSide (X.basis 0) (endOf e) true = sideOf e := by
    rw [hB0]; unfold endOf sideOf; cases e
    · simpa using es0
    · simpa using es1
  exact evaluate_face_u h.wf hA.wf h.nonper (by rw [hA.b0]; rfl) (by rw [hA.b1]; rfl)
    (by rw [hB1, hA.b0]) (by rw [hB2, hA.b1])
    (h.rational.trans hA.rational.symm) (h.ncomp.trans hA.ncomp.symm)
    (fun hh => by rw [hA.ncomp]; exact hpos (hA.rational.symm.trans hh)) (endOf e)
    (by intro comp hc s1 s2 t1 t2; rw [hside]; exact hmap comp (by rw [← hA.ncomp]; exact hc) s1 s2 t1 t2)
    htol hnv hnw (by rw [hA.b0]; exact hv) (by rw [hB1]; exact hv)
    (by rw [hA.b1]; exact hw) (by rw [hB2]; exact hw) hx

/-- Face `v = 0` / `v = 1`. -/
theorem UnitVol.face_v_agrees {tol : K} (htol : 0 < tol) {X : Obj K} {p : Fin 3 → ℕ} {U : Fin 3 → List K}
    {M : Fin 3 → List ℕ} {rat : Bool} {nc : ℕ} (h : UnitVol X p U M rat nc)
    (k : ∀ d, UnitKnots tol (p d) (U d) (M d)) (e : Bool) (a : Obj K)
    (hA : UnitSurf a (p 0) (p 2) (U 0) (U 2) (M 0) (M 2) rat nc) (hpos : rat = true → 1 ≤ nc)
    (hmap : ∀ comp, comp < nc → ∀ (s1 s2 : Side) (x y : K),
      (toTP X 3 comp).eval ![s1, sideOf e, s2] ![x, endOf e, y] = (toTP a 2 comp).eval ![s1, s2] ![x, y])
    (unwrap : Bool) :
    FaceAgrees tol X a (unitBasis (p 0) (U 0) (M 0)) (unitBasis (p 2) (U 2) (M 2)) [none, endSel e, none]
      (fun us ws => [us, [endOf e], ws]) unwrap := by
  obtain ⟨_, ⟨A, hs, hf⟩, _⟩ := h.face_sections htol k e unwrap
  have hB0 : X.basis 0 = unitBasis (p 0) (U 0) (M 0) := h.basis 0
  have hB1 : X.basis 1 = unitBasis (p 1) (U 1) (M 1) := h.basis 1
  have hB2 : X.basis 2 = unitBasis (p 2) (U 2) (M 2) := h.basis 2
  rw [hB0, hB2] at hf
  obtain ⟨g1, g2, g3⟩ := faceAgrees_sec htol hA hpos _ hf hmap
  obtain ⟨adm0, adm1, es0, es1, _, _⟩ := (k 1).ends_admissible htol
  refine ⟨⟨A, hs, g1, g2, g3⟩, fun us ws hnu hnw hu hw => ?_⟩
  have hx : (X.basis 1).Admissible tol (endOf e) := by
    rw [hB1]; unfold endOf; cases e
    · simpa using adm0
    · simpa using adm1
  have hside : effSide (X.basis 1) (endOf e) true = sideOf e := by
    rw [hB1]; unfold endOf sideOf; cases e
    · simpa using es0
    · simpa using es1
  exact evaluate_face_v h.wf hA.wf h.nonper (by rw [hA.b0]; rfl) (by rw [hA.b1]; rfl)
    (by rw [hB0, hA.b0]) (by rw [hB2, hA.b1])
    (h.rational.trans hA.rational.symm) (h.ncomp.trans hA.ncomp.symm)
    (fun hh => by rw [hA.ncomp]; exact hpos (hA.rational.symm.trans hh)) (endOf e)
    (by intro comp hc s1 s2 t1 t2; rw [hside]; exact hmap comp (by rw [← hA.ncomp]; exact hc) s1 s2 t1 t2)
    htol hnu hnw (by rw [hA.b0]; exact hu) (by rw [hB0]; exact hu)
    (by rw [hA.b1]; exact hw) (by rw [hB2]; exact hw) hx

/-- Face `w = 0` / `w = 1`. -/
theorem UnitVol.face_w_agrees {tol : K} (htol : 0 < tol) {X : Obj K} {p : Fin 3 → ℕ} {U : Fin 3 → List K}
    {M : Fin 3 → List ℕ} {rat : Bool} {nc : ℕ} (h : UnitVol X p U M rat nc)
    (k : ∀ d, UnitKnots tol (p d) (U d) (M d)) (e : Bool) (a : Obj K)
    (hA : UnitSurf a (p 0) (p 1) (U 0) (U 1) (M 0) (M 1) rat nc) (hpos : rat = true → 1 ≤ nc)
    (hmap : ∀ comp, comp < nc → ∀ (s1 s2 : Side) (x y : K),
      (toTP X 3 comp).eval ![s1, s2, sideOf e] ![x, y, endOf e] = (toTP a 2 comp).eval ![s1, s2] ![x, y])
    (unwrap : Bool) :
    FaceAgrees tol X a (unitBasis (p 0) (U 0) (M 0)) (unitBasis (p 1) (U 1) (M 1)) [none, none, endSel e]
      (fun us vs => [us, vs, [endOf e]]) unwrap := by
  obtain ⟨_, _, ⟨A, hs, hf⟩⟩ := h.face_sections htol k e unwrap
  have hB0 : X.basis 0 = unitBasis (p 0) (U 0) (M 0) := h.basis 0
  have hB1 : X.basis 1 = unitBasis (p 1) (U 1) (M 1) := h.basis 1
  have hB2 : X.basis 2 = unitBasis (p 2) (U 2) (M 2) := h.basis 2
  rw [hB0, hB1] at hf
  obtain ⟨g1, g2, g3⟩ := faceAgrees_sec htol hA hpos _ hf hmap
  obtain ⟨adm0, adm1, es0, es1, _, _⟩ := (k 2).ends_admissible htol
  refine ⟨⟨A, hs, g1, g2, g3⟩, fun us vs hnu hnv hu hv => ?_⟩
  have hx : (X.basis 2).Admissible tol (endOf e) := by
    rw [hB2]; unfold endOf; cases e
    · simpa using adm0
    · simpa using adm1
  have hside : effSide (X.basis 2) (endOf e) true = sideOf e := by
    rw [hB2]; unfold endOf sideOf; cases e
    · simpa using es0
    · simpa using es1
  exact evaluate_face_w h.wf hA.wf h.nonper (by rw [hA.b0]; rfl) (by rw [hA.b1]; rfl)
    (by rw [hB0, hA.b0]) (by rw [hB1, hA.b1])
    (h.rational.trans hA.rational.symm) (h.ncomp.trans hA.ncomp.symm)
    (fun hh => by rw [hA.ncomp]; exact hpos (hA.rational.symm.trans hh)) (endOf e)
    (by intro comp hc s1 s2 t1 t2; rw [hside]; exact hmap comp (by rw [← hA.ncomp]; exact hc) s1 s2 t1 t2)
    htol hnu hnv (by rw [hA.b0]; exact hu) (by rw [hB0]; exact hu)
    (by rw [hA.b1]; exact hv) (by rw [hB1]; exact hv) hx

end C15
end Splipy
