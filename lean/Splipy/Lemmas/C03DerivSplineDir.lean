import Splipy.Lemmas.C03DerivSplineObj

/-!
# C03 – one differentiated direction of `get_derivative_spline`, abstractly (`DSplineDir`)

`DSplineDir b nb tol Ok` packages what the object-level theorems need about the differentiated direction:
the derivative basis `nb` is valid, has as many functions as the difference matrix has rows, parameters
satisfying `Ok` are admissible for both bases, and the ONE-DIRECTION IDENTITY
`Σ_j rowSpec_b(u, d=1)_j · cf_j = Σ_j specRow_nb(u)_j · (C·cf)_j` holds.
Instances: clamped non-periodic bases of order ≥ 2 (`DSplineDir.of_clamped`) and periodic bases with at least
two functions (`DSplineDir.of_periodic`; continuity `k ≥ 1` gives a periodic derivative basis of continuity
`k-1`, `k = 0` a non-periodic one with the same number of functions).
-/

namespace Splipy

set_option linter.unusedSectionVars false
open Tensor

variable {K : Type} [Field K] [LinearOrder K] [IsStrictOrderedRing K] [FloorRing K]

/-- `(C · cf)_j` for the difference matrix of `b`. -/
def Obj.dmRow (b : Basis K) (j : ℕ) (cf : ℕ → K) : K :=
  ∑ i ∈ Finset.range b.numFunctions,
    ((Obj.derivativeMatrix b b.numFunctions).getD j #[]).getD i 0 * cf i

structure DSplineDir (b nb : Basis K) (tol : K) (Ok : K → Prop) : Prop where
  valid : nb.Valid
  rows : (Obj.derivativeMatrix b b.numFunctions).size = nb.numFunctions
  admb : ∀ u, Ok u → b.Admissible tol u
  adm : ∀ u, Ok u → nb.Admissible tol u
  ident : ∀ u, Ok u → ∀ cf : ℕ → K,
    ∑ j ∈ Finset.range b.numFunctions, b.rowSpec u true 1 j * cf j =
      ∑ j ∈ Finset.range nb.numFunctions, nb.specRow u j * Obj.dmRow b j cf

/-- Clamped non-periodic basis of order ≥ 2. -/
theorem DSplineDir.of_clamped {b nb : Basis K} (hD : IsDerivBasis b nb) (hv : b.Valid)
    (hper : b.periodic = -1) (hp : 2 ≤ b.order) (hc0 : b.kn (b.order - 1) = b.kn 0)
    (hcN : b.kn (b.nAll + b.order - 1) = b.kn b.nAll) (tol : K) :
    DSplineDir b nb tol (fun u => b.Admissible tol u) where
  valid := hD.valid hv hp
  rows := by
    rw [derivativeMatrix_size b b.numFunctions (by rw [hper]; decide), hD.numFunctions hper hp hv]
  admb := fun _ h => h
  adm := fun _ h => hD.admissible hv hper hp h
  ident := by
    intro u _ cf
    rw [derivSpline_1d hD hv hper hp hc0 hcN]
    apply Finset.sum_congr rfl
    intro j hj
    rw [Finset.mem_range, hD.numFunctions hper hp hv] at hj
    have hsz := hv.size_ge
    have hnf : b.numFunctions = b.knots.size - b.order := by
      rw [Basis.numFunctions_of_nonperiodic hper]; rfl
    unfold Obj.dmRow
    rw [derivativeMatrix_row_sum b b.numFunctions j (by rw [hper]; decide) (by omega) cf]

/-! ## Periodic directions -/

/-- The derivative basis of a periodic direction of continuity `k`: order `p-1`, `knots[1:-1]`, continuity `k-1`
(`-1`, i.e. not periodic, for `k = 0`). -/
structure IsDerivBasisP (b nb : Basis K) : Prop where
  order : nb.order = b.order - 1
  knots : nb.knots = b.knots.extract 1 (b.knots.size - 1)
  periodic : nb.periodic = b.periodic - 1

namespace IsDerivBasisP

variable {b nb : Basis K}

theorem size (h : IsDerivBasisP b nb) : nb.knots.size = b.knots.size - 2 := by
  rw [h.knots]; simp; omega

theorem kn (h : IsDerivBasisP b nb) {j : ℕ} (hj : j + 2 < b.knots.size) : nb.kn j = b.kn (j + 1) :=
  extract_kn b nb h.knots j hj

/-- Size bookkeeping of a valid periodic basis with at least two functions. -/
theorem sizes (hv : b.Valid) (hper : 0 ≤ b.periodic) (hn : 2 ≤ b.numFunctions) :
    ∃ k : ℕ, b.periodic = (k : Int) ∧ k + 2 ≤ b.order ∧
      b.knots.size = b.numFunctions + b.order + k + 1 := by
  obtain ⟨k, hk⟩ := Int.eq_ofNat_of_zero_le hper
  refine ⟨k, hk, ?_, ?_⟩
  · rcases hv.periodic_le with h | h
    · rw [hk] at h; omega
    · rw [h] at hper; exact absurd hper (by decide)
  · unfold Basis.numFunctions at hn ⊢
    rw [hk] at hn ⊢
    have : ((k : Int) + 1).toNat = k + 1 := by omega
    rw [this] at hn ⊢
    omega

theorem numFunctions (h : IsDerivBasisP b nb) (hv : b.Valid) (hper : 0 ≤ b.periodic)
    (hn : 2 ≤ b.numFunctions) : nb.numFunctions = b.numFunctions := by
  obtain ⟨k, hk, hkp, hsz⟩ := sizes hv hper hn
  unfold Basis.numFunctions
  rw [h.size, h.order, h.periodic, hk]
  have e1 : ((k : Int) - 1 + 1).toNat = k := by omega
  have e2 : ((k : Int) + 1).toNat = k + 1 := by omega
  rw [e1, e2]
  unfold Basis.numFunctions at hsz
  rw [hk, e2] at hsz
  omega

theorem nAll (h : IsDerivBasisP b nb) (hv : b.Valid) (hper : 0 ≤ b.periodic)
    (hn : 2 ≤ b.numFunctions) : nb.nAll = b.nAll - 1 := by
  obtain ⟨k, hk, hkp, hsz⟩ := sizes hv hper hn
  unfold Basis.nAll
  rw [h.size, h.order]
  omega

theorem start_eq (h : IsDerivBasisP b nb) (hv : b.Valid) (hper : 0 ≤ b.periodic)
    (hn : 2 ≤ b.numFunctions) : nb.start = b.start := by
  obtain ⟨k, hk, hkp, hsz⟩ := sizes hv hper hn
  unfold Basis.start
  rw [h.order, h.kn (by omega)]
  congr 1; omega

theorem stop_eq (h : IsDerivBasisP b nb) (hv : b.Valid) (hper : 0 ≤ b.periodic)
    (hn : 2 ≤ b.numFunctions) : nb.stop = b.stop := by
  obtain ⟨k, hk, hkp, hsz⟩ := sizes hv hper hn
  unfold Basis.stop
  rw [h.size, h.order, h.kn (by omega)]
  congr 1; omega

theorem valid (h : IsDerivBasisP b nb) (hv : b.Valid) (hper : 0 ≤ b.periodic)
    (hn : 2 ≤ b.numFunctions) : nb.Valid where
  order_pos := by obtain ⟨k, hk, hkp, hsz⟩ := sizes hv hper hn; rw [h.order]; omega
  size_ge := by
    obtain ⟨k, hk, hkp, hsz⟩ := sizes hv hper hn
    rw [h.size, h.order]; have := hv.size_ge; omega
  sorted := by
    intro i hi
    rw [h.size] at hi
    rw [h.kn (by omega), h.kn (by omega)]
    exact hv.sorted (i + 1) (by omega)
  periodic_ge := by rw [h.periodic]; omega
  periodic_le := by
    obtain ⟨k, hk, hkp, hsz⟩ := sizes hv hper hn
    left
    rw [h.periodic, h.order, hk]
    omega
  start_lt_stop := by
    rw [h.start_eq hv hper hn, h.stop_eq hv hper hn]; exact hv.start_lt_stop
  ghosts := by
    intro h0 i hi
    obtain ⟨k, hk, hkp, hsz⟩ := sizes hv hper hn
    rw [h.numFunctions hv hper hn, h.size] at hi
    rw [h.numFunctions hv hper hn, h.start_eq hv hper hn, h.stop_eq hv hper hn,
      h.kn (by omega), h.kn (by omega)]
    have := hv.ghosts hper (i + 1) (by omega)
    have e : i + b.numFunctions + 1 = i + 1 + b.numFunctions := by omega
    rw [e]
    exact this

theorem wrap_eq (h : IsDerivBasisP b nb) (hv : b.Valid) (hper : 0 ≤ b.periodic)
    (hn : 2 ≤ b.numFunctions) (u : K) : nb.wrap u = b.wrap u := by
  unfold Basis.wrap
  rw [h.start_eq hv hper hn, h.stop_eq hv hper hn]

theorem exactAt (h : IsDerivBasisP b nb) {tol u : K} (hu : b.ExactAt tol u) : nb.ExactAt tol u := by
  intro i hi
  rw [h.size] at hi
  rw [h.kn (by omega)]
  exact hu (i + 1) (by omega)

/-- Admissible for `b`, and inside the domain when the derivative basis is no longer periodic (`k = 0`). -/
def Ok (b : Basis K) (tol : K) (u : K) : Prop :=
  b.Admissible tol u ∧ (b.periodic = 0 → b.start ≤ u ∧ u ≤ b.stop)

theorem admissible (h : IsDerivBasisP b nb) (hv : b.Valid) (hper : 0 ≤ b.periodic)
    (hn : 2 ≤ b.numFunctions) {tol u : K} (hu : Ok b tol u) : nb.Admissible tol u := by
  refine ⟨h.exactAt hu.1.1, fun hp => ?_, fun hp => ?_⟩
  · rw [h.periodic] at hp
    rw [h.start_eq hv hper hn, h.stop_eq hv hper hn]
    exact hu.2 (by omega)
  · rw [h.wrap_eq hv hper hn]
    exact h.exactAt (hu.1.2.2 hper)

end IsDerivBasisP

end Splipy

namespace Splipy

set_option linter.unusedSectionVars false
open Tensor

variable {K : Type} [Field K] [LinearOrder K] [IsStrictOrderedRing K] [FloorRing K]

omit [FloorRing K] in
/-- Regrouping wrapped images: `Σ_{j<n} (Σ_{i<N, i ≡ j} f i) P_j = Σ_{i<N} f i · P_{i mod n}`. -/
theorem sum_wrapped_images (f : ℕ → K) (P : ℕ → K) (n N : ℕ) (hn : 0 < n) :
    (Finset.range n).sum (fun j => ((Finset.range N).filter (fun i => i % n = j)).sum f * P j) =
      (Finset.range N).sum (fun i => f i * P (i % n)) := by
  have h1 : ∀ j ∈ Finset.range n,
      ((Finset.range N).filter (fun i => i % n = j)).sum f * P j =
        (Finset.range N).sum (fun i => if i % n = j then f i * P (i % n) else 0) := by
    intro j _
    rw [Finset.sum_mul, Finset.sum_filter]
    apply Finset.sum_congr rfl
    intro i _
    by_cases h : i % n = j
    · rw [if_pos h, if_pos h, h]
    · rw [if_neg h, if_neg h]
  rw [Finset.sum_congr rfl h1, Finset.sum_comm]
  apply Finset.sum_congr rfl
  intro i _
  rw [Finset.sum_ite_eq, if_pos (Finset.mem_range.mpr (Nat.mod_lt _ hn))]

theorem derivativeMatrix_size_periodic (b : Basis K) (n : ℕ) (hper : ¬ b.periodic < 0) :
    (Obj.derivativeMatrix b n).size = n := by
  unfold Obj.derivativeMatrix
  rw [if_neg hper]
  simp

theorem dmRow_periodic (b : Basis K) (hper : ¬ b.periodic < 0) (hn : 2 ≤ b.numFunctions) {j : ℕ}
    (hj : j < b.numFunctions) (cf : ℕ → K) :
    Obj.dmRow b j cf = Obj.dsCoef b j * (cf ((j + 1) % b.numFunctions) - cf j) := by
  unfold Obj.dmRow
  rw [← foldl_add_eq_sum]
  exact derivativeMatrix_row_periodic b b.numFunctions j hper hj hn cf

/-- The effective side of a point of the closed domain selects a half-open piece of `[start, stop]`. -/
theorem effSide_mem_domain {b : Basis K} (hv : b.Valid) {w : K} (h1 : b.start ≤ w) (h2 : w ≤ b.stop) :
    match effSide b w true with
    | .right => b.kn (b.order - 1) ≤ w ∧ w < b.kn b.nAll
    | .left => b.kn (b.order - 1) < w ∧ w ≤ b.kn b.nAll := by
  rw [← b.start_eq, ← b.stop_eq]
  unfold effSide
  by_cases hs : w = b.stop
  · rw [if_pos hs]; exact ⟨by rw [hs]; exact hv.start_lt_stop, h2⟩
  · rw [if_neg hs]; exact ⟨h1, lt_of_le_of_ne h2 hs⟩

/-- Periodic basis with at least two functions (any continuity `k ≥ 0`). -/
theorem DSplineDir.of_periodic {b nb : Basis K} (hD : IsDerivBasisP b nb) (hv : b.Valid)
    (hper : 0 ≤ b.periodic) (hn : 2 ≤ b.numFunctions) (tol : K) :
    DSplineDir b nb tol (IsDerivBasisP.Ok b tol) where
  valid := hD.valid hv hper hn
  rows := by rw [derivativeMatrix_size_periodic b _ (by omega), hD.numFunctions hv hper hn]
  admb := fun _ h => h.1
  adm := fun _ h => hD.admissible hv hper hn h
  ident := by
    intro u hu cf
    obtain ⟨k, hk, hkp, hsz⟩ := IsDerivBasisP.sizes hv hper hn
    have hnl : ¬ b.periodic < 0 := by omega
    have hnn := hD.numFunctions hv hper hn
    have hnA := hD.nAll hv hper hn
    have hbA : b.nAll = b.numFunctions + k + 1 := by unfold Basis.nAll; omega
    obtain ⟨q, hq⟩ : ∃ q, b.order = q + 2 := ⟨b.order - 2, by omega⟩
    obtain ⟨N, hN⟩ : ∃ N, b.nAll = N + 1 := ⟨b.nAll - 1, by omega⟩
    have e1 : b.order - 1 = q + 1 := by omega
    set w := b.wrap u with hw
    have hwm := b.wrap_mem hv u
    set s := effSide b w true with hs
    -- left-hand side: the unwrapped derivative sum
    have hL : ∑ j ∈ Finset.range b.numFunctions, b.rowSpec u true 1 j * cf j =
        splineDeriv s b.kn (q + 1) (N + 1) (fun i => cf (i % b.numFunctions)) 1 w := by
      unfold splineDeriv Basis.rowSpec
      simp only [if_neg hnl, periodicEff_true]
      rw [sum_wrapped_images _ cf b.numFunctions b.nAll (by omega), e1, hN]
      apply Finset.sum_congr rfl
      intro i _
      ring
    rw [hL]
    have hmem := effSide_mem_domain hv hwm.1 hwm.2
    rw [← hs, e1, hN] at hmem
    rw [splineDeriv_one_eq_splineVal_periodic s b.kn hv.kn_mono q N b.numFunctions (b.stop - b.start) cf w
      (by
        intro i hi
        exact hv.ghosts hper i (by omega))
      hmem]
    unfold splineVal
    -- the basis functions of the derivative basis
    have hB : ∀ i, i < N → ∀ (s' : Side) (x : K),
        B s' nb.kn q i x = B s' (shiftKnots b.kn) q i x := by
      intro i hi s' x
      apply B_congr_knots
      intro k' hk'
      unfold shiftKnots
      rw [hD.kn (by omega)]
    have hcoef : ∀ j, j < b.numFunctions →
        Obj.dmRow b j cf = dsplineCoefPeriodic b.kn q b.numFunctions cf j := by
      intro j hj
      rw [dmRow_periodic b hnl hn hj]
      unfold Obj.dsCoef dsplineCoefPeriodic
      rw [e1]
      have e2 : j + (q + 1) + 1 = j + q + 2 := by omega
      rw [e2]
      push_cast
      ring
    have hordq : nb.order - 1 = q := by rw [hD.order]; omega
    have hnbN : nb.nAll = N := by rw [hnA, hN]; rfl
    by_cases hk0 : b.periodic = 0
    · -- the derivative basis is not periodic; `u` lies in the domain
      have hnbper : nb.periodic = -1 := by rw [hD.periodic, hk0]; rfl
      have hin := hu.2 hk0
      have hwu : w = u := by rw [hw]; exact b.wrap_of_mem hin.1 hin.2
      have hkz : k = 0 := by rw [hk0] at hk; omega
      have hNn : N = b.numFunctions := by omega
      rw [hnn, hNn]
      apply Finset.sum_congr rfl
      intro j hj
      rw [Finset.mem_range] at hj
      beta_reduce
      rw [Basis.specRow_nonperiodic hnbper, hordq, hcoef j hj, Nat.mod_eq_of_lt hj,
        hB j (by omega), hs, hwu]
      have : effSide nb u true = effSide b u true := by
        unfold effSide; rw [hD.stop_eq hv hper hn]
      rw [this]
      ring
    · -- the derivative basis is periodic of continuity `k-1`
      have hnbper : 0 ≤ nb.periodic := by rw [hD.periodic]; omega
      have hR : ∑ j ∈ Finset.range nb.numFunctions, nb.specRow u j * Obj.dmRow b j cf =
          ∑ i ∈ Finset.range N, B s (shiftKnots b.kn) q i w *
            dsplineCoefPeriodic b.kn q b.numFunctions cf (i % b.numFunctions) := by
        have hsp : ∀ j, nb.specRow u j =
            ((Finset.range N).filter (fun i => i % b.numFunctions = j)).sum
              (fun i => B s (shiftKnots b.kn) q i w) := by
          intro j
          rw [Basis.specRow_periodic hnbper, hnbN, hnn, hordq, hD.wrap_eq hv hper hn]
          have : effSide nb (b.wrap u) true = s := by
            rw [hs, hw]; unfold effSide; rw [hD.stop_eq hv hper hn]
          rw [this]
          apply Finset.sum_congr rfl
          intro i hi
          rw [Finset.mem_filter, Finset.mem_range] at hi
          exact hB i hi.1 s _
        rw [hnn]
        have : ∀ j ∈ Finset.range b.numFunctions, nb.specRow u j * Obj.dmRow b j cf =
            ((Finset.range N).filter (fun i => i % b.numFunctions = j)).sum
              (fun i => B s (shiftKnots b.kn) q i w) *
              dsplineCoefPeriodic b.kn q b.numFunctions cf j := by
          intro j hj
          rw [hsp j, hcoef j (Finset.mem_range.mp hj)]
        rw [Finset.sum_congr rfl this, sum_wrapped_images _ _ b.numFunctions N (by omega)]
      rw [hR]
      apply Finset.sum_congr rfl
      intro i _
      ring

end Splipy
