import Splipy.Lemmas.C07Periodic
import Splipy.Lemmas.Smooth

/-!
# Lemmas for property C08: smoothness of a periodic spline at the seam

Infinite periodic knot sequence `τ (i+n) = τ i + T`, periodic control points `c (i+n) = c i`,
degree `q`, seam `ξ = τ q` of multiplicity at most `m` (no `m+1` knots equal to `ξ`).
Then all derivatives of order `d ≤ q - m` of the periodic spline, taken at the domain end
`ξ + T` from the left and at the start `ξ` from the right, agree (L9 + periodic shift).
-/

namespace Splipy

set_option linter.unusedSectionVars false
set_option linter.unusedVariables false

variable {K : Type} [Field K] [LinearOrder K] [IsStrictOrderedRing K]

theorem splineDeriv_extend (s : Side) (τ : ℕ → K) (q M M' : ℕ) (c : ℕ → K) (d : ℕ) (t : K)
    (h : M ≤ M') (hz : ∀ i, M ≤ i → i < M' → dB s τ q i d t = 0) :
    splineDeriv s τ q M' c d t = splineDeriv s τ q M c d t := by
  unfold splineDeriv
  symm
  apply Finset.sum_subset
  · intro i hi
    rw [Finset.mem_range] at hi ⊢
    omega
  · intro i hi hni
    rw [Finset.mem_range] at hi hni
    rw [hz i (by omega) hi, mul_zero]

section
variable (τ : ℕ → K) (hτ : Monotone τ) (n : ℕ) (T : K) (hper : ∀ i, τ (i + n) = τ i + T)
  (c : ℕ → K) (hc : ∀ i, c (i + n) = c i)
include hτ hper hc

theorem dB_periodic_shift (s : Side) (q i d : ℕ) (t : K) :
    dB s τ q (i + n) d (t + T) = dB s τ q i d t := by
  have h1 : dB s τ q (i + n) d (t + T) = dB s (fun j => 1 * τ j + T) q i d (t + T) := by
    apply dB_congr_knots
    intro j _
    show τ (i + n + j) = 1 * τ (i + j) + T
    rw [one_mul, ← hper (i + j)]
    congr 1; omega
  rw [h1]
  have := dB_affine s τ q i d t 1 T one_pos
  rw [one_mul, one_pow, div_one] at this
  exact this

/-- The seam multiplicity is the same one period later. -/
theorem mult_shift (q m : ℕ) (hm1 : m ≤ q) (hT : 0 < T)
    (hm : ∀ j, τ j = τ q → τ (j + m) ≠ τ q) :
    ∀ j, τ j = τ q + T → τ (j + m) ≠ τ q + T := by
  intro j hj
  rcases Nat.lt_or_ge j n with h | h
  · -- impossible: then `τ 0 = τ q`, contradicting the multiplicity bound
    exfalso
    have h1 : τ n ≤ τ (n + q) := hτ (by omega)
    have h2 : τ (q + n) = τ q + T := hper q
    rw [Nat.add_comm q n] at h2
    have h3 : τ j ≤ τ n := hτ (by omega)
    have h4 : τ n = τ 0 + T := by have := hper 0; rwa [Nat.zero_add] at this
    have h5 : τ 0 ≤ τ q := hτ (Nat.zero_le _)
    have h6 : τ 0 = τ q := by linarith
    have h7 : τ m = τ q := le_antisymm (hτ hm1) (by rw [← h6]; exact hτ (Nat.zero_le _))
    exact hm 0 h6 (by rw [Nat.zero_add]; exact h7)
  · obtain ⟨j', rfl⟩ : ∃ j', j = j' + n := ⟨j - n, by omega⟩
    rw [hper j'] at hj
    have h1 : τ j' = τ q := by linarith
    have h2 := hm j' h1
    rw [show j' + n + m = j' + m + n by omega, hper (j' + m)]
    intro h3
    exact h2 (by linarith)

/-- **Seam smoothness.**  `N` = number of functions summed by the code (`n_all`), any `N ≥ n` with
`τ q + T ≤ τ N`. -/
theorem periodic_seam_smooth (q m d N : ℕ) (hT : 0 < T) (hd : d + m ≤ q)
    (hm : ∀ j, τ j = τ q → τ (j + m) ≠ τ q) (hN : τ q + T ≤ τ N) (hnN : n ≤ N) :
    splineDeriv .left τ q N c d (τ q + T) = splineDeriv .right τ q N c d (τ q) := by
  have hm' := mult_shift τ hτ n T hper c hc q m (by omega) hT hm
  -- left limit at the end: add the vanishing functions `N ≤ i < n + N`
  rw [← splineDeriv_extend .left τ q N (n + N) c d (τ q + T) (by omega)
    (fun i hi _ => dB_support_left τ hτ q i d _ (Or.inl (le_trans hN (hτ hi))))]
  have hsplit : splineDeriv .left τ q (n + N) c d (τ q + T)
      = (Finset.range n).sum (fun i => c i * dB .left τ q i d (τ q + T))
        + (Finset.range N).sum (fun i => c (n + i) * dB .left τ q (n + i) d (τ q + T)) := by
    unfold splineDeriv
    exact Finset.sum_range_add _ n N
  have hzero : (Finset.range n).sum (fun i => c i * dB .left τ q i d (τ q + T)) = 0 := by
    apply Finset.sum_eq_zero
    intro i hi
    rw [Finset.mem_range] at hi
    rw [dB_left_eq_right τ hτ (τ q + T) m q i d hd hm', dB_support_right τ hτ q i d _
      (Or.inr (by rw [← hper q]; exact hτ (by omega))), mul_zero]
  rw [hsplit, hzero, zero_add]
  unfold splineDeriv
  apply Finset.sum_congr rfl
  intro i _
  rw [Nat.add_comm n i, hc i, dB_periodic_shift τ hτ n T hper c hc .left q i d (τ q),
    dB_left_eq_right τ hτ (τ q) m q i d hd hm]

end

end Splipy
