import Splipy.Lemmas.C07Mult

/-!
# Multiplicity = number of occurrences in the knot list; `continuity` on a non-periodic basis

For a valid (sorted) basis `bisect_right x - bisect_left x` is `knots.toList.count x`, so the
permutation statement of knot insertion (`C04.insertKnots_fibres`) controls multiplicities.
-/

namespace Splipy

set_option linter.unusedSectionVars false
set_option linter.unusedVariables false

variable {K : Type} [Field K] [LinearOrder K] [IsStrictOrderedRing K] [FloorRing K]

theorem countP_range_Ico (L R n : ℕ) (hLR : L ≤ R) :
    (List.range n).countP (fun i => decide (L ≤ i ∧ i < R)) = min n R - min n L := by
  induction n with
  | zero => simp
  | succ n ih =>
    rw [List.range_succ, List.countP_append, ih]
    simp only [List.countP_cons, List.countP_nil, Nat.zero_add]
    by_cases h : L ≤ n ∧ n < R
    · simp only [h, and_self, decide_true, if_true]; omega
    · have : decide (L ≤ n ∧ n < R) = false := by simp [h]
      simp only [this]
      simp only [Bool.false_eq_true, if_false]
      omega

theorem Basis.toList_eq_map (b : Basis K) : b.knots.toList = (List.range b.knots.size).map b.kn := by
  apply List.ext_getElem
  · simp
  · intro i h1 h2
    simp only [Array.length_toList] at h1
    rw [List.getElem_map, List.getElem_range, Basis.kn_of_lt b h1]
    simp

/-- In a valid basis the multiplicity `bisect_right - bisect_left` is the number of occurrences. -/
theorem Basis.mult_eq_count {b : Basis K} (hv : b.Valid) (x : K) :
    b.mult x = b.knots.toList.count x := by
  obtain ⟨l1, l2, l3⟩ := bisectLeft_spec b.kn hv.kn_mono x b.knots.size
  obtain ⟨r1, r2, r3⟩ := bisectRight_spec b.kn hv.kn_mono x b.knots.size
  have l1' : b.bisectL x ≤ b.knots.size := l1
  have r1' : b.bisectR x ≤ b.knots.size := r1
  have l2' : ∀ i, i < b.bisectL x → b.kn i < x := l2
  have l3' : ∀ i, b.bisectL x ≤ i → i < b.knots.size → x ≤ b.kn i := l3
  have r2' : ∀ i, i < b.bisectR x → b.kn i ≤ x := r2
  have r3' : ∀ i, b.bisectR x ≤ i → i < b.knots.size → x < b.kn i := r3
  have hll := Basis.bisectL_le_bisectR hv x
  rw [b.toList_eq_map, List.count, List.countP_map]
  have hc : (List.range b.knots.size).countP ((fun y => y == x) ∘ b.kn)
      = (List.range b.knots.size).countP (fun i => decide (b.bisectL x ≤ i ∧ i < b.bisectR x)) := by
    apply List.countP_congr
    intro i hi
    rw [List.mem_range] at hi
    simp only [Function.comp, beq_iff_eq, decide_eq_true_eq]
    constructor
    · intro h
      constructor
      · by_contra hc
        exact absurd (l2' i (by omega)) (by rw [h]; exact lt_irrefl _)
      · by_contra hc
        exact absurd (r3' i (by omega) hi) (by rw [h]; exact lt_irrefl _)
    · intro h
      exact le_antisymm (r2' i h.2) (l3' i h.1 hi)
  rw [hc, countP_range_Ico _ _ _ hll]
  unfold Basis.mult
  omega

/-- Knot insertion into a list: the multiplicity after a permutation statement. -/
theorem Basis.mult_of_perm {b b' : Basis K} (hv : b.Valid) (hv' : b'.Valid) (xs : List K)
    (hperm : b'.knots.toList.Perm (xs ++ b.knots.toList)) (x : K) :
    b'.mult x = xs.count x + b.mult x := by
  rw [Basis.mult_eq_count hv', Basis.mult_eq_count hv, hperm.count_eq, List.count_append]

/-- `continuity(x)` of a NON-periodic basis at a value of `[start, end)` when no other knot lies
within the tolerance of `x`. -/
theorem continuity_of_exact_open {b : Basis K} (hv : b.Valid) (hper : b.periodic = -1) {tol x : K}
    (htol : 0 < tol) (hx : b.start ≤ x ∧ x < b.stop)
    (hexR : ∀ i, i < b.knots.size → b.kn i ≤ x ∨ x + tol ≤ b.kn i)
    (hexL : ∀ i, i < b.knots.size → b.kn i < x - tol ∨ x ≤ b.kn i) :
    b.continuity tol x = .ok (if b.mult x = 0 then none
      else some ((b.order : Int) - ((b.bisectR x : Int) - (b.bisectL x : Int)) - 1)) := by
  obtain ⟨l1, l2, l3⟩ := bisectLeft_spec b.kn hv.kn_mono x b.knots.size
  obtain ⟨r1, r2, r3⟩ := bisectRight_spec b.kn hv.kn_mono x b.knots.size
  have r2' : ∀ i, i < b.bisectR x → b.kn i ≤ x := r2
  have r3' : ∀ i, b.bisectR x ≤ i → i < b.knots.size → x < b.kn i := r3
  have l2' : ∀ i, i < b.bisectL x → b.kn i < x := l2
  have l3' : ∀ i, b.bisectL x ≤ i → i < b.knots.size → x ≤ b.kn i := l3
  have hll := Basis.bisectL_le_bisectR hv x
  have hp := hv.order_pos
  have hsz := hv.size_ge
  have hRlt : b.bisectR x < b.knots.size := by
    by_contra hc
    have : b.kn (b.knots.size - b.order) ≤ x := r2' _ (by omega)
    exact absurd hx.2 (not_lt.2 this)
  have hhi : b.bisectL (x + tol) = b.bisectR x :=
    bisectL_of_between hv _ _ hRlt (fun i hi => by have := r2' i hi; linarith)
      (by
        rcases hexR _ hRlt with h | h
        · exact absurd (r3' _ (le_refl _) hRlt) (not_lt.2 h)
        · exact h)
  have hlo : b.bisectL (x - tol) = b.bisectL x :=
    bisectL_of_between hv _ _ (by omega)
      (fun i hi => by
        rcases hexL i (by omega) with h | h
        · exact h
        · exact absurd (l2' i hi) (not_lt.2 h))
      (by have := l3' _ (le_refl _) (by omega); linarith)
  have hw : ¬ (x < b.start - tol ∨ b.stop + tol < x) := by
    rintro (h | h)
    · exact absurd hx.1 (not_le.2 (by linarith))
    · exact absurd h (not_lt.2 (by linarith [hx.2]))
  have hnp : ¬ (b.periodic ≥ 0) := by rw [hper]; decide
  unfold Basis.continuity Basis.mult
  simp only [hnp, if_false, hw, hhi, hlo]
  by_cases h0 : b.bisectR x - b.bisectL x = 0
  · rw [if_pos h0, if_pos (by omega)]
  · rw [if_neg h0, if_neg (by omega)]

end Splipy
