import Splipy.Lemmas.EvalRow
import Splipy.Lemmas.C08SeamRow

/-!
# What `BSplineBasis.evaluate` returns at EVERY real parameter (no exactness hypothesis)

`Lemmas/EvalRow.lean` describes the row under `Basis.ExactAt` (all tolerance tests are exact
comparisons).  Here the tolerance tests are kept as they are in the code:

* `b.codePoint tol u fromRight` — the point at which the de Boor triangle is run: `snap u`, wrapped
  into the domain for periodic bases (`Basis.wrap`, NOT snapped again), replaced by `stop` when it is
  within `tol` of `start` and the left limit is requested;
* `sideAt` — the side used by the span search: left when within `tol` of `stop` or when the left
  limit is requested, else right;
* `skipAt` — the `continue` test.

`evaluate_getD_any`: the row is zero when skipped, else the Cox–de Boor values/derivatives (wrapped
sums) at `codePoint`, one-sided according to `sideAt` — for every `u`.
-/

namespace Splipy

set_option linter.unusedSectionVars false

variable {K : Type} [Field K] [LinearOrder K] [IsStrictOrderedRing K]

/-- The side used by the span search at the (already wrapped) point `t1`: the left limit when `t1`
is within `tol` of the domain end or when the left limit is requested, else the right limit. -/
def sideAt (b : Basis K) (tol t1 : K) (fromRight : Bool) : Side :=
  if |t1 - b.stop| < tol then .left else (if fromRight then .right else .left)

/-- The `continue` test of the main loop at the (already wrapped) point `t1`: outside the domain,
or within `tol` of `start` with the left limit in force. -/
def skipAt (b : Basis K) (tol t1 : K) (fromRight : Bool) : Prop :=
  t1 < b.start ∨ b.stop < t1 ∨ (|t1 - b.start| < tol ∧ sideAt b tol t1 fromRight = .left)

instance (b : Basis K) (tol t1 : K) (fromRight : Bool) : Decidable (skipAt b tol t1 fromRight) := by
  unfold skipAt; infer_instance

theorem evalAt_of_skipAt (b : Basis K) (tol : K) (d : ℕ) (fromRight : Bool) {t1 : K}
    (h : skipAt b tol t1 fromRight) : evalAt b tol d fromRight t1 = zeroRow K b.order := by
  unfold evalAt
  simp only []
  rw [if_pos]
  rcases h with h | h | ⟨h1, h2⟩
  · exact Or.inl h
  · exact Or.inr (Or.inl h)
  · right; right
    refine ⟨h1, ?_⟩
    unfold sideAt at h2
    rw [← b.stop_eq]
    by_cases hE : |t1 - b.stop| < tol
    · simp [hE]
    · rw [if_neg hE] at h2 ⊢
      cases fromRight with
      | true => simp at h2
      | false => rfl

theorem evalAt_of_not_skipAt {b : Basis K} {tol : K} (d : ℕ)
    (fromRight : Bool) {t1 : K} (h : ¬ skipAt b tol t1 fromRight) :
    evalAt b tol d fromRight t1 = rowAt b d (sideAt b tol t1 fromRight) t1 := by
  unfold evalAt sideAt
  simp only []
  rw [← b.stop_eq, ← b.start_eq]
  have hc : ¬ (t1 < b.start ∨ t1 > b.stop ∨
      (|t1 - b.start| < tol ∧ (!(if |t1 - b.stop| < tol then false else fromRight)) = true)) := by
    rintro (h1 | h1 | ⟨h1, h2⟩)
    · exact h (Or.inl h1)
    · exact h (Or.inr (Or.inl h1))
    · apply h
      right; right
      refine ⟨h1, ?_⟩
      unfold sideAt
      by_cases hE : |t1 - b.stop| < tol
      · rw [if_pos hE]
      · rw [if_neg hE] at h2 ⊢
        cases fromRight with
        | true => simp at h2
        | false => rfl
  rw [if_neg hc]
  by_cases hE : |t1 - b.stop| < tol
  · simp [hE]
  · cases fromRight <;> simp [hE]

/-- In the non-skipped case the point is in the domain, strictly left of `stop` when the right
limit is used and strictly right of `start` when the left limit is used. -/
theorem not_skipAt_spec {b : Basis K} {tol : K} (htol : 0 < tol) {fromRight : Bool} {t1 : K}
    (h : ¬ skipAt b tol t1 fromRight) :
    b.start ≤ t1 ∧ t1 ≤ b.stop ∧ (sideAt b tol t1 fromRight = .right → t1 < b.stop) ∧
      (sideAt b tol t1 fromRight = .left → b.start < t1) := by
  unfold skipAt at h
  rw [not_or, not_or, not_lt, not_lt] at h
  obtain ⟨h1, h2, h3⟩ := h
  refine ⟨h1, h2, fun hs => ?_, fun hs => ?_⟩
  · apply lt_of_le_of_ne h2
    intro he
    unfold sideAt at hs
    rw [if_pos (by rw [he, sub_self, abs_zero]; exact htol)] at hs
    cases hs
  · apply lt_of_le_of_ne h1
    intro he
    exact h3 ⟨by rw [← he, sub_self, abs_zero]; exact htol, hs⟩

/-- **Dense row of the main-loop body at ANY point**: zero if skipped, else the sums of wrapped
images of the specification at that very point, one-sided according to `sideAt`. -/
theorem evalAt_toDense_any {b : Basis K} (hv : b.Valid) {tol : K} (htol : 0 < tol) {d : ℕ}
    (hd : d < b.order) (fromRight : Bool) (t1 : K) {c : ℕ} (hc : c < b.numFunctions) :
    ((evalAt b tol d fromRight t1).toDense b.numFunctions).getD c 0
      = if skipAt b tol t1 fromRight then 0
        else ∑ i ∈ (Finset.range b.nAll).filter (fun i => i % b.numFunctions = c),
          dB (sideAt b tol t1 fromRight) b.kn (b.order - 1) i d t1 := by
  by_cases h : skipAt b tol t1 fromRight
  · rw [if_pos h, evalAt_of_skipAt b tol d fromRight h, toDense_zeroRow, getD_replicate_zero]
  · obtain ⟨h1, h2, hr, hl⟩ := not_skipAt_spec htol h
    rw [if_neg h, evalAt_of_not_skipAt d fromRight h]
    exact rowAt_toDense_getD hv hd _ t1 h1 h2 hr hl hc

/-! ## Spec facts: wrapped sums are non-negative and sum to one; away from knots both sides agree -/

theorem sum_wrapped_B_eq_one {b : Basis K} (hv : b.Valid) (s : Side) (t1 : K)
    (h1 : b.start ≤ t1) (h2 : t1 ≤ b.stop)
    (hr : s = .right → t1 < b.stop) (hl : s = .left → b.start < t1) :
    ∑ c ∈ Finset.range b.numFunctions,
      ∑ i ∈ (Finset.range b.nAll).filter (fun i => i % b.numFunctions = c),
        B s b.kn (b.order - 1) i t1 = 1 := by
  have hp := hv.order_pos
  have hn := hv.numFunctions_pos
  rw [Finset.sum_fiberwise_of_maps_to (g := fun i => i % b.numFunctions)
      (fun i _ => Finset.mem_range.mpr (Nat.mod_lt _ (by omega)))]
  obtain ⟨m1, m2, m3⟩ := muOf_spec hv s t1 h1 h2 hr hl
  set mu := muOf b s t1 with hmu
  apply B_sum_range_eq_one _ b.kn hv.kn_mono (b.order - 1) (mu - 1) b.nAll (by omega) (by omega)
  rw [show mu - 1 + 1 = mu by omega]
  revert m3
  cases s <;> exact fun h => h

omit [IsStrictOrderedRing K] in
theorem ind_side_eq (a b t : K) (ha : t ≠ a) (hb : t ≠ b) : ind .left a b t = ind .right a b t := by
  unfold ind
  simp only []
  have e1 : a < t ↔ a ≤ t := ⟨le_of_lt, fun h => lt_of_le_of_ne h (Ne.symm ha)⟩
  have e2 : t ≤ b ↔ t < b := ⟨fun h => lt_of_le_of_ne h hb, le_of_lt⟩
  simp only [e1, e2]

omit [IsStrictOrderedRing K] in
/-- Away from the knots of its support the B-spline does not depend on the side. -/
theorem B_side_eq (τ : ℕ → K) (q i : ℕ) (t : K) (h : ∀ j, j ≤ q + 1 → t ≠ τ (i + j)) :
    B .left τ q i t = B .right τ q i t := by
  induction q generalizing i with
  | zero =>
    rw [B_zero, B_zero]
    exact ind_side_eq _ _ _ (by simpa using h 0 (by omega)) (h 1 (by omega))
  | succ q ih =>
    rw [B_succ, B_succ, ih i (fun j hj => h j (by omega)),
      ih (i + 1) (fun j hj => by
        have := h (j + 1) (by omega)
        rwa [show i + (j + 1) = i + 1 + j by omega] at this)]

omit [IsStrictOrderedRing K] in
theorem dB_side_eq (τ : ℕ → K) (q i d : ℕ) (t : K) (h : ∀ j, j ≤ q + 1 → t ≠ τ (i + j)) :
    dB .left τ q i d t = dB .right τ q i d t := by
  induction q generalizing i d with
  | zero =>
    cases d with
    | zero => rw [dB_zero, dB_zero]; exact B_side_eq τ 0 i t h
    | succ d => rw [dB_zero_succ, dB_zero_succ]
  | succ q ih =>
    cases d with
    | zero => rw [dB_zero, dB_zero]; exact B_side_eq τ (q + 1) i t h
    | succ d =>
      rw [dB_succ_succ, dB_succ_succ, ih i d (fun j hj => h j (by omega)),
        ih (i + 1) d (fun j hj => by
          have := h (j + 1) (by omega)
          rwa [show i + (j + 1) = i + 1 + j by omega] at this)]

omit [IsStrictOrderedRing K] in
/-- If `t` is not a knot, the one-sided specification values coincide for both sides. -/
theorem dB_side_irrel (τ : ℕ → K) (q i d : ℕ) (t : K) (h : ∀ j, t ≠ τ j) (s s' : Side) :
    dB s τ q i d t = dB s' τ q i d t := by
  have := dB_side_eq τ q i d t (fun j _ => h (i + j))
  cases s <;> cases s' <;> first | rfl | exact this | exact this.symm

/-! ## The effective point of `BSplineBasis.evaluate` -/

section Total

variable [FloorRing K]

/-- The point at which `BSplineBasis.evaluate(u, d, from_right)` runs the de Boor triangle:
`snap u`; for periodic bases wrapped into the domain (`Basis.wrap`, the identity on
`[start, stop]`; the wrapped value is NOT snapped again) and replaced by `stop` if it is within
`tol` of `start` and the left limit is requested. -/
def Basis.codePoint (b : Basis K) (tol u : K) (fromRight : Bool) : K :=
  if 0 ≤ b.periodic then
    (if |b.wrap (snap b tol u) - b.start| < tol ∧ fromRight = false then b.stop
      else b.wrap (snap b tol u))
  else snap b tol u

/-- The side used at the effective point. -/
def Basis.codeSide (b : Basis K) (tol u : K) (fromRight : Bool) : Side :=
  sideAt b tol (b.codePoint tol u fromRight) fromRight

/-- The row is skipped (left zero). -/
def Basis.codeSkip (b : Basis K) (tol u : K) (fromRight : Bool) : Prop :=
  skipAt b tol (b.codePoint tol u fromRight) fromRight

instance (b : Basis K) (tol u : K) (fromRight : Bool) : Decidable (b.codeSkip tol u fromRight) := by
  unfold Basis.codeSkip; infer_instance

theorem wrapT_snap_eq_codePoint (b : Basis K) (tol u : K) (fromRight : Bool) :
    wrapT b tol fromRight (snap b tol u) = b.codePoint tol u fromRight := by
  unfold Basis.codePoint
  by_cases hper : 0 ≤ b.periodic
  · rw [wrapT_periodic hper, if_pos hper]
    cases fromRight <;> simp
  · rw [if_neg hper]
    unfold wrapT
    rw [if_neg hper]

theorem evaluate_eq_evalAt_codePoint (b : Basis K) (tol u : K) {d : ℕ} (hd : d < b.order)
    (fromRight : Bool) :
    b.evaluate tol u d fromRight
      = (evalAt b tol d fromRight (b.codePoint tol u fromRight)).toDense b.numFunctions := by
  unfold Basis.evaluate
  simp only []
  rw [if_neg (by omega), evalRow_eq, wrapT_snap_eq_codePoint]

/-- The row depends on the parameter only through the effective point. -/
theorem evaluate_eq_of_codePoint_eq (b : Basis K) (tol u u' : K) (d : ℕ) (fromRight : Bool)
    (h : b.codePoint tol u fromRight = b.codePoint tol u' fromRight) :
    b.evaluate tol u d fromRight = b.evaluate tol u' d fromRight := by
  by_cases hd : b.order ≤ d
  · rw [evaluate_high b tol u hd, evaluate_high b tol u' hd]
  · rw [evaluate_eq_evalAt_codePoint b tol u (by omega), evaluate_eq_evalAt_codePoint b tol u' (by omega), h]

/-- **`BSplineBasis.evaluate` at every real parameter**: entry `c` of the row is `0` if the point is
skipped, else the sum of all wrapped images of the `d`-th one-sided (`codeSide`) derivative of the
specification B-splines at the effective point `codePoint` — exact or not. -/
theorem evaluate_getD_any {b : Basis K} (hv : b.Valid) {tol : K} (htol : 0 < tol) (u : K) {d : ℕ}
    (hd : d < b.order) (fromRight : Bool) {c : ℕ} (hc : c < b.numFunctions) :
    (b.evaluate tol u d fromRight).getD c 0
      = if b.codeSkip tol u fromRight then 0
        else ∑ i ∈ (Finset.range b.nAll).filter (fun i => i % b.numFunctions = c),
          dB (b.codeSide tol u fromRight) b.kn (b.order - 1) i d (b.codePoint tol u fromRight) := by
  rw [evaluate_eq_evalAt_codePoint b tol u hd]
  exact evalAt_toDense_any hv htol hd fromRight _ hc

theorem evaluate_eq_zero_of_codeSkip (b : Basis K) (tol u : K) (d : ℕ) (fromRight : Bool)
    (h : b.codeSkip tol u fromRight) :
    b.evaluate tol u d fromRight = Array.replicate b.numFunctions 0 := by
  by_cases hd : b.order ≤ d
  · exact evaluate_high b tol u hd fromRight
  · rw [evaluate_eq_evalAt_codePoint b tol u (by omega), evalAt_of_skipAt b tol d fromRight h,
      toDense_zeroRow]

/-- Non-negativity at every real parameter. -/
theorem evaluate_nonneg_any {b : Basis K} (hv : b.Valid) {tol : K} (htol : 0 < tol) (u : K)
    (fromRight : Bool) (c : ℕ) : 0 ≤ (b.evaluate tol u 0 fromRight).getD c 0 := by
  by_cases hc : c < b.numFunctions
  · rw [evaluate_getD_any hv htol u hv.order_pos fromRight hc]
    split_ifs
    · exact le_refl _
    · apply Finset.sum_nonneg
      intro i _
      rw [dB_zero]
      exact B_nonneg _ _ hv.kn_mono _ _ _
  · rw [evaluate_getD_of_ge b tol u 0 fromRight (by omega)]

/-- Partition of unity at every real parameter: the row sums to one unless it is skipped. -/
theorem evaluate_sum_any {b : Basis K} (hv : b.Valid) {tol : K} (htol : 0 < tol) (u : K)
    (fromRight : Bool) :
    ∑ c ∈ Finset.range b.numFunctions, (b.evaluate tol u 0 fromRight).getD c 0
      = if b.codeSkip tol u fromRight then 0 else 1 := by
  have key : ∀ c ∈ Finset.range b.numFunctions, (b.evaluate tol u 0 fromRight).getD c 0
      = if b.codeSkip tol u fromRight then 0
        else ∑ i ∈ (Finset.range b.nAll).filter (fun i => i % b.numFunctions = c),
          B (b.codeSide tol u fromRight) b.kn (b.order - 1) i (b.codePoint tol u fromRight) := by
    intro c hc
    rw [evaluate_getD_any hv htol u hv.order_pos fromRight (Finset.mem_range.mp hc)]
    split_ifs
    · rfl
    · exact Finset.sum_congr rfl (fun i _ => dB_zero _ _ _ _ _)
  rw [Finset.sum_congr rfl key]
  by_cases h : b.codeSkip tol u fromRight
  · simp only [h, if_true, Finset.sum_const_zero]
  · simp only [h, if_false]
    obtain ⟨h1, h2, hr, hl⟩ := not_skipAt_spec htol h
    exact sum_wrapped_B_eq_one hv _ _ h1 h2 hr hl

/-! ## `snap` without separation hypotheses -/

omit [FloorRing K] in
/-- `snap t` is a knot, or it is `t` itself and then at least `tol` away from every knot. -/
theorem snap_knot_or_far {b : Basis K} (hv : b.Valid) (tol t : K) :
    (∃ k, k < b.knots.size ∧ snap b tol t = b.kn k) ∨
    (snap b tol t = t ∧ ∀ i, i < b.knots.size → tol ≤ |b.kn i - t|) := by
  have hmono := hv.kn_mono
  obtain ⟨a1, a2, a3⟩ := bisectLeft_spec b.kn hmono t b.knots.size
  unfold snap
  simp only []
  set i := bisectLeft b.kn t b.knots.size with hi
  split_ifs with h1 h2
  · exact Or.inl ⟨i, h1.1, rfl⟩
  · exact Or.inl ⟨i - 1, by omega, rfl⟩
  · refine Or.inr ⟨rfl, fun j hj => ?_⟩
    by_cases hji : j < i
    · have e1 : b.kn j ≤ b.kn (i - 1) := hmono (by omega)
      have e2 : b.kn (i - 1) < t := a2 (i - 1) (by omega)
      have e3 : ¬ |b.kn (i - 1) - t| < tol := fun h => h2 ⟨by omega, h⟩
      rw [abs_of_neg (by linarith), not_lt] at e3
      rw [abs_of_neg (by linarith)]
      linarith
    · have hiN : i < b.knots.size := by omega
      have e1 : b.kn i ≤ b.kn j := hmono (by omega)
      have e2 : t ≤ b.kn i := a3 i le_rfl hiN
      have e3 : ¬ |b.kn i - t| < tol := fun h => h1 ⟨hiN, h⟩
      rw [abs_of_nonneg (by linarith), not_lt] at e3
      rw [abs_of_nonneg (by linarith)]
      linarith

omit [FloorRing K] in
/-- `snap` is idempotent (valid basis, positive tolerance) — no separation of the knots needed. -/
theorem snap_idem {b : Basis K} (hv : b.Valid) {tol : K} (htol : 0 < tol) (t : K) :
    snap b tol (snap b tol t) = snap b tol t := by
  rcases snap_knot_or_far hv tol t with ⟨k, hk, h⟩ | ⟨h, hfar⟩
  · rw [h, snap_knot hv htol hk]
  · rw [h]
    exact snap_of_exact b htol (fun i hi => Or.inr (hfar i hi))

/-- Evaluating at `t` is evaluating at the snapped parameter (no separation hypothesis). -/
theorem evaluate_snap_any {b : Basis K} (hv : b.Valid) {tol : K} (htol : 0 < tol) (t : K) (d : ℕ)
    (fromRight : Bool) :
    b.evaluate tol t d fromRight = b.evaluate tol (snap b tol t) d fromRight := by
  unfold Basis.evaluate
  simp only []
  rw [snap_idem hv htol]

/-! ## Periodic bases: the effective point lies in the domain, rows are never skipped -/

theorem codePoint_mem_of_periodic {b : Basis K} (hv : b.Valid) (hper : 0 ≤ b.periodic)
    (tol u : K) (fromRight : Bool) :
    b.start ≤ b.codePoint tol u fromRight ∧ b.codePoint tol u fromRight ≤ b.stop := by
  unfold Basis.codePoint
  rw [if_pos hper]
  split_ifs
  · exact ⟨hv.start_lt_stop.le, le_rfl⟩
  · exact b.wrap_mem hv _

/-- A periodic basis whose period is at least `2·tol` never skips a row. -/
theorem not_codeSkip_of_periodic {b : Basis K} (hv : b.Valid) (hper : 0 ≤ b.periodic) {tol : K}
    (h2tol : 2 * tol ≤ b.stop - b.start) (u : K) (fromRight : Bool) :
    ¬ b.codeSkip tol u fromRight := by
  obtain ⟨m1, m2⟩ := codePoint_mem_of_periodic hv hper tol u fromRight
  have hT : |b.stop - b.start| = b.stop - b.start := abs_of_pos (sub_pos.mpr hv.start_lt_stop)
  rintro (h | h | ⟨h3, h4⟩)
  · exact absurd m1 (not_le.mpr h)
  · exact absurd m2 (not_le.mpr h)
  · unfold sideAt at h4
    by_cases hE : |b.codePoint tol u fromRight - b.stop| < tol
    · have := abs_sub_le b.stop (b.codePoint tol u fromRight) b.start
      rw [hT, abs_sub_comm b.stop] at this
      linarith
    · rw [if_neg hE] at h4
      cases fromRight with
      | true => simp at h4
      | false =>
        unfold Basis.codePoint at h3
        rw [if_pos hper] at h3
        split_ifs at h3 with h5
        · rw [hT] at h3
          have := (abs_nonneg (b.wrap (snap b tol u) - b.start))
          linarith [h5.1]
        · exact h5 ⟨h3, rfl⟩

/-! ## Shifts by whole periods -/

theorem pmod_self_mul (y : K) (hy : 0 < y) : pmod y y = 0 := by
  have := pmod_add_int_mul (0 : K) y 1 hy.ne'
  rw [Int.cast_one, one_mul, zero_add] at this
  rw [this, pmod_of_mem 0 y le_rfl hy]

/-- For the left limit the wrap can be replaced by its canonical form (`stop ↦ start`), because
both seam points are sent to `stop`. -/
theorem codePoint_left_eq {b : Basis K} (hv : b.Valid) (hper : 0 ≤ b.periodic) {tol : K}
    (htol : 0 < tol) (htolT : tol ≤ b.stop - b.start) (u : K) :
    b.codePoint tol u false
      = if |pmod (snap b tol u - b.start) (b.stop - b.start) + b.start - b.start| < tol then b.stop
        else pmod (snap b tol u - b.start) (b.stop - b.start) + b.start := by
  have hT : 0 < b.stop - b.start := sub_pos.mpr hv.start_lt_stop
  unfold Basis.codePoint
  rw [if_pos hper]
  by_cases hu : snap b tol u = b.stop
  · rw [hu, b.wrap_of_mem hv.start_lt_stop.le le_rfl, pmod_self_mul _ hT]
    have h1 : ¬ (|b.stop - b.start| < tol ∧ false = false) := by
      rw [abs_of_pos hT]; intro h; linarith [h.1]
    rw [if_neg h1, if_pos (by rw [zero_add, sub_self, abs_zero]; exact htol)]
  · rw [Basis.wrap_eq_pmod hv hu]
    simp

theorem evaluate_shift_of_ne_stop {b : Basis K} (hv : b.Valid) (hper : 0 ≤ b.periodic) {tol t : K}
    (m : ℤ) (hs : snap b tol t = t)
    (hs' : snap b tol (t + m * (b.stop - b.start)) = t + m * (b.stop - b.start))
    (h1 : t ≠ b.stop) (h2 : t + m * (b.stop - b.start) ≠ b.stop) (d : ℕ) (fromRight : Bool) :
    b.evaluate tol (t + m * (b.stop - b.start)) d fromRight = b.evaluate tol t d fromRight := by
  apply evaluate_eq_of_codePoint_eq
  unfold Basis.codePoint
  rw [hs, hs', b.wrap_add_int_mul hv t m h1 h2, if_pos hper, if_pos hper]

theorem evaluate_shift_left {b : Basis K} (hv : b.Valid) (hper : 0 ≤ b.periodic) {tol t : K}
    (htol : 0 < tol) (htolT : tol ≤ b.stop - b.start) (m : ℤ) (hs : snap b tol t = t)
    (hs' : snap b tol (t + m * (b.stop - b.start)) = t + m * (b.stop - b.start)) (d : ℕ) :
    b.evaluate tol (t + m * (b.stop - b.start)) d false = b.evaluate tol t d false := by
  have hT : b.stop - b.start ≠ 0 := (sub_pos.mpr hv.start_lt_stop).ne'
  apply evaluate_eq_of_codePoint_eq
  rw [codePoint_left_eq hv hper htol htolT, codePoint_left_eq hv hper htol htolT, hs, hs',
    show t + m * (b.stop - b.start) - b.start = (t - b.start) + m * (b.stop - b.start) by ring,
    pmod_add_int_mul _ _ _ hT]

/-- Value rows (`d = 0`), right limit, seam of multiplicity `< p`: invariant under shifts by whole
periods at every snap-fixed parameter, the domain end included. -/
theorem evaluate_shift_value {b : Basis K} (hv : b.Valid) (hper : 0 ≤ b.periodic)
    (hmult : ∀ j, j + (b.order - 1) < b.knots.size → b.kn j = b.start →
      b.kn (j + (b.order - 1)) ≠ b.start)
    {tol : K} (htol : 0 < tol) (hex0 : b.ExactAt tol b.start) (hex1 : b.ExactAt tol b.stop)
    (m : ℤ) {t : K} (hs : snap b tol t = t)
    (hs' : snap b tol (t + m * (b.stop - b.start)) = t + m * (b.stop - b.start)) :
    b.evaluate tol (t + m * (b.stop - b.start)) 0 true = b.evaluate tol t 0 true := by
  have hlt := hv.start_lt_stop
  have hT : b.stop - b.start ≠ 0 := ne_of_gt (sub_pos.2 hlt)
  have hseam := evaluate_stop_eq_start hv hper hmult htol hex0 hex1
  have hs0 : snap b tol b.start = b.start := snap_of_exact b htol hex0
  by_cases h1 : t = b.stop
  · subst h1
    by_cases hm : m = 0
    · subst hm; simp
    · have e : b.stop + (m : K) * (b.stop - b.start)
          = b.start + ((m + 1 : ℤ) : K) * (b.stop - b.start) := by
        push_cast; ring
      rw [e] at hs' ⊢
      rw [evaluate_shift_of_ne_stop hv hper (m + 1) hs0 hs' (ne_of_lt hlt)
        (by
          intro hc
          have : ((m + 1 : ℤ) : K) * (b.stop - b.start) = 1 * (b.stop - b.start) := by linarith
          have h2 := mul_right_cancel₀ hT this
          have : (m + 1 : ℤ) = 1 := by exact_mod_cast h2
          omega) 0 true, hseam]
  · by_cases h2 : t + m * (b.stop - b.start) = b.stop
    · have e : t = b.start + ((1 - m : ℤ) : K) * (b.stop - b.start) := by
        push_cast; linarith
      rw [h2, hseam]
      have hs2 : snap b tol (b.start + ((1 - m : ℤ) : K) * (b.stop - b.start))
          = b.start + ((1 - m : ℤ) : K) * (b.stop - b.start) := by
        rw [← e]; exact hs
      have := evaluate_shift_of_ne_stop hv hper (1 - m) hs0 hs2 (ne_of_lt hlt)
        (by rw [← e]; exact h1) 0 true
      rw [← e] at this
      exact this.symm
    · exact evaluate_shift_of_ne_stop hv hper m hs hs' h1 h2 0 true

end Total

end Splipy
