import Splipy.Lemmas.C04PerSeq
import Splipy.Lemmas.C07PerWindow
import Splipy.Lemmas.C08Open

/-!
# Multiplicity of the split value after the insertion loop of `split` (periodic direction)

`mult b x = bisect_right - bisect_left`.  Every periodic insertion of `x ∈ [start, end)` (any valid
periodic basis, `insertKnot_periodic_window`) raises it by at least one, `continuity` reports `p - mult - 1` when the tolerance
comparisons are exact, so after inserting `continuity + 1` copies the multiplicity is at least `p`.
-/

namespace Splipy

set_option linter.unusedSectionVars false
set_option linter.unusedVariables false

open C04

variable {K : Type} [Field K] [LinearOrder K] [IsStrictOrderedRing K] [FloorRing K]

/-- Multiplicity of `x` in the knot array. -/
def Basis.mult (b : Basis K) (x : K) : ℕ := b.bisectR x - b.bisectL x

theorem Basis.run_le_mult {b : Basis K} (hv : b.Valid) (x : K) (a c : ℕ) (hac : a ≤ c)
    (hc : c < b.knots.size) (h : ∀ j, a ≤ j → j ≤ c → b.kn j = x) :
    b.bisectL x ≤ a ∧ c + 1 ≤ b.bisectR x := by
  obtain ⟨l1, l2, l3⟩ := bisectLeft_spec b.kn hv.kn_mono x b.knots.size
  obtain ⟨r1, r2, r3⟩ := bisectRight_spec b.kn hv.kn_mono x b.knots.size
  constructor
  · by_contra hc'
    have := l2 a (by unfold Basis.bisectL at hc'; omega)
    rw [h a (le_refl _) hac] at this
    exact absurd this (lt_irrefl _)
  · by_contra hc'
    have := r3 c (by unfold Basis.bisectR at hc'; omega) hc
    rw [h c hac (le_refl _)] at this
    exact absurd this (lt_irrefl _)

theorem Basis.kn_of_mem_run {b : Basis K} (hv : b.Valid) (x : K) (j : ℕ) (h1 : b.bisectL x ≤ j)
    (h2 : j < b.bisectR x) : b.kn j = x := by
  obtain ⟨l1, l2, l3⟩ := bisectLeft_spec b.kn hv.kn_mono x b.knots.size
  obtain ⟨r1, r2, r3⟩ := bisectRight_spec b.kn hv.kn_mono x b.knots.size
  have hj : j < b.knots.size := by unfold Basis.bisectR at h2; omega
  exact le_antisymm (r2 j h2) (l3 j h1 hj)

theorem Basis.bisectL_le_bisectR {b : Basis K} (hv : b.Valid) (x : K) : b.bisectL x ≤ b.bisectR x := by
  obtain ⟨l1, l2, l3⟩ := bisectLeft_spec b.kn hv.kn_mono x b.knots.size
  obtain ⟨r1, r2, r3⟩ := bisectRight_spec b.kn hv.kn_mono x b.knots.size
  have l1' : b.bisectL x ≤ b.knots.size := l1
  have r1' : b.bisectR x ≤ b.knots.size := r1
  have l2' : ∀ i, i < b.bisectL x → b.kn i < x := l2
  have r3' : ∀ i, b.bisectR x ≤ i → i < b.knots.size → x < b.kn i := r3
  by_contra hc
  have h1 := l2' (b.bisectR x) (by omega)
  have h2 := r3' (b.bisectR x) (le_refl _) (by omega)
  exact absurd h1 (not_lt.2 (le_of_lt h2))

/-- One periodic insertion raises the multiplicity of the inserted value by at least one — every
valid periodic basis (no guard `n ≥ p + k`; from the array description around the insertion index,
`insertKnot_periodic_window`). -/
theorem mult_insert_periodic_all (b : Basis K) (hv : b.Valid) (k : ℕ) (hk : b.periodic = (k : Int))
    (x : K) (hx : b.start ≤ x ∧ x < b.stop)
    (b' : Basis K) (C : Mat K) (hins : b.insertKnot x = .ok (b', C)) :
    b.mult x + 1 ≤ b'.mult x := by
  obtain ⟨bk, Ck, h1, hR, hkn⟩ := insertKnot_periodic_window b hv k hk x ⟨hx.1, le_of_lt hx.2⟩
  rw [hins] at h1
  have e : b' = bk := (Prod.mk.inj (Except.ok.inj h1)).1
  subst e
  have hvk : b'.Valid := hR.valid
  have hsz : b'.knots.size = b.knots.size + 1 := hR.size_eq
  have hmono : Monotone b.kn := hv.kn_mono
  have hp := hv.order_pos
  have hsize := hv.size_ge
  have hn := numFunctions_periodic b k hk
  obtain ⟨r1, r2, r3⟩ := bisectRight_spec b.kn hmono x b.knots.size
  have r1' : b.bisectR x ≤ b.knots.size := r1
  have r2' : ∀ i, i < b.bisectR x → b.kn i ≤ x := r2
  have hll : b.bisectL x ≤ b.bisectR x := Basis.bisectL_le_bisectR hv x
  have hmu2 : b.bisectR x ≤ b.knots.size - b.order := by
    by_contra hlt
    have h2' : b.kn (b.knots.size - b.order) ≤ x := r2' _ (by omega)
    exact absurd hx.2 (not_lt.2 h2')
  have hmuEq : b.insertMu x = b.bisectR x := by
    unfold Basis.insertMu
    rw [if_pos (by rw [hk]; omega)]
    exact Nat.min_eq_left hmu2
  rw [hmuEq] at hkn
  have hrun : ∀ j, b.bisectL x ≤ j → j < b.bisectR x → b.kn j = x :=
    fun j h1 h2 => Basis.kn_of_mem_run hv x j h1 h2
  have hclose : b.bisectR x ≤ b.bisectL x + b.numFunctions := by
    by_contra hc
    have := kn_run_le_period hv k hk (b.bisectL x) (b.bisectR x - 1) (by omega) (by omega)
    rw [hrun _ (le_refl _) (by omega), hrun _ (by omega) (by omega)] at this
    exact absurd this (lt_irrefl _)
  have hnew : ∀ j, b.bisectL x ≤ j → j ≤ b.bisectR x → b'.kn j = x := by
    intro j hj1 hj2
    rw [hkn j (by omega) (by omega) (by omega)]
    rcases Nat.lt_or_ge j (b.bisectR x) with h | h
    · rw [bo_ins_lt h]; exact hrun j hj1 h
    · have : j = b.bisectR x := by omega
      rw [this, bo_ins_self]
  obtain ⟨g1, g2⟩ := Basis.run_le_mult hvk x (b.bisectL x) (b.bisectR x) hll (by rw [hsz]; omega) hnew
  unfold Basis.mult
  omega

/-- Older guarded form (the hypothesis `hguard` is not used). -/
theorem mult_insert_periodic (b : Basis K) (hv : b.Valid) (k : ℕ) (hk : b.periodic = (k : Int))
    (_hguard : b.order + k ≤ b.numFunctions) (x : K) (hx : b.start ≤ x ∧ x < b.stop)
    (b' : Basis K) (C : Mat K) (hins : b.insertKnot x = .ok (b', C)) :
    b.mult x + 1 ≤ b'.mult x :=
  mult_insert_periodic_all b hv k hk x hx b' C hins

/-- `cnt` periodic insertions of the same value raise its multiplicity by at least `cnt` (every
valid periodic basis). -/
theorem mult_insertMany_all (b0 : Basis K) (hv0 : b0.Valid) (k : ℕ) (hk : b0.periodic = (k : Int))
    (x : K) (hx : b0.start ≤ x ∧ x < b0.stop) (cnt : ℕ) :
    ∀ (b : Basis K) (Cacc : Mat K) (m : ℕ), PerRefines b0 b Cacc m →
      ∀ b' C, insertMany b Cacc (List.replicate cnt x) = .ok (b', C) →
        b.mult x + cnt ≤ b'.mult x ∧ ∃ m', PerRefines b0 b' C m' := by
  induction cnt with
  | zero =>
    intro b Cacc m hR b' C h
    have e : (b, Cacc) = (b', C) := Except.ok.inj h
    have e1 : b = b' := (Prod.mk.inj e).1
    have e2 : Cacc = C := (Prod.mk.inj e).2
    subst e1 e2
    exact ⟨le_refl _, m, hR⟩
  | succ cnt ih =>
    intro b Cacc m hR b' C h
    obtain ⟨b1, C1, hins, hr1, _⟩ := insertKnot_per_step_all b hR.valid k (hR.periodic_eq.trans hk) x
    have hstep : stepIns (b, Cacc) x = .ok (b1, Mat.mul C1 Cacc) := by
      unfold stepIns
      simp only [hins]
      rfl
    unfold insertMany at h
    rw [List.replicate_succ, List.foldlM_cons, hstep] at h
    have h' : insertMany b1 (Mat.mul C1 Cacc) (List.replicate cnt x) = .ok (b', C) := h
    obtain ⟨g1, g2⟩ := ih b1 (Mat.mul C1 Cacc) (m + 1) (perRefines_trans hv0 hR hr1) b' C h'
    have hm := mult_insert_periodic_all b hR.valid k (hR.periodic_eq.trans hk) x
      ⟨by rw [hR.start_eq]; exact hx.1, by rw [hR.stop_eq]; exact hx.2⟩ b1 C1 hins
    exact ⟨by omega, g2⟩

/-- Older guarded form (the hypothesis `hguard` is not used). -/
theorem mult_insertMany (b0 : Basis K) (hv0 : b0.Valid) (k : ℕ) (hk : b0.periodic = (k : Int))
    (_hguard : b0.order + k ≤ b0.numFunctions) (x : K) (hx : b0.start ≤ x ∧ x < b0.stop) (cnt : ℕ) :
    ∀ (b : Basis K) (Cacc : Mat K) (m : ℕ), PerRefines b0 b Cacc m →
      ∀ b' C, insertMany b Cacc (List.replicate cnt x) = .ok (b', C) →
        b.mult x + cnt ≤ b'.mult x ∧ ∃ m', PerRefines b0 b' C m' :=
  mult_insertMany_all b0 hv0 k hk x hx cnt

/-- `continuity(x)` of a periodic basis at a value of the base period, when no other knot lies
within the tolerance of `x`: `none` for multiplicity `0`, else `p - mult - 1`. -/
theorem continuity_of_exact {b : Basis K} (hv : b.Valid) (hper : 0 ≤ b.periodic) {tol x : K}
    (htol : 0 < tol) (hx : b.start ≤ x ∧ x < b.stop)
    (hexR : ∀ i, i < b.knots.size → b.kn i ≤ x ∨ x + tol ≤ b.kn i)
    (hexL : ∀ i, i < b.knots.size → b.kn i < x - tol ∨ x ≤ b.kn i) :
    b.continuity tol x = .ok (if b.mult x = 0 then none
      else some ((b.order : Int) - ((b.bisectR x : Int) - (b.bisectL x : Int)) - 1)) := by
  obtain ⟨l1, l2, l3⟩ := bisectLeft_spec b.kn hv.kn_mono x b.knots.size
  obtain ⟨r1, r2, r3⟩ := bisectRight_spec b.kn hv.kn_mono x b.knots.size
  have r2' : ∀ i, i < b.bisectR x → b.kn i ≤ x := r2
  have r3' : ∀ i, b.bisectR x ≤ i → i < b.knots.size → x < b.kn i := r3
  have l2' : ∀ i, i < b.bisectL x → b.kn i < x := l2
  have l3' : ∀ i, b.bisectL x ≤ i → i < b.knots.size → x ≤ b.kn i := l3
  have hll := Basis.bisectL_le_bisectR hv x
  have hp := hv.order_pos
  have hsz := hv.size_ge
  have hRlt : b.bisectR x < b.knots.size := by
    by_contra hc
    have : b.kn (b.knots.size - b.order) ≤ x := r2' _ (by omega)
    exact absurd hx.2 (not_lt.2 this)
  have hhi : b.bisectL (x + tol) = b.bisectR x :=
    bisectL_of_between hv _ _ hRlt (fun i hi => by have := r2' i hi; linarith)
      (by
        rcases hexR _ hRlt with h | h
        · exact absurd (r3' _ (le_refl _) hRlt) (not_lt.2 h)
        · exact h)
  have hlo : b.bisectL (x - tol) = b.bisectL x :=
    bisectL_of_between hv _ _ (by omega)
      (fun i hi => by
        rcases hexL i (by omega) with h | h
        · exact h
        · exact absurd (l2' i hi) (not_lt.2 h))
      (by have := l3' _ (le_refl _) (by omega); linarith)
  have hw : ¬ (x < b.start ∨ x > b.stop) := by
    rintro (h | h)
    · exact absurd hx.1 (not_le.2 h)
    · exact absurd h (not_lt.2 (le_of_lt hx.2))
  unfold Basis.continuity Basis.mult
  simp only [ge_iff_le, hper, if_true, hw, if_false, hhi, hlo]
  by_cases h0 : b.bisectR x - b.bisectL x = 0
  · rw [if_pos h0, if_pos (by omega)]
  · rw [if_neg h0, if_neg (by omega)]

/-- **`hMult`**: after the insertion loop of `split` for one value `x0` of the base period of a
periodic direction (every valid periodic basis; no other knot within the tolerance of `x0`), `x0` has
multiplicity at least `p` at `bisect_left`. -/
theorem hMult_of_exact_all (o : Obj K) (dir : ℕ) (hdir : dir < o.bases.size)
    (hv : (o.basis dir).Valid) (k : ℕ) (hk : (o.basis dir).periodic = (k : Int))
    (hshape : o.cps.shape.getD dir 0 = (o.basis dir).numFunctions) {tol x0 : K} (htol : 0 < tol)
    (hx : (o.basis dir).start ≤ x0 ∧ x0 < (o.basis dir).stop)
    (hexR : ∀ i, i < (o.basis dir).knots.size → (o.basis dir).kn i ≤ x0 ∨ x0 + tol ≤ (o.basis dir).kn i)
    (hexL : ∀ i, i < (o.basis dir).knots.size → (o.basis dir).kn i < x0 - tol ∨ x0 ≤ (o.basis dir).kn i) :
    ∀ so, o.splitInsert tol [x0] dir = .ok so →
      (so.basis dir).kn ((so.basis dir).bisectL x0) = x0 ∧
      (so.basis dir).kn ((so.basis dir).bisectL x0 + (o.basis dir).order - 1) = x0 := by
  intro so hso
  set b0 := o.basis dir with hb0
  have hper : 0 ≤ b0.periodic := by rw [hk]; omega
  have hp := hv.order_pos
  have hll := Basis.bisectL_le_bisectR hv x0
  unfold Obj.splitInsert at hso
  simp only [List.foldlM_cons, List.foldlM_nil, bind_pure] at hso
  rw [← hb0, continuity_of_exact hv hper htol hx hexR hexL] at hso
  rw [show (Except.ok (if b0.mult x0 = 0 then none
      else some ((b0.order : Int) - ((b0.bisectR x0 : Int) - (b0.bisectL x0 : Int)) - 1))
      : PyM (Option Int)) = pure _ from rfl, pure_bind] at hso
  -- the number of inserted copies
  obtain ⟨cnt, hcnt, hge⟩ : ∃ cnt : ℕ, o.insertKnots (List.replicate cnt x0) dir = .ok so ∧
      b0.order ≤ b0.mult x0 + cnt := by
    by_cases h0 : b0.mult x0 = 0
    · rw [if_pos h0] at hso
      refine ⟨((b0.order : Int) - 1 + 1).toNat, hso, ?_⟩
      omega
    · rw [if_neg h0] at hso
      refine ⟨(((b0.order : Int) - ((b0.bisectR x0 : Int) - (b0.bisectL x0 : Int)) - 1) + 1).toNat,
        hso, ?_⟩
      unfold Basis.mult
      omega
  rw [insertKnots_eq] at hcnt
  cases hm : insertMany b0 (Mat.identity (o.cps.shape.getD dir 0)) (List.replicate cnt x0) with
  | error e => rw [← hb0, hm] at hcnt; cases hcnt
  | ok bc =>
    rw [← hb0, hm] at hcnt
    obtain ⟨b', C⟩ := bc
    have hso' : ({ o with bases := o.bases.set! dir b', cps := Tensor.applyAxis C o.cps dir } : Obj K)
        = so := Except.ok.inj hcnt
    have hsb : so.basis dir = b' := by rw [← hso']; exact basis_set o dir hdir _ _
    rw [hshape] at hm
    obtain ⟨hmul, m', hR⟩ := mult_insertMany_all b0 hv k hk x0 hx cnt b0 _ 0
      (perRefines_refl b0 hv) b' C hm
    have hv' : b'.Valid := hR.valid
    have hpm : b0.order ≤ b'.mult x0 := by omega
    have hll' := Basis.bisectL_le_bisectR hv' x0
    unfold Basis.mult at hpm
    rw [hsb]
    exact ⟨Basis.kn_of_mem_run hv' x0 _ (le_refl _) (by omega),
      Basis.kn_of_mem_run hv' x0 _ (by omega) (by omega)⟩

/-- Older guarded form (the hypothesis `hguard` is not used). -/
theorem hMult_of_exact (o : Obj K) (dir : ℕ) (hdir : dir < o.bases.size)
    (hv : (o.basis dir).Valid) (k : ℕ) (hk : (o.basis dir).periodic = (k : Int))
    (_hguard : (o.basis dir).order + k ≤ (o.basis dir).numFunctions)
    (hshape : o.cps.shape.getD dir 0 = (o.basis dir).numFunctions) {tol x0 : K} (htol : 0 < tol)
    (hx : (o.basis dir).start ≤ x0 ∧ x0 < (o.basis dir).stop)
    (hexR : ∀ i, i < (o.basis dir).knots.size → (o.basis dir).kn i ≤ x0 ∨ x0 + tol ≤ (o.basis dir).kn i)
    (hexL : ∀ i, i < (o.basis dir).knots.size → (o.basis dir).kn i < x0 - tol ∨ x0 ≤ (o.basis dir).kn i) :
    ∀ so, o.splitInsert tol [x0] dir = .ok so →
      (so.basis dir).kn ((so.basis dir).bisectL x0) = x0 ∧
      (so.basis dir).kn ((so.basis dir).bisectL x0 + (o.basis dir).order - 1) = x0 :=
  hMult_of_exact_all o dir hdir hv k hk hshape htol hx hexR hexL

end Splipy
