import Splipy.Lemmas.C18NumberingA

/-!
# C18 — frames of the read phase: which arrays and which positions a step can change
-/

set_option linter.unusedSectionVars false

namespace Splipy.MP.C18L

variable {α : Type} [Inhabited α]

/-! ## positions of `setSect` / `fillSect` -/

theorem setSect_shape (a vals : NdArr α) (sec : Sec) : (a.setSect sec vals).shape = a.shape := rfl
theorem setSect_wf (a vals : NdArr α) (sec : Sec) : (a.setSect sec vals).SizeOK := ndOfFn_wf _ _
theorem fillSect_shape (a : NdArr α) (sec : Sec) (v : α) : (a.fillSect sec v).shape = a.shape := rfl
theorem fillSect_wf (a : NdArr α) (sec : Sec) (v : α) : (a.fillSect sec v).SizeOK := ndOfFn_wf _ _

theorem setSect_getD (a vals : NdArr α) (sec : Sec) {q : ℕ} (hq : q < shapeSize a.shape) :
    (a.setSect sec vals).data.getD q default =
      if onSection sec a.shape (unravel a.shape q) then vals.get (projectSection sec (unravel a.shape q))
      else a.data.getD q default := by
  unfold NdArr.setSect
  rw [ndOfFn_getD _ _ hq]
  split
  · rfl
  · exact ndGet_unravel a hq

theorem fillSect_getD (a : NdArr α) (sec : Sec) (v : α) {q : ℕ} (hq : q < shapeSize a.shape) :
    (a.fillSect sec v).data.getD q default =
      if onSection sec a.shape (unravel a.shape q) then v else a.data.getD q default := by
  unfold NdArr.fillSect
  rw [ndOfFn_getD _ _ hq]
  split
  · rfl
  · exact ndGet_unravel a hq

/-! ## the flags of the first loop -/

/-- the position `q` of patch `p` lies on a codimension-1 section that `p` does not own -/
def Flagged (p : PatchPlan) (q : ℕ) : Prop :=
  ∃ f ∈ p.faces, f.owned = false ∧ onSection f.sec p.shape (unravel p.shape q) = true

theorem flagFold_spec (shape : List ℕ) : ∀ (faces : List FaceLink) (a : NdArr ℤ), a.shape = shape →
    let r := faces.foldl (fun a f => if f.owned then a else a.fillSect f.sec (-1)) a
    r.shape = shape ∧ ∀ q, q < shapeSize shape →
      r.data.getD q default =
        if (∃ f ∈ faces, f.owned = false ∧ onSection f.sec shape (unravel shape q) = true) then -1
        else a.data.getD q default
  | [], a, ha => by
    refine ⟨ha, fun q _ => ?_⟩
    simp
  | f :: fs, a, ha => by
    simp only [List.foldl_cons]
    by_cases hown : f.owned = true
    · simp only [hown, if_true]
      obtain ⟨h1, h2⟩ := flagFold_spec shape fs a ha
      refine ⟨h1, fun q hq => ?_⟩
      rw [h2 q hq]
      have : (∃ g ∈ f :: fs, g.owned = false ∧ onSection g.sec shape (unravel shape q) = true) ↔
          (∃ g ∈ fs, g.owned = false ∧ onSection g.sec shape (unravel shape q) = true) := by
        constructor
        · rintro ⟨g, hg, hg1, hg2⟩
          rcases List.mem_cons.1 hg with rfl | hg'
          · rw [hown] at hg1; cases hg1
          · exact ⟨g, hg', hg1, hg2⟩
        · rintro ⟨g, hg, hg1, hg2⟩
          exact ⟨g, List.mem_cons_of_mem _ hg, hg1, hg2⟩
      simp only [this]
    · have hown' : f.owned = false := by simpa using hown
      simp only [hown', Bool.false_eq_true, if_false]
      have hs : (a.fillSect f.sec (-1)).shape = shape := by rw [fillSect_shape, ha]
      obtain ⟨h1, h2⟩ := flagFold_spec shape fs (a.fillSect f.sec (-1)) hs
      refine ⟨h1, fun q hq => ?_⟩
      rw [h2 q hq, fillSect_getD a f.sec (-1) (by rw [ha]; exact hq), ha]
      by_cases hon : onSection f.sec shape (unravel shape q) = true
      · have : ∃ g ∈ f :: fs, g.owned = false ∧ onSection g.sec shape (unravel shape q) = true :=
          ⟨f, by simp, hown', hon⟩
        simp only [this, if_true, hon]
        split <;> rfl
      · have : (∃ g ∈ f :: fs, g.owned = false ∧ onSection g.sec shape (unravel shape q) = true) ↔
            (∃ g ∈ fs, g.owned = false ∧ onSection g.sec shape (unravel shape q) = true) := by
          constructor
          · rintro ⟨g, hg, hg1, hg2⟩
            rcases List.mem_cons.1 hg with rfl | hg'
            · exact absurd hg2 hon
            · exact ⟨g, hg', hg1, hg2⟩
          · rintro ⟨g, hg, hg1, hg2⟩
            exact ⟨g, List.mem_cons_of_mem _ hg, hg1, hg2⟩
        simp only [this, hon, Bool.false_eq_true, if_false]

theorem full_shape (shape : List ℕ) (v : α) : (NdArr.full shape v).shape = shape := rfl

theorem full_getD (shape : List ℕ) (v : α) (q : ℕ) (hq : q < shapeSize shape) :
    (NdArr.full shape v).data.getD q default = v := by
  simp [NdArr.full, Array.getD, hq]

theorem flagArray_spec (p : PatchPlan) :
    (flagArray p).shape = p.shape ∧ ∀ q, q < shapeSize p.shape →
      (Flagged p q → (flagArray p).data.getD q default = -1) ∧
      (¬ Flagged p q → (flagArray p).data.getD q default = 0) := by
  obtain ⟨h1, h2⟩ := flagFold_spec p.shape p.faces (NdArr.full p.shape 0) rfl
  refine ⟨h1, fun q hq => ?_⟩
  have := h2 q hq
  rw [full_getD p.shape 0 q hq] at this
  constructor
  · intro hf
    unfold Flagged at hf
    unfold flagArray
    simpa [hf] using this
  · intro hf
    unfold Flagged at hf
    unfold flagArray
    simpa [hf] using this

theorem flagArray_size (p : PatchPlan) : (flagArray p).data.size = shapeSize p.shape := by
  unfold flagArray
  generalize hinit : NdArr.full p.shape (0 : ℤ) = a
  have ha : a.data.size = shapeSize p.shape ∧ a.shape = p.shape := by
    subst hinit; simp [NdArr.full]
  clear hinit
  induction p.faces generalizing a with
  | nil => exact ha.1
  | cons f fs ih =>
    simp only [List.foldl_cons]
    split
    · exact ih a ha
    · refine ih _ ⟨?_, ?_⟩
      · rw [fillSect_wf, fillSect_shape, ha.2]
      · rw [fillSect_shape, ha.2]

end Splipy.MP.C18L

namespace Splipy.MP.C18L

variable {α : Type} [Inhabited α]

/-! ## one face -/

theorem default_getD (q : ℕ) : (default : NdArr α).data.getD q default = default := by
  have hd : (default : NdArr α).data = #[] := rfl
  simp [hd]

theorem readFace_frame {k : ℕ} {A B : Array (NdArr α)} {f : FaceLink} (h : readFace k A f = .ok B) :
    (∀ i, i ≠ k → B.getD i default = A.getD i default) ∧
    (B.getD k default).shape = (A.getD k default).shape ∧
    ((A.getD k default).SizeOK → (B.getD k default).SizeOK) := by
  rcases readFace_ok h with ⟨_, rfl⟩ | ⟨_, ori, v, _, _, _, rfl⟩
  · exact ⟨fun _ _ => rfl, rfl, id⟩
  · refine ⟨fun i hi => ?_, ?_, ?_⟩
    · rw [getD_setIfInBounds]; simp [hi]
    · rw [getD_setIfInBounds]; split
      · rfl
      · rfl
    · intro hwf
      rw [getD_setIfInBounds]; split
      · exact setSect_wf _ _ _
      · exact hwf

/-- positions not on the section of a face that is read keep their entry -/
theorem readFace_pos {k : ℕ} {A B : Array (NdArr α)} {f : FaceLink} (h : readFace k A f = .ok B)
    {q : ℕ} (hq : q < shapeSize (A.getD k default).shape)
    (hnot : ¬ (f.owned = false ∧ onSection f.sec (A.getD k default).shape (unravel (A.getD k default).shape q) = true)) :
    (B.getD k default).data.getD q default = (A.getD k default).data.getD q default := by
  rcases readFace_ok h with ⟨_, rfl⟩ | ⟨ho, ori, v, _, _, _, rfl⟩
  · rfl
  · rw [getD_setIfInBounds]; split
    · rw [setSect_getD _ _ _ hq]
      have : ¬ onSection f.sec (A.getD k default).shape (unravel (A.getD k default).shape q) = true :=
        fun hon => hnot ⟨ho, hon⟩
      rw [if_neg this]
    · rfl

/-- positions on the section of a face that is read receive an entry of the array the face views
    (or the default, outside an array) -/
theorem readFace_copy {k : ℕ} {A B : Array (NdArr α)} {f : FaceLink} (h : readFace k A f = .ok B)
    {q : ℕ} (hq : q < shapeSize (A.getD k default).shape)
    (hon : f.owned = false ∧ onSection f.sec (A.getD k default).shape (unravel (A.getD k default).shape q) = true) :
    (B.getD k default).data.getD q default = default ∨
      ∃ v, f.src = some v ∧ (B.getD k default).data.getD q default ∈ (A.getD v.top default).data.toList := by
  rcases readFace_ok h with ⟨ho, rfl⟩ | ⟨ho, ori, v, _, hv, _, rfl⟩
  · rw [hon.1] at ho; cases ho
  · rw [getD_setIfInBounds]; split
    · rw [setSect_getD _ _ _ hq]
      simp only [hon.2, if_true]
      rcases ndGet_mem (ori.mapArray (resolveView A v)) (projectSection f.sec (unravel (A.getD k default).shape q)) with h1 | h1
      · exact Or.inl h1
      · rcases apply_entries _ _ h1 with h2 | h2
        · exact Or.inl h2
        · rcases resolveView_entries _ _ h2 with h3 | h3
          · exact Or.inl h3
          · exact Or.inr ⟨v, hv, h3⟩
    · rename_i hk
      left
      have hk' : ¬ k < A.size := fun hlt => hk ⟨rfl, hlt⟩
      have : A.getD k default = default := by
        rw [Array.getD_eq_getD_getElem?, Array.getElem?_eq_none (by omega)]; rfl
      rw [this]
      exact default_getD q

/-! ## the faces of one patch -/

/-- some face of the list, not owned, has the position `q` on its section -/
def FlaggedBy (fs : List FaceLink) (s : List ℕ) (q : ℕ) : Prop :=
  ∃ f ∈ fs, f.owned = false ∧ onSection f.sec s (unravel s q) = true

theorem readFaces_spec (k : ℕ) (s : List ℕ) (Pr : ℕ → Prop) (hPr : ∀ i, Pr i → i ≠ k) :
    ∀ (fs : List FaceLink) (A B : Array (NdArr α)),
    fs.foldlM (readFace k) A = .ok B → (A.getD k default).shape = s → (A.getD k default).SizeOK →
    (∀ f ∈ fs, f.owned = false → ∀ v, f.src = some v → Pr v.top) →
    (∀ i, i ≠ k → B.getD i default = A.getD i default) ∧ (B.getD k default).shape = s ∧ (B.getD k default).SizeOK ∧
    ∀ q, q < shapeSize s →
      (¬ FlaggedBy fs s q → (B.getD k default).data.getD q default = (A.getD k default).data.getD q default) ∧
      (FlaggedBy fs s q → (B.getD k default).data.getD q default = default ∨
        ∃ i, Pr i ∧ (B.getD k default).data.getD q default ∈ (A.getD i default).data.toList)
  | [], A, B, h, hs, hwf, _ => by
    simp only [List.foldlM_nil, pure, Except.pure, Except.ok.injEq] at h
    subst h
    refine ⟨fun _ _ => rfl, hs, hwf, fun q _ => ⟨fun _ => rfl, ?_⟩⟩
    rintro ⟨f, hf, _⟩
    simp at hf
  | f :: fs, A, B, h, hs, hwf, hord => by
    rw [List.foldlM_cons] at h
    simp only [bind, Except.bind] at h
    split at h
    · cases h
    · rename_i A' hA'
      obtain ⟨fr1, fr2, fr3⟩ := readFace_frame hA'
      obtain ⟨r1, r2, r3, r4⟩ := readFaces_spec k s Pr hPr fs A' B h (by rw [fr2, hs]) (fr3 hwf)
        (fun g hg => hord g (List.mem_cons_of_mem _ hg))
      refine ⟨fun i hi => by rw [r1 i hi, fr1 i hi], r2, r3, fun q hq => ⟨?_, ?_⟩⟩
      · intro hnf
        have hnf1 : ¬ FlaggedBy fs s q := fun ⟨g, hg, hg'⟩ => hnf ⟨g, List.mem_cons_of_mem _ hg, hg'⟩
        rw [(r4 q hq).1 hnf1]
        refine readFace_pos hA' (by rw [hs]; exact hq) ?_
        rw [hs]
        exact fun hc => hnf ⟨f, by simp, hc⟩
      · intro hfl
        by_cases hfs : FlaggedBy fs s q
        · rcases (r4 q hq).2 hfs with h1 | ⟨i, hi, h1⟩
          · exact Or.inl h1
          · exact Or.inr ⟨i, hi, by rw [← fr1 i (hPr i hi)]; exact h1⟩
        · rw [(r4 q hq).1 hfs]
          have hf : f.owned = false ∧ onSection f.sec s (unravel s q) = true := by
            obtain ⟨g, hg, hg'⟩ := hfl
            rcases List.mem_cons.1 hg with rfl | hg2
            · exact hg'
            · exact absurd ⟨g, hg2, hg'⟩ hfs
          rcases readFace_copy hA' (by rw [hs]; exact hq) (by rw [hs]; exact hf) with h1 | ⟨v, hv, h1⟩
          · exact Or.inl h1
          · exact Or.inr ⟨v.top, hord f (by simp) hf.1 v hv, h1⟩

end Splipy.MP.C18L
