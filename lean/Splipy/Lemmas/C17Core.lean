import Splipy.Lemmas.C17Catalogue

/-! Lemmas for C17: what `newNode` / `addNode` change in a model state (the `higher`/`owner`
links of nodes, one new node, the key table of one level) and what they keep. -/

namespace Splipy.MP

/-- `m'` differs from `m` only in the `higher`/`owner` links of nodes -/
structure SameCore (m m' : Model) : Prop where
  levels : m'.levels = m.levels
  verts : m'.verts = m.verts
  size : m'.nodes.size = m.nodes.size
  obj : ∀ k, (m'.node k).obj = (m.node k).obj
  lower : ∀ k, (m'.node k).lower = (m.node k).lower
  pardim : ∀ k, (m'.node k).pardim = (m.node k).pardim

theorem SameCore.refl (m : Model) : SameCore m m := ⟨rfl, rfl, rfl, fun _ => rfl, fun _ => rfl, fun _ => rfl⟩

theorem SameCore.trans {a b c : Model} (h1 : SameCore a b) (h2 : SameCore b c) : SameCore a c :=
  ⟨h2.levels.trans h1.levels, h2.verts.trans h1.verts, h2.size.trans h1.size,
   fun k => (h2.obj k).trans (h1.obj k), fun k => (h2.lower k).trans (h1.lower k),
   fun k => (h2.pardim k).trans (h1.pardim k)⟩

theorem SameCore.modifyNode (m : Model) (i : ℕ) (f : TNode → TNode)
    (hf : ∀ n, (f n).obj = n.obj ∧ (f n).lower = n.lower ∧ (f n).pardim = n.pardim) :
    SameCore m (m.modifyNode i f) := by
  have key : ∀ k, (m.modifyNode i f).node k = m.node k ∨
      (m.modifyNode i f).node k = f (m.node k) := by
    intro k
    simp only [Model.node, Model.modifyNode, Array.getD_eq_getD_getElem?, Array.getElem?_modify]
    by_cases hik : i = k
    · subst hik
      cases h : m.nodes[i]? with
      | none => left; simp
      | some n => right; simp
    · left; simp [hik]
  refine ⟨rfl, rfl, by simp [Model.modifyNode], fun k => ?_, fun k => ?_, fun k => ?_⟩ <;>
    rcases key k with h | h <;> rw [h]
  · exact (hf _).1
  · exact (hf _).2.1
  · exact (hf _).2.2

theorem SameCore.foldl {α : Type} (l : List α) (step : Model → α → Model)
    (hstep : ∀ m x, SameCore m (step m x)) (m : Model) : SameCore m (l.foldl step m) := by
  induction l generalizing m with
  | nil => exact SameCore.refl m
  | cons x xs ih => exact (hstep m x).trans (ih (step m x))

theorem SameCore.transferOwnership (fuel : ℕ) (m : Model) (self newOwner : ℕ) :
    SameCore m (Model.transferOwnership fuel m self newOwner) := by
  induction fuel generalizing m self with
  | zero => exact SameCore.refl m
  | succ fuel ih =>
    simp only [Model.transferOwnership]
    have h1 := SameCore.modifyNode m self (fun n => { n with owner := some newOwner })
      (fun _ => ⟨rfl, rfl, rfl⟩)
    split
    · refine h1.trans (SameCore.foldl _ _ (fun m' child => ?_) _)
      split
      · exact ih m' child
      · exact SameCore.refl m'
    · exact h1

/-- everything `newNode` does, as far as objects, lower links, levels and vertices go -/
structure NewNodeSpec (m m' : Model) (obj : Obj) (lower : List (List ℕ)) : Prop where
  levels : m'.levels = m.levels
  verts : m'.verts = m.verts
  size : m'.nodes.size = m.nodes.size + 1
  new_obj : (m'.node m.nodes.size).obj = obj
  new_lower : (m'.node m.nodes.size).lower = lower
  new_pardim : (m'.node m.nodes.size).pardim = obj.pardim
  old_obj : ∀ k, k < m.nodes.size → (m'.node k).obj = (m.node k).obj
  old_lower : ∀ k, k < m.nodes.size → (m'.node k).lower = (m.node k).lower
  old_pardim : ∀ k, k < m.nodes.size → (m'.node k).pardim = (m.node k).pardim

theorem Model.newNode_full (m : Model) (obj : Obj) (lower : List (List ℕ)) (index : ℕ) :
    (m.newNode obj lower index).2 = m.nodes.size ∧
    NewNodeSpec m (m.newNode obj lower index).1 obj lower := by
  let nd : TNode := { pardim := obj.pardim, obj := obj, lower := lower, higher := [], owner := none, index := index }
  let m0 : Model := { m with nodes := m.nodes.push nd }
  have hnew : m0.node m.nodes.size = nd := by simp [m0, Model.node]
  have hold : ∀ k, k < m.nodes.size → m0.node k = m.node k := by
    intro k hk
    simp [m0, Model.node, Array.getD_eq_getD_getElem?, Array.getElem?_push, hk, Nat.ne_of_lt hk]
  have key : SameCore m0 (m.newNode obj lower index).1 := by
    unfold Model.newNode
    dsimp only
    split
    · refine SameCore.trans (SameCore.foldl _ _ ?_ _) (SameCore.foldl _ _ ?_ _)
      · intro m' dn
        refine SameCore.foldl _ _ ?_ _
        intro m'' k
        exact SameCore.modifyNode _ _ _ (fun _ => ⟨rfl, rfl, rfl⟩)
      · intro m' k
        split
        · exact SameCore.transferOwnership _ _ _ _
        · exact SameCore.refl _
    · refine SameCore.foldl _ _ ?_ _
      intro m' dn
      refine SameCore.foldl _ _ ?_ _
      intro m'' k
      exact SameCore.modifyNode _ _ _ (fun _ => ⟨rfl, rfl, rfl⟩)
  refine ⟨rfl, key.levels, key.verts, ?_, ?_, ?_, ?_, ?_, ?_, ?_⟩
  · rw [key.size]; simp [m0]
  · rw [key.obj, hnew]
  · rw [key.lower, hnew]
  · rw [key.pardim, hnew]
  · intro k hk; rw [key.obj, hold k hk]
  · intro k hk; rw [key.lower, hold k hk]
  · intro k hk; rw [key.pardim, hold k hk]

theorem Model.level_modifyLevel_ne (m : Model) (d e : ℕ) (f : Level → Level) (hne : d ≠ e) :
    (m.modifyLevel d f).level e = m.level e := by
  simp [Model.level, Model.modifyLevel, Array.getD_eq_getD_getElem?, Array.getElem?_modify, hne]

/-- everything `_add` does -/
structure AddNodeSpec (m m' : Model) (obj : Obj) (lower : List (List ℕ)) : Prop where
  lsize : m'.levels.size = m.levels.size
  verts : m'.verts = m.verts
  size : m'.nodes.size = m.nodes.size + 1
  new_obj : (m'.node m.nodes.size).obj = obj
  new_lower : (m'.node m.nodes.size).lower = lower
  new_pardim : (m'.node m.nodes.size).pardim = obj.pardim
  old_obj : ∀ k, k < m.nodes.size → (m'.node k).obj = (m.node k).obj
  old_lower : ∀ k, k < m.nodes.size → (m'.node k).lower = (m.node k).lower
  old_pardim : ∀ k, k < m.nodes.size → (m'.node k).pardim = (m.node k).pardim
  get_same : ∀ q, (m'.level obj.pardim).get q =
      if q.Perm (lower.getLastD []) then (m.level obj.pardim).get q ++ [m.nodes.size]
      else (m.level obj.pardim).get q
  get_other : ∀ d q, d ≠ obj.pardim → (m'.level d).get q = (m.level d).get q

theorem Model.addNode_full (m : Model) (obj : Obj) (lower : List (List ℕ))
    (hpd : obj.pardim < m.levels.size) :
    (m.addNode obj lower).2.1 = m.nodes.size ∧
    (m.addNode obj lower).2.2 = Orientation.identity obj.pardim ∧
    AddNodeSpec m (m.addNode obj lower).1 obj lower := by
  obtain ⟨h1, hs⟩ := Model.newNode_full m obj lower (m.level obj.pardim).count
  have hget := (Model.addNode_spec m obj lower hpd).2.2.2.2
  refine ⟨(Model.addNode_spec m obj lower hpd).1, rfl, ?_⟩
  unfold Model.addNode at hget ⊢
  dsimp only at hget ⊢
  refine ⟨?_, hs.verts, hs.size, hs.new_obj, hs.new_lower, hs.new_pardim, hs.old_obj, hs.old_lower,
    hs.old_pardim, hget, ?_⟩
  · simp [Model.modifyLevel, hs.levels]
  · intro d q hne
    rw [Model.level_modifyLevel_ne _ _ _ _ (Ne.symm hne)]
    exact congrArg (fun l : Array Level => (l.getD d {}).get q) hs.levels

/-! ### the `higher` links -/

/-- `m'` has the same `higher` links as `m` -/
def SameHigh (m m' : Model) : Prop := ∀ k, (m'.node k).higher = (m.node k).higher

theorem SameHigh.refl (m : Model) : SameHigh m m := fun _ => rfl
theorem SameHigh.trans {a b c : Model} (h1 : SameHigh a b) (h2 : SameHigh b c) : SameHigh a c :=
  fun k => (h2 k).trans (h1 k)

theorem Model.node_modifyNode (m : Model) (i : ℕ) (f : TNode → TNode) (k : ℕ) :
    (m.modifyNode i f).node k = if i = k ∧ k < m.nodes.size then f (m.node k) else m.node k := by
  simp only [Model.node, Model.modifyNode, Array.getD_eq_getD_getElem?, Array.getElem?_modify]
  by_cases hik : i = k
  · subst hik
    by_cases hlt : i < m.nodes.size
    · simp [hlt]
    · have : m.nodes[i]? = none := Array.getElem?_eq_none (by omega)
      simp [hlt]
  · simp [hik]

theorem SameHigh.modifyNode (m : Model) (i : ℕ) (f : TNode → TNode)
    (hf : ∀ n, (f n).higher = n.higher) : SameHigh m (m.modifyNode i f) := by
  intro k
  rw [Model.node_modifyNode]
  split
  · exact hf _
  · rfl

theorem SameHigh.foldl {α : Type} (l : List α) (step : Model → α → Model)
    (hstep : ∀ m x, SameHigh m (step m x)) (m : Model) : SameHigh m (l.foldl step m) := by
  induction l generalizing m with
  | nil => exact SameHigh.refl m
  | cons x xs ih => exact (hstep m x).trans (ih (step m x))

theorem SameHigh.transferOwnership (fuel : ℕ) (m : Model) (self newOwner : ℕ) :
    SameHigh m (Model.transferOwnership fuel m self newOwner) := by
  induction fuel generalizing m self with
  | zero => exact SameHigh.refl m
  | succ fuel ih =>
    simp only [Model.transferOwnership]
    have h1 := SameHigh.modifyNode m self (fun n => { n with owner := some newOwner }) (fun _ => rfl)
    split
    · refine h1.trans (SameHigh.foldl _ _ (fun m' child => ?_) _)
      split
      · exact ih m' child
      · exact SameHigh.refl m'
    · exact h1

/-- `for node in dim_nodes: node.assign_higher(self)` -/
def appendHigher (m : Model) (l : List ℕ) (e : ℕ × ℕ) : Model :=
  l.foldl (fun m k => m.modifyNode k (fun n => { n with higher := n.higher ++ [e] })) m

theorem appendHigher_size (m : Model) (l : List ℕ) (e : ℕ × ℕ) :
    (appendHigher m l e).nodes.size = m.nodes.size := by
  unfold appendHigher
  induction l generalizing m with
  | nil => rfl
  | cons k ks ih => simp only [List.foldl_cons]; rw [ih]; simp [Model.modifyNode]

theorem appendHigher_higher (m : Model) (l : List ℕ) (e : ℕ × ℕ) (j : ℕ) (hj : j < m.nodes.size) :
    ((appendHigher m l e).node j).higher = (m.node j).higher ++ List.replicate (l.count j) e := by
  unfold appendHigher
  induction l generalizing m with
  | nil => simp
  | cons k ks ih =>
    simp only [List.foldl_cons]
    have hsz : (m.modifyNode k (fun n => { n with higher := n.higher ++ [e] })).nodes.size = m.nodes.size := by
      simp [Model.modifyNode]
    rw [ih _ (by rw [hsz]; exact hj), Model.node_modifyNode, List.count_cons]
    by_cases hkj : k = j
    · subst hkj
      simp [hj, List.replicate_succ']
      rw [← List.replicate_succ', List.replicate_succ]
    · have : ¬ (k = j ∧ j < m.nodes.size) := fun h => hkj h.1
      simp [hkj]

theorem Model.newNode_higher (m : Model) (obj : Obj) (lower : List (List ℕ)) (index : ℕ) (j : ℕ)
    (hj : j < m.nodes.size) :
    ((m.newNode obj lower index).1.node j).higher =
      (m.node j).higher ++ List.replicate (lower.flatten.count j) (obj.pardim, m.nodes.size) ∧
    ((m.newNode obj lower index).1.node m.nodes.size).higher =
      List.replicate (lower.flatten.count m.nodes.size) (obj.pardim, m.nodes.size) := by
  let nd : TNode := { pardim := obj.pardim, obj := obj, lower := lower, higher := [], owner := none, index := index }
  let m0 : Model := { m with nodes := m.nodes.push nd }
  have hm0 : m0.nodes.size = m.nodes.size + 1 := by simp [m0]
  have hnew : (m0.node m.nodes.size).higher = [] := by simp [m0, Model.node, nd]
  have hold : (m0.node j).higher = (m.node j).higher := by
    simp [m0, Model.node, Array.getD_eq_getD_getElem?, Array.getElem?_push, hj, Nat.ne_of_lt hj]
  -- the outer loop
  have houter : ∀ (ls : List (List ℕ)) (m1 : Model) (i : ℕ), i < m1.nodes.size →
      ((ls.foldl (fun m' dimNodes => appendHigher m' dimNodes (obj.pardim, m.nodes.size)) m1).node i).higher =
        (m1.node i).higher ++ List.replicate (ls.flatten.count i) (obj.pardim, m.nodes.size) := by
    intro ls
    induction ls with
    | nil => intro m1 i _; simp
    | cons l ls ih =>
      intro m1 i hi
      simp only [List.foldl_cons, List.flatten_cons, List.count_append]
      rw [ih _ i (by rw [appendHigher_size]; exact hi), appendHigher_higher _ _ _ _ hi,
        List.append_assoc, ← List.replicate_add]
  have hloop : ∀ i, i < m0.nodes.size →
      ((m.newNode obj lower index).1.node i).higher =
        (m0.node i).higher ++ List.replicate (lower.flatten.count i) (obj.pardim, m.nodes.size) := by
    intro i hi
    have key : SameHigh (lower.foldl (fun m' dimNodes => appendHigher m' dimNodes (obj.pardim, m.nodes.size)) m0)
        (m.newNode obj lower index).1 := by
      unfold Model.newNode
      dsimp only
      split
      · refine SameHigh.foldl _ _ ?_ _
        intro m' k
        split
        · exact SameHigh.transferOwnership _ _ _ _
        · exact SameHigh.refl _
      · exact SameHigh.refl _
    rw [key i, houter lower m0 i hi]
  constructor
  · rw [hloop j (by rw [hm0]; omega), hold]
  · rw [hloop m.nodes.size (by rw [hm0]; omega), hnew, List.nil_append]

theorem Model.addNode_higher (m : Model) (obj : Obj) (lower : List (List ℕ)) (j : ℕ)
    (hj : j < m.nodes.size) :
    ((m.addNode obj lower).1.node j).higher =
      (m.node j).higher ++ List.replicate (lower.flatten.count j) (obj.pardim, m.nodes.size) ∧
    ((m.addNode obj lower).1.node m.nodes.size).higher =
      List.replicate (lower.flatten.count m.nodes.size) (obj.pardim, m.nodes.size) := by
  have := Model.newNode_higher m obj lower (m.level obj.pardim).count j hj
  unfold Model.addNode
  dsimp only
  exact this

/-! ### coverage of the key list (`OrderedDict` keys) -/

/-- every key with an entry is in the insertion-ordered key list -/
def Cov (lv : Level) : Prop := ∀ q, lv.map[q]? ≠ none → q ∈ lv.keys.toList

theorem Cov.setdefaultAppend {lv : Level} (h : Cov lv) (p : List ℕ) (id : ℕ) :
    Cov (lv.setdefaultAppend p id) := by
  intro q hq
  unfold Level.setdefaultAppend at hq ⊢
  cases hp : lv.map[p]? with
  | some v =>
    rw [hp] at hq
    simp only [Std.HashMap.getElem?_insert, beq_iff_eq] at hq ⊢
    by_cases hpq : p = q
    · subst hpq; exact h p (by rw [hp]; simp)
    · simp only [hpq, if_false] at hq; exact h q hq
  | none =>
    rw [hp] at hq
    simp only [Std.HashMap.getElem?_insert, beq_iff_eq, Array.toList_push, List.mem_append,
      List.mem_singleton] at hq ⊢
    by_cases hpq : p = q
    · exact Or.inr hpq.symm
    · simp only [hpq, if_false] at hq; exact Or.inl (h q hq)

theorem Cov.foldl {lv : Level} (h : Cov lv) (ks : List (List ℕ)) (id : ℕ) :
    Cov (ks.foldl (fun lv p => lv.setdefaultAppend p id) lv) := by
  induction ks generalizing lv with
  | nil => exact h
  | cons k ks ih => exact ih (h.setdefaultAppend k id)

theorem Model.addNode_cov (m : Model) (obj : Obj) (lower : List (List ℕ))
    (hpd : obj.pardim < m.levels.size) (d : ℕ) (h : Cov (m.level d)) :
    Cov ((m.addNode obj lower).1.level d) := by
  obtain ⟨_, hs⟩ := Model.newNode_full m obj lower (m.level obj.pardim).count
  have hlv : ∀ e, (m.newNode obj lower (m.level obj.pardim).count).1.level e = m.level e :=
    fun e => congrArg (fun l : Array Level => l.getD e {}) hs.levels
  unfold Model.addNode
  dsimp only
  by_cases hd : obj.pardim = d
  · subst hd
    rw [Model.level_modifyLevel _ _ _ (by rw [hs.levels]; exact hpd), hlv]
    apply Cov.foldl
    exact h
  · rw [Model.level_modifyLevel_ne _ _ _ _ hd, hlv]; exact h

end Splipy.MP
