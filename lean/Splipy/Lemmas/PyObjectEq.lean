import Splipy.Generated.PyObject
import Splipy.Model.Refine
import Splipy.Model.WellFormed
import Splipy.Model.AffineOps
import Mathlib.Data.List.Nodup
import Mathlib.Tactic.IntervalCases
import Splipy.Lemmas.TensorEval
import Mathlib.Tactic.NormNum
import Mathlib.Tactic.Ring
import Mathlib.Tactic.Linarith
import Mathlib.Tactic.Push
import Mathlib.Tactic.FieldSimp
import Splipy.Model.Periodic
import Splipy.Model.Split
import Splipy.Model.Order
import Splipy.Model.Sections

/-!
# The translated `SplineObject` methods are the hand model (work package t3)

`Splipy/Generated/PyObject.lean` is rewritten on every check by `harness/translate/object_translate.py`
from the Python AST of `splipy/splineobject.py` (and `utils.check_direction`); this file proves, for
every translated method `m`, a theorem `PyObject_m_eq : Generated.PyObject.m (ofObj o) tol … = <hand
model of m> o …` under explicit well-formedness guards.  The file is re-checked against the fresh
definitions by `harness/props/_pyobject.py`, which attributes an error inside a section
`### method: m` (or in a section `m` depends on) to the obligation of `m`; sections `## …` hold lemmas
that do not mention generated code.  Proof style: generated bodies are never restated — loops are
rewritten in place with the model's fold as the target, so a change of the translation's *layout*
does not break the proofs, a change of its *meaning* does.

Second part (t3b): `lower_periodic`, `make_periodic`, `order`, `split` (C07/C08/C12); `raise_order_implicit`,
`raise_order`, `set_order`, `lower_order` (C05; `np.linalg.inv` is the model's certified `Mat.invChecked`,
the explicit `raise_order_1D` branch is pinned and mapped to the model's `Exception`); the operators
`__iadd__ … __div__`, `scale` with a sequence operand, `mirror`, `rotate`, `utils.rotation_matrix`
(C09/C11; `sqrt`, `cos`, `sin` are abstract inputs); `section`, `corners` (C15).  In these sections a loop
body is sometimes restated (`si_body`, `pcBody`, `lp_body`): such lemmas live in the section of the method.
-/

set_option linter.unusedSectionVars false
set_option linter.unusedSimpArgs false
set_option linter.unnecessarySeqFocus false
set_option linter.unusedVariables false

namespace Splipy.PyO

open Splipy Splipy.Generated Splipy.C06

variable {K : Type} [Field K] [LinearOrder K]

/-! ## the exception monad -/

@[simp] theorem ok_bind {α β : Type} (x : α) (f : α → PyM β) : (Except.ok x >>= f) = f x := rfl
@[simp] theorem error_bind {α β : Type} (e : PyErr) (f : α → PyM β) : (Except.error e >>= f) = .error e := rfl
@[simp] theorem pure_eq_ok {α : Type} (x : α) : (pure x : PyM α) = .ok x := rfl
@[simp] theorem throw_eq_error {α : Type} (e : PyErr) : (throw e : PyM α) = .error e := rfl
@[simp] theorem map_ok {α β : Type} (f : α → β) (x : α) : Except.map f (.ok x : PyM α) = .ok (f x) := rfl
@[simp] theorem map_error {α β : Type} (f : α → β) (e : PyErr) : Except.map f (.error e : PyM α) = .error e := rfl

theorem bind_ok_eta {α : Type} (m : PyM α) : (m >>= fun y => Except.ok y) = m := by
  cases m <;> rfl

/-! ## primitives -/

@[simp] theorem ofObj_bases (o : Obj K) : (ofObj o).bases = o.bases := rfl
@[simp] theorem ofObj_cps (o : Obj K) : (ofObj o).controlpoints = o.cps := rfl
@[simp] theorem ofObj_dimension (o : Obj K) : (ofObj o).dimension = (o.dimension : ℕ) := rfl
@[simp] theorem ofObj_rational (o : Obj K) : (ofObj o).rational = o.rational := rfl

theorem normIdx_nat {n k : ℕ} (h : k < n) : normIdx n (k : Int) = some k := by
  unfold normIdx
  have h0 : (0 : Int) ≤ k := by omega
  have h1 : (k : Int) < n := by omega
  simp [h0, h1]

theorem normIdx_nat_ge {n k : ℕ} (h : n ≤ k) : normIdx n (k : Int) = none := by
  unfold normIdx
  have h0 : (0 : Int) ≤ k := by omega
  have h1 : ¬ (k : Int) < n := by omega
  simp [h0, h1]

theorem getBasis_nat (bs : Array (Basis K)) {k : ℕ} (h : k < bs.size) :
    getBasis bs (k : Int) = .ok (bs.getD k default) := by
  simp [getBasis, normIdx_nat h]

theorem setBasis_nat (bs : Array (Basis K)) {k : ℕ} (h : k < bs.size) (b : Basis K) :
    setBasis bs (k : Int) b = .ok (bs.set! k b) := by
  simp [setBasis, normIdx_nat h]

theorem getItem_nat {α : Type} (xs : List α) {k : ℕ} (h : k < xs.length) :
    getItem xs (k : Int) = .ok (xs[k]'h) := by
  simp [getItem, normIdx_nat h, h]

theorem setItem_nat {α : Type} (xs : List α) {k : ℕ} (h : k < xs.length) (v : α) :
    setItem xs (k : Int) v = .ok (xs.set k v) := by
  simp [setItem, normIdx_nat h]

/-! ## loops -/

theorem listComp_ok {α β : Type} (xs : List α) (f : α → PyM β) (g : α → β)
    (h : ∀ x ∈ xs, f x = .ok (g x)) : listComp xs f = .ok (xs.map g) := by
  induction xs with
  | nil => rfl
  | cons x xs ih =>
    simp only [listComp, h x (by simp), ok_bind, ih (fun y hy => h y (by simp [hy])), List.map_cons, pure_eq_ok]

theorem foldlM_ok_inv {α σ : Type} (l : List α) (f : σ → α → PyM σ) (g : σ → α → σ) (Inv : σ → Prop)
    (s : σ) (hs : Inv s) (h : ∀ a ∈ l, ∀ s, Inv s → f s a = .ok (g s a) ∧ Inv (g s a)) :
    l.foldlM f s = .ok (l.foldl g s) ∧ Inv (l.foldl g s) := by
  induction l generalizing s with
  | nil => exact ⟨rfl, hs⟩
  | cons a l ih =>
    obtain ⟨h1, h2⟩ := h a (by simp) s hs
    have := ih (g s a) h2 (fun a' ha' => h a' (by simp [ha']))
    simp only [List.foldlM_cons, h1, List.foldl_cons]
    exact this

theorem mem_rangeI {lo hi i : Int} : i ∈ rangeI lo hi ↔ lo ≤ i ∧ i < hi := by
  unfold rangeI
  simp only [List.mem_map, List.mem_range]
  constructor
  · rintro ⟨k, hk, rfl⟩; omega
  · intro h; exact ⟨(i - lo).toNat, by omega, by omega⟩

theorem rangeI_zero (n : ℕ) : rangeI 0 (n : Int) = (List.range n).map (fun (k : ℕ) => (k : Int)) := by
  unfold rangeI
  simp

/-- A loop over `range(0, n)` whose body never raises on states satisfying the invariant is the pure
    fold. -/
theorem forRange_eq_foldl {σ : Type} (n : ℕ) (s : σ) (f : Int → σ → PyM σ) (g : σ → ℕ → σ)
    (Inv : σ → Prop) (hs : Inv s)
    (h : ∀ (i : ℕ) s, i < n → Inv s → f i s = .ok (g s i) ∧ Inv (g s i)) :
    forRange 0 (n : Int) s f = .ok ((List.range n).foldl g s) ∧ Inv ((List.range n).foldl g s) := by
  unfold forRange
  rw [rangeI_zero, List.foldlM_map]
  exact foldlM_ok_inv (List.range n) (fun s (i : ℕ) => f i s) g Inv s hs
    (fun a ha s hs => h a s (List.mem_range.mp ha) hs)

end Splipy.PyO

namespace Splipy.PyO
open Splipy Splipy.C06
variable {K : Type} [Field K] [LinearOrder K]

/-! ## multi-indices: `unflat` inverts `flatIdx` -/

theorem unflat_inRange (shape : List ℕ) (k : ℕ) (hk : k < Tensor.prod shape) : InRange (unflat shape k) shape := by
  induction shape generalizing k with
  | nil => exact List.Forall₂.nil
  | cons n shape ih =>
    rw [prod_cons] at hk
    have hP : 0 < Tensor.prod shape := by
      rcases Nat.eq_zero_or_pos (Tensor.prod shape) with h | h
      · rw [h] at hk; simp at hk
      · exact h
    refine List.Forall₂.cons ?_ (ih _ (Nat.mod_lt _ hP))
    exact Nat.div_lt_of_lt_mul (by rwa [Nat.mul_comm] at hk)

theorem flatIdx_unflat (shape : List ℕ) (k : ℕ) (hk : k < Tensor.prod shape) :
    flatIdx shape (unflat shape k) = k := by
  induction shape generalizing k with
  | nil => simp [unflat] at hk ⊢; omega
  | cons n shape ih =>
    rw [prod_cons] at hk
    have hP : 0 < Tensor.prod shape := by
      rcases Nat.eq_zero_or_pos (Tensor.prod shape) with h | h
      · rw [h] at hk; simp at hk
      · exact h
    simp only [unflat, flatIdx_cons]
    rw [ih _ (Nat.mod_lt _ hP)]
    exact Nat.div_add_mod' k _

theorem unflat_flatIdx {idx shape : List ℕ} (h : InRange idx shape) : unflat shape (flatIdx shape idx) = idx := by
  induction h with
  | nil => rfl
  | @cons i n idx shape hin hrest ih =>
    have hf := flatIdx_lt hrest
    have hP : 0 < Tensor.prod shape := by omega
    simp only [flatIdx_cons, unflat]
    have e1 : (i * Tensor.prod shape + flatIdx shape idx) / Tensor.prod shape = i := by
      rw [add_comm, Nat.add_mul_div_right _ _ hP, Nat.div_eq_of_lt hf, zero_add]
    have e2 : (i * Tensor.prod shape + flatIdx shape idx) % Tensor.prod shape = flatIdx shape idx := by
      rw [add_comm, Nat.add_mul_mod_self_right, Nat.mod_eq_of_lt hf]
    rw [e1, e2, ih]

theorem ofIdxFn_shape (shape : List ℕ) (f : List ℕ → K) : (ofIdxFn shape f).shape = shape := rfl

theorem ofIdxFn_size (shape : List ℕ) (f : List ℕ → K) : (ofIdxFn shape f).data.size = Tensor.prod shape := by
  simp [ofIdxFn]

theorem getIdx_ofIdxFn (shape : List ℕ) (f : List ℕ → K) {idx : List ℕ} (h : InRange idx shape) :
    getIdx (ofIdxFn shape f) idx = f idx := by
  unfold getIdx Tensor.get
  show (Array.ofFn _).getD (flatIdx shape idx) 0 = _
  rw [getD_ofFn _ _ (flatIdx_lt h)]
  simp only [unflat_flatIdx h]

/-- Two arrays of the same shape with the same entries are equal. -/
theorem tensor_ext (t1 t2 : Tensor K) (hs : t1.shape = t2.shape) (h1 : t1.data.size = Tensor.prod t1.shape)
    (h2 : t2.data.size = Tensor.prod t2.shape)
    (h : ∀ idx, InRange idx t1.shape → getIdx t1 idx = getIdx t2 idx) : t1 = t2 := by
  cases t1 with
  | mk s1 d1 =>
  cases t2 with
  | mk s2 d2 =>
  simp only at hs h1 h2
  subst hs
  congr 1
  apply Array.ext (by rw [h1, h2])
  intro i hi1 hi2
  have hk : i < Tensor.prod s1 := by rw [← h1]; exact hi1
  have := h (unflat s1 i) (unflat_inRange s1 i hk)
  unfold getIdx Tensor.get at this
  simp only [flatIdx_unflat s1 i hk] at this
  simpa [Array.getD, hi1, hi2] using this

/-! ## `build3` / `at3` by multi-index -/

theorem set_set_getD (l : List ℕ) (d m : ℕ) : (l.set d m).take d = l.take d := by
  rw [List.take_set_of_le (le_refl d)]

/-- The three blocks of a multi-index around axis `d`. -/
theorem flatIdx_set_split (shape idx : List ℕ) (d m : ℕ) (hd : d < shape.length) (hl : idx.length = shape.length) :
    flatIdx (shape.set d m) idx
      = (flatIdx (shape.take d) (idx.take d) * m + idx.getD d 0) * Tensor.prod (shape.drop (d + 1))
        + flatIdx (shape.drop (d + 1)) (idx.drop (d + 1)) := by
  have hd' : d < (shape.set d m).length := by rw [List.length_set]; exact hd
  rw [flatIdx_split _ idx d hd' (by rw [List.length_set]; exact hl), List.take_set_of_le (le_refl d),
    getD_set_self _ _ _ _ hd, List.drop_set_of_lt (Nat.lt_succ_self d)]

theorem inRange_blocks {idx shape : List ℕ} {d m : ℕ} (hd : d < shape.length) (h : InRange idx (shape.set d m)) :
    flatIdx (shape.take d) (idx.take d) < Tensor.prod (shape.take d) ∧ idx.getD d 0 < m ∧
    flatIdx (shape.drop (d + 1)) (idx.drop (d + 1)) < Tensor.prod (shape.drop (d + 1)) := by
  have hd' : d < (shape.set d m).length := by rw [List.length_set]; exact hd
  refine ⟨?_, ?_, ?_⟩
  · have := List.forall₂_take d h
    rw [List.take_set_of_le (le_refl d)] at this
    exact flatIdx_lt this
  · have := h.getD_lt d hd'
    rwa [getD_set_self _ _ _ _ hd] at this
  · have := List.forall₂_drop (d + 1) h
    rw [List.drop_set_of_lt (Nat.lt_succ_self d)] at this
    exact flatIdx_lt this

theorem getIdx_build3 (shape : List ℕ) (d m : ℕ) (f : ℕ → ℕ → ℕ → K) (idx : List ℕ) (hd : d < shape.length)
    (h : InRange idx (shape.set d m)) :
    getIdx (Tensor.build3 shape d m f) idx
      = f (flatIdx (shape.take d) (idx.take d)) (idx.getD d 0) (flatIdx (shape.drop (d + 1)) (idx.drop (d + 1))) := by
  have hlen : idx.length = shape.length := by rw [h.length_eq, List.length_set]
  obtain ⟨hA, hr, hI⟩ := inRange_blocks hd h
  set A := flatIdx (shape.take d) (idx.take d)
  set r := idx.getD d 0
  set i := flatIdx (shape.drop (d + 1)) (idx.drop (d + 1))
  set inn := Tensor.prod (shape.drop (d + 1)) with hinn
  have hflat := flatIdx_set_split shape idx d m hd hlen
  obtain ⟨e1, e2, e3⟩ := digits3 A m r inn i hr hI
  have hbound : (A * m + r) * inn + i < Tensor.prod (shape.take d) * m * inn := by
    have : (A * m + r + 1) * inn ≤ Tensor.prod (shape.take d) * m * inn := by
      apply Nat.mul_le_mul_right
      have : (A + 1) * m ≤ Tensor.prod (shape.take d) * m := Nat.mul_le_mul_right _ hA
      nlinarith
    nlinarith
  unfold getIdx
  show (Tensor.build3 shape d m f).get (flatIdx (shape.set d m) idx) = _
  rw [hflat]
  unfold Tensor.build3 Tensor.get Tensor.split3
  simp only []
  rw [getD_ofFn _ _ hbound]
  simp only [← hinn, e1, e2, e3]

theorem at3_getIdx (t : Tensor K) (d j : ℕ) (idx : List ℕ) (hd : d < t.shape.length)
    (hl : idx.length = t.shape.length) :
    t.at3 d (flatIdx (t.shape.take d) (idx.take d)) j (flatIdx (t.shape.drop (d + 1)) (idx.drop (d + 1)))
      = getIdx t (idx.set d j) := by
  unfold getIdx Tensor.at3 Tensor.split3
  simp only []
  congr 1
  rw [flatIdx_split _ _ d hd (by rw [List.length_set]; exact hl), List.take_set_of_le (le_refl d),
      getD_set_self _ _ _ _ (by omega), List.drop_set_of_lt (Nat.lt_succ_self d)]

/-- Entry formula of `applyAxis` by multi-index. -/
theorem getIdx_applyAxis (M : Mat K) (t : Tensor K) (d : ℕ) (idx : List ℕ) (hd : d < t.shape.length)
    (h : InRange idx (t.shape.set d M.size)) :
    getIdx (Tensor.applyAxis M t d) idx
      = (List.range (t.shape.getD d 1)).foldl
          (fun acc j => acc + (M.getD (idx.getD d 0) #[]).getD j 0 * getIdx t (idx.set d j)) 0 := by
  have hlen : idx.length = t.shape.length := by rw [h.length_eq, List.length_set]
  unfold Tensor.applyAxis
  simp only [Tensor.split3]
  rw [getIdx_build3 _ _ _ _ _ hd h]
  simp only [at3_getIdx t d _ idx hd hlen]

theorem applyAxis_size (M : Mat K) (t : Tensor K) (d : ℕ) (hd : d < t.shape.length) :
    (Tensor.applyAxis M t d).data.size = Tensor.prod (Tensor.applyAxis M t d).shape := by
  unfold Tensor.applyAxis Tensor.build3 Tensor.split3
  simp only [Array.size_ofFn]
  have := prod_split (t.shape.set d M.size) d (by rw [List.length_set]; exact hd)
  rw [List.take_set_of_le (le_refl d), getD_set_self _ _ _ _ hd, List.drop_set_of_lt (Nat.lt_succ_self d)] at this
  exact this.symm

end Splipy.PyO

namespace Splipy.PyO
open Splipy Splipy.C06
variable {K : Type} [Field K] [LinearOrder K]

/-! ## `transpose_fix` and `np.transpose` -/

/-- `transpose_fix(pardim, direction)` as natural numbers: `[1, …, ax, 0, ax+1, …, pd]`. -/
def tfix (pd ax : ℕ) : List ℕ := (List.range' 1 pd).insertIdx ax 0

theorem tfix_length {pd ax : ℕ} (h : ax ≤ pd) : (tfix pd ax).length = pd + 1 := by
  unfold tfix
  rw [List.length_insertIdx_of_le_length (by simpa using h)]
  simp

theorem tfix_getElem {pd ax : ℕ} (h : ax ≤ pd) (j : ℕ) (hj : j < (tfix pd ax).length) :
    (tfix pd ax)[j] = if j < ax then j + 1 else if j = ax then 0 else j := by
  have hl := tfix_length h
  unfold tfix at hj ⊢
  rw [List.getElem_insertIdx]
  split_ifs with h1 h2
  · simp [List.getElem_range']; omega
  · rfl
  · simp [List.getElem_range']; omega

theorem tfix_nodup {pd ax : ℕ} (h : ax ≤ pd) : (tfix pd ax).Nodup := by
  rw [List.nodup_iff_pairwise_ne, List.pairwise_iff_getElem]
  intro i j hi hj hij
  rw [tfix_getElem h i hi, tfix_getElem h j hj]
  split_ifs <;> omega

theorem tfix_lt {pd ax : ℕ} (h : ax ≤ pd) : ∀ x ∈ tfix pd ax, x < pd + 1 := by
  intro x hx
  obtain ⟨j, hj, rfl⟩ := List.getElem_of_mem hx
  rw [tfix_getElem h j hj]
  have := tfix_length h
  split_ifs <;> omega

theorem tfix_idxOf {pd ax : ℕ} (h : ax ≤ pd) (a : ℕ) (ha : a < pd + 1) :
    (tfix pd ax).idxOf a = if a = 0 then ax else if a ≤ ax then a - 1 else a := by
  have hl := tfix_length h
  set j := if a = 0 then ax else if a ≤ ax then a - 1 else a with hjdef
  have hj : j < (tfix pd ax).length := by rw [hl, hjdef]; split_ifs <;> omega
  have : (tfix pd ax)[j] = a := by
    rw [tfix_getElem h j hj, hjdef]
    split_ifs <;> omega
  rw [← this]
  exact (tfix_nodup h).idxOf_getElem j hj

theorem mapM_normIdx_cast (n : ℕ) (l : List ℕ) (h : ∀ x ∈ l, x < n) :
    (l.map (fun (k : ℕ) => (k : Int))).mapM (normIdx n) = some l := by
  induction l with
  | nil => rfl
  | cons x l ih =>
    simp only [List.map_cons, List.mapM_cons, normIdx_nat (h x (by simp)),
      ih (fun y hy => h y (by simp [hy]))]
    rfl

theorem isPerm_tfix {pd ax : ℕ} (h : ax ≤ pd) : isPerm (tfix pd ax) (pd + 1) = true := by
  unfold isPerm
  simp only [tfix_length h, tfix_nodup h, true_and, decide_eq_true_eq, List.all_eq_true]
  exact tfix_lt h

theorem getD_eraseIdx (l : List ℕ) (ax j d : ℕ) :
    (l.eraseIdx ax).getD j d = if j < ax then l.getD j d else l.getD (j + 1) d := by
  simp only [List.getD_eq_getElem?_getD, List.getElem?_eraseIdx]
  split_ifs <;> rfl

theorem eraseIdx_insertIdx_set (l : List ℕ) (ax j : ℕ) (h : ax < l.length) :
    (l.eraseIdx ax).insertIdx ax j = l.set ax j := by
  apply List.ext_getElem?
  intro k
  rw [List.getElem?_insertIdx, List.getElem?_set]
  simp only [List.getElem?_eraseIdx, List.length_eraseIdx, h, if_true]
  by_cases h1 : k < ax
  · simp [h1]; omega
  · by_cases h2 : k = ax
    · subst h2; simp [h]; omega
    · have : ¬ (k - 1 < ax) := by omega
      have e : k - 1 + 1 = k := by omega
      have : ¬ ax = k := fun h => h2 h.symm
      simp [h1, h2, *]

theorem isPerm_lt {p : List ℕ} {n : ℕ} (hp : isPerm p n = true) : ∀ x ∈ p, x < n := by
  unfold isPerm at hp
  simp only [Bool.decide_and, Bool.and_eq_true, decide_eq_true_eq, List.all_eq_true] at hp
  exact hp.2.2

theorem npTranspose_ok (x : Tensor K) (p : List ℕ) (hp : isPerm p x.shape.length = true) :
    npTranspose x (p.map (fun (k : ℕ) => (k : Int)))
      = .ok (ofIdxFn (p.map (fun a => x.shape.getD a 1))
          (fun idx => getIdx x ((List.range x.shape.length).map (fun a => idx.getD (p.idxOf a) 0)))) := by
  unfold npTranspose
  simp only [mapM_normIdx_cast _ _ (isPerm_lt hp), hp, if_true]

/-- the multi-index of `t` that position `idx` of `tensordot(..).transpose(transpose_fix(..))` reads -/
theorem tfix_old (pd ax : ℕ) (hax : ax ≤ pd) (idx : List ℕ) (hl : idx.length = pd + 1) :
    (List.range (pd + 1)).map (fun a => idx.getD ((tfix pd ax).idxOf a) 0)
      = idx.getD ax 0 :: idx.eraseIdx ax := by
  apply List.ext_getElem
  · simp [List.length_eraseIdx, hl]; omega
  · intro k h1 h2
    simp only [List.length_map, List.length_range] at h1
    simp only [List.getElem_map, List.getElem_range]
    rw [tfix_idxOf hax k h1]
    cases k with
    | zero => simp
    | succ k =>
      simp only [List.getElem_cons_succ, Nat.succ_ne_zero, if_false, Nat.add_sub_cancel]
      have : (idx.eraseIdx ax)[k]? = some ((idx.eraseIdx ax)[k]'(by simpa using h2)) := List.getElem?_eq_getElem _
      rw [List.getElem?_eraseIdx] at this
      simp only [List.getD_eq_getElem?_getD]
      split_ifs with h3
      · have h4 : k < ax := by omega
        rw [if_pos h4] at this
        rw [this]; rfl
      · have h4 : ¬ k < ax := by omega
        rw [if_neg h4] at this
        rw [this]; rfl

theorem inRange_erase {idx shape : List ℕ} {ax m : ℕ} (hax : ax < shape.length) (h : InRange idx (shape.set ax m)) :
    InRange (idx.getD ax 0 :: idx.eraseIdx ax) (m :: shape.eraseIdx ax) := by
  have hl : idx.length = shape.length := by rw [h.length_eq, List.length_set]
  rw [inRange_iff] at h ⊢
  refine ⟨by simp [List.length_eraseIdx, hl, hax], ?_⟩
  intro k hk
  simp only [List.length_cons, List.length_eraseIdx, hax, if_true] at hk
  cases k with
  | zero =>
    have := h.2 ax (by rw [List.length_set]; exact hax)
    rwa [getD_set_self _ _ _ _ hax] at this
  | succ k =>
    simp only [List.getD_cons_succ, getD_eraseIdx]
    split_ifs with h1
    · have := h.2 k (by rw [List.length_set]; omega)
      rwa [getD_set_ne _ _ _ _ _ (by omega)] at this
    · have := h.2 (k + 1) (by rw [List.length_set]; omega)
      rwa [getD_set_ne _ _ _ _ _ (by omega)] at this

theorem tfix_shape (shape : List ℕ) (pd ax m : ℕ) (hnd : shape.length = pd + 1) (hax : ax ≤ pd) :
    (tfix pd ax).map (fun a => (m :: shape.eraseIdx ax).getD a 1) = shape.set ax m := by
  apply List.ext_getElem
  · simp [tfix_length hax, hnd]
  · intro k h1 h2
    simp only [List.length_map] at h1
    have hk : k < pd + 1 := by rw [← tfix_length hax]; exact h1
    rw [← List.getD_eq_getElem _ 1 h2]
    simp only [List.getElem_map, tfix_getElem hax k h1]
    by_cases h3 : k < ax
    · rw [if_pos h3, List.getD_cons_succ, getD_eraseIdx, if_pos h3, getD_set_ne _ _ _ _ _ (by omega)]
    · rw [if_neg h3]
      by_cases h4 : k = ax
      · subst h4
        rw [if_pos rfl, getD_set_self _ _ _ _ (by omega)]; rfl
      · rw [if_neg h4, getD_set_ne _ _ _ _ _ (fun h => h4 h.symm)]
        have e : k = (k - 1) + 1 := by omega
        have : ¬ (k - 1 < ax) := by omega
        conv_lhs => rw [e, List.getD_cons_succ, getD_eraseIdx, if_neg this]
        rw [← e]

/-- `np.tensordot(M, t, axes=(1, ax))` followed by `.transpose(transpose_fix(pd, ax))` is the model's
    in-place contraction `applyAxis`. -/
theorem transpose_tensordot (M : Mat K) (t : Tensor K) (pd ax : ℕ) (hnd : t.shape.length = pd + 1) (hax : ax ≤ pd) :
    (do let x ← npTensordot M t (ax : Int)
        npTranspose x ((tfix pd ax).map (fun (k : ℕ) => (k : Int)))) = .ok (Tensor.applyAxis M t ax) := by
  have hax' : ax < t.shape.length := by omega
  unfold npTensordot
  simp only [normIdx_nat hax']
  show npTranspose _ _ = _
  have hXl : ∀ f : List ℕ → K, (ofIdxFn (M.size :: t.shape.eraseIdx ax) f).shape.length = pd + 1 := by
    intro f
    simp [ofIdxFn, List.length_eraseIdx, hax']; omega
  rw [npTranspose_ok _ _ (by rw [hXl]; exact isPerm_tfix hax)]
  congr 1
  have hsh : (tfix pd ax).map (fun a => (M.size :: t.shape.eraseIdx ax).getD a 1) = t.shape.set ax M.size :=
    tfix_shape t.shape pd ax M.size hnd hax
  apply tensor_ext
  · simp only [ofIdxFn_shape]; rw [hsh]; rfl
  · rw [ofIdxFn_size]; rfl
  · exact applyAxis_size M t ax hax'
  · intro idx hidx
    simp only [ofIdxFn_shape] at hidx
    rw [hsh] at hidx
    have hl : idx.length = pd + 1 := by rw [hidx.length_eq, List.length_set, hnd]
    rw [getIdx_applyAxis M t ax idx hax' hidx]
    simp only [ofIdxFn_shape]
    have hlen2 : (M.size :: t.shape.eraseIdx ax).length = pd + 1 := by
      simp [List.length_eraseIdx, hax']; omega
    rw [hsh, getIdx_ofIdxFn _ _ hidx, hlen2, tfix_old pd ax hax idx hl,
      getIdx_ofIdxFn _ _ (inRange_erase hax' hidx)]
    simp only [List.headD_cons, List.tail_cons]
    simp only [fun j => eraseIdx_insertIdx_set idx ax j (by omega)]

end Splipy.PyO

namespace Splipy.PyO
open Splipy Splipy.C06
variable {K : Type} [Field K] [LinearOrder K]

/-! ## the `tensordot` chain of the module-level `evaluate` (parametric dimension 1, 2, 3) -/

theorem foldl_range_congr (n : ℕ) (f g : K → ℕ → K) (a : K) (h : ∀ acc j, j < n → f acc j = g acc j) :
    (List.range n).foldl f a = (List.range n).foldl g a := by
  induction n generalizing a with
  | zero => rfl
  | succ n ih =>
    rw [List.range_succ, List.foldl_append, List.foldl_append, ih a (fun acc j hj => h acc j (by omega))]
    simp only [List.foldl_cons, List.foldl_nil]
    exact h _ n (by omega)

theorem npTensordot_ok (M : Mat K) (t : Tensor K) (ax : ℕ) (h : ax < t.shape.length) :
    npTensordot M t (ax : Int) = .ok (ofIdxFn (M.size :: t.shape.eraseIdx ax) (fun idx =>
      (List.range (t.shape.getD ax 1)).foldl
        (fun acc j => acc + (M.getD (idx.headD 0) #[]).getD j 0 * getIdx t (idx.tail.insertIdx ax j)) 0)) := by
  unfold npTensordot
  simp only [normIdx_nat h]

theorem inRange2 {i k a c : ℕ} (h1 : i < a) (h2 : k < c) : InRange [i, k] [a, c] :=
  List.Forall₂.cons h1 (List.Forall₂.cons h2 List.Forall₂.nil)
theorem inRange3 {i j k a b c : ℕ} (h1 : i < a) (h2 : j < b) (h3 : k < c) : InRange [i, j, k] [a, b, c] :=
  List.Forall₂.cons h1 (inRange2 h2 h3)
theorem inRange4 {i j l k a b d c : ℕ} (h1 : i < a) (h2 : j < b) (h3 : l < d) (h4 : k < c) :
    InRange [i, j, l, k] [a, b, d, c] :=
  List.Forall₂.cons h1 (inRange3 h2 h3 h4)

theorem inRange2_inv {idx : List ℕ} {a c : ℕ} (h : InRange idx [a, c]) : ∃ i k, idx = [i, k] ∧ i < a ∧ k < c := by
  cases h with
  | cons h1 h2 => cases h2 with
    | cons h3 h4 => cases h4; exact ⟨_, _, rfl, h1, h3⟩
theorem inRange3_inv {idx : List ℕ} {a b c : ℕ} (h : InRange idx [a, b, c]) :
    ∃ i j k, idx = [i, j, k] ∧ i < a ∧ j < b ∧ k < c := by
  cases h with
  | cons h1 h2 => obtain ⟨j, k, rfl, hj, hk⟩ := inRange2_inv h2; exact ⟨_, _, _, rfl, h1, hj, hk⟩
theorem inRange4_inv {idx : List ℕ} {a b d c : ℕ} (h : InRange idx [a, b, d, c]) :
    ∃ i j l k, idx = [i, j, l, k] ∧ i < a ∧ j < b ∧ l < d ∧ k < c := by
  cases h with
  | cons h1 h2 => obtain ⟨j, l, k, rfl, hj, hl, hk⟩ := inRange3_inv h2; exact ⟨_, _, _, _, rfl, h1, hj, hl, hk⟩

theorem applyAxis_shape' (M : Mat K) (t : Tensor K) (ax : ℕ) :
    (Tensor.applyAxis M t ax).shape = t.shape.set ax M.size := rfl

theorem chain1 (N1 : Mat K) (t : Tensor K) {a c : ℕ} (hs : t.shape = [a, c]) :
    npTensordot N1 t ((0 : ℕ) : Int) = .ok (Tensor.applyAxis N1 t 0) := by
  rw [npTensordot_ok _ _ _ (by rw [hs]; simp)]
  congr 1
  apply tensor_ext
  · simp [ofIdxFn_shape, applyAxis_shape', hs]
  · rw [ofIdxFn_size]; rfl
  · exact applyAxis_size N1 t 0 (by rw [hs]; simp)
  · intro idx hidx
    simp only [ofIdxFn_shape, hs, List.eraseIdx_cons_zero] at hidx
    rw [getIdx_ofIdxFn _ _ (by rw [hs]; exact hidx)]
    obtain ⟨i, k, rfl, hi, hk⟩ := inRange2_inv hidx
    rw [getIdx_applyAxis N1 t 0 _ (by rw [hs]; simp) (by rw [hs]; exact inRange2 hi hk)]
    simp [hs]

theorem chain2 (N1 N2 : Mat K) (t : Tensor K) {a b c : ℕ} (hs : t.shape = [a, b, c]) :
    (do let x ← npTensordot N2 t ((1 : ℕ) : Int)
        npTensordot N1 x ((1 : ℕ) : Int)) = .ok (Tensor.applyAxis N1 (Tensor.applyAxis N2 t 1) 0) := by
  rw [npTensordot_ok _ _ _ (by rw [hs]; simp)]
  show npTensordot _ _ _ = _
  rw [npTensordot_ok _ _ _ (by simp [ofIdxFn_shape, hs])]
  congr 1
  have hs2 : (Tensor.applyAxis N2 t 1).shape = [a, N2.size, c] := by rw [applyAxis_shape', hs]; rfl
  apply tensor_ext
  · simp [ofIdxFn_shape, applyAxis_shape', hs]
  · rw [ofIdxFn_size]; rfl
  · exact applyAxis_size N1 _ 0 (by rw [hs2]; simp)
  · intro idx hidx
    simp only [ofIdxFn_shape, hs, List.eraseIdx_cons_succ, List.eraseIdx_cons_zero] at hidx
    obtain ⟨r1, r2, k, rfl, h1, h2, hk⟩ := inRange3_inv hidx
    rw [getIdx_ofIdxFn _ _ (by simp only [ofIdxFn_shape, hs, List.eraseIdx_cons_succ, List.eraseIdx_cons_zero]; exact hidx)]
    rw [getIdx_applyAxis N1 _ 0 _ (by rw [hs2]; simp) (by rw [hs2]; exact inRange3 h1 h2 hk)]
    simp only [ofIdxFn_shape, hs, hs2, List.eraseIdx_cons_succ, List.eraseIdx_cons_zero, List.getD_cons_succ,
      List.getD_cons_zero, List.headD_cons, List.tail_cons, List.insertIdx_succ_cons, List.insertIdx_zero,
      List.set_cons_zero]
    apply foldl_range_congr
    intro acc i hi
    rw [getIdx_ofIdxFn _ _ (inRange3 h2 hi hk)]
    rw [getIdx_applyAxis N2 t 1 _ (by rw [hs]; simp) (by rw [hs]; exact inRange3 hi h2 hk)]
    simp [hs]

theorem chain3 (N1 N2 N3 : Mat K) (t : Tensor K) {a b d c : ℕ} (hs : t.shape = [a, b, d, c]) :
    (do let x ← npTensordot N3 t ((2 : ℕ) : Int)
        let y ← npTensordot N2 x ((2 : ℕ) : Int)
        npTensordot N1 y ((2 : ℕ) : Int))
      = .ok (Tensor.applyAxis N1 (Tensor.applyAxis N2 (Tensor.applyAxis N3 t 2) 1) 0) := by
  rw [npTensordot_ok _ _ _ (by rw [hs]; simp)]
  show (do let y ← npTensordot _ _ _; npTensordot _ y _) = _
  rw [npTensordot_ok _ _ _ (by simp [ofIdxFn_shape, hs])]
  show npTensordot _ _ _ = _
  rw [npTensordot_ok _ _ _ (by simp [ofIdxFn_shape, hs])]
  congr 1
  have hs3 : (Tensor.applyAxis N3 t 2).shape = [a, b, N3.size, c] := by rw [applyAxis_shape', hs]; rfl
  have hs2 : (Tensor.applyAxis N2 (Tensor.applyAxis N3 t 2) 1).shape = [a, N2.size, N3.size, c] := by
    rw [applyAxis_shape', hs3]; rfl
  apply tensor_ext
  · simp [ofIdxFn_shape, applyAxis_shape', hs]
  · rw [ofIdxFn_size]; rfl
  · exact applyAxis_size N1 _ 0 (by rw [hs2]; simp)
  · intro idx hidx
    simp only [ofIdxFn_shape, hs, List.eraseIdx_cons_succ, List.eraseIdx_cons_zero] at hidx
    obtain ⟨r1, r2, r3, k, rfl, h1, h2, h3, hk⟩ := inRange4_inv hidx
    rw [getIdx_ofIdxFn _ _ (by simp only [ofIdxFn_shape, hs, List.eraseIdx_cons_succ, List.eraseIdx_cons_zero]; exact hidx)]
    rw [getIdx_applyAxis N1 _ 0 _ (by rw [hs2]; simp) (by rw [hs2]; exact inRange4 h1 h2 h3 hk)]
    simp only [ofIdxFn_shape, hs, hs2, List.eraseIdx_cons_succ, List.eraseIdx_cons_zero, List.getD_cons_succ,
      List.getD_cons_zero, List.headD_cons, List.tail_cons, List.insertIdx_succ_cons, List.insertIdx_zero,
      List.set_cons_zero]
    apply foldl_range_congr
    intro acc i hi
    rw [getIdx_ofIdxFn _ _ (inRange4 h2 h3 hi hk)]
    rw [getIdx_applyAxis N2 _ 1 _ (by rw [hs3]; simp) (by rw [hs3]; exact inRange4 hi h2 h3 hk)]
    simp only [ofIdxFn_shape, hs, hs3, List.eraseIdx_cons_succ, List.eraseIdx_cons_zero, List.getD_cons_succ,
      List.getD_cons_zero, List.headD_cons, List.tail_cons, List.insertIdx_succ_cons, List.insertIdx_zero,
      List.set_cons_zero, List.set_cons_succ]
    congr 2
    apply foldl_range_congr
    intro acc' j hj
    rw [getIdx_ofIdxFn _ _ (inRange4 h3 hi hj hk)]
    rw [getIdx_applyAxis N3 t 2 _ (by rw [hs]; simp) (by rw [hs]; exact inRange4 hi hj h3 hk)]
    simp [hs]

end Splipy.PyO

namespace Splipy.PyO
open Splipy Splipy.C06
variable {K : Type} [Field K] [LinearOrder K]

/-! ## the component (last) axis -/

theorem prod_eq_nPts_mul (t : Tensor K) (h : t.shape ≠ []) : Tensor.prod t.shape = nPts t * lastN t := by
  unfold nPts lastN
  conv_lhs => rw [← List.dropLast_append_getLast h]
  rw [C06.prod_append, C06.prod_cons, C06.prod_nil, mul_one]
  congr 1
  rw [List.getLastD_eq_getLast?, List.getLast?_eq_some_getLast h]
  rfl

theorem normIdx_neg_one {n : ℕ} (h : 1 ≤ n) : normIdx n (-1) = some (n - 1) := by
  unfold normIdx
  have h1 : ¬ (0 : Int) ≤ -1 := by omega
  have h2 : (0 : Int) ≤ -1 + n := by omega
  simp only [h1, if_false, h2, if_true]
  congr 1
  omega

theorem get_ofFn {n : ℕ} (sh : List ℕ) (f : Fin n → K) {k : ℕ} (hk : k < n) :
    (Tensor.mk sh (Array.ofFn f)).get k = f ⟨k, hk⟩ := by
  unfold Tensor.get
  exact C06.getD_ofFn f k hk

theorem get_mk_ofFn {n : ℕ} (sh : List ℕ) (f : Fin n → K) (k : ℕ) :
    (Tensor.mk sh (Array.ofFn f)).get k = if h : k < n then f ⟨k, h⟩ else 0 := by
  unfold Tensor.get
  split_ifs with h
  · exact C06.getD_ofFn f k h
  · simp [Array.getD, h]

/-- columns `0 … m-1` divided by the last column -/
def colDivN (t : Tensor K) (m : ℕ) : Tensor K :=
  { shape := t.shape,
    data := Array.ofFn (n := nPts t * lastN t) (fun k =>
      if k.val % lastN t < m then t.get k.val / t.get (k.val / lastN t * lastN t + (lastN t - 1)) else t.get k.val) }

theorem colDivN_zero (t : Tensor K) (hsz : t.data.size = nPts t * lastN t) : colDivN t 0 = t := by
  cases t with
  | mk sh d =>
    unfold colDivN
    congr 1
    apply Array.ext
    · simp [hsz]
    · intro i h1 h2
      simp [Tensor.get, Array.getD, h2]

theorem mod_div_lt {k p nc : ℕ} (h : k < p * nc) : k / nc < p := by
  apply Nat.div_lt_of_lt_mul
  rwa [Nat.mul_comm]

theorem colDivN_get (t0 : Tensor K) (m : ℕ) {k : ℕ} (hk : k < nPts t0 * lastN t0) :
    (colDivN t0 m).get k
      = if k % lastN t0 < m then t0.get k / t0.get (k / lastN t0 * lastN t0 + (lastN t0 - 1)) else t0.get k :=
  get_ofFn _ _ hk

/-- column `i` divided by the last column -/
def colDiv (t : Tensor K) (i : ℕ) : Tensor K :=
  { shape := t.shape,
    data := Array.ofFn (n := nPts t * lastN t) (fun k =>
      if k.val % lastN t = i then t.get (k.val / lastN t * lastN t + i) / t.get (k.val / lastN t * lastN t + (lastN t - 1))
      else t.get k.val) }

/-- one pass of `result[..., i] /= result[..., -1]` -/
theorem colDiv_pass (t : Tensor K) (i : ℕ) (hi : i < lastN t) :
    (do let a ← getLast t (i : Int)
        let b ← getLast t (-1)
        setLast t (i : Int) (tDiv a b)) = .ok (colDiv t i) := by
  simp only [getLast, setLast, normIdx_nat hi, normIdx_neg_one (show 1 ≤ lastN t by omega)]
  show Except.ok _ = Except.ok _
  congr 1
  unfold colDiv
  congr 1
  apply Array.ext
  · simp
  · intro k h1 h2
    simp only [Array.size_ofFn] at h1
    simp only [Array.getElem_ofFn]
    have hp : k / lastN t < nPts t := mod_div_lt h1
    by_cases hk : k % lastN t = i
    · rw [if_pos hk, if_pos hk]
      unfold tDiv
      simp only [get_mk_ofFn, Array.size_ofFn, hp, dif_pos]
    · rw [if_neg hk, if_neg hk]

theorem colDiv_colDivN (t0 : Tensor K) (m : ℕ) (hm : m + 1 < lastN t0) :
    colDiv (colDivN t0 m) m = colDivN t0 (m + 1) := by
  unfold colDiv
  rw [show lastN (colDivN t0 m) = lastN t0 from rfl, show nPts (colDivN t0 m) = nPts t0 from rfl,
    show (colDivN t0 m).shape = t0.shape from rfl]
  conv_rhs => unfold colDivN
  congr 1
  apply Array.ext
  · simp
  · intro k h1 h2
    simp only [Array.size_ofFn] at h1
    simp only [Array.getElem_ofFn]
    have hnc : 0 < lastN t0 := by omega
    have hp : k / lastN t0 < nPts t0 := mod_div_lt h1
    have hrow : k / lastN t0 * lastN t0 + (lastN t0 - 1) < nPts t0 * lastN t0 := by
      have := Nat.mul_le_mul_right (lastN t0) (Nat.succ_le_of_lt hp)
      rw [Nat.succ_mul] at this
      omega
    have hrowm : k / lastN t0 * lastN t0 + m < nPts t0 * lastN t0 := by omega
    have e1 : (k / lastN t0 * lastN t0 + (lastN t0 - 1)) % lastN t0 = lastN t0 - 1 := by
      rw [Nat.mul_comm, Nat.mul_add_mod, Nat.mod_eq_of_lt (by omega)]
    have e3 : (k / lastN t0 * lastN t0 + m) % lastN t0 = m := by
      rw [Nat.mul_comm, Nat.mul_add_mod, Nat.mod_eq_of_lt (by omega)]
    by_cases hk : k % lastN t0 = m
    · have hk' : k % lastN t0 < m + 1 := by omega
      have hkk : k / lastN t0 * lastN t0 + m = k := by rw [← hk]; exact Nat.div_add_mod' k _
      rw [if_pos hk, if_pos hk', colDivN_get _ _ hrowm, colDivN_get _ _ hrow, e1, e3,
        if_neg (lt_irrefl m), if_neg (show ¬ (lastN t0 - 1 < m) by omega), hkk]
    · rw [if_neg hk, colDivN_get _ _ h1]
      by_cases hk2 : k % lastN t0 < m
      · rw [if_pos hk2, if_pos (by omega)]
      · rw [if_neg hk2, if_neg (by omega)]

theorem foldl_colDiv (t0 : Tensor K) (hsz : t0.data.size = nPts t0 * lastN t0) (m : ℕ) (hm : m < lastN t0) :
    (List.range m).foldl colDiv t0 = colDivN t0 m := by
  induction m with
  | zero => simp [colDivN_zero t0 hsz]
  | succ m ih =>
    rw [List.range_succ, List.foldl_append, ih (by omega)]
    simp only [List.foldl_cons, List.foldl_nil]
    exact colDiv_colDivN t0 m hm

theorem tensor_mk_ext {a b : Tensor K} (h1 : a.shape = b.shape) (h2 : a.data = b.data) : a = b := by
  cases a; cases b; simp only at h1 h2; subst h1 h2; rfl

/-- deleting the weight column after the division is the model's `project` -/
theorem delete_colDivN (t0 : Tensor K) (dim : ℕ) (hs : t0.shape ≠ []) (hnc : lastN t0 = dim + 1) :
    npDeleteLast (colDivN t0 dim) (dim : Int) = .ok (Obj.project t0 dim) := by
  have hL : lastN (colDivN t0 dim) = dim + 1 := hnc
  have hP : nPts (colDivN t0 dim) = nPts t0 := rfl
  have hnc' : t0.shape.getLastD 1 = dim + 1 := hnc
  have hsize : t0.size / (dim + 1) = nPts t0 := by
    unfold Tensor.size
    rw [prod_eq_nPts_mul t0 hs, hnc, Nat.mul_div_cancel _ (by omega)]
  unfold npDeleteLast
  rw [hL, normIdx_nat (by omega), hP]
  show Except.ok _ = Except.ok _
  congr 1
  have hsh : (colDivN t0 dim).shape = t0.shape := rfl
  have hps : (Obj.project t0 dim).shape = t0.shape.dropLast ++ [dim] := project_shape t0 dim
  have hpd : (Obj.project t0 dim).data.size = nPts t0 * dim := by
    rw [project_data_size, hnc', hsize]
  apply tensor_mk_ext
  · rw [hps, hsh]; simp
  · apply Array.ext
    · simp [hpd]
    · intro k h1 h2
      simp only [Array.size_ofFn, Nat.add_sub_cancel] at h1
      simp only [Array.getElem_ofFn, Nat.add_sub_cancel]
      have hdim : 0 < dim := by
        rcases Nat.eq_zero_or_pos dim with h | h
        · subst h; simp at h1
        · exact h
      have hp : k / dim < nPts t0 := mod_div_lt h1
      have hj : k % dim < dim := Nat.mod_lt _ hdim
      rw [if_pos hj]
      have hlt : k / dim * (dim + 1) + k % dim < nPts t0 * lastN t0 := by
        rw [hnc]
        have := Nat.mul_le_mul_right (dim + 1) (Nat.succ_le_of_lt hp)
        rw [Nat.succ_mul] at this
        omega
      have e1 : (k / dim * (dim + 1) + k % dim) % (dim + 1) = k % dim := by
        rw [Nat.add_comm, Nat.add_mul_mod_self_right, Nat.mod_eq_of_lt (by omega)]
      have e2 : (k / dim * (dim + 1) + k % dim) / (dim + 1) = k / dim := by
        rw [Nat.add_comm, Nat.add_mul_div_right _ _ (by omega), Nat.div_eq_of_lt (by omega), Nat.zero_add]
      rw [colDivN_get _ _ hlt, hnc, e1, if_pos hj, e2, Nat.add_sub_cancel]
      have hg := project_get t0 dim (dim + 1) hnc' (by omega) (pI := k / dim) (c := k % dim)
        (by rw [hsize]; exact hp) hj
      rw [Nat.div_add_mod' k dim] at hg
      rw [← hg]
      simp [Tensor.get, Array.getD, h2]

end Splipy.PyO

namespace Splipy.PyO
open Splipy Splipy.Generated Splipy.C06
variable {K : Type} [Field K] [LinearOrder K]

/-! ### method: check_direction -/

theorem _root_.PyObject_check_direction_eq (d : DirTok) (pd : ℕ) :
    PyObject.check_direction d (pd : Int) = (checkDirection d pd).map (fun (k : ℕ) => (k : Int)) := by
  unfold PyObject.check_direction checkDirection
  simp only [List.mem_cons, List.mem_singleton, List.not_mem_nil, or_false]
  have e0 : ((0 : Int) < (pd : Int)) ↔ 0 < pd := by omega
  have e1 : ((1 : Int) < (pd : Int)) ↔ 1 < pd := by omega
  have e2 : ((2 : Int) < (pd : Int)) ↔ 2 < pd := by omega
  simp only [e0, e1, e2]
  split_ifs <;> rfl

/-! ### method: pardim -/

theorem _root_.PyObject_pardim_eq (o : Obj K) (tol : K) (h : 1 ≤ o.cps.shape.length) :
    PyObject.pardim (ofObj o) tol = .ok (o.pardim : Int) := by
  simp only [PyObject.pardim, len, npShape, ofObj_cps, List.length_map, Obj.pardim, pure_eq_ok]
  congr 1
  omega

end Splipy.PyO

namespace Splipy.PyO
open Splipy Splipy.Generated Splipy.C06
variable {K : Type} [Field K] [LinearOrder K]

/-! ### method: start -/

theorem _root_.PyObject_start_eq (o : Obj K) (tol : K) :
    PyObject.start (ofObj o) tol = .ok (o.bases.toList.map Basis.start) := by
  simp only [PyObject.start, ofObj_bases]
  exact listComp_ok _ _ Basis.start (fun x _ => rfl)

/-! ### method: start_dir -/

theorem _root_.PyObject_start_dir_eq (o : Obj K) (tol : K) (d : DirTok) (h : 1 ≤ o.cps.shape.length)
    (hb : o.bases.size = o.pardim) :
    PyObject.start_dir (ofObj o) tol d = (checkDirection d o.pardim).map (fun k => (o.basis k).start) := by
  simp only [PyObject.start_dir, PyObject_pardim_eq o tol h, ok_bind, PyObject_check_direction_eq]
  cases hc : checkDirection d o.pardim with
  | error e => rfl
  | ok k =>
    have hk : k < o.pardim := by
      unfold checkDirection at hc
      split_ifs at hc <;> cases hc <;> omega
    simp only [map_ok, ok_bind, ofObj_bases]
    rw [getBasis_nat _ (by omega)]
    rfl

/-! ### method: end -/

theorem _root_.PyObject_end_eq (o : Obj K) (tol : K) :
    PyObject.«end» (ofObj o) tol = .ok (o.bases.toList.map Basis.stop) := by
  simp only [PyObject.«end», ofObj_bases]
  exact listComp_ok _ _ Basis.stop (fun x _ => rfl)

/-! ### method: end_dir -/

theorem _root_.PyObject_end_dir_eq (o : Obj K) (tol : K) (d : DirTok) (h : 1 ≤ o.cps.shape.length)
    (hb : o.bases.size = o.pardim) :
    PyObject.end_dir (ofObj o) tol d = (checkDirection d o.pardim).map (fun k => (o.basis k).stop) := by
  simp only [PyObject.end_dir, PyObject_pardim_eq o tol h, ok_bind, PyObject_check_direction_eq]
  cases hc : checkDirection d o.pardim with
  | error e => rfl
  | ok k =>
    have hk : k < o.pardim := by
      unfold checkDirection at hc
      split_ifs at hc <;> cases hc <;> omega
    simp only [map_ok, ok_bind, ofObj_bases]
    rw [getBasis_nat _ (by omega)]
    rfl

/-! ### method: __len__ -/

theorem foldl_mul_cast (l : List (Basis K)) (a : ℕ) :
    l.foldl (fun (n : Int) b => n * ((Basis.numFunctions b : ℕ) : Int)) (a : Int)
      = ((l.map Basis.numFunctions).foldl (· * ·) a : ℕ) := by
  induction l generalizing a with
  | nil => rfl
  | cons b l ih =>
    simp only [List.foldl_cons, List.map_cons]
    rw [← ih]
    push_cast
    rfl

theorem _root_.PyObject_len_eq (o : Obj K) (tol : K) :
    PyObject.len_ (ofObj o) tol = .ok (o.len : Int) := by
  simp only [PyObject.len_, ofObj_bases, forEach]
  have := (foldlM_ok_inv o.bases.toList
    (fun (s : Int) (x : Basis K) => (pure (s * ((Basis.numFunctions x : ℕ) : Int)) : PyM Int))
    (fun s x => s * ((Basis.numFunctions x : ℕ) : Int)) (fun _ => True) 1 trivial
    (fun a _ s _ => ⟨rfl, trivial⟩)).1
  simp only [pure_eq_ok, ok_bind] at this ⊢
  rw [this]
  have h1 := foldl_mul_cast o.bases.toList 1
  simp only [Nat.cast_one] at h1
  rw [h1]
  rfl

/-! ## helpers for `_validate_domain` (no generated code) -/

theorem foldl_min_lt (r : List K) (x a : K) : r.foldl min x < a ↔ x < a ∨ ∃ y ∈ r, y < a := by
  induction r generalizing x with
  | nil => simp
  | cons y r ih =>
    simp only [List.foldl_cons, ih, min_lt_iff, List.mem_cons, exists_eq_or_imp]
    tauto

theorem lt_foldl_max (r : List K) (x a : K) : a < r.foldl max x ↔ a < x ∨ ∃ y ∈ r, a < y := by
  induction r generalizing x with
  | nil => simp
  | cons y r ih =>
    simp only [List.foldl_cons, ih, lt_max_iff, List.mem_cons, exists_eq_or_imp]
    tauto

/-- the test `_validate_domain` performs on one (snapped) parameter list -/
def vdBad (b : Basis K) (ps : List K) : Bool :=
  decide (b.periodic < 0) && (ps.isEmpty || ps.any (fun t => decide (t < b.start ∨ b.stop < t)))

/-- specification of one pass of the loop body -/
def vdStep (tol : K) (i : Int) (x : Basis K × List K) (st : List (List K)) : PyM (List (List K)) :=
  match setItem st i (basisSnap x.1 tol x.2) with
  | .error e => .error e
  | .ok st' => if vdBad x.1 (basisSnap x.1 tol x.2) then .error .value else .ok st'

theorem vd_loop (tol : K) (l : List (Basis K × List K)) (pre post : List (List K)) :
    (l.zipIdx pre.length).foldlM (fun s xi => vdStep tol (xi.2 : ℕ) xi.1 s) (pre ++ l.map (·.2) ++ post)
      = if l.any (fun x => vdBad x.1 (basisSnap x.1 tol x.2)) then .error .value
        else .ok (pre ++ l.map (fun x => basisSnap x.1 tol x.2) ++ post) := by
  induction l generalizing pre with
  | nil => simp
  | cons x l ih =>
    simp only [List.zipIdx_cons, List.foldlM_cons, List.map_cons, List.any_cons]
    have hset : setItem (pre ++ x.2 :: List.map (·.2) l ++ post) (pre.length : ℕ) (basisSnap x.1 tol x.2)
        = .ok (pre ++ basisSnap x.1 tol x.2 :: List.map (·.2) l ++ post) := by
      rw [setItem_nat _ (by simp)]
      simp [List.append_assoc]
    unfold vdStep
    simp only [hset]
    by_cases hb : vdBad x.1 (basisSnap x.1 tol x.2) = true
    · simp [hb]
    · simp only [hb, Bool.false_eq_true, if_false, Bool.false_or, ok_bind]
      have := ih (pre ++ [basisSnap x.1 tol x.2])
      simp only [List.length_append, List.length_singleton, List.append_assoc, List.singleton_append] at this
      simp only [List.append_assoc, List.cons_append] at this ⊢
      exact this

theorem zip_snd_drop {α β : Type} (bs : List α) (ps : List β) :
    (List.zip bs ps).map (·.2) ++ ps.drop (List.zip bs ps).length = ps := by
  induction bs generalizing ps with
  | nil => simp
  | cons b bs ih =>
    cases ps with
    | nil => simp
    | cons p ps =>
      have := ih ps
      simp only [List.length_zip] at this
      simp [this]

theorem foldlM_congr' {α σ : Type} (l : List α) (f g : σ → α → PyM σ) (s : σ) (h : ∀ s a, f s a = g s a) :
    l.foldlM f s = l.foldlM g s := by
  have : f = g := funext fun s => funext fun a => h s a
  rw [this]

/-! ### method: _validate_domain -/

theorem _root_.PyObject_validate_domain_eq (o : Obj K) (tol : K) (params : List (List K)) :
    PyObject._validate_domain (ofObj o) tol params
      = if (List.zip o.bases.toList params).any (fun x => vdBad x.1 (basisSnap x.1 tol x.2)) then .error .value
        else .ok ((List.zip o.bases.toList params).map (fun x => basisSnap x.1 tol x.2)
                    ++ params.drop (List.zip o.bases.toList params).length) := by
  unfold PyObject._validate_domain
  simp only [ofObj_bases, forEachIdx, zip2]
  rw [foldlM_congr' _ _ (fun s xi => vdStep tol (xi.2 : ℕ) xi.1 s) _ (by
    intro st xi
    generalize ((xi.2 : ℕ) : Int) = i
    generalize xi.1 = x
    unfold vdStep
    cases hs : setItem st i (basisSnap x.1 tol x.2) with
    | error e => rfl
    | ok st' =>
      simp only [ok_bind]
      unfold vdBad
      by_cases hp : x.1.periodic < 0
      · simp only [hp, if_true, decide_true, Bool.true_and]
        cases hq : basisSnap x.1 tol x.2 with
        | nil => simp [pyMin]
        | cons y r =>
          simp only [pyMin, pyMax, ok_bind, List.isEmpty_cons, Bool.false_or, List.any_cons,
            Bool.decide_or]
          by_cases h1 : r.foldl min y < x.1.start
          · have : (decide (y < x.1.start) || decide (x.1.stop < y) ||
                r.any (fun t => decide (t < x.1.start) || decide (x.1.stop < t))) = true := by
              rcases (foldl_min_lt r y _).mp h1 with h | ⟨z, hz, h⟩
              · simp [h]
              · simp only [Bool.or_eq_true, List.any_eq_true]
                right; exact ⟨z, hz, by simp [h]⟩
            simp [h1, this]
          · simp only [h1, if_false, ok_bind, pure_eq_ok]
            by_cases h2 : x.1.stop < r.foldl max y
            · have : (decide (y < x.1.start) || decide (x.1.stop < y) ||
                  r.any (fun t => decide (t < x.1.start) || decide (x.1.stop < t))) = true := by
                rcases (lt_foldl_max r y _).mp h2 with h | ⟨z, hz, h⟩
                · simp [h]
                · simp only [Bool.or_eq_true, List.any_eq_true]
                  right; exact ⟨z, hz, by simp [h]⟩
              simp [h2, this]
            · have : (decide (y < x.1.start) || decide (x.1.stop < y) ||
                  r.any (fun t => decide (t < x.1.start) || decide (x.1.stop < t))) = false := by
                have n1 := (not_congr (foldl_min_lt r y x.1.start)).mp h1
                have n2 := (not_congr (lt_foldl_max r y x.1.stop)).mp h2
                push Not at n1 n2
                simp only [Bool.or_eq_false_iff, decide_eq_false_iff_not, not_lt, List.any_eq_false,
                  Bool.or_eq_true, decide_eq_true_eq, not_or]
                exact ⟨⟨n1.1, n2.1⟩, fun z hz => ⟨n1.2 z hz, n2.2 z hz⟩⟩
              simp [h2, this]
      · simp [hp]
  )]
  have key := vd_loop tol (List.zip o.bases.toList params) [] (params.drop (List.zip o.bases.toList params).length)
  simp only [List.nil_append, zip_snd_drop, List.length_nil] at key
  simp only [key, pure_eq_ok, ok_bind]
  split_ifs <;> rfl

end Splipy.PyO

namespace Splipy.PyO
open Splipy Splipy.Generated Splipy.C06
variable {K : Type} [Field K] [LinearOrder K]

/-! ### method: evaluate_fn -/

theorem _root_.PyObject_evaluate_fn_tensor_eq (Ns : List (Mat K)) (cps : Tensor K)
    (hlen : cps.shape.length = Ns.length + 1) (hd : Ns.length ≤ 3) :
    PyObject.evaluate_fn Ns cps true = .ok (Obj.contractGrid Ns cps) := by
  unfold PyObject.evaluate_fn
  simp only [if_true, forEach, reversed, len]
  match Ns, hlen, hd with
  | [], _, _ => rfl
  | [N1], hlen, _ =>
    obtain ⟨a, c, hs⟩ := List.length_eq_two.mp hlen
    simp only [List.reverse_singleton, List.foldlM_cons, List.foldlM_nil, List.length_singleton]
    have := chain1 N1 cps hs
    simp only [Nat.cast_zero, Nat.cast_one, sub_self] at this ⊢
    rw [this]
    rfl
  | [N1, N2], hlen, _ =>
    obtain ⟨a, b, c, hs⟩ := List.length_eq_three.mp hlen
    have := chain2 N1 N2 cps hs
    simp only [List.reverse_cons, List.reverse_nil, List.nil_append, List.cons_append, List.foldlM_cons,
      List.foldlM_nil, List.length_cons, List.length_nil] at this ⊢
    norm_num at this ⊢
    simp only [bind_ok_eta] at this ⊢
    rw [this]
    rfl
  | [N1, N2, N3], hlen, _ =>
    obtain ⟨a, b, d, c, hs⟩ : ∃ a b d c, cps.shape = [a, b, d, c] := by
      match hsh : cps.shape, hlen with
      | [a, b, d, c], _ => exact ⟨a, b, d, c, rfl⟩
    have := chain3 N1 N2 N3 cps hs
    simp only [List.reverse_cons, List.reverse_nil, List.nil_append, List.cons_append, List.foldlM_cons,
      List.foldlM_nil, List.length_cons, List.length_nil] at this ⊢
    norm_num at this ⊢
    simp only [bind_ok_eta] at this ⊢
    rw [this]
    rfl

end Splipy.PyO

namespace Splipy.PyO
open Splipy Splipy.Generated Splipy.C06
variable {K : Type} [Field K] [LinearOrder K] [FloorRing K]

/-! ## facts about `contractGrid` (no generated code) -/

theorem any_congr_mem {α : Type} (l : List α) (f g : α → Bool) (h : ∀ x ∈ l, f x = g x) : l.any f = l.any g := by
  induction l with
  | nil => rfl
  | cons a l ih =>
    simp only [List.any_cons, h a (by simp), ih (fun x hx => h x (by simp [hx]))]

/-! ### method: evaluate -/

/-- (`_hne` is no longer needed: the model's `validateDomain` now raises `ValueError` for an empty list in a
non-periodic direction, exactly like the generated code; the parameter is kept for the callers.) -/
theorem vd_model (o : Obj K) (tol : K) (params : List (List K)) (hlen : params.length ≤ o.bases.size)
    (_hne : ∀ x ∈ List.zip o.bases.toList params, x.1.periodic < 0 → x.2 ≠ []) :
    PyObject._validate_domain (ofObj o) tol params = o.validateDomain tol params := by
  rw [PyObject_validate_domain_eq]
  unfold Obj.validateDomain
  have hdrop : params.drop (List.zip o.bases.toList params).length = [] := by
    rw [List.drop_eq_nil_iff]
    simp only [List.length_zip, Array.length_toList]
    omega
  rw [hdrop, List.append_nil]
  simp only [List.any_map, List.map_map]
  have hany : (List.zip o.bases.toList params).any (fun x => vdBad x.1 (basisSnap x.1 tol x.2))
      = (List.zip o.bases.toList params).any
          ((fun (x : Basis K × List K) => decide (x.1.periodic < 0 ∧
              (x.2.isEmpty = true ∨
                (x.2.any fun t => decide (t < x.1.start ∨ x.1.stop < t)) = true))) ∘
            fun (x : Basis K × List K) => (x.1, List.map (snap x.1 tol) x.2)) := by
    apply any_congr_mem
    intro x _
    unfold vdBad basisSnap
    simp only [Function.comp]
    by_cases hp : x.1.periodic < 0
    · simp only [hp, decide_true, Bool.true_and, true_and]
      rw [Bool.eq_iff_iff]
      simp
    · simp [hp]
  rw [hany]
  rfl

/-! ## facts about `contractGrid`, continued -/

theorem getLastD_set (l : List ℕ) (ax m d : ℕ) (h : ax + 1 < l.length) : (l.set ax m).getLastD d = l.getLastD d := by
  rw [List.getLastD_eq_getLast?, List.getLastD_eq_getLast?, List.getLast?_eq_getElem?, List.getLast?_eq_getElem?,
    List.length_set, List.getElem?_set]
  have : ¬ ax = l.length - 1 := by omega
  simp [this]

theorem foldr_applyAxis_facts (L : List (ℕ × Mat K)) (cps : Tensor K)
    (hax : ∀ x ∈ L, x.1 + 1 < cps.shape.length) :
    let T := L.foldr (fun (x : ℕ × Mat K) t => Tensor.applyAxis x.2 t x.1) cps
    T.shape.length = cps.shape.length ∧ lastN T = lastN cps ∧ (L ≠ [] → T.data.size = Tensor.prod T.shape) := by
  induction L with
  | nil => simp
  | cons x L ih =>
    obtain ⟨h1, h2, _⟩ := ih (fun y hy => hax y (by simp [hy]))
    have hx := hax x (by simp)
    simp only [List.foldr_cons]
    refine ⟨?_, ?_, fun _ => ?_⟩
    · rw [applyAxis_shape', List.length_set, h1]
    · unfold lastN at h2 ⊢
      rw [applyAxis_shape', getLastD_set _ _ _ _ (by rw [h1]; exact hx), h2]
    · exact applyAxis_size _ _ _ (by rw [h1]; omega)

theorem contractGrid_facts (Ns : List (Mat K)) (cps : Tensor K) (h : cps.shape.length = Ns.length + 1)
    (h1 : 1 ≤ Ns.length) :
    (Obj.contractGrid Ns cps).shape ≠ [] ∧ lastN (Obj.contractGrid Ns cps) = lastN cps ∧
    (Obj.contractGrid Ns cps).data.size = Tensor.prod (Obj.contractGrid Ns cps).shape := by
  have := foldr_applyAxis_facts (List.zip (List.range Ns.length) Ns) cps (by
    intro x hx
    have := (List.of_mem_zip hx).1
    rw [List.mem_range] at this
    omega)
  obtain ⟨f1, f2, f3⟩ := this
  have f1' : (Obj.contractGrid Ns cps).shape.length = cps.shape.length := f1
  refine ⟨?_, f2, f3 ?_⟩
  · intro h0
    rw [h0] at f1'
    simp only [List.length_nil] at f1'
    omega
  · intro h0
    have : (List.zip (List.range Ns.length) Ns).length = 0 := by rw [h0]; rfl
    simp only [List.length_zip, List.length_range, Nat.min_self] at this
    omega

/-! ### method: evaluate -/

theorem _root_.PyObject_evaluate_tensor_eq (o : Obj K) (tol : K) (params : List (Param K)) (kw : Option Bool)
    (hb : o.cps.shape.length = o.bases.size + 1) (hd1 : 1 ≤ o.bases.size) (hd3 : o.bases.size ≤ 3)
    (hp : params.length = o.bases.size)
    (hne : ∀ x ∈ List.zip o.bases.toList (params.map ensure_listlike), x.1.periodic < 0 → x.2 ≠ [])
    (hnc : 1 ≤ o.ncomp) (ht : kw.getD true = true) :
    PyObject.evaluate (ofObj o) tol params kw = (do
      let r ← o.evaluate tol (params.map ensure_listlike) (kw.getD true)
      if params.all is_singleton then npReshape r [((o.dimension : ℕ) : Int)] else pure r) := by
  unfold PyObject.evaluate
  simp only [kwGet, ht, not_true_eq_false, if_false, pure_eq_ok, false_and]
  rw [listComp_ok params _ is_singleton (fun _ _ => rfl), ok_bind,
    listComp_ok params _ ensure_listlike (fun _ _ => rfl), ok_bind]
  simp only [Bool.false_eq_true, if_false, ok_bind]
  rw [vd_model o tol _ (by simp [hp]) hne]
  unfold Obj.evaluate
  simp only [ht, Bool.not_true, Bool.false_eq_true, false_and, if_false]
  cases hv : o.validateDomain tol (params.map ensure_listlike) with
  | error e => rfl
  | ok ps =>
    simp only [ok_bind, ofObj_bases, zip2, ofObj_cps, ofObj_rational, ofObj_dimension]
    rw [listComp_ok _ _ (fun (x : Basis K × List K) => basisEvaluate x.1 tol x.2 0 true) (fun _ _ => rfl), ok_bind]
    have hpsl : ps.length = o.bases.size := by
      simp only [Obj.validateDomain] at hv
      split_ifs at hv
      cases hv
      simp [hp]
    have hbe : ∀ (x : Basis K × List K), basisEvaluate x.1 tol x.2 0 true = Obj.basisMat x.1 tol x.2 0 true :=
      fun _ => rfl
    simp only [hbe, if_true]
    set Ns := (List.zip o.bases.toList ps).map (fun (x : Basis K × List K) => Obj.basisMat x.1 tol x.2 0 true) with hNs
    have hNl : Ns.length = o.bases.size := by simp [hNs, hpsl]
    rw [PyObject_evaluate_fn_tensor_eq Ns o.cps (by omega) (by omega), ok_bind]
    obtain ⟨g1, g2, g3⟩ := contractGrid_facts Ns o.cps (by omega) (by omega)
    set res := Obj.contractGrid Ns o.cps with hres
    have hsq : pyAll (List.map is_singleton params) = params.all is_singleton := by
      simp [pyAll, List.all_map]
    rw [hsq]
    by_cases hr : o.rational = true
    · simp only [hr, if_true]
      have hdim : o.dimension + 1 = o.ncomp := by
        unfold Obj.dimension; rw [if_pos hr]; omega
      have hlast : lastN res = o.dimension + 1 := by
        rw [g2, hdim]
        unfold lastN Obj.ncomp
        cases hsh : o.cps.shape with
        | nil => rw [hsh] at hb; simp at hb
        | cons a l => simp [List.getLastD_eq_getLast?, List.getLast?_eq_some_getLast (List.cons_ne_nil a l)]
      rw [(forRange_eq_foldl o.dimension res _ colDiv (fun st => lastN st = o.dimension + 1) hlast
        (by intro i st hi hst; exact ⟨colDiv_pass st i (by omega), hst⟩)).1]
      rw [ok_bind, foldl_colDiv res (by rw [g3, prod_eq_nPts_mul res g1]) _ (by omega),
        delete_colDivN res o.dimension g1 hlast, ok_bind]
      split_ifs <;> simp only [bind_ok_eta, ok_bind]
    · simp only [hr, Bool.false_eq_true, if_false, ok_bind]
      split_ifs <;> simp only [bind_ok_eta, ok_bind]

end Splipy.PyO

namespace Splipy.PyO
open Splipy Splipy.Generated Splipy.C06
variable {K : Type} [Field K] [LinearOrder K]

/-! ### method: transpose_fix -/

theorem rangeI_one (n : ℕ) : rangeI 1 ((n : Int) + 1) = (List.range' 1 n).map (fun (k : ℕ) => (k : Int)) := by
  unfold rangeI
  rw [List.range'_eq_map_range, List.map_map]
  have : ((n : Int) + 1 - 1).toNat = n := by omega
  rw [this]
  apply List.map_congr_left
  intro k _
  simp only [Function.comp]
  omega

theorem _root_.PyObject_transpose_fix_eq (pd ax : ℕ) (h : ax ≤ pd) :
    PyObject.transpose_fix (pd : Int) (ax : Int) = Except.ok ((tfix pd ax).map (fun (k : ℕ) => (k : Int))) := by
  unfold PyObject.transpose_fix tfix
  simp only [rangeI_one, listInsert, pure_eq_ok]
  congr 1
  have h1 : ¬ ((ax : Int) < 0) := by omega
  simp only [h1, if_false, List.length_map, List.length_range']
  have h2 : (min (ax : Int) (pd : Int)).toNat = ax := by omega
  rw [h2, List.map_insertIdx]
  rfl

/-! ## arrays of bases -/

theorem set!_getD_self {α : Type} [Inhabited α] (bs : Array α) (k : ℕ) (h : k < bs.size) :
    bs.set! k (bs.getD k default) = bs := by
  apply Array.ext
  · simp
  · intro i h1 h2
    simp only [Array.set!_eq_setIfInBounds, Array.getElem_setIfInBounds]
    by_cases hik : k = i
    · subst hik; simp [Array.getD, h]
    · simp only [Array.set!_eq_setIfInBounds] at h1 ⊢
      rw [Array.getElem_setIfInBounds, if_neg hik]

theorem getD_set!_self {α : Type} (bs : Array α) (k : ℕ) (h : k < bs.size) (b d : α) :
    (bs.set! k b).getD k d = b := by
  simp [Array.getD, h]

theorem set!_set! {α : Type} (bs : Array α) (k : ℕ) (b b' : α) : (bs.set! k b).set! k b' = bs.set! k b' := by
  simp

theorem transpose_tensordot' (M : Mat K) (t : Tensor K) (pd ax : ℕ) (hnd : t.shape.length = pd + 1) (hax : ax ≤ pd) :
    npTranspose (ofIdxFn (M.size :: t.shape.eraseIdx ax) (fun idx =>
      (List.range (t.shape.getD ax 1)).foldl
        (fun acc j => acc + (M.getD (idx.headD 0) #[]).getD j 0 * getIdx t (idx.tail.insertIdx ax j)) 0))
      ((tfix pd ax).map (fun (k : ℕ) => (k : Int))) = .ok (Tensor.applyAxis M t ax) := by
  have := transpose_tensordot M t pd ax hnd hax
  rw [npTensordot_ok _ _ _ (by omega)] at this
  exact this

/-- two loops whose states stay related give related results -/
theorem foldlM_sim {α σ τ : Type} (R : σ → τ → Prop) (l : List α) (f : σ → α → PyM σ) (g : τ → α → PyM τ)
    (s : σ) (t : τ) (h0 : R s t)
    (hstep : ∀ s t a, R s t → (∃ e, f s a = .error e ∧ g t a = .error e) ∨
      (∃ s' t', f s a = .ok s' ∧ g t a = .ok t' ∧ R s' t')) :
    (∃ e, l.foldlM f s = .error e ∧ l.foldlM g t = .error e) ∨
      (∃ s' t', l.foldlM f s = .ok s' ∧ l.foldlM g t = .ok t' ∧ R s' t') := by
  induction l generalizing s t with
  | nil => exact Or.inr ⟨s, t, rfl, rfl, h0⟩
  | cons a l ih =>
    rcases hstep s t a h0 with ⟨e, h1, h2⟩ | ⟨s', t', h1, h2, h3⟩
    · exact Or.inl ⟨e, by simp [List.foldlM_cons, h1], by simp [List.foldlM_cons, h2]⟩
    · simp only [List.foldlM_cons, h1, h2, ok_bind]
      exact ih s' t' h3

theorem foldlM_sim_bind {α σ τ β : Type} (R : σ → τ → Prop) (l : List α) (f : σ → α → PyM σ) (g : τ → α → PyM τ)
    (s : σ) (t : τ) (F : σ → PyM β) (G : τ → PyM β) (h0 : R s t)
    (hstep : ∀ s t a, R s t → (∃ e, f s a = .error e ∧ g t a = .error e) ∨
      (∃ s' t', f s a = .ok s' ∧ g t a = .ok t' ∧ R s' t'))
    (hFG : ∀ s t, R s t → F s = G t) :
    (l.foldlM f s >>= F) = (l.foldlM g t >>= G) := by
  rcases foldlM_sim R l f g s t h0 hstep with ⟨e, h1, h2⟩ | ⟨s', t', h1, h2, h3⟩
  · rw [h1, h2]; rfl
  · rw [h1, h2]; exact hFG s' t' h3

theorem checkDirection_lt {d : DirTok} {pd k : ℕ} (h : checkDirection d pd = .ok k) : k < pd := by
  unfold checkDirection at h
  split_ifs at h <;> cases h <;> omega

end Splipy.PyO

namespace Splipy.PyO
open Splipy Splipy.Generated Splipy.C06
variable {K : Type} [Field K] [LinearOrder K] [FloorRing K]

/-! ### method: insert_knot -/

theorem _root_.PyObject_insert_knot_eq (o : Obj K) (tol : K) (knot : Param K) (d : DirTok)
    (hb : o.cps.shape.length = o.bases.size + 1) :
    PyObject.insert_knot (ofObj o) tol knot d = (do
      let dir ← checkDirection d o.pardim
      let o' ← o.insertKnots (ensure_listlike knot) dir
      pure (ofObj o')) := by
  have hpd : o.pardim = o.bases.size := by unfold Obj.pardim; omega
  unfold PyObject.insert_knot
  simp only [PyObject_pardim_eq o tol (by omega), ok_bind, PyObject_check_direction_eq]
  cases hc : checkDirection d o.pardim with
  | error e => rfl
  | ok dir =>
    have hdir := checkDirection_lt hc
    simp only [map_ok, ok_bind, ofObj_cps, ofObj_bases]
    have hsh : getItem (npShape o.cps) (dir : Int) = .ok ((o.cps.shape.getD dir 0 : ℕ) : Int) := by
      rw [getItem_nat _ (by simp [npShape]; omega)]
      simp [npShape, List.getD_eq_getElem?_getD]
      rw [List.getElem?_eq_getElem (by omega)]; rfl
    rw [hsh, ok_bind]
    have hid : npIdentity (K := K) ((o.cps.shape.getD dir 0 : ℕ) : Int) = .ok (Mat.identity (o.cps.shape.getD dir 0)) := by
      unfold npIdentity
      have : ¬ (((o.cps.shape.getD dir 0 : ℕ) : Int) < 0) := by omega
      simp [this]
    rw [hid, ok_bind]
    unfold Obj.insertKnots
    simp only [forEach, bind_assoc, pure_bind]
    apply foldlM_sim_bind (fun (s : Mat K × PyObj K) (t : Basis K × Mat K) =>
      s.1 = t.2 ∧ s.2 = { ofObj o with bases := o.bases.set! dir t.1 })
    · refine ⟨rfl, ?_⟩
      show ofObj o = _
      unfold Obj.basis
      rw [set!_getD_self _ _ (by omega)]
      rfl
    · rintro ⟨C, s⟩ ⟨b, C'⟩ x ⟨h1, h2⟩
      simp only at h1 h2
      subst h1 h2
      simp only [ofObj_bases]
      rw [getBasis_nat _ (by simp; omega), getD_set!_self _ _ (by omega), ok_bind]
      cases hi : b.insertKnot x with
      | error e => exact Or.inl ⟨e, rfl, rfl⟩
      | ok r =>
        refine Or.inr ⟨(npMatmul r.2 C, { ofObj o with bases := (o.bases.set! dir b).set! dir r.1 }),
          (r.1, Mat.mul r.2 C), ?_, rfl, rfl, ?_⟩
        · simp only [ok_bind]
          rw [setBasis_nat _ (by simp; omega), ok_bind]
          rfl
        · simp only [set!_set!]
    · rintro ⟨C, s⟩ ⟨b, C'⟩ ⟨h1, h2⟩
      simp only at h1 h2
      subst h1 h2
      simp only [ofObj_cps]
      rw [npTensordot_ok _ _ _ (by omega), ok_bind]
      have hpd2 : ∀ (X : Tensor K) (bs : Array (Basis K)) (dm : Int) (r : Bool), X.shape.length = o.cps.shape.length →
          PyObject.pardim { bases := bs, controlpoints := X, dimension := dm, rational := r } tol
            = .ok (o.pardim : Int) := by
        intro X bs dm r hX
        simp only [PyObject.pardim, len, npShape, List.length_map, hX, Obj.pardim, pure_eq_ok]
        congr 1
        omega
      rw [hpd2 _ _ _ _ (by
          simp only [ofIdxFn_shape, List.length_cons, List.length_eraseIdx]
          rw [if_pos (by omega)]; omega), ok_bind,
        PyObject_transpose_fix_eq _ _ (by omega), ok_bind,
        transpose_tensordot' C o.cps o.pardim dir (by unfold Obj.pardim; omega) (by omega), ok_bind]
      simp only [pure_eq_ok]
      congr 1
      unfold ofObj
      simp only [PyObj.mk.injEq, true_and, and_true, Nat.cast_inj]
      unfold Obj.dimension Obj.ncomp
      simp only [applyAxis_shape']
      rw [getLastD_set _ _ _ _ (by omega)]

end Splipy.PyO

namespace Splipy.PyO
open Splipy Splipy.Generated Splipy.C06
variable {K : Type} [Field K] [LinearOrder K]

/-! ## slicing with `[:, :, …, ::-1]` -/

theorem foldl_slices_all (t : Tensor K) (n k : ℕ) :
    ((List.replicate n SliceTok.all).zipIdx k).foldl
      (fun acc (x : SliceTok × ℕ) => if x.1 = .rev then Tensor.flipAxis acc x.2 else acc) t = t := by
  induction n generalizing k with
  | zero => rfl
  | succ n ih =>
    simp only [List.replicate_succ, List.zipIdx_cons, List.foldl_cons]
    rw [if_neg (by decide)]
    exact ih (k + 1)

theorem npIndexSlices_rev (t : Tensor K) (dir : ℕ) (h : dir < t.shape.length) :
    npIndexSlices t (List.replicate dir SliceTok.all ++ [SliceTok.rev]) = .ok (t.flipAxis dir) := by
  unfold npIndexSlices
  have : ¬ (t.shape.length < (List.replicate dir SliceTok.all ++ [SliceTok.rev]).length) := by simp; omega
  rw [if_neg this]
  congr 1
  rw [List.zipIdx_append, List.foldl_append, foldl_slices_all]
  simp

theorem flipAxis_shape (t : Tensor K) (d : ℕ) (h : d < t.shape.length) : (t.flipAxis d).shape = t.shape := by
  unfold Tensor.flipAxis Tensor.reindexAxis Tensor.build3
  simp only []
  exact set_getD_self _ _ _

theorem rollAxisPos_shape (t : Tensor K) (d k : ℕ) : (t.rollAxisPos d k).shape = t.shape := by
  unfold Tensor.rollAxisPos Tensor.reindexAxis Tensor.build3
  simp only []
  exact set_getD_self _ _ _

/-! ### method: pardim -/

theorem pardim_mk (X : Tensor K) (bs : Array (Basis K)) (dm : Int) (r : Bool) (tol : K) (h : 1 ≤ X.shape.length) :
    PyObject.pardim { bases := bs, controlpoints := X, dimension := dm, rational := r } tol
      = .ok ((X.shape.length - 1 : ℕ) : Int) := by
  simp only [PyObject.pardim, len, npShape, List.length_map, pure_eq_ok]
  congr 1
  omega

/-! ## `check_direction` of the hand model, comprehensions -/

theorem checkDirection_le2 {d : DirTok} {pd k : ℕ} (h : checkDirection d pd = .ok k) : k ≤ 2 := by
  unfold checkDirection at h
  split_ifs at h <;> cases h <;> omega

theorem checkDirection_int {pd k : ℕ} (h : k < pd) (h2 : k ≤ 2) : checkDirection (.int k) pd = .ok k := by
  unfold checkDirection
  interval_cases k <;> simp [h]

theorem listComp_const {α β : Type} (xs : List α) (c : β) :
    listComp xs (fun _ => (pure c : PyM β)) = .ok (List.replicate xs.length c) := by
  have := listComp_ok xs (fun _ => (pure c : PyM β)) (fun _ => c) (fun _ _ => rfl)
  rw [this]
  congr 1
  induction xs with
  | nil => rfl
  | cons x xs ih => simp [List.replicate_succ, ih]

theorem rangeI_length (lo hi : Int) : (rangeI lo hi).length = (hi - lo).toNat := by
  simp [rangeI]

/-! ### method: reverse -/

theorem _root_.PyObject_reverse_eq (o : Obj K) (tol : K) (d : DirTok) (hb : o.cps.shape.length = o.bases.size + 1) :
    PyObject.reverse (ofObj o) tol d = (checkDirection d o.pardim).map (fun dir => ofObj (o.reverse dir)) := by
  have hpd : o.pardim = o.bases.size := by unfold Obj.pardim; omega
  unfold PyObject.reverse
  simp only [PyObject_pardim_eq o tol (by omega), ok_bind, PyObject_check_direction_eq]
  cases hc : checkDirection d o.pardim with
  | error e => rfl
  | ok dir =>
    have hdir := checkDirection_lt hc
    simp only [map_ok, ok_bind, ofObj_cps, ofObj_bases]
    rw [getBasis_nat _ (by omega), ok_bind, setBasis_nat _ (by omega), ok_bind]
    rw [pardim_mk _ _ _ _ _ (by omega), ok_bind, PyObject_check_direction_eq,
      checkDirection_int (by omega) (checkDirection_le2 hc)]
    simp only [map_ok, ok_bind]
    rw [listComp_const, ok_bind, rangeI_length]
    have e0 : ((dir : Int) - 0).toNat = dir := by omega
    rw [e0]
    simp only [listAdd]
    rw [npIndexSlices_rev _ _ (by omega), ok_bind, getBasis_nat _ (by simp; omega), ok_bind,
      getD_set!_self _ _ (by omega)]
    have hper : (o.bases.getD dir default).reverse.periodic = (o.basis dir).periodic := rfl
    rw [hper]
    unfold Obj.reverse
    by_cases hp : (o.basis dir).periodic > -1
    · simp only [hp, if_true]
      unfold npRoll
      rw [flipAxis_shape _ _ (by omega), normIdx_nat (by omega)]
      have : (0 : Int) ≤ (o.basis dir).periodic + 1 := by omega
      simp only [this, if_true, ok_bind, pure_eq_ok]
      congr 1
      unfold ofObj
      simp only [PyObj.mk.injEq, true_and, and_true, Nat.cast_inj]
      refine ⟨rfl, ?_⟩
      unfold Obj.dimension Obj.ncomp
      simp only [rollAxisPos_shape, flipAxis_shape _ _ (show dir < o.cps.shape.length by omega)]
    · simp only [hp, if_false, ok_bind, pure_eq_ok]
      congr 1
      unfold ofObj
      simp only [PyObj.mk.injEq, true_and, and_true, Nat.cast_inj]
      refine ⟨rfl, ?_⟩
      unfold Obj.dimension Obj.ncomp
      simp only [flipAxis_shape _ _ (show dir < o.cps.shape.length by omega)]

end Splipy.PyO

namespace Splipy.PyO
open Splipy Splipy.Generated Splipy.C06
variable {K : Type} [Field K] [LinearOrder K]

/-! ## `np.transpose` with two axes exchanged -/

theorem list_ext_getD (l1 l2 : List ℕ) (d : ℕ) (hl : l1.length = l2.length)
    (h : ∀ k, k < l1.length → l1.getD k d = l2.getD k d) : l1 = l2 := by
  apply List.ext_getElem hl
  intro k h1 h2
  have := h k h1
  simpa [List.getD_eq_getElem?_getD, h1, h2] using this

theorem swapL_swapL (l : List ℕ) (a b d : ℕ) (ha : a < l.length) (hb : b < l.length) :
    swapL (swapL l a b d) a b d = l := by
  apply list_ext_getD _ _ d (by simp [swapL_length])
  intro k hk
  rw [getD_swapL _ _ _ _ _ _ (by rw [swapL_length]; exact ha) (by rw [swapL_length]; exact hb),
    getD_swapL _ _ _ _ _ _ ha hb, sw_sw]

/-- `list(range(n))` with entries `a`, `b` exchanged -/
def swPerm (n a b : ℕ) : List ℕ := ((List.range n).set a b).set b a

theorem swPerm_length (n a b : ℕ) : (swPerm n a b).length = n := by simp [swPerm]

theorem swPerm_getD (n a b k : ℕ) (ha : a < n) (hb : b < n) (hk : k < n) : (swPerm n a b).getD k 0 = sw a b k := by
  have : swPerm n a b = swapL (List.range n) a b 0 := by
    unfold swPerm swapL
    simp [List.getD_eq_getElem?_getD, ha, hb]
  rw [this, getD_swapL _ _ _ _ _ _ (by simpa using ha) (by simpa using hb)]
  have := (sw_lt a b k n ha hb).mpr hk
  simp [List.getD_eq_getElem?_getD, this]

theorem swPerm_getElem (n a b k : ℕ) (ha : a < n) (hb : b < n) (hk : k < (swPerm n a b).length) :
    (swPerm n a b)[k] = sw a b k := by
  have h := swPerm_getD n a b k ha hb (by rwa [swPerm_length] at hk)
  simpa [List.getD_eq_getElem?_getD, hk] using h

theorem sw_inj (a b i j : ℕ) (h : sw a b i = sw a b j) : i = j := by
  have := congrArg (sw a b) h
  rwa [sw_sw, sw_sw] at this

theorem isPerm_swPerm (n a b : ℕ) (ha : a < n) (hb : b < n) : isPerm (swPerm n a b) n = true := by
  unfold isPerm
  simp only [swPerm_length, true_and, Bool.decide_and, Bool.and_eq_true, decide_eq_true_eq, List.all_eq_true]
  constructor
  · rw [List.nodup_iff_pairwise_ne, List.pairwise_iff_getElem]
    intro i j hi hj hij
    rw [swPerm_getElem n a b i ha hb hi, swPerm_getElem n a b j ha hb hj]
    intro h
    have := sw_inj a b i j h
    omega
  · intro x hx
    obtain ⟨j, hj, rfl⟩ := List.getElem_of_mem hx
    rw [swPerm_getElem n a b j ha hb hj]
    exact (sw_lt a b j n ha hb).mpr (by rwa [swPerm_length] at hj)

theorem swPerm_nodup (n a b : ℕ) (ha : a < n) (hb : b < n) : (swPerm n a b).Nodup := by
  have := isPerm_swPerm n a b ha hb
  unfold isPerm at this
  simp only [Bool.decide_and, Bool.and_eq_true, decide_eq_true_eq] at this
  exact this.2.1

theorem swPerm_idxOf (n a b x : ℕ) (ha : a < n) (hb : b < n) (hx : x < n) : (swPerm n a b).idxOf x = sw a b x := by
  have hj : sw a b x < (swPerm n a b).length := by rw [swPerm_length]; exact (sw_lt a b x n ha hb).mpr hx
  have : (swPerm n a b)[sw a b x] = x := by rw [swPerm_getElem n a b _ ha hb hj, sw_sw]
  conv_lhs => rw [← this]
  exact (swPerm_nodup n a b ha hb).idxOf_getElem _ hj

theorem swapAxes_shape (t : Tensor K) (a b : ℕ) (ha : a < t.shape.length) (hb : b < t.shape.length) :
    (t.swapAxes a b).shape = swapL t.shape a b 1 := by
  unfold Tensor.swapAxes
  split_ifs with h
  · subst h
    apply list_ext_getD _ _ 1 (by simp [swapL_length])
    intro k hk
    rw [getD_swapL _ _ _ _ _ _ ha ha]
    unfold sw; split_ifs <;> simp_all
  · rfl

theorem swapAxes_size (t : Tensor K) (a b : ℕ) (hwf : t.data.size = Tensor.prod t.shape) :
    (t.swapAxes a b).data.size = Tensor.prod (t.swapAxes a b).shape := by
  unfold Tensor.swapAxes
  split_ifs with h
  · exact hwf
  · simp

theorem transpose_swap (t : Tensor K) (a b : ℕ) (ha : a < t.shape.length) (hb : b < t.shape.length)
    (hwf : t.data.size = Tensor.prod t.shape) :
    npTranspose t ((swPerm t.shape.length a b).map (fun (k : ℕ) => (k : Int))) = .ok (t.swapAxes a b) := by
  rw [npTranspose_ok _ _ (isPerm_swPerm _ a b ha hb)]
  congr 1
  have hsh : (swPerm t.shape.length a b).map (fun x => t.shape.getD x 1) = swapL t.shape a b 1 := by
    apply list_ext_getD _ _ 1 (by simp [swPerm_length, swapL_length])
    intro k hk
    simp only [List.length_map, swPerm_length] at hk
    rw [getD_swapL _ _ _ _ _ _ ha hb]
    simp only [List.getD_eq_getElem?_getD, List.getElem?_map]
    have h1 : k < (swPerm t.shape.length a b).length := by rw [swPerm_length]; exact hk
    rw [List.getElem?_eq_getElem h1, swPerm_getElem _ a b k ha hb h1]
    simp
  apply tensor_ext
  · rw [ofIdxFn_shape, hsh, swapAxes_shape t a b ha hb]
  · rw [ofIdxFn_size]; rfl
  · exact swapAxes_size t a b hwf
  · intro idx hidx
    rw [ofIdxFn_shape, hsh] at hidx
    rw [hsh, getIdx_ofIdxFn _ _ hidx]
    have hl : idx.length = t.shape.length := by rw [hidx.length_eq, swapL_length]
    have hold : (List.range t.shape.length).map (fun x => idx.getD ((swPerm t.shape.length a b).idxOf x) 0)
        = swapL idx a b 0 := by
      apply list_ext_getD _ _ 0 (by simp [swapL_length, hl])
      intro k hk
      simp only [List.length_map, List.length_range] at hk
      rw [getD_swapL _ _ _ _ _ _ (by omega) (by omega)]
      simp only [List.getD_eq_getElem?_getD, List.getElem?_map, List.getElem?_range hk, Option.map_some,
        Option.getD_some]
      rw [swPerm_idxOf _ a b k ha hb hk]
    rw [hold]
    have hin : InRange (swapL idx a b 0) t.shape := by
      have := inRange_swapL idx (swapL t.shape a b 1) a b (by rw [swapL_length]; exact ha)
        (by rw [swapL_length]; exact hb) hidx
      rwa [swapL_swapL _ _ _ _ ha hb] at this
    have := getIdx_swapAxes t a b (swapL idx a b 0) ha hb hin
    rw [swapL_swapL _ _ _ _ (by omega) (by omega)] at this
    exact this.symm

/-! ### method: swap -/

theorem rangeI_zero' (n : ℕ) : rangeI 0 ((n : Int) + 1) = (List.range (n + 1)).map (fun (k : ℕ) => (k : Int)) := by
  have := rangeI_zero (n + 1)
  push_cast at this
  exact this

theorem _root_.PyObject_swap_eq (o : Obj K) (tol : K) (d1 d2 : DirTok) (hb : o.cps.shape.length = o.bases.size + 1)
    (hwf : o.cps.data.size = Tensor.prod o.cps.shape) :
    PyObject.swap (ofObj o) tol d1 d2 = (if o.pardim = 1 then .ok (ofObj o) else do
      let a ← checkDirection d1 o.pardim
      let b ← checkDirection d2 o.pardim
      pure (ofObj (o.swap a b))) := by
  have hpd : o.pardim = o.bases.size := by unfold Obj.pardim; omega
  unfold PyObject.swap
  simp only [PyObject_pardim_eq o tol (by omega), ok_bind, PyObject_check_direction_eq]
  by_cases h1 : o.pardim = 1
  · simp [h1]
  · have h1' : ¬ ((o.pardim : Int) = 1) := by omega
    simp only [h1, h1', if_false]
    cases hc1 : checkDirection d1 o.pardim with
    | error e => rfl
    | ok a =>
      have ha := checkDirection_lt hc1
      simp only [map_ok, ok_bind]
      cases hc2 : checkDirection d2 o.pardim with
      | error e => rfl
      | ok b =>
        have hb' := checkDirection_lt hc2
        simp only [map_ok, ok_bind, ofObj_cps, ofObj_bases, rangeI_zero']
        rw [setItem_nat _ (by simp; omega), ok_bind, setItem_nat _ (by simp; omega), ok_bind]
        have hperm : (((List.range (o.pardim + 1)).map (fun (k : ℕ) => (k : Int))).set a (b : Int)).set b (a : Int)
            = (swPerm o.cps.shape.length a b).map (fun (k : ℕ) => (k : Int)) := by
          unfold swPerm
          have : o.cps.shape.length = o.pardim + 1 := by omega
          rw [this, List.map_set, List.map_set]
        rw [hperm, transpose_swap o.cps a b (by omega) (by omega) hwf, ok_bind]
        rw [getBasis_nat _ (by omega), ok_bind, getBasis_nat _ (by omega), ok_bind,
          setBasis_nat _ (by omega), ok_bind, setBasis_nat _ (by simp; omega), ok_bind]
        simp only [pure_eq_ok]
        congr 1
        unfold ofObj Obj.swap Obj.basis
        simp only [PyObj.mk.injEq, true_and, and_true, Nat.cast_inj]
        unfold Obj.dimension Obj.ncomp
        simp only [swapAxes_shape _ _ _ (show a < o.cps.shape.length by omega) (show b < o.cps.shape.length by omega)]
        have : (swapL o.cps.shape a b 1).getLastD 0 = o.cps.shape.getLastD 0 := by
          unfold swapL
          rw [getLastD_set _ _ _ _ (by simp; omega), getLastD_set _ _ _ _ (by omega)]
        rw [this]

end Splipy.PyO

namespace Splipy.PyO
open Splipy Splipy.Generated Splipy.C06
variable {K : Type} [Field K] [LinearOrder K]

/-! ### method: bounding_box -/

theorem ofFn_toList_range {n : ℕ} (g : ℕ → K) :
    (Array.ofFn (n := n) (fun p => g p.val)).toList = (List.range n).map g := by
  apply List.ext_getElem
  · simp
  · intro i h1 h2
    simp

theorem foldl_min_head (x : K) (r : List K) : (x :: r).foldl min ((x :: r).headD 0) = r.foldl min x := by
  simp
theorem foldl_max_head (x : K) (r : List K) : (x :: r).foldl max ((x :: r).headD 0) = r.foldl max x := by
  simp

theorem _root_.PyObject_bounding_box_eq (o : Obj K) (tol : K) (hs : o.cps.shape ≠ [])
    (hn : 0 < o.dimension → 0 < nPts o.cps) :
    PyObject.bounding_box (ofObj o) tol = .ok (o.boundingBox.map (fun p => [p.1, p.2])) := by
  unfold PyObject.bounding_box
  simp only [ofObj_dimension, ofObj_cps]
  have hlast : lastN o.cps = o.ncomp := by
    unfold lastN Obj.ncomp
    cases hsh : o.cps.shape with
    | nil => exact absurd hsh hs
    | cons a l => simp [List.getLastD_eq_getLast?, List.getLast?_eq_some_getLast (List.cons_ne_nil a l)]
  have hdn : o.dimension ≤ o.ncomp := by unfold Obj.dimension; omega
  have hsz : o.cps.size / o.ncomp = nPts o.cps ∨ o.dimension = 0 := by
    by_cases h0 : o.ncomp = 0
    · right; omega
    · left
      unfold Tensor.size
      rw [prod_eq_nPts_mul _ hs, hlast, Nat.mul_div_cancel _ (by omega)]
  rw [(forRange_eq_foldl o.dimension ([] : List (List K))
    _ (fun (acc : List (List K)) (c : ℕ) =>
        acc ++ [[((List.range (nPts o.cps)).map (fun pI => o.cps.get (pI * o.ncomp + c))).foldl min
                  (((List.range (nPts o.cps)).map (fun pI => o.cps.get (pI * o.ncomp + c))).headD 0),
                 ((List.range (nPts o.cps)).map (fun pI => o.cps.get (pI * o.ncomp + c))).foldl max
                  (((List.range (nPts o.cps)).map (fun pI => o.cps.get (pI * o.ncomp + c))).headD 0)]])
    (fun _ => True) trivial
    (by
      intro i st hi _
      refine ⟨?_, trivial⟩
      have hpos : 0 < nPts o.cps := hn (by omega)
      simp only [getLast, hlast, normIdx_nat (show i < o.ncomp by omega), ok_bind, npMin, npMax, listAdd]
      rw [ofFn_toList_range (fun p => o.cps.get (p * o.ncomp + i))]
      obtain ⟨m, hm⟩ : ∃ m, nPts o.cps = m + 1 := ⟨nPts o.cps - 1, by omega⟩
      rw [hm, List.range_succ_eq_map, List.map_cons]
      simp only [pyMin, pyMax, ok_bind, pure_eq_ok, List.foldl_cons, List.headD_cons, min_self, max_self])).1]
  simp only [ok_bind, pure_eq_ok]
  congr 1
  unfold Obj.boundingBox
  simp only []
  rcases hsz with hsz | hsz
  · rw [hsz]
    generalize o.dimension = n
    induction n with
    | zero => rfl
    | succ n ih =>
      rw [List.range_succ, List.foldl_append, ih, List.map_append, List.map_append]
      simp
  · rw [hsz]; rfl

end Splipy.PyO

namespace Splipy.PyO
open Splipy Splipy.Generated Splipy.C06
variable {K : Type} [Field K] [LinearOrder K]

/-! ## the `reparam` loop of the hand model (no generated code) -/

theorem unpack2_eq (xs : List K) : unpack2 xs = match xs with | [a, b] => .ok (a, b) | _ => .error .value := by
  unfold unpack2; rfl

/-- one pass of `for b, (start, end) in zip(self.bases, args): b.reparam(start, end)` -/
def rpStep (i : Int) (x : Basis K × List K) (s : PyObj K) : PyM (PyObj K) :=
  match x.2 with
  | [a, e] =>
    match Basis.reparam x.1 a e with
    | .ok b' =>
      match setBasis s.bases i b' with
      | .ok bs => .ok { s with bases := bs }
      | .error er => .error er
    | .error er => .error er
  | _ => .error .value

theorem ofObj_setBases (o : Obj K) (bs : Array (Basis K)) :
    ({ ofObj o with bases := bs } : PyObj K) = ofObj { o with bases := bs } := rfl

theorem rp_loop (o : Obj K) (k : ℕ) (argsl : List (List K)) :
    ((List.zip (o.bases.toList.drop k) argsl).zipIdx k).foldlM (fun s xi => rpStep (xi.2 : ℕ) xi.1 s) (ofObj o)
      = (match o.reparamLoop k argsl with
         | (o', none) => .ok (ofObj o')
         | (_, some e) => .error e) := by
  induction argsl generalizing o k with
  | nil => simp [Obj.reparamLoop]
  | cons arg rest ih =>
    unfold Obj.reparamLoop
    by_cases hk : o.pardimB ≤ k
    · have : o.bases.toList.drop k = [] := by
        rw [List.drop_eq_nil_iff, Array.length_toList]; exact hk
      simp [this, hk]
    · have hk' : k < o.bases.size := by unfold Obj.pardimB at hk; omega
      rw [if_neg hk]
      have hd : o.bases.toList.drop k = o.basis k :: o.bases.toList.drop (k + 1) := by
        rw [List.drop_eq_getElem_cons (by simpa using hk')]
        congr 1
        unfold Obj.basis
        simp [Array.getD, hk']
      rw [hd, List.zip_cons_cons, List.zipIdx_cons, List.foldlM_cons]
      unfold rpStep Obj.reparamOne
      simp only []
      match arg with
      | [a, e] =>
        simp only []
        cases hr : (o.basis k).reparam a e with
        | error er => rfl
        | ok b' =>
          simp only [ofObj_bases, setBasis_nat _ hk', ok_bind]
          rw [ofObj_setBases]
          have := ih { o with bases := o.bases.set! k b' } (k + 1)
          simp only [] at this
          rw [show ({ o with bases := o.bases.set! k b' } : Obj K).bases.toList.drop (k + 1)
              = o.bases.toList.drop (k + 1) by
            simp only [Array.set!_eq_setIfInBounds, Array.toList_setIfInBounds]
            rw [List.drop_set_of_lt (by omega)]] at this
          exact this
      | [] => rfl
      | [_] => rfl
      | _ :: _ :: _ :: _ => rfl

theorem listMul_singleton {α : Type} (x : α) (n : ℕ) : listMul [x] (n : Int) = List.replicate n x := by
  unfold listMul
  simp only [Int.toNat_natCast]
  induction n with
  | zero => rfl
  | succ n ih => simp [List.replicate_succ, ih]

/-! ### method: reparam -/

theorem _root_.PyObject_reparam_eq (o : Obj K) (tol : K) (args : List (List K)) :
    PyObject.reparam (ofObj o) tol args
      = (match (o.reparamArgs args).err with
         | none => .ok (ofObj (o.reparamArgs args).obj)
         | some e => .error e) := by
  unfold PyObject.reparam
  simp only [ofObj_bases, forEachIdx, zip2, listAdd, len]
  have hpad : listMul [([(0 : K), (1 : K)] : List K)] ((o.bases.size : Int) - (args.length : Int))
      = List.replicate (o.pardimB - args.length) [0, 1] := by
    unfold Obj.pardimB
    by_cases h : args.length ≤ o.bases.size
    · have : ((o.bases.size : Int) - (args.length : Int)) = ((o.bases.size - args.length : ℕ) : Int) := by omega
      rw [this, listMul_singleton]
    · have h0 : o.bases.size - args.length = 0 := by omega
      unfold listMul
      have : ((o.bases.size : Int) - (args.length : Int)).toNat = 0 := by omega
      rw [this, h0]; rfl
  rw [hpad]
  rw [foldlM_congr' _ _ (fun s xi => rpStep (xi.2 : ℕ) xi.1 s) _ (by
    intro s xi
    generalize ((xi.2 : ℕ) : Int) = i
    generalize xi.1 = x
    unfold rpStep
    rw [unpack2_eq]
    match hx : x.2 with
    | [a, e] =>
      simp only [ok_bind]
      cases Basis.reparam x.1 a e with
      | error er => rfl
      | ok b' =>
        simp only [ok_bind]
        cases setBasis s.bases i b' <;> rfl
    | [] => rfl
    | [_] => rfl
    | _ :: _ :: _ :: _ => rfl)]
  have := rp_loop o 0 (args ++ List.replicate (o.pardimB - args.length) [0, 1])
  simp only [List.drop_zero] at this
  simp only [this, ok_bind, pure_eq_ok]
  unfold Obj.reparamArgs
  simp only []
  cases hl : o.reparamLoop 0 (args ++ List.replicate (o.pardimB - args.length) [0, 1]) with
  | mk o' e =>
    cases e <;> rfl

/-! ### method: reparam_dir -/

theorem _root_.PyObject_reparam_dir_eq (o : Obj K) (tol : K) (args : List (List K)) (d : DirTok)
    (hb : o.cps.shape.length = o.bases.size + 1) :
    PyObject.reparam_dir (ofObj o) tol args d
      = (match checkDirection d o.pardim with
         | .error e => .error e
         | .ok dir => (o.reparamOne dir (match args with | [] => [0, 1] | a :: _ => a)).map ofObj) := by
  have hpd : o.pardim = o.bases.size := by unfold Obj.pardim; omega
  unfold PyObject.reparam_dir
  simp only [PyObject_pardim_eq o tol (by omega), ok_bind, PyObject_check_direction_eq]
  cases hc : checkDirection d o.pardim with
  | error e => rfl
  | ok dir =>
    have hdir := checkDirection_lt hc
    simp only [map_ok, ok_bind, ofObj_bases, len]
    unfold Obj.reparamOne
    match args with
    | [] =>
      simp only [List.length_nil, Nat.cast_zero, if_true]
      rw [getBasis_nat _ (by omega), ok_bind]
      show _ = Except.map ofObj (match (o.basis dir).reparam 0 1 with | .ok b => _ | .error e => _)
      unfold Obj.basis
      cases (o.bases.getD dir default).reparam 0 1 with
      | error e => rfl
      | ok b =>
        simp only [ok_bind]
        rw [setBasis_nat _ (by omega)]
        rfl
    | a :: rest =>
      have : ¬ (((a :: rest).length : Int) = 0) := by simp; omega
      simp only [this, if_false]
      have hg : getItem (a :: rest) (0 : Int) = .ok a := by
        have := getItem_nat (a :: rest) (k := 0) (by simp)
        simpa using this
      rw [hg]
      simp only [ok_bind, unpack2_eq]
      match a with
      | [s, e] =>
        simp only [ok_bind]
        rw [getBasis_nat _ (by omega), ok_bind]
        unfold Obj.basis
        cases (o.bases.getD dir default).reparam s e with
        | error er => rfl
        | ok b =>
          simp only [ok_bind]
          rw [setBasis_nat _ (by omega)]
          rfl
      | [] => rfl
      | [_] => rfl
      | _ :: _ :: _ :: _ => rfl

end Splipy.PyO

namespace Splipy.PyO
open Splipy Splipy.Generated Splipy.C06 Finset
variable {K : Type} [Field K] [LinearOrder K]

/-! ## the `einsum` chain of the module-level `evaluate` (`tensor=False`, parametric dimension 1, 2, 3) -/

theorem getIdx2 (t : Tensor K) {a c : ℕ} (hs : t.shape = [a, c]) (i k : ℕ) : getIdx t [i, k] = t.get (i * c + k) := by
  unfold getIdx; rw [hs]; simp [flatIdx, Tensor.prod]
theorem getIdx3 (t : Tensor K) {a b c : ℕ} (hs : t.shape = [a, b, c]) (i j k : ℕ) :
    getIdx t [i, j, k] = t.get ((i * b + j) * c + k) := by
  unfold getIdx; rw [hs]; simp [flatIdx, Tensor.prod]; ring_nf
theorem getIdx4 (t : Tensor K) {a b d c : ℕ} (hs : t.shape = [a, b, d, c]) (i j l k : ℕ) :
    getIdx t [i, j, l, k] = t.get (((i * b + j) * d + l) * c + k) := by
  unfold getIdx; rw [hs]; simp [flatIdx, Tensor.prod]; ring_nf

theorem einsumFirst_shape (N : Mat K) (t : Tensor K) : (einsumFirst N t).shape = N.size :: t.shape.tail := rfl
theorem einsumFirst_size (N : Mat K) (t : Tensor K) :
    (einsumFirst N t).data.size = Tensor.prod (einsumFirst N t).shape := ofIdxFn_size _ _
theorem getIdx_einsumFirst (N : Mat K) (t : Tensor K) (idx : List ℕ) (h : InRange idx (N.size :: t.shape.tail)) :
    getIdx (einsumFirst N t) idx
      = ∑ j ∈ range (t.shape.headD 1), (N.getD (idx.headD 0) #[]).getD j 0 * getIdx t (j :: idx.tail) := by
  unfold einsumFirst
  rw [getIdx_ofIdxFn _ _ h, foldl_range_add_sum]

theorem einsumBatch_shape (N : Mat K) (t : Tensor K) :
    (einsumBatch N t).shape = t.shape.headD 1 :: t.shape.drop 2 := rfl
theorem einsumBatch_size (N : Mat K) (t : Tensor K) :
    (einsumBatch N t).data.size = Tensor.prod (einsumBatch N t).shape := ofIdxFn_size _ _
theorem getIdx_einsumBatch (N : Mat K) (t : Tensor K) (idx : List ℕ)
    (h : InRange idx (t.shape.headD 1 :: t.shape.drop 2)) :
    getIdx (einsumBatch N t) idx
      = ∑ j ∈ range (t.shape.getD 1 1),
          (N.getD (idx.headD 0) #[]).getD j 0 * getIdx t (idx.headD 0 :: j :: idx.tail) := by
  unfold einsumBatch
  rw [getIdx_ofIdxFn _ _ h, foldl_range_add_sum]

theorem sum_range_congr (n : ℕ) (f g : ℕ → K) (h : ∀ j, j < n → f j = g j) :
    ∑ j ∈ range n, f j = ∑ j ∈ range n, g j :=
  Finset.sum_congr rfl (fun j hj => h j (Finset.mem_range.mp hj))

theorem pointwise1 (N1 : Mat K) (t : Tensor K) {a c : ℕ} (hs : t.shape = [a, c]) :
    einsumFirst N1 t = Obj.contractPointwise [N1] t N1.size := by
  have hsz := contractPointwise_size_of_shape [N1] t N1.size c (by rw [hs]; rfl)
    (fun k _ => by have := (contractGrid1_size #[N1.getD k #[]] t hs).2; simpa using this)
  have hE : (einsumFirst N1 t).shape = [N1.size, c] := by rw [einsumFirst_shape, hs]; rfl
  apply tensor_ext
  · rw [hsz.1, hE]
  · exact einsumFirst_size _ _
  · rw [hsz.2, hsz.1]; simp [Tensor.prod]
  · intro idx hidx
    rw [hE] at hidx
    obtain ⟨i, k, rfl, hi, hk⟩ := inRange2_inv hidx
    rw [getIdx_einsumFirst _ _ _ (by rw [hs]; exact hidx), getIdx2 _ hsz.1, contractPointwise1_get N1 t _ hs hi hk]
    simp only [hs, List.headD_cons, List.tail_cons, getIdx2 t hs]

theorem pointwise2 (N1 N2 : Mat K) (t : Tensor K) {a b c : ℕ} (hs : t.shape = [a, b, c]) :
    einsumBatch N2 (einsumFirst N1 t) = Obj.contractPointwise [N1, N2] t N1.size := by
  have hsz := contractPointwise_size_of_shape [N1, N2] t N1.size c (by rw [hs]; rfl)
    (fun k _ => by have := (contractGrid2_size #[N1.getD k #[]] #[N2.getD k #[]] t hs).2; simpa using this)
  have hE : (einsumFirst N1 t).shape = [N1.size, b, c] := by rw [einsumFirst_shape, hs]; rfl
  have hR : (einsumBatch N2 (einsumFirst N1 t)).shape = [N1.size, c] := by rw [einsumBatch_shape, hE]; rfl
  apply tensor_ext
  · rw [hsz.1, hR]
  · exact einsumBatch_size _ _
  · rw [hsz.2, hsz.1]; simp [Tensor.prod]
  · intro idx hidx
    rw [hR] at hidx
    obtain ⟨i, k, rfl, hi, hk⟩ := inRange2_inv hidx
    rw [getIdx2 _ hsz.1, contractPointwise2_get N1 N2 t _ hs hi hk,
      getIdx_einsumBatch _ _ _ (by rw [hE]; exact hidx)]
    simp only [hE, List.getD_cons_succ, List.getD_cons_zero, List.headD_cons, List.tail_cons]
    rw [Finset.sum_comm]
    apply sum_range_congr
    intro j2 hj2
    rw [getIdx_einsumFirst _ _ _ (by rw [hs]; exact inRange3 hi hj2 hk), Finset.mul_sum]
    simp only [hs, List.headD_cons, List.tail_cons, getIdx3 t hs]
    apply sum_range_congr
    intro j1 _
    ring

theorem pointwise3 (N1 N2 N3 : Mat K) (t : Tensor K) {a b d c : ℕ} (hs : t.shape = [a, b, d, c]) :
    einsumBatch N3 (einsumBatch N2 (einsumFirst N1 t)) = Obj.contractPointwise [N1, N2, N3] t N1.size := by
  have hsz := contractPointwise_size_of_shape [N1, N2, N3] t N1.size c (by rw [hs]; rfl)
    (fun k _ => by
      have := (contractGrid3_size #[N1.getD k #[]] #[N2.getD k #[]] #[N3.getD k #[]] t hs).2; simpa using this)
  have hE : (einsumFirst N1 t).shape = [N1.size, b, d, c] := by rw [einsumFirst_shape, hs]; rfl
  have hE2 : (einsumBatch N2 (einsumFirst N1 t)).shape = [N1.size, d, c] := by rw [einsumBatch_shape, hE]; rfl
  have hR : (einsumBatch N3 (einsumBatch N2 (einsumFirst N1 t))).shape = [N1.size, c] := by
    rw [einsumBatch_shape, hE2]; rfl
  apply tensor_ext
  · rw [hsz.1, hR]
  · exact einsumBatch_size _ _
  · rw [hsz.2, hsz.1]; simp [Tensor.prod]
  · intro idx hidx
    rw [hR] at hidx
    obtain ⟨i, k, rfl, hi, hk⟩ := inRange2_inv hidx
    rw [getIdx2 _ hsz.1, contractPointwise3_get N1 N2 N3 t _ hs hi hk,
      getIdx_einsumBatch _ _ _ (by rw [hE2]; exact hidx)]
    simp only [hE2, List.getD_cons_succ, List.getD_cons_zero, List.headD_cons, List.tail_cons]
    have hE2get : ∀ j3, j3 < d → getIdx (einsumBatch N2 (einsumFirst N1 t)) [i, j3, k]
        = ∑ j2 ∈ range b, (N2.getD i #[]).getD j2 0 *
            ∑ j1 ∈ range a, (N1.getD i #[]).getD j1 0 * t.get (((j1 * b + j2) * d + j3) * c + k) := by
      intro j3 hj3
      rw [getIdx_einsumBatch _ _ _ (by rw [hE]; exact inRange3 hi hj3 hk)]
      simp only [hE, List.getD_cons_succ, List.getD_cons_zero, List.headD_cons, List.tail_cons]
      apply sum_range_congr
      intro j2 hj2
      rw [getIdx_einsumFirst _ _ _ (by rw [hs]; exact inRange4 hi hj2 hj3 hk)]
      simp only [hs, List.headD_cons, List.tail_cons, getIdx4 t hs]
    rw [sum_range_congr d _ _ (fun j3 hj3 => by rw [hE2get j3 hj3])]
    simp only [Finset.mul_sum]
    rw [Finset.sum_comm]
    conv_lhs => arg 2; ext j2; rw [Finset.sum_comm]
    rw [Finset.sum_comm]
    apply sum_range_congr
    intro j1 _
    apply sum_range_congr
    intro j2 _
    apply sum_range_congr
    intro j3 _
    ring

end Splipy.PyO

namespace Splipy.PyO
open Splipy Splipy.Generated Splipy.C06
variable {K : Type} [Field K] [LinearOrder K]

/-! ### method: evaluate_fn -/

theorem _root_.PyObject_evaluate_fn_pointwise_eq (Ns : List (Mat K)) (cps : Tensor K)
    (hlen : cps.shape.length = Ns.length + 1) (h1 : 1 ≤ Ns.length) (hd : Ns.length ≤ 3) :
    PyObject.evaluate_fn Ns cps false = .ok (Obj.contractPointwise Ns cps (Ns.headD #[]).size) := by
  unfold PyObject.evaluate_fn
  simp only [Bool.false_eq_true, if_false, forEach, slice, sliceLo, sliceHi]
  match Ns, hlen, h1, hd with
  | [N1], hlen, _, _ =>
    obtain ⟨a, c, hs⟩ := List.length_eq_two.mp hlen
    have hg : getItem [N1] (0 : Int) = .ok N1 := by
      have := getItem_nat [N1] (k := 0) (by simp); simpa using this
    simp [hg, pointwise1 N1 cps hs]
  | [N1, N2], hlen, _, _ =>
    obtain ⟨a, b, c, hs⟩ := List.length_eq_three.mp hlen
    have hg : getItem [N1, N2] (0 : Int) = .ok N1 := by
      have := getItem_nat [N1, N2] (k := 0) (by simp); simpa using this
    simp [hg, pointwise2 N1 N2 cps hs]
  | [N1, N2, N3], hlen, _, _ =>
    obtain ⟨a, b, d, c, hs⟩ : ∃ a b d c, cps.shape = [a, b, d, c] := by
      match hsh : cps.shape, hlen with
      | [a, b, d, c], _ => exact ⟨a, b, d, c, rfl⟩
    have hg : getItem [N1, N2, N3] (0 : Int) = .ok N1 := by
      have := getItem_nat [N1, N2, N3] (k := 0) (by simp); simpa using this
    simp [hg, pointwise3 N1 N2 N3 cps hs]

end Splipy.PyO

namespace Splipy.PyO
open Splipy Splipy.Generated Splipy.C06
variable {K : Type} [Field K] [LinearOrder K] [FloorRing K]

/-! ## facts about `contractPointwise`, sets of lengths (no generated code) -/

theorem contractPointwise_facts (Ns : List (Mat K)) (cps : Tensor K) (m : ℕ)
    (hlen : cps.shape.length = Ns.length + 1) (h1 : 1 ≤ Ns.length) (hd : Ns.length ≤ 3) :
    (Obj.contractPointwise Ns cps m).shape = [m, lastN cps] ∧
    (Obj.contractPointwise Ns cps m).data.size = m * lastN cps := by
  match Ns, hlen, h1, hd with
  | [N1], hlen, _, _ =>
    obtain ⟨a, c, hs⟩ := List.length_eq_two.mp hlen
    exact contractPointwise_size_of_shape [N1] cps m (lastN cps) rfl
      (fun k _ => by
        have := (contractGrid1_size #[N1.getD k #[]] cps hs).2
        simp only [List.map_cons, List.map_nil]
        rw [this]; simp [lastN, hs])
  | [N1, N2], hlen, _, _ =>
    obtain ⟨a, b, c, hs⟩ := List.length_eq_three.mp hlen
    exact contractPointwise_size_of_shape [N1, N2] cps m (lastN cps) rfl
      (fun k _ => by
        have := (contractGrid2_size #[N1.getD k #[]] #[N2.getD k #[]] cps hs).2
        simp only [List.map_cons, List.map_nil]
        rw [this]; simp [lastN, hs])
  | [N1, N2, N3], hlen, _, _ =>
    obtain ⟨a, b, d, c, hs⟩ : ∃ a b d c, cps.shape = [a, b, d, c] := by
      match hsh : cps.shape, hlen with
      | [a, b, d, c], _ => exact ⟨a, b, d, c, rfl⟩
    exact contractPointwise_size_of_shape [N1, N2, N3] cps m (lastN cps) rfl
      (fun k _ => by
        have := (contractGrid3_size #[N1.getD k #[]] #[N2.getD k #[]] #[N3.getD k #[]] cps hs).2
        simp only [List.map_cons, List.map_nil]
        rw [this]; simp [lastN, hs])

theorem eraseDups_map_length {α β : Type} [BEq α] [LawfulBEq α] [BEq β] [LawfulBEq β] (f : α → β)
    (hf : Function.Injective f) (l : List α) : (l.map f).eraseDups.length = l.eraseDups.length := by
  generalize hn : l.length = n
  induction n using Nat.strong_induction_on generalizing l with
  | _ n ih =>
    cases l with
    | nil => rfl
    | cons a l =>
      simp only [List.map_cons, List.eraseDups_cons, List.length_cons]
      congr 1
      have hfilt : (l.map f).filter (fun b => !b == f a) = (l.filter (fun b => !b == a)).map f := by
        rw [List.filter_map]
        congr 1
        apply List.filter_congr
        intro x _
        simp only [Function.comp]
        by_cases hx : x = a
        · subst hx; simp
        · have : f x ≠ f a := fun h => hx (hf h)
          simp [hx, this]
      rw [hfilt]
      exact ih _ (by
        have := List.length_filter_le (fun b => !b == a) l
        simp only [List.length_cons] at hn
        omega) _ rfl

theorem setLen_lengths (ps : List (List K)) :
    setLen (ps.map (fun p => len p)) = ((ps.map List.length).eraseDups.length : Int) := by
  unfold setLen len
  have : ps.map (fun p => ((p.length : ℕ) : Int)) = (ps.map List.length).map (fun (k : ℕ) => (k : Int)) := by
    rw [List.map_map]; rfl
  rw [this, eraseDups_map_length (fun (k : ℕ) => (k : Int)) Nat.cast_injective]

/-! ### method: evaluate -/

theorem _root_.PyObject_evaluate_eq (o : Obj K) (tol : K) (params : List (Param K)) (kw : Option Bool)
    (hb : o.cps.shape.length = o.bases.size + 1) (hd1 : 1 ≤ o.bases.size) (hd3 : o.bases.size ≤ 3)
    (hp : params.length = o.bases.size)
    (hne : ∀ x ∈ List.zip o.bases.toList (params.map ensure_listlike), x.1.periodic < 0 → x.2 ≠ [])
    (hnc : 1 ≤ o.ncomp) :
    PyObject.evaluate (ofObj o) tol params kw = (do
      let r ← o.evaluate tol (params.map ensure_listlike) (kw.getD true)
      if params.all is_singleton then npReshape r [((o.dimension : ℕ) : Int)] else pure r) := by
  by_cases ht : kw.getD true = true
  · exact PyObject_evaluate_tensor_eq o tol params kw hb hd1 hd3 hp hne hnc ht
  have ht' : kw.getD true = false := by simpa using ht
  unfold PyObject.evaluate
  simp only [kwGet, ht', pure_eq_ok, Bool.false_eq_true, not_false_eq_true, if_true]
  rw [listComp_ok params _ is_singleton (fun _ _ => rfl), ok_bind,
    listComp_ok params _ ensure_listlike (fun _ _ => rfl), ok_bind,
    listComp_ok _ _ (fun p => len p) (fun _ _ => rfl), ok_bind, setLen_lengths]
  unfold Obj.evaluate
  simp only [ht', Bool.not_false, true_and]
  by_cases hl : ((params.map ensure_listlike).map List.length).eraseDups.length = 1
  · have hl' : ¬ (((((params.map ensure_listlike).map List.length).eraseDups.length : ℕ) : Int) ≠ 1) := by
      rw [hl]; simp
    simp only [hl', decide_false, Bool.false_eq_true, if_false, ok_bind]
    simp only [hl, ne_eq, not_true_eq_false, if_false]
    rw [vd_model o tol _ (by simp [hp]) hne]
    cases hv : o.validateDomain tol (params.map ensure_listlike) with
    | error e => rfl
    | ok ps =>
      simp only [ok_bind, ofObj_bases, zip2, ofObj_cps, ofObj_rational, ofObj_dimension]
      rw [listComp_ok _ _ (fun (x : Basis K × List K) => basisEvaluate x.1 tol x.2 0 true) (fun _ _ => rfl), ok_bind]
      have hpsl : ps.length = o.bases.size := by
        simp only [Obj.validateDomain] at hv
        split_ifs at hv
        cases hv
        simp [hp]
      have hbe : ∀ (x : Basis K × List K), basisEvaluate x.1 tol x.2 0 true = Obj.basisMat x.1 tol x.2 0 true :=
        fun _ => rfl
      simp only [hbe, Bool.false_eq_true, if_false]
      set Ns := (List.zip o.bases.toList ps).map (fun (x : Basis K × List K) => Obj.basisMat x.1 tol x.2 0 true) with hNs
      have hNl : Ns.length = o.bases.size := by simp [hNs, hpsl]
      rw [PyObject_evaluate_fn_pointwise_eq Ns o.cps (by omega) (by omega) (by omega), ok_bind]
      have hm : (Ns.headD #[]).size = (ps.headD []).length := by
        cases hps : ps with
        | nil => rw [hps] at hpsl; simp at hpsl; omega
        | cons p0 rest =>
          cases hbs : o.bases.toList with
          | nil => have : o.bases.toList.length = 0 := by rw [hbs]; rfl
                   rw [Array.length_toList] at this; omega
          | cons b0 brest =>
            simp only [hNs, hps, hbs, List.zip_cons_cons, List.map_cons, List.headD_cons, Obj.basisMat]
            simp
      rw [hm]
      obtain ⟨f1, f2⟩ := contractPointwise_facts Ns o.cps (ps.headD []).length (by omega) (by omega) (by omega)
      set res := Obj.contractPointwise Ns o.cps (ps.headD []).length with hres
      have g1 : res.shape ≠ [] := by rw [f1]; simp
      have g2 : lastN res = lastN o.cps := by unfold lastN; rw [f1]; rfl
      have g3 : res.data.size = Tensor.prod res.shape := by rw [f2, f1]; simp [Tensor.prod]
      have hsq : pyAll (List.map is_singleton params) = params.all is_singleton := by
        simp [pyAll, List.all_map]
      rw [hsq]
      by_cases hr : o.rational = true
      · simp only [hr, if_true]
        have hdim : o.dimension + 1 = o.ncomp := by
          unfold Obj.dimension; rw [if_pos hr]; omega
        have hlast : lastN res = o.dimension + 1 := by
          rw [g2, hdim]
          unfold lastN Obj.ncomp
          cases hsh : o.cps.shape with
          | nil => rw [hsh] at hb; simp at hb
          | cons a l => simp [List.getLastD_eq_getLast?, List.getLast?_eq_some_getLast (List.cons_ne_nil a l)]
        rw [(forRange_eq_foldl o.dimension res _ colDiv (fun st => lastN st = o.dimension + 1) hlast
          (by intro i st hi hst; exact ⟨colDiv_pass st i (by omega), hst⟩)).1]
        rw [ok_bind, foldl_colDiv res (by rw [g3, prod_eq_nPts_mul res g1]) _ (by omega),
          delete_colDivN res o.dimension g1 hlast, ok_bind]
        split_ifs <;> simp only [bind_ok_eta, ok_bind]
      · simp only [hr, Bool.false_eq_true, if_false, ok_bind]
        split_ifs <;> simp only [bind_ok_eta, ok_bind]
  · have hl' : (((((params.map ensure_listlike).map List.length).eraseDups.length : ℕ) : Int) ≠ 1) := by
      intro h; apply hl; exact_mod_cast h
    simp only [List.map_map] at hl hl'
    simp [hl', hl]

end Splipy.PyO

namespace Splipy.PyO
open Splipy Splipy.Generated Splipy.C06
variable {K : Type} [Field K] [LinearOrder K]

/-! ## inserting a constant component (no generated code) -/

theorem slice_dropLast {α : Type} (l : List α) : slice l none (some (-1)) = l.dropLast := by
  unfold slice sliceLo sliceHi
  simp only [List.drop_zero]
  have h1 : ((-1 : Int) < 0) := by omega
  simp only [h1, if_true]
  rw [List.dropLast_eq_take]
  congr 1
  omega

theorem lastN_eq_ncomp (o : Obj K) (hs : o.cps.shape ≠ []) : lastN o.cps = o.ncomp := by
  unfold lastN Obj.ncomp
  cases hsh : o.cps.shape with
  | nil => exact absurd hsh hs
  | cons a l => simp [List.getLastD_eq_getLast?, List.getLast?_eq_some_getLast (List.cons_ne_nil a l)]

/-- appending the weight 1 to every control point is the model's `mapLast (nc+1) (push 1)` -/
theorem insertLast_push (t : Tensor K) (hs : t.shape ≠ []) (hnc : 1 ≤ lastN t)
    (hwf : t.data.size = Tensor.prod t.shape) :
    npInsertLast t (lastN t : Int) 1 = .ok (t.mapLast (lastN t + 1) (fun row => row.push 1)) := by
  unfold npInsertLast
  have h1 : ¬ ((lastN t : Int) < -(lastN t : Int) ∨ (lastN t : Int) < (lastN t : Int)) := by omega
  simp only [h1, if_false]
  have h2 : ¬ ((lastN t : Int) < 0) := by omega
  simp only [h2, if_false, Int.toNat_natCast]
  congr 1
  have hsize : t.size / lastN t = nPts t := by
    unfold Tensor.size
    rw [prod_eq_nPts_mul t hs, Nat.mul_div_cancel _ (by omega)]
  have hL : t.shape.getLastD 1 = lastN t := rfl
  apply tensor_mk_ext
  · rw [mapLast_shape]
  · apply Array.ext
    · rw [mapLast_data_size, hL, hsize]; simp
    · intro k h1 h2
      simp only [Array.size_ofFn] at h1
      simp only [Array.getElem_ofFn]
      have hp : k / (lastN t + 1) < nPts t := mod_div_lt h1
      have hj : k % (lastN t + 1) < lastN t + 1 := Nat.mod_lt _ (by omega)
      have hg := mapLast_get t (lastN t + 1) (fun row => row.push 1) (pI := k / (lastN t + 1)) (c := k % (lastN t + 1))
        (by rw [hL, hsize]; exact hp) hj
      rw [Nat.div_add_mod' k (lastN t + 1)] at hg
      have hR : (t.mapLast (lastN t + 1) (fun row => row.push 1)).data[k] = (t.mapLast (lastN t + 1) (fun row => row.push 1)).get k := by
        simp [Tensor.get, Array.getD, h2]
      rw [hR, hg, hL]
      have hrow : (k / (lastN t + 1)) * lastN t + lastN t ≤ t.data.size := by
        rw [hwf, prod_eq_nPts_mul t hs]
        have := Nat.mul_le_mul_right (lastN t) (Nat.succ_le_of_lt hp)
        rw [Nat.succ_mul] at this
        exact this
      have hext : (t.data.extract (k / (lastN t + 1) * lastN t) (k / (lastN t + 1) * lastN t + lastN t)).size = lastN t := by
        simp only [Array.size_extract]
        omega
      by_cases hlt : k % (lastN t + 1) < lastN t
      · rw [if_pos hlt]
        rw [Array.getD_eq_getD_getElem?, Array.getElem?_push, hext, if_neg (by omega)]
        rw [← Array.getD_eq_getD_getElem?, extract_getD _ _ _ _ (by omega)]
        rfl
      · have heq : k % (lastN t + 1) = lastN t := by omega
        rw [if_neg hlt, if_pos heq]
        rw [Array.getD_eq_getD_getElem?, Array.getElem?_push, hext, if_pos heq]
        rfl

/-! ### method: force_rational -/

theorem _root_.PyObject_force_rational_eq (o : Obj K) (tol : K) (hs : o.cps.shape ≠ []) (hnc : 1 ≤ o.ncomp)
    (hwf : o.cps.data.size = Tensor.prod o.cps.shape) :
    PyObject.force_rational (ofObj o) tol = .ok (ofObj o.forceRational) := by
  have hlen : 1 ≤ o.cps.shape.length := by
    cases h : o.cps.shape with
    | nil => exact absurd h hs
    | cons a l => simp
  have hL := lastN_eq_ncomp o hs
  unfold PyObject.force_rational Obj.forceRational
  by_cases hr : o.rational = true
  · simp [hr]
  · simp only [ofObj_rational, hr, not_false_eq_true, if_true, Bool.false_eq_true, if_false, ofObj_cps,
      ofObj_dimension, PyObject_pardim_eq o tol hlen, ok_bind]
    have hdim : o.dimension = o.ncomp := by unfold Obj.dimension; simp [hr]
    unfold npInsertComp
    have hax : ((o.pardim : Int) + 1 = (o.cps.shape.length : Int)) ∧
        slice (npShape o.cps) none (some (-1)) = o.cps.shape.dropLast.map (fun (n : ℕ) => (n : Int)) := by
      refine ⟨by unfold Obj.pardim; omega, ?_⟩
      rw [slice_dropLast, npShape, List.map_dropLast]
    rw [if_pos hax, hdim, ← hL, insertLast_push o.cps hs (by omega) hwf, ok_bind]
    simp only [pure_eq_ok, ok_bind]
    congr 1
    unfold ofObj
    simp only [PyObj.mk.injEq, true_and, and_true]
    unfold Obj.dimension Obj.ncomp
    simp only [mapLast_shape, if_true, List.getLastD_concat, Nat.add_sub_cancel]

end Splipy.PyO

namespace Splipy.PyO
open Splipy Splipy.Generated Splipy.C06
variable {K : Type} [Field K] [LinearOrder K]

/-! ## `set_dimension`: closed form of the intermediate arrays (no generated code) -/

/-- the control points after `set_dimension(newDim)`: `w` = number of weight components (0 or 1) -/
def setDimT (t : Tensor K) (dim w newDim : ℕ) : Tensor K :=
  { shape := t.shape.dropLast ++ [newDim + w],
    data := Array.ofFn (n := nPts t * (newDim + w)) (fun k =>
      let p := k.val / (newDim + w)
      let c := k.val % (newDim + w)
      if c < newDim then (if c < dim then t.get (p * (dim + w) + c) else 0) else t.get (p * (dim + w) + dim)) }

theorem setDimT_lastN (t : Tensor K) (dim w newDim : ℕ) : lastN (setDimT t dim w newDim) = newDim + w := by
  simp [lastN, setDimT]

theorem setDimT_nPts (t : Tensor K) (dim w newDim : ℕ) : nPts (setDimT t dim w newDim) = nPts t := by
  simp [nPts, setDimT]

theorem setDimT_get (t : Tensor K) (dim w newDim : ℕ) {k : ℕ} (hk : k < nPts t * (newDim + w)) :
    (setDimT t dim w newDim).get k
      = if k % (newDim + w) < newDim then
          (if k % (newDim + w) < dim then t.get (k / (newDim + w) * (dim + w) + k % (newDim + w)) else 0)
        else t.get (k / (newDim + w) * (dim + w) + dim) :=
  get_ofFn _ _ hk

theorem setDimT_self (t : Tensor K) (dim w : ℕ) (hw1 : w ≤ 1) (hs : t.shape ≠ []) (hl : lastN t = dim + w)
    (hwf : t.data.size = Tensor.prod t.shape) : setDimT t dim w dim = t := by
  apply tensor_mk_ext
  · show t.shape.dropLast ++ [dim + w] = t.shape
    rw [← hl]
    conv_rhs => rw [← List.dropLast_append_getLast hs]
    congr 2
    unfold lastN
    rw [List.getLastD_eq_getLast?, List.getLast?_eq_some_getLast hs]; rfl
  · apply Array.ext
    · simp [setDimT, hwf, prod_eq_nPts_mul t hs, hl]
    · intro k h1 h2
      simp only [setDimT, Array.size_ofFn] at h1
      simp only [setDimT, Array.getElem_ofFn]
      have hdm := Nat.div_add_mod' k (dim + w)
      by_cases hc : k % (dim + w) < dim
      · simp only [hc, if_true, hdm]
        simp [Tensor.get, Array.getD, h2]
      · have hw : 0 < dim + w := by
          rcases Nat.eq_zero_or_pos (dim + w) with h | h
          · rw [h] at h1; simp at h1
          · exact h
        have := Nat.mod_lt k hw
        have heq : k % (dim + w) = dim := by omega
        simp only [hc, if_false]
        have e : k / (dim + w) * (dim + w) + dim = k := by omega
        rw [e]
        simp [Tensor.get, Array.getD, h2]

theorem div_mod_flat {p nc j : ℕ} (hj : j < nc) : (p * nc + j) / nc = p ∧ (p * nc + j) % nc = j := by
  constructor
  · rw [Nat.add_comm, Nat.add_mul_div_right _ _ (by omega), Nat.div_eq_of_lt hj, Nat.zero_add]
  · rw [Nat.add_comm, Nat.add_mul_mod_self_right, Nat.mod_eq_of_lt hj]

theorem row_lt {k P n : ℕ} (hk : k < P * n) (m j : ℕ) (hj : j < m) : k / n * m + j < P * m := by
  have hp : k / n < P := mod_div_lt hk
  have := Nat.mul_le_mul_right m (Nat.succ_le_of_lt hp)
  rw [Nat.succ_mul] at this
  omega

/-- `np.insert(cps, dim, zeros, pardim)` on the intermediate array -/
theorem setDimT_insert (t : Tensor K) (dim w newDim : ℕ) (hw1 : w ≤ 1) (hge : dim ≤ newDim) :
    npInsertLast (setDimT t dim w newDim) (newDim : Int) 0 = .ok (setDimT t dim w (newDim + 1)) := by
  unfold npInsertLast
  rw [setDimT_lastN, setDimT_nPts]
  have h1 : ¬ ((newDim : Int) < -((newDim + w : ℕ) : Int) ∨ ((newDim + w : ℕ) : Int) < (newDim : Int)) := by omega
  have h2 : ¬ ((newDim : Int) < 0) := by omega
  simp only [h1, if_false, h2, Int.toNat_natCast]
  congr 1
  apply tensor_mk_ext
  · show (t.shape.dropLast ++ [newDim + w]).dropLast ++ [newDim + w + 1] = t.shape.dropLast ++ [newDim + 1 + w]
    rw [List.dropLast_concat]; congr 2; omega
  · apply Array.ext
    · simp only [setDimT, Array.size_ofFn]; congr 1; omega
    · intro k h1 h2
      simp only [Array.size_ofFn] at h1
      simp only [Array.getElem_ofFn]
      have hnc : 0 < newDim + w + 1 := by omega
      have hj := Nat.mod_lt k hnc
      have e1 : newDim + 1 + w = newDim + w + 1 := by omega
      have hk2 : k < nPts t * (newDim + 1 + w) := by rw [e1]; exact h1
      have hR : (setDimT t dim w (newDim + 1)).data[k]'h2 = (setDimT t dim w (newDim + 1)).get k := by
        simp [Tensor.get, Array.getD, h2]
      rw [hR, setDimT_get t dim w (newDim + 1) hk2, e1]
      by_cases hlt : k % (newDim + w + 1) < newDim
      · rw [if_pos hlt, if_pos (by omega)]
        have hrow := row_lt h1 (newDim + w) (k % (newDim + w + 1)) (by omega)
        obtain ⟨d1, d2⟩ := div_mod_flat (p := k / (newDim + w + 1)) (nc := newDim + w) (j := k % (newDim + w + 1)) (by omega)
        rw [setDimT_get t dim w newDim hrow, d1, d2, if_pos hlt]
      · rw [if_neg hlt]
        by_cases heq : k % (newDim + w + 1) = newDim
        · rw [if_pos heq, if_pos (by omega), if_neg (by omega)]
        · rw [if_neg heq, if_neg (by omega)]
          have hrow := row_lt h1 (newDim + w) (k % (newDim + w + 1) - 1) (by omega)
          obtain ⟨d1, d2⟩ := div_mod_flat (p := k / (newDim + w + 1)) (nc := newDim + w) (j := k % (newDim + w + 1) - 1) (by omega)
          rw [setDimT_get t dim w newDim hrow, d1, d2, if_neg (by omega)]

/-- `np.delete(cps, -2 if rational else -1, -1)` on the intermediate array -/
theorem setDimT_delete (t : Tensor K) (dim w newDim : ℕ) (hw1 : w ≤ 1) (h1 : 1 ≤ newDim) (hle : newDim ≤ dim) :
    npDeleteLast (setDimT t dim w newDim) (if w = 1 then (-2 : Int) else -1) = .ok (setDimT t dim w (newDim - 1)) := by
  unfold npDeleteLast
  rw [setDimT_lastN, setDimT_nPts]
  have hn : normIdx (newDim + w) (if w = 1 then (-2 : Int) else -1) = some (newDim - 1) := by
    unfold normIdx
    split_ifs with hw <;> first | omega | (congr 1; omega)
  simp only [hn]
  congr 1
  apply tensor_mk_ext
  · show (t.shape.dropLast ++ [newDim + w]).dropLast ++ [newDim + w - 1] = t.shape.dropLast ++ [newDim - 1 + w]
    rw [List.dropLast_concat]; congr 2; omega
  · apply Array.ext
    · simp only [setDimT, Array.size_ofFn]; congr 1; omega
    · intro k h1' h2
      simp only [Array.size_ofFn] at h1'
      simp only [Array.getElem_ofFn]
      have e1 : newDim - 1 + w = newDim + w - 1 := by omega
      have hnc : 0 < newDim + w - 1 := by
        rcases Nat.eq_zero_or_pos (newDim + w - 1) with h | h
        · rw [h] at h1'; simp at h1'
        · exact h
      have hj := Nat.mod_lt k hnc
      have hk2 : k < nPts t * (newDim - 1 + w) := by rw [e1]; exact h1'
      have hR : (setDimT t dim w (newDim - 1)).data[k]'h2 = (setDimT t dim w (newDim - 1)).get k := by
        simp [Tensor.get, Array.getD, h2]
      rw [hR, setDimT_get t dim w (newDim - 1) hk2, e1]
      by_cases hlt : k % (newDim + w - 1) < newDim - 1
      · rw [if_pos hlt, if_pos hlt, if_pos (by omega)]
        have hrow := row_lt h1' (newDim + w) (k % (newDim + w - 1)) (by omega)
        obtain ⟨d1, d2⟩ := div_mod_flat (p := k / (newDim + w - 1)) (nc := newDim + w) (j := k % (newDim + w - 1)) (by omega)
        rw [setDimT_get t dim w newDim hrow, d1, d2, if_pos (by omega), if_pos (by omega)]
      · rw [if_neg hlt, if_neg hlt]
        have hrow := row_lt h1' (newDim + w) (k % (newDim + w - 1) + 1) (by omega)
        obtain ⟨d1, d2⟩ := div_mod_flat (p := k / (newDim + w - 1)) (nc := newDim + w) (j := k % (newDim + w - 1) + 1) (by omega)
        rw [setDimT_get t dim w newDim hrow, d1, d2, if_neg (by omega)]

/-- the model's `setDimension` builds the closed form -/
theorem setDimension_cps (o : Obj K) (newDim : ℕ) (hs : o.cps.shape ≠ []) (hnc : 1 ≤ o.ncomp)
    (hwf : o.cps.data.size = Tensor.prod o.cps.shape) :
    (o.setDimension newDim).cps = setDimT o.cps o.dimension (o.ncomp - o.dimension) newDim := by
  have hL := lastN_eq_ncomp o hs
  have hL' : o.cps.shape.getLastD 1 = o.ncomp := hL
  have hdn : o.dimension ≤ o.ncomp := by unfold Obj.dimension; omega
  set dim := o.dimension with hdim
  set w := o.ncomp - dim with hw
  have hncw : o.ncomp = dim + w := by omega
  have hsize : o.cps.size / o.ncomp = nPts o.cps := by
    unfold Tensor.size
    rw [prod_eq_nPts_mul _ hs, hL, Nat.mul_div_cancel _ (by omega)]
  unfold Obj.setDimension
  simp only [← hdim, ← hw]
  apply tensor_mk_ext
  · rw [mapLast_shape]; rfl
  · apply Array.ext
    · rw [mapLast_data_size, hL', hsize]; simp [setDimT]
    · intro k h1 h2
      simp only [setDimT, Array.size_ofFn] at h2
      have hnn : 0 < newDim + w := by
        rcases Nat.eq_zero_or_pos (newDim + w) with h | h
        · rw [h] at h2; simp at h2
        · exact h
      have hp : k / (newDim + w) < nPts o.cps := mod_div_lt h2
      have hj := Nat.mod_lt k hnn
      have hg := mapLast_get o.cps (newDim + w) (fun row =>
          Array.ofFn (n := newDim + w) (fun c =>
            if c.val < newDim then (if c.val < dim then row.getD c.val 0 else 0) else row.getD dim 0))
        (pI := k / (newDim + w)) (c := k % (newDim + w)) (by rw [hL', hsize]; exact hp) hj
      rw [Nat.div_add_mod' k (newDim + w)] at hg
      have hLeft : ∀ (T : Tensor K) (h : k < T.data.size), T.data[k] = T.get k := by
        intro T h; simp [Tensor.get, Array.getD, h]
      rw [hLeft _ h1, hg, hL', C06.getD_ofFn _ _ hj]
      simp only [setDimT, Array.getElem_ofFn]
      have hrow : k / (newDim + w) * o.ncomp + o.ncomp ≤ o.cps.data.size := by
        rw [hwf, prod_eq_nPts_mul _ hs, hL]
        have := Nat.mul_le_mul_right o.ncomp (Nat.succ_le_of_lt hp)
        rw [Nat.succ_mul] at this
        exact this
      by_cases hlt : k % (newDim + w) < newDim
      · rw [if_pos hlt, if_pos hlt]
        by_cases hld : k % (newDim + w) < dim
        · rw [if_pos hld, if_pos hld, extract_getD _ _ _ _ (by omega), hncw]; rfl
        · rw [if_neg hld, if_neg hld]
      · rw [if_neg hlt, if_neg hlt]
        by_cases hw0 : w = 0
        · omega
        · rw [extract_getD _ _ _ _ (by omega), hncw]; rfl

/-- `while` loops that count: the state after `n` passes. -/
theorem whileFuel_iter {σ : Type} (n : ℕ) (c : σ → Bool) (body : σ → PyM σ) (S : ℕ → σ)
    (hc : ∀ j, j < n → c (S j) = true) (hcn : c (S n) = false) (hb : ∀ j, j < n → body (S j) = .ok (S (j + 1))) :
    whileFuel n (S 0) c body = .ok (S n) := by
  induction n generalizing S with
  | zero => simp [whileFuel, hcn]
  | succ n ih =>
    unfold whileFuel
    rw [if_pos (hc 0 (by omega)), hb 0 (by omega), ok_bind]
    exact ih (fun j => S (j + 1)) (fun j hj => hc (j + 1) (by omega)) hcn (fun j hj => hb (j + 1) (by omega))

end Splipy.PyO

namespace Splipy.PyO
open Splipy Splipy.Generated Splipy.C06
variable {K : Type} [Field K] [LinearOrder K]

/-! ### method: set_dimension -/

theorem _root_.PyObject_set_dimension_eq (o : Obj K) (tol : K) (n : ℕ) (hs : o.cps.shape ≠ []) (hnc : 1 ≤ o.ncomp)
    (hwf : o.cps.data.size = Tensor.prod o.cps.shape) :
    PyObject.set_dimension (ofObj o) tol (n : Int) = .ok (ofObj (o.setDimension n)) := by
  have hL := lastN_eq_ncomp o hs
  have hdn : o.dimension ≤ o.ncomp := by unfold Obj.dimension; omega
  set dim := o.dimension with hdim
  set w := o.ncomp - dim with hw
  have hw1 : w ≤ 1 := by rw [hw, hdim]; unfold Obj.dimension; split_ifs <;> omega
  have hwr : (w = 1) ↔ o.rational = true := by
    rw [hw, hdim]; unfold Obj.dimension; split_ifs with h <;> simp [h] <;> omega
  have hncw : o.ncomp = dim + w := by omega
  have hlen : 1 ≤ o.cps.shape.length := by
    cases h : o.cps.shape with
    | nil => exact absurd h hs
    | cons a l => simp
  unfold PyObject.set_dimension
  simp only [ofObj_dimension, ofObj_cps, ← hdim]
  -- the two loops
  set n1 := n - dim with hn1
  set n2 := dim - n with hn2
  have hT0 : setDimT o.cps dim w dim = o.cps := setDimT_self o.cps dim w hw1 hs (by rw [hL, hncw]) hwf
  let S1 : ℕ → PyObj K × Int := fun j =>
    ({ ofObj o with controlpoints := setDimT o.cps dim w (dim + j) }, ((dim + j : ℕ) : Int))
  have hS10 : (ofObj o, (dim : Int)) = S1 0 := by
    show _ = (({ ofObj o with controlpoints := setDimT o.cps dim w (dim + 0) } : PyObj K), ((dim + 0 : ℕ) : Int))
    rw [Nat.add_zero, hT0]
    rfl
  have hvshape : ∀ m, (slice (npShape o.cps) none (some (-1)) : List Int)
      = ((setDimT o.cps dim w m).shape.dropLast.map (fun (x : ℕ) => (x : Int))) := by
    intro m
    rw [slice_dropLast, npShape, ← List.map_dropLast]
    congr 1
    show _ = (o.cps.shape.dropLast ++ [m + w]).dropLast
    rw [List.dropLast_concat]
  have hTlen : ∀ m, (setDimT o.cps dim w m).shape.length = o.cps.shape.length := by
    intro m
    show (o.cps.shape.dropLast ++ [m + w]).length = _
    simp; omega
  have e1 : ((n : Int) - (dim : Int)).toNat = n1 := by omega
  rw [e1, hS10]
  rw [whileFuel_iter n1 _ _ S1 (by intro j hj; simp only [S1]; rw [decide_eq_true_eq]; omega)
    (by simp only [S1]; rw [decide_eq_false_iff_not]; omega)
    (by
      intro j hj
      simp only [S1]
      rw [pardim_mk _ _ _ _ _ (by rw [hTlen]; exact hlen), ok_bind]
      unfold npInsertComp
      rw [if_pos ⟨by rw [hTlen]; omega, hvshape _⟩, setDimT_insert _ _ _ _ hw1 (by omega), ok_bind]
      simp only [pure_eq_ok]
      congr 2)]
  simp only [ok_bind, S1]
  let S2 : ℕ → PyObj K × Int := fun j =>
    ({ ofObj o with controlpoints := setDimT o.cps dim w (dim + n1 - j) }, ((dim + n1 - j : ℕ) : Int))
  have e2 : (((dim + n1 : ℕ) : Int) - (n : Int)).toNat = n2 := by omega
  rw [e2]
  show (do
    let st4 ← whileFuel n2 (S2 0) _ _
    _) = _
  rw [whileFuel_iter n2 _ _ S2 (by intro j hj; simp only [S2]; rw [decide_eq_true_eq]; omega)
    (by simp only [S2]; rw [decide_eq_false_iff_not]; omega)
    (by
      intro j hj
      simp only [S2, ofObj_rational]
      have hdel := setDimT_delete o.cps dim w (dim + n1 - j) hw1 (by omega) (by omega)
      rw [Nat.sub_sub] at hdel
      have hsnd : (((dim + n1 - j : ℕ) : Int) - 1) = ((dim + n1 - (j + 1) : ℕ) : Int) := by omega
      by_cases hr : o.rational = true
      · rw [if_pos (hwr.mpr hr)] at hdel
        simp only [hr, if_true]
        rw [hdel, ok_bind]
        simp only [pure_eq_ok, hsnd]
      · rw [if_neg (fun h => hr (hwr.mp h))] at hdel
        simp only [hr, Bool.false_eq_true, if_false]
        rw [hdel, ok_bind]
        simp only [pure_eq_ok, hsnd])]
  simp only [ok_bind, S2, pure_eq_ok]
  congr 1
  have hfin : dim + n1 - n2 = n := by omega
  rw [hfin]
  unfold ofObj
  simp only [PyObj.mk.injEq]
  refine ⟨rfl, ?_, ?_, rfl⟩
  · rw [setDimension_cps o n hs hnc hwf]
  · have := setDimension_cps o n hs hnc hwf
    unfold Obj.dimension Obj.ncomp
    rw [this]
    show (n : Int) = (((o.cps.shape.dropLast ++ [n + w]).getLastD 0 - (if (o.setDimension n).rational = true then 1 else 0) : ℕ) : Int)
    rw [List.getLastD_concat]
    have hr : (o.setDimension n).rational = o.rational := rfl
    rw [hr]
    by_cases hrr : o.rational = true
    · rw [if_pos hrr, hwr.mpr hrr]; simp
    · rw [if_neg hrr]
      have : w = 0 := by
        have := hwr.not.mpr hrr
        omega
      rw [this]; simp

end Splipy.PyO

namespace Splipy.PyO
open Splipy Splipy.Generated Splipy.C06
variable {K : Type} [Field K] [LinearOrder K]

/-! ## matrices: `np.identity` with a rewritten diagonal, `reshape`, `@` (no generated code) -/

/-- `np.identity(nc)` after `M[i, i] = s[i]` for `i < m` -/
def diagM (nc : ℕ) (s : List K) (m : ℕ) : Mat K :=
  Array.ofFn (n := nc) (fun i => Array.ofFn (n := nc) (fun j =>
    if i.val = j.val then (if i.val < m then s.getD i.val 1 else 1) else 0))

theorem diagM_zero (nc : ℕ) (s : List K) : diagM nc s 0 = Mat.identity nc := by
  unfold diagM Mat.identity
  simp

theorem diagM_step (nc : ℕ) (s : List K) (m : ℕ) (hm : m < nc) :
    setItem2 (diagM nc s m) (m : Int) (m : Int) (s.getD m 1) = .ok (diagM nc s (m + 1)) := by
  unfold setItem2
  have h1 : (diagM nc s m).size = nc := by simp [diagM]
  rw [h1, normIdx_nat hm]
  simp only []
  have h2 : ((diagM nc s m).getD m #[]).size = nc := by simp [diagM, Array.getD, hm]
  rw [h2, normIdx_nat hm]
  simp only []
  congr 1
  apply Array.ext
  · simp [diagM]
  · intro i hi1 hi2
    simp only [diagM, Array.size_ofFn] at hi2
    rw [Array.getElem_modify]
    by_cases him : m = i
    · subst him
      simp only [if_true]
      apply Array.ext
      · simp [diagM]
      · intro j hj1 hj2
        have hj : j < nc := by simpa [diagM] using hj2
        by_cases hmj : m = j
        · subst hmj; simp [diagM]
        · simp [diagM, Array.getElem_setIfInBounds, hmj, hj]
    · simp only [him, if_false]
      apply Array.ext
      · simp [diagM]
      · intro j hj1 hj2
        simp only [diagM, Array.getElem_ofFn]
        by_cases hij : i = j
        · simp only [hij, if_true]
          have : (j < m + 1) ↔ (j < m) := by omega
          simp only [this]
        · simp [hij]

theorem npReshape2_ok (t : Tensor K) (n m : ℕ) (h : n * m = t.data.size) :
    npReshape2 t (n : Int) (m : Int) = .ok (matOfTensor t n m) := by
  unfold npReshape2
  have h1 : ¬ ((n : Int) < 0 ∨ (m : Int) < 0) := by omega
  simp only [h1, if_false, Int.toNat_natCast, h, if_true]

theorem matOfTensor_get (t : Tensor K) (n m i j : ℕ) (hi : i < n) (hj : j < m) :
    Mat.get (matOfTensor t n m) i j = t.get (i * m + j) := by
  unfold Mat.get matOfTensor
  simp [Array.getD, hi, hj]

theorem diagM_get (nc : ℕ) (s : List K) (m i j : ℕ) (hi : i < nc) (hj : j < nc) :
    Mat.get (diagM nc s m) i j = if i = j then (if i < m then s.getD i 1 else 1) else 0 := by
  unfold Mat.get diagM
  simp [Array.getD, hi, hj]

end Splipy.PyO

namespace Splipy.PyO
open Splipy Splipy.Generated Splipy.C06
variable {K : Type} [Field K] [LinearOrder K]

/-! ## matrices, continued: flattening, the product with a diagonal matrix (no generated code) -/

theorem foldl_range_single (n i : ℕ) (f : ℕ → K) (hi : i < n) (h : ∀ l, l < n → l ≠ i → f l = 0) :
    (List.range n).foldl (fun acc l => acc + f l) 0 = f i := by
  rw [foldl_range_add_sum]
  exact Finset.sum_eq_single i (fun l hl hne => h l (Finset.mem_range.mp hl) hne)
    (fun hni => absurd (Finset.mem_range.mpr hi) hni)

theorem flatten_size (rows : Mat K) (nc : ℕ) (h : ∀ r ∈ rows.toList, r.size = nc) :
    (rows.foldl (· ++ ·) #[]).size = rows.size * nc := by
  rw [← Array.foldl_toList, foldl_append_size _ _ nc h]
  simp

theorem flatten_getD (rows : Mat K) (nc : ℕ) (h : ∀ r ∈ rows.toList, r.size = nc) {p i : ℕ} (hp : p < rows.size)
    (hi : i < nc) : (rows.foldl (· ++ ·) #[]).getD (p * nc + i) 0 = (rows.getD p #[]).getD i 0 := by
  rw [← Array.foldl_toList]
  have := foldl_append_getD rows.toList #[] nc 0 h (by simp) (i := p) (c := i) (by simpa using hp) hi 0
  rw [Nat.zero_add] at this
  rw [this]
  simp [Array.getD, List.getD_eq_getElem?_getD, hp]

theorem mul_rows (A B : Mat K) : (Mat.mul A B).size = A.size := by simp [Mat.mul, Mat.nrows]

theorem mul_row_size (A B : Mat K) : ∀ r ∈ (Mat.mul A B).toList, r.size = B.ncols := by
  intro r hr
  rw [Array.mem_toList_iff] at hr
  obtain ⟨i, hi, rfl⟩ := Array.getElem_of_mem hr
  simp [Mat.mul]

theorem mul_get (A B : Mat K) {i j : ℕ} (hi : i < A.size) (hj : j < B.ncols) :
    ((Mat.mul A B).getD i #[]).getD j 0
      = (List.range B.nrows).foldl (fun acc l => acc + A.get i l * B.get l j) 0 := by
  simp [Mat.mul, Mat.nrows, Array.getD, hi, hj]

theorem diagM_ncols (nc : ℕ) (s : List K) (m : ℕ) (h : 0 < nc) : (diagM nc s m).ncols = nc := by
  simp [Mat.ncols, diagM, Array.getD, h]

theorem diagM_nrows (nc : ℕ) (s : List K) (m : ℕ) : (diagM nc s m).nrows = nc := by
  simp [Mat.nrows, diagM]

theorem npShape_nonneg (t : Tensor K) : (npShape t).any (· < 0) = false := by
  simp [npShape]

theorem npShape_toNat (t : Tensor K) : (npShape t).map Int.toNat = t.shape := by
  unfold npShape
  rw [List.map_map]
  conv_rhs => rw [← List.map_id t.shape]
  apply List.map_congr_left
  intro a _
  simp

/-- `np.reshape(cp @ scale_matrix, shape)` is the model's `affineCp` with the diagonal matrix -/
theorem scale_cps (o : Obj K) (s : List K) (hs : o.cps.shape ≠ []) (hnc : 1 ≤ o.ncomp)
    (hwf : o.cps.data.size = Tensor.prod o.cps.shape) :
    npReshapeMat (npMatmul (matOfTensor o.cps (nPts o.cps) o.ncomp) (diagM o.ncomp s o.dimension)) (npShape o.cps)
      = .ok (o.affineCp (fun j i => if i = j then s.getD i 1 else 0) (fun _ => 0)).cps := by
  have hL := lastN_eq_ncomp o hs
  have hL' : o.cps.shape.getLastD 1 = o.ncomp := hL
  have hdn : o.dimension ≤ o.ncomp := by unfold Obj.dimension; omega
  set nc := o.ncomp with hncd
  set P := nPts o.cps with hP
  have hsize : o.cps.size / nc = P := by
    unfold Tensor.size
    rw [prod_eq_nPts_mul _ hs, hL, Nat.mul_div_cancel _ (by omega)]
  have hprod : Tensor.prod o.cps.shape = P * nc := by rw [prod_eq_nPts_mul _ hs, hL]
  set A := matOfTensor o.cps P nc with hA
  set D := diagM nc s o.dimension with hD
  have hrows : ∀ r ∈ (Mat.mul A D).toList, r.size = nc := by
    intro r hr
    rw [mul_row_size A D r hr, diagM_ncols _ _ _ (by omega)]
  have hAs : A.size = P := by simp [hA, matOfTensor]
  have hfl : (tensorOfMat (Mat.mul A D) []).data.size = P * nc := by
    show ((Mat.mul A D).foldl (· ++ ·) #[]).size = _
    rw [flatten_size _ nc hrows, mul_rows, hAs]
  unfold npReshapeMat npReshape npMatmul
  rw [npShape_nonneg, npShape_toNat]
  simp only [Bool.false_eq_true, if_false, hfl, hprod, if_true]
  congr 1
  unfold Obj.affineCp
  simp only [← hncd]
  apply tensor_mk_ext
  · rw [mapLast_shape]
    show o.cps.shape = o.cps.shape.dropLast ++ [nc]
    conv_lhs => rw [← List.dropLast_append_getLast hs]
    congr 2
    rw [← hL]; unfold lastN
    rw [List.getLastD_eq_getLast?, List.getLast?_eq_some_getLast hs]; rfl
  · apply Array.ext
    · rw [mapLast_data_size, hL', hsize]
      exact hfl
    · intro k h1 h2
      have hk : k < P * nc := by rw [← hfl]; exact h1
      have hp : k / nc < P := mod_div_lt hk
      have hi : k % nc < nc := Nat.mod_lt _ (by omega)
      have hLeft : ∀ (a : Array K) (h : k < a.size), a[k] = a.getD k 0 := by
        intro a h; simp [Array.getD, h]
      rw [hLeft _ h1, hLeft _ h2]
      show ((Mat.mul A D).foldl (· ++ ·) #[]).getD k 0 = _
      conv_lhs => rw [← Nat.div_add_mod' k nc]
      rw [flatten_getD _ nc hrows (by rw [mul_rows, hAs]; exact hp) hi,
        mul_get A D (by rw [hAs]; exact hp) (by rw [diagM_ncols _ _ _ (by omega)]; exact hi), diagM_nrows]
      have hg := mapLast_get o.cps nc (fun row =>
          let w : K := if o.rational then row.getD o.dimension 0 else 1
          Array.ofFn (n := nc) (fun i =>
            if i.val < o.dimension then
              (List.range o.dimension).foldl (fun acc j => acc + row.getD j 0 * (if i.val = j then s.getD i.val 1 else 0)) 0
                + 0 * w
            else row.getD i.val 0))
        (pI := k / nc) (c := k % nc) (by rw [hL', hsize]; exact hp) hi
      rw [Nat.div_add_mod' k nc] at hg
      show _ = (Tensor.get _ k)
      rw [hg, hL']
      simp only []
      rw [C06.getD_ofFn _ _ hi]
      simp only []
      have hrow : k / nc * nc + nc ≤ o.cps.data.size := by
        rw [hwf, hprod]
        have := Nat.mul_le_mul_right nc (Nat.succ_le_of_lt hp)
        rw [Nat.succ_mul] at this
        exact this
      rw [foldl_range_single nc (k % nc) _ hi (by
        intro l hl hne
        rw [diagM_get _ _ _ _ _ hl hi, if_neg hne, mul_zero])]
      rw [matOfTensor_get _ _ _ _ _ hp hi, diagM_get _ _ _ _ _ hi hi, if_pos rfl]
      by_cases hlt : k % nc < o.dimension
      · rw [if_pos hlt, if_pos hlt]
        rw [foldl_range_single o.dimension (k % nc) _ hlt (by
          intro l hl hne
          rw [if_neg (fun h => hne h.symm), mul_zero])]
        rw [if_pos rfl, extract_getD _ _ _ _ (by omega), zero_mul, add_zero]
        rfl
      · rw [if_neg hlt, if_neg hlt, mul_one, extract_getD _ _ _ _ (by omega)]
        rfl

end Splipy.PyO

namespace Splipy.PyO
open Splipy Splipy.Generated Splipy.C06
variable {K : Type} [Field K] [LinearOrder K]

/-! ## counting loops with an explicit sequence of states (no generated code) -/

theorem foldlM_range_iter {σ : Type} (n : ℕ) (f : σ → ℕ → PyM σ) (S : ℕ → σ)
    (h : ∀ i, i < n → f (S i) i = .ok (S (i + 1))) : (List.range n).foldlM f (S 0) = .ok (S n) := by
  induction n with
  | zero => rfl
  | succ n ih =>
    rw [List.range_succ, List.foldlM_append, ih (fun i hi => h i (by omega))]
    simp [h n (by omega)]

theorem forRange_iter {σ : Type} (n : ℕ) (f : Int → σ → PyM σ) (S : ℕ → σ)
    (h : ∀ i, i < n → f (i : Int) (S i) = .ok (S (i + 1))) : forRange 0 (n : Int) (S 0) f = .ok (S n) := by
  unfold forRange
  rw [rangeI_zero, List.foldlM_map]
  exact foldlM_range_iter n (fun s (i : ℕ) => f i s) S h

theorem forRange_fail {σ : Type} (n m : ℕ) (f : Int → σ → PyM σ) (S : ℕ → σ) (e : PyErr) (hm : m < n)
    (h : ∀ i, i < m → f (i : Int) (S i) = .ok (S (i + 1))) (hf : f (m : Int) (S m) = .error e) :
    forRange 0 (n : Int) (S 0) f = .error e := by
  unfold forRange
  rw [rangeI_zero, List.foldlM_map]
  have hsplit : List.range n = List.range m ++ (m :: (List.range' (m + 1) (n - m - 1))) := by
    rw [List.range_eq_range', List.range_eq_range']
    have : n = m + (1 + (n - m - 1)) := by omega
    conv_lhs => rw [this]
    rw [← List.range'_append_1]
    simp only [Nat.zero_add, List.append_cancel_left_eq]
    rw [Nat.add_comm 1, List.range'_succ]
  rw [hsplit, List.foldlM_append, foldlM_range_iter m (fun s (i : ℕ) => f i s) S h]
  simp [hf]

/-! ### method: scale -/

theorem ensure_listlike_dups3 (xs : List K) (h : xs ≠ []) :
    ensure_listlike_dups xs 3 = xs ++ List.replicate (3 - xs.length) (xs.getLastD 1) := by
  unfold ensure_listlike_dups
  rw [List.getLast?_eq_some_getLast h]
  simp only [List.getLastD_eq_getLast?, List.getLast?_eq_some_getLast h, Option.getD_some]
  rfl

theorem ncomp_eq (o : Obj K) (hnc : 1 ≤ o.ncomp) : ((o.dimension : ℕ) : Int) + b2i o.rational = (o.ncomp : ℕ) := by
  unfold Obj.dimension b2i
  split_ifs <;> omega

theorem _root_.PyObject_scale_eq (o : Obj K) (tol : K) (args : List K) (hs : o.cps.shape ≠ [])
    (hdim : 1 ≤ o.dimension) (hwf : o.cps.data.size = Tensor.prod o.cps.shape) (hlen : o.len = nPts o.cps) :
    PyObject.scale (ofObj o) tol args = (o.scale args).map ofObj := by
  have hnc : 1 ≤ o.ncomp := by unfold Obj.dimension at hdim; omega
  have hdn : o.dimension ≤ o.ncomp := by unfold Obj.dimension; omega
  have hL := lastN_eq_ncomp o hs
  unfold PyObject.scale Obj.scale
  simp only [PyObject_len_eq, ok_bind, ofObj_dimension, ofObj_rational, ofObj_cps]
  cases hargs : args with
  | nil =>
    simp only [ensure_flatlist, error_bind, List.isEmpty_nil, if_true, List.length_nil]
    rw [if_pos (by omega)]
    rfl
  | cons a rest =>
    have hne : (a :: rest) ≠ [] := List.cons_ne_nil _ _
    simp only [ensure_flatlist, ok_bind, List.isEmpty_cons, Bool.false_eq_true, if_false]
    rw [ensure_listlike_dups3 _ hne, ncomp_eq o hnc]
    set s' := (a :: rest) ++ List.replicate (3 - (a :: rest).length) ((a :: rest).getLastD 1) with hs'
    have hid : npIdentity (K := K) ((o.ncomp : ℕ) : Int) = .ok (diagM o.ncomp s' 0) := by
      unfold npIdentity
      have : ¬ (((o.ncomp : ℕ) : Int) < 0) := by omega
      simp [this, diagM_zero]
    rw [hid, ok_bind]
    by_cases hshort : s'.length < o.dimension
    · rw [if_pos hshort]
      rw [forRange_fail o.dimension s'.length _ (fun m => diagM o.ncomp s' m) .index hshort
        (by
          intro i hi
          rw [getItem_nat _ hi, ok_bind]
          have := diagM_step o.ncomp s' i (by omega)
          rw [show s'.getD i 1 = s'[i] by simp [List.getD_eq_getElem?_getD, hi]] at this
          exact this)
        (by
          simp only [getItem, normIdx_nat_ge (le_refl _)]
          rfl)]
      rfl
    · rw [if_neg hshort]
      rw [forRange_iter o.dimension _ (fun m => diagM o.ncomp s' m)
        (by
          intro i hi
          have hi' : i < s'.length := by omega
          rw [getItem_nat _ hi', ok_bind]
          have := diagM_step o.ncomp s' i (by omega)
          rw [show s'.getD i 1 = s'[i] by simp [List.getD_eq_getElem?_getD, hi']] at this
          exact this), ok_bind]
      rw [npReshape2_ok _ _ _ (by rw [hlen, hwf, prod_eq_nPts_mul _ hs, hL]), ok_bind, hlen, scale_cps o s' hs hnc hwf,
        ok_bind]
      simp only [pure_eq_ok, map_ok]
      congr 1
      unfold ofObj
      simp only [PyObj.mk.injEq, true_and, and_true, Nat.cast_inj]
      unfold Obj.affineCp Obj.dimension Obj.ncomp
      simp only [mapLast_shape, List.getLastD_concat]
      trivial

end Splipy.PyO

namespace Splipy.PyO
open Splipy Splipy.Generated Splipy.C06
variable {K : Type} [Field K] [LinearOrder K]

/-! ## matrices for `translate` (no generated code) -/

/-- `np.identity(d+1)` after `T[i, -1] = x[i]` for `i < m` -/
def transM (d : ℕ) (x : List K) (m : ℕ) : Mat K :=
  Array.ofFn (n := d + 1) (fun i => Array.ofFn (n := d + 1) (fun j =>
    if i.val = j.val then 1 else if j.val = d ∧ i.val < m then x.getD i.val 0 else 0))

theorem transM_zero (d : ℕ) (x : List K) : transM d x 0 = Mat.identity (d + 1) := by
  unfold transM Mat.identity
  simp

theorem transM_get (d : ℕ) (x : List K) (m i j : ℕ) (hi : i < d + 1) (hj : j < d + 1) :
    Mat.get (transM d x m) i j = if i = j then 1 else if j = d ∧ i < m then x.getD i 0 else 0 := by
  unfold Mat.get transM
  simp [Array.getD, hi, hj]

theorem transM_step (d : ℕ) (x : List K) (m : ℕ) (hm : m < d) :
    setItem2 (transM d x m) (m : Int) (-1) (x.getD m 0) = .ok (transM d x (m + 1)) := by
  unfold setItem2
  have h1 : (transM d x m).size = d + 1 := by simp [transM]
  rw [h1, normIdx_nat (by omega)]
  simp only []
  have h2 : ((transM d x m).getD m #[]).size = d + 1 := by simp [transM, Array.getD, show m < d + 1 by omega]
  rw [h2, normIdx_neg_one (by omega)]
  simp only [Nat.add_sub_cancel]
  congr 1
  apply Array.ext
  · simp [transM]
  · intro i hi1 hi2
    simp only [transM, Array.size_ofFn] at hi2
    rw [Array.getElem_modify]
    by_cases him : m = i
    · subst him
      simp only [if_true]
      apply Array.ext
      · simp [transM]
      · intro j hj1 hj2
        have hj : j < d + 1 := by simpa [transM] using hj2
        by_cases hdj : d = j
        · subst hdj
          simp [transM, Array.getElem_setIfInBounds]
          omega
        · have : ¬ j = d := fun h => hdj h.symm
          simp [transM, Array.getElem_setIfInBounds, hdj, hj, this]
    · simp only [him, if_false]
      apply Array.ext
      · simp [transM]
      · intro j hj1 hj2
        simp only [transM, Array.getElem_ofFn]
        have : (i < m + 1) ↔ (i < m) := by omega
        simp only [this]

theorem matT_get (A : Mat K) (i j : ℕ) (hi : i < A.ncols) (hj : j < A.nrows) :
    Mat.get (matT A) i j = Mat.get A j i := by
  have : ∀ g : ℕ → ℕ → K, ((Array.ofFn (n := A.ncols) fun j' => Array.ofFn (n := A.nrows) fun i' =>
      g i'.val j'.val).getD i #[]).getD j 0 = g j i := by
    intro g; simp [Array.getD, hi, hj]
  exact this A.get

theorem foldl_range_two (n i j : ℕ) (f : ℕ → K) (hi : i < n) (hj : j < n) (hij : i ≠ j)
    (h : ∀ l, l < n → l ≠ i → l ≠ j → f l = 0) :
    (List.range n).foldl (fun acc l => acc + f l) 0 = f i + f j := by
  rw [foldl_range_add_sum]
  rw [← Finset.sum_subset (s₁ := {i, j}) (by
        intro a ha
        simp only [Finset.mem_insert, Finset.mem_singleton] at ha
        rcases ha with rfl | rfl <;> simp [hi, hj])
      (by
        intro l hl hnl
        simp only [Finset.mem_insert, Finset.mem_singleton, not_or] at hnl
        exact h l (Finset.mem_range.mp hl) hnl.1 hnl.2)]
  rw [Finset.sum_pair hij]

end Splipy.PyO

namespace Splipy.PyO
open Splipy Splipy.Generated Splipy.C06
variable {K : Type} [Field K] [LinearOrder K]

/-! ## `translate`: the homogeneous control-point matrix and its product (no generated code) -/

/-- the `n × (dim+1)` matrix `cp` of `translate` (weights 1 appended for a non-rational object) -/
def cpH (o : Obj K) : Mat K :=
  Array.ofFn (n := nPts o.cps) (fun p => Array.ofFn (n := o.dimension + 1) (fun l =>
    if l.val < o.dimension then o.cps.get (p.val * o.ncomp + l.val)
    else (if o.rational then o.cps.get (p.val * o.ncomp + o.dimension) else 1)))

theorem cpH_get (o : Obj K) {p l : ℕ} (hp : p < nPts o.cps) (hl : l < o.dimension + 1) :
    Mat.get (cpH o) p l = if l < o.dimension then o.cps.get (p * o.ncomp + l)
      else (if o.rational then o.cps.get (p * o.ncomp + o.dimension) else 1) := by
  unfold Mat.get cpH
  simp [Array.getD, hp, hl]

theorem cpH_rational (o : Obj K) (hr : o.rational = true) (hnc : 1 ≤ o.ncomp) :
    matOfTensor o.cps (nPts o.cps) (o.dimension + 1) = cpH o := by
  have hd : o.dimension + 1 = o.ncomp := by unfold Obj.dimension; rw [if_pos hr]; omega
  unfold matOfTensor cpH
  apply Array.ext
  · simp
  · intro p h1 h2
    simp only [Array.getElem_ofFn]
    apply Array.ext
    · simp
    · intro l h3 h4
      simp only [Array.size_ofFn] at h3
      simp only [Array.getElem_ofFn, hr, if_true, hd]
      by_cases hl : l < o.dimension
      · rw [if_pos hl]
      · rw [if_neg hl]; congr 2; omega

theorem cpH_nonrational (o : Obj K) (hr : ¬ o.rational = true) :
    matSetButLastCol (Array.replicate (nPts o.cps) (Array.replicate (o.dimension + 1) (1 : K)))
      (matOfTensor o.cps (nPts o.cps) o.dimension) = .ok (cpH o) := by
  have hd : o.dimension = o.ncomp := by unfold Obj.dimension; simp [hr]
  unfold matSetButLastCol
  have hc : (Array.replicate (nPts o.cps) (Array.replicate (o.dimension + 1) (1 : K))).size
        = (matOfTensor o.cps (nPts o.cps) o.dimension).size ∧
      (List.range (Array.replicate (nPts o.cps) (Array.replicate (o.dimension + 1) (1 : K))).size).all (fun i =>
        ((matOfTensor o.cps (nPts o.cps) o.dimension).getD i #[]).size + 1
          = ((Array.replicate (nPts o.cps) (Array.replicate (o.dimension + 1) (1 : K))).getD i #[]).size) = true := by
    refine ⟨by simp [matOfTensor], ?_⟩
    rw [List.all_eq_true]
    intro i hi
    simp only [Array.size_replicate, List.mem_range] at hi
    simp [matOfTensor, Array.getD, hi]
  rw [if_pos hc]
  congr 1
  unfold cpH
  apply Array.ext
  · simp
  · intro p h1 h2
    simp only [Array.size_ofFn, Array.size_replicate] at h1
    simp only [Array.getElem_ofFn]
    apply Array.ext
    · simp [matOfTensor, Array.getD, h1]
    · intro l h3 h4
      simp only [Array.size_ofFn] at h4
      have hr' : o.rational = false := by simpa using hr
      simp only [hr', Bool.false_eq_true, if_false]
      by_cases hl : l < o.dimension
      · simp [matOfTensor, Array.getD, h1, Array.getElem_push, hl, hd]
      · have : l = o.dimension := by omega
        simp [matOfTensor, Array.getD, h1, Array.getElem_push, this]

theorem transM_ncols (d : ℕ) (x : List K) (m : ℕ) : (transM d x m).ncols = d + 1 := by
  simp [Mat.ncols, transM, Array.getD]
theorem transM_nrows (d : ℕ) (x : List K) (m : ℕ) : (transM d x m).nrows = d + 1 := by
  simp [Mat.nrows, transM]
theorem matT_nrows (A : Mat K) : (matT A).nrows = A.ncols := by simp [matT, Mat.transpose, Mat.nrows]
theorem matT_ncols (A : Mat K) (h : 0 < A.ncols) : (matT A).ncols = A.nrows := by
  unfold matT Mat.transpose
  conv_lhs => unfold Mat.ncols
  have h' : 0 < (A[0]?.getD #[]).size := by
    have := h; unfold Mat.ncols at this
    simpa [Array.getD_eq_getD_getElem?] using this
  simp [Array.getD_eq_getD_getElem?, Array.getElem?_ofFn, h', Mat.ncols, Mat.nrows]

/-- entries of `cp @ translation_matrix.T` -/
theorem translate_prod (o : Obj K) (x : List K) {p i : ℕ} (hp : p < nPts o.cps) (hi : i < o.dimension + 1) :
    ((Mat.mul (cpH o) (matT (transM o.dimension x o.dimension))).getD p #[]).getD i 0
      = if i < o.dimension then Mat.get (cpH o) p i + Mat.get (cpH o) p o.dimension * x.getD i 0
        else Mat.get (cpH o) p o.dimension := by
  set d := o.dimension with hd
  have hBn : (matT (transM d x d)).ncols = d + 1 := by
    rw [matT_ncols _ (by rw [transM_ncols]; omega), transM_nrows]
  have hBr : (matT (transM d x d)).nrows = d + 1 := by rw [matT_nrows, transM_ncols]
  rw [mul_get _ _ (by simp [cpH]; exact hp) (by rw [hBn]; exact hi), hBr]
  have hB : ∀ l, l < d + 1 → Mat.get (matT (transM d x d)) l i = Mat.get (transM d x d) i l := by
    intro l hl
    exact matT_get _ _ _ (by rw [transM_ncols]; exact hl) (by rw [transM_nrows]; exact hi)
  by_cases hlt : i < d
  · rw [if_pos hlt]
    rw [foldl_range_two (d + 1) i d _ (by omega) (by omega) (by omega) (by
      intro l hl h1 h2
      rw [hB l hl, transM_get _ _ _ _ _ hi hl, if_neg (fun h => h1 h.symm), if_neg (by tauto), mul_zero])]
    rw [hB i (by omega), hB d (by omega), transM_get _ _ _ _ _ hi (by omega), transM_get _ _ _ _ _ hi (by omega),
      if_pos rfl, if_neg (by omega), if_pos ⟨rfl, hlt⟩, mul_one]
  · rw [if_neg hlt]
    have hid : i = d := by omega
    subst hid
    rw [foldl_range_single (d + 1) d _ (by omega) (by
      intro l hl h1
      rw [hB l hl, transM_get _ _ _ _ _ hi hl, if_neg (fun h => h1 h.symm), if_neg (by omega), mul_zero])]
    rw [hB d (by omega), transM_get _ _ _ _ _ hi (by omega), if_pos rfl, mul_one]

theorem dropLastCol_get (M : Mat K) {p i : ℕ} (hp : p < M.size) (hi : i + 1 < (M.getD p #[]).size) :
    ((matDropLastCol M).getD p #[]).getD i 0 = (M.getD p #[]).getD i 0 := by
  have h1 : (matDropLastCol M).getD p #[] = (M.getD p #[]).extract 0 ((M.getD p #[]).size - 1) := by
    unfold matDropLastCol
    simp [Array.getD_eq_getD_getElem?, Array.getElem?_map, hp]
  rw [h1, extract_getD _ _ _ _ (by omega), Nat.zero_add]

theorem dropLastCol_rows (M : Mat K) (m : ℕ) (h : ∀ r ∈ M.toList, r.size = m + 1) :
    ∀ r ∈ (matDropLastCol M).toList, r.size = m := by
  intro r hr
  unfold matDropLastCol at hr
  rw [Array.mem_toList_iff, Array.mem_map] at hr
  obtain ⟨r0, hr0, rfl⟩ := hr
  have := h r0 (Array.mem_toList_iff.mpr hr0)
  simp [this]

/-- storing `cp @ translation_matrix.T` back is the model's `affineCp` with the identity and the translation -/
theorem translate_cps (o : Obj K) (x : List K) (hs : o.cps.shape ≠ []) (hnc : 1 ≤ o.ncomp)
    (hwf : o.cps.data.size = Tensor.prod o.cps.shape) :
    npReshapeMat (if o.rational = true then Mat.mul (cpH o) (matT (transM o.dimension x o.dimension))
                  else matDropLastCol (Mat.mul (cpH o) (matT (transM o.dimension x o.dimension)))) (npShape o.cps)
      = .ok (o.affineCp (fun j i => if i = j then 1 else 0) (fun i => x.getD i 0)).cps := by
  have hL := lastN_eq_ncomp o hs
  have hL' : o.cps.shape.getLastD 1 = o.ncomp := hL
  have hdn : o.dimension ≤ o.ncomp := by unfold Obj.dimension; omega
  have hdr : o.ncomp = o.dimension + (if o.rational = true then 1 else 0) := by
    unfold Obj.dimension; split_ifs <;> omega
  set nc := o.ncomp with hncd
  set d := o.dimension with hdd
  set P := nPts o.cps with hP
  have hsize : o.cps.size / nc = P := by
    unfold Tensor.size
    rw [prod_eq_nPts_mul _ hs, hL, Nat.mul_div_cancel _ (by omega)]
  have hprod : Tensor.prod o.cps.shape = P * nc := by rw [prod_eq_nPts_mul _ hs, hL]
  set R := Mat.mul (cpH o) (matT (transM d x d)) with hR
  set R' := (if o.rational = true then R else matDropLastCol R) with hR'
  have hBn : (matT (transM d x d)).ncols = d + 1 := by
    rw [matT_ncols _ (by rw [transM_ncols]; omega), transM_nrows]
  have hRrows : ∀ r ∈ R.toList, r.size = d + 1 := by
    intro r hr; rw [mul_row_size _ _ r hr, hBn]
  have hRs : R.size = P := by rw [hR, mul_rows]; simp [cpH, hP]
  have hR's : R'.size = P := by
    rw [hR']; split_ifs
    · exact hRs
    · simp [matDropLastCol, hRs]
  have hrows : ∀ r ∈ R'.toList, r.size = nc := by
    rw [hR']
    split_ifs with hr
    · intro r h; rw [hRrows r h, hdr, if_pos hr]
    · have := dropLastCol_rows R d hRrows
      intro r h; rw [this r h, hdr, if_neg hr]; rfl
  have hget : ∀ p i, p < P → i < nc → (R'.getD p #[]).getD i 0 = (R.getD p #[]).getD i 0 := by
    intro p i hp hi
    rw [hR']
    split_ifs with hr
    · rfl
    · apply dropLastCol_get R (by rw [hRs]; exact hp)
      have : (R.getD p #[]).size = d + 1 := by
        apply hRrows
        rw [Array.mem_toList_iff]
        have hp' : p < R.size := by rw [hRs]; exact hp
        rw [show R.getD p #[] = R[p] by simp [Array.getD, hp']]
        exact Array.getElem_mem hp'
      rw [this]
      rw [hdr, if_neg hr] at hi
      omega
  have hfl : (tensorOfMat R' []).data.size = P * nc := by
    show (R'.foldl (· ++ ·) #[]).size = _
    rw [flatten_size _ nc hrows, hR's]
  unfold npReshapeMat npReshape
  rw [npShape_nonneg, npShape_toNat]
  simp only [Bool.false_eq_true, if_false, hfl, hprod, if_true]
  congr 1
  unfold Obj.affineCp
  simp only [← hncd, ← hdd]
  apply tensor_mk_ext
  · rw [mapLast_shape]
    show o.cps.shape = o.cps.shape.dropLast ++ [nc]
    conv_lhs => rw [← List.dropLast_append_getLast hs]
    congr 2
    rw [← hL]; unfold lastN
    rw [List.getLastD_eq_getLast?, List.getLast?_eq_some_getLast hs]; rfl
  · apply Array.ext
    · rw [mapLast_data_size, hL', hsize]
      exact hfl
    · intro k h1 h2
      have hk : k < P * nc := by rw [← hfl]; exact h1
      have hp : k / nc < P := mod_div_lt hk
      have hi : k % nc < nc := Nat.mod_lt _ (by omega)
      have ha : (if o.rational = true then 1 else 0) ≤ 1 := by split_ifs <;> omega
      have hi1 : k % nc < d + 1 := by omega
      have hLeft : ∀ (a : Array K) (h : k < a.size), a[k] = a.getD k 0 := by
        intro a h; simp [Array.getD, h]
      rw [hLeft _ h1, hLeft _ h2]
      show (R'.foldl (· ++ ·) #[]).getD k 0 = _
      conv_lhs => rw [← Nat.div_add_mod' k nc]
      rw [flatten_getD _ nc hrows (by rw [hR's]; exact hp) hi, hget _ _ hp hi, hR,
        translate_prod o x hp hi1]
      have hg := mapLast_get o.cps nc (fun row =>
          let w : K := if o.rational then row.getD d 0 else 1
          Array.ofFn (n := nc) (fun i =>
            if i.val < d then
              (List.range d).foldl (fun acc j => acc + row.getD j 0 * (if i.val = j then 1 else 0)) 0
                + x.getD i.val 0 * w
            else row.getD i.val 0))
        (pI := k / nc) (c := k % nc) (by rw [hL', hsize]; exact hp) hi
      rw [Nat.div_add_mod' k nc] at hg
      show _ = (Tensor.get _ k)
      rw [hg, hL']
      simp only []
      rw [C06.getD_ofFn _ _ hi]
      simp only []
      have hrow : k / nc * nc + nc ≤ o.cps.data.size := by
        rw [hwf, hprod]
        have := Nat.mul_le_mul_right nc (Nat.succ_le_of_lt hp)
        rw [Nat.succ_mul] at this
        exact this
      rw [cpH_get o hp (by omega : d < d + 1), if_neg (lt_irrefl d)]
      by_cases hlt : k % nc < d
      · rw [if_pos hlt, if_pos hlt, cpH_get o hp hi1, if_pos hlt]
        rw [foldl_range_single d (k % nc) _ hlt (by
          intro l hl hne
          rw [if_neg (fun h => hne h.symm), mul_zero])]
        rw [if_pos rfl, mul_one, extract_getD _ _ _ _ (by omega)]
        by_cases hr : o.rational = true
        · have hdnc : d < nc := by rw [hdr, if_pos hr]; omega
          simp only [hr, if_true]
          rw [extract_getD _ _ _ _ (by omega)]
          unfold Tensor.get
          ring
        · simp only [hr, Bool.false_eq_true, if_false]
          unfold Tensor.get
          ring
      · rw [if_neg hlt, if_neg hlt]
        have hr : o.rational = true := by
          by_contra hr
          have h0 : (if o.rational = true then 1 else 0) = 0 := if_neg hr
          omega
        have hkd : k % nc = d := by omega
        simp only [hr, if_true]
        rw [extract_getD _ _ _ _ (by omega), hkd]
        rfl

end Splipy.PyO

namespace Splipy.PyO
open Splipy Splipy.Generated Splipy.C06
variable {K : Type} [Field K] [LinearOrder K]

/-! ## `translate`: the object after the dimension promotion (no generated code) -/

theorem setDimension_facts (o : Obj K) (m : ℕ) (hs : o.cps.shape ≠ []) (hnc : 1 ≤ o.ncomp)
    (hwf : o.cps.data.size = Tensor.prod o.cps.shape) (hm : o.dimension < m) :
    (o.setDimension m).cps.shape ≠ [] ∧ 1 ≤ (o.setDimension m).ncomp ∧
    (o.setDimension m).cps.data.size = Tensor.prod (o.setDimension m).cps.shape ∧
    nPts (o.setDimension m).cps = nPts o.cps ∧ (o.setDimension m).dimension = m ∧
    (o.setDimension m).len = o.len := by
  have hc := setDimension_cps o m hs hnc hwf
  have hsh : (o.setDimension m).cps.shape = o.cps.shape.dropLast ++ [m + (o.ncomp - o.dimension)] := by
    rw [hc]; rfl
  have hdn : o.dimension ≤ o.ncomp := by unfold Obj.dimension; omega
  refine ⟨by rw [hsh]; simp, ?_, ?_, ?_, ?_, rfl⟩
  · unfold Obj.ncomp; rw [hsh, List.getLastD_concat]; omega
  · rw [hsh, C06.prod_append, C06.prod_cons, C06.prod_nil, mul_one, hc]
    simp [setDimT, nPts]
  · rw [hc]; exact setDimT_nPts _ _ _ _
  · have hr : (o.setDimension m).rational = o.rational := rfl
    unfold Obj.dimension Obj.ncomp
    rw [hsh, List.getLastD_concat, hr]
    unfold Obj.dimension Obj.ncomp
    split_ifs with h
    · have : 1 ≤ o.cps.shape.getLastD 0 := hnc
      omega
    · omega

/-! ### method: translate -/

theorem npOnes2_ok (n m : ℕ) :
    npOnes2 (K := K) (n : Int) (m : Int) = .ok (Array.replicate n (Array.replicate m 1)) := by
  unfold npOnes2
  have : ¬ ((n : Int) < 0 ∨ (m : Int) < 0) := by omega
  simp [this]

theorem ofObj_affineCp (o : Obj K) (M : ℕ → ℕ → K) (tr : ℕ → K) :
    ofObj (o.affineCp M tr) = { ofObj o with controlpoints := (o.affineCp M tr).cps } := by
  unfold ofObj
  simp only [PyObj.mk.injEq, true_and, Nat.cast_inj]
  refine ⟨rfl, ?_, rfl⟩
  unfold Obj.affineCp Obj.dimension Obj.ncomp
  simp only [mapLast_shape, List.getLastD_concat]

/-- the part of `translate` after the dimension promotion -/
theorem translate_tail (o1 : Obj K) (x : List K) (hs : o1.cps.shape ≠ []) (hnc : 1 ≤ o1.ncomp)
    (hwf : o1.cps.data.size = Tensor.prod o1.cps.shape) :
    (if x.length < o1.dimension then (Except.error PyErr.index : PyM (Tensor K)) else
      (if o1.rational = true then
        npReshapeMat (npMatmul (matOfTensor o1.cps (nPts o1.cps) (o1.dimension + 1))
            (matT (transM o1.dimension x o1.dimension))) (npShape o1.cps)
      else do
        let cp ← matSetButLastCol (Array.replicate (nPts o1.cps) (Array.replicate (o1.dimension + 1) (1 : K)))
          (matOfTensor o1.cps (nPts o1.cps) o1.dimension)
        npReshapeMat (matDropLastCol (npMatmul cp (matT (transM o1.dimension x o1.dimension)))) (npShape o1.cps)))
      = (if x.length < o1.dimension then .error .index else
          .ok (o1.affineCp (fun j i => if i = j then 1 else 0) (fun i => x.getD i 0)).cps) := by
  by_cases hx : x.length < o1.dimension
  · simp [hx]
  · simp only [hx, if_false]
    have := translate_cps o1 x hs hnc hwf
    by_cases hr : o1.rational = true
    · simp only [hr, if_true] at this ⊢
      rw [cpH_rational o1 hr hnc]
      exact this
    · simp only [hr, Bool.false_eq_true, if_false] at this ⊢
      rw [cpH_nonrational o1 hr, ok_bind]
      exact this

theorem _root_.PyObject_translate_eq (o : Obj K) (tol : K) (x : List K) (hs : o.cps.shape ≠ []) (hnc : 1 ≤ o.ncomp)
    (hwf : o.cps.data.size = Tensor.prod o.cps.shape) (hlen : o.len = nPts o.cps) :
    PyObject.translate (ofObj o) tol x = (o.translateChecked x).map ofObj := by
  unfold PyObject.translate
  simp only [PyObject_len_eq, ok_bind, ofObj_dimension, ofObj_rational, len]
  -- the dimension promotion
  set o1 : Obj K := if x.length > o.dimension then o.setDimension x.length else o with ho1
  have hfacts : o1.cps.shape ≠ [] ∧ 1 ≤ o1.ncomp ∧ o1.cps.data.size = Tensor.prod o1.cps.shape ∧
      nPts o1.cps = nPts o.cps ∧ o1.rational = o.rational ∧ o1.len = o.len ∧
      (x.length > o.dimension → o1.dimension = x.length) ∧ (¬ x.length > o.dimension → o1 = o) := by
    rw [ho1]
    split_ifs with h
    · obtain ⟨f1, f2, f3, f4, f5, f6⟩ := setDimension_facts o x.length hs hnc hwf h
      exact ⟨f1, f2, f3, f4, rfl, f6, fun _ => f5, fun hn => absurd h hn⟩
    · exact ⟨hs, hnc, hwf, rfl, rfl, rfl, fun hh => absurd hh h, fun _ => rfl⟩
  obtain ⟨g1, g2, g3, g4, g5, g6, g7, g8⟩ := hfacts
  have hprom : (if ((x.length : ℕ) : Int) > ((o.dimension : ℕ) : Int) then do
        let self_ ← PyObject.set_dimension (ofObj o) tol ((x.length : ℕ) : Int)
        pure (self_, self_.dimension)
      else pure (ofObj o, ((o.dimension : ℕ) : Int)))
      = (.ok (ofObj o1, ((o1.dimension : ℕ) : Int)) : PyM (PyObj K × Int)) := by
    by_cases h : x.length > o.dimension
    · have h' : ((x.length : ℕ) : Int) > ((o.dimension : ℕ) : Int) := by omega
      rw [if_pos h', PyObject_set_dimension_eq o tol x.length hs hnc hwf, ok_bind, ho1, if_pos h]
      rfl
    · have h' : ¬ ((x.length : ℕ) : Int) > ((o.dimension : ℕ) : Int) := by omega
      rw [if_neg h', ho1, if_neg h]
      rfl
  erw [hprom]
  rw [ok_bind]
  simp only [ofObj_dimension, ofObj_rational, ofObj_cps]
  have hid : npIdentity (K := K) (((o1.dimension : ℕ) : Int) + 1) = .ok (transM o1.dimension x 0) := by
    unfold npIdentity
    have : ¬ ((((o1.dimension : ℕ) : Int) + 1) < 0) := by omega
    have e : (((o1.dimension : ℕ) : Int) + 1).toNat = o1.dimension + 1 := by omega
    simp [this, e, transM_zero]
  rw [hid, ok_bind]
  have hxle : ¬ x.length > o.dimension → True := fun _ => trivial
  unfold Obj.translateChecked Obj.translate
  by_cases hshort : x.length < o1.dimension
  · -- `x[i]` raises IndexError
    have hno : ¬ x.length > o.dimension := by
      intro h; rw [g7 h] at hshort; omega
    have ho : o1 = o := g8 hno
    rw [forRange_fail o1.dimension x.length _ (fun m => transM o1.dimension x m) .index hshort
      (by
        intro i hi
        rw [getItem_nat _ hi, ok_bind]
        have := transM_step o1.dimension x i (by omega)
        rw [show x.getD i 0 = x[i] by simp [List.getD_eq_getElem?_getD, hi]] at this
        exact this)
      (by
        simp only [getItem, normIdx_nat_ge (le_refl _)]
        rfl)]
    rw [ho] at hshort
    simp [hshort]
  · rw [forRange_iter o1.dimension _ (fun m => transM o1.dimension x m)
      (by
        intro i hi
        have hi' : i < x.length := by omega
        rw [getItem_nat _ hi', ok_bind]
        have := transM_step o1.dimension x i (by omega)
        rw [show x.getD i 0 = x[i] by simp [List.getD_eq_getElem?_getD, hi']] at this
        exact this), ok_bind]
    have htail := translate_tail o1 x g1 g2 g3
    rw [if_neg hshort, if_neg hshort] at htail
    have hL1 := lastN_eq_ncomp o1 g1
    have hnlen : o.len = nPts o1.cps := by rw [g4]; exact hlen
    have hmodel : ¬ x.length < o.dimension := by
      intro h
      have hno : ¬ x.length > o.dimension := by omega
      rw [g8 hno] at hshort
      exact hshort h
    rw [if_neg hmodel]
    simp only [map_ok]
    by_cases hr : o.rational = true
    · have hr1 : o1.rational = true := by rw [g5]; exact hr
      have hd1 : o1.dimension + 1 = o1.ncomp := by unfold Obj.dimension; rw [if_pos hr1]; omega
      rw [if_pos hr1] at htail
      have hb : b2i o.rational = 1 := by simp [b2i, hr]
      simp only [hr, hr1, not_true_eq_false, if_false, if_true, hb]
      rw [hnlen]
      have e : ((o1.dimension : ℕ) : Int) + b2i true = ((o1.dimension + 1 : ℕ) : Int) := by
        simp [b2i]
      rw [e, npReshape2_ok _ _ _ (by rw [hd1, g3, prod_eq_nPts_mul _ g1, hL1]), ok_bind]
      simp only [pure_eq_ok, ok_bind]
      rw [htail]
      simp only [ok_bind, pure_eq_ok]
      rw [← ho1, ofObj_affineCp]
      congr 1
      simp [ofObj, hr1]
    · have hr1 : ¬ o1.rational = true := by rw [g5]; exact hr
      have hd1 : o1.dimension = o1.ncomp := by unfold Obj.dimension; simp [hr1]
      rw [if_neg hr1] at htail
      simp only [hr, hr1, not_false_eq_true, if_true, Bool.false_eq_true, if_false]
      rw [hnlen]
      have e : ((o1.dimension : ℕ) : Int) + 1 = ((o1.dimension + 1 : ℕ) : Int) := by push_cast; ring
      rw [e, npOnes2_ok, ok_bind,
        npReshape2_ok _ _ _ (by rw [g3, prod_eq_nPts_mul _ g1, hL1, ← hd1]), ok_bind]
      cases hm : matSetButLastCol (Array.replicate (nPts o1.cps) (Array.replicate (o1.dimension + 1) (1 : K)))
          (matOfTensor o1.cps (nPts o1.cps) o1.dimension) with
      | error e' => rw [hm] at htail; exact absurd htail (by simp)
      | ok cp =>
        rw [hm, ok_bind] at htail
        simp only [pure_eq_ok, ok_bind]
        rw [htail]
        simp only [ok_bind, pure_eq_ok]
        rw [← ho1, ofObj_affineCp]
        congr 1
        simp [ofObj, hr1]

end Splipy.PyO

namespace Splipy.PyO
open Splipy Splipy.Generated Splipy.C06
variable {K : Type} [Field K] [LinearOrder K]

/-! ## `project`: zeroing components (no generated code) -/

/-- components `c < m` with `keep[c] = False` set to zero -/
def zeroN (t : Tensor K) (keep : List Bool) (m : ℕ) : Tensor K :=
  { shape := t.shape,
    data := Array.ofFn (n := nPts t * lastN t) (fun k =>
      if k.val % lastN t < m ∧ (keep.getD (k.val % lastN t) false) = false then 0 else t.get k.val) }

theorem zeroN_get (t : Tensor K) (keep : List Bool) (m : ℕ) {k : ℕ} (hk : k < nPts t * lastN t) :
    (zeroN t keep m).get k = if k % lastN t < m ∧ (keep.getD (k % lastN t) false) = false then 0 else t.get k :=
  get_ofFn _ _ hk

theorem zeroN_zero (t : Tensor K) (keep : List Bool) (hsz : t.data.size = nPts t * lastN t) : zeroN t keep 0 = t := by
  refine tensor_mk_ext (by rfl) ?_
  apply Array.ext
  · simp [zeroN, hsz]
  · intro i h1 h2
    simp [zeroN, Tensor.get, Array.getD, h2]

theorem zeroN_step_keep (t : Tensor K) (keep : List Bool) (m : ℕ) (h : keep.getD m false = true) :
    zeroN t keep (m + 1) = zeroN t keep m := by
  refine tensor_mk_ext (by rfl) ?_
  apply Array.ext
  · simp [zeroN]
  · intro k h1 h2
    simp only [zeroN, Array.getElem_ofFn]
    by_cases hk : k % lastN t = m
    · rw [hk, h]; simp
    · have : (k % lastN t < m + 1) ↔ (k % lastN t < m) := by omega
      simp only [this]

theorem zeroN_step_zero (t : Tensor K) (keep : List Bool) (m : ℕ) (hm : m < lastN t) (h : keep.getD m false = false) :
    setLastScalar (zeroN t keep m) (m : Int) 0 = .ok (zeroN t keep (m + 1)) := by
  unfold setLastScalar
  rw [show lastN (zeroN t keep m) = lastN t from rfl, show nPts (zeroN t keep m) = nPts t from rfl,
    normIdx_nat hm]
  simp only []
  congr 1
  refine tensor_mk_ext (by rfl) ?_
  apply Array.ext
  · simp [zeroN]
  · intro k h1 h2
    simp only [Array.size_ofFn] at h1
    simp only [Array.getElem_ofFn]
    show _ = (zeroN t keep (m + 1)).data[k]
    have hR : (zeroN t keep (m + 1)).data[k]'h2 = (zeroN t keep (m + 1)).get k := by
      simp [Tensor.get, Array.getD, h2]
    rw [hR, zeroN_get t keep (m + 1) h1]
    by_cases hk : k % lastN t = m
    · rw [if_pos hk, hk, if_pos ⟨by omega, h⟩]
    · rw [if_neg hk, zeroN_get t keep m h1]
      have : (k % lastN t < m + 1) ↔ (k % lastN t < m) := by omega
      simp only [this]

/-- the model's `projectPlane` builds `zeroN` -/
theorem projectPlane_cps (o : Obj K) (keep : List Bool) (hs : o.cps.shape ≠ []) (hnc : 1 ≤ o.ncomp)
    (hwf : o.cps.data.size = Tensor.prod o.cps.shape) :
    (o.projectPlane keep).cps = zeroN o.cps keep o.dimension := by
  have hL := lastN_eq_ncomp o hs
  have hL' : o.cps.shape.getLastD 1 = o.ncomp := hL
  have hsize : o.cps.size / o.ncomp = nPts o.cps := by
    unfold Tensor.size
    rw [prod_eq_nPts_mul _ hs, hL, Nat.mul_div_cancel _ (by omega)]
  unfold Obj.projectPlane
  apply tensor_mk_ext
  · rw [mapLast_shape]
    show o.cps.shape.dropLast ++ [o.ncomp] = o.cps.shape
    conv_rhs => rw [← List.dropLast_append_getLast hs]
    congr 2
    rw [← hL]; unfold lastN
    rw [List.getLastD_eq_getLast?, List.getLast?_eq_some_getLast hs]; rfl
  · apply Array.ext
    · rw [mapLast_data_size, hL', hsize]; simp [zeroN, hL]
    · intro k h1 h2
      simp only [zeroN, Array.size_ofFn, hL] at h2
      have hp : k / o.ncomp < nPts o.cps := mod_div_lt h2
      have hi : k % o.ncomp < o.ncomp := Nat.mod_lt _ (by omega)
      have hg := mapLast_get o.cps o.ncomp (fun row =>
          Array.ofFn (n := row.size) (fun i =>
            if i.val < o.dimension ∧ !(keep.getD i.val false) then 0 else row.getD i.val 0))
        (pI := k / o.ncomp) (c := k % o.ncomp) (by rw [hL', hsize]; exact hp) hi
      rw [Nat.div_add_mod' k o.ncomp] at hg
      have hLeft : ∀ (T : Tensor K) (h : k < T.data.size), T.data[k] = T.get k := by
        intro T h; simp [Tensor.get, Array.getD, h]
      rw [hLeft _ h1, hg, hL', hLeft _ (by simp [zeroN, hL]; exact h2), zeroN_get _ _ _ (by rw [hL]; exact h2), hL]
      have hrow : k / o.ncomp * o.ncomp + o.ncomp ≤ o.cps.data.size := by
        rw [hwf, prod_eq_nPts_mul _ hs, hL]
        have := Nat.mul_le_mul_right o.ncomp (Nat.succ_le_of_lt hp)
        rw [Nat.succ_mul] at this
        exact this
      have hext : (o.cps.data.extract (k / o.ncomp * o.ncomp) (k / o.ncomp * o.ncomp + o.ncomp)).size = o.ncomp := by
        simp only [Array.size_extract]; omega
      rw [C06.getD_ofFn _ _ (by rw [hext]; exact hi)]
      simp only []
      by_cases hc : k % o.ncomp < o.dimension ∧ keep.getD (k % o.ncomp) false = false
      · rw [if_pos hc, if_pos (by simpa using hc)]
      · rw [if_neg hc, if_neg (by simpa using hc), extract_getD _ _ _ _ (by omega),
          Nat.div_add_mod' k o.ncomp]
        rfl

/-- one pass of the loop of `project` -/
def pjStep (keep : List Bool) (i : Int) (s : PyObj K) : PyM (PyObj K) :=
  match getItem keep i with
  | .error e => .error e
  | .ok k =>
    if k = true then .ok s else
      match setLastScalar s.controlpoints i 0 with
      | .error e => .error e
      | .ok t => .ok { s with controlpoints := t }

theorem forRange_congr {σ : Type} (lo hi : Int) (s : σ) (f g : Int → σ → PyM σ) (h : ∀ i s, f i s = g i s) :
    forRange lo hi s f = forRange lo hi s g := by
  have : f = g := funext fun i => funext fun s => h i s
  rw [this]

theorem pjStep_ok (o : Obj K) (keep : List Bool) (hs : o.cps.shape ≠ []) (i : ℕ) (hi : i < o.dimension)
    (hik : i < keep.length) :
    pjStep keep (i : Int) ({ ofObj o with controlpoints := zeroN o.cps keep i } : PyObj K)
      = .ok ({ ofObj o with controlpoints := zeroN o.cps keep (i + 1) } : PyObj K) := by
  have hL := lastN_eq_ncomp o hs
  have hdn : o.dimension ≤ o.ncomp := by unfold Obj.dimension; omega
  unfold pjStep
  rw [getItem_nat _ hik]
  simp only []
  have hg : keep.getD i false = keep[i] := by simp [List.getD_eq_getElem?_getD, hik]
  by_cases hk : keep[i] = true
  · rw [if_pos hk, zeroN_step_keep _ _ _ (by rw [hg]; exact hk)]
  · have hk' : keep[i] = false := by simpa using hk
    rw [if_neg hk, zeroN_step_zero _ _ _ (by rw [hL]; omega) (by rw [hg]; exact hk')]

/-! ### method: project -/

theorem _root_.PyObject_project_eq (o : Obj K) (tol : K) (plane : String) (hs : o.cps.shape ≠ []) (hnc : 1 ≤ o.ncomp)
    (hwf : o.cps.data.size = Tensor.prod o.cps.shape) :
    PyObject.project (ofObj o) tol plane
      = (o.projectChecked [strIn "x" plane.toLower, strIn "y" plane.toLower, strIn "z" plane.toLower]).map ofObj := by
  have hL := lastN_eq_ncomp o hs
  unfold PyObject.project Obj.projectChecked
  rw [listComp_ok _ _ (fun c => strIn c plane.toLower) (fun _ _ => by simp)]
  simp only [ok_bind, List.map_cons, List.map_nil, ofObj_dimension]
  set keep := [strIn "x" plane.toLower, strIn "y" plane.toLower, strIn "z" plane.toLower] with hkeep
  have hsz : o.cps.data.size = nPts o.cps * lastN o.cps := by rw [hwf, prod_eq_nPts_mul _ hs]
  rw [forRange_congr _ _ _ _ (pjStep keep) (by
    intro i s
    unfold pjStep
    cases getItem keep i with
    | error e => rfl
    | ok k =>
      simp only [ok_bind]
      by_cases hk : k = true
      · simp [hk]
      · simp only [hk, not_false_eq_true, if_true, if_false]
        cases setLastScalar s.controlpoints i 0 <;> rfl)]
  let S : ℕ → PyObj K := fun m => { ofObj o with controlpoints := zeroN o.cps keep m }
  have hS0 : ofObj o = S 0 := by
    show _ = ({ ofObj o with controlpoints := zeroN o.cps keep 0 } : PyObj K)
    rw [zeroN_zero _ _ hsz]
    rfl
  rw [hS0]
  by_cases hshort : keep.length < o.dimension
  · rw [if_pos hshort]
    rw [forRange_fail o.dimension keep.length _ S .index hshort
      (fun i hi => pjStep_ok o keep hs i (by omega) hi)
      (by simp only [pjStep, getItem, normIdx_nat_ge (le_refl _)])]
    rfl
  · rw [if_neg hshort]
    rw [forRange_iter o.dimension _ S (fun i hi => pjStep_ok o keep hs i hi (by omega)), ok_bind]
    simp only [pure_eq_ok, map_ok]
    congr 1
    show ({ ofObj o with controlpoints := zeroN o.cps keep o.dimension } : PyObj K) = ofObj (o.projectPlane keep)
    rw [← projectPlane_cps o keep hs hnc hwf]
    unfold ofObj
    simp only [PyObj.mk.injEq, true_and, Nat.cast_inj]
    refine ⟨rfl, ?_, rfl⟩
    unfold Obj.projectPlane Obj.dimension Obj.ncomp
    simp only [mapLast_shape, List.getLastD_concat]

end Splipy.PyO

namespace Splipy.PyO
open Splipy Splipy.Generated Splipy.C06
variable {K : Type} [Field K] [LinearOrder K]

/-! ## `derivative`: the quotient-rule loop (no generated code) -/

/-- columns `< m` of `res` replaced by the first rational derivative -/
def ratN (res nond : Tensor K) (m : ℕ) : Tensor K :=
  { shape := res.shape,
    data := Array.ofFn (n := nPts res * lastN res) (fun k =>
      if k.val % lastN res < m then
        RatDeriv.first (nond.get k.val) (res.get k.val)
          (nond.get (k.val / lastN res * lastN res + (lastN res - 1)))
          (res.get (k.val / lastN res * lastN res + (lastN res - 1)))
      else res.get k.val) }

theorem ratN_get (res nond : Tensor K) (m : ℕ) {k : ℕ} (hk : k < nPts res * lastN res) :
    (ratN res nond m).get k
      = if k % lastN res < m then
          RatDeriv.first (nond.get k) (res.get k)
            (nond.get (k / lastN res * lastN res + (lastN res - 1)))
            (res.get (k / lastN res * lastN res + (lastN res - 1)))
        else res.get k :=
  get_ofFn _ _ hk

theorem ratN_zero (res nond : Tensor K) (hsz : res.data.size = nPts res * lastN res) : ratN res nond 0 = res := by
  refine tensor_mk_ext (by rfl) ?_
  apply Array.ext
  · simp [ratN, hsz]
  · intro i h1 h2
    simp [ratN, Tensor.get, Array.getD, h2]

/-- one pass `result[..., i] = result[..., i] / W - non_derivative[..., i] * Wd / W / W` -/
theorem ratN_step (res nond : Tensor K) (m : ℕ) (hm : m + 1 < lastN res) (hL : lastN nond = lastN res)
    (hP : nPts nond = nPts res) (W Wd : Tensor K)
    (hW : getLast nond (-1) = .ok W) (hWd : getLast res (-1) = .ok Wd) :
    (do let a ← getLast (ratN res nond m) (m : Int)
        let b ← getLast nond (m : Int)
        setLast (ratN res nond m) (m : Int) (tSub (tDiv a W) (tDiv (tDiv (tMul b Wd) W) W)))
      = .ok (ratN res nond (m + 1)) := by
  have hnc : 1 ≤ lastN res := by omega
  have hWe : W = Tensor.mk nond.shape.dropLast
      (Array.ofFn (n := nPts nond) (fun p => nond.get (p.val * lastN nond + (lastN nond - 1)))) := by
    simp only [getLast, normIdx_neg_one (show 1 ≤ lastN nond by omega)] at hW
    exact (Except.ok.inj hW).symm
  have hWde : Wd = Tensor.mk res.shape.dropLast
      (Array.ofFn (n := nPts res) (fun p => res.get (p.val * lastN res + (lastN res - 1)))) := by
    simp only [getLast, normIdx_neg_one hnc] at hWd
    exact (Except.ok.inj hWd).symm
  simp only [getLast, setLast, show lastN (ratN res nond m) = lastN res from rfl,
    show nPts (ratN res nond m) = nPts res from rfl, normIdx_nat (show m < lastN res by omega), hL,
    normIdx_nat (show m < lastN res by omega)]
  show Except.ok _ = Except.ok _
  congr 1
  refine tensor_mk_ext (by rfl) ?_
  apply Array.ext
  · simp [ratN, nPts, lastN]
  · intro k h1' h2
    have h1 : k < nPts res * lastN res := by
      have := h1'; simp only [Array.size_ofFn] at this; exact this
    simp only [Array.getElem_ofFn]
    have hR : (ratN res nond (m + 1)).data[k]'h2 = (ratN res nond (m + 1)).get k := by
      simp [Tensor.get, Array.getD, h2]
    rw [hR, ratN_get res nond (m + 1) h1]
    have hp : k / lastN res < nPts res := mod_div_lt h1
    by_cases hk : k % lastN res = m
    · have hkk : k / lastN res * lastN res + m = k := by rw [← hk]; exact Nat.div_add_mod' k _
      rw [if_pos hk, if_pos (by omega)]
      subst hWe hWde
      unfold tSub tDiv tMul
      have hPr : nPts (ratN res nond m) = nPts res := rfl
      simp only [get_mk_ofFn, Array.size_ofFn, hPr, hp, hP, dif_pos, hL]
      rw [ratN_get res nond m (by rw [hkk]; exact h1), hkk, if_neg (by omega)]
      rfl
    · rw [if_neg hk, ratN_get res nond m h1]
      by_cases hk2 : k % lastN res < m
      · rw [if_pos hk2, if_pos (by omega)]
      · rw [if_neg hk2, if_neg (by omega)]

theorem foldlM_ratN (res nond : Tensor K) (hsz : res.data.size = nPts res * lastN res) (n : ℕ) (hn : n < lastN res)
    (hL : lastN nond = lastN res) (hP : nPts nond = nPts res) (W Wd : Tensor K)
    (hW : getLast nond (-1) = .ok W) (hWd : getLast res (-1) = .ok Wd) (f : Int → Tensor K → PyM (Tensor K))
    (hf : ∀ (i : ℕ), i < n → f i (ratN res nond i) = (do
        let a ← getLast (ratN res nond i) (i : Int)
        let b ← getLast nond (i : Int)
        setLast (ratN res nond i) (i : Int) (tSub (tDiv a W) (tDiv (tDiv (tMul b Wd) W) W)))) :
    forRange 0 (n : Int) res f = .ok (ratN res nond n) := by
  have h0 : res = ratN res nond 0 := (ratN_zero res nond hsz).symm
  conv_lhs => rw [h0]
  exact forRange_iter n f (fun m => ratN res nond m) (fun i hi => by
    rw [hf i hi]
    exact ratN_step res nond i (by omega) hL hP W Wd hW hWd)

/-- deleting the weight column after the quotient-rule loop: the model's first-derivative array -/
theorem delete_ratN (res nond : Tensor K) (dim : ℕ) (hs : res.shape ≠ []) (hnc : lastN res = dim + 1) :
    npDeleteLast (ratN res nond dim) (dim : Int)
      = .ok { shape := res.shape.dropLast ++ [dim],
              data := Array.ofFn (n := res.size / (dim + 1) * dim) (fun idx =>
                RatDeriv.first (nond.get (idx.val / dim * (dim + 1) + idx.val % dim))
                  (res.get (idx.val / dim * (dim + 1) + idx.val % dim))
                  (nond.get (idx.val / dim * (dim + 1) + dim)) (res.get (idx.val / dim * (dim + 1) + dim))) } := by
  have hLr : lastN (ratN res nond dim) = dim + 1 := hnc
  have hPr : nPts (ratN res nond dim) = nPts res := rfl
  have hsize : res.size / (dim + 1) = nPts res := by
    unfold Tensor.size
    rw [prod_eq_nPts_mul res hs, hnc, Nat.mul_div_cancel _ (by omega)]
  unfold npDeleteLast
  rw [hLr, normIdx_nat (by omega), hPr]
  show Except.ok _ = Except.ok _
  congr 1
  refine tensor_mk_ext (by simp; rfl) ?_
  apply Array.ext
  · simp [hsize]
  · intro k h1' h2
    have h1 : k < nPts res * dim := by
      have := h1'; simp only [Array.size_ofFn, Nat.add_sub_cancel] at this; exact this
    simp only [Array.getElem_ofFn, Nat.add_sub_cancel]
    have hdim : 0 < dim := by
      rcases Nat.eq_zero_or_pos dim with h | h
      · subst h; simp at h1
      · exact h
    have hp : k / dim < nPts res := mod_div_lt h1
    have hj : k % dim < dim := Nat.mod_lt _ hdim
    rw [if_pos hj]
    have hlt : k / dim * (dim + 1) + k % dim < nPts res * lastN res := by
      rw [hnc]
      have := Nat.mul_le_mul_right (dim + 1) (Nat.succ_le_of_lt hp)
      rw [Nat.succ_mul] at this
      omega
    obtain ⟨e2, e1⟩ := div_mod_flat (p := k / dim) (nc := dim + 1) (j := k % dim) (by omega)
    rw [ratN_get _ _ _ hlt, hnc, e1, if_pos hj, e2, Nat.add_sub_cancel]

/-- the model's zeroth-derivative array (`result[..., i] /= result[..., -1]`, weight column deleted) is `project` -/
theorem project_explicit (res : Tensor K) (dim : ℕ) (hs : res.shape ≠ []) (hnc : lastN res = dim + 1) :
    Obj.project res dim
      = { shape := res.shape.dropLast ++ [dim],
          data := Array.ofFn (n := res.size / (dim + 1) * dim) (fun idx =>
            res.get (idx.val / dim * (dim + 1) + idx.val % dim) / res.get (idx.val / dim * (dim + 1) + dim)) } := by
  have hnc' : res.shape.getLastD 1 = dim + 1 := hnc
  refine tensor_mk_ext (project_shape res dim) ?_
  apply Array.ext
  · rw [project_data_size, hnc']; simp
  · intro k h1 h2
    simp only [Array.size_ofFn] at h2
    simp only [Array.getElem_ofFn]
    have hdim : 0 < dim := by
      rcases Nat.eq_zero_or_pos dim with h | h
      · subst h; simp at h2
      · exact h
    have hp : k / dim < res.size / (dim + 1) := mod_div_lt h2
    have hj : k % dim < dim := Nat.mod_lt _ hdim
    have hg := project_get res dim (dim + 1) hnc' (by omega) (pI := k / dim) (c := k % dim) hp hj
    rw [Nat.div_add_mod' k dim] at hg
    rw [← hg]
    simp [Tensor.get, Array.getD, h1]

end Splipy.PyO

namespace Splipy.PyO
open Splipy Splipy.Generated Splipy.C06
variable {K : Type} [Field K] [LinearOrder K]

/-! ## `derivative`: zips and sums (no generated code) -/

theorem map_zip4 {α β γ δ ε : Type} (f : α → β → γ → δ → ε) (as : List α) (bs : List β) (cs : List γ) (ds : List δ) :
    (zip4 as bs cs ds).map (fun x => f x.1 x.2.1 x.2.2.1 x.2.2.2)
      = (List.zip (List.zip as bs) (List.zip cs ds)).map (fun x => f x.1.1 x.1.2 x.2.1 x.2.2) := by
  unfold zip4
  induction as generalizing bs cs ds with
  | nil => simp
  | cons a as ih =>
    cases bs with
    | nil => simp
    | cons b bs =>
      cases cs with
      | nil => simp
      | cons c cs =>
        cases ds with
        | nil => simp
        | cons d ds => simp [ih]

theorem map_zip3_zero {α β δ ε : Type} (f : α → β → ℕ → δ → ε) (as : List α) (bs : List β) (ds : List δ) :
    (zip3 as bs ds).map (fun x => f x.1 x.2.1 0 x.2.2)
      = (List.zip (List.zip as bs) (List.zip (ds.map (fun _ => 0)) ds)).map (fun x => f x.1.1 x.1.2 x.2.1 x.2.2) := by
  unfold zip3
  induction as generalizing bs ds with
  | nil => simp
  | cons a as ih =>
    cases bs with
    | nil => simp
    | cons b bs =>
      cases ds with
      | nil => simp
      | cons d ds => simp [ih]

theorem pySum_toNat (l : List Int) (h : ∀ d ∈ l, 0 ≤ d) : pySum l = ((l.map Int.toNat).sum : ℕ) := by
  unfold pySum
  have : ∀ (acc : ℕ), l.foldl (· + ·) (acc : Int) = ((acc + (l.map Int.toNat).sum : ℕ) : Int) := by
    induction l with
    | nil => intro acc; simp
    | cons d l ih =>
      intro acc
      have hd := h d (by simp)
      simp only [List.foldl_cons, List.map_cons, List.sum_cons]
      have : (acc : Int) + d = ((acc + d.toNat : ℕ) : Int) := by omega
      rw [this, ih (fun x hx => h x (by simp [hx]))]
      congr 1; omega
  have := this 0
  simpa using this

end Splipy.PyO

namespace Splipy.PyO
open Splipy Splipy.Generated Splipy.C06
variable {K : Type} [Field K] [LinearOrder K]

/-! ## `derivative`: the two contractions have the same shape (no generated code) -/

theorem foldr_applyAxis_shape (L L' : List (ℕ × Mat K)) (cps : Tensor K)
    (h : L.map (fun x => (x.1, x.2.size)) = L'.map (fun x => (x.1, x.2.size))) :
    (L.foldr (fun (x : ℕ × Mat K) t => Tensor.applyAxis x.2 t x.1) cps).shape
      = (L'.foldr (fun (x : ℕ × Mat K) t => Tensor.applyAxis x.2 t x.1) cps).shape := by
  induction L generalizing L' with
  | nil =>
    cases L' with
    | nil => rfl
    | cons _ _ => simp at h
  | cons x L ih =>
    cases L' with
    | nil => simp at h
    | cons y L' =>
      simp only [List.map_cons, List.cons.injEq, Prod.mk.injEq] at h
      simp only [List.foldr_cons, applyAxis_shape', ih L' h.2, h.1.1, h.1.2]

theorem contractGrid_shape_congr (Ns Ns' : List (Mat K)) (cps : Tensor K)
    (h : Ns.map Array.size = Ns'.map Array.size) :
    (Obj.contractGrid Ns cps).shape = (Obj.contractGrid Ns' cps).shape := by
  have hl : Ns.length = Ns'.length := by
    have := congrArg List.length h; simpa using this
  apply foldr_applyAxis_shape
  rw [hl]
  apply List.ext_getElem
  · simp [hl]
  · intro k h1 h2
    simp only [List.getElem_map, List.getElem_zip, List.getElem_range, Prod.mk.injEq, true_and]
    have := congrArg (fun l => l[k]?) h
    simp only [List.getElem?_map] at this
    simp only [List.length_map, List.length_zip, List.length_range] at h1 h2
    rw [List.getElem?_eq_getElem (by omega), List.getElem?_eq_getElem (by omega)] at this
    simpa using this

end Splipy.PyO

namespace Splipy.PyO
open Splipy Splipy.Generated Splipy.C06
variable {K : Type} [Field K] [LinearOrder K] [FloorRing K]

/-! ### method: derivative -/

/-- both paths of the module-level `evaluate`, with the facts the rational post-processing needs -/
theorem evalfn_both (Ns : List (Mat K)) (cps : Tensor K) (tensor : Bool)
    (hlen : cps.shape.length = Ns.length + 1) (h1 : 1 ≤ Ns.length) (h3 : Ns.length ≤ 3) :
    PyObject.evaluate_fn Ns cps tensor
      = .ok (if tensor then Obj.contractGrid Ns cps else Obj.contractPointwise Ns cps (Ns.headD #[]).size) := by
  cases tensor with
  | true => simpa using PyObject_evaluate_fn_tensor_eq Ns cps hlen h3
  | false => simpa using PyObject_evaluate_fn_pointwise_eq Ns cps hlen h1 h3

theorem both_facts (Ns : List (Mat K)) (cps : Tensor K) (tensor : Bool) (m : ℕ)
    (hlen : cps.shape.length = Ns.length + 1) (h1 : 1 ≤ Ns.length) (h3 : Ns.length ≤ 3) :
    let res := (if tensor then Obj.contractGrid Ns cps else Obj.contractPointwise Ns cps m)
    res.shape ≠ [] ∧ lastN res = lastN cps ∧ res.data.size = Tensor.prod res.shape := by
  cases tensor with
  | true => simpa using contractGrid_facts Ns cps hlen h1
  | false =>
    obtain ⟨f1, f2⟩ := contractPointwise_facts Ns cps m hlen h1 h3
    simp only [Bool.false_eq_true, if_false]
    refine ⟨by rw [f1]; simp, by unfold lastN; rw [f1]; rfl, by rw [f2, f1]; simp [Tensor.prod]⟩

theorem ensure_dups_replicate {α : Type} (x : α) (n : ℕ) :
    ensure_listlike_dups (List.replicate n x) (n : Int) = List.replicate n x := by
  unfold ensure_listlike_dups
  cases n with
  | zero => rfl
  | succ n =>
    rw [List.getLast?_eq_some_getLast (by simp)]
    simp

theorem derivative_core (o : Obj K) (tol : K) (params : List (Param K))
    (kw_d : Option (List Int)) (kw_above : Option (List Bool)) (T : Bool)
    (hb : o.cps.shape.length = o.bases.size + 1) (hd1 : 1 ≤ o.bases.size) (hd3 : o.bases.size ≤ 3)
    (hp : params.length = o.bases.size)
    (hne : ∀ x ∈ List.zip o.bases.toList (params.map ensure_listlike), x.1.periodic < 0 → x.2 ≠ [])
    (hnc : 1 ≤ o.ncomp)
    (hD : o.bases.size ≤ (ensure_listlike_dups (kw_d.getD (List.replicate o.pardim 1)) (o.pardim : Int)).length)
    (hD0 : ∀ d ∈ ensure_listlike_dups (kw_d.getD (List.replicate o.pardim 1)) (o.pardim : Int), 0 ≤ d)
    (hA : o.bases.size ≤ (ensure_listlike_dups (kw_above.getD (List.replicate o.pardim true)) (o.pardim : Int)).length) :
    PyObject.derivative (ofObj o) tol params kw_d kw_above (some T) = (do
      let r ← o.derivativeGeneric tol (params.map ensure_listlike)
        ((ensure_listlike_dups (kw_d.getD (List.replicate o.pardim 1)) (o.pardim : Int)).map Int.toNat)
        (ensure_listlike_dups (kw_above.getD (List.replicate o.pardim true)) (o.pardim : Int)) T
      if params.all is_singleton then npReshape r [((o.dimension : ℕ) : Int)] else pure r) := by
  have hpd : o.pardim = o.bases.size := by unfold Obj.pardim; omega
  set D := ensure_listlike_dups (kw_d.getD (List.replicate o.pardim 1)) (o.pardim : Int) with hDdef
  set A := ensure_listlike_dups (kw_above.getD (List.replicate o.pardim true)) (o.pardim : Int) with hAdef
  unfold PyObject.derivative
  simp only [PyObject_pardim_eq o tol (by omega), ok_bind, kwGet, pure_eq_ok, listMul_singleton, Option.getD_some]
  rw [listComp_ok params _ is_singleton (fun _ _ => rfl), ok_bind,
    listComp_ok params _ ensure_listlike (fun _ _ => rfl), ok_bind]
  simp only [← hDdef, ← hAdef]
  rw [listComp_ok _ _ (fun p => len p) (fun _ _ => rfl)]
  simp only [ok_bind, setLen_lengths]
  have hite : ∀ (c : Prop) [Decidable c] (a b : Bool), (if c then (Except.ok a : PyM Bool) else .ok b) = .ok (if c then a else b) := by
    intro c _ a b; split_ifs <;> rfl
  simp only [ok_bind, hite]
  unfold Obj.derivativeGeneric
  set L := ((params.map ensure_listlike).map List.length).eraseDups.length with hL
  by_cases hc : (!T) = true ∧ L ≠ 1
  · have h1 : ¬ T = true := by simpa using hc.1
    have h2 : ((L : ℕ) : Int) ≠ 1 := by intro h; apply hc.2; exact_mod_cast h
    simp [h1, h2, hc.2]
  · have hc' : (if ¬ T = true then decide (((L : ℕ) : Int) ≠ 1) else false) = false := by
      by_cases h1 : T = true
      · simp [h1]
      · have : L = 1 := by
          by_contra h; exact hc ⟨by simpa using h1, h⟩
        simp [h1, this]
    have hc2 : ¬ (((!T) = true) ∧ L ≠ 1) := hc
    simp only [hc', Bool.false_eq_true, if_false, ok_bind]
    rw [if_neg hc2]
    rw [vd_model o tol _ (by simp [hp]) hne]
    cases hv : o.validateDomain tol (params.map ensure_listlike) with
    | error e => rfl
    | ok ps =>
      simp only [ok_bind, ofObj_bases, ofObj_cps, ofObj_rational, ofObj_dimension]
      have hpsl : ps.length = o.bases.size := by
        simp only [Obj.validateDomain] at hv
        split_ifs at hv
        cases hv
        simp [hp]
      -- the two lists of basis matrices
      set NsD := (List.zip (List.zip o.bases.toList ps) (List.zip (D.map Int.toNat) A)).map
        (fun x => Obj.basisMat x.1.1 tol x.1.2 x.2.1 x.2.2) with hNsD
      set Ns0 := (List.zip (List.zip o.bases.toList ps) (List.zip (A.map (fun _ => 0)) A)).map
        (fun x => Obj.basisMat x.1.1 tol x.1.2 x.2.1 x.2.2) with hNs0
      have hgD : (zip4 o.bases.toList ps D A).map (fun x => basisEvaluate x.1 tol x.2.1 x.2.2.1 x.2.2.2) = NsD := by
        rw [map_zip4 (fun b p d a => basisEvaluate b tol p d a), hNsD, List.zip_map_left, List.zip_map_right,
          List.map_map]
        rfl
      have hg0 : (zip3 o.bases.toList ps A).map (fun x => basisEvaluate x.1 tol x.2.1 0 x.2.2) = Ns0 := by
        have := map_zip3_zero (fun b p (d : ℕ) a => Obj.basisMat b tol p d a) o.bases.toList ps A
        rw [hNs0, ← this]
        rfl
      have hlD : NsD.length = o.bases.size := by
        simp only [hNsD, List.length_map, List.length_zip, Array.length_toList, hpsl]; omega
      have hl0 : Ns0.length = o.bases.size := by
        simp only [hNs0, List.length_map, List.length_zip, Array.length_toList, hpsl]; omega
      rw [listComp_ok _ _ (fun (x : Basis K × List K × Int × Bool) => basisEvaluate x.1 tol x.2.1 x.2.2.1 x.2.2.2)
          (fun _ _ => rfl), ok_bind, hgD,
        evalfn_both NsD o.cps T (by omega) (by omega) (by omega), ok_bind]
      have hps0 : ∃ p0 rest b0 brest, ps = p0 :: rest ∧ o.bases.toList = b0 :: brest := by
        cases hps : ps with
        | nil => rw [hps] at hpsl; simp at hpsl; omega
        | cons p0 rest =>
          cases hbs : o.bases.toList with
          | nil => have : o.bases.toList.length = 0 := by rw [hbs]; rfl
                   rw [Array.length_toList] at this; omega
          | cons b0 brest => exact ⟨p0, rest, b0, brest, rfl, rfl⟩
      have hDne : D ≠ [] ∧ A ≠ [] := by
        constructor
        · intro h
          have : D.length = 0 := by rw [h]; rfl
          omega
        · intro h
          have : A.length = 0 := by rw [h]; rfl
          omega
      have hmD : (NsD.headD #[]).size = (ps.headD []).length := by
        obtain ⟨p0, rest, b0, brest, e1, e2⟩ := hps0
        cases hDc : D with
        | nil => exact absurd hDc hDne.1
        | cons d0 drest =>
          cases hAc : A with
          | nil => exact absurd hAc hDne.2
          | cons a0 arest =>
            simp only [hNsD, e1, e2, hDc, hAc, List.map_cons, List.zip_cons_cons, List.headD_cons, Obj.basisMat]
            simp
      have hm0 : (Ns0.headD #[]).size = (ps.headD []).length := by
        obtain ⟨p0, rest, b0, brest, e1, e2⟩ := hps0
        cases hAc : A with
        | nil => exact absurd hAc hDne.2
        | cons a0 arest =>
          simp only [hNs0, e1, e2, hAc, List.map_cons, List.zip_cons_cons, List.headD_cons, Obj.basisMat]
          simp
      rw [hmD]
      obtain ⟨g1, g2, g3⟩ := both_facts NsD o.cps T (ps.headD []).length (by omega) (by omega) (by omega)
      set res := (if T = true then Obj.contractGrid NsD o.cps else Obj.contractPointwise NsD o.cps (ps.headD []).length)
        with hres
      have hsq : pyAll (List.map is_singleton params) = params.all is_singleton := by
        simp [pyAll, List.all_map]
      rw [hsq]
      by_cases hr : o.rational = true
      · simp only [hr, if_true]
        have hdim : o.dimension + 1 = o.ncomp := by
          unfold Obj.dimension; rw [if_pos hr]; omega
        have hlast : lastN res = o.dimension + 1 := by
          rw [g2, hdim]
          unfold lastN Obj.ncomp
          cases hsh : o.cps.shape with
          | nil => rw [hsh] at hb; simp at hb
          | cons a l => simp [List.getLastD_eq_getLast?, List.getLast?_eq_some_getLast (List.cons_ne_nil a l)]
        rw [pySum_toNat D hD0]
        set sm := (D.map Int.toNat).sum with hsm
        by_cases hs1 : sm > 1
        · have : ((sm : ℕ) : Int) > 1 := by omega
          simp [this, hs1]
        · have h1' : ¬ (((sm : ℕ) : Int) > 1) := by omega
          rw [if_neg h1', if_neg hs1]
          simp only [ok_bind]
          by_cases hs0 : sm = 0
          · have h0' : ((sm : ℕ) : Int) = 0 := by omega
            rw [if_pos h0', if_pos hs0]
            rw [(forRange_eq_foldl o.dimension res _ colDiv (fun st => lastN st = o.dimension + 1) hlast
              (by intro i st hi hst; exact ⟨colDiv_pass st i (by omega), hst⟩)).1]
            simp only [ok_bind]
            rw [foldl_colDiv res (by rw [g3, prod_eq_nPts_mul res g1]) _ (by omega),
              delete_colDivN res o.dimension g1 hlast, ok_bind, project_explicit res o.dimension g1 hlast, ← hdim]
            split_ifs <;> simp only [bind_ok_eta, ok_bind]
          · have h0' : ¬ (((sm : ℕ) : Int) = 0) := by omega
            rw [if_neg h0', if_neg hs0]
            rw [listComp_ok _ _ (fun (x : Basis K × List K × Bool) => basisEvaluate x.1 tol x.2.1 0 x.2.2)
              (fun _ _ => rfl), ok_bind, hg0, evalfn_both Ns0 o.cps T (by omega) (by omega) (by omega), ok_bind, hm0]
            obtain ⟨n1, n2, n3⟩ := both_facts Ns0 o.cps T (ps.headD []).length (by omega) (by omega) (by omega)
            set nond := (if T = true then Obj.contractGrid Ns0 o.cps
              else Obj.contractPointwise Ns0 o.cps (ps.headD []).length) with hnond
            have hshape : nond.shape = res.shape := by
              rw [hnond, hres]
              cases T with
              | true =>
                simp only [if_true]
                apply contractGrid_shape_congr
                have hfst : ∀ (R : List (ℕ × Bool)), (List.zip o.bases.toList ps).length ≤ R.length →
                    ((List.zip (List.zip o.bases.toList ps) R).map
                      (fun x => Obj.basisMat x.1.1 tol x.1.2 x.2.1 x.2.2)).map Array.size
                      = (List.zip o.bases.toList ps).map (fun x => x.2.length) := by
                  intro R hR
                  rw [List.map_map]
                  have : ((fun (m : Mat K) => m.size) ∘ fun (x : (Basis K × List K) × ℕ × Bool) =>
                      Obj.basisMat x.1.1 tol x.1.2 x.2.1 x.2.2) = (fun x => x.1.2.length) := by
                    funext x; simp [Obj.basisMat]
                  rw [this]
                  have hz : (List.zip (List.zip o.bases.toList ps) R).map (fun x => x.1.2.length)
                      = ((List.zip (List.zip o.bases.toList ps) R).map Prod.fst).map (fun x => x.2.length) := by
                    rw [List.map_map]; rfl
                  rw [hz, List.map_fst_zip hR]
                have hzl : (List.zip o.bases.toList ps).length = o.bases.size := by
                  simp [hpsl]
                rw [hNs0, hNsD, hfst _ (by simp [hzl]; omega), hfst _ (by simp [hzl]; omega)]
              | false =>
                simp only [Bool.false_eq_true, if_false]
                rw [(contractPointwise_facts Ns0 o.cps _ (by omega) (by omega) (by omega)).1,
                  (contractPointwise_facts NsD o.cps _ (by omega) (by omega) (by omega)).1]
            have hLn : lastN nond = lastN res := by rw [n2, g2]
            have hPn : nPts nond = nPts res := by unfold nPts; rw [hshape]
            have hW : getLast nond (-1) = .ok (Tensor.mk nond.shape.dropLast
                (Array.ofFn (n := nPts nond) (fun p => nond.get (p.val * lastN nond + (lastN nond - 1))))) := by
              simp only [getLast, normIdx_neg_one (show 1 ≤ lastN nond by omega)]
            have hWd : getLast res (-1) = .ok (Tensor.mk res.shape.dropLast
                (Array.ofFn (n := nPts res) (fun p => res.get (p.val * lastN res + (lastN res - 1))))) := by
              simp only [getLast, normIdx_neg_one (show 1 ≤ lastN res by omega)]
            rw [hW, ok_bind, hWd, ok_bind]
            rw [foldlM_ratN res nond (by rw [g3, prod_eq_nPts_mul res g1]) o.dimension (by omega) hLn hPn _ _ hW hWd _
              (by intro i hi; simp only [bind_ok_eta])]
            simp only [ok_bind]
            rw [delete_ratN res nond o.dimension g1 hlast, ok_bind, ← hdim]
            split_ifs <;> simp only [bind_ok_eta, ok_bind]
      · simp only [hr, Bool.false_eq_true, if_false, ok_bind]
        split_ifs <;> simp only [bind_ok_eta, ok_bind]

theorem _root_.PyObject_derivative_eq (o : Obj K) (tol : K) (params : List (Param K))
    (kw_d : Option (List Int)) (kw_above : Option (List Bool)) (kw : Option Bool)
    (hb : o.cps.shape.length = o.bases.size + 1) (hd1 : 1 ≤ o.bases.size) (hd3 : o.bases.size ≤ 3)
    (hp : params.length = o.bases.size)
    (hne : ∀ x ∈ List.zip o.bases.toList (params.map ensure_listlike), x.1.periodic < 0 → x.2 ≠ [])
    (hnc : 1 ≤ o.ncomp)
    (hD : o.bases.size ≤ (ensure_listlike_dups (kw_d.getD (List.replicate o.pardim 1)) (o.pardim : Int)).length)
    (hD0 : ∀ d ∈ ensure_listlike_dups (kw_d.getD (List.replicate o.pardim 1)) (o.pardim : Int), 0 ≤ d)
    (hA : o.bases.size ≤ (ensure_listlike_dups (kw_above.getD (List.replicate o.pardim true)) (o.pardim : Int)).length) :
    PyObject.derivative (ofObj o) tol params kw_d kw_above kw = (do
      let r ← o.derivativeGeneric tol (params.map ensure_listlike)
        ((ensure_listlike_dups (kw_d.getD (List.replicate o.pardim 1)) (o.pardim : Int)).map Int.toNat)
        (ensure_listlike_dups (kw_above.getD (List.replicate o.pardim true)) (o.pardim : Int)) (kw.getD true)
      if params.all is_singleton then npReshape r [((o.dimension : ℕ) : Int)] else pure r) := by
  cases kw with
  | none =>
    have : PyObject.derivative (ofObj o) tol params kw_d kw_above none
        = PyObject.derivative (ofObj o) tol params kw_d kw_above (some true) := rfl
    rw [this]
    exact derivative_core o tol params kw_d kw_above true hb hd1 hd3 hp hne hnc hD hD0 hA
  | some T => exact derivative_core o tol params kw_d kw_above T hb hd1 hd3 hp hne hnc hD hD0 hA

end Splipy.PyO

-- ---------------------------------------------------------------------------- t3b part 0

namespace Splipy.PyO
open Splipy Splipy.Generated Splipy.C06
variable {K : Type} [Field K] [LinearOrder K] [FloorRing K]

/-! ## `insert_knot` of the hand model: one more knot (no generated code) -/

theorem insertAt_size (a : Array K) (mu : ℕ) (x : K) : (Basis.insertAt a mu x).size = a.size + 1 := by
  unfold Basis.insertAt
  simp only [Array.size_append, Array.size_push, Array.size_extract]
  omega

theorem foldl_set!_size {α : Type} (l : List α) (f : Array K → α → ℕ) (g : Array K → α → K) (a : Array K) :
    (l.foldl (fun a i => a.set! (f a i) (g a i)) a).size = a.size := by
  induction l generalizing a with
  | nil => rfl
  | cons x l ih => simp only [List.foldl_cons]; rw [ih]; simp

theorem insertKnotDirect_size (b : Basis K) (x : K) (r : Basis K × Mat K) (h : b.insertKnotDirect x = .ok r) :
    r.1.knots.size = b.knots.size + 1 ∧ (b.knots.size : Int) - (b.order : Int) - (b.periodic + 1) ≥ 0 := by
  unfold Basis.insertKnotDirect at h
  simp only [] at h
  by_cases h1 : (b.knots.size : Int) - (b.order : Int) - (b.periodic + 1) < 0
  · rw [if_pos h1] at h; exact absurd h (by simp)
  · rw [if_neg h1] at h
    refine ⟨?_, by omega⟩
    split_ifs at h
    · cases h; exact (foldl_set!_size _ _ _ _).trans (insertAt_size _ _ _)
    · cases h; exact (foldl_set!_size _ _ _ _).trans (insertAt_size _ _ _)
    · cases h; exact insertAt_size _ _ _
    · cases h; exact insertAt_size _ _ _

theorem insertKnotPlain_size (b : Basis K) (x : K) (r : Basis K × Mat K) (h : b.insertKnotPlain x = .ok r) :
    r.1.knots.size = b.knots.size + 1 := by
  unfold Basis.insertKnotPlain at h
  cases hw : b.insertWrap x with
  | error e => rw [hw] at h; exact absurd h (by simp)
  | ok x' => rw [hw] at h; exact (insertKnotDirect_size b x' r h).1

theorem foldl_push_size {α : Type} (l : List α) (f : Array K → K) (a : Array K) :
    (l.foldl (fun (a : Array K) _ => a.push (f a)) a).size = a.size + l.length := by
  induction l generalizing a with
  | nil => rfl
  | cons x l ih => simp only [List.foldl_cons, List.length_cons]; rw [ih]; simp; omega

theorem foldlM_grow {α σ : Type} (sz : σ → ℕ) (l : List α) (step : σ → PyM σ)
    (hstep : ∀ s s', step s = .ok s' → sz s' = sz s + 1) (s s' : σ)
    (h : l.foldlM (fun st _ => step st) s = .ok s') : sz s' = sz s + l.length := by
  induction l generalizing s with
  | nil => simp only [List.foldlM_nil] at h; cases h; rfl
  | cons a l ih =>
    simp only [List.foldlM_cons] at h
    cases hs : step s with
    | error e => rw [hs] at h; exact absurd h (by simp)
    | ok s1 =>
      rw [hs] at h
      have := ih s1 h
      rw [this, hstep s s1 hs, List.length_cons]; omega

theorem insertKnot_size (b : Basis K) (x : K) (r : Basis K × Mat K) (h : b.insertKnot x = .ok r) :
    r.1.knots.size = b.knots.size + 1 ∧ (b.knots.size : Int) - (b.order : Int) - (b.periodic + 1) ≥ 0 := by
  unfold Basis.insertKnot at h
  cases hw : b.insertWrap x with
  | error e => rw [hw] at h; exact absurd h (by simp)
  | ok x' =>
    rw [hw] at h
    simp only [] at h
    by_cases hc : b.periodic ≥ 0 ∧ (b.knots.size : Int) - (b.order : Int) - (b.periodic + 1) < (b.order : Int) + b.periodic
    · rw [if_pos hc] at h
      by_cases h1 : (b.knots.size : Int) - (b.order : Int) - (b.periodic + 1) < 0
      · rw [if_pos h1] at h; exact absurd h (by simp)
      · rw [if_neg h1] at h
        by_cases h2 : (b.knots.size : Int) - (b.order : Int) - (b.periodic + 1) = 0
        · rw [if_pos h2] at h; exact absurd h (by simp)
        · rw [if_neg h2] at h
          refine ⟨?_, by omega⟩
          split at h
          · exact absurd h (by simp)
          · rename_i cover C z hfold
            cases h
            simp only [Array.size_extract]
            have hg := foldlM_grow (fun (st : Basis K × Mat K × K) => st.1.knots.size) _ _
              (fun s s' hs => by
                split at hs
                · exact absurd hs (by simp)
                · rename_i c' Ck hp
                  cases hs
                  exact insertKnotPlain_size _ _ _ hp) _ _ hfold
            simp only [List.length_range] at hg
            have hck : (b.coverKnots ((b.order + b.periodic.toNat + b.numFunctions - 1) / b.numFunctions)).size
                ≥ b.knots.size := by
              unfold Basis.coverKnots
              simp only []
              rw [foldl_push_size]; omega
            have hn : (b.numFunctions : Int) = (b.knots.size : Int) - (b.order : Int) - (b.periodic + 1) := by
              unfold Basis.numFunctions
              omega
            have hR : 1 ≤ (b.order + b.periodic.toNat + b.numFunctions - 1) / b.numFunctions := by
              rw [Nat.le_div_iff_mul_le (by omega)]
              omega
            omega
    · rw [if_neg hc] at h
      exact insertKnotDirect_size b x' r h

end Splipy.PyO

-- ---------------------------------------------------------------------------- t3b part 1

namespace Splipy.PyO
open Splipy Splipy.Generated Splipy.C06
variable {K : Type} [Field K] [LinearOrder K] [FloorRing K]

/-! ## `lower_periodic`: one pass of the hand model's loop (no generated code) -/

theorem insertKnotDirect_fields (b : Basis K) (x : K) (r : Basis K × Mat K) (h : b.insertKnotDirect x = .ok r) :
    r.1.periodic = b.periodic ∧ r.1.order = b.order := by
  unfold Basis.insertKnotDirect at h
  simp only [] at h
  split_ifs at h <;> first | (cases h; exact ⟨rfl, rfl⟩) | (exact absurd h (by simp))

theorem insertKnot_fields (b : Basis K) (x : K) (r : Basis K × Mat K) (h : b.insertKnot x = .ok r) :
    r.1.periodic = b.periodic ∧ r.1.order = b.order := by
  unfold Basis.insertKnot at h
  cases hw : b.insertWrap x with
  | error e => rw [hw] at h; exact absurd h (by simp)
  | ok x' =>
    rw [hw] at h
    simp only [] at h
    by_cases hc : b.periodic ≥ 0 ∧ (b.knots.size : Int) - (b.order : Int) - (b.periodic + 1) < (b.order : Int) + b.periodic
    · rw [if_pos hc] at h
      by_cases h1 : (b.knots.size : Int) - (b.order : Int) - (b.periodic + 1) < 0
      · rw [if_pos h1] at h; exact absurd h (by simp)
      · rw [if_neg h1] at h
        by_cases h2 : (b.knots.size : Int) - (b.order : Int) - (b.periodic + 1) = 0
        · rw [if_pos h2] at h; exact absurd h (by simp)
        · rw [if_neg h2] at h
          split at h
          · exact absurd h (by simp)
          · cases h; exact ⟨rfl, rfl⟩
    · rw [if_neg hc] at h
      exact insertKnotDirect_fields b x' r h

/-- the body of the model's loop -/
def lpStep (o : Obj K) (dir : ℕ) : PyM (Obj K) := do
  let b := o.basis dir
  let o1 ← o.insertKnots [b.start] dir
  let cps := o1.cps.rollAxisNeg dir 1
  let b1 ← (o1.basis dir).roll 1
  let b2 : Basis K := { b1 with periodic := b1.periodic - 1,
                                knots := b1.knots.extract 0 (b1.knots.size - 1) }
  pure { o1 with bases := o1.bases.set! dir b2, cps := cps }

theorem lp_loop_succ (target : Int) (dir f : ℕ) (o : Obj K) :
    Obj.lowerPeriodic.loop target dir (f + 1) o
      = (if target < (o.basis dir).periodic then lpStep o dir >>= Obj.lowerPeriodic.loop target dir f
         else if target > (o.basis dir).periodic then .error .value else .ok o) := by
  rw [Obj.lowerPeriodic.loop]
  unfold lpStep
  simp only [bind_assoc, pure_bind]
  rfl

/-- invariant of the loop: one basis per parametric axis, `dir` in range -/
def LpInv (o : Obj K) (dir : ℕ) : Prop := o.cps.shape.length = o.bases.size + 1 ∧ dir < o.bases.size

theorem insertKnots_single (o : Obj K) (x : K) (dir : ℕ) :
    o.insertKnots [x] dir = (match (o.basis dir).insertKnot x with
      | .error e => .error e
      | .ok r => .ok { o with bases := o.bases.set! dir r.1,
                              cps := Tensor.applyAxis (Mat.mul r.2 (Mat.identity (o.cps.shape.getD dir 0))) o.cps dir }) := by
  unfold Obj.insertKnots
  simp only [List.foldlM_cons, List.foldlM_nil]
  cases (o.basis dir).insertKnot x <;> rfl

theorem rollAxisNeg_shape (t : Tensor K) (d k : ℕ) : (t.rollAxisNeg d k).shape = t.shape := by
  unfold Tensor.rollAxisNeg Tensor.reindexAxis Tensor.build3
  simp only []
  exact set_getD_self _ _ _

theorem basis_set (bs : Array (Basis K)) (dir : ℕ) (h : dir < bs.size) (b : Basis K) (c : Tensor K) (r : Bool) :
    (Obj.mk (bs.set! dir b) c r).basis dir = b := by
  unfold Obj.basis
  simp [Array.getD, h]

theorem lpStep_facts (o o' : Obj K) (dir : ℕ) (hI : LpInv o dir) (h : lpStep o dir = .ok o') :
    LpInv o' dir ∧ (o'.basis dir).periodic = (o.basis dir).periodic - 1 := by
  unfold lpStep at h
  simp only [] at h
  rw [insertKnots_single] at h
  cases hk : (o.basis dir).insertKnot (o.basis dir).start with
  | error e => rw [hk] at h; exact absurd h (by simp)
  | ok r =>
    rw [hk] at h
    simp only [ok_bind] at h
    obtain ⟨f1, _⟩ := insertKnot_fields _ _ _ hk
    rw [basis_set _ _ hI.2] at h
    unfold Basis.roll at h
    split_ifs at h with hp
    · exact absurd h (by simp)
    · simp only [ok_bind, pure_eq_ok] at h
      cases h
      refine ⟨⟨?_, ?_⟩, ?_⟩
      · simp only [rollAxisNeg_shape, applyAxis_shape', List.length_set, Array.set!_eq_setIfInBounds,
          Array.size_setIfInBounds]
        exact hI.1
      · simp only [Array.set!_eq_setIfInBounds, Array.size_setIfInBounds]; exact hI.2
      · rw [basis_set _ _ (by simp only [Array.set!_eq_setIfInBounds, Array.size_setIfInBounds]; exact hI.2)]
        simp only [f1]

/-- the generated `while` loop followed by the final test is the model's fuelled loop -/
theorem lp_loop (target : Int) (dir : ℕ) (c : PyObj K → PyM Bool) (body : PyObj K → PyM (PyObj K))
    (post : PyObj K → PyM (PyObj K))
    (hc : ∀ o, LpInv o dir → c (ofObj o) = .ok (decide (target < (o.basis dir).periodic)))
    (hbody : ∀ o, LpInv o dir → body (ofObj o) = (lpStep o dir).map ofObj)
    (hpost : ∀ o, LpInv o dir → post (ofObj o)
      = if target > (o.basis dir).periodic then .error .value else .ok (ofObj o)) :
    ∀ (n : ℕ) (o : Obj K), LpInv o dir → n = ((o.basis dir).periodic - target).toNat →
      (whileFuelM n (ofObj o) c body >>= post) = (Obj.lowerPeriodic.loop target dir (n + 1) o).map ofObj := by
  intro n
  induction n with
  | zero =>
    intro o hI hn
    have hle : ¬ target < (o.basis dir).periodic := by omega
    rw [lp_loop_succ, if_neg hle]
    simp only [whileFuelM, hc o hI, hle, decide_false, ok_bind, Bool.false_eq_true, if_false, hpost o hI]
    split_ifs <;> rfl
  | succ n ih =>
    intro o hI hn
    have hlt : target < (o.basis dir).periodic := by omega
    rw [lp_loop_succ, if_pos hlt]
    simp only [whileFuelM, hc o hI, hlt, decide_true, ok_bind, if_true, hbody o hI]
    cases hs : lpStep o dir with
    | error e => rfl
    | ok o' =>
      obtain ⟨hI', hp'⟩ := lpStep_facts o o' dir hI hs
      simp only [map_ok, ok_bind]
      exact ih o' hI' (by omega)

end Splipy.PyO

-- ---------------------------------------------------------------------------- t3b part 2

namespace Splipy.PyO
open Splipy Splipy.Generated Splipy.C06
variable {K : Type} [Field K] [LinearOrder K] [FloorRing K]

/-! ## small facts used by several methods (no generated code) -/

theorem slice_dropLast_toArray (a : Array K) :
    (slice a.toList none (some (-1))).toArray = a.extract 0 (a.size - 1) := by
  rw [slice_dropLast]
  apply Array.ext
  · simp
  · intro i h1 h2
    simp [List.getElem_dropLast]

theorem ofObj_dimension_shape (o o' : Obj K) (h : o'.cps.shape.getLastD 0 = o.cps.shape.getLastD 0)
    (hr : o'.rational = o.rational) : o'.dimension = o.dimension := by
  unfold Obj.dimension Obj.ncomp
  rw [h, hr]

/-! ### method: lower_periodic -/

theorem lp_body (o : Obj K) (tol : K) (dir : ℕ) (hI : LpInv o dir) (hd2 : dir ≤ 2) :
    (do
      let tmp8 ← PyObject.start_dir (ofObj o) tol (DirTok.int dir)
      let self_ ← PyObject.insert_knot (ofObj o) tol (Param.scalar tmp8) (DirTok.int dir)
      let tmp9 ← npRoll self_.controlpoints (-1 : Int) (dir : Int)
      let self_ : PyObj K := { self_ with controlpoints := tmp9 }
      let tmp10 ← getBasis self_.bases (dir : Int)
      let tmp11 ← basisRoll tmp10 (1 : Int)
      let tmp12 ← setBasis self_.bases (dir : Int) tmp11
      let self_ : PyObj K := { self_ with bases := tmp12 }
      let tmp13 ← getBasis self_.bases (dir : Int)
      let tmp14 ← getBasis self_.bases (dir : Int)
      let tmp15 ← setBasis self_.bases (dir : Int) { tmp14 with periodic := (tmp13.periodic - (1 : Int)) }
      let self_ : PyObj K := { self_ with bases := tmp15 }
      let tmp16 ← getBasis self_.bases (dir : Int)
      let tmp17 ← getBasis self_.bases (dir : Int)
      let tmp18 ← setBasis self_.bases (dir : Int)
        { tmp17 with knots := (slice tmp16.knots.toList none (some (-1 : Int))).toArray }
      let self_ : PyObj K := { self_ with bases := tmp18 }
      pure self_) = (lpStep o dir).map ofObj := by
  obtain ⟨hb, hdir⟩ := hI
  have hpd : o.pardim = o.bases.size := by unfold Obj.pardim; omega
  rw [PyObject_start_dir_eq o tol _ (by omega) (by omega), checkDirection_int (by omega) hd2]
  simp only [map_ok, ok_bind]
  rw [PyObject_insert_knot_eq o tol _ _ hb, checkDirection_int (by omega) hd2]
  simp only [ok_bind, ensure_listlike]
  unfold lpStep
  simp only []
  cases hk : o.insertKnots [(o.basis dir).start] dir with
  | error e => rfl
  | ok o1 =>
    have hk' := hk
    rw [insertKnots_single] at hk'
    have ho1 : o1.bases.size = o.bases.size ∧ o1.cps.shape.length = o.cps.shape.length := by
      cases hi : (o.basis dir).insertKnot (o.basis dir).start with
      | error e => rw [hi] at hk'; exact absurd hk' (by simp)
      | ok r =>
        rw [hi] at hk'
        cases hk'
        simp [applyAxis_shape']
    simp only [ok_bind, pure_eq_ok, ofObj_cps, ofObj_bases]
    unfold npRoll
    rw [normIdx_nat (by omega)]
    have hneg : ¬ ((0 : Int) ≤ -1) := by omega
    simp only [hneg, if_false, ok_bind]
    rw [getBasis_nat _ (by omega), ok_bind]
    unfold basisRoll
    have h1 : ¬ ((1 : Int) < 0) := by omega
    simp only [h1, if_false]
    have hguard : ¬ (((o1.basis dir).order : Int) + (o1.basis dir).periodic + 1 + 1 > ((o1.basis dir).knots.size : Int)) := by
      cases hi : (o.basis dir).insertKnot (o.basis dir).start with
      | error e => rw [hi] at hk'; exact absurd hk' (by simp)
      | ok r =>
        rw [hi] at hk'
        cases hk'
        obtain ⟨f1, f2⟩ := insertKnot_fields _ _ _ hi
        obtain ⟨f3, f4⟩ := insertKnot_size _ _ _ hi
        rw [basis_set _ _ hdir]
        rw [f1, f2, f3]
        push_cast
        omega
    have hbd : o1.bases.getD dir default = o1.basis dir := rfl
    rw [hbd]
    rw [show (if (o1.basis dir).periodic < 0 then (Except.error PyErr.runtime : PyM (Basis K))
          else if ((o1.basis dir).order : Int) + (o1.basis dir).periodic + 1 + 1 > ((o1.basis dir).knots.size : Int)
            then Except.error PyErr.value else (o1.basis dir).roll (Int.toNat 1)) = (o1.basis dir).roll 1 from by
      by_cases hp : (o1.basis dir).periodic < 0
      · rw [if_pos hp]; unfold Basis.roll; rw [if_pos hp]
      · rw [if_neg hp, if_neg hguard]; rfl]
    show (do let tmp11 ← (o1.basis dir).roll 1; _) = _
    cases hroll : (o1.basis dir).roll 1 with
    | error e => rfl
    | ok b1 =>
      simp only [ok_bind]
      rw [setBasis_nat _ (by omega)]
      simp only [ok_bind]
      rw [getBasis_nat _ (by simp; omega), getD_set!_self _ _ (by omega)]
      simp only [ok_bind]
      rw [setBasis_nat _ (by simp; omega)]
      simp only [ok_bind, set!_set!]
      rw [getBasis_nat _ (by simp; omega), getD_set!_self _ _ (by omega)]
      simp only [ok_bind]
      rw [setBasis_nat _ (by simp; omega)]
      simp only [ok_bind, set!_set!, map_ok, slice_dropLast_toArray]
      have e1 : (- (-1 : Int)).toNat = 1 := by decide
      rw [e1]
      congr 1
      unfold ofObj
      simp only [PyObj.mk.injEq, true_and, and_true, Nat.cast_inj]
      symm
      apply ofObj_dimension_shape
      · simp only [rollAxisNeg_shape]
      · rfl

theorem _root_.PyObject_lower_periodic_eq (o : Obj K) (tol : K) (target : Int) (d : DirTok)
    (hb : o.cps.shape.length = o.bases.size + 1) :
    PyObject.lower_periodic (ofObj o) tol target d = (do
      let dir ← checkDirection d o.pardim
      let o' ← o.lowerPeriodic target dir
      pure (ofObj o')) := by
  have hpd : o.pardim = o.bases.size := by unfold Obj.pardim; omega
  unfold PyObject.lower_periodic
  simp only [PyObject_pardim_eq o tol (by omega), ok_bind, PyObject_check_direction_eq]
  cases hc : checkDirection d o.pardim with
  | error e => rfl
  | ok dir =>
    have hdir := checkDirection_lt hc
    have hd2 := checkDirection_le2 hc
    have hI : LpInv o dir := ⟨hb, by omega⟩
    simp only [map_ok, ok_bind, ofObj_bases]
    rw [getBasis_nat _ (by omega), ok_bind]
    unfold Obj.lowerPeriodic
    have hbas : o.bases.getD dir default = o.basis dir := rfl
    rw [hbas]
    simp only [pure_eq_ok]
    refine (lp_loop target dir _ _ _ ?_ ?_ ?_ _ o hI rfl).trans ?_
    · intro o' hI'
      simp only [ofObj_bases]
      rw [getBasis_nat _ hI'.2]
      rfl
    · exact fun o' hI' => lp_body o' tol dir hI' hd2
    · intro o' hI'
      simp only [ofObj_bases]
      rw [getBasis_nat _ hI'.2, ok_bind]
      have hb' : o'.bases.getD dir default = o'.basis dir := rfl
      rw [hb']
      split_ifs <;> rfl
    · cases Obj.lowerPeriodic.loop target dir (((o.basis dir).periodic - target).toNat + 1) o <;> rfl

end Splipy.PyO

-- ---------------------------------------------------------------------------- t3b part 3

namespace Splipy.PyO
open Splipy Splipy.Generated Splipy.C06 Splipy.Tensor
variable {K : Type} [Field K] [LinearOrder K]

/-! ## indexing one axis (`t[:, …, i, …, :]`), no generated code -/

theorem build3_congr (shape : List ℕ) (ax m : ℕ) (f g : ℕ → ℕ → ℕ → K)
    (h : ∀ a r i, a < Tensor.prod (shape.take ax) → r < m → i < Tensor.prod (shape.drop (ax + 1)) → f a r i = g a r i) :
    Tensor.build3 shape ax m f = Tensor.build3 shape ax m g := by
  unfold Tensor.build3 Tensor.split3
  simp only []
  congr 1
  apply Array.ext
  · simp
  · intro k h1 h2
    simp only [Array.size_ofFn] at h1
    simp only [Array.getElem_ofFn]
    set o := Tensor.prod (shape.take ax)
    set inn := Tensor.prod (shape.drop (ax + 1))
    have hinn : 0 < inn := by
      rcases Nat.eq_zero_or_pos inn with h0 | h0
      · rw [h0] at h1; simp at h1
      · exact h0
    have hm : 0 < m := by
      rcases Nat.eq_zero_or_pos m with h0 | h0
      · rw [h0] at h1; simp at h1
      · exact h0
    apply h
    · apply Nat.div_lt_of_lt_mul
      calc k < o * m * inn := h1
        _ = inn * m * o := by ring
    · exact Nat.mod_lt _ hm
    · exact Nat.mod_lt _ hinn

theorem takeAxis_shape' (t : Tensor K) (ax k : ℕ) : (t.takeAxis ax k).shape = t.shape.eraseIdx ax := by
  unfold Tensor.takeAxis Tensor.reindexAxis Tensor.build3
  simp only []
  apply List.ext_getElem?
  intro j
  simp only [List.getElem?_eraseIdx, List.getElem?_set]
  split_ifs <;> first | rfl | omega

theorem takeAxis_size (t : Tensor K) (ax k : ℕ) :
    (t.takeAxis ax k).data.size = Tensor.prod (t.shape.take ax) * Tensor.prod (t.shape.drop (ax + 1)) := by
  unfold Tensor.takeAxis Tensor.reindexAxis
  simp [Tensor.build3, Tensor.split3]

theorem takeAxis_get' (t : Tensor K) (ax k : ℕ) {a i : ℕ} (ha : a < Tensor.prod (t.shape.take ax))
    (hi : i < Tensor.prod (t.shape.drop (ax + 1))) :
    (t.takeAxis ax k).get (a * Tensor.prod (t.shape.drop (ax + 1)) + i) = t.at3 ax a k i := by
  unfold Tensor.takeAxis Tensor.reindexAxis
  have := Tensor.build3_readback t.shape ax 1 (fun a r i => t.at3 ax a k i) (a := a) (r := 0) (i := i) ha (by omega) hi
  simp only [Nat.mul_one, Nat.add_zero] at this
  exact this

theorem set_replicate_all (nd dir : ℕ) (tok : IdxTok) (h : dir < nd) :
    (List.replicate nd IdxTok.all).set dir tok
      = List.replicate dir IdxTok.all ++ tok :: List.replicate (nd - dir - 1) IdxTok.all := by
  apply List.ext_getElem
  · simp; omega
  · intro k h1 h2
    simp only [List.getElem_set, List.getElem_append, List.length_replicate, List.getElem_replicate,
      List.getElem_cons]
    by_cases hk : dir = k
    · subst hk; simp
    · by_cases hlt : k < dir
      · simp [hk, hlt]
      · have : ¬ (k - dir = 0) := by omega
        simp [hk, hlt, this]

/-- the fold of `npIndex` -/
def ixStep (st : Tensor K × ℕ) (tok : IdxTok) : PyM (Tensor K × ℕ) :=
  match tok with
  | .all => pure (st.1, st.2 + 1)
  | .range lo hi =>
    let n := st.1.shape.getD st.2 0
    pure (st.1.sliceAxis st.2 (sliceLo n lo) (max (sliceLo n lo) (sliceHi n hi)), st.2 + 1)
  | .at i =>
    match normIdx (st.1.shape.getD st.2 0) i with
    | some k => pure (st.1.takeAxis st.2 k, st.2)
    | none => .error .index

theorem npIndex_eq (t : Tensor K) (ix : List IdxTok) :
    npIndex t ix = if t.shape.length < ix.length then .error .index
      else (ix.foldlM ixStep (t, 0)).map (fun st => st.1) := rfl

theorem fold_all (t : Tensor K) (ax n : ℕ) :
    (List.replicate n IdxTok.all).foldlM ixStep (t, ax) = .ok (t, ax + n) := by
  induction n generalizing ax with
  | zero => rfl
  | succ n ih =>
    rw [List.replicate_succ, List.foldlM_cons]
    show (pure (t, ax + 1) >>= fun s => List.foldlM ixStep s (List.replicate n IdxTok.all)) = _
    rw [pure_bind, ih]
    congr 2; omega

theorem npIndex_at (t : Tensor K) (dir : ℕ) (i : Int) (h : dir < t.shape.length) :
    npIndex t ((List.replicate t.shape.length IdxTok.all).set dir (.at i))
      = match normIdx (t.shape.getD dir 0) i with
        | some k => .ok (t.takeAxis dir k)
        | none => .error .index := by
  rw [npIndex_eq, set_replicate_all _ _ _ h]
  have hl : ¬ t.shape.length < (List.replicate dir IdxTok.all ++ IdxTok.at i ::
      List.replicate (t.shape.length - dir - 1) IdxTok.all).length := by simp; omega
  rw [if_neg hl, List.foldlM_append, fold_all]
  simp only [ok_bind, Nat.zero_add, List.foldlM_cons]
  rw [show ixStep (t, dir) (IdxTok.at i) = (match normIdx (t.shape.getD dir 0) i with
      | some k => pure (t.takeAxis dir k, dir)
      | none => .error .index) from rfl]
  cases normIdx (t.shape.getD dir 0) i with
  | none => rfl
  | some k =>
    simp only [pure_eq_ok, ok_bind]
    rw [fold_all (t.takeAxis dir k) dir (t.shape.length - dir - 1)]
    rfl

theorem npIndex_range (t : Tensor K) (dir : ℕ) (lo hi : Option Int) (h : dir < t.shape.length) :
    npIndex t ((List.replicate t.shape.length IdxTok.all).set dir (.range lo hi))
      = .ok (t.sliceAxis dir (sliceLo (t.shape.getD dir 0) lo)
          (max (sliceLo (t.shape.getD dir 0) lo) (sliceHi (t.shape.getD dir 0) hi))) := by
  rw [npIndex_eq, set_replicate_all _ _ _ h]
  have hl : ¬ t.shape.length < (List.replicate dir IdxTok.all ++ IdxTok.range lo hi ::
      List.replicate (t.shape.length - dir - 1) IdxTok.all).length := by simp; omega
  rw [if_neg hl, List.foldlM_append, fold_all]
  simp only [ok_bind, Nat.zero_add, List.foldlM_cons]
  rw [show ixStep (t, dir) (IdxTok.range lo hi) = pure (t.sliceAxis dir (sliceLo (t.shape.getD dir 0) lo)
          (max (sliceLo (t.shape.getD dir 0) lo) (sliceHi (t.shape.getD dir 0) hi)), dir + 1) from rfl]
  simp only [pure_eq_ok, ok_bind]
  rw [fold_all _ (dir + 1) (t.shape.length - dir - 1)]
  rfl

theorem findIdx_replicate_all (n : ℕ) :
    (List.replicate n IdxTok.all).findIdx (fun x => decide (x ≠ IdxTok.all)) = n := by
  induction n with
  | zero => rfl
  | succ n ih =>
    rw [List.replicate_succ, List.findIdx_cons]
    simp only [ne_eq, not_true_eq_false, decide_false, cond_false]
    rw [ih]

theorem npSetIndex_at (t v : Tensor K) (dir : ℕ) (i : Int) (k : ℕ) (h : dir < t.shape.length)
    (hk : normIdx (t.shape.getD dir 0) i = some k) (hv : v.shape = t.shape.eraseIdx dir) :
    npSetIndex t ((List.replicate t.shape.length IdxTok.all).set dir (.at i)) v = .ok (putAxis t dir k v) := by
  unfold npSetIndex
  rw [set_replicate_all _ _ _ h]
  have hl : ¬ t.shape.length < (List.replicate dir IdxTok.all ++ IdxTok.at i ::
      List.replicate (t.shape.length - dir - 1) IdxTok.all).length := by simp; omega
  rw [if_neg hl]
  have hf : (List.replicate dir IdxTok.all ++ IdxTok.at i ::
      List.replicate (t.shape.length - dir - 1) IdxTok.all).filter (fun x => decide (x ≠ IdxTok.all)) = [IdxTok.at i] := by
    rw [List.filter_append, List.filter_cons]
    simp [List.filter_replicate]
  have hi : (List.replicate dir IdxTok.all ++ IdxTok.at i ::
      List.replicate (t.shape.length - dir - 1) IdxTok.all).findIdx (fun x => decide (x ≠ IdxTok.all)) = dir := by
    rw [List.findIdx_append, findIdx_replicate_all]
    simp [List.findIdx_cons]
  simp only [hf, hi, hk, hv, if_true]

end Splipy.PyO

-- ---------------------------------------------------------------------------- t3b part 4

namespace Splipy.PyO
open Splipy Splipy.Generated Splipy.C06 Splipy.Tensor
variable {K : Type} [Field K] [LinearOrder K] [FloorRing K]

/-! ## `make_periodic`: the merge loop (no generated code) -/

/-- rows `< m` along `dir` already merged -/
def mergeN (t : Tensor K) (dir k m : ℕ) : Tensor K :=
  let n := t.shape.getD dir 0
  Tensor.build3 t.shape dir n (fun a r i =>
    if r < m then
      Obj.periodicWeight k r * t.at3 dir a r i + (1 - Obj.periodicWeight k r) * t.at3 dir a (n - (k + 1) + r) i
    else t.at3 dir a r i)

theorem getD_01 (l : List ℕ) (d : ℕ) (h : d < l.length) : l.getD d 1 = l.getD d 0 := by
  simp [List.getD_eq_getElem?_getD, h]

theorem mergeN_shape (t : Tensor K) (dir k m : ℕ) : (mergeN t dir k m).shape = t.shape := by
  unfold mergeN
  simp only [Tensor.build3_shape]
  exact set_getD_self _ _ _

theorem split3_eq (t : Tensor K) (dir : ℕ) (h : dir < t.shape.length) :
    Tensor.split3 t.shape dir = (Tensor.prod (t.shape.take dir), t.shape.getD dir 0, Tensor.prod (t.shape.drop (dir + 1))) := by
  unfold Tensor.split3
  rw [getD_01 _ _ h]

theorem mergeN_at3 (t : Tensor K) (dir k m : ℕ) (h : dir < t.shape.length) {a r i : ℕ}
    (ha : a < Tensor.prod (t.shape.take dir)) (hr : r < t.shape.getD dir 0) (hi : i < Tensor.prod (t.shape.drop (dir + 1))) :
    (mergeN t dir k m).at3 dir a r i
      = if r < m then
          Obj.periodicWeight k r * t.at3 dir a r i
            + (1 - Obj.periodicWeight k r) * t.at3 dir a (t.shape.getD dir 0 - (k + 1) + r) i
        else t.at3 dir a r i := by
  unfold mergeN
  exact Tensor.build3_at3 _ _ _ _ h ha hr hi

/-- re-assembling an array from its entries along one axis -/
theorem build3_at3_self (t : Tensor K) (dir : ℕ) (h : dir < t.shape.length) (hwf : t.data.size = Tensor.prod t.shape) :
    Tensor.build3 t.shape dir (t.shape.getD dir 0) (fun a r i => t.at3 dir a r i) = t := by
  apply tensor_mk_ext
  · rw [Tensor.build3_shape]; exact set_getD_self _ _ _
  · have hprod := C06.prod_split t.shape dir h
    rw [getD_01 _ _ h] at hprod
    apply Array.ext
    · rw [Tensor.build3_data_size, hwf, hprod]
    · intro idx h1 h2
      rw [Tensor.build3_data_size] at h1
      set o := Tensor.prod (t.shape.take dir)
      set n := t.shape.getD dir 0
      set inn := Tensor.prod (t.shape.drop (dir + 1))
      unfold Tensor.build3
      simp only [split3_eq t dir h, Array.getElem_ofFn]
      unfold Tensor.at3
      simp only [split3_eq t dir h]
      have hinn : 0 < inn := by
        rcases Nat.eq_zero_or_pos inn with h0 | h0
        · rw [h0] at h1; simp at h1
        · exact h0
      have hn : 0 < n := by
        rcases Nat.eq_zero_or_pos n with h0 | h0
        · rw [h0] at h1; simp at h1
        · exact h0
      have e : (idx / (inn * n) * n + idx / inn % n) * inn + idx % inn = idx := by
        have h3 : idx / (inn * n) = idx / inn / n := by rw [Nat.div_div_eq_div_mul]
        rw [h3, Nat.div_add_mod' (idx / inn) n, Nat.div_add_mod' idx inn]
      rw [e]
      simp [Tensor.get, Array.getD, h2]

theorem mergeN_zero (t : Tensor K) (dir k : ℕ) (h : dir < t.shape.length) (hwf : t.data.size = Tensor.prod t.shape) :
    mergeN t dir k 0 = t := by
  unfold mergeN
  simp only [Nat.not_lt_zero, if_false]
  exact build3_at3_self t dir h hwf

end Splipy.PyO

-- ---------------------------------------------------------------------------- t3b part 5

namespace Splipy.PyO
open Splipy Splipy.Generated Splipy.C06 Splipy.Tensor
variable {K : Type} [Field K] [LinearOrder K] [FloorRing K]

theorem tAdd_tScale_get (x y : K) (A B : Tensor K) (hs : B.data.size = A.data.size) {j : ℕ} (hj : j < A.data.size) :
    (tPlus (tScale x A) (tScale y B)).get j = x * A.get j + y * B.get j := by
  unfold tPlus tScale
  simp only [get_mk_ofFn, Array.size_ofFn, hj, hs, dif_pos]

theorem tAdd_tScale_shape (x y : K) (A B : Tensor K) : (tPlus (tScale x A) (tScale y B)).shape = A.shape := rfl

/-- one pass of the merge loop -/
theorem mergeN_step (t : Tensor K) (dir k m : ℕ) (h : dir < t.shape.length) (hm : m ≤ k)
    (hn : k + 1 ≤ t.shape.getD dir 0) :
    putAxis (mergeN t dir k m) dir m
      (tPlus (tScale (Obj.periodicWeight k m) ((mergeN t dir k m).takeAxis dir m))
            (tScale (1 - Obj.periodicWeight k m)
              ((mergeN t dir k m).takeAxis dir (t.shape.getD dir 0 - (k + 1) + m))))
      = mergeN t dir k (m + 1) := by
  set n := t.shape.getD dir 0 with hnd
  set M := mergeN t dir k m with hM
  have hMs : M.shape = t.shape := mergeN_shape t dir k m
  unfold putAxis
  rw [hMs, split3_eq t dir h]
  simp only []
  conv_rhs => unfold mergeN
  simp only [← hnd]
  apply build3_congr
  intro a r i ha hr hi
  have hsz : ∀ j, (M.takeAxis dir j).data.size
      = Tensor.prod (t.shape.take dir) * Tensor.prod (t.shape.drop (dir + 1)) := by
    intro j; rw [takeAxis_size, hMs]
  have hflat : a * Tensor.prod (t.shape.drop (dir + 1)) + i
      < Tensor.prod (t.shape.take dir) * Tensor.prod (t.shape.drop (dir + 1)) := by
    have := Nat.mul_le_mul_right (Tensor.prod (t.shape.drop (dir + 1))) (Nat.succ_le_of_lt ha)
    rw [Nat.succ_mul] at this
    omega
  by_cases hrm : r = m
  · subst hrm
    rw [if_pos rfl, if_pos (by omega)]
    rw [tAdd_tScale_get _ _ _ _ (by rw [hsz, hsz]) (by rw [hsz]; exact hflat)]
    have g1 := takeAxis_get' M dir r (a := a) (i := i) (by rw [hMs]; exact ha) (by rw [hMs]; exact hi)
    have g2 := takeAxis_get' M dir (n - (k + 1) + r) (a := a) (i := i) (by rw [hMs]; exact ha) (by rw [hMs]; exact hi)
    rw [hMs] at g1 g2
    rw [g1, g2, hM, mergeN_at3 t dir k r h ha hr hi, if_neg (lt_irrefl r),
      mergeN_at3 t dir k r h ha (by omega) hi, if_neg (by omega)]
  · rw [if_neg hrm, hM, mergeN_at3 t dir k m h ha hr hi]
    by_cases hlt : r < m
    · rw [if_pos hlt, if_pos (by omega)]
    · rw [if_neg hlt, if_neg (by omega)]

/-- cutting the last `k+1` rows after the merge gives the model's `mergeCps` -/
theorem mergeN_slice (t : Tensor K) (dir k : ℕ) (h : dir < t.shape.length) (hn : k + 1 ≤ t.shape.getD dir 0) :
    (mergeN t dir k (k + 1)).sliceAxis dir 0 (t.shape.getD dir 0 - (k + 1)) = Obj.mergeCps t dir k := by
  set n := t.shape.getD dir 0 with hnd
  unfold Tensor.sliceAxis Tensor.reindexAxis Obj.mergeCps
  rw [mergeN_shape]
  simp only [← hnd, Nat.sub_zero]
  apply build3_congr
  intro a r i ha hr hi
  rw [Nat.zero_add, mergeN_at3 t dir k (k + 1) h ha (by omega) hi]
  by_cases hrk : r ≤ k
  · rw [if_pos (by omega), if_pos hrk]
  · rw [if_neg (by omega), if_neg hrk]

end Splipy.PyO

-- ---------------------------------------------------------------------------- t3b part 6

namespace Splipy.PyO
open Splipy Splipy.Generated Splipy.C06 Splipy.Tensor
variable {K : Type} [Field K] [LinearOrder K] [FloorRing K]

/-- one pass of the merge loop of `make_periodic` as the code writes it -/
def mgStep (dir : Int) (x : Int × Int × K) (st : List IdxTok × List IdxTok × Tensor K) :
    PyM (List IdxTok × List IdxTok × Tensor K) := do
  let ixb ← setItem st.1 dir (IdxTok.at x.1)
  let ixe ← setItem st.2.1 dir (IdxTok.at x.2.1)
  let a ← npIndex st.2.2 ixb
  let b ← npIndex st.2.2 ixe
  let cps ← npSetIndex st.2.2 ixb (tPlus (tScale x.2.2 a) (tScale (1 - x.2.2) b))
  pure (ixb, ixe, cps)

theorem zip3_ranges (k : ℕ) (W : List K) (hW : W = (List.range (k + 1)).map (Obj.periodicWeight k)) :
    zip3 (rangeI 0 ((k : Int) + 1)) (rangeI (-(k : Int) - 1) 0) W
      = (List.range (k + 1)).map (fun (m : ℕ) => ((m : Int), (-(k : Int) - 1 + (m : Int)), Obj.periodicWeight k m)) := by
  unfold zip3 rangeI
  have e1 : ((k : Int) + 1 - 0).toNat = k + 1 := by omega
  have e2 : ((0 : Int) - (-(k : Int) - 1)).toNat = k + 1 := by omega
  rw [e1, e2, hW, List.zip_map', List.zip_map']
  apply List.map_congr_left
  intro m _
  simp

/-- the index list with entry `dir` replaced after `m` passes -/
def ixAfter (nd dir : ℕ) (f : ℕ → Int) (m : ℕ) : List IdxTok :=
  if m = 0 then List.replicate nd IdxTok.all else (List.replicate nd IdxTok.all).set dir (.at (f (m - 1)))

theorem setItem_ixAfter (nd dir : ℕ) (f : ℕ → Int) (m : ℕ) (h : dir < nd) :
    setItem (ixAfter nd dir f m) (dir : Int) (IdxTok.at (f m))
      = .ok ((List.replicate nd IdxTok.all).set dir (.at (f m))) := by
  unfold ixAfter
  split_ifs
  · rw [setItem_nat _ (by simpa using h)]
  · rw [setItem_nat _ (by simpa using h), List.set_set]

theorem normIdx_neg {n : ℕ} {i : Int} (h0 : i < 0) (h1 : 0 ≤ i + n) : normIdx n i = some (i + n).toNat := by
  unfold normIdx
  have : ¬ (0 ≤ i) := by omega
  simp [this, h1]

theorem normIdx_neg_none {n : ℕ} {i : Int} (h0 : i < 0) (h1 : i + n < 0) : normIdx n i = none := by
  unfold normIdx
  have : ¬ (0 ≤ i) := by omega
  have : ¬ (0 ≤ i + n) := by omega
  simp [*]

theorem mgStep_ok (t : Tensor K) (dir k m : ℕ) (h : dir < t.shape.length) (hm : m ≤ k)
    (hn : k + 1 ≤ t.shape.getD dir 0) :
    mgStep (dir : Int) ((m : Int), (-(k : Int) - 1 + (m : Int)), Obj.periodicWeight k m)
        (ixAfter t.shape.length dir (fun j => (j : Int)) m,
         ixAfter t.shape.length dir (fun j => -(k : Int) - 1 + (j : Int)) m, mergeN t dir k m)
      = .ok (ixAfter t.shape.length dir (fun j => (j : Int)) (m + 1),
             ixAfter t.shape.length dir (fun j => -(k : Int) - 1 + (j : Int)) (m + 1), mergeN t dir k (m + 1)) := by
  set n := t.shape.getD dir 0 with hnd
  have hMs : (mergeN t dir k m).shape = t.shape := mergeN_shape t dir k m
  unfold mgStep
  simp only []
  rw [setItem_ixAfter _ _ (fun j => (j : Int)) m h, ok_bind,
    setItem_ixAfter _ _ (fun j => -(k : Int) - 1 + (j : Int)) m h, ok_bind]
  have hb := npIndex_at (mergeN t dir k m) dir (m : Int) (by rw [hMs]; exact h)
  have he := npIndex_at (mergeN t dir k m) dir (-(k : Int) - 1 + (m : Int)) (by rw [hMs]; exact h)
  rw [hMs] at hb he
  rw [normIdx_nat (show m < n by omega)] at hb
  rw [normIdx_neg (by omega) (by omega)] at he
  have e1 : (-(k : Int) - 1 + (m : Int) + (n : Int)).toNat = n - (k + 1) + m := by omega
  rw [e1] at he
  simp only [] at hb he
  rw [hb, ok_bind, he, ok_bind]
  have hs := npSetIndex_at (mergeN t dir k m)
    (tPlus (tScale (Obj.periodicWeight k m) ((mergeN t dir k m).takeAxis dir m))
      (tScale (1 - Obj.periodicWeight k m) ((mergeN t dir k m).takeAxis dir (n - (k + 1) + m))))
    dir (m : Int) m (by rw [hMs]; exact h) (by rw [hMs]; exact normIdx_nat (by omega))
    (by rw [tAdd_tScale_shape, takeAxis_shape'])
  rw [hMs] at hs
  rw [hs, ok_bind, mergeN_step t dir k m h hm hn]
  simp only [pure_eq_ok, ixAfter, Nat.succ_ne_zero, if_false, Nat.add_sub_cancel]

/-- the merge loop followed by the cut `cps[..., :-(k+1), ...]` -/
theorem merge_loop (t : Tensor K) (dir k : ℕ) (h : dir < t.shape.length) (hwf : t.data.size = Tensor.prod t.shape)
    (W : List K) (hW : W = (List.range (k + 1)).map (Obj.periodicWeight k)) :
    (do
      let st ← (zip3 (rangeI 0 ((k : Int) + 1)) (rangeI (-(k : Int) - 1) 0) W).foldlM
        (fun s x => mgStep (dir : Int) x s)
        (List.replicate t.shape.length IdxTok.all, List.replicate t.shape.length IdxTok.all, t)
      let ixb ← setItem st.1 (dir : Int) (IdxTok.range none (some (-((k : Int) + 1))))
      npIndex st.2.2 ixb)
      = if t.shape.getD dir 0 < k + 1 then .error .index else .ok (Obj.mergeCps t dir k) := by
  set n := t.shape.getD dir 0 with hnd
  rw [zip3_ranges k W hW, List.foldlM_map]
  by_cases hn : n < k + 1
  · rw [if_pos hn, List.range_succ_eq_map, List.foldlM_cons]
    have hfail : mgStep (dir : Int) (((0 : ℕ) : Int), (-(k : Int) - 1 + ((0 : ℕ) : Int)), Obj.periodicWeight k 0)
        (List.replicate t.shape.length IdxTok.all, List.replicate t.shape.length IdxTok.all, t) = .error .index := by
      unfold mgStep
      simp only []
      rw [setItem_nat _ (by simpa using h), ok_bind, setItem_nat _ (by simpa using h), ok_bind,
        npIndex_at t dir _ h, npIndex_at t dir _ h, ← hnd]
      simp only [Nat.cast_zero, add_zero]
      rw [normIdx_neg_none (n := n) (i := -(k : Int) - 1) (by omega) (by omega)]
      cases normIdx n (0 : Int) <;> rfl
    rw [hfail]
    rfl
  · rw [if_neg hn]
    have hn' : k + 1 ≤ n := by omega
    have h0 : (List.replicate t.shape.length IdxTok.all, List.replicate t.shape.length IdxTok.all, t)
        = (ixAfter t.shape.length dir (fun j => (j : Int)) 0,
           ixAfter t.shape.length dir (fun j => -(k : Int) - 1 + (j : Int)) 0, mergeN t dir k 0) := by
      rw [mergeN_zero t dir k h hwf]; rfl
    rw [h0, foldlM_range_iter (k + 1) _
      (fun m => (ixAfter t.shape.length dir (fun j => (j : Int)) m,
                 ixAfter t.shape.length dir (fun j => -(k : Int) - 1 + (j : Int)) m, mergeN t dir k m))
      (fun m hm => mgStep_ok t dir k m h (by omega) hn'), ok_bind]
    simp only [ixAfter, Nat.succ_ne_zero, if_false, Nat.add_sub_cancel]
    rw [setItem_nat _ (by simpa using h), ok_bind, List.set_set]
    have hsl := npIndex_range (mergeN t dir k (k + 1)) dir none (some (-((k : Int) + 1))) (by rw [mergeN_shape]; exact h)
    rw [mergeN_shape] at hsl
    rw [hsl, ← hnd]
    have e1 : sliceLo n none = 0 := rfl
    have e2 : sliceHi n (some (-((k : Int) + 1))) = n - (k + 1) := by
      unfold sliceHi
      have : (-((k : Int) + 1)) < 0 := by omega
      simp only [this, if_true]
      omega
    rw [e1, e2, Nat.zero_max, mergeN_slice t dir k h hn']

end Splipy.PyO

-- ---------------------------------------------------------------------------- t3b part 7

namespace Splipy.PyO
open Splipy Splipy.Generated Splipy.C06 Splipy.Tensor
variable {K : Type} [Field K] [LinearOrder K] [FloorRing K]

theorem merge_loop_k {β : Type} (t : Tensor K) (dir k : ℕ) (h : dir < t.shape.length)
    (hwf : t.data.size = Tensor.prod t.shape)
    (W : List K) (hW : W = (List.range (k + 1)).map (Obj.periodicWeight k)) (F : Tensor K → PyM β) :
    (do
      let st ← (zip3 (rangeI 0 ((k : Int) + 1)) (rangeI (-(k : Int) - 1) 0) W).foldlM
        (fun s x => mgStep (dir : Int) x s)
        (List.replicate t.shape.length IdxTok.all, List.replicate t.shape.length IdxTok.all, t)
      let ixb ← setItem st.1 (dir : Int) (IdxTok.range none (some (-((k : Int) + 1))))
      let r ← npIndex st.2.2 ixb
      F r)
      = if t.shape.getD dir 0 < k + 1 then .error .index else F (Obj.mergeCps t dir k) := by
  have := congrArg (fun x => x >>= F) (merge_loop t dir k h hwf W hW)
  simp only [bind_assoc] at this
  rw [this]
  split_ifs <;> rfl

/-- `np.linspace(0, 1, k + 1) if k > 0 else [0.5]` -/
theorem weights_eq (k : ℕ) :
    (if ((k : Int) > 0) then npLinspace (0 : K) 1 ((k : Int) + 1) else [(1 : K) / 2])
      = (List.range (k + 1)).map (Obj.periodicWeight k) := by
  by_cases hk : k = 0
  · subst hk
    simp [Obj.periodicWeight]
  · have h1 : (k : Int) > 0 := by omega
    rw [if_pos h1]
    unfold npLinspace
    have h2 : ¬ ((k : Int) + 1 = 1) := by omega
    rw [if_neg h2]
    have e : ((k : Int) + 1).toNat = k + 1 := by omega
    rw [e]
    apply List.map_congr_left
    intro i _
    unfold Obj.periodicWeight
    rw [if_neg hk]
    push_cast
    ring

theorem mergeCps_shape (t : Tensor K) (dir k : ℕ) :
    (Obj.mergeCps t dir k).shape = t.shape.set dir (t.shape.getD dir 0 - (k + 1)) := rfl

/-! ### method: make_periodic -/

/-- the common part: `continuity` already an int `c` -/
theorem make_periodic_core (o : Obj K) (tol : K) (c : Int) (dir : ℕ)
    (hb : o.cps.shape.length = o.bases.size + 1) (hdir : dir < o.bases.size) (hd3 : o.bases.size ≤ 3)
    (hwf : o.cps.data.size = Tensor.prod o.cps.shape) (hnc : 1 ≤ o.ncomp)
    (G : PyM (PyObj K))
    (hG : (-1 ≤ c ∧ c ≤ ((o.basis dir).order : Int) - 2) → c ≠ -1 → ¬ (o.basis dir).periodic ≥ 0 →
      G = (do
        let nb ← basisMakePeriodic (o.basis dir) tol c
        let cps ← (if o.cps.shape.getD dir 0 < c.toNat + 1 then (.error .index : PyM (Tensor K))
                   else .ok (Obj.mergeCps o.cps dir c.toNat))
        mkRaw (o.bases.size : Int) (o.bases.set! dir nb) cps o.rational)) :
    (if ¬ (-1 ≤ c ∧ c ≤ ((o.basis dir).order : Int) - 2) then .error .value
     else if c = -1 then .error .value
     else if (o.basis dir).periodic ≥ 0 then .error .value
     else G) = (o.makePeriodic tol (some c) dir).map ofObj := by
  unfold Obj.makePeriodic
  simp only []
  by_cases h1 : (-1 ≤ c ∧ c ≤ ((o.basis dir).order : Int) - 2)
  · by_cases h2 : c = -1
    · simp [h1, h2]
    · by_cases h3 : (o.basis dir).periodic ≥ 0
      · simp [h1, h2, h3]
      · rw [if_neg (not_not.mpr h1), if_neg h2, if_neg h3, hG h1 h2 h3]
        simp only [h1, not_true_eq_false, if_false, h2, h3, pure_eq_ok, ok_bind]
        have hc0 : ¬ (c < 0) := by omega
        unfold basisMakePeriodic
        rw [if_neg hc0]
        cases hmp : (o.basis dir).makePeriodic tol c.toNat with
        | error e => rfl
        | ok nb =>
          simp only [ok_bind]
          by_cases hn : o.cps.shape.getD dir 0 < c.toNat + 1
          · rw [if_pos hn, if_pos hn]; rfl
          · rw [if_neg hn, if_neg hn]
            show mkRaw _ _ _ _ = _
            unfold mkRaw
            have hsz : (((o.bases.set! dir nb).size : ℕ) : Int) = (o.bases.size : Int) := by simp
            rw [if_pos hsz]
            have hne : ¬ (Obj.mergeCps o.cps dir c.toNat).shape = [] := by
              rw [mergeCps_shape]
              intro h
              have := congrArg List.length h
              rw [List.length_set, hb] at this
              simp at this
            rw [if_neg hne]
            show Except.ok _ = Except.ok _
            congr 1
            unfold ofObj
            simp only [PyObj.mk.injEq, true_and, and_true]
            have hlast : (Obj.mergeCps o.cps dir c.toNat).shape.getLastD 0 = o.cps.shape.getLastD 0 := by
              rw [mergeCps_shape, getLastD_set _ _ _ _ (by omega)]
            unfold Obj.dimension Obj.ncomp b2i
            simp only [hlast]
            have : 1 ≤ o.cps.shape.getLastD 0 := hnc
            split_ifs <;> omega
  · simp [h1]

/-- what the code does after the three argument checks -/
def mpGood (o : Obj K) (tol : K) (c : Int) (dir : ℕ) : PyM (PyObj K) := do
  let nb ← basisMakePeriodic (o.basis dir) tol c
  let cps ← (if o.cps.shape.getD dir 0 < c.toNat + 1 then (.error .index : PyM (Tensor K))
             else .ok (Obj.mergeCps o.cps dir c.toNat))
  mkRaw (o.bases.size : Int) (o.bases.set! dir nb) cps o.rational

theorem _root_.PyObject_make_periodic_c_eq (o : Obj K) (tol : K) (c : Int) (d : DirTok)
    (hb : o.cps.shape.length = o.bases.size + 1) (hd3 : o.bases.size ≤ 3)
    (hwf : o.cps.data.size = Tensor.prod o.cps.shape) (hnc : 1 ≤ o.ncomp) :
    PyObject.make_periodic_c (ofObj o) tol c d = (do
      let dir ← checkDirection d o.pardim
      let o' ← o.makePeriodic tol (some c) dir
      pure (ofObj o')) := by
  have hpd : o.pardim = o.bases.size := by unfold Obj.pardim; omega
  unfold PyObject.make_periodic_c
  simp only [PyObject_pardim_eq o tol (by omega), ok_bind, PyObject_check_direction_eq]
  cases hc : checkDirection d o.pardim with
  | error e => rfl
  | ok dir =>
    have hdir : dir < o.bases.size := by have := checkDirection_lt hc; omega
    simp only [map_ok, ok_bind, ofObj_bases, ofObj_cps, ofObj_rational]
    rw [getBasis_nat _ hdir]
    simp only [ok_bind]
    have hbas : o.bases.getD dir default = o.basis dir := rfl
    simp only [hbas]
    have key := make_periodic_core o tol c dir hb hdir hd3 hwf hnc (mpGood o tol c dir) (fun _ _ _ => rfl)
    have hR : (do let o' ← o.makePeriodic tol (some c) dir; pure (ofObj o'))
        = (o.makePeriodic tol (some c) dir).map ofObj := by
      cases o.makePeriodic tol (some c) dir <;> rfl
    rw [hR, ← key]
    by_cases h1 : (-1 ≤ c ∧ c ≤ ((o.basis dir).order : Int) - 2)
    · by_cases h2 : c = -1
      · subst h2
        have h1a : ((-1 : Int) ≤ (o.basis dir).order - 2) := h1.2
        simp [h1a]
      · by_cases h3 : (o.basis dir).periodic ≥ 0
        · rw [if_neg (not_not.mpr h1), if_neg h2, if_pos h3]
          simp [h1.1, h1.2, h2, h3]
        · rw [if_neg (not_not.mpr h1), if_neg h2, if_neg h3]
          simp only [h1.1, h1.2, h2, h3, if_true, if_false, ok_bind, pure_eq_ok, decide_true, not_true_eq_false]
          obtain ⟨k, rfl⟩ : ∃ k : ℕ, c = (k : Int) := ⟨c.toNat, by omega⟩
          unfold mpGood
          cases hmp : basisMakePeriodic (o.basis dir) tol (k : Int) with
          | error e => rfl
          | ok nb =>
            simp only [ok_bind, forEach]
            have hall : listMul [IdxTok.all] ((o.pardim : Int) + 1) = List.replicate o.cps.shape.length IdxTok.all := by
              have : (o.pardim : Int) + 1 = ((o.cps.shape.length : ℕ) : Int) := by
                unfold Obj.pardim; omega
              rw [this, listMul_singleton]
            rw [hall, weights_eq k]
            rw [foldlM_congr' _ _ (fun s x => mgStep (dir : Int) x s) _ (by intro s x; rfl)]
            rw [merge_loop_k o.cps dir k (by omega) hwf _ rfl]
            simp only [Int.toNat_natCast]
            by_cases hn : o.cps.shape.getD dir 0 < k + 1
            · rw [if_pos hn, if_pos hn]; rfl
            · rw [if_neg hn, if_neg hn]
              rw [setBasis_nat _ hdir]
              simp only [ok_bind]
              have hct : ctorFirst ((o.bases.size : ℕ) : Int) = .ok ((o.bases.size : ℕ) : Int) := by
                unfold ctorFirst
                rw [if_pos (by omega)]
              rw [hct]
              rfl
    · rw [if_pos h1]
      by_cases h1a : (-1 : Int) ≤ c
      · have h1b : ¬ (c ≤ ((o.basis dir).order : Int) - 2) := fun h => h1 ⟨h1a, h⟩
        simp [h1a, h1b]
      · simp [h1a]

theorem _root_.PyObject_make_periodic_eq (o : Obj K) (tol : K) (d : DirTok)
    (hb : o.cps.shape.length = o.bases.size + 1) (hd3 : o.bases.size ≤ 3)
    (hwf : o.cps.data.size = Tensor.prod o.cps.shape) (hnc : 1 ≤ o.ncomp) :
    PyObject.make_periodic (ofObj o) tol d = (do
      let dir ← checkDirection d o.pardim
      let o' ← o.makePeriodic tol none dir
      pure (ofObj o')) := by
  have hpd : o.pardim = o.bases.size := by unfold Obj.pardim; omega
  cases hc : checkDirection d o.pardim with
  | error e =>
    unfold PyObject.make_periodic
    simp only [PyObject_pardim_eq o tol (by omega), ok_bind, PyObject_check_direction_eq, hc]
    rfl
  | ok dir =>
    have hdir : dir < o.bases.size := by have := checkDirection_lt hc; omega
    have hnone : o.makePeriodic tol none dir = o.makePeriodic tol (some (((o.basis dir).order : Int) - 2)) dir := rfl
    have key := PyObject_make_periodic_c_eq o tol (((o.basis dir).order : Int) - 2) d hb hd3 hwf hnc
    rw [hc] at key
    simp only [ok_bind] at key ⊢
    rw [hnone, ← key]
    unfold PyObject.make_periodic PyObject.make_periodic_c
    simp only [PyObject_pardim_eq o tol (by omega), ok_bind, PyObject_check_direction_eq, hc, map_ok, ofObj_bases]
    rw [getBasis_nat _ hdir]
    rfl

end Splipy.PyO

-- ---------------------------------------------------------------------------- t3b part 8

namespace Splipy.PyO
open Splipy Splipy.Generated Splipy.C06 Splipy.Tensor
variable {K : Type} [Field K] [LinearOrder K]

/-! ### method: order -/

theorem _root_.PyObject_order_eq (o : Obj K) (tol : K) :
    PyObject.order (ofObj o) tol = .ok (o.bases.toList.map (fun b => ((b.order : ℕ) : Int))) := by
  simp only [PyObject.order, ofObj_bases]
  exact listComp_ok _ _ (fun (b : Basis K) => ((b.order : ℕ) : Int)) (fun x _ => rfl)

/-! ### method: order_dir -/

theorem _root_.PyObject_order_dir_eq (o : Obj K) (tol : K) (d : DirTok) (h : 1 ≤ o.cps.shape.length)
    (hb : o.bases.size = o.pardim) :
    PyObject.order_dir (ofObj o) tol d
      = (checkDirection d o.pardim).map (fun k => (((o.basis k).order : ℕ) : Int)) := by
  simp only [PyObject.order_dir, PyObject_pardim_eq o tol h, ok_bind, PyObject_check_direction_eq]
  cases hc : checkDirection d o.pardim with
  | error e => rfl
  | ok k =>
    have hk : k < o.pardim := checkDirection_lt hc
    simp only [map_ok, ok_bind, ofObj_bases]
    rw [getBasis_nat _ (by omega)]
    rfl

end Splipy.PyO

-- ---------------------------------------------------------------------------- t3b part 9

namespace Splipy.PyO
open Splipy Splipy.Generated Splipy.C06
variable {K : Type} [Field K] [LinearOrder K] [FloorRing K]

/-! ### method: split -/

theorem insertFold_fields (xs : List K) (b0 : Basis K) (C0 : Mat K) (r : Basis K × Mat K)
    (h : xs.foldlM (fun (bc : Basis K × Mat K) x => do
        let (b', Ck) ← bc.1.insertKnot x
        pure (b', Mat.mul Ck bc.2)) (b0, C0) = .ok r) :
    r.1.periodic = b0.periodic ∧ r.1.order = b0.order ∧ b0.knots.size ≤ r.1.knots.size := by
  induction xs generalizing b0 C0 with
  | nil => simp only [List.foldlM_nil] at h; cases h; exact ⟨rfl, rfl, le_refl _⟩
  | cons x xs ih =>
    simp only [List.foldlM_cons] at h
    cases hi : b0.insertKnot x with
    | error e => rw [hi] at h; exact absurd h (by simp)
    | ok r1 =>
      rw [hi] at h
      obtain ⟨f1, f2⟩ := insertKnot_fields _ _ _ hi
      obtain ⟨f3, _⟩ := insertKnot_size _ _ _ hi
      obtain ⟨g1, g2, g3⟩ := ih _ _ h
      exact ⟨g1.trans f1, g2.trans f2, by omega⟩

/-- what `insert_knot` leaves unchanged -/
theorem insertKnots_facts (o o' : Obj K) (xs : List K) (dir : ℕ) (hI : LpInv o dir)
    (h : o.insertKnots xs dir = .ok o') :
    LpInv o' dir ∧ (o'.basis dir).order = (o.basis dir).order ∧ (o'.basis dir).periodic = (o.basis dir).periodic ∧
      o'.rational = o.rational ∧ o'.bases.size = o.bases.size ∧ o'.cps.shape.length = o.cps.shape.length ∧
      o'.cps.shape.getLastD 0 = o.cps.shape.getLastD 0 ∧ (o.basis dir).knots.size ≤ (o'.basis dir).knots.size := by
  unfold Obj.insertKnots at h
  simp only [] at h
  cases hf : xs.foldlM (fun (bc : Basis K × Mat K) x => do
        let (b', Ck) ← bc.1.insertKnot x
        pure (b', Mat.mul Ck bc.2)) (o.basis dir, Mat.identity (o.cps.shape.getD dir 0)) with
  | error e => rw [hf] at h; exact absurd h (by simp)
  | ok r =>
    rw [hf] at h
    obtain ⟨f1, f2, f3⟩ := insertFold_fields _ _ _ _ hf
    cases h
    obtain ⟨hb, hdir⟩ := hI
    refine ⟨⟨?_, ?_⟩, ?_, ?_, rfl, ?_, ?_, ?_, ?_⟩
    · simp [applyAxis_shape', hb]
    · simpa using hdir
    · rw [basis_set _ _ hdir]; exact f2
    · rw [basis_set _ _ hdir]; exact f1
    · simp
    · simp [applyAxis_shape']
    · simp only [applyAxis_shape']
      exact getLastD_set _ _ _ _ (by omega)
    · rw [basis_set _ _ hdir]; exact f3

theorem listMul_single_int {α : Type} (x : α) (n : Int) : listMul [x] n = List.replicate n.toNat x := by
  have := listMul_singleton x n.toNat
  unfold listMul at this ⊢
  simpa using this

/-- one pass of the insertion loop of the hand model -/
def siStep (o0 : Obj K) (tol : K) (dir : ℕ) (so : Obj K) (k : K) : PyM (Obj K) := do
  let c ← (o0.basis dir).continuity tol k
  let cont : Int := match c with
    | none => ((o0.basis dir).order : Int) - 1
    | some c => c
  so.insertKnots (List.replicate (cont + 1).toNat k) dir

theorem splitInsert_eq (o : Obj K) (tol : K) (ks : List K) (dir : ℕ) :
    o.splitInsert tol ks dir = ks.foldlM (siStep o tol dir) o := rfl

/-- the generated body of the first loop -/
theorem si_body (o0 so : Obj K) (tol : K) (dir : ℕ) (k : K) (hd2 : dir ≤ 2) (h0 : dir < o0.bases.size)
    (hI : LpInv so dir) :
    (do
      let splitting_obj := ofObj so
      let tmp5 ← getBasis o0.bases (dir : Int)
      let tmp6 ← basisContinuity tmp5 tol k
      let continuity := tmp6
      let st7 ← (if (continuity = none) then do
          let continuity := (some ((((o0.basis dir).order : ℕ) : Int) - (1 : Int)))
          pure continuity
        else do
          pure continuity)
      let continuity := st7
      let tmp8 ← extCount (Option.map (fun (c : Int) => c + (1 : Int)) continuity)
      let splitting_obj ← PyObject.insert_knot splitting_obj tol (Param.list (listMul ([k] : List K) tmp8)) (DirTok.int (dir : Int))
      pure splitting_obj) = (siStep o0 tol dir so k).map ofObj := by
  obtain ⟨hb, hdir⟩ := hI
  have hpd : so.pardim = so.bases.size := by unfold Obj.pardim; omega
  rw [getBasis_nat _ h0]
  simp only [ok_bind, basisContinuity]
  have hbd : o0.bases.getD dir default = o0.basis dir := rfl
  rw [hbd]
  unfold siStep
  cases hc : (o0.basis dir).continuity tol k with
  | error e => rfl
  | ok c =>
    simp only [ok_bind, pure_eq_ok]
    cases c with
    | none =>
      simp only [if_true, ok_bind, Option.map_some, extCount]
      rw [PyObject_insert_knot_eq so tol _ _ hb, checkDirection_int (by omega) hd2]
      simp only [ok_bind, ensure_listlike, listMul_single_int]
      cases so.insertKnots _ dir <;> rfl
    | some c =>
      have hne : ¬ (some c = (none : Option Int)) := by simp
      simp only [hne, if_false, ok_bind, Option.map_some, extCount]
      rw [PyObject_insert_knot_eq so tol _ _ hb, checkDirection_int (by omega) hd2]
      simp only [ok_bind, ensure_listlike, listMul_single_int]
      cases so.insertKnots _ dir <;> rfl

/-- invariant of the insertion loop relative to the object `o0` the method was called on -/
def SiInv (o0 : Obj K) (dir : ℕ) (so : Obj K) : Prop :=
  LpInv so dir ∧ (so.basis dir).order = (o0.basis dir).order ∧ (so.basis dir).periodic = (o0.basis dir).periodic ∧
    so.rational = o0.rational ∧ so.bases.size = o0.bases.size ∧ so.cps.shape.length = o0.cps.shape.length ∧
    so.cps.shape.getLastD 0 = o0.cps.shape.getLastD 0 ∧ (o0.basis dir).knots.size ≤ (so.basis dir).knots.size

theorem siStep_inv (o0 so so' : Obj K) (tol : K) (dir : ℕ) (k : K) (hI : SiInv o0 dir so)
    (h : siStep o0 tol dir so k = .ok so') : SiInv o0 dir so' := by
  unfold siStep at h
  cases hc : (o0.basis dir).continuity tol k with
  | error e => rw [hc] at h; exact absurd h (by simp)
  | ok c =>
    rw [hc] at h
    simp only [ok_bind] at h
    obtain ⟨g0, g1, g2, g3, g4, g5, g6, g7⟩ := insertKnots_facts _ _ _ _ hI.1 h
    obtain ⟨_, i1, i2, i3, i4, i5, i6, i7⟩ := hI
    exact ⟨g0, g1.trans i1, g2.trans i2, g3.trans i3, g4.trans i4, g5.trans i5, g6.trans i6, le_trans i7 g7⟩

/-- the insertion loop, with the generated body abstracted -/
theorem si_loop {β : Type} (o0 : Obj K) (tol : K) (dir : ℕ) (body : K → PyObj K → PyM (PyObj K))
    (hbody : ∀ so k, LpInv so dir → body k (ofObj so) = (siStep o0 tol dir so k).map ofObj)
    (F : PyObj K → PyM β) (G : Obj K → PyM β)
    (ks : List K) (so : Obj K) (hI : SiInv o0 dir so)
    (hFG : ∀ so', SiInv o0 dir so' → ks.foldlM (siStep o0 tol dir) so = .ok so' → F (ofObj so') = G so') :
    (forEach ks (ofObj so) body >>= F) = (ks.foldlM (siStep o0 tol dir) so >>= G) := by
  unfold forEach
  rcases foldlM_sim (fun s t => s = ofObj t ∧ SiInv o0 dir t) ks (fun s x => body x s) (siStep o0 tol dir)
      (ofObj so) so ⟨rfl, hI⟩ (by
    rintro s t a ⟨rfl, hI'⟩
    rw [hbody t a hI'.1]
    cases hs : siStep o0 tol dir t a with
    | error e => exact Or.inl ⟨e, rfl, rfl⟩
    | ok t' => exact Or.inr ⟨ofObj t', t', rfl, rfl, rfl, siStep_inv _ _ _ _ _ _ hI' hs⟩) with
    ⟨e, h1, h2⟩ | ⟨s', t', h1, h2, rfl, hI'⟩
  · rw [h1, h2]; rfl
  · rw [h1, h2]
    exact hFG t' hI' h2

end Splipy.PyO

-- ---------------------------------------------------------------------------- t3b part 10

namespace Splipy.PyO
open Splipy Splipy.Generated Splipy.C06
variable {K : Type} [Field K] [LinearOrder K] [FloorRing K]

/-! ## `split`: the piece loop of the hand model, slices, constructor (no generated code) -/

/-- one pass of the piece loop of the hand model (`Obj.splitPieces`) -/
def spStep (self so : Obj K) (tol : K) (dir : ℕ) (st : List (Obj K) × ℕ × ℕ) (k : K) :
    PyM (List (Obj K) × ℕ × ℕ) :=
  let p := (self.basis dir).order
  let b := so.basis dir
  let s := (self.basis dir).start
  let e := (self.basis dir).stop
  let (res, lastCp, lastKnot) := st
  if s < k ∧ k < e then do
    let mu := b.bisectL k
    let nCp := mu - lastKnot
    let cp := so.cps.sliceAxis dir lastCp (lastCp + nCp)
    let nb ← Basis.mk? p (b.knots.extract lastKnot (mu + p)) (-1) tol
    pure (res ++ [{ bases := so.bases.set! dir nb, cps := cp, rational := so.rational }],
          lastCp + nCp, mu)
  else pure st

theorem splitPieces_eq (self so : Obj K) (tol : K) (ks : List K) (dir : ℕ) :
    Obj.splitPieces self so tol ks dir = (do
      let (res, lastCp, lastKnot) ← ks.foldlM (spStep self so tol dir) ([], 0, 0)
      let nb ← Basis.mk? (self.basis dir).order ((so.basis dir).knots.extract lastKnot (so.basis dir).knots.size) (-1) tol
      pure (res ++ [{ bases := so.bases.set! dir nb, cps := so.cps.sliceAxis dir lastCp (so.cps.shape.getD dir 0),
                      rational := so.rational }])) := rfl

/-- the split values are met in increasing order of their position in the refined knot vector, and no
    position lies beyond the control net (`last` = position of the previous cut) -/
def SplitOrdered (b : Basis K) (s e : K) (n : ℕ) : ℕ → List K → Prop
  | _, [] => True
  | last, k :: ks =>
    if s < k ∧ k < e then last ≤ b.bisectL k ∧ b.bisectL k ≤ n ∧ SplitOrdered b s e n (b.bisectL k) ks
    else SplitOrdered b s e n last ks

theorem slice_toArray_extract (a : Array K) (lo hi : ℕ) :
    (slice a.toList (some (lo : Int)) (some (hi : Int))).toArray = a.extract lo hi := by
  unfold slice sliceLo sliceHi
  have h1 : ¬ ((lo : Int) < 0) := by omega
  have h2 : ¬ ((hi : Int) < 0) := by omega
  simp only [h1, h2, if_false, Int.toNat_natCast, Array.length_toList]
  apply Array.ext'
  rw [Array.toList_extract]
  simp only [List.toList_toArray]
  rw [show a.size = a.toList.length by simp, ← List.take_eq_take_min]
  rw [List.drop_take]
  show _ = List.take (hi - lo) (List.drop lo a.toList)
  by_cases h : lo ≤ a.toList.length
  · rw [Nat.min_eq_left h]
  · have hm : min lo a.toList.length = a.toList.length := by omega
    rw [hm, List.drop_eq_nil_of_le (le_refl _), List.drop_eq_nil_of_le (by omega)]
    simp

theorem slice_toArray_extract_none (a : Array K) (lo : ℕ) :
    (slice a.toList (some (lo : Int)) none).toArray = a.extract lo a.size := by
  have := slice_toArray_extract a lo a.size
  rw [← this]
  unfold slice sliceHi
  have h2 : ¬ (((a.size : ℕ) : Int) < 0) := by omega
  simp [h2]

theorem bisectLeftAux_congr' (a a' : ℕ → K) (v : K) (lo hi : ℕ) (h : ∀ i, i < hi → a i = a' i) :
    bisectLeftAux a v lo hi = bisectLeftAux a' v lo hi := by
  fun_induction bisectLeftAux a v lo hi with
  | case1 lo hi hlt mid hc ih =>
    rw [bisectLeftAux.eq_1 a', dif_pos hlt]
    have : a' ((lo + hi) / 2) < v := by rw [← h _ (by omega)]; exact hc
    simp only [this, if_true]
    exact ih h
  | case2 lo hi hlt mid hc ih =>
    rw [bisectLeftAux.eq_1 a', dif_pos hlt]
    have : ¬ a' ((lo + hi) / 2) < v := by rw [← h _ (by omega)]; exact hc
    simp only [this, if_false]
    exact ih (fun i hi' => h i (by omega))
  | case3 lo hi hlt =>
    rw [bisectLeftAux.eq_1 a', dif_neg hlt]

theorem pyBisectLeft_knots (b : Basis K) (v : K) : pyBisectLeft b.knots.toList v = ((b.bisectL v : ℕ) : Int) := by
  unfold pyBisectLeft Basis.bisectL
  simp only [Array.length_toList]
  congr 1
  unfold bisectLeft
  apply bisectLeftAux_congr'
  intro i hi
  simp [Basis.kn, hi]

theorem sliceAxis_shape (t : Tensor K) (d lo hi : ℕ) : (t.sliceAxis d lo hi).shape = t.shape.set d (hi - lo) := rfl

theorem mkRaw_ofObj (n : ℕ) (bs : Array (Basis K)) (cps : Tensor K) (r : Bool) (hn : bs.size = n)
    (hs : cps.shape ≠ []) (hnc : 1 ≤ cps.shape.getLastD 0) :
    mkRaw (n : Int) bs cps r = .ok (ofObj ⟨bs, cps, r⟩) := by
  unfold mkRaw
  rw [if_pos (by rw [hn]), if_neg hs]
  congr 1
  unfold ofObj
  simp only [PyObj.mk.injEq, true_and, and_true]
  unfold Obj.dimension Obj.ncomp b2i
  simp only []
  split_ifs <;> omega

/-! ### method: split -/

/-- state of the generated piece loop: `(cp_slice, bases, last_knot_i, last_cp_i, results)` -/
abbrev PcState (K : Type) [Field K] [LinearOrder K] := List IdxTok × Array (Basis K) × Int × Int × List (PyObj K)

/-- the generated body of the piece loop (`self_ = ofObj o`, `splitting_obj = ofObj so`, `b = so.basis dir`) -/
def pcBody (o so : Obj K) (tol : K) (dir : ℕ) (x27 : K) (st27 : PcState K) : PyM (PcState K) := do
  let cp_slice := st27.1
  let bases := st27.2.1
  let last_knot_i := st27.2.2.1
  let last_cp_i := st27.2.2.2.1
  let results := st27.2.2.2.2
  let k := x27
  let tmp28 ← PyObject.start_dir (ofObj o) tol (DirTok.int (dir : Int))
  let tmp30 ← (if (tmp28 < k) then do
      let tmp29 ← PyObject.end_dir (ofObj o) tol (DirTok.int (dir : Int))
      pure (decide (k < tmp29))
    else pure false)
  let st31 ← (if (tmp30 = true) then do
      let mu := (pyBisectLeft (so.basis dir).knots.toList k)
      let n_cp := (mu - last_knot_i)
      let knot_slice := (IdxTok.range (some last_knot_i) (some (mu + (((o.basis dir).order : ℕ) : Int))))
      let cp_slice ← setItem cp_slice (dir : Int) (IdxTok.range (some last_cp_i) (some (last_cp_i + n_cp)))
      let tmp32 ← npIndex (ofObj so).controlpoints cp_slice
      let cp := tmp32
      let tmp33 ← sliceTok (so.basis dir).knots.toList knot_slice
      let tmp34 ← mkBasis (((o.basis dir).order : ℕ) : Int) tmp33 tol
      let bases ← setBasis bases (dir : Int) tmp34
      let args := (bases, cp, (ofObj so).rational)
      let tmp35 ← mkRaw ((o.bases.size : ℕ) : Int) args.1 args.2.1 args.2.2
      let results := listAdd results [tmp35]
      let last_knot_i := mu
      let last_cp_i := (last_cp_i + n_cp)
      pure (cp_slice, bases, results, last_knot_i, last_cp_i)
    else do
      pure (cp_slice, bases, results, last_knot_i, last_cp_i))
  let cp_slice := st31.1
  let bases := st31.2.1
  let results := st31.2.2.1
  let last_knot_i := st31.2.2.2.1
  let last_cp_i := st31.2.2.2.2
  pure (cp_slice, bases, last_knot_i, last_cp_i, results)

/-- the generated state and the state of the hand model's loop -/
def PcRel (so : Obj K) (dir : ℕ) (s : PcState K) (t : List (Obj K) × ℕ × ℕ) : Prop :=
  (∃ tok, s.1 = (List.replicate so.cps.shape.length IdxTok.all).set dir tok) ∧
  (∃ b, s.2.1 = so.bases.set! dir b) ∧ s.2.2.1 = ((t.2.2 : ℕ) : Int) ∧ s.2.2.2.1 = ((t.2.1 : ℕ) : Int) ∧
  s.2.2.2.2 = t.1.map ofObj ∧ t.2.1 = t.2.2 ∧ t.2.2 ≤ so.cps.shape.getD dir 0

theorem mkBasis_nat (p : ℕ) (l : List K) (tol : K) : mkBasis (p : Int) l tol = Basis.mk? p l.toArray (-1) tol := by
  unfold mkBasis
  have : ¬ ((p : Int) < 0) := by omega
  simp [this]

theorem pc_step (o so : Obj K) (tol : K) (dir : ℕ) (hIo : LpInv o dir) (hd2 : dir ≤ 2) (hS : SiInv o dir so)
    (hnc : 1 ≤ o.ncomp) (k : K) (s : PcState K) (t : List (Obj K) × ℕ × ℕ) (hR : PcRel so dir s t)
    (hg : ((o.basis dir).start < k ∧ k < (o.basis dir).stop) →
      t.2.2 ≤ (so.basis dir).bisectL k ∧ (so.basis dir).bisectL k ≤ so.cps.shape.getD dir 0) :
    (∃ e, pcBody o so tol dir k s = .error e ∧ spStep o so tol dir t k = .error e) ∨
    (∃ s' t', pcBody o so tol dir k s = .ok s' ∧ spStep o so tol dir t k = .ok t' ∧ PcRel so dir s' t' ∧
      t'.2.2 = (if (o.basis dir).start < k ∧ k < (o.basis dir).stop then (so.basis dir).bisectL k else t.2.2)) := by
  obtain ⟨hbo, hdiro⟩ := hIo
  obtain ⟨⟨hbs, hdirs⟩, i1, i2, i3, i4, i5, i6, i7⟩ := hS
  obtain ⟨res, lc, lk⟩ := t
  obtain ⟨cs, bs, lki, lci, rs⟩ := s
  obtain ⟨⟨tok0, hcs⟩, ⟨b0, hbs0⟩, hlk, hlc, hrs, hcl, hle⟩ := hR
  simp only [] at hcs hbs0 hlk hlc hrs hcl hle hg
  subst hcs hbs0 hlk hlc hrs hcl
  have hpdo : o.pardim = o.bases.size := by unfold Obj.pardim; omega
  unfold pcBody spStep
  simp only []
  rw [PyObject_start_dir_eq o tol _ (by omega) (by omega), checkDirection_int (by omega) hd2]
  simp only [map_ok, ok_bind]
  by_cases hs : (o.basis dir).start < k
  · rw [if_pos hs, PyObject_end_dir_eq o tol _ (by omega) (by omega), checkDirection_int (by omega) hd2]
    simp only [map_ok, ok_bind, pure_eq_ok, decide_eq_true_eq]
    by_cases he : k < (o.basis dir).stop
    · obtain ⟨hg1, hg2⟩ := hg ⟨hs, he⟩
      rw [if_pos he, if_pos ⟨hs, he⟩]
      simp only [pyBisectLeft_knots]
      rw [setItem_nat _ (by simp; omega)]
      simp only [ok_bind, List.set_set, ofObj_cps, ofObj_rational]
      rw [npIndex_range so.cps dir _ _ (by omega)]
      simp only [ok_bind, sliceTok]
      have e1 : (((so.basis dir).bisectL k : ℕ) : Int) + (((o.basis dir).order : ℕ) : Int)
          = (((so.basis dir).bisectL k + (o.basis dir).order : ℕ) : Int) := by push_cast; rfl
      rw [e1, mkBasis_nat, slice_toArray_extract]
      cases hmk : Basis.mk? (o.basis dir).order
          ((so.basis dir).knots.extract lc ((so.basis dir).bisectL k + (o.basis dir).order)) (-1) tol with
      | error e => exact Or.inl ⟨e, rfl, rfl⟩
      | ok nb =>
        simp only [ok_bind]
        rw [setBasis_nat _ (by simp; omega)]
        simp only [ok_bind, set!_set!]
        have e2 : ((lc : ℕ) : Int) + ((((so.basis dir).bisectL k : ℕ) : Int) - ((lc : ℕ) : Int))
            = (((so.basis dir).bisectL k : ℕ) : Int) := by omega
        have e3 : sliceLo (so.cps.shape.getD dir 0) (some ((lc : ℕ) : Int)) = lc := by
          unfold sliceLo
          have : ¬ (((lc : ℕ) : Int) < 0) := by omega
          simp only [this, if_false, Int.toNat_natCast]; omega
        have e4 : sliceHi (so.cps.shape.getD dir 0) (some (((so.basis dir).bisectL k : ℕ) : Int))
            = (so.basis dir).bisectL k := by
          unfold sliceHi
          have : ¬ ((((so.basis dir).bisectL k : ℕ) : Int) < 0) := by omega
          simp only [this, if_false, Int.toNat_natCast]; omega
        rw [e2, e3, e4, max_eq_right hg1]
        have e5 : lc + ((so.basis dir).bisectL k - lc) = (so.basis dir).bisectL k := by omega
        rw [e5]
        rw [mkRaw_ofObj o.bases.size _ _ _ (by simp; omega)
          (by rw [sliceAxis_shape]; intro h; have := congrArg List.length h; rw [List.length_set, List.length_nil] at this; omega)
          (by rw [sliceAxis_shape, getLastD_set _ _ _ _ (by omega), i6]; exact hnc)]
        refine Or.inr ⟨_, _, rfl, rfl, ⟨⟨_, rfl⟩, ⟨_, rfl⟩, rfl, rfl, ?_, rfl, hg2⟩, ?_⟩
        · simp [listAdd]
        · rw [if_pos ⟨hs, he⟩]
    · rw [if_neg he, if_neg (fun h => he h.2)]
      refine Or.inr ⟨_, _, rfl, rfl, ⟨⟨_, rfl⟩, ⟨_, rfl⟩, rfl, rfl, rfl, rfl, hle⟩, ?_⟩
      rw [if_neg (fun h => he h.2)]
  · rw [if_neg hs]
    simp only [pure_eq_ok, ok_bind]
    rw [if_neg (by simp), if_neg (fun h => hs h.1)]
    refine Or.inr ⟨_, _, rfl, rfl, ⟨⟨_, rfl⟩, ⟨_, rfl⟩, rfl, rfl, rfl, rfl, hle⟩, ?_⟩
    rw [if_neg (fun h => hs h.1)]

theorem pc_loop (o so : Obj K) (tol : K) (dir : ℕ) (hIo : LpInv o dir) (hd2 : dir ≤ 2) (hS : SiInv o dir so)
    (hnc : 1 ≤ o.ncomp) : ∀ (ks : List K) (s : PcState K) (t : List (Obj K) × ℕ × ℕ), PcRel so dir s t →
    SplitOrdered (so.basis dir) (o.basis dir).start (o.basis dir).stop (so.cps.shape.getD dir 0) t.2.2 ks →
    (∃ e, ks.foldlM (fun s x => pcBody o so tol dir x s) s = .error e ∧
          ks.foldlM (spStep o so tol dir) t = .error e) ∨
    (∃ s' t', ks.foldlM (fun s x => pcBody o so tol dir x s) s = .ok s' ∧
          ks.foldlM (spStep o so tol dir) t = .ok t' ∧ PcRel so dir s' t') := by
  intro ks
  induction ks with
  | nil => intro s t hR _; exact Or.inr ⟨s, t, rfl, rfl, hR⟩
  | cons k ks ih =>
    intro s t hR hO
    unfold SplitOrdered at hO
    have hg : ((o.basis dir).start < k ∧ k < (o.basis dir).stop) →
        t.2.2 ≤ (so.basis dir).bisectL k ∧ (so.basis dir).bisectL k ≤ so.cps.shape.getD dir 0 := by
      intro h; rw [if_pos h] at hO; exact ⟨hO.1, hO.2.1⟩
    rcases pc_step o so tol dir hIo hd2 hS hnc k s t hR hg with ⟨e, h1, h2⟩ | ⟨s', t', h1, h2, hR', ht'⟩
    · exact Or.inl ⟨e, by simp [List.foldlM_cons, h1], by simp [List.foldlM_cons, h2]⟩
    · simp only [List.foldlM_cons, h1, h2, ok_bind]
      apply ih s' t' hR'
      rw [ht']
      by_cases h : (o.basis dir).start < k ∧ k < (o.basis dir).stop
      · rw [if_pos h] at hO ⊢; exact hO.2.2
      · rw [if_neg h] at hO ⊢; exact hO

end Splipy.PyO

-- ---------------------------------------------------------------------------- t3b part 11

namespace Splipy.PyO
open Splipy Splipy.Generated Splipy.C06
variable {K : Type} [Field K] [LinearOrder K] [FloorRing K]

/-! ### method: split -/

/-- guard of the piece loop: see `SplitOrdered` -/
def PiecesOrdered (self so : Obj K) (dir : ℕ) (ks : List K) : Prop :=
  SplitOrdered (so.basis dir) (self.basis dir).start (self.basis dir).stop (so.cps.shape.getD dir 0) 0 ks

theorem replicate_set_self {α : Type} (n i : ℕ) (a : α) : (List.replicate n a).set i a = List.replicate n a := by
  apply List.ext_getElem
  · simp
  · intro k h1 h2
    simp [List.getElem_set]

theorem len_npShape (t : Tensor K) : len (npShape t) = (t.shape.length : Int) := by
  simp [len, npShape]

theorem np_tail (o so : Obj K) (tol : K) (dir : ℕ) (hIo : LpInv o dir) (hd2 : dir ≤ 2) (hS : SiInv o dir so)
    (hnc : 1 ≤ o.ncomp) (ks : List K) (hO : PiecesOrdered o so dir ks) :
    (do
      let st27 ← forEach ks ((listMul ([IdxTok.all] : List IdxTok) (len (npShape (ofObj o).controlpoints))),
          (ofObj so).bases, (0 : Int), (0 : Int), ([] : List (PyObj K))) (pcBody o so tol dir)
      let cp_slice := st27.1
      let bases := st27.2.1
      let last_knot_i := st27.2.2.1
      let last_cp_i := st27.2.2.2.1
      let results := st27.2.2.2.2
      let knot_slice := (IdxTok.range (some last_knot_i) none)
      let cp_slice ← setItem cp_slice (dir : Int) (IdxTok.range (some last_cp_i) none)
      let tmp36 ← sliceTok (so.basis dir).knots.toList knot_slice
      let tmp37 ← mkBasis (((o.basis dir).order : ℕ) : Int) tmp36 tol
      let bases ← setBasis bases (dir : Int) tmp37
      let tmp38 ← npIndex (ofObj so).controlpoints cp_slice
      let cp := tmp38
      let args := (bases, cp, (ofObj so).rational)
      let tmp39 ← mkRaw ((o.bases.size : ℕ) : Int) args.1 args.2.1 args.2.2
      let results := listAdd results [tmp39]
      pure (PyRes.objs results))
    = (Obj.splitPieces o so tol ks dir).map (fun ps => PyRes.objs (ps.map ofObj)) := by
  have hIo' := hIo
  have hS' := hS
  obtain ⟨hbo, hdiro⟩ := hIo
  obtain ⟨⟨hbs, hdirs⟩, i1, i2, i3, i4, i5, i6, i7⟩ := hS
  rw [splitPieces_eq]
  unfold forEach
  have hR0 : PcRel so dir ((listMul ([IdxTok.all] : List IdxTok) (len (npShape (ofObj o).controlpoints))),
      (ofObj so).bases, (0 : Int), (0 : Int), ([] : List (PyObj K))) (([] : List (Obj K)), 0, 0) := by
    refine ⟨⟨IdxTok.all, ?_⟩, ⟨so.bases.getD dir default, ?_⟩, rfl, rfl, rfl, rfl, Nat.zero_le _⟩
    · simp only [ofObj_cps, len_npShape, listMul_singleton, replicate_set_self, i5]
    · simp only [ofObj_bases]; exact (set!_getD_self _ _ hdirs).symm
  rcases pc_loop o so tol dir hIo' hd2 hS' hnc ks _ _ hR0 hO with ⟨e, h1, h2⟩ | ⟨s', t', h1, h2, hR⟩
  · rw [h1, h2]; rfl
  · rw [h1, h2]
    obtain ⟨res, lc, lk⟩ := t'
    obtain ⟨cs, bs, lki, lci, rs⟩ := s'
    obtain ⟨⟨tok0, hcs⟩, ⟨b0, hbs0⟩, hlk, hlc, hrs, hcl, hle⟩ := hR
    simp only [] at hcs hbs0 hlk hlc hrs hcl hle
    subst hcs hbs0 hlk hlc hrs hcl
    simp only [ok_bind]
    rw [setItem_nat _ (by simp; omega)]
    simp only [ok_bind, List.set_set, sliceTok, mkBasis_nat, slice_toArray_extract_none, ofObj_cps, ofObj_rational]
    cases hmk : Basis.mk? (o.basis dir).order ((so.basis dir).knots.extract lc (so.basis dir).knots.size) (-1) tol with
    | error e => rfl
    | ok nb =>
      simp only [ok_bind]
      rw [setBasis_nat _ (by simp; omega)]
      simp only [ok_bind, set!_set!]
      rw [npIndex_range so.cps dir _ _ (by omega)]
      simp only [ok_bind]
      have e3 : sliceLo (so.cps.shape.getD dir 0) (some ((lc : ℕ) : Int)) = lc := by
        unfold sliceLo
        have : ¬ (((lc : ℕ) : Int) < 0) := by omega
        simp only [this, if_false, Int.toNat_natCast]; omega
      have e4 : sliceHi (so.cps.shape.getD dir 0) none = so.cps.shape.getD dir 0 := rfl
      rw [e3, e4, max_eq_right hle]
      rw [mkRaw_ofObj o.bases.size _ _ _ (by simp; omega)
        (by rw [sliceAxis_shape]; intro h; have := congrArg List.length h; rw [List.length_set, List.length_nil] at this; omega)
        (by rw [sliceAxis_shape, getLastD_set _ _ _ _ (by omega), i6]; exact hnc)]
      simp [listAdd]

end Splipy.PyO

namespace Splipy.PyO
open Splipy Splipy.Generated Splipy.C06
variable {K : Type} [Field K] [LinearOrder K] [FloorRing K]

theorem SiInv.refl (o : Obj K) (dir : ℕ) (hI : LpInv o dir) : SiInv o dir o :=
  ⟨hI, rfl, rfl, rfl, rfl, rfl, rfl, le_refl _⟩

theorem split_fuel_np (f : ℕ) (o : Obj K) (tol : K) (ks : List K) (dir : ℕ) (hI : LpInv o dir) (hd2 : dir ≤ 2)
    (hd3 : o.bases.size ≤ 3) (hnc : 1 ≤ o.ncomp) (hnp : ¬ (o.basis dir).periodic > -1)
    (hO : ∀ so, o.splitInsert tol ks dir = .ok so → PiecesOrdered o so dir ks) :
    PyObject.split_fuel (f + 1) (ofObj o) tol (Param.list ks) (DirTok.int dir) = (do
      let so ← o.splitInsert tol ks dir
      let ps ← Obj.splitPieces o so tol ks dir
      pure (PyRes.objs (ps.map ofObj))) := by
  have hI' := hI
  obtain ⟨hb, hdir⟩ := hI
  have hpd : o.pardim = o.bases.size := by unfold Obj.pardim; omega
  unfold PyObject.split_fuel
  simp only [ensure_listlike, PyObject_pardim_eq o tol (by omega), ok_bind, PyObject_check_direction_eq]
  rw [checkDirection_int (by omega) hd2]
  simp only [map_ok, ok_bind]
  rw [PyObject_order_dir_eq o tol _ (by omega) (by omega), checkDirection_int (by omega) hd2]
  simp only [map_ok, ok_bind, pure_eq_ok]
  rw [splitInsert_eq]
  refine (si_loop o tol dir _ ?_ _ _ ks o (SiInv.refl o dir hI') ?_).trans rfl
  · intro so k hIs
    exact si_body o so tol dir k hd2 hdir hIs
  · intro so hS hso
    have hS' := hS
    obtain ⟨⟨hbs, hdirs⟩, i1, i2, i3, i4, i5, i6, i7⟩ := hS
    simp only [ofObj_bases]
    rw [getBasis_nat _ hdirs]
    simp only [ok_bind]
    have hnp' : ¬ (so.bases.getD dir default).periodic > -1 := by
      change ¬ (so.basis dir).periodic > -1; rw [i2]; exact hnp
    rw [if_neg hnp']
    have hc : ctorFirst ((o.bases.size : ℕ) : Int) = .ok ((o.bases.size : ℕ) : Int) := by
      unfold ctorFirst; rw [if_pos]; constructor <;> omega
    rw [hc]
    simp only [ok_bind]
    have key := np_tail o so tol dir hI' hd2 hS' hnc ks (hO so hso)
    rw [show (do let ps ← o.splitPieces so tol ks dir; Except.ok (PyRes.objs (List.map ofObj ps)))
        = (o.splitPieces so tol ks dir).map (fun ps => PyRes.objs (ps.map ofObj)) from by
      cases o.splitPieces so tol ks dir <;> rfl]
    rw [← key]
    rfl

end Splipy.PyO

-- ---------------------------------------------------------------------------- t3b part 12

namespace Splipy.PyO
open Splipy Splipy.Generated Splipy.C06
variable {K : Type} [Field K] [LinearOrder K] [FloorRing K]

/-! ### method: split -/

/-- the value `split` returns: one object (periodic direction, one split point) or a list of pieces -/
def resOf : SplitRes K → PyRes K
  | .single o => .obj (ofObj o)
  | .many ps => .objs (ps.map ofObj)

/-- the object of the periodic branch after `roll`, `np.roll` and dropping the ghost knots -/
def openAt (so : Obj K) (dir mu : ℕ) (b1 : Basis K) : Obj K :=
  { so with
    bases := so.bases.set! dir
      { b1 with knots := b1.knots.extract 0 (b1.knots.size - (so.basis dir).periodic.toNat - 1), periodic := -1 },
    cps := so.cps.rollAxisNeg dir mu }

/-- Guard of `PyObject_split_eq`, in terms of the hand model's own intermediate objects: in every piece loop
    that runs, the split values are met in increasing knot position and inside the control net
    (`PiecesOrdered`).  The model keeps positions in `ℕ` (truncated subtraction, unclamped slices), the
    code in Python ints with numpy's clamped slices: they agree exactly under this condition. -/
def SplitGuard (o : Obj K) (tol : K) (ks : List K) (dir : ℕ) : Prop :=
  ∀ so, o.splitInsert tol ks dir = .ok so →
    if (so.basis dir).periodic > -1 then
      ∀ b1, (so.basis dir).roll ((so.basis dir).bisectL (ks.headD 0)) = .ok b1 →
        ∀ so3, (openAt so dir ((so.basis dir).bisectL (ks.headD 0)) b1).splitInsert tol ks.tail dir = .ok so3 →
          PiecesOrdered (openAt so dir ((so.basis dir).bisectL (ks.headD 0)) b1) so3 dir ks.tail
    else PiecesOrdered o so dir ks

theorem rollAxisPos_zero (t : Tensor K) (ax : ℕ) : t.rollAxisPos ax 0 = t.rollAxisNeg ax 0 := by
  unfold Tensor.rollAxisPos Tensor.rollAxisNeg
  simp only []
  congr 1
  funext r
  simp

theorem npRoll_neg (t : Tensor K) (dir mu : ℕ) (h : dir < t.shape.length) :
    npRoll t (-(mu : Int)) (dir : Int) = .ok (t.rollAxisNeg dir mu) := by
  unfold npRoll
  rw [normIdx_nat h]
  simp only []
  by_cases h0 : mu = 0
  · subst h0
    simp [rollAxisPos_zero]
  · have : ¬ ((0 : Int) ≤ -(mu : Int)) := by omega
    rw [if_neg this]
    simp

theorem slice_tail {α : Type} (x : α) (l : List α) : slice (x :: l) (some (1 : Int)) none = l := by
  unfold slice sliceLo sliceHi
  simp

theorem slice_ghost (a : Array K) (r : ℕ) :
    (slice a.toList none (some (-(r : Int) - 1))).toArray = a.extract 0 (a.size - r - 1) := by
  unfold slice sliceLo sliceHi
  have h : (-(r : Int) - 1) < 0 := by omega
  simp only [h, if_true, List.drop_zero, Array.length_toList]
  apply Array.ext'
  rw [Array.toList_extract]
  simp only [List.toList_toArray]
  rw [List.extract_eq_take_drop]
  simp only [List.drop_zero, Nat.sub_zero]
  congr 1
  omega

theorem split_fuel_eq (f : ℕ) (o : Obj K) (tol : K) (knots : Param K) (d : DirTok)
    (hb : o.cps.shape.length = o.bases.size + 1) (hd3 : o.bases.size ≤ 3) (hnc : 1 ≤ o.ncomp)
    (hper : ∀ dir, dir < o.bases.size → (o.basis dir).periodic ≥ 0 →
      ((o.basis dir).order : Int) + (o.basis dir).periodic + 1 ≤ ((o.basis dir).knots.size : Int))
    (hG : ∀ dir, checkDirection d o.pardim = .ok dir → SplitGuard o tol (ensure_listlike knots) dir) :
    PyObject.split_fuel (f + 2) (ofObj o) tol knots d = (do
      let dir ← checkDirection d o.pardim
      let r ← o.split tol (ensure_listlike knots) dir
      pure (resOf r)) := by
  have hpd : o.pardim = o.bases.size := by unfold Obj.pardim; omega
  unfold PyObject.split_fuel
  simp only [PyObject_pardim_eq o tol (by omega), ok_bind, PyObject_check_direction_eq]
  cases hc : checkDirection d o.pardim with
  | error e => rfl
  | ok dir =>
    have hdir : dir < o.bases.size := by have := checkDirection_lt hc; omega
    have hd2 := checkDirection_le2 hc
    have hI : LpInv o dir := ⟨hb, hdir⟩
    simp only [map_ok, ok_bind]
    rw [PyObject_order_dir_eq o tol _ (by omega) (by omega), checkDirection_int (by omega) hd2]
    simp only [map_ok, ok_bind, pure_eq_ok]
    generalize hks : ensure_listlike knots = ks
    have hG' := hG dir hc
    rw [hks] at hG'
    unfold Obj.split
    rw [splitInsert_eq]
    rw [bind_assoc]
    refine (si_loop o tol dir _ ?_ _ _ ks o (SiInv.refl o dir hI) ?_).trans rfl
    · intro so k hIs
      exact si_body o so tol dir k hd2 hdir hIs
    · intro so hS hso
      have hS' := hS
      obtain ⟨⟨hbs, hdirs⟩, i1, i2, i3, i4, i5, i6, i7⟩ := hS
      simp only [ofObj_bases]
      rw [getBasis_nat _ hdirs]
      simp only [ok_bind]
      have hbd : so.bases.getD dir default = so.basis dir := rfl
      rw [hbd]
      by_cases hp : (so.basis dir).periodic > -1
      · unfold SplitGuard at hG'
        have hGs := hG' so hso
        rw [if_pos hp] at hGs
        rw [if_pos hp, if_pos hp]
        cases ks with
        | nil => rfl
        | cons k0 rest =>
          have hg0 : getItem (k0 :: rest) (0 : Int) = .ok k0 := by
            have := getItem_nat (k0 :: rest) (k := 0) (by simp)
            simpa using this
          rw [hg0]
          simp only [ok_bind, pyBisectLeft_knots, List.headD_cons, List.tail_cons] at hGs ⊢
          have hsz : ((so.basis dir).order : Int) + (so.basis dir).periodic + 1 ≤ ((so.basis dir).knots.size : Int) := by
            have := hper dir hdir (by rw [← i2]; omega)
            rw [i1, i2]; omega
          unfold basisRoll
          have h1 : ¬ ((((so.basis dir).bisectL k0 : ℕ) : Int) < 0) := by omega
          have h2 : ¬ ((so.basis dir).periodic < 0) := by omega
          rw [if_neg h1, if_neg h2]
          by_cases hgd : ((so.basis dir).order : Int) + (so.basis dir).periodic + 1 + (((so.basis dir).bisectL k0 : ℕ) : Int)
              > ((so.basis dir).knots.size : Int)
          · have hgd' : (so.basis dir).bisectL k0 >
                (so.basis dir).knots.size - (so.basis dir).order - (so.basis dir).periodic.toNat - 1 := by omega
            rw [if_pos hgd, if_pos hgd']
            rfl
          · have hgd' : ¬ ((so.basis dir).bisectL k0 >
                (so.basis dir).knots.size - (so.basis dir).order - (so.basis dir).periodic.toNat - 1) := by omega
            rw [if_neg hgd, if_neg hgd']
            simp only [Int.toNat_natCast, pure_eq_ok, ok_bind]
            cases hroll : (so.basis dir).roll ((so.basis dir).bisectL k0) with
            | error e => rfl
            | ok b1 =>
              have hb1 : b1.periodic = (so.basis dir).periodic ∧ b1.order = (so.basis dir).order := by
                unfold Basis.roll at hroll
                rw [if_neg h2] at hroll
                cases hroll
                exact ⟨rfl, rfl⟩
              simp only [ok_bind]
              rw [setBasis_nat _ hdirs]
              simp only [ok_bind, ofObj_cps]
              rw [npRoll_neg _ _ _ (by omega)]
              simp only [ok_bind]
              rw [getBasis_nat _ (by simp; omega), getD_set!_self _ _ hdirs]
              simp only [ok_bind]
              rw [setBasis_nat _ (by simp; omega)]
              simp only [ok_bind, set!_set!]
              rw [getBasis_nat _ (by simp; omega), getD_set!_self _ _ hdirs]
              simp only [ok_bind]
              rw [setBasis_nat _ (by simp; omega)]
              simp only [ok_bind, set!_set!]
              have hr : b1.periodic = (((so.basis dir).periodic.toNat : ℕ) : Int) := by rw [hb1.1]; omega
              rw [hr, slice_ghost]
              have hobj : PyObj.mk (so.bases.set! dir
                    (Basis.mk b1.order (b1.knots.extract 0 (b1.knots.size - (so.basis dir).periodic.toNat - 1)) (-1)))
                  (so.cps.rollAxisNeg dir ((so.basis dir).bisectL k0)) (ofObj so).dimension (ofObj so).rational
                  = ofObj (openAt so dir ((so.basis dir).bisectL k0) b1) := by
                unfold ofObj openAt
                simp only [PyObj.mk.injEq, true_and, and_true, Nat.cast_inj]
                symm
                apply ofObj_dimension_shape
                · simp only [rollAxisNeg_shape]
                · rfl
              rw [hobj]
              have hlen : (len (k0 :: rest) > (1 : Int)) ↔ rest.length ≥ 1 := by
                simp only [len, List.length_cons]; omega
              by_cases hr1 : rest.length ≥ 1
              · rw [if_pos (hlen.mpr hr1), if_pos hr1, slice_tail]
                have hI2 : LpInv (openAt so dir ((so.basis dir).bisectL k0) b1) dir := by
                  unfold openAt LpInv
                  simp only [rollAxisNeg_shape, Array.size_set!]
                  exact ⟨hbs, hdirs⟩
                rw [split_fuel_np f _ tol rest dir hI2 hd2 (by unfold openAt; simp; omega)
                  (by unfold openAt Obj.ncomp; simp only [rollAxisNeg_shape]; unfold Obj.ncomp at hnc; omega)
                  (by unfold openAt; rw [basis_set _ _ hdirs]; simp)
                  (fun so3 h3 => hGs b1 hroll so3 h3)]
                show _ = (do
                  let so3 ← (openAt so dir ((so.basis dir).bisectL k0) b1).splitInsert tol rest dir
                  let ps ← (openAt so dir ((so.basis dir).bisectL k0) b1).splitPieces so3 tol rest dir
                  pure (SplitRes.many ps)) >>= fun r => Except.ok (resOf r)
                cases (openAt so dir ((so.basis dir).bisectL k0) b1).splitInsert tol rest dir with
                | error e => rfl
                | ok so3 =>
                  simp only [ok_bind]
                  cases (openAt so dir ((so.basis dir).bisectL k0) b1).splitPieces so3 tol rest dir <;> rfl
              · rw [if_neg (fun h => hr1 (hlen.mp h)), if_neg hr1]
                rfl
      · unfold SplitGuard at hG'
        have hGs := hG' so hso
        rw [if_neg hp] at hGs
        rw [if_neg hp, if_neg hp]
        have hc : ctorFirst ((o.bases.size : ℕ) : Int) = .ok ((o.bases.size : ℕ) : Int) := by
          unfold ctorFirst; rw [if_pos]; constructor <;> omega
        rw [hc]
        simp only [ok_bind]
        have key := np_tail o so tol dir hI hd2 hS' hnc ks hGs
        rw [show (do let ps ← o.splitPieces so tol ks dir; pure (SplitRes.many ps)) >>= (fun r => Except.ok (resOf r))
            = (o.splitPieces so tol ks dir).map (fun ps => PyRes.objs (ps.map ofObj)) from by
          cases o.splitPieces so tol ks dir <;> rfl]
        rw [← key]
        rfl

/-- `SplineObject.split(knots, direction)` = the hand model `Obj.split`.  Guards: one basis per parametric axis
    (`hb`); at most three parametric directions (`hd3`: the code looks the class of the pieces up among
    Curve / Surface / Volume and raises `IndexError` otherwise, the model does not); at least one component
    (`hnc`); a periodic basis has its `p + k + 1` ghost knots (`hper`); `SplitGuard` (`hG`). -/
theorem _root_.PyObject_split_eq (o : Obj K) (tol : K) (knots : Param K) (d : DirTok)
    (hb : o.cps.shape.length = o.bases.size + 1) (hd3 : o.bases.size ≤ 3) (hnc : 1 ≤ o.ncomp)
    (hper : ∀ dir, dir < o.bases.size → (o.basis dir).periodic ≥ 0 →
      ((o.basis dir).order : Int) + (o.basis dir).periodic + 1 ≤ ((o.basis dir).knots.size : Int))
    (hG : ∀ dir, checkDirection d o.pardim = .ok dir → SplitGuard o tol (ensure_listlike knots) dir) :
    PyObject.split (ofObj o) tol knots d = (do
      let dir ← checkDirection d o.pardim
      let r ← o.split tol (ensure_listlike knots) dir
      pure (resOf r)) :=
  split_fuel_eq 0 o tol knots d hb hd3 hnc hper hG

end Splipy.PyO

-- ---------------------------------------------------------------------------- t3b part 13

namespace Splipy.PyO
open Splipy Splipy.Generated Splipy.C06
variable {K : Type} [Field K] [LinearOrder K] [FloorRing K]

/-! ## `np.tensordot(M, t, axes=(1, pardim-1))` = `Tensor.tensordotFront` (no generated code) -/

theorem flatIdx_append (A B x y : List ℕ) (h : x.length = A.length) :
    flatIdx (A ++ B) (x ++ y) = flatIdx A x * Tensor.prod B + flatIdx B y := by
  induction A generalizing x with
  | nil =>
    cases x with
    | nil => simp
    | cons a x => simp at h
  | cons n A ih =>
    cases x with
    | nil => simp at h
    | cons a x =>
      have h' : x.length = A.length := by simpa using h
      simp only [List.cons_append, flatIdx_cons, ih x h', prod_append]
      ring

theorem take_insertIdx_self (rest : List ℕ) (ax j : ℕ) : (rest.insertIdx ax j).take ax = rest.take ax := by
  apply List.ext_getElem?
  intro k
  simp only [List.getElem?_take]
  by_cases hk : k < ax
  · simp only [hk, if_true]; rw [List.getElem?_insertIdx]; simp [hk]
  · simp [hk]

theorem drop_insertIdx_self (rest : List ℕ) (ax j : ℕ) : (rest.insertIdx ax j).drop (ax + 1) = rest.drop ax := by
  apply List.ext_getElem?
  intro k
  simp only [List.getElem?_drop]
  rw [List.getElem?_insertIdx]
  have h1 : ¬ (ax + 1 + k < ax) := by omega
  have h2 : ¬ (ax + 1 + k = ax) := by omega
  simp only [h1, h2, if_false]
  congr 1
  omega

theorem take_eraseIdx_self (s : List ℕ) (ax : ℕ) (h : ax < s.length) : (s.eraseIdx ax).take ax = s.take ax := by
  rw [List.eraseIdx_eq_take_drop_succ, List.take_append_of_le_length (by simp; omega), List.take_take]; simp

theorem drop_eraseIdx_self (s : List ℕ) (ax : ℕ) (h : ax < s.length) : (s.eraseIdx ax).drop ax = s.drop (ax + 1) := by
  rw [List.eraseIdx_eq_take_drop_succ, List.drop_append_of_le_length (by simp; omega)]
  simp

theorem inRange_cons_inv {idx : List ℕ} {n : ℕ} {shape : List ℕ} (h : InRange idx (n :: shape)) :
    ∃ r rest, idx = r :: rest ∧ r < n ∧ InRange rest shape := by
  cases h with
  | cons h1 h2 => exact ⟨_, _, rfl, h1, h2⟩

theorem tensordot_front (M : Mat K) (t : Tensor K) (pd : ℕ) (hpd : 1 ≤ pd) (hax : pd - 1 < t.shape.length) :
    npTensordot M t ((pd : Int) - 1) = .ok (Tensor.tensordotFront M t pd) := by
  have e : ((pd : Int) - 1) = ((pd - 1 : ℕ) : Int) := by omega
  rw [e, npTensordot_ok M t (pd - 1) hax]
  congr 1
  set ax := pd - 1 with hAx
  have hE : t.shape.eraseIdx ax = t.shape.take ax ++ t.shape.drop (ax + 1) := List.eraseIdx_eq_take_drop_succ _ _
  have hprodE : Tensor.prod (t.shape.eraseIdx ax) = Tensor.prod (t.shape.take ax) * Tensor.prod (t.shape.drop (ax + 1)) := by
    rw [hE, prod_append]
  apply tensor_ext
  · rfl
  · rw [ofIdxFn_size]; rfl
  · unfold Tensor.tensordotFront
    simp only [Array.size_ofFn, prod_cons]
    rw [← hAx, hprodE]; ring
  · intro idx hidx
    simp only [ofIdxFn_shape] at hidx
    rw [getIdx_ofIdxFn _ _ hidx]
    obtain ⟨r, rest, rfl, hr, hrest⟩ := inRange_cons_inv hidx
    simp only [List.headD_cons, List.tail_cons]
    have hlr : rest.length = t.shape.length - 1 := by
      rw [hrest.length_eq, List.length_eraseIdx, if_pos hax]
    -- the blocks of `rest`
    have hsplit : rest = rest.take ax ++ rest.drop ax := (List.take_append_drop ax rest).symm
    have hlt : (rest.take ax).length = (t.shape.take ax).length := by
      simp only [List.length_take]; omega
    have hA : InRange (rest.take ax) (t.shape.take ax) := by
      have := List.forall₂_take ax hrest
      rwa [take_eraseIdx_self _ _ hax] at this
    have hI : InRange (rest.drop ax) (t.shape.drop (ax + 1)) := by
      have := List.forall₂_drop ax hrest
      rwa [drop_eraseIdx_self _ _ hax] at this
    set a := flatIdx (t.shape.take ax) (rest.take ax) with ha
    set i := flatIdx (t.shape.drop (ax + 1)) (rest.drop ax) with hi
    set o := Tensor.prod (t.shape.take ax) with ho
    set inn := Tensor.prod (t.shape.drop (ax + 1)) with hinn
    have hao : a < o := flatIdx_lt hA
    have hii : i < inn := flatIdx_lt hI
    have hflatE : flatIdx (t.shape.eraseIdx ax) rest = a * inn + i := by
      rw [hE]
      conv_lhs => rw [hsplit]
      exact flatIdx_append _ _ _ _ hlt
    have hk : flatIdx (M.size :: t.shape.eraseIdx ax) (r :: rest) = (r * o + a) * inn + i := by
      rw [flatIdx_cons, hflatE, hprodE]; ring
    obtain ⟨e1, e2, e3⟩ := digits3 r o a inn i hao hii
    have hbound : (r * o + a) * inn + i < M.size * o * inn := by
      have : (r * o + a + 1) * inn ≤ M.size * o * inn := by
        apply Nat.mul_le_mul_right
        have : (r + 1) * o ≤ M.size * o := Nat.mul_le_mul_right _ hr
        nlinarith
      nlinarith
    unfold getIdx
    show _ = (Tensor.tensordotFront M t pd).get (flatIdx (M.size :: t.shape.eraseIdx ax) (r :: rest))
    rw [hk]
    unfold Tensor.tensordotFront Tensor.get
    simp only [← hAx, ← ho, ← hinn]
    rw [getD_ofFn _ _ hbound]
    simp only [e1, Nat.div_div_eq_div_mul, e3, e2]
    unfold Mat.dot Mat.get
    apply foldl_range_congr
    intro acc j hj
    congr 2
    -- the entry of `t`
    have hfull : (rest.insertIdx ax 0).length = t.shape.length := by
      rw [List.length_insertIdx]; simp only [hlr]; split_ifs <;> omega
    have hrest' : rest = (rest.insertIdx ax 0).eraseIdx ax := by
      rw [List.eraseIdx_insertIdx_self]
    have hins : rest.insertIdx ax j = (rest.insertIdx ax 0).set ax j := by
      conv_lhs => rw [hrest']
      exact eraseIdx_insertIdx_set _ _ _ (by omega)
    rw [hins]
    congr 1
    rw [flatIdx_split _ _ ax hax (by rw [List.length_set]; exact hfull), List.take_set_of_le (le_refl ax),
      getD_set_self _ _ _ _ (by omega), List.drop_set_of_lt (Nat.lt_succ_self ax), take_insertIdx_self,
      drop_insertIdx_self]

end Splipy.PyO

-- ---------------------------------------------------------------------------- t3b part 14

namespace Splipy.PyO
open Splipy Splipy.Generated Splipy.C06
variable {K : Type} [Field K] [LinearOrder K] [FloorRing K]

/-! ### method: pardim -/

-- the interpolation shared by `raise_order_implicit` and `lower_order`; the only generated code it mentions is `pardim`

theorem tensordotFront_shape (M : Mat K) (t : Tensor K) (pd : ℕ) :
    (Tensor.tensordotFront M t pd).shape = M.size :: t.shape.eraseIdx (pd - 1) := rfl

/-- invariant of the two contraction loops: rank and number of components -/
def TdInv (pd nc : ℕ) (t : Tensor K) : Prop := t.shape.length = pd + 1 ∧ t.shape.getLastD 0 = nc

theorem tdInv_step (M : Mat K) (t : Tensor K) (pd nc : ℕ) (hpd : 1 ≤ pd) (h : TdInv pd nc t) :
    TdInv pd nc (Tensor.tensordotFront M t pd) := by
  obtain ⟨h1, h2⟩ := h
  refine ⟨?_, ?_⟩
  · rw [tensordotFront_shape, List.length_cons, List.length_eraseIdx, if_pos (by omega)]; omega
  · rw [tensordotFront_shape, ← h2]
    rw [List.getLastD_eq_getLast?, List.getLastD_eq_getLast?, List.getLast?_eq_getElem?, List.getLast?_eq_getElem?]
    simp only [List.length_cons, List.length_eraseIdx, if_pos (show pd - 1 < t.shape.length by omega)]
    have e : t.shape.length - 1 + 1 - 1 = (t.shape.length - 2) + 1 := by omega
    rw [e, List.getElem?_cons_succ, List.getElem?_eraseIdx]
    have : ¬ (t.shape.length - 2 < pd - 1) := by omega
    simp only [this, if_false]
    congr 2
    omega

/-- first loop: `for n in N_old[::-1]: result = np.tensordot(n, result, axes=(1, self.pardim-1))` -/
theorem td_loop1 (o : Obj K) (tol : K) (hb : o.cps.shape.length = o.bases.size + 1) (h1 : 1 ≤ o.bases.size)
    (body : Mat K → Tensor K → PyM (Tensor K))
    (hbody : ∀ N s, body N s = (do
        let tmp12 ← PyObject.pardim (ofObj o) tol
        npTensordot N s (tmp12 - (1 : Int))))
    (Ns : List (Mat K)) (t : Tensor K) (nc : ℕ) (ht : TdInv o.pardim nc t) :
    forEach Ns t body
      = .ok (Ns.foldl (fun t N => Tensor.tensordotFront N t o.pardim) t) ∧
    TdInv o.pardim nc (Ns.foldl (fun t N => Tensor.tensordotFront N t o.pardim) t) := by
  have hpd : o.pardim = o.bases.size := by unfold Obj.pardim; omega
  unfold forEach
  apply foldlM_ok_inv Ns _ _ (TdInv o.pardim nc) t ht
  intro N _ s hs
  refine ⟨?_, tdInv_step N s _ nc (by omega) hs⟩
  simp only [hbody, PyObject_pardim_eq o tol (by omega), ok_bind, pure_eq_ok]
  rw [tensordot_front N s o.pardim (by omega) (by rw [hs.1]; omega)]

/-- body of the second loop -/
def tdBody2 (o : Obj K) (tol : K) (x14 : Mat K) (st14 : Tensor K) : PyM (Tensor K) := do
  let tmp15 ← npLinalgInv x14
  let tmp16 ← PyObject.pardim (ofObj o) tol
  npTensordot tmp15 st14 (tmp16 - (1 : Int))

/-- second loop: `for n in N_new[::-1]: result = np.tensordot(np.linalg.inv(n), result, axes=(1, self.pardim-1))` -/
theorem td_loop2 {β : Type} (o : Obj K) (tol : K) (hb : o.cps.shape.length = o.bases.size + 1) (h1 : 1 ≤ o.bases.size)
    (nc : ℕ) (F : Tensor K → PyM β) (G : Tensor K → PyM β)
    (hFG : ∀ t, TdInv o.pardim nc t → F t = G t)
    (body : Mat K → Tensor K → PyM (Tensor K)) (hbody : ∀ N s, body N s = tdBody2 o tol N s) :
    ∀ (Ns : List (Mat K)) (t : Tensor K), TdInv o.pardim nc t →
    (forEach Ns t body >>= F) = (Obj.solveChain o.pardim Ns t >>= G) := by
  have hpd : o.pardim = o.bases.size := by unfold Obj.pardim; omega
  intro Ns
  induction Ns with
  | nil => intro t ht; exact hFG t ht
  | cons N Ns ih =>
    intro t ht
    unfold forEach at ih ⊢
    rw [List.foldlM_cons]
    have hstep : body N t = (Mat.invChecked N).map (fun Ni => Tensor.tensordotFront Ni t o.pardim) := by
      rw [hbody]
      unfold tdBody2 npLinalgInv
      cases hinv : Mat.invChecked N with
      | error e => rfl
      | ok Ni =>
        simp only [ok_bind, PyObject_pardim_eq o tol (by omega), pure_eq_ok, map_ok]
        rw [tensordot_front Ni t o.pardim (by omega) (by rw [ht.1]; omega)]
    rw [hstep]
    unfold Obj.solveChain
    cases hinv : Mat.invChecked N with
    | error e => rfl
    | ok Ni =>
      simp only [map_ok, ok_bind]
      exact ih _ (tdInv_step Ni t _ nc (by omega) ht)

theorem listComp_greville (bs : List (Basis K)) (f : Basis K → PyM (List K))
    (hf : ∀ b, f b = (b.greville).map Array.toList) :
    listComp bs f = (Obj.grevilles bs).map (fun l => l.map Array.toList) := by
  induction bs with
  | nil => rfl
  | cons b bs ih =>
    simp only [listComp, Obj.grevilles, hf, ih]
    cases b.greville with
    | error e => rfl
    | ok g =>
      simp only [map_ok, ok_bind]
      cases Obj.grevilles bs <;> rfl

theorem listComp_basisMat (bs : List (Basis K)) (tol : K) (pts : List (Array K))
    (f : Basis K × List K → PyM (Mat K)) (hf : ∀ x, f x = .ok (basisEvaluate x.1 tol x.2 (0 : Int) true)) :
    listComp (zip2 bs (pts.map Array.toList)) f
    = .ok ((List.zip bs pts).map (fun (b, p) => Obj.basisMat b tol p.toList 0 true)) := by
  rw [listComp_ok _ _ (fun x => basisEvaluate x.1 tol x.2 (0 : Int) true) (fun x _ => hf x)]
  congr 1
  unfold zip2
  rw [List.zip_map_right, List.map_map]
  rfl

end Splipy.PyO

namespace Splipy.PyO
open Splipy Splipy.Generated Splipy.C06
variable {K : Type} [Field K] [LinearOrder K] [FloorRing K]

theorem forEach_congr {α σ : Type} (l : List α) (s : σ) (f g : α → σ → PyM σ) (h : ∀ x s, f x s = g x s) :
    forEach l s f = forEach l s g := by
  unfold forEach
  exact foldlM_congr' l _ _ s (fun s a => h a s)

theorem tdInv_cps (o : Obj K) (h : 1 ≤ o.cps.shape.length) : TdInv o.pardim o.ncomp o.cps := by
  refine ⟨?_, rfl⟩
  unfold Obj.pardim; omega

/-- the interpolation, with the rest of the method as a continuation -/
theorem reinterp_eq {β : Type} (o : Obj K) (tol : K) (hb : o.cps.shape.length = o.bases.size + 1)
    (h1 : 1 ≤ o.bases.size) (newBases : List (Basis K)) (F : Tensor K → PyM β) (G : Tensor K → PyM β)
    (hFG : ∀ t, TdInv o.pardim o.ncomp t → F t = G t) :
    (do
      let tmp6 ← listComp newBases (fun x4 => do
          let b := x4
          let tmp5 ← basisGreville b
          pure tmp5)
      let interpolation_pts := tmp6
      let tmp8 ← listComp (zip2 (ofObj o).bases.toList interpolation_pts) (fun x7 => do
          let b := x7.1
          let pts := x7.2
          pure (basisEvaluate b tol pts (0 : Int) true))
      let N_old := tmp8
      let tmp10 ← listComp (zip2 newBases interpolation_pts) (fun x9 => do
          let b := x9.1
          let pts := x9.2
          pure (basisEvaluate b tol pts (0 : Int) true))
      let N_new := tmp10
      let result := (ofObj o).controlpoints
      let st11 ← forEach (reversed N_old) result (fun x11 st11 => do
          let result := st11
          let n := x11
          let tmp12 ← PyObject.pardim (ofObj o) tol
          let tmp13 ← npTensordot n result (tmp12 - (1 : Int))
          let result := tmp13
          pure result)
      let result := st11
      let st14 ← forEach (reversed N_new) result (fun x14 st14 => do
          let result := st14
          let n := x14
          let tmp15 ← npLinalgInv n
          let tmp16 ← PyObject.pardim (ofObj o) tol
          let tmp17 ← npTensordot tmp15 result (tmp16 - (1 : Int))
          let result := tmp17
          pure result)
      F st14) = (o.reinterpolate tol newBases >>= G) := by
  unfold Obj.reinterpolate
  rw [listComp_greville newBases _ (fun b => by
    show basisGreville b = _
    unfold basisGreville
    cases b.greville <;> rfl)]
  cases hg : Obj.grevilles newBases with
  | error e => rfl
  | ok pts =>
    simp only [map_ok, ok_bind, ofObj_bases, ofObj_cps]
    rw [listComp_basisMat o.bases.toList tol pts (fun x7 => pure (basisEvaluate x7.1 tol x7.2 0 true)) (fun x => rfl),
      ok_bind,
      listComp_basisMat newBases tol pts (fun x7 => pure (basisEvaluate x7.1 tol x7.2 0 true)) (fun x => rfl), ok_bind]
    rw [forEach_congr _ _ _ (fun N s => do
        let tmp12 ← PyObject.pardim (ofObj o) tol
        npTensordot N s (tmp12 - (1 : Int))) (fun N s => by
      cases PyObject.pardim (ofObj o) tol with
      | error e => rfl
      | ok pd => simp only [ok_bind]; exact bind_ok_eta _)]
    obtain ⟨hl1, hl2⟩ := td_loop1 o tol hb h1 _ (fun N s => rfl)
      (reversed ((List.zip o.bases.toList pts).map (fun (b, p) => Obj.basisMat b tol p.toList 0 true))) o.cps o.ncomp
      (tdInv_cps o (by omega))
    rw [hl1, ok_bind]
    refine td_loop2 o tol hb h1 o.ncomp F G hFG _ (fun N s => ?_) _ _ hl2
    unfold tdBody2
    cases npLinalgInv N with
    | error e => rfl
    | ok Ni =>
      simp only [ok_bind]
      cases PyObject.pardim (ofObj o) tol with
      | error e => rfl
      | ok pd => simp only [ok_bind]; exact bind_ok_eta _

end Splipy.PyO

-- ---------------------------------------------------------------------------- t3b part 15

namespace Splipy.PyO
open Splipy Splipy.Generated Splipy.C06
variable {K : Type} [Field K] [LinearOrder K] [FloorRing K]

/-! ## comprehension / argument-normalisation facts used by the order methods (no generated code) -/

theorem pyAll_map {α : Type} (l : List α) (p : α → Bool) : pyAll (l.map p) = l.all p := by
  simp [pyAll, List.all_map]

theorem checkDirection_int_eq (d : Int) (pd : ℕ) : checkDirection (.int d) pd = Obj.checkDirection d pd := by
  unfold checkDirection Obj.checkDirection
  simp

theorem getItem_head (l : List Int) (h : l.length = 1) : getItem l (0 : Int) = .ok (l.headD 0) := by
  match l, h with
  | [a], _ => rfl

theorem listComp_zip_ok {α β γ : Type} (xs : List α) (ys : List β) (f : α × β → PyM γ) (g : α × β → γ)
    (h : ∀ x, f x = .ok (g x)) : listComp (zip2 xs ys) f = .ok ((List.zip xs ys).map g) :=
  listComp_ok _ _ g (fun x _ => h x)

/-! ### method: raise_order_implicit -/

theorem raiseBases_eq (tol : K) (bs : List (Basis K)) (rs : List Int) (h : ∀ r ∈ rs, 0 ≤ r)
    (f : Basis K × Int → PyM (Basis K)) (hf : ∀ x, f x = basisRaiseOrder x.1 tol x.2) :
    listComp (zip2 bs rs) f = Obj.raiseBases tol bs (rs.map Int.toNat) := by
  induction bs generalizing rs with
  | nil => simp [zip2, listComp, Obj.raiseBases]
  | cons b bs ih =>
    cases rs with
    | nil => simp [zip2, listComp, Obj.raiseBases]
    | cons r rs =>
      have hr : ¬ (r < 0) := by have := h r (by simp); omega
      simp only [zip2, List.zip_cons_cons, listComp, hf, basisRaiseOrder, Basis.raiseOrderInt, hr, if_false,
        List.map_cons, Obj.raiseBases]
      cases b.raiseOrder tol r.toNat with
      | error e => rfl
      | ok b' =>
        simp only [ok_bind]
        have := ih rs (fun r hr => h r (by simp [hr]))
        unfold zip2 at this
        rw [this]
        cases Obj.raiseBases tol bs (rs.map Int.toNat) <;> rfl

/-- the object built from the interpolated control points -/
theorem ofObj_reinterp (o : Obj K) (nb : Array (Basis K)) (t : Tensor K) (ht : TdInv o.pardim o.ncomp t) :
    ({ (ofObj o) with controlpoints := t, bases := nb } : PyObj K)
      = ofObj { o with bases := nb, cps := t } := by
  unfold ofObj
  simp only [PyObj.mk.injEq, true_and, and_true, Nat.cast_inj]
  symm
  apply ofObj_dimension_shape
  · exact ht.2
  · rfl

theorem _root_.PyObject_raise_order_implicit_eq (o : Obj K) (tol : K) (raises : List Int)
    (hb : o.cps.shape.length = o.bases.size + 1) (h1 : 1 ≤ o.bases.size) (hnn : ∀ r ∈ raises, 0 ≤ r) :
    PyObject.raise_order_implicit (ofObj o) tol raises
      = (o.raiseOrderImplicit tol (raises.map Int.toNat)).map ofObj := by
  unfold PyObject.raise_order_implicit Obj.raiseOrderImplicit
  simp only [ofObj_bases]
  rw [raiseBases_eq tol _ _ hnn _ (fun x => by
    show (basisRaiseOrder x.1 tol x.2) = _
    rfl)]
  cases Obj.raiseBases tol o.bases.toList (raises.map Int.toNat) with
  | error e => rfl
  | ok newBases =>
    simp only [ok_bind]
    have key := reinterp_eq o tol hb h1 newBases
      (fun st14 => (pure ({ (ofObj o) with controlpoints := st14, bases := newBases.toArray } : PyObj K) : PyM (PyObj K)))
      (fun cps => .ok (ofObj { o with bases := newBases.toArray, cps := cps }))
      (fun t ht => by rw [ofObj_reinterp o _ t ht]; rfl)
    simp only [ofObj_bases, ofObj_cps] at key
    refine key.trans ?_
    cases o.reinterpolate tol newBases <;> rfl

end Splipy.PyO

namespace Splipy.PyO
open Splipy Splipy.Generated Splipy.C06
variable {K : Type} [Field K] [LinearOrder K] [FloorRing K]

/-! ### method: raise_order -/

theorem anyM_raiseGuard (tol : K) (bs : List (Basis K)) (hk : ∀ b ∈ bs, 0 < b.knots.size)
    (f : Basis K → PyM Bool)
    (hf : ∀ b, f b = (do
      let tmp15 ← getItem b.knots.toList (0 : Int)
      let tmp16 ← basisContinuity b tol tmp15
      pure (decide ((extLt tmp16 ((b.order : ℕ) : Int) = true) ∨ (b.periodic > (-1 : Int)))))) :
    anyM bs f = Obj.raiseGuard tol bs := by
  induction bs with
  | nil => rfl
  | cons b bs ih =>
    have hb0 := hk b (by simp)
    have hg : getItem b.knots.toList (0 : Int) = .ok (b.kn 0) := by
      have := getItem_nat b.knots.toList (k := 0) (by simpa using hb0)
      simp only [Nat.cast_zero] at this
      rw [this]
      congr 1
      simp [Basis.kn, hb0]
    simp only [anyM, Obj.raiseGuard, hf, hg, ok_bind, basisContinuity]
    cases b.continuity tol (b.kn 0) with
    | error e => rfl
    | ok c =>
      simp only [ok_bind, pure_eq_ok]
      have e : decide ((extLt c ((b.order : ℕ) : Int) = true) ∨ (b.periodic > (-1 : Int)))
          = ((match c with | none => false | some c => decide (c < (b.order : Int))) || decide (b.periodic > -1)) := by
        cases c <;> simp [extLt]
      rw [e, ih (fun b' hb' => hk b' (by simp [hb']))]
      cases ((match c with | none => false | some c => decide (c < (b.order : Int))) || decide (b.periodic > -1)) <;> rfl


end Splipy.PyO

namespace Splipy.PyO
open Splipy Splipy.Generated Splipy.C06
variable {K : Type} [Field K] [LinearOrder K] [FloorRing K]

/-- the part of `raise_order` after the normalisation of `raises` -/
theorem raise_order_tail (o : Obj K) (tol : K) (rs : List Int)
    (hb : o.cps.shape.length = o.bases.size + 1) (h1 : 1 ≤ o.bases.size)
    (hk : ∀ b ∈ o.bases.toList, 0 < b.knots.size) :
    (do
      let tmp10 ← listComp rs (fun x9 => do
          let r := x9
          pure (decide (r ≥ (0 : Int))))
      let st11 ← (if (¬ ((pyAll tmp10) = true)) then do
          throw .value
        else do
          pure ())
      let tmp13 ← listComp rs (fun x12 => do
          let r := x12
          pure (decide (r = (0 : Int))))
      if ((pyAll tmp13) = true) then do
        pure (ofObj o)
      else do
        let tmp17 ← anyM (ofObj o).bases.toList (fun x14 => do
            let b := x14
            let tmp15 ← getItem b.knots.toList (0 : Int)
            let tmp16 ← basisContinuity b tol tmp15
            pure (decide ((extLt tmp16 ((b.order : ℕ) : Int) = true) ∨ (b.periodic > (-1 : Int)))))
        if (tmp17 = true) then do
          let self_ ← PyObject.raise_order_implicit (ofObj o) tol rs
          pure self_
        else do
          throw .other)
    = (if rs.any (fun r => decide (r < 0)) then (.error .value : PyM (Ret × Obj K))
       else if rs.all (fun r => decide (r = 0)) then .ok (.self, o)
       else
         match Obj.raiseGuard tol o.bases.toList with
         | .error e => .error e
         | .ok true =>
           (match o.raiseOrderImplicit tol (rs.map Int.toNat) with
            | .error e => .error e
            | .ok o' => .ok (.self, o'))
         | .ok false => .error .other).map (fun r => ofObj r.2) := by
  show (listComp rs (fun x9 => (pure (decide (x9 ≥ (0 : Int))) : PyM Bool)) >>= _) = _
  rw [listComp_ok rs (fun x9 => (pure (decide (x9 ≥ (0 : Int))) : PyM Bool)) (fun r => decide (r ≥ (0 : Int)))
    (fun x _ => rfl)]
  simp only [ok_bind, pyAll_map]
  by_cases hneg : rs.any (fun r => decide (r < 0)) = true
  · have hall : ¬ (rs.all (fun r => decide (r ≥ (0 : Int))) = true) := by
      simp only [List.any_eq_true, decide_eq_true_eq, List.all_eq_true, not_forall] at hneg ⊢
      obtain ⟨r, hr, hlt⟩ := hneg
      exact ⟨r, hr, by omega⟩
    rw [if_pos hall, if_pos hneg]
    rfl
  · have hall : rs.all (fun r => decide (r ≥ (0 : Int))) = true := by
      simp only [List.any_eq_true, decide_eq_true_eq, List.all_eq_true, not_exists, not_and] at hneg ⊢
      intro r hr
      have := hneg r hr; omega
    have hnn : ∀ r ∈ rs, 0 ≤ r := by
      simp only [List.all_eq_true, decide_eq_true_eq] at hall
      exact fun r hr => hall r hr
    rw [if_neg (by rw [hall]; simp), if_neg hneg]
    simp only [pure_eq_ok, ok_bind]
    show (listComp rs (fun x9 => (pure (decide (x9 = (0 : Int))) : PyM Bool)) >>= _) = _
    rw [listComp_ok rs (fun x9 => (pure (decide (x9 = (0 : Int))) : PyM Bool)) (fun r => decide (r = (0 : Int)))
      (fun x _ => rfl)]
    simp only [ok_bind, pyAll_map]
    by_cases hz : rs.all (fun r => decide (r = 0)) = true
    · rw [if_pos hz, if_pos hz]; rfl
    · rw [if_neg hz, if_neg hz]
      simp only [ofObj_bases]
      rw [anyM_raiseGuard tol o.bases.toList hk (fun x14 => do
            let tmp15 ← getItem x14.knots.toList 0
            let tmp16 ← basisContinuity x14 tol tmp15
            Except.ok (decide (extLt tmp16 ↑x14.order = true ∨ x14.periodic > -1))) (fun b => rfl)]
      cases hg : Obj.raiseGuard tol o.bases.toList with
      | error e => rfl
      | ok g =>
        cases g with
        | false => rfl
        | true =>
          simp only [ok_bind, if_true]
          rw [PyObject_raise_order_implicit_eq o tol rs hb h1 hnn]
          cases o.raiseOrderImplicit tol (rs.map Int.toNat) <;> rfl

end Splipy.PyO

namespace Splipy.PyO
open Splipy Splipy.Generated Splipy.C06
variable {K : Type} [Field K] [LinearOrder K] [FloorRing K]

/-- `SplineObject.raise_order(*raises)` = `Obj.raiseOrder o tol raises none`.  Guards: one basis per axis,
    at least one basis, no basis with an empty knot array (`b.knots[0]` is an `IndexError` there). -/
theorem _root_.PyObject_raise_order_eq (o : Obj K) (tol : K) (raises : List Int)
    (hb : o.cps.shape.length = o.bases.size + 1) (h1 : 1 ≤ o.bases.size)
    (hk : ∀ b ∈ o.bases.toList, 0 < b.knots.size) :
    PyObject.raise_order (ofObj o) tol raises = (o.raiseOrder tol raises none).map (fun r => ofObj r.2) := by
  unfold PyObject.raise_order Obj.raiseOrder Obj.normRaises
  simp only [PyObject_pardim_eq o tol (by omega), ok_bind, and_true]
  by_cases hl : raises.length = 1
  · have hl' : len raises = (1 : Int) := by simp [len, hl]
    rw [if_pos hl', if_pos hl, getItem_head _ hl]
    simp only [ok_bind, pure_eq_ok, listMul_singleton]
    exact raise_order_tail o tol _ hb h1 hk
  · have hl' : ¬ (len raises = (1 : Int)) := by simp only [len]; omega
    rw [if_neg hl', if_neg hl', if_neg hl]
    simp only [ok_bind, pure_eq_ok]
    exact raise_order_tail o tol _ hb h1 hk

/-! ### method: raise_order_dir -/

theorem _root_.PyObject_raise_order_dir_eq (o : Obj K) (tol : K) (raises : List Int) (d : Int)
    (hb : o.cps.shape.length = o.bases.size + 1) (h1 : 1 ≤ o.bases.size)
    (hk : ∀ b ∈ o.bases.toList, 0 < b.knots.size) :
    PyObject.raise_order_dir (ofObj o) tol raises (DirTok.int d)
      = (o.raiseOrder tol raises (some d)).map (fun r => ofObj r.2) := by
  unfold PyObject.raise_order_dir Obj.raiseOrder Obj.normRaises
  simp only [PyObject_pardim_eq o tol (by omega), ok_bind, and_false, if_false]
  by_cases hl : raises.length = 1
  · have hl' : len raises = (1 : Int) := by simp [len, hl]
    rw [if_pos hl', if_pos hl, getItem_head _ hl]
    simp only [ok_bind, pure_eq_ok, listMul_singleton, PyObject_check_direction_eq, checkDirection_int_eq]
    cases hc : Obj.checkDirection d o.pardim with
    | error e => rfl
    | ok i =>
      have hi : i < o.pardim := by
        unfold Obj.checkDirection at hc
        split_ifs at hc <;> cases hc <;> omega
      simp only [map_ok, ok_bind]
      rw [setItem_nat _ (by simp; omega)]
      simp only [ok_bind]
      exact raise_order_tail o tol _ hb h1 hk
  · have hl' : ¬ (len raises = (1 : Int)) := by simp only [len]; omega
    rw [if_neg hl', if_neg hl]
    simp only [ok_bind, pure_eq_ok]
    exact raise_order_tail o tol _ hb h1 hk

/-! ### method: set_order -/

/-- `SplineObject.set_order(*order)` for an object whose class does not override `raise_order`
    (`isCurve = false`: `Curve.raise_order` is a different method, handled by the override translator). -/
theorem _root_.PyObject_set_order_eq (o : Obj K) (tol : K) (order : List Int)
    (hb : o.cps.shape.length = o.bases.size + 1) (h1 : 1 ≤ o.bases.size)
    (hk : ∀ b ∈ o.bases.toList, 0 < b.knots.size) :
    PyObject.set_order (ofObj o) tol order = (o.setOrder tol false order).map (fun r => ofObj r.2) := by
  unfold PyObject.set_order Obj.setOrder Obj.raiseOrderDispatch
  simp only [PyObject_pardim_eq o tol (by omega), ok_bind, PyObject_order_eq, pure_eq_ok, Bool.false_eq_true, if_false]
  have hnorm : (if len order = (1 : Int) then (do
        let tmp2 ← getItem order (0 : Int)
        (Except.ok (listMul ([tmp2] : List Int) (o.pardim : Int)) : PyM (List Int))) else Except.ok order)
      = .ok (if order.length = 1 then List.replicate o.pardim (order.headD 0) else order) := by
    by_cases hl : order.length = 1
    · have hl' : len order = (1 : Int) := by simp [len, hl]
      rw [if_pos hl', if_pos hl, getItem_head _ hl]
      simp only [ok_bind, listMul_singleton]
    · have hl' : ¬ (len order = (1 : Int)) := by simp only [len]; omega
      rw [if_neg hl', if_neg hl]
  rw [hnorm]
  simp only [ok_bind]
  generalize (if order.length = 1 then List.replicate o.pardim (order.headD 0) else order) = ord
  rw [listComp_zip_ok ord _ _ (fun x => decide (x.1 ≥ x.2)) (fun x => rfl)]
  simp only [ok_bind, pyAll_map]
  by_cases hall : ((List.zip ord (o.bases.toList.map (fun b => ((b.order : ℕ) : Int)))).all
      (fun x => decide (x.1 ≥ x.2))) = true
  · have e : (!((List.zip ord (o.bases.toList.map (fun b => ((b.order : ℕ) : Int)))).all
        (fun (n, ol) => decide (n ≥ ol)))) = false := by
      simp only [Bool.not_eq_false']; exact hall
    rw [if_neg (by rw [hall]; simp)]
    simp only [e, Bool.false_eq_true, if_false, ok_bind]
    rw [listComp_zip_ok ord _ _ (fun x => x.1 - x.2) (fun x => rfl)]
    simp only [ok_bind]
    rw [PyObject_raise_order_eq o tol _ hb h1 hk]
  · have e : (!((List.zip ord (o.bases.toList.map (fun b => ((b.order : ℕ) : Int)))).all
        (fun (n, ol) => decide (n ≥ ol)))) = true := by
      simp only [Bool.not_eq_true']
      cases h : ((List.zip ord (o.bases.toList.map (fun b => ((b.order : ℕ) : Int)))).all
        (fun x => decide (x.1 ≥ x.2))) with
      | true => exact absurd h hall
      | false => rfl
    rw [if_pos hall]
    simp only [e, if_true]
    rfl

end Splipy.PyO

namespace Splipy.PyO
open Splipy Splipy.Generated Splipy.C06
variable {K : Type} [Field K] [LinearOrder K] [FloorRing K]

/-! ### method: lower_order -/

theorem lowerBases_eq (tol : K) (bs : List (Basis K)) (ls : List Int)
    (f : Basis K × Int → PyM (Basis K)) (hf : ∀ x, f x = basisLowerOrder x.1 tol x.2) :
    listComp (zip2 bs ls) f = Obj.lowerBases tol bs ls := by
  induction bs generalizing ls with
  | nil => simp [zip2, listComp, Obj.lowerBases]
  | cons b bs ih =>
    cases ls with
    | nil => simp [zip2, listComp, Obj.lowerBases]
    | cons r rs =>
      simp only [zip2, List.zip_cons_cons, listComp, hf, basisLowerOrder, Obj.lowerBases]
      cases b.lowerOrder tol r with
      | error e => rfl
      | ok b' =>
        simp only [ok_bind]
        have := ih rs
        unfold zip2 at this
        rw [this]
        cases Obj.lowerBases tol bs rs <;> rfl

theorem lowerBases_length (tol : K) (bs : List (Basis K)) (ls : List Int) (nb : List (Basis K))
    (h : Obj.lowerBases tol bs ls = .ok nb) : nb.length = min bs.length ls.length := by
  induction bs generalizing ls nb with
  | nil => simp [Obj.lowerBases] at h; subst h; simp
  | cons b bs ih =>
    cases ls with
    | nil => simp [Obj.lowerBases] at h; subst h; simp
    | cons r rs =>
      simp only [Obj.lowerBases] at h
      cases hb : b.lowerOrder tol r with
      | error e => rw [hb] at h; exact absurd h (by simp)
      | ok b' =>
        rw [hb] at h
        simp only [] at h
        cases hr : Obj.lowerBases tol bs rs with
        | error e => rw [hr] at h; exact absurd h (by simp)
        | ok l =>
          rw [hr] at h
          cases h
          simp only [List.length_cons, ih rs l hr]
          omega

/-- `SplineObject.lower_order(*lowers)` = `Obj.lowerOrder`.  Guards: one basis per axis; between one and three
    parametric directions (the constructor look-up raises `IndexError` for more, the model does not); at least
    one component; one amount, or an amount for every direction (with fewer, `zip` drops bases and the
    constructor is called with the wrong number of arguments). -/
theorem _root_.PyObject_lower_order_eq (o : Obj K) (tol : K) (lowers : List Int)
    (hb : o.cps.shape.length = o.bases.size + 1) (h1 : 1 ≤ o.bases.size) (hd3 : o.bases.size ≤ 3)
    (hnc : 1 ≤ o.ncomp) (hlen : lowers.length = 1 ∨ o.bases.size ≤ lowers.length) :
    PyObject.lower_order (ofObj o) tol lowers = (o.lowerOrder tol lowers).map (fun r => ofObj r.2) := by
  have hpd : o.pardim = o.bases.size := by unfold Obj.pardim; omega
  unfold PyObject.lower_order Obj.lowerOrder
  simp only [PyObject_pardim_eq o tol (by omega), ok_bind, pure_eq_ok]
  have hnorm : (if len lowers = (1 : Int) then (do
        let tmp2 ← getItem lowers (0 : Int)
        (Except.ok (listMul ([tmp2] : List Int) (o.pardim : Int)) : PyM (List Int))) else Except.ok lowers)
      = .ok (if lowers.length = 1 then List.replicate o.pardim (lowers.headD 0) else lowers) := by
    by_cases hl : lowers.length = 1
    · have hl' : len lowers = (1 : Int) := by simp [len, hl]
      rw [if_pos hl', if_pos hl, getItem_head _ hl]
      simp only [ok_bind, listMul_singleton]
    · have hl' : ¬ (len lowers = (1 : Int)) := by simp only [len]; omega
      rw [if_neg hl', if_neg hl]
  rw [hnorm]
  simp only [ok_bind]
  have hlsl : o.bases.size ≤ (if lowers.length = 1 then List.replicate o.pardim (lowers.headD 0) else lowers).length := by
    split_ifs with h
    · simp [hpd]
    · rcases hlen with h' | h'
      · exact absurd h' h
      · exact h'
  generalize (if lowers.length = 1 then List.replicate o.pardim (lowers.headD 0) else lowers) = ls at hlsl
  show (listComp ls (fun x9 => (pure (decide (x9 = (0 : Int))) : PyM Bool)) >>= _) = _
  rw [listComp_ok ls (fun x9 => (pure (decide (x9 = (0 : Int))) : PyM Bool)) (fun r => decide (r = (0 : Int)))
    (fun x _ => rfl)]
  simp only [ok_bind, pyAll_map]
  by_cases hz : ls.all (fun r => decide (r = 0)) = true
  · rw [if_pos hz, if_pos hz]; rfl
  · rw [if_neg hz, if_neg hz]
    simp only [ofObj_bases]
    rw [lowerBases_eq tol _ _ _ (fun x => by
      show (basisLowerOrder x.1 tol x.2) = _
      rfl)]
    cases hlb : Obj.lowerBases tol o.bases.toList ls with
    | error e => rfl
    | ok newBases =>
      simp only [ok_bind]
      have hnl : newBases.toArray.size = o.bases.size := by
        have := lowerBases_length tol _ _ _ hlb
        simp only [Array.length_toList] at this
        simp only [List.size_toArray]
        omega
      have hc : ctorFirst ((o.bases.size : ℕ) : Int) = .ok ((o.bases.size : ℕ) : Int) := by
        unfold ctorFirst; rw [if_pos]; constructor <;> omega
      have key := reinterp_eq o tol hb h1 newBases
        (fun st19 => (do
          let tmp23 ← ctorFirst ((o.bases.size : ℕ) : Int)
          mkRaw tmp23 newBases.toArray st19 (ofObj o).rational : PyM (PyObj K)))
        (fun cps => .ok (ofObj { o with bases := newBases.toArray, cps := cps }))
        (fun t ht => by
          simp only [hc, ok_bind, ofObj_rational]
          rw [mkRaw_ofObj o.bases.size _ _ _ hnl
            (by intro h; have := ht.1; rw [h] at this; simp at this)
            (by rw [ht.2]; exact hnc)])
      simp only [PyObject_pardim_eq o tol (by omega), ok_bind, pure_eq_ok, ofObj_bases, ofObj_cps] at key ⊢
      refine Eq.trans ?_ (key.trans ?_)
      · rfl
      · cases o.reinterpolate tol newBases <;> rfl

end Splipy.PyO

-- ---------------------------------------------------------------------------- t3b part 16

namespace Splipy.PyO
open Splipy Splipy.Generated Splipy.C06
variable {K : Type} [Field K] [LinearOrder K] [FloorRing K]

/-! ## `scale` with one operand that may be a sequence (no generated code) -/

/-- a positional argument of `scale` / the right operand of `*`, `/` as the hand model sees it -/
def toArg : Param K → ScaleArg K
  | .scalar x => .scalar x
  | .list xs => .vec xs

/-- the number stored for a scalar entry (1 is never read for a sequence: the store fails first) -/
def pval : Param K → K
  | .scalar x => x
  | .list _ => 1

def isSeq : Param K → Bool
  | .scalar _ => false
  | .list _ => true

theorem flatten_eq (args : List (Param K)) :
    ScaleArg.flatten (args.map toArg) = (ensure_flatlist_p args).map (List.map toArg) := by
  cases args with
  | nil => rfl
  | cons a rest =>
    cases a with
    | scalar x => rfl
    | list v =>
      simp only [List.map_cons, toArg, ScaleArg.flatten, ensure_flatlist_p, map_ok, List.map_map]
      congr 1

theorem listlike3_eq (s : List (Param K)) :
    Obj.ensureListlike3 (s.map toArg) = (ensure_listlike_dups s 3).map toArg := by
  unfold Obj.ensureListlike3 ensure_listlike_dups
  rw [List.getLast?_map]
  cases s.getLast? with
  | none => rfl
  | some l => simp

theorem mapM_scalars (l : List (Param K)) (f : ScaleArg K → PyM K)
    (h1 : ∀ x, f (.scalar x) = .ok x) (h2 : ∀ v, f (.vec v) = .error .value) :
    (l.map toArg).mapM f = if l.any isSeq then .error .value else .ok (l.map pval) := by
  induction l with
  | nil => rfl
  | cons a l ih =>
    simp only [List.map_cons, List.mapM_cons, ih, List.any_cons]
    cases a with
    | scalar x =>
      simp only [toArg, isSeq, Bool.false_or, pval, h1, ok_bind]
      split_ifs <;> rfl
    | list v =>
      simp only [toArg, h2]
      rfl

theorem affineCp_congr (o : Obj K) (M M' : ℕ → ℕ → K) (tr : ℕ → K)
    (h : ∀ j i, j < o.dimension → i < o.dimension → M j i = M' j i) : o.affineCp M tr = o.affineCp M' tr := by
  unfold Obj.affineCp
  simp only []
  congr 2
  funext row
  apply Array.ext (by simp)
  intro i h1 h2
  simp only [Array.getElem_ofFn]
  by_cases hi : i < o.dimension
  · rw [if_pos hi, if_pos hi]
    congr 1
    apply foldl_range_congr
    intro acc j hj
    rw [h j i hj hi]
  · rw [if_neg hi, if_neg hi]

end Splipy.PyO

namespace Splipy.PyO
open Splipy Splipy.Generated Splipy.C06
variable {K : Type} [Field K] [LinearOrder K] [FloorRing K]

/-! ### method: scale_p -/

theorem getD_map_pval (s : List (Param K)) (i : ℕ) (hi : i < s.length) (hsc : isSeq s[i] = false) :
    paramScalar s[i] = .ok ((s.map pval).getD i 1) := by
  have : (s.map pval).getD i 1 = pval s[i] := by simp [List.getD_eq_getElem?_getD, hi]
  rw [this]
  cases h : s[i] with
  | scalar x => rfl
  | list v => rw [h] at hsc; simp [isSeq] at hsc

theorem _root_.PyObject_scale_p_eq (o : Obj K) (tol : K) (args : List (Param K)) (hs : o.cps.shape ≠ [])
    (hdim : 1 ≤ o.dimension) (hwf : o.cps.data.size = Tensor.prod o.cps.shape) (hlen : o.len = nPts o.cps) :
    PyObject.scale_p (ofObj o) tol args = (o.scaleArgs (args.map toArg)).map ofObj := by
  have hnc : 1 ≤ o.ncomp := by unfold Obj.dimension at hdim; omega
  have hdn : o.dimension ≤ o.ncomp := by unfold Obj.dimension; omega
  have hL := lastN_eq_ncomp o hs
  unfold PyObject.scale_p Obj.scaleArgs Obj.scaleNums
  simp only [PyObject_len_eq, ok_bind, ofObj_dimension, ofObj_rational, ofObj_cps, flatten_eq]
  cases hfl : ensure_flatlist_p args with
  | error e => rfl
  | ok s =>
    simp only [map_ok, ok_bind, listlike3_eq, ← List.map_take, List.length_map]
    rw [mapM_scalars _ _ (fun x => rfl) (fun v => rfl)]
    rw [ncomp_eq o hnc]
    set s3 := ensure_listlike_dups s 3 with hs3
    set v := s3.map pval with hv
    have hid : npIdentity (K := K) ((o.ncomp : ℕ) : Int) = .ok (diagM o.ncomp v 0) := by
      unfold npIdentity
      have : ¬ (((o.ncomp : ℕ) : Int) < 0) := by omega
      simp [this, diagM_zero]
    rw [hid, ok_bind]
    by_cases hseq : (s3.take o.dimension).any isSeq = true
    · -- a sequence among the entries that are read: ValueError at the first one
      rw [if_pos hseq]
      obtain ⟨j, hj1, hj2, hj3⟩ : ∃ j, j < min o.dimension s3.length ∧ isSeq (s3.getD j (.scalar 0)) = true ∧
          ∀ i, i < j → isSeq (s3.getD i (.scalar 0)) = false := by
        have hex : ∃ j, j < min o.dimension s3.length ∧ isSeq (s3.getD j (.scalar 0)) = true := by
          rw [List.any_eq_true] at hseq
          obtain ⟨x, hx, hxs⟩ := hseq
          obtain ⟨j, hjl, rfl⟩ := List.getElem_of_mem hx
          rw [List.length_take] at hjl
          refine ⟨j, hjl, ?_⟩
          rw [List.getElem_take] at hxs
          simpa [List.getD_eq_getElem?_getD, (by omega : j < s3.length)] using hxs
        classical
        refine ⟨Nat.find hex, (Nat.find_spec hex).1, (Nat.find_spec hex).2, ?_⟩
        intro i hi
        have := Nat.find_min hex hi
        have hil : i < min o.dimension s3.length := lt_trans hi (Nat.find_spec hex).1
        cases h : isSeq (s3.getD i (.scalar 0)) with
        | false => rfl
        | true => exact absurd ⟨hil, h⟩ this
      have hjl : j < s3.length := by omega
      rw [forRange_fail o.dimension j _ (fun m => diagM o.ncomp v m) .value (by omega)
        (by
          intro i hi
          have hi' : i < s3.length := by omega
          have hsc := hj3 i hi
          rw [show s3.getD i (.scalar 0) = s3[i] by simp [List.getD_eq_getElem?_getD, hi']] at hsc
          rw [getItem_nat _ hi', ok_bind, getD_map_pval s3 i hi' hsc, ok_bind]
          exact diagM_step o.ncomp v i (by omega))
        (by
          rw [getItem_nat _ hjl, ok_bind]
          rw [show s3.getD j (.scalar 0) = s3[j] by simp [List.getD_eq_getElem?_getD, hjl]] at hj2
          cases h : s3[j] with
          | scalar x => rw [h] at hj2; simp [isSeq] at hj2
          | list l => rfl)]
      rfl
    · rw [if_neg hseq]
      simp only [ok_bind, pure_eq_ok]
      have hsc : ∀ i, i < o.dimension → ∀ hi' : i < s3.length, isSeq s3[i] = false := by
        intro i hi hi'
        cases h : isSeq s3[i] with
        | false => rfl
        | true =>
          exfalso; apply hseq
          rw [List.any_eq_true]
          exact ⟨s3[i], by
            rw [List.mem_take_iff_getElem]
            exact ⟨i, by omega, rfl⟩, h⟩
      by_cases hshort : s3.length < o.dimension
      · rw [if_pos hshort]
        rw [forRange_fail o.dimension s3.length _ (fun m => diagM o.ncomp v m) .index hshort
          (by
            intro i hi
            rw [getItem_nat _ hi, ok_bind, getD_map_pval s3 i hi (hsc i (by omega) hi), ok_bind]
            exact diagM_step o.ncomp v i (by omega))
          (by
            simp only [getItem, normIdx_nat_ge (le_refl _)]
            rfl)]
        rfl
      · rw [if_neg hshort]
        rw [forRange_iter o.dimension _ (fun m => diagM o.ncomp v m)
          (by
            intro i hi
            have hi' : i < s3.length := by omega
            rw [getItem_nat _ hi', ok_bind, getD_map_pval s3 i hi' (hsc i hi hi'), ok_bind]
            exact diagM_step o.ncomp v i (by omega)), ok_bind]
        rw [npReshape2_ok _ _ _ (by rw [hlen, hwf, prod_eq_nPts_mul _ hs, hL]), ok_bind, hlen, scale_cps o v hs hnc hwf,
          ok_bind]
        simp only [ok_bind]
        unfold Obj.scale
        have hlt : (List.take o.dimension s3).length = o.dimension := by rw [List.length_take]; omega
        have hne : ¬ ((List.map pval (List.take o.dimension s3)).isEmpty = true) := by
          rw [List.isEmpty_iff]; intro h
          have := congrArg List.length h
          simp only [List.length_map, hlt, List.length_nil] at this; omega
        simp only []
        rw [if_neg hne, if_neg (by simp only [List.length_append, List.length_map, hlt]; omega)]
        simp only [map_ok]
        congr 1
        have hA : o.affineCp (fun j i => if i = j then
              ((List.map pval (List.take o.dimension s3)) ++ List.replicate (3 - (List.map pval (List.take o.dimension s3)).length)
                ((List.map pval (List.take o.dimension s3)).getLastD 1)).getD i 1 else 0) (fun _ => 0)
            = o.affineCp (fun j i => if i = j then v.getD i 1 else 0) (fun _ => 0) := by
          apply affineCp_congr
          intro j i hj hi
          by_cases hij : i = j
          · rw [if_pos hij, if_pos hij]
            rw [List.getD_append _ _ _ _ (by simp only [List.length_map, hlt]; exact hi)]
            simp only [hv, List.getD_eq_getElem?_getD, List.getElem?_map, List.getElem?_take, hi, if_true]
          · rw [if_neg hij, if_neg hij]
        rw [hA]
        unfold ofObj
        simp only [PyObj.mk.injEq, true_and, and_true, Nat.cast_inj]
        unfold Obj.affineCp Obj.dimension Obj.ncomp
        simp only [mapLast_shape, List.getLastD_concat]
        trivial

end Splipy.PyO

namespace Splipy.PyO
open Splipy Splipy.Generated Splipy.C06
variable {K : Type} [Field K] [LinearOrder K] [FloorRing K]

/-! ## the operators: shared guards (no generated code) -/

/-- guards shared by the operator theorems (those of `PyObject_translate_eq` / `PyObject_scale_p_eq`) -/
structure OpGuard (o : Obj K) : Prop where
  hs : o.cps.shape ≠ []
  hdim : 1 ≤ o.dimension
  hwf : o.cps.data.size = Tensor.prod o.cps.shape
  hlen : o.len = nPts o.cps

theorem OpGuard.hnc {o : Obj K} (g : OpGuard o) : 1 ≤ o.ncomp := by
  have := g.hdim; unfold Obj.dimension at this; omega

theorem recip_eq (x : Param K) : AffOp.recip (toArg x) = (paramRecip x).map toArg := by
  cases x with
  | scalar a =>
    simp only [toArg, AffOp.recip, paramRecip]
    split_ifs <;> rfl
  | list l =>
    simp only [toArg, AffOp.recip, paramRecip]
    split_ifs <;> rfl

/-! ### method: __iadd__ -/
theorem _root_.PyObject_iadd_eq (o : Obj K) (tol : K) (x : List K) (g : OpGuard o) :
    PyObject.op_iadd (ofObj o) tol x = (AffOp.inplace o (.iadd x)).map ofObj := by
  unfold PyObject.op_iadd AffOp.inplace
  rw [PyObject_translate_eq o tol x g.hs g.hnc g.hwf g.hlen]

/-! ### method: __isub__ -/
theorem _root_.PyObject_isub_eq (o : Obj K) (tol : K) (x : List K) (g : OpGuard o) :
    PyObject.op_isub (ofObj o) tol x = (AffOp.inplace o (.isub x)).map ofObj := by
  unfold PyObject.op_isub AffOp.inplace listNeg
  rw [PyObject_translate_eq o tol _ g.hs g.hnc g.hwf g.hlen]

/-! ### method: __imul__ -/
theorem _root_.PyObject_imul_eq (o : Obj K) (tol : K) (x : Param K) (g : OpGuard o) :
    PyObject.op_imul (ofObj o) tol x = (AffOp.inplace o (.imul (toArg x))).map ofObj := by
  unfold PyObject.op_imul AffOp.inplace
  rw [PyObject_scale_p_eq o tol _ g.hs g.hdim g.hwf g.hlen]
  rfl

/-! ### method: __itruediv__ -/
theorem _root_.PyObject_itruediv_eq (o : Obj K) (tol : K) (x : Param K) (g : OpGuard o) :
    PyObject.op_itruediv (ofObj o) tol x = (AffOp.inplace o (.itruediv (toArg x))).map ofObj := by
  unfold PyObject.op_itruediv
  show _ = Except.map ofObj (do let r ← AffOp.recip (toArg x); o.scaleArgs [r])
  rw [recip_eq]
  cases paramRecip x with
  | error e => rfl
  | ok y =>
    simp only [ok_bind, map_ok]
    rw [PyObject_scale_p_eq o tol _ g.hs g.hdim g.hwf g.hlen]
    simp only [List.map_cons, List.map_nil]

/-! ### method: __add__ -/
theorem _root_.PyObject_add_eq (o : Obj K) (tol : K) (x : List K) (g : OpGuard o) :
    PyObject.op_add (ofObj o) tol x = (AffOp.inplace o (.add x)).map ofObj := by
  unfold PyObject.op_add
  simp only [PyObject_iadd_eq o tol x g]
  unfold AffOp.inplace
  cases o.translateChecked x <;> rfl

/-! ### method: __radd__ -/
theorem _root_.PyObject_radd_eq (o : Obj K) (tol : K) (x : List K) (g : OpGuard o) :
    PyObject.op_radd (ofObj o) tol x = (AffOp.inplace o (.radd x)).map ofObj := by
  unfold PyObject.op_radd
  simp only [PyObject_add_eq o tol x g]
  unfold AffOp.inplace
  cases o.translateChecked x <;> rfl

/-! ### method: __sub__ -/
theorem _root_.PyObject_sub_eq (o : Obj K) (tol : K) (x : List K) (g : OpGuard o) :
    PyObject.op_sub (ofObj o) tol x = (AffOp.inplace o (.sub x)).map ofObj := by
  unfold PyObject.op_sub
  simp only [PyObject_isub_eq o tol x g]
  unfold AffOp.inplace
  cases o.translateChecked (x.map (- ·)) <;> rfl

/-! ### method: __mul__ -/
theorem _root_.PyObject_mul_eq (o : Obj K) (tol : K) (x : Param K) (g : OpGuard o) :
    PyObject.op_mul (ofObj o) tol x = (AffOp.inplace o (.mul (toArg x))).map ofObj := by
  unfold PyObject.op_mul
  simp only [PyObject_imul_eq o tol x g]
  unfold AffOp.inplace
  cases o.scaleArgs [toArg x] <;> rfl

/-! ### method: __rmul__ -/
theorem _root_.PyObject_rmul_eq (o : Obj K) (tol : K) (x : Param K) (g : OpGuard o) :
    PyObject.op_rmul (ofObj o) tol x = (AffOp.inplace o (.rmul (toArg x))).map ofObj := by
  unfold PyObject.op_rmul
  simp only [PyObject_mul_eq o tol x g]
  unfold AffOp.inplace
  cases o.scaleArgs [toArg x] <;> rfl

/-! ### method: __div__ -/
theorem _root_.PyObject_div_eq (o : Obj K) (tol : K) (x : Param K) (g : OpGuard o) :
    PyObject.op_div (ofObj o) tol x = (AffOp.inplace o (.div (toArg x))).map ofObj := by
  unfold PyObject.op_div
  simp only [PyObject_itruediv_eq o tol x g]
  unfold AffOp.inplace
  cases AffOp.recip (toArg x) with
  | error e => rfl
  | ok y =>
    simp only [ok_bind]

end Splipy.PyO

-- ---------------------------------------------------------------------------- t3b part 17

namespace Splipy.PyO
open Splipy Splipy.Generated Splipy.C06
variable {K : Type} [Field K] [LinearOrder K] [FloorRing K]

/-! ## `cp @ M` for a matrix that acts on the physical coordinates only (no generated code) -/

/-- `np.identity(nc)` with the block `[0:dim, 0:dim]` replaced by `R` -/
def blockM (nc dim : ℕ) (R : ℕ → ℕ → K) : Mat K :=
  Array.ofFn (n := nc) (fun i => Array.ofFn (n := nc) (fun j =>
    if i.val < dim ∧ j.val < dim then R i.val j.val else if i.val = j.val then 1 else 0))

theorem blockM_get (nc dim : ℕ) (R : ℕ → ℕ → K) (i j : ℕ) (hi : i < nc) (hj : j < nc) :
    (blockM nc dim R).get i j = if i < dim ∧ j < dim then R i j else if i = j then 1 else 0 := by
  unfold Mat.get blockM
  simp [Array.getD, hi, hj]

theorem blockM_nrows (nc dim : ℕ) (R : ℕ → ℕ → K) : (blockM nc dim R).nrows = nc := by
  simp [blockM, Mat.nrows]

theorem blockM_ncols (nc dim : ℕ) (R : ℕ → ℕ → K) (h : 0 < nc) : (blockM nc dim R).ncols = nc := by
  simp [blockM, Mat.ncols, Array.getD, h]

theorem foldl_range_prefix (n m : ℕ) (f : ℕ → K) (hm : m ≤ n) (h : ∀ l, m ≤ l → l < n → f l = 0) :
    (List.range n).foldl (fun acc l => acc + f l) 0 = (List.range m).foldl (fun acc l => acc + f l) 0 := by
  induction n with
  | zero =>
    have : m = 0 := by omega
    subst this; rfl
  | succ n ih =>
    by_cases hmn : m = n + 1
    · subst hmn; rfl
    · rw [List.range_succ, List.foldl_append, ih (by omega) (fun l h1 h2 => h l h1 (by omega))]
      simp only [List.foldl_cons, List.foldl_nil]
      rw [h n (by omega) (by omega), add_zero]

/-- `np.reshape(cp @ M, shape)` is the model's `affineCp` with the block `R` -/
theorem block_cps (o : Obj K) (R : ℕ → ℕ → K) (hs : o.cps.shape ≠ []) (hnc : 1 ≤ o.ncomp)
    (hwf : o.cps.data.size = Tensor.prod o.cps.shape) :
    npReshapeMat (npMatmul (matOfTensor o.cps (nPts o.cps) o.ncomp) (blockM o.ncomp o.dimension R)) (npShape o.cps)
      = .ok (o.affineCp R (fun _ => 0)).cps := by
  have hL := lastN_eq_ncomp o hs
  have hL' : o.cps.shape.getLastD 1 = o.ncomp := hL
  have hdn : o.dimension ≤ o.ncomp := by unfold Obj.dimension; omega
  set nc := o.ncomp with hncd
  set P := nPts o.cps with hP
  have hsize : o.cps.size / nc = P := by
    unfold Tensor.size
    rw [prod_eq_nPts_mul _ hs, hL, Nat.mul_div_cancel _ (by omega)]
  have hprod : Tensor.prod o.cps.shape = P * nc := by rw [prod_eq_nPts_mul _ hs, hL]
  set A := matOfTensor o.cps P nc with hA
  set D := blockM nc o.dimension R with hD
  have hrows : ∀ r ∈ (Mat.mul A D).toList, r.size = nc := by
    intro r hr
    rw [mul_row_size A D r hr, blockM_ncols _ _ _ (by omega)]
  have hAs : A.size = P := by simp [hA, matOfTensor]
  have hfl : (tensorOfMat (Mat.mul A D) []).data.size = P * nc := by
    show ((Mat.mul A D).foldl (· ++ ·) #[]).size = _
    rw [flatten_size _ nc hrows, mul_rows, hAs]
  unfold npReshapeMat npReshape npMatmul
  rw [npShape_nonneg, npShape_toNat]
  simp only [Bool.false_eq_true, if_false, hfl, hprod, if_true]
  congr 1
  unfold Obj.affineCp
  simp only [← hncd]
  apply tensor_mk_ext
  · rw [mapLast_shape]
    show o.cps.shape = o.cps.shape.dropLast ++ [nc]
    conv_lhs => rw [← List.dropLast_append_getLast hs]
    congr 2
    rw [← hL]; unfold lastN
    rw [List.getLastD_eq_getLast?, List.getLast?_eq_some_getLast hs]; rfl
  · apply Array.ext
    · rw [mapLast_data_size, hL', hsize]
      exact hfl
    · intro k h1 h2
      have hk : k < P * nc := by rw [← hfl]; exact h1
      have hp : k / nc < P := mod_div_lt hk
      have hi : k % nc < nc := Nat.mod_lt _ (by omega)
      have hLeft : ∀ (a : Array K) (h : k < a.size), a[k] = a.getD k 0 := by
        intro a h; simp [Array.getD, h]
      rw [hLeft _ h1, hLeft _ h2]
      show ((Mat.mul A D).foldl (· ++ ·) #[]).getD k 0 = _
      conv_lhs => rw [← Nat.div_add_mod' k nc]
      rw [flatten_getD _ nc hrows (by rw [mul_rows, hAs]; exact hp) hi,
        mul_get A D (by rw [hAs]; exact hp) (by rw [blockM_ncols _ _ _ (by omega)]; exact hi), blockM_nrows]
      have hg := mapLast_get o.cps nc (fun row =>
          let w : K := if o.rational then row.getD o.dimension 0 else 1
          Array.ofFn (n := nc) (fun i =>
            if i.val < o.dimension then
              (List.range o.dimension).foldl (fun acc j => acc + row.getD j 0 * R j i.val) 0 + 0 * w
            else row.getD i.val 0))
        (pI := k / nc) (c := k % nc) (by rw [hL', hsize]; exact hp) hi
      rw [Nat.div_add_mod' k nc] at hg
      show _ = (Tensor.get _ k)
      rw [hg, hL']
      simp only []
      rw [C06.getD_ofFn _ _ hi]
      simp only []
      have hrow : k / nc * nc + nc ≤ o.cps.data.size := by
        rw [hwf, hprod]
        have := Nat.mul_le_mul_right nc (Nat.succ_le_of_lt hp)
        rw [Nat.succ_mul] at this
        exact this
      by_cases hlt : k % nc < o.dimension
      · rw [if_pos hlt, zero_mul, add_zero]
        rw [foldl_range_prefix nc o.dimension _ hdn (by
          intro l hl1 hl2
          rw [blockM_get _ _ _ _ _ hl2 hi, if_neg (by omega), if_neg (by omega), mul_zero])]
        apply foldl_range_congr
        intro acc j hj
        rw [matOfTensor_get _ _ _ _ _ hp (by omega), blockM_get _ _ _ _ _ (by omega) hi, if_pos ⟨hj, hlt⟩,
          extract_getD _ _ _ _ (by omega)]
        rfl
      · rw [if_neg hlt]
        rw [foldl_range_single nc (k % nc) _ hi (by
          intro l hl hne
          rw [blockM_get _ _ _ _ _ hl hi, if_neg (by omega), if_neg hne, mul_zero])]
        rw [matOfTensor_get _ _ _ _ _ hp hi, blockM_get _ _ _ _ _ hi hi, if_neg (by omega), if_pos rfl, mul_one,
          extract_getD _ _ _ _ (by omega)]
        rfl

end Splipy.PyO

namespace Splipy.PyO
open Splipy Splipy.Generated Splipy.C06
variable {K : Type} [Field K] [LinearOrder K] [FloorRing K]

theorem identity_size (nc : ℕ) : (Mat.identity (K := K) nc).size = nc := by simp [Mat.identity]

theorem identity_row (nc i : ℕ) (hi : i < nc) :
    (Mat.identity (K := K) nc).getD i #[] = Array.ofFn (n := nc) (fun j => if i = j.val then (1 : K) else 0) := by
  simp [Mat.identity, Array.getD, hi]

theorem bcast_eq (A : Mat K) (dim : ℕ) (h2 : 2 ≤ dim) (hA : A.size = dim)
    (hAr : ∀ i, i < dim → (A.getD i #[]).size = dim) :
    bcast A dim dim = .ok (fun i j => (A.getD i #[]).getD j 0) := by
  unfold bcast
  simp only []
  have hall : (A.all fun r => decide (r.size = (A.getD 0 #[]).size)) = true := by
    rw [Array.all_eq_true]
    intro i hi
    have := hAr i (by omega)
    simp only [Array.getD, hi, dif_pos] at this
    rw [hAr 0 (by omega)]
    simpa using this
  rw [if_pos ⟨Or.inl hA, Or.inl (hAr 0 (by omega)), hall⟩]
  have h1 : ¬ (A.size = 1) := by omega
  have h1' : ¬ ((A.getD 0 #[]).size = 1) := by rw [hAr 0 (by omega)]; omega
  simp only [h1, h1', if_false]

theorem matBlockUpd_identity (nc dim : ℕ) (hd : dim ≤ nc) (h2 : 2 ≤ dim) (A : Mat K) (hA : A.size = dim)
    (hAr : ∀ i, i < dim → (A.getD i #[]).size = dim) (f : K → K → K) :
    matBlockUpd (Mat.identity nc) (dim : Int) (dim : Int) A f
      = .ok (blockM nc dim (fun i j => f (if i = j then 1 else 0) (A.get i j))) := by
  unfold matBlockUpd
  have hneg : ¬ ((dim : Int) < 0 ∨ (dim : Int) < 0) := by omega
  rw [if_neg hneg]
  simp only [Int.toNat_natCast, identity_size]
  have hr0 : ((Mat.identity (K := K) nc).getD 0 #[]).size = nc := by rw [identity_row nc 0 (by omega)]; simp
  rw [hr0, Nat.min_eq_left hd, bcast_eq A dim h2 hA hAr]
  simp only []
  congr 1
  unfold blockM
  apply Array.ext (by simp [identity_size])
  intro i hi1 hi2
  have hi : i < nc := by simpa using hi2
  simp only [Array.getElem_ofFn]
  apply Array.ext (by simp [identity_row nc i hi])
  intro j hj1 hj2
  have hj : j < nc := by simpa using hj2
  simp only [Array.getElem_ofFn, identity_row nc i hi]
  by_cases hc : i < dim ∧ j < dim
  · rw [if_pos hc, if_pos hc]
    simp [Mat.get, Array.getD, hj]
  · rw [if_neg hc, if_neg hc]
    simp [Array.getD, hj]

end Splipy.PyO

namespace Splipy.PyO
open Splipy Splipy.Generated Splipy.C06
variable {K : Type} [Field K] [LinearOrder K] [FloorRing K]

/-! ### method: mirror -/

theorem npOuter_size (xs ys : List K) : (npOuter xs ys).size = xs.length := by simp [npOuter]

theorem npOuter_get (xs ys : List K) (i j : ℕ) (hi : i < xs.length) (hj : j < ys.length) :
    ((npOuter xs ys).getD i #[]).getD j 0 = xs.getD i 0 * ys.getD j 0 := by
  simp [npOuter, Array.getD, hi, hj, List.getD_eq_getElem?_getD]

theorem npOuter_row (xs ys : List K) (i : ℕ) (hi : i < xs.length) : ((npOuter xs ys).getD i #[]).size = ys.length := by
  simp [npOuter, Array.getD, hi]

theorem matScale_size (c : K) (M : Mat K) : (matScale c M).size = M.size := by simp [matScale]

theorem matScale_row (c : K) (M : Mat K) (i : ℕ) : ((matScale c M).getD i #[]).size = (M.getD i #[]).size := by
  unfold matScale
  by_cases hi : i < M.size
  · simp [Array.getD, hi]
  · simp [Array.getD, hi]

theorem matScale_get (c : K) (M : Mat K) (i j : ℕ) :
    ((matScale c M).getD i #[]).getD j 0 = c * (M.getD i #[]).getD j 0 := by
  unfold matScale
  by_cases hi : i < M.size
  · by_cases hj : j < (M.getD i #[]).size
    · simp only [Array.getD, hi, dif_pos, Array.size_map, Array.getElem_map] at hj ⊢
      simp [hj]
    · simp only [Array.getD, hi, dif_pos, Array.size_map, Array.getElem_map] at hj ⊢
      simp [hj]
  · simp [Array.getD, hi]

/-- `SplineObject.mirror(normal)`: the square root is the abstract input `sqrt_`; the hand model takes the
    already normalised normal `normal / sqrt_(normal · normal)`.  Guards: those of the operators, and a
    normal with three entries (other lengths fail or broadcast in `reflection_matrix[0:3, 0:3] -= …`). -/
theorem _root_.PyObject_mirror_eq (o : Obj K) (tol : K) (sqrt_ : K → K) (normal : List K) (g : OpGuard o)
    (hn : normal.length = 3) :
    PyObject.mirror (ofObj o) tol sqrt_ normal
      = (o.mirror (listDivS normal (sqrt_ (listDot normal normal)))).map ofObj := by
  have hnc := g.hnc
  have hL := lastN_eq_ncomp o g.hs
  unfold PyObject.mirror Obj.mirror
  simp only [PyObject_len_eq, ok_bind, ofObj_dimension, ofObj_rational, ofObj_cps]
  by_cases hd : o.dimension = 3
  · have hd' : ¬ (((o.dimension : ℕ) : Int) ≠ 3) := by omega
    have hd'' : ¬ (o.dimension ≠ 3) := by omega
    simp only [hd', hd'', if_false, pure_eq_ok, ok_bind]
    rw [ncomp_eq o hnc]
    set nrm := listDivS normal (sqrt_ (listDot normal normal)) with hnrm
    have hnl : nrm.length = 3 := by simp [hnrm, listDivS, hn]
    have hid : npIdentity (K := K) ((o.ncomp : ℕ) : Int) = .ok (Mat.identity o.ncomp) := by
      unfold npIdentity
      have : ¬ (((o.ncomp : ℕ) : Int) < 0) := by omega
      simp [this]
    have hdn : o.dimension ≤ o.ncomp := by unfold Obj.dimension; omega
    rw [hid, ok_bind]
    unfold matBlockSub
    rw [matBlockUpd_identity o.ncomp o.dimension hdn (by omega) _
      (by rw [matScale_size, npOuter_size, hnl, hd])
      (by intro i hi; rw [matScale_row, npOuter_row _ _ _ (by omega), hnl, hd])]
    simp only [ok_bind]
    rw [npReshape2_ok _ _ _ (by rw [g.hlen, g.hwf, prod_eq_nPts_mul _ g.hs, hL]), ok_bind, g.hlen,
      block_cps o _ g.hs hnc g.hwf, ok_bind]
    simp only [map_ok]
    congr 1
    have hA : o.affineCp (fun i j => (if i = j then (1 : K) else 0) - (matScale (2 : K) (npOuter nrm nrm)).get i j)
          (fun _ => 0)
        = o.affineCp (fun j i => (if i = j then 1 else 0) - 2 * nrm.getD j 0 * nrm.getD i 0) (fun _ => 0) := by
      apply affineCp_congr
      intro j i hj hi
      unfold Mat.get
      rw [matScale_get, npOuter_get _ _ _ _ (by omega) (by omega)]
      by_cases hij : i = j
      · subst hij; simp only [if_true]; ring
      · rw [if_neg hij, if_neg (fun h => hij h.symm)]; ring
    rw [hA]
    unfold ofObj
    simp only [PyObj.mk.injEq, true_and, and_true, Nat.cast_inj]
    unfold Obj.affineCp Obj.dimension Obj.ncomp
    simp only [mapLast_shape, List.getLastD_concat]
    trivial
  · have hd' : ((o.dimension : ℕ) : Int) ≠ 3 := by omega
    simp only [hd', hd, if_true, ne_eq, not_false_eq_true]
    rfl

end Splipy.PyO

-- ---------------------------------------------------------------------------- t3b part 18

namespace Splipy.PyO
open Splipy Splipy.Generated Splipy.C06
variable {K : Type} [Field K] [LinearOrder K] [FloorRing K]

/-! ## `rotate`: the object after `set_dimension(3)` (no generated code) -/

theorem setDimension_facts' (o : Obj K) (m : ℕ) (hs : o.cps.shape ≠ []) (hnc : 1 ≤ o.ncomp)
    (hwf : o.cps.data.size = Tensor.prod o.cps.shape) :
    (o.setDimension m).cps.shape ≠ [] ∧
    (o.setDimension m).cps.data.size = Tensor.prod (o.setDimension m).cps.shape ∧
    nPts (o.setDimension m).cps = nPts o.cps ∧ (o.setDimension m).dimension = m ∧
    (o.setDimension m).len = o.len ∧ (o.setDimension m).rational = o.rational := by
  have hc := setDimension_cps o m hs hnc hwf
  have hsh : (o.setDimension m).cps.shape = o.cps.shape.dropLast ++ [m + (o.ncomp - o.dimension)] := by
    rw [hc]; rfl
  have hdn : o.dimension ≤ o.ncomp := by unfold Obj.dimension; omega
  refine ⟨by rw [hsh]; simp, ?_, ?_, ?_, rfl, rfl⟩
  · rw [hsh, C06.prod_append, C06.prod_cons, C06.prod_nil, mul_one, hc]
    simp [setDimT, nPts]
  · rw [hc]; exact setDimT_nPts _ _ _ _
  · have hr : (o.setDimension m).rational = o.rational := rfl
    unfold Obj.dimension Obj.ncomp
    rw [hsh, List.getLastD_concat, hr]
    unfold Obj.dimension Obj.ncomp
    split_ifs with h
    · have : 1 ≤ o.cps.shape.getLastD 0 := hnc
      omega
    · omega

end Splipy.PyO

namespace Splipy.PyO
open Splipy Splipy.Generated Splipy.C06
variable {K : Type} [Field K] [LinearOrder K] [FloorRing K]

theorem len3 (l : List K) (h : l.length = 3) : ∃ a b c, l = [a, b, c] := by
  match l, h with
  | [a, b, c], _ => exact ⟨a, b, c, rfl⟩

/-- the tail of `rotate`, `mirror`: identity with a block, reshape, product, reshape -/
theorem block_tail (o1 : Obj K) (n : ℕ) (R : Mat K) (hs : o1.cps.shape ≠ []) (hdim : 2 ≤ o1.dimension)
    (hwf : o1.cps.data.size = Tensor.prod o1.cps.shape) (hn : n = nPts o1.cps)
    (hR : R.size = o1.dimension) (hRr : ∀ i, i < o1.dimension → (R.getD i #[]).size = o1.dimension) :
    (do
      let tmp10 ← npIdentity (((o1.dimension : ℕ) : Int) + (b2i o1.rational))
      let rot_matrix := tmp10
      let rot_matrix ← matBlockSet rot_matrix ((o1.dimension : ℕ) : Int) ((o1.dimension : ℕ) : Int) R
      let tmp11 ← npReshape2 (ofObj o1).controlpoints (n : Int) (((o1.dimension : ℕ) : Int) + (b2i o1.rational))
      let cp := tmp11
      let cp := (npMatmul cp rot_matrix)
      let tmp12 ← npReshapeMat cp (npShape (ofObj o1).controlpoints)
      let self_ : PyObj K := { (ofObj o1) with controlpoints := tmp12 }
      pure self_)
    = .ok (ofObj (o1.affineCp (fun i j => R.get i j) (fun _ => 0))) := by
  have hnc : 1 ≤ o1.ncomp := by unfold Obj.dimension at hdim; omega
  have hdn : o1.dimension ≤ o1.ncomp := by unfold Obj.dimension; omega
  have hL := lastN_eq_ncomp o1 hs
  rw [ncomp_eq o1 hnc]
  have hid : npIdentity (K := K) ((o1.ncomp : ℕ) : Int) = .ok (Mat.identity o1.ncomp) := by
    unfold npIdentity
    have : ¬ (((o1.ncomp : ℕ) : Int) < 0) := by omega
    simp [this]
  rw [hid, ok_bind]
  unfold matBlockSet
  simp only []
  rw [matBlockUpd_identity o1.ncomp o1.dimension hdn hdim R hR hRr]
  simp only [ok_bind, ofObj_cps]
  rw [npReshape2_ok _ _ _ (by rw [hn, hwf, prod_eq_nPts_mul _ hs, hL]), ok_bind, hn,
    block_cps o1 _ hs hnc hwf, ok_bind]
  simp only [pure_eq_ok]
  congr 1
  unfold ofObj
  simp only [PyObj.mk.injEq, true_and, and_true, Nat.cast_inj]
  unfold Obj.affineCp Obj.dimension Obj.ncomp
  simp only [mapLast_shape, List.getLastD_concat]
  trivial

end Splipy.PyO

namespace Splipy.PyO
open Splipy Splipy.Generated Splipy.C06
variable {K : Type} [Field K] [LinearOrder K] [FloorRing K]

/-! ### method: rotation_matrix -/

/-- `utils.rotation_matrix(theta, axis)` for a three-entry axis: the matrix of the hand model's `rotate`. -/
theorem _root_.PyObject_rotation_matrix_eq (cos_ sin_ sqrt_ : K → K) (theta a0 a1 a2 : K) :
    PyObject.rotation_matrix cos_ sin_ sqrt_ theta [a0, a1, a2] = .ok (
      let s := sqrt_ (listDot [a0, a1, a2] [a0, a1, a2])
      let a := cos_ (theta / 2)
      let sh := sin_ (theta / 2)
      let b := -(a0 / s) * sh
      let c := -(a1 / s) * sh
      let d := -(a2 / s) * sh
      #[#[a*a+b*b-c*c-d*d, 2*(b*c-a*d), 2*(b*d+a*c)],
        #[2*(b*c+a*d), a*a+c*c-b*b-d*d, 2*(c*d-a*b)],
        #[2*(b*d-a*c), 2*(c*d+a*b), a*a+d*d-b*b-c*c]]) := by
  unfold PyObject.rotation_matrix
  simp [listDivS, listMulS, listNeg, unpack3, matOfRows]

end Splipy.PyO

namespace Splipy.PyO
open Splipy Splipy.Generated Splipy.C06
variable {K : Type} [Field K] [LinearOrder K] [FloorRing K]

/-! ### method: rotate -/

/-- `SplineObject.rotate(theta, normal)`.  `cos_`, `sin_`, `sqrt_` are abstract inputs; the hand model takes
    `ch = cos(θ/2)`, `sh = sin(θ/2)` and the normalised axis, and writes `cos θ`, `sin θ` of the 2-D branch as
    `ch² − sh²`, `2·ch·sh`: the two double-angle identities are hypotheses (`hc`, `hs2`).  Other guards: those
    of the operators and a three-entry `normal`. -/
theorem _root_.PyObject_rotate_eq (o : Obj K) (tol : K) (cos_ sin_ sqrt_ : K → K) (theta : K) (normal : List K)
    (g : OpGuard o) (hn : normal.length = 3)
    (hc : cos_ theta = cos_ (theta / 2) * cos_ (theta / 2) - sin_ (theta / 2) * sin_ (theta / 2))
    (hs2 : sin_ theta = 2 * cos_ (theta / 2) * sin_ (theta / 2)) :
    PyObject.rotate (ofObj o) tol cos_ sin_ sqrt_ theta normal
      = (o.rotate (cos_ (theta / 2)) (sin_ (theta / 2)) normal
          (listDivS normal (sqrt_ (listDot normal normal)))).map ofObj := by
  obtain ⟨n0, n1, n2, rfl⟩ := len3 normal hn
  have hnc := g.hnc
  unfold PyObject.rotate Obj.rotate
  simp only [PyObject_len_eq, ok_bind, ofObj_dimension, ofObj_rational]
  have hg0 : getItem [n0, n1, n2] (0 : Int) = .ok n0 := rfl
  have hg1 : getItem [n0, n1, n2] (1 : Int) = .ok n1 := rfl
  rw [hg0, ok_bind]
  simp only [hg1, ok_bind, pure_eq_ok, List.getD_cons_zero, List.getD_cons_succ]
  -- the dimension promotion
  set o1 : Obj K := if ¬ (n0 = 0 ∧ n1 = 0) then o.setDimension 3 else o with ho1
  have hfacts : o1.cps.shape ≠ [] ∧ o1.cps.data.size = Tensor.prod o1.cps.shape ∧
      nPts o1.cps = nPts o.cps ∧ o1.rational = o.rational ∧ o1.len = o.len := by
    rw [ho1]
    split_ifs with h
    · exact ⟨g.hs, g.hwf, rfl, rfl, rfl⟩
    · obtain ⟨f1, f2, f3, f4, f5, f6⟩ := setDimension_facts' o 3 g.hs hnc g.hwf
      exact ⟨f1, f2, f3, f6, f5⟩
  obtain ⟨g1, g3, g4, g5, g6⟩ := hfacts
  have hprom : ∀ {β : Type} (F : PyObj K × Int → PyM β), (do
        let tmp4 ← (if n0 = (0 : K) then (Except.ok (decide (n1 = (0 : K))) : PyM Bool) else Except.ok false)
        let st5 ← (if (¬ (tmp4 = true)) then do
          let self_ ← PyObject.set_dimension (ofObj o) tol (3 : Int)
          (Except.ok (self_, self_.dimension) : PyM (PyObj K × Int))
        else Except.ok (ofObj o, ((o.dimension : ℕ) : Int)))
        F st5)
      = F (ofObj o1, ((o1.dimension : ℕ) : Int)) := by
    intro β F
    have hsd := PyObject_set_dimension_eq o tol 3 g.hs hnc g.hwf
    simp only [Nat.cast_ofNat] at hsd
    by_cases h0 : n0 = 0
    · by_cases h1 : n1 = 0
      · simp only [h0, h1, if_true, ok_bind, decide_true, not_true_eq_false, if_false, ho1, and_self]
      · simp only [h0, h1, if_true, ok_bind, decide_false, Bool.false_eq_true, not_false_eq_true, hsd, ho1,
          and_false, if_true]
        rfl
    · simp only [h0, if_false, ok_bind, Bool.false_eq_true, not_false_eq_true, if_true, hsd, ho1, false_and]
      rfl
  rw [hprom]
  simp only [ofObj_cps, ofObj_bases, ofObj_dimension, ofObj_rational]
  by_cases hd2 : o1.dimension = 2
  · have hd2' : ((o1.dimension : ℕ) : Int) = 2 := by omega
    rw [if_pos hd2', if_pos hd2]
    have hm : matOfRows [[cos_ theta, -sin_ theta], [sin_ theta, cos_ theta]]
        = .ok (#[#[cos_ theta, -sin_ theta], #[sin_ theta, cos_ theta]] : Mat K) := by
      simp [matOfRows]
    rw [hm]
    simp only [ok_bind]
    set R : Mat K := matT #[#[cos_ theta, -sin_ theta], #[sin_ theta, cos_ theta]] with hR
    have key := block_tail o1 o.len R g1 (by omega) g3 (by rw [g.hlen, g4])
      (by rw [hd2]; simp [hR, matT, Mat.transpose, Mat.ncols, Array.getD])
      (by
        intro i hi
        rw [hd2] at hi ⊢
        interval_cases i <;> simp [hR, matT, Mat.transpose, Mat.ncols, Mat.nrows, Array.getD])
    simp only [ofObj_cps, ofObj_bases, ofObj_dimension, ofObj_rational, pure_eq_ok] at key
    rw [← g5, key]
    simp only [map_ok]
    congr 2
    apply affineCp_congr
    intro j i hj hi
    rw [hd2] at hj hi
    have e00 : R.get 0 0 = cos_ theta := by simp [hR, matT, Mat.transpose, Mat.get, Mat.ncols, Mat.nrows, Array.getD]
    have e01 : R.get 0 1 = sin_ theta := by simp [hR, matT, Mat.transpose, Mat.get, Mat.ncols, Mat.nrows, Array.getD]
    have e10 : R.get 1 0 = -sin_ theta := by simp [hR, matT, Mat.transpose, Mat.get, Mat.ncols, Mat.nrows, Array.getD]
    have e11 : R.get 1 1 = cos_ theta := by simp [hR, matT, Mat.transpose, Mat.get, Mat.ncols, Mat.nrows, Array.getD]
    interval_cases j <;> interval_cases i <;> simp only [e00, e01, e10, e11, hc, hs2]
  · have hd2' : ¬ (((o1.dimension : ℕ) : Int) = 2) := by omega
    rw [if_neg hd2', if_neg hd2]
    by_cases hd3 : o1.dimension = 3
    · have hd3' : ((o1.dimension : ℕ) : Int) = 3 := by omega
      rw [if_pos hd3', if_pos hd3, PyObject_rotation_matrix_eq]
      simp only [ok_bind]
      set R : Mat K := (
        let s := sqrt_ (listDot [n0, n1, n2] [n0, n1, n2])
        let a := cos_ (theta / 2)
        let sh := sin_ (theta / 2)
        let b := -(n0 / s) * sh
        let c := -(n1 / s) * sh
        let d := -(n2 / s) * sh
        #[#[a*a+b*b-c*c-d*d, 2*(b*c-a*d), 2*(b*d+a*c)],
          #[2*(b*c+a*d), a*a+c*c-b*b-d*d, 2*(c*d-a*b)],
          #[2*(b*d-a*c), 2*(c*d+a*b), a*a+d*d-b*b-c*c]]) with hR
      have key := block_tail o1 o.len R g1 (by omega) g3 (by rw [g.hlen, g4])
        (by rw [hd3]; simp [hR])
        (by
          intro i hi
          rw [hd3] at hi ⊢
          interval_cases i <;> simp [hR, Array.getD])
      simp only [ofObj_cps, ofObj_bases, ofObj_dimension, ofObj_rational, pure_eq_ok] at key
      rw [← g5, key]
      simp only [map_ok]
      congr 2
      apply affineCp_congr
      intro j i hj hi
      rw [hd3] at hj hi
      interval_cases j <;> interval_cases i <;>
        simp [hR, Mat.get, Array.getD, listDivS]
    · have hd3' : ¬ (((o1.dimension : ℕ) : Int) = 3) := by omega
      rw [if_neg hd3', if_neg hd3]
      rfl

end Splipy.PyO

-- ---------------------------------------------------------------------------- t3b part 19

namespace Splipy.PyO
open Splipy Splipy.Generated Splipy.C06
variable {K : Type} [Field K] [LinearOrder K] [FloorRing K]

/-! ## fixing an index along one axis, by multi-index (no generated code) -/

theorem eraseIdx_comm (l : List ℕ) (d e : ℕ) (h : d ≤ e) :
    (l.eraseIdx d).eraseIdx e = (l.eraseIdx (e + 1)).eraseIdx d := by
  apply List.ext_getElem?
  intro k
  simp only [List.getElem?_eraseIdx]
  by_cases h1 : k < d
  · have : k < e := by omega
    have : k < e + 1 := by omega
    simp [*]
  · by_cases h2 : k < e
    · have h3 : k + 1 < e + 1 := by omega
      simp [h1, h2, h3]
    · have h3 : ¬ (k + 1 < e + 1) := by omega
      have h4 : ¬ (k + 1 < d) := by omega
      simp [h1, h2, h3, h4]

theorem inRange_insertIdx {idx s : List ℕ} {ax k : ℕ} (hax : ax < s.length) (hk : k < s.getD ax 0)
    (h : InRange idx (s.eraseIdx ax)) : InRange (idx.insertIdx ax k) s := by
  have hl : idx.length = s.length - 1 := by rw [h.length_eq, List.length_eraseIdx, if_pos hax]
  rw [inRange_iff] at h ⊢
  refine ⟨by rw [List.length_insertIdx]; split_ifs <;> omega, ?_⟩
  intro j hj
  have hgi : (idx.insertIdx ax k).getD j 0 = if j < ax then idx.getD j 0 else if j = ax then k else idx.getD (j - 1) 0 := by
    simp only [List.getD_eq_getElem?_getD, List.getElem?_insertIdx]
    split_ifs <;> first | rfl | omega
  rw [hgi]
  by_cases h1 : j < ax
  · rw [if_pos h1]
    have := h.2 j (by rw [List.length_eraseIdx, if_pos hax]; omega)
    rw [getD_eraseIdx] at this
    simpa [h1] using this
  · rw [if_neg h1]
    by_cases h2 : j = ax
    · rw [if_pos h2, h2]
      simpa [List.getD_eq_getElem?_getD, hax] using hk
    · rw [if_neg h2]
      have := h.2 (j - 1) (by rw [List.length_eraseIdx, if_pos hax]; omega)
      rw [getD_eraseIdx] at this
      have h3 : ¬ (j - 1 < ax) := by omega
      have e : j - 1 + 1 = j := by omega
      simpa [h3, e] using this

theorem flatIdx_insert_one (s idx : List ℕ) (ax : ℕ) (hax : ax < s.length) (hl : idx.length = s.length - 1) :
    flatIdx (s.set ax 1) (idx.insertIdx ax 0) = flatIdx (s.eraseIdx ax) idx := by
  have hfull : (idx.insertIdx ax 0).length = s.length := by
    rw [List.length_insertIdx]; split_ifs <;> omega
  rw [flatIdx_set_split s _ ax 1 hax hfull, take_insertIdx_self, drop_insertIdx_self]
  have hg : (idx.insertIdx ax 0).getD ax 0 = 0 := by
    simp only [List.getD_eq_getElem?_getD, List.getElem?_insertIdx]
    simp only [lt_irrefl, if_false, if_true]
    split_ifs <;> rfl
  rw [hg, List.eraseIdx_eq_take_drop_succ]
  conv_rhs => rw [← List.take_append_drop ax idx]
  rw [flatIdx_append _ _ _ _ (by simp only [List.length_take]; omega)]
  ring

theorem getIdx_takeAxis (t : Tensor K) (ax k : ℕ) (idx : List ℕ) (hax : ax < t.shape.length)
    (h : InRange idx (t.shape.eraseIdx ax)) :
    getIdx (t.takeAxis ax k) idx = getIdx t (idx.insertIdx ax k) := by
  have hl : idx.length = t.shape.length - 1 := by rw [h.length_eq, List.length_eraseIdx, if_pos hax]
  have hfull : (idx.insertIdx ax 0).length = t.shape.length := by
    rw [List.length_insertIdx]; split_ifs <;> omega
  have h1 : InRange (idx.insertIdx ax 0) (t.shape.set ax 1) := by
    apply inRange_insertIdx (by rw [List.length_set]; exact hax) (by rw [getD_set_self _ _ _ _ hax]; omega)
    rw [List.eraseIdx_set_eq]
    exact h
  have := getIdx_reindexAxis t ax 1 (fun _ => k) (idx.insertIdx ax 0) hax h1
  have hset : (idx.insertIdx ax 0).set ax k = idx.insertIdx ax k := by
    have e : idx = (idx.insertIdx ax 0).eraseIdx ax := by rw [List.eraseIdx_insertIdx_self]
    conv_rhs => rw [e]
    exact (eraseIdx_insertIdx_set _ _ _ (by omega)).symm
  rw [hset] at this
  rw [← this]
  unfold getIdx
  show (t.takeAxis ax k).get (flatIdx (t.takeAxis ax k).shape idx) = _
  rw [takeAxis_shape']
  have hsh : (t.reindexAxis ax 1 (fun _ => k)).shape = t.shape.set ax 1 := rfl
  rw [hsh, flatIdx_insert_one _ _ _ hax hl]
  rfl

end Splipy.PyO

namespace Splipy.PyO
open Splipy Splipy.Generated Splipy.C06
variable {K : Type} [Field K] [LinearOrder K] [FloorRing K]

theorem takeAxis_wf (t : Tensor K) (ax k : ℕ) (hax : ax < t.shape.length) :
    (t.takeAxis ax k).data.size = Tensor.prod (t.takeAxis ax k).shape := by
  rw [takeAxis_size, takeAxis_shape', List.eraseIdx_eq_take_drop_succ, prod_append]

theorem getD_eraseIdx' (l : List ℕ) (ax j d : ℕ) :
    (l.eraseIdx ax).getD j d = if j < ax then l.getD j d else l.getD (j + 1) d := getD_eraseIdx l ax j d

/-- fixing two different axes commutes (the later axis first, or the earlier one first with the later
    axis renumbered) -/
theorem takeAxis_comm (X : Tensor K) (d e j k : ℕ) (hde : d ≤ e) (he : e + 1 < X.shape.length)
    (hj : j < X.shape.getD d 0) (hk : k < X.shape.getD (e + 1) 0) :
    (X.takeAxis d j).takeAxis e k = (X.takeAxis (e + 1) k).takeAxis d j := by
  have hd : d < X.shape.length := by omega
  have hsh : ((X.takeAxis d j).takeAxis e k).shape = ((X.takeAxis (e + 1) k).takeAxis d j).shape := by
    simp only [takeAxis_shape']
    exact eraseIdx_comm _ _ _ hde
  have he' : e < (X.takeAxis d j).shape.length := by
    rw [takeAxis_shape', List.length_eraseIdx, if_pos hd]; omega
  have hd' : d < (X.takeAxis (e + 1) k).shape.length := by
    rw [takeAxis_shape', List.length_eraseIdx, if_pos he]; omega
  apply tensor_ext _ _ hsh (takeAxis_wf _ _ _ he') (takeAxis_wf _ _ _ hd')
  intro idx hidx
  have hidx1 : InRange idx ((X.takeAxis d j).shape.eraseIdx e) := by
    rw [takeAxis_shape'] at hidx; exact hidx
  have hidx2 : InRange idx ((X.takeAxis (e + 1) k).shape.eraseIdx d) := by
    rw [hsh, takeAxis_shape'] at hidx; exact hidx
  have hil : idx.length = X.shape.length - 2 := by
    rw [hidx1.length_eq, List.length_eraseIdx, if_pos he', takeAxis_shape', List.length_eraseIdx, if_pos hd]; omega
  rw [getIdx_takeAxis _ _ _ _ he' hidx1, getIdx_takeAxis _ _ _ _ hd' hidx2]
  have hk1 : k < (X.shape.eraseIdx d).getD e 0 := by
    rw [getD_eraseIdx', if_neg (by omega)]; exact hk
  have hj1 : j < (X.shape.eraseIdx (e + 1)).getD d 0 := by
    rw [getD_eraseIdx', if_pos (by omega)]; exact hj
  have hr1 : InRange (idx.insertIdx e k) (X.shape.eraseIdx d) := by
    have := inRange_insertIdx (s := X.shape.eraseIdx d) (ax := e) (k := k)
      (by rw [List.length_eraseIdx, if_pos hd]; omega) hk1 (by rw [takeAxis_shape'] at hidx1; exact hidx1)
    exact this
  have hr2 : InRange (idx.insertIdx d j) (X.shape.eraseIdx (e + 1)) := by
    have := inRange_insertIdx (s := X.shape.eraseIdx (e + 1)) (ax := d) (k := j)
      (by rw [List.length_eraseIdx, if_pos he]; omega) hj1 (by rw [takeAxis_shape'] at hidx2; exact hidx2)
    exact this
  rw [getIdx_takeAxis X d j _ hd hr1, getIdx_takeAxis X (e + 1) k _ he hr2]
  rw [List.insertIdx_comm j k hde (by omega)]

end Splipy.PyO

-- ---------------------------------------------------------------------------- t3b part 20

namespace Splipy.PyO
open Splipy Splipy.Generated Splipy.C06 Splipy.Sections
variable {K : Type} [Field K] [LinearOrder K] [FloorRing K]

/-! ## `self.controlpoints[slices]` of `section` (no generated code) -/

/-- a resolved section only fixes indices that exist -/
def SecOk : List (Option ℕ) → List ℕ → Prop
  | [], _ => True
  | none :: r, _ :: ns => SecOk r ns
  | some j :: r, n :: ns => j < n ∧ SecOk r ns
  | _ :: _, [] => False

/-- the axis lengths that remain -/
def secShape : List (Option ℕ) → List ℕ → List ℕ
  | [], s => s
  | none :: r, n :: ns => n :: secShape r ns
  | some _ :: r, _ :: ns => secShape r ns
  | _ :: _, [] => []

theorem pyIndex_eq (n : ℕ) (i : Int) :
    pyIndex n i = match normIdx n i with | some k => .ok k | none => .error .index := by
  unfold pyIndex normIdx
  by_cases h : 0 ≤ i
  · have h' : ¬ (i < 0) := by omega
    simp only [h, h', if_true, if_false]
    by_cases h2 : i < n
    · simp [h2, h]
    · simp [h2]
  · have h' : i < 0 := by omega
    simp only [h, h', if_true, if_false]
    by_cases h2 : 0 ≤ i + n
    · have : i + (n : Int) < n := by omega
      simp [h2, this]
    · simp [h2]

theorem resolveSel_ok (s : List ℕ) (sec : Sec) (idx : List (Option ℕ)) (h : Obj.resolveSel s sec = .ok idx) :
    SecOk idx s := by
  induction sec generalizing s idx with
  | nil => simp [Obj.resolveSel] at h; subst h; trivial
  | cons a r ih =>
    cases s with
    | nil => simp [Obj.resolveSel] at h
    | cons n ns =>
      cases a with
      | none =>
        simp only [Obj.resolveSel] at h
        cases hr : Obj.resolveSel ns r with
        | error e => rw [hr] at h; simp at h
        | ok idx' =>
          rw [hr] at h; simp at h; subst h
          exact ih ns idx' hr
      | some i =>
        simp only [Obj.resolveSel, pyIndex_eq] at h
        cases hn : normIdx n i with
        | none => rw [hn] at h; simp at h
        | some k =>
          rw [hn] at h
          simp only [] at h
          cases hr : Obj.resolveSel ns r with
          | error e => rw [hr] at h; simp at h
          | ok idx' =>
            rw [hr] at h; simp at h; subst h
            refine ⟨?_, ih ns idx' hr⟩
            unfold normIdx at hn
            split_ifs at hn <;> cases hn <;> omega

theorem sliceSecFrom_shape (idx : List (Option ℕ)) (t : Tensor K) (f : ℕ) (hf : f ≤ t.shape.length)
    (hok : SecOk idx (t.shape.drop f)) :
    (Obj.sliceSecFrom f idx t).shape = t.shape.take f ++ secShape idx (t.shape.drop f) := by
  induction idx generalizing f t with
  | nil => simp [Obj.sliceSecFrom, secShape]
  | cons a r ih =>
    cases hdrop : t.shape.drop f with
    | nil => rw [hdrop] at hok; cases a <;> exact absurd hok (by simp [SecOk])
    | cons n ns =>
      have hfl : f < t.shape.length := by
        by_contra hc
        have : t.shape.drop f = [] := List.drop_eq_nil_of_le (by omega)
        rw [this] at hdrop; cases hdrop
      have hns : t.shape.drop (f + 1) = ns := by
        have := congrArg List.tail hdrop
        simpa [List.tail_drop] using this
      have hn : t.shape.getD f 0 = n := by
        have := congrArg (fun l => l.headD 0) hdrop
        simpa [List.getD_eq_getElem?_getD, List.head?_drop, List.headD_eq_head?_getD] using this
      have htk : t.shape.take (f + 1) = t.shape.take f ++ [n] := by
        rw [List.take_succ]
        simp [List.getD_eq_getElem?_getD, hfl] at hn
        simp [hfl, hn]
      rw [hdrop] at hok
      cases a with
      | none =>
        simp only [Obj.sliceSecFrom, secShape]
        rw [ih t (f + 1) (by omega) (by rw [hns]; exact hok), hns, htk]
        simp
      | some j =>
        simp only [Obj.sliceSecFrom, secShape]
        rw [takeAxis_shape', ih t (f + 1) (by omega) (by rw [hns]; exact hok.2), hns, htk]
        rw [List.append_assoc, List.eraseIdx_append_of_length_le (by simp only [List.length_take]; omega)]
        simp only [List.length_take, Nat.min_eq_left (le_of_lt hfl), Nat.sub_self, List.singleton_append,
          List.eraseIdx_cons_zero]

end Splipy.PyO

namespace Splipy.PyO
open Splipy Splipy.Generated Splipy.C06 Splipy.Sections
variable {K : Type} [Field K] [LinearOrder K] [FloorRing K]

theorem getD_append_left' (a b : List ℕ) (k d : ℕ) (h : k < a.length) : (a ++ b).getD k d = a.getD k d := by
  simp [List.getD_eq_getElem?_getD, List.getElem?_append_left h]

theorem sliceSecFrom_takeAxis (idx : List (Option ℕ)) (t : Tensor K) (d k e : ℕ) (hde : d ≤ e)
    (he : e < t.shape.length) (hk : k < t.shape.getD d 0) (hok : SecOk idx (t.shape.drop (e + 1))) :
    Obj.sliceSecFrom e idx (t.takeAxis d k) = (Obj.sliceSecFrom (e + 1) idx t).takeAxis d k := by
  induction idx generalizing e with
  | nil => rfl
  | cons a r ih =>
    cases hdrop : t.shape.drop (e + 1) with
    | nil => rw [hdrop] at hok; cases a <;> exact absurd hok (by simp [SecOk])
    | cons n ns =>
      have hfl : e + 1 < t.shape.length := by
        by_contra hc
        have : t.shape.drop (e + 1) = [] := List.drop_eq_nil_of_le (by omega)
        rw [this] at hdrop; cases hdrop
      have hns : t.shape.drop (e + 2) = ns := by
        have := congrArg List.tail hdrop
        simpa [List.tail_drop] using this
      have hn : t.shape.getD (e + 1) 0 = n := by
        have := congrArg (fun l => l.headD 0) hdrop
        simpa [List.getD_eq_getElem?_getD, List.head?_drop, List.headD_eq_head?_getD] using this
      rw [hdrop] at hok
      cases a with
      | none =>
        simp only [Obj.sliceSecFrom]
        exact ih (e + 1) (by omega) hfl (by rw [hns]; exact hok)
      | some j =>
        simp only [Obj.sliceSecFrom]
        rw [ih (e + 1) (by omega) hfl (by rw [hns]; exact hok.2)]
        have hshX := sliceSecFrom_shape r t (e + 2) (by omega) (by rw [hns]; exact hok.2)
        have hlenX : e + 1 < (Obj.sliceSecFrom (e + 2) r t).shape.length := by
          rw [hshX, List.length_append, List.length_take]; omega
        have hgX : ∀ q, q < e + 2 → (Obj.sliceSecFrom (e + 2) r t).shape.getD q 0 = t.shape.getD q 0 := by
          intro q hq
          rw [hshX, getD_append_left' _ _ _ _ (by simp only [List.length_take]; omega)]
          simp [List.getD_eq_getElem?_getD, List.getElem?_take, hq]
        exact takeAxis_comm _ d e k j hde hlenX (by rw [hgX d (by omega)]; exact hk)
          (by rw [hgX (e + 1) (by omega), hn]; exact hok.1)

theorem drop_cons_of_lt (s : List ℕ) (d : ℕ) (h : d < s.length) : s.drop d = s.getD d 0 :: s.drop (d + 1) := by
  rw [List.drop_eq_getElem_cons h]
  simp [List.getD_eq_getElem?_getD, h]

/-- the fold of `npIndex` over the tokens of a section = the hand model's resolution and slicing -/
theorem fold_sec (sec : Sec) (t : Tensor K) (d : ℕ) (hlen : d + sec.length ≤ t.shape.length) :
    ((sec.map selTok).foldlM ixStep (t, d)).map (fun st => st.1)
      = (Obj.resolveSel (t.shape.drop d) sec).map (fun idx => Obj.sliceSecFrom d idx t) := by
  induction sec generalizing t d with
  | nil =>
    cases hs : t.shape.drop d <;> simp [Obj.resolveSel, Obj.sliceSecFrom, hs]
  | cons a r ih =>
    have hd : d < t.shape.length := by simp only [List.length_cons] at hlen; omega
    rw [drop_cons_of_lt _ _ hd]
    cases a with
    | none =>
      simp only [List.map_cons, selTok, List.foldlM_cons, Obj.resolveSel]
      show ((pure (t, d + 1) : PyM (Tensor K × ℕ)) >>= fun s => List.foldlM ixStep s (r.map selTok)).map _ = _
      rw [pure_bind, ih t (d + 1) (by simp only [List.length_cons] at hlen; omega)]
      cases Obj.resolveSel (t.shape.drop (d + 1)) r <;> rfl
    | some i =>
      simp only [List.map_cons, selTok, List.foldlM_cons, Obj.resolveSel, pyIndex_eq]
      show ((match normIdx (t.shape.getD d 0) i with
          | some k => (pure (t.takeAxis d k, d) : PyM (Tensor K × ℕ))
          | none => .error .index) >>= fun s => List.foldlM ixStep s (r.map selTok)).map _ = _
      cases hn : normIdx (t.shape.getD d 0) i with
      | none => rfl
      | some k =>
        simp only [pure_bind]
        have hk : k < t.shape.getD d 0 := by
          unfold normIdx at hn
          split_ifs at hn <;> cases hn <;> omega
        have hsh : (t.takeAxis d k).shape.drop d = t.shape.drop (d + 1) := by
          rw [takeAxis_shape', drop_eraseIdx_self _ _ hd]
        rw [ih (t.takeAxis d k) d (by
          rw [takeAxis_shape', List.length_eraseIdx, if_pos hd]
          simp only [List.length_cons] at hlen; omega), hsh]
        cases hr : Obj.resolveSel (t.shape.drop (d + 1)) r with
        | error e => rfl
        | ok idx =>
          simp only [map_ok]
          congr 1
          exact sliceSecFrom_takeAxis idx t d k d (le_refl d) hd hk (resolveSel_ok _ _ _ hr)

theorem resolveSel_long (s : List ℕ) (sec : Sec) (h : s.length < sec.length) : Obj.resolveSel s sec = .error .index := by
  induction sec generalizing s with
  | nil => simp at h
  | cons a r ih =>
    cases s with
    | nil => rfl
    | cons n ns =>
      have h' : ns.length < r.length := by simpa using h
      cases a with
      | none => simp [Obj.resolveSel, ih ns h']
      | some i =>
        simp only [Obj.resolveSel, pyIndex_eq]
        cases normIdx n i with
        | none => rfl
        | some k => simp [ih ns h']

/-- `t[tuple(slice(None) if p is None else p for p in section)]` -/
theorem npIndex_sec (t : Tensor K) (sec : Sec) :
    npIndex t (sec.map selTok) = (Obj.resolveSel t.shape sec).map (fun idx => Obj.sliceSec t idx) := by
  rw [npIndex_eq]
  simp only [List.length_map]
  by_cases h : t.shape.length < sec.length
  · rw [if_pos h, resolveSel_long _ _ h]; rfl
  · rw [if_neg h]
    have := fold_sec sec t 0 (by omega)
    simpa [Obj.sliceSec] using this

end Splipy.PyO

-- ---------------------------------------------------------------------------- t3b part 21

namespace Splipy.PyO
open Splipy Splipy.Generated Splipy.C06 Splipy.Sections
variable {K : Type} [Field K] [LinearOrder K] [FloorRing K]

/-! ### method: section -/

/-- the two result types, compared on their content: an object, or the bare control point -/
def secOf : SecResult K → PyObj K ⊕ Array K
  | .obj _ o => .inl (ofObj o)
  | .point a => .inr a

def pyOf : PySec K → PyObj K ⊕ Array K
  | .obj o => .inl o
  | .point t => .inr t.data

theorem pyCheckSection_eq (args : Sec) (kw : List (ℕ × Sel)) (pd : ℕ) :
    pyCheckSection args kw (pd : Int) = checkSection pd args kw := by
  unfold pyCheckSection checkSection
  simp only [Int.toNat_natCast]

theorem checkSection_length (pd : ℕ) (args : Sec) (kw : List (ℕ × Sel)) (sec : Sec)
    (h : checkSection pd args kw = .ok sec) : sec.length = max args.length pd := by
  unfold checkSection at h
  simp only [] at h
  have key : ∀ (kw : List (ℕ × Sel)) (a sec : Sec),
      kw.foldlM (fun a (x : ℕ × Sel) => if x.1 < a.length then (.ok (a.set x.1 x.2) : PyM Sec) else .error .index) a = .ok sec →
      sec.length = a.length := by
    intro kw
    induction kw with
    | nil => intro a sec h; simp at h; cases h; rfl
    | cons x kw ih =>
      intro a sec h
      simp only [List.foldlM_cons] at h
      by_cases hx : x.1 < a.length
      · rw [if_pos hx] at h
        simp only [ok_bind] at h
        rw [ih _ _ h, List.length_set]
      · rw [if_neg hx] at h; simp at h
  have := key kw _ sec h
  rw [this, List.length_append, List.length_replicate]
  omega

theorem freeBases_eq (bs : List (Basis K)) (sec : Sec) :
    listCompIf (zip2 bs sec) (fun x5 => do
      let b := x5.1
      let p := x5.2
      pure (decide (p = none), b)) = .ok (Obj.freeBases bs sec) := by
  induction bs generalizing sec with
  | nil => cases sec <;> rfl
  | cons b bs ih =>
    cases sec with
    | nil => rfl
    | cons p r =>
      simp only [zip2, List.zip_cons_cons, listCompIf, pure_eq_ok, ok_bind]
      have := ih r
      unfold zip2 at this
      simp only [pure_eq_ok] at this
      rw [this]
      cases p <;> simp [Obj.freeBases]

theorem resolveSel_length (s : List ℕ) (sec : Sec) (idx : List (Option ℕ)) (h : Obj.resolveSel s sec = .ok idx) :
    idx.length = sec.length := by
  induction sec generalizing s idx with
  | nil => simp [Obj.resolveSel] at h; subst h; rfl
  | cons a r ih =>
    cases s with
    | nil => simp [Obj.resolveSel] at h
    | cons n ns =>
      cases a with
      | none =>
        simp only [Obj.resolveSel] at h
        cases hr : Obj.resolveSel ns r with
        | error e => rw [hr] at h; simp at h
        | ok idx' => rw [hr] at h; simp at h; subst h; simp [ih ns idx' hr]
      | some i =>
        simp only [Obj.resolveSel] at h
        cases hp : pyIndex n i with
        | error e => rw [hp] at h; simp at h
        | ok k =>
          rw [hp] at h
          simp only [] at h
          cases hr : Obj.resolveSel ns r with
          | error e => rw [hr] at h; simp at h
          | ok idx' => rw [hr] at h; simp at h; subst h; simp [ih ns idx' hr]

theorem secShape_last (idx : List (Option ℕ)) (s : List ℕ) (h : idx.length < s.length) (hok : SecOk idx s) :
    secShape idx s ≠ [] ∧ (secShape idx s).getLastD 0 = s.getLastD 0 := by
  induction idx generalizing s with
  | nil =>
    simp only [secShape]
    refine ⟨by intro h0; rw [h0] at h; simp at h, ?_⟩
    trivial
  | cons a r ih =>
    cases s with
    | nil => simp at h
    | cons n ns =>
      have h' : r.length < ns.length := by simpa using h
      have hne : ns ≠ [] := by intro h0; rw [h0] at h'; simp at h'
      have hl : (n :: ns).getLastD 0 = ns.getLastD 0 := by
        cases ns with
        | nil => exact absurd rfl hne
        | cons m ms => simp [List.getLastD_cons]
      cases a with
      | none =>
        obtain ⟨i1, i2⟩ := ih ns h' hok
        simp only [secShape]
        refine ⟨by simp, ?_⟩
        rw [hl, ← i2]
        cases hss : secShape r ns with
        | nil => exact absurd hss i1
        | cons m ms => simp [List.getLastD_cons]
      | some j =>
        obtain ⟨i1, i2⟩ := ih ns h' hok.2
        simp only [secShape]
        exact ⟨i1, by rw [hl, i2]⟩

end Splipy.PyO

namespace Splipy.PyO
open Splipy Splipy.Generated Splipy.C06 Splipy.Sections
variable {K : Type} [Field K] [LinearOrder K] [FloorRing K]

/-- `SplineObject.section(*args, u=…, v=…, w=…, unwrap_points=…)` = `Obj.section`, compared on the content of
    the result (`secOf` / `pyOf`: the class of the returned object is not part of `PyObj`).  Guards: one basis
    per axis, at least one component, and at most `pardim` positional selectors (more would index the
    component axis). -/
theorem _root_.PyObject_section_eq (o : Obj K) (tol : K) (args : Sec) (kwu : Option Bool) (kw : List (ℕ × Sel))
    (hb : o.cps.shape.length = o.bases.size + 1) (hnc : 1 ≤ o.ncomp) (hargs : args.length ≤ o.pardim) :
    (PyObject.«section» (ofObj o) tol args kwu kw).map pyOf
      = (o.«section» args kw (kwu.getD true)).map secOf := by
  have hpd : o.pardim = o.bases.size := by unfold Obj.pardim; omega
  unfold PyObject.«section» Obj.«section»
  simp only [PyObject_pardim_eq o tol (by omega), ok_bind, pyCheckSection_eq]
  cases hcs : checkSection o.pardim args kw with
  | error e => rfl
  | ok sec =>
    have hsl : sec.length = o.pardim := by
      rw [checkSection_length _ _ _ _ hcs]; omega
    simp only [ok_bind, ofObj_bases, ofObj_cps, ofObj_rational]
    rw [listComp_ok sec _ selTok (fun x _ => by cases x <;> rfl)]
    simp only [ok_bind]
    rw [freeBases_eq o.bases.toList sec]
    simp only [ok_bind, npIndex_sec]
    unfold Obj.sectionSel
    cases hrs : Obj.resolveSel o.cps.shape sec with
    | error e =>
      simp only [map_error, error_bind]
      split_ifs <;> rfl
    | ok idx =>
      simp only [map_ok, ok_bind]
      have hok := resolveSel_ok _ _ _ hrs
      have hil := resolveSel_length _ _ _ hrs
      have hsh : (Obj.sliceSec o.cps idx).shape = secShape idx o.cps.shape := by
        have := sliceSecFrom_shape idx o.cps 0 (by omega) (by simpa using hok)
        simpa [Obj.sliceSec] using this
      obtain ⟨hne, hlast⟩ := secShape_last idx o.cps.shape (by rw [hil, hsl]; unfold Obj.pardim; omega) hok
      have hne' : (Obj.sliceSec o.cps idx).shape ≠ [] := by rw [hsh]; exact hne
      have hemp : (Obj.sliceSec o.cps idx).shape.isEmpty = false := by
        cases h : (Obj.sliceSec o.cps idx).shape with
        | nil => exact absurd h hne'
        | cons a l => rfl
      have hncs : 1 ≤ (Obj.sliceSec o.cps idx).shape.getLastD 0 := by rw [hsh, hlast]; exact hnc
      by_cases hcond : Obj.freeBases o.bases.toList sec ≠ [] ∨ ¬ (kwGet kwu true = true)
      · have hcond' : (!(Obj.freeBases o.bases.toList sec).isEmpty) = true ∨ (!(kwu.getD true)) = true := by
          rcases hcond with h | h
          · left
            cases hf : Obj.freeBases o.bases.toList sec with
            | nil => exact absurd hf h
            | cons a l => rfl
          · right
            have h' : ¬ (kwu.getD true = true) := h
            cases hk : kwu.getD true with
            | true => exact absurd hk h'
            | false => rfl
        rw [if_pos hcond, if_pos hcond']
        simp only [hemp, Bool.false_eq_true, if_false]
        by_cases hcls : (1 : Int) ≤ len (Obj.freeBases o.bases.toList sec) ∧ len (Obj.freeBases o.bases.toList sec) ≤ 3
        · rw [if_pos hcls]
          have hc : ctorFirst (len (Obj.freeBases o.bases.toList sec)) = .ok (len (Obj.freeBases o.bases.toList sec)) := by
            unfold ctorFirst; rw [if_pos hcls]
          rw [hc, ok_bind]
          have := mkRaw_ofObj (Obj.freeBases o.bases.toList sec).length (Obj.freeBases o.bases.toList sec).toArray
            (Obj.sliceSec o.cps idx) o.rational (by simp) hne' hncs
          simp only [len] at this ⊢
          rw [this]
          rfl
        · rw [if_neg hcls]
          unfold mkRawObj
          rw [if_neg hne']
          simp only [ok_bind, pure_eq_ok, map_ok, pyOf, secOf]
          congr 2
          unfold ofObj
          simp only [PyObj.mk.injEq, true_and, and_true]
          unfold Obj.dimension Obj.ncomp b2i
          simp only []
          split_ifs <;> omega
      · have hcond' : ¬ ((!(Obj.freeBases o.bases.toList sec).isEmpty) = true ∨ (!(kwu.getD true)) = true) := by
          intro h
          apply hcond
          rcases h with h | h
          · left
            intro hf; rw [hf] at h; simp at h
          · right
            intro hk
            have hk' : kwu.getD true = true := hk
            rw [hk'] at h; simp at h
        rw [if_neg hcond, if_neg hcond']
        rfl

end Splipy.PyO

-- ---------------------------------------------------------------------------- t3b part 22

namespace Splipy.PyO
open Splipy Splipy.Generated Splipy.C06 Splipy.Sections
variable {K : Type} [Field K] [LinearOrder K] [FloorRing K]

/-! ### method: section -/

-- the corner sections: a second statement about the generated `section` (all selectors given, no keywords)

theorem pyCombos_eq (l : List ℕ) (r : ℕ) : pyCombos l r = combos l r := by
  induction l generalizing r with
  | nil => cases r <;> rfl
  | cons x xs ih =>
    cases r with
    | zero => rfl
    | succ r => simp only [pyCombos, combos, ih]

theorem pyProd01_eq (n : ℕ) : pyProd01 n = prodIdx n := by
  induction n with
  | zero => rfl
  | succ n ih => simp only [pyProd01, prodIdx, ih]

theorem pyAssign_eq (a : Sec) (f : List ℕ) (i : List Int) : pyAssign a f i = assign a f i := by
  induction f generalizing a i with
  | nil => cases i <;> rfl
  | cons x xs ih =>
    cases i with
    | nil => rfl
    | cons y ys => simp only [pyAssign, assign, ih]

theorem pySections_eq (pd : ℕ) : pySections (pd : Int) 0 = .ok (sections pd 0) := by
  unfold pySections sections
  have : ¬ ((pd : Int) < 0) := by omega
  simp only [this, if_false, sub_zero, Int.toNat_natCast, Nat.sub_zero, pyCombos_eq, pyProd01_eq, pyAssign_eq]

theorem sliceSecFrom_wf (idx : List (Option ℕ)) (t : Tensor K) (d : ℕ) (hd : d ≤ t.shape.length)
    (hok : SecOk idx (t.shape.drop d)) (hwf : t.data.size = Tensor.prod t.shape) :
    (Obj.sliceSecFrom d idx t).data.size = Tensor.prod (Obj.sliceSecFrom d idx t).shape := by
  induction idx generalizing d with
  | nil => exact hwf
  | cons a r ih =>
    cases hdrop : t.shape.drop d with
    | nil => rw [hdrop] at hok; cases a <;> exact absurd hok (by simp [SecOk])
    | cons n ns =>
      have hfl : d < t.shape.length := by
        by_contra hc
        have : t.shape.drop d = [] := List.drop_eq_nil_of_le (by omega)
        rw [this] at hdrop; cases hdrop
      have hns : t.shape.drop (d + 1) = ns := by
        have := congrArg List.tail hdrop
        simpa [List.tail_drop] using this
      rw [hdrop] at hok
      cases a with
      | none => exact ih (d + 1) (by omega) (by rw [hns]; exact hok)
      | some j =>
        simp only [Obj.sliceSecFrom]
        apply takeAxis_wf
        rw [sliceSecFrom_shape r t (d + 1) (by omega) (by rw [hns]; exact hok.2), List.length_append, List.length_take]
        omega

def AllSome {α : Type} (l : List (Option α)) : Prop := ∀ x ∈ l, x ≠ none

theorem resolveSel_allsome (s : List ℕ) (sec : Sec) (idx : List (Option ℕ)) (h : Obj.resolveSel s sec = .ok idx)
    (ha : AllSome sec) : AllSome idx := by
  induction sec generalizing s idx with
  | nil => simp [Obj.resolveSel] at h; subst h; intro x hx; simp at hx
  | cons a r ih =>
    cases s with
    | nil => simp [Obj.resolveSel] at h
    | cons n ns =>
      cases a with
      | none => exact absurd rfl (ha none (by simp))
      | some i =>
        simp only [Obj.resolveSel] at h
        cases hp : pyIndex n i with
        | error e => rw [hp] at h; simp at h
        | ok k =>
          rw [hp] at h
          simp only [] at h
          cases hr : Obj.resolveSel ns r with
          | error e => rw [hr] at h; simp at h
          | ok idx' =>
            rw [hr] at h; simp at h; subst h
            intro x hx
            rcases List.mem_cons.mp hx with rfl | hx
            · simp
            · exact ih ns idx' hr (fun y hy => ha y (by simp [hy])) x hx

theorem secShape_allsome (idx : List (Option ℕ)) (s : List ℕ) (hl : idx.length + 1 = s.length) (ha : AllSome idx) :
    secShape idx s = [s.getLastD 0] := by
  induction idx generalizing s with
  | nil =>
    match s, hl with
    | [n], _ => rfl
  | cons a r ih =>
    cases s with
    | nil => simp at hl
    | cons n ns =>
      cases a with
      | none => exact absurd rfl (ha none (by simp))
      | some j =>
        simp only [secShape]
        have hl' : r.length + 1 = ns.length := by simpa using hl
        rw [ih ns hl' (fun y hy => ha y (by simp [hy]))]
        cases ns with
        | nil => simp at hl'
        | cons m ms => simp [List.getLastD_cons]

theorem freeBases_allsome (bs : List (Basis K)) (sec : Sec) (ha : AllSome sec) : Obj.freeBases bs sec = [] := by
  induction bs generalizing sec with
  | nil => cases sec <;> rfl
  | cons b bs ih =>
    cases sec with
    | nil => rfl
    | cons p r =>
      cases p with
      | none => exact absurd rfl (ha none (by simp))
      | some i => simp only [Obj.freeBases]; exact ih r (fun y hy => ha y (by simp [hy]))

end Splipy.PyO

namespace Splipy.PyO
open Splipy Splipy.Generated Splipy.C06 Splipy.Sections
variable {K : Type} [Field K] [LinearOrder K] [FloorRing K]

/-- one row of the hand model's `corners` -/
def rowOf (o : Obj K) (sec : Sec) : PyM (Array K) := do
  let r ← o.sectionSel sec true
  match r with
  | .point a => pure a
  | .obj _ ob => pure ob.cps.data

theorem checkSection_nil (pd : ℕ) (sec : Sec) (h : sec.length = pd) : checkSection pd sec [] = .ok sec := by
  unfold checkSection
  simp [h]

theorem corner_row (o : Obj K) (tol : K) (sec : Sec) (hb : o.cps.shape.length = o.bases.size + 1)
    (hwf : o.cps.data.size = Tensor.prod o.cps.shape) (hl : sec.length = o.pardim) (ha : AllSome sec) :
    PyObject.«section» (ofObj o) tol sec none [] = (rowOf o sec).map (fun a => PySec.point ⟨[o.ncomp], a⟩) ∧
    ∀ a, rowOf o sec = .ok a → a.size = o.ncomp := by
  have hpd : o.pardim = o.bases.size := by unfold Obj.pardim; omega
  unfold PyObject.«section» rowOf Obj.sectionSel
  simp only [PyObject_pardim_eq o tol (by omega), ok_bind, pyCheckSection_eq, checkSection_nil _ _ hl,
    ofObj_bases, ofObj_cps, ofObj_rational]
  rw [listComp_ok sec _ selTok (fun x _ => by cases x <;> rfl)]
  simp only [ok_bind]
  rw [freeBases_eq o.bases.toList sec, freeBases_allsome _ _ ha]
  simp only [ok_bind, npIndex_sec]
  cases hrs : Obj.resolveSel o.cps.shape sec with
  | error e =>
    refine ⟨?_, fun a h => by simp at h⟩
    simp only [map_error, error_bind]
    split_ifs <;> rfl
  | ok idx =>
    have hok := resolveSel_ok _ _ _ hrs
    have hil := resolveSel_length _ _ _ hrs
    have hai := resolveSel_allsome _ _ _ hrs ha
    have hsh : (Obj.sliceSec o.cps idx).shape = [o.ncomp] := by
      have := sliceSecFrom_shape idx o.cps 0 (by omega) (by simpa using hok)
      simp only [List.take_zero, List.nil_append, List.drop_zero] at this
      rw [Obj.sliceSec, this, secShape_allsome idx o.cps.shape (by rw [hil, hl]; unfold Obj.pardim; omega) hai]
      rfl
    have hsz : (Obj.sliceSec o.cps idx).data.size = o.ncomp := by
      have := sliceSecFrom_wf idx o.cps 0 (by omega) (by simpa using hok) hwf
      rw [Obj.sliceSec, this]
      have h2 : (Obj.sliceSecFrom 0 idx o.cps).shape = [o.ncomp] := hsh
      rw [h2]; simp [Tensor.prod]
    have hc1 : ¬ (([] : List (Basis K)) ≠ [] ∨ ¬ (kwGet (none : Option Bool) true = true)) := by
      simp [kwGet]
    simp only [map_ok, ok_bind]
    rw [if_neg hc1]
    simp only [List.isEmpty_nil, Bool.not_true, Bool.false_eq_true, Bool.not_false, or_self, if_false, pure_eq_ok,
      ok_bind, map_ok]
    refine ⟨?_, fun a h => by cases h; exact hsz⟩
    congr 2
    cases hT : Obj.sliceSec o.cps idx with
    | mk sh dat =>
      rw [hT] at hsh
      simp only at hsh
      rw [hsh]

end Splipy.PyO

-- ---------------------------------------------------------------------------- t3b part 23

namespace Splipy.PyO
open Splipy Splipy.Generated Splipy.C06 Splipy.Sections
variable {K : Type} [Field K] [LinearOrder K] [FloorRing K]

/-! ## `corners`: filling the rows (no generated code) -/

theorem ofFn_getD_self (a : Array K) (n : ℕ) (ha : a.size = n) :
    Array.ofFn (n := n) (fun j => a.getD j.val 0) = a := by
  apply Array.ext (by simp [ha])
  intro j hj1 hj2
  simp [Array.getD, hj2]

theorem matSetRow_point (M : Mat K) (i : ℕ) (hi : i < M.size) (n : ℕ) (hrow : (M.getD i #[]).size = n)
    (a : Array K) (ha : a.size = n) :
    matSetRowSec M (i : Int) (.point ⟨[n], a⟩) = .ok (M.set! i a) := by
  unfold matSetRowSec
  simp only [normIdx_nat hi]
  generalize hnn : (M.getD i #[]).size = m
  have hmn : m = n := by rw [← hnn]; exact hrow
  subst hmn
  by_cases h1 : m = 1
  · subst h1
    have : List.dropWhile (fun x => decide (x = 1)) [1] = [] := by simp
    simp only [this]
    rw [if_pos trivial, if_neg (by simp)]
    congr 2
    apply Array.ext (by simp [ha])
    intro j hj1 hj2
    have hj : j = 0 := by simp at hj1; omega
    subst hj
    simp [Array.getD, ha]
  · have : List.dropWhile (fun x => decide (x = 1)) [m] = [m] := by simp [h1]
    simp only [this]
    rw [if_pos trivial, ofFn_getD_self a m ha]

/-- rows `k, k+1, …` of `M` overwritten by `rows` -/
def writeRows (M : Mat K) (k : ℕ) : List (Array K) → Mat K
  | [] => M
  | a :: rows => writeRows (M.set! k a) (k + 1) rows

theorem writeRows_toList (M : Mat K) (k : ℕ) (rows : List (Array K)) (h : k + rows.length ≤ M.size) :
    (writeRows M k rows).toList = M.toList.take k ++ rows ++ M.toList.drop (k + rows.length) := by
  induction rows generalizing M k with
  | nil => simp [writeRows]
  | cons a rows ih =>
    simp only [writeRows, List.length_cons] at h ⊢
    rw [ih (M.set! k a) (k + 1) (by simp; omega)]
    have hk : k < M.size := by omega
    simp only [Array.set!_eq_setIfInBounds, Array.toList_setIfInBounds]
    rw [List.take_set, List.drop_set]
    have e1 : (M.toList.take (k + 1)).set k a = M.toList.take k ++ [a] := by
      apply List.ext_getElem?
      intro j
      simp only [List.getElem?_set, List.getElem?_take, List.getElem?_append, List.length_take]
      have hm : min k M.toList.length = k := by simp; omega
      simp only [hm]
      by_cases hj : j < k
      · have : ¬ k = j := by omega
        simp [hj, this, (by omega : j < k + 1)]
      · by_cases hj2 : j = k
        · subst hj2; simp [hk]
        · have h3 : ¬ (j < k + 1) := by omega
          have h4 : ¬ (k = j) := fun h => hj2 h.symm
          simp [hj, h3, h4]
          omega
    rw [e1, if_pos (by omega)]
    simp [Nat.add_comm 1, Nat.add_assoc]

theorem writeRows_all (M : Mat K) (rows : List (Array K)) (h : rows.length = M.size) :
    writeRows M 0 rows = rows.toArray := by
  apply Array.ext'
  rw [writeRows_toList M 0 rows (by omega)]
  simp [h]

end Splipy.PyO

namespace Splipy.PyO
open Splipy Splipy.Generated Splipy.C06 Splipy.Sections
variable {K : Type} [Field K] [LinearOrder K] [FloorRing K]

/-- the row loop with the generated body abstracted: `body (i, x) M` writes `f x` into row `i` -/
theorem row_loop {α : Type} (f : α → PyM (Array K)) (n : ℕ) (body : Int × α → Mat K → PyM (Mat K)) :
    ∀ (xs : List α) (k : ℕ) (M : Mat K), k + xs.length ≤ M.size → (∀ i, i < M.size → (M.getD i #[]).size = n) →
    (∀ x ∈ xs, ∀ a, f x = .ok a → a.size = n) →
    (∀ x ∈ xs, ∀ (i : ℕ) (M : Mat K), i < M.size → (∀ i, i < M.size → (M.getD i #[]).size = n) →
      body ((i : Int), x) M = (f x >>= fun a => .ok (M.set! i a))) →
    forEach ((List.zip (List.range' k xs.length) xs).map (fun x => (((x.1 : ℕ) : Int), x.2))) M body
      = (xs.mapM f).map (fun rows => writeRows M k rows) := by
  intro xs
  induction xs with
  | nil => intro k M _ _ _ _; rfl
  | cons x xs ih =>
    intro k M hk hM hf hbody
    simp only [List.length_cons] at hk
    simp only [List.length_cons, List.range'_succ, List.zip_cons_cons, List.map_cons, forEach, List.foldlM_cons,
      List.mapM_cons]
    rw [hbody x (by simp) k M (by omega) hM]
    cases hfx : f x with
    | error e => rfl
    | ok a =>
      simp only [ok_bind]
      have ha := hf x (by simp) a hfx
      have hM' : ∀ i, i < (M.set! k a).size → ((M.set! k a).getD i #[]).size = n := by
        intro i hi
        have hi' : i < M.size := by simpa using hi
        by_cases hik : i = k
        · subst hik; simp [Array.getD, hi', ha]
        · have := hM i hi'
          simp only [Array.getD, hi', dif_pos] at this
          simp [Array.getD, hi', Array.getElem_setIfInBounds, hik, Ne.symm hik]
          exact this
      have := ih (k + 1) (M.set! k a) (by simp; omega) hM' (fun y hy => hf y (by simp [hy]))
        (fun y hy => hbody y (by simp [hy]))
      unfold forEach at this
      rw [this]
      cases xs.mapM f <;> rfl

end Splipy.PyO

namespace Splipy.PyO
open Splipy Splipy.Generated Splipy.C06 Splipy.Sections
variable {K : Type} [Field K] [LinearOrder K] [FloorRing K]

/-! ### method: corners -/

theorem sections_facts (pd : ℕ) (h : pd ≤ 3) :
    (sections pd 0).length = 2 ^ pd ∧ ∀ sec ∈ sections pd 0, sec.length = pd ∧ AllSome sec := by
  unfold AllSome
  interval_cases pd <;> decide

theorem mapM_length {α β : Type} (f : α → PyM β) (xs : List α) (ys : List β) (h : xs.mapM f = .ok ys) :
    ys.length = xs.length := by
  induction xs generalizing ys with
  | nil => simp at h; cases h; rfl
  | cons x xs ih =>
    simp only [List.mapM_cons] at h
    cases hx : f x with
    | error e => rw [hx] at h; simp at h
    | ok y =>
      rw [hx] at h
      simp only [ok_bind] at h
      cases hxs : xs.mapM f with
      | error e => rw [hxs] at h; simp at h
      | ok ys' =>
        rw [hxs] at h
        simp at h
        cases h
        simp [ih ys' hxs]

/-- `SplineObject.corners(order)` = `Obj.corners` (the 2-d result array read as the model's tensor).  Guards: one
    basis per axis, at most three parametric directions, well-formed control array. -/
theorem _root_.PyObject_corners_eq (o : Obj K) (tol : K) (order : String)
    (hb : o.cps.shape.length = o.bases.size + 1) (hd3 : o.bases.size ≤ 3) (hnc : 1 ≤ o.ncomp)
    (hwf : o.cps.data.size = Tensor.prod o.cps.shape) :
    (PyObject.corners (ofObj o) tol order).map (fun M => tensorOfMat M [2 ^ o.pardim, o.ncomp])
      = o.corners (decide (order = "F")) := by
  have hpd : o.pardim = o.bases.size := by unfold Obj.pardim; omega
  obtain ⟨hslen, hsall⟩ := sections_facts o.pardim (by omega)
  unfold PyObject.corners
  simp only [PyObject_pardim_eq o tol (by omega), ok_bind, ofObj_dimension, ofObj_rational, pySections_eq]
  have hpow : intPow (2 : Int) (o.pardim : Int) = .ok (((2 ^ o.pardim : ℕ)) : Int) := by
    unfold intPow
    have : ¬ ((o.pardim : Int) < 0) := by omega
    simp [this]
  rw [hpow, ok_bind, ncomp_eq o hnc]
  have hz : npZeros2 (K := K) ((2 ^ o.pardim : ℕ) : Int) ((o.ncomp : ℕ) : Int)
      = .ok (Array.replicate (2 ^ o.pardim) (Array.replicate o.ncomp 0)) := by
    unfold npZeros2
    have h1 : ¬ ((((2 ^ o.pardim : ℕ)) : Int) < 0 ∨ ((o.ncomp : ℕ) : Int) < 0) := by omega
    rw [if_neg h1]
    simp only [Int.toNat_natCast]
  rw [hz, ok_bind]
  have henum : pyEnumerate (sections o.pardim 0)
      = (List.zip (List.range' 0 (sections o.pardim 0).length) (sections o.pardim 0)).map
          (fun x => (((x.1 : ℕ) : Int), x.2)) := by
    unfold pyEnumerate
    rw [List.range_eq_range']
  rw [henum]
  set M0 : Mat K := Array.replicate (2 ^ o.pardim) (Array.replicate o.ncomp 0) with hM0
  have hloop := row_loop (fun args => rowOf o (if order = "F" then args.reverse else args)) o.ncomp
    (fun x6 st6 => do
      let tmp7 ← PyObject.«section» (ofObj o) tol (if (order = "F") then (reversed x6.2) else x6.2) none []
      let result ← matSetRowSec st6 x6.1 tmp7
      pure result)
    (sections o.pardim 0) 0 M0 (by simp [hM0, hslen])
    (by intro i hi; simp [hM0] at hi ⊢; simp [Array.getD, hi])
    (by
      intro sec hsec a ha
      obtain ⟨hl, hall⟩ := hsall sec hsec
      have hsec' : (if order = "F" then sec.reverse else sec).length = o.pardim ∧
          AllSome (if order = "F" then sec.reverse else sec) := by
        split_ifs
        · exact ⟨by simp [hl], fun x hx => hall x (by simpa using hx)⟩
        · exact ⟨hl, hall⟩
      exact (corner_row o tol _ hb hwf hsec'.1 hsec'.2).2 a ha)
    (by
      intro sec hsec i M hi hM
      obtain ⟨hl, hall⟩ := hsall sec hsec
      have hsec' : (if order = "F" then sec.reverse else sec).length = o.pardim ∧
          AllSome (if order = "F" then sec.reverse else sec) := by
        split_ifs
        · exact ⟨by simp [hl], fun x hx => hall x (by simpa using hx)⟩
        · exact ⟨hl, hall⟩
      obtain ⟨hc1, hc2⟩ := corner_row o tol _ hb hwf hsec'.1 hsec'.2
      simp only [reversed]
      rw [hc1]
      cases hr : rowOf o (if order = "F" then sec.reverse else sec) with
      | error e => rfl
      | ok a =>
        simp only [map_ok, ok_bind]
        rw [matSetRow_point M i hi o.ncomp (hM i hi) a (hc2 a hr)])
  rw [hloop]
  unfold Obj.corners
  show _ = (do
    let rows ← (sections o.pardim 0).mapM (fun (args : Sec) => rowOf o (if decide (order = "F") = true then args.reverse else args))
    pure ({ shape := [2 ^ o.pardim, o.ncomp], data := rows.foldl (· ++ ·) #[] } : Tensor K))
  simp only [decide_eq_true_eq]
  cases hm : (sections o.pardim 0).mapM (fun (args : Sec) => rowOf o (if order = "F" then args.reverse else args)) with
  | error e => rfl
  | ok rows =>
    have hrl := mapM_length _ _ _ hm
    simp only [map_ok, ok_bind, pure_eq_ok]
    rw [writeRows_all M0 rows (by rw [hrl, hslen]; simp [hM0])]
    congr 1
    unfold tensorOfMat
    simp

end Splipy.PyO
