import Mathlib.Algebra.Order.Field.Basic
import Mathlib.Algebra.Order.AbsoluteValue.Basic
import Mathlib.Tactic.Linarith
import Splipy.Lemmas.C20Bisect
import Splipy.Model.Tolerance

/-!
# `snap`, `_validate_domain` and `continuity` honour the knot tolerance (C20)
-/

namespace Splipy.C20

open Splipy Splipy.Tol

variable {K : Type} [Field K] [LinearOrder K] [IsStrictOrderedRing K]

/-- The knot array is non-decreasing. -/
def KnotsSorted (b : Basis K) : Prop := MonoOn b.kn b.size

/-- Any two knots are equal or at least `2·tol` apart. -/
def KnotsSeparated (b : Basis K) (tol : K) : Prop :=
  ∀ i j, i < b.size → j < b.size → b.kn i = b.kn j ∨ 2 * tol ≤ |b.kn i - b.kn j|

/-- multiplicity of the value `τ` in the knot array -/
def mult (b : Basis K) (τ : K) : ℕ := ((Finset.range b.size).filter (fun i => b.kn i = τ)).card

omit [IsStrictOrderedRing K] in
theorem eq_of_close {b : Basis K} {tol : K} (hsep : KnotsSeparated b tol) {i j : ℕ}
    (hi : i < b.size) (hj : j < b.size) (h : |b.kn i - b.kn j| < 2 * tol) : b.kn i = b.kn j := by
  rcases hsep i j hi hj with h' | h'
  · exact h'
  · exact absurd h (not_lt.2 h')

/-- A parameter strictly within `tol` of a knot is snapped to that knot. -/
theorem snap_of_near (b : Basis K) (tol t : K) (hsorted : KnotsSorted b)
    (hsep : KnotsSeparated b tol) {j : ℕ} (hj : j < b.size) (hnear : |t - b.kn j| < tol) :
    snap b tol t = b.kn j := by
  obtain ⟨hn1, hn2⟩ := abs_lt.1 hnear
  obtain ⟨hle, hlow, hhigh⟩ := bisectLeft_spec b.kn t b.size hsorted
  have hsize : b.knots.size = b.size := rfl
  unfold snap
  simp only [hsize]
  set i := bisectLeft b.kn t b.size with hi
  by_cases h1 : i < b.size ∧ |b.kn i - t| < tol
  · rw [if_pos h1]
    apply eq_of_close hsep h1.1 hj
    obtain ⟨a1, a2⟩ := abs_lt.1 h1.2
    exact abs_lt.2 ⟨by linarith, by linarith⟩
  · rw [if_neg h1]
    by_cases h2 : 0 < i ∧ |b.kn (i - 1) - t| < tol
    · rw [if_pos h2]
      apply eq_of_close hsep (by omega) hj
      obtain ⟨a1, a2⟩ := abs_lt.1 h2.2
      exact abs_lt.2 ⟨by linarith, by linarith⟩
    · exfalso
      by_cases hji : i ≤ j
      · -- t ≤ kn i ≤ kn j < t + tol
        have hin : i < b.size := lt_of_le_of_lt hji hj
        have h3 : t ≤ b.kn i := hhigh i (le_refl _) hin
        have h4 : b.kn i ≤ b.kn j := hsorted i j hji hj
        exact h1 ⟨hin, abs_lt.2 ⟨by linarith, by linarith⟩⟩
      · -- t - tol < kn j ≤ kn (i-1) < t
        have hpos : 0 < i := by omega
        have h3 : b.kn (i - 1) < t := hlow (i - 1) (by omega)
        have h4 : b.kn j ≤ b.kn (i - 1) := hsorted j (i - 1) (by omega) (by omega)
        exact h2 ⟨hpos, abs_lt.2 ⟨by linarith, by linarith⟩⟩

omit [IsStrictOrderedRing K] in
/-- With no knot strictly within `tol`, `snap` leaves the parameter alone (no hypothesis on the
    knot vector is needed). -/
theorem snap_of_far (b : Basis K) (tol t : K) (hfar : ∀ i, i < b.size → tol ≤ |b.kn i - t|) :
    snap b tol t = t := by
  have hsize : b.knots.size = b.size := rfl
  unfold snap
  simp only [hsize]
  set i := bisectLeft b.kn t b.size with hi
  have h1 : ¬ (i < b.size ∧ |b.kn i - t| < tol) := fun h => absurd h.2 (not_lt.2 (hfar i h.1))
  rw [if_neg h1]
  by_cases h2 : 0 < i ∧ |b.kn (i - 1) - t| < tol
  · exfalso
    have hle : i ≤ b.size := (bisectLeft_spec' b t).1
    exact absurd h2.2 (not_lt.2 (hfar (i - 1) (by omega)))
  · rw [if_neg h2]
where
  bisectLeft_spec' (b : Basis K) (t : K) : bisectLeft b.kn t b.size ≤ b.size ∧ True := by
    refine ⟨?_, trivial⟩
    -- the result of the search never exceeds `hi`, sorted or not
    have : ∀ d lo hi, hi - lo = d → lo ≤ hi → bisectLeftAux b.kn t lo hi ≤ hi := by
      intro d
      induction d using Nat.strong_induction_on with
      | _ d ih =>
        intro lo hi hd hle
        unfold bisectLeftAux
        by_cases hlt : lo < hi
        · simp only [hlt, ↓reduceDIte]
          by_cases hc : b.kn ((lo + hi) / 2) < t
          · simp only [hc, ↓reduceIte]
            exact ih (hi - ((lo + hi) / 2 + 1)) (by omega) _ _ rfl (by omega)
          · simp only [hc, ↓reduceIte]
            exact le_trans (ih ((lo + hi) / 2 - lo) (by omega) _ _ rfl (by omega)) (by omega)
        · simp only [hlt, ↓reduceDIte]; exact hle
    exact this _ 0 b.size rfl (Nat.zero_le _)

/-- Snapping is idempotent on knots: a knot is snapped to itself (`tol > 0`). -/
theorem snap_knot (b : Basis K) (tol : K) (htol : 0 < tol) (hsorted : KnotsSorted b)
    (hsep : KnotsSeparated b tol) {j : ℕ} (hj : j < b.size) : snap b tol (b.kn j) = b.kn j :=
  snap_of_near b tol (b.kn j) hsorted hsep hj (by simpa using htol)

/-- Evaluation (any derivative order, either side) at a parameter within `tol` of a knot *is*
    evaluation at that knot. -/
theorem evaluate_of_near [FloorRing K] (b : Basis K) (tol t : K) (htol : 0 < tol)
    (hsorted : KnotsSorted b) (hsep : KnotsSeparated b tol) {j : ℕ} (hj : j < b.size)
    (hnear : |t - b.kn j| < tol) (d : ℕ) (fromRight : Bool) :
    b.evaluate tol t d fromRight = b.evaluate tol (b.kn j) d fromRight ∧
    b.evaluateSparse tol t d fromRight = b.evaluateSparse tol (b.kn j) d fromRight := by
  unfold Basis.evaluate Basis.evaluateSparse
  rw [snap_of_near b tol t hsorted hsep hj hnear, snap_knot b tol htol hsorted hsep hj]
  exact ⟨rfl, rfl⟩

/-- `_validate_domain` accepts parameters that are in the domain *after* identification with
    the knot they are within `tol` of — in particular fuzz just outside either end. -/
theorem validateDomain_of_near (b : Basis K) (tol : K) (hsorted : KnotsSorted b)
    (hsep : KnotsSeparated b tol) (hord : 0 < b.order) (hsz : b.order ≤ b.size)
    (ts : List K) (hne : ts ≠ [])
    (h : ∀ t ∈ ts, (b.start ≤ t ∧ t ≤ b.stop) ∨
        ∃ j, j < b.size ∧ |t - b.kn j| < tol ∧ b.start ≤ b.kn j ∧ b.kn j ≤ b.stop) :
    validateDomain b tol ts = .ok (ts.map (snap b tol)) := by
  -- every snapped parameter lies in the domain
  have hin : ∀ t ∈ ts, b.start ≤ snap b tol t ∧ snap b tol t ≤ b.stop := by
    intro t ht
    rcases h t ht with hd | ⟨j, hj, hnear, hs, he⟩
    · -- in the domain: snapping moves it to a knot within tol or not at all
      by_cases hex : ∃ j, j < b.size ∧ |t - b.kn j| < tol
      · obtain ⟨j, hj, hnear⟩ := hex
        rw [snap_of_near b tol t hsorted hsep hj hnear]
        -- that knot is within the domain or equal to an end: use separation against the end knots
        have key : ∀ e, e < b.size → (b.kn e ≤ t → b.kn e ≤ b.kn j) ∧ (t ≤ b.kn e → b.kn j ≤ b.kn e) := by
          intro e he
          obtain ⟨a1, a2⟩ := abs_lt.1 hnear
          constructor
          · intro hle
            by_contra hc
            have hlt : b.kn j < b.kn e := not_le.1 hc
            have : b.kn e = b.kn j := eq_of_close hsep he hj (abs_lt.2 ⟨by linarith, by linarith⟩)
            exact absurd this (ne_of_gt hlt)
          · intro hle
            by_contra hc
            have hlt : b.kn e < b.kn j := not_le.1 hc
            have : b.kn e = b.kn j := eq_of_close hsep he hj (abs_lt.2 ⟨by linarith, by linarith⟩)
            exact absurd this (ne_of_lt hlt)
        have hs1 : b.order - 1 < b.size := by omega
        have hs2 : b.knots.size - b.order < b.size := by unfold Basis.size at *; omega
        exact ⟨(key _ hs1).1 hd.1, (key _ hs2).2 hd.2⟩
      · have hfar : ∀ i, i < b.size → tol ≤ |b.kn i - t| := by
          intro i hi
          by_contra hc
          exact hex ⟨i, hi, by rw [abs_sub_comm]; exact not_le.1 hc⟩
        rw [snap_of_far b tol t hfar]; exact hd
    · rw [snap_of_near b tol t hsorted hsep hj hnear]; exact ⟨hs, he⟩
  unfold validateDomain
  simp only
  split_ifs with hper hbad
  · exfalso
    rcases hbad with h0 | h1 | h2
    · simp at h0; exact hne h0
    · obtain ⟨x, hx, hlt⟩ := List.any_eq_true.1 h1
      obtain ⟨t, ht, rfl⟩ := List.mem_map.1 hx
      exact absurd (of_decide_eq_true hlt) (not_lt.2 (hin t ht).1)
    · obtain ⟨x, hx, hlt⟩ := List.any_eq_true.1 h2
      obtain ⟨t, ht, rfl⟩ := List.mem_map.1 hx
      exact absurd (of_decide_eq_true hlt) (not_lt.2 (hin t ht).2)
  · rfl
  · rfl

/-- `continuity` at an in-domain parameter within `tol` of a knot of multiplicity `m` is
    `p - m - 1`. -/
theorem continuity_of_near [FloorRing K] (b : Basis K) (tol t : K) (hsorted : KnotsSorted b)
    (hsep : KnotsSeparated b tol) (hdom : b.start ≤ t ∧ t ≤ b.stop) {j : ℕ} (hj : j < b.size)
    (hnear : |t - b.kn j| < tol) :
    continuity b tol t = .ok (some ((b.order : ℤ) - (mult b (b.kn j) : ℤ) - 1)) := by
  obtain ⟨hn1, hn2⟩ := abs_lt.1 hnear
  have htol : 0 < tol := lt_of_le_of_lt (abs_nonneg _) hnear
  have hwin := bisectLeft_window b.kn (t - tol) (t + tol) b.size hsorted (by linarith)
  have hcard := bisectLeft_window_card b.kn (t - tol) (t + tol) b.size hsorted (by linarith)
  -- the window contains exactly the copies of the knot
  have hset : ((Finset.range b.size).filter (fun i => t - tol ≤ b.kn i ∧ b.kn i < t + tol)) =
      ((Finset.range b.size).filter (fun i => b.kn i = b.kn j)) := by
    ext i
    simp only [Finset.mem_filter, Finset.mem_range]
    constructor
    · rintro ⟨hi, a1, a2⟩
      exact ⟨hi, eq_of_close hsep hi hj (abs_lt.2 ⟨by linarith, by linarith⟩)⟩
    · rintro ⟨hi, he⟩
      exact ⟨hi, by rw [he]; linarith, by rw [he]; linarith⟩
  have hm : mult b (b.kn j) = bisectLeft b.kn (t + tol) b.size - bisectLeft b.kn (t - tol) b.size := by
    unfold mult; rw [← hset, hcard]
  have hpos : 0 < mult b (b.kn j) := by
    unfold mult
    exact Finset.card_pos.2 ⟨j, by simp [hj]⟩
  have hne : bisectLeft b.kn (t + tol) b.size ≠ bisectLeft b.kn (t - tol) b.size := by omega
  have hnot1 : ¬ (b.periodic < 0 ∧ (t < b.start - tol ∨ b.stop + tol < t)) := by
    rintro ⟨_, h | h⟩
    · exact absurd h (not_lt.2 (by linarith [hdom.1]))
    · exact absurd h (not_lt.2 (by linarith [hdom.2]))
  have hnot2 : ¬ (b.periodic ≥ 0 ∧ (t < b.start ∨ t > b.stop)) := by
    rintro ⟨_, h | h⟩
    · exact absurd h (not_lt.2 hdom.1)
    · exact absurd h (not_lt.2 hdom.2)
  unfold continuity
  simp only [hnot1, hnot2, if_false, hne]
  have : ((bisectLeft b.kn (t + tol) b.size : ℕ) : ℤ) - (bisectLeft b.kn (t - tol) b.size : ℤ) =
      (mult b (b.kn j) : ℤ) := by
    rw [hm, Nat.cast_sub hwin.1]
  rw [this]; rfl

/-- `continuity` at an in-domain parameter with no knot in the window `[t - tol, t + tol)` is
    `inf`. -/
theorem continuity_of_far [FloorRing K] (b : Basis K) (tol t : K) (htol : 0 ≤ tol)
    (hsorted : KnotsSorted b) (hdom : b.start ≤ t ∧ t ≤ b.stop)
    (hfar : ∀ i, i < b.size → b.kn i < t - tol ∨ t + tol ≤ b.kn i) :
    continuity b tol t = .ok none := by
  have hwin := bisectLeft_window b.kn (t - tol) (t + tol) b.size hsorted (by linarith)
  have hcard := bisectLeft_window_card b.kn (t - tol) (t + tol) b.size hsorted (by linarith)
  have hempty : ((Finset.range b.size).filter (fun i => t - tol ≤ b.kn i ∧ b.kn i < t + tol)) = ∅ := by
    apply Finset.filter_eq_empty_iff.2
    intro i hi
    rcases hfar i (Finset.mem_range.1 hi) with h | h
    · exact fun hc => absurd h (not_lt.2 hc.1)
    · exact fun hc => absurd hc.2 (not_lt.2 h)
  rw [hempty, Finset.card_empty] at hcard
  have heq : bisectLeft b.kn (t + tol) b.size = bisectLeft b.kn (t - tol) b.size := by
    have := hwin.1; omega
  have hnot1 : ¬ (b.periodic < 0 ∧ (t < b.start - tol ∨ b.stop + tol < t)) := by
    rintro ⟨_, h | h⟩
    · exact absurd h (not_lt.2 (by linarith [hdom.1]))
    · exact absurd h (not_lt.2 (by linarith [hdom.2]))
  have hnot2 : ¬ (b.periodic ≥ 0 ∧ (t < b.start ∨ t > b.stop)) := by
    rintro ⟨_, h | h⟩
    · exact absurd h (not_lt.2 hdom.1)
    · exact absurd h (not_lt.2 hdom.2)
  unfold continuity
  simp only [hnot1, hnot2, if_false, heq, if_true]
  rfl

/-- (tolerance-widened domain for non-periodic bases) `continuity` at a parameter within `tol` of a knot of multiplicity `m` is
    `p - m - 1`. -/
theorem continuity_of_near' [FloorRing K] (b : Basis K) (tol t : K) (hsorted : KnotsSorted b)
    (hsep : KnotsSeparated b tol) (hdom : (b.start ≤ t ∧ t ≤ b.stop) ∨ (b.periodic < 0 ∧ b.start - tol ≤ t ∧ t ≤ b.stop + tol)) {j : ℕ} (hj : j < b.size)
    (hnear : |t - b.kn j| < tol) :
    continuity b tol t = .ok (some ((b.order : ℤ) - (mult b (b.kn j) : ℤ) - 1)) := by
  obtain ⟨hn1, hn2⟩ := abs_lt.1 hnear
  have htol : 0 < tol := lt_of_le_of_lt (abs_nonneg _) hnear
  have hwin := bisectLeft_window b.kn (t - tol) (t + tol) b.size hsorted (by linarith)
  have hcard := bisectLeft_window_card b.kn (t - tol) (t + tol) b.size hsorted (by linarith)
  -- the window contains exactly the copies of the knot
  have hset : ((Finset.range b.size).filter (fun i => t - tol ≤ b.kn i ∧ b.kn i < t + tol)) =
      ((Finset.range b.size).filter (fun i => b.kn i = b.kn j)) := by
    ext i
    simp only [Finset.mem_filter, Finset.mem_range]
    constructor
    · rintro ⟨hi, a1, a2⟩
      exact ⟨hi, eq_of_close hsep hi hj (abs_lt.2 ⟨by linarith, by linarith⟩)⟩
    · rintro ⟨hi, he⟩
      exact ⟨hi, by rw [he]; linarith, by rw [he]; linarith⟩
  have hm : mult b (b.kn j) = bisectLeft b.kn (t + tol) b.size - bisectLeft b.kn (t - tol) b.size := by
    unfold mult; rw [← hset, hcard]
  have hpos : 0 < mult b (b.kn j) := by
    unfold mult
    exact Finset.card_pos.2 ⟨j, by simp [hj]⟩
  have hne : bisectLeft b.kn (t + tol) b.size ≠ bisectLeft b.kn (t - tol) b.size := by omega
  have hnot1 : ¬ (b.periodic < 0 ∧ (t < b.start - tol ∨ b.stop + tol < t)) := by
    rintro ⟨_, h | h⟩
    · rcases hdom with hd | hd
      · exact absurd h (not_lt.2 (by linarith [hd.1]))
      · exact absurd h (not_lt.2 hd.2.1)
    · rcases hdom with hd | hd
      · exact absurd h (not_lt.2 (by linarith [hd.2]))
      · exact absurd h (not_lt.2 hd.2.2)
  have hnot2 : ¬ (b.periodic ≥ 0 ∧ (t < b.start ∨ t > b.stop)) := by
    rintro ⟨hp, h | h⟩
    · rcases hdom with hd | hd
      · exact absurd h (not_lt.2 hd.1)
      · exact absurd hp (by have := hd.1; omega)
    · rcases hdom with hd | hd
      · exact absurd h (not_lt.2 hd.2)
      · exact absurd hp (by have := hd.1; omega)
  unfold continuity
  simp only [hnot1, hnot2, if_false, hne]
  have : ((bisectLeft b.kn (t + tol) b.size : ℕ) : ℤ) - (bisectLeft b.kn (t - tol) b.size : ℤ) =
      (mult b (b.kn j) : ℤ) := by
    rw [hm, Nat.cast_sub hwin.1]
  rw [this]; rfl

/-- (tolerance-widened domain for non-periodic bases) `continuity` at a parameter with no knot in the window `[t - tol, t + tol)` is
    `inf`. -/
theorem continuity_of_far' [FloorRing K] (b : Basis K) (tol t : K) (htol : 0 ≤ tol)
    (hsorted : KnotsSorted b) (hdom : (b.start ≤ t ∧ t ≤ b.stop) ∨ (b.periodic < 0 ∧ b.start - tol ≤ t ∧ t ≤ b.stop + tol))
    (hfar : ∀ i, i < b.size → b.kn i < t - tol ∨ t + tol ≤ b.kn i) :
    continuity b tol t = .ok none := by
  have hwin := bisectLeft_window b.kn (t - tol) (t + tol) b.size hsorted (by linarith)
  have hcard := bisectLeft_window_card b.kn (t - tol) (t + tol) b.size hsorted (by linarith)
  have hempty : ((Finset.range b.size).filter (fun i => t - tol ≤ b.kn i ∧ b.kn i < t + tol)) = ∅ := by
    apply Finset.filter_eq_empty_iff.2
    intro i hi
    rcases hfar i (Finset.mem_range.1 hi) with h | h
    · exact fun hc => absurd h (not_lt.2 hc.1)
    · exact fun hc => absurd hc.2 (not_lt.2 h)
  rw [hempty, Finset.card_empty] at hcard
  have heq : bisectLeft b.kn (t + tol) b.size = bisectLeft b.kn (t - tol) b.size := by
    have := hwin.1; omega
  have hnot1 : ¬ (b.periodic < 0 ∧ (t < b.start - tol ∨ b.stop + tol < t)) := by
    rintro ⟨_, h | h⟩
    · rcases hdom with hd | hd
      · exact absurd h (not_lt.2 (by linarith [hd.1]))
      · exact absurd h (not_lt.2 hd.2.1)
    · rcases hdom with hd | hd
      · exact absurd h (not_lt.2 (by linarith [hd.2]))
      · exact absurd h (not_lt.2 hd.2.2)
  have hnot2 : ¬ (b.periodic ≥ 0 ∧ (t < b.start ∨ t > b.stop)) := by
    rintro ⟨hp, h | h⟩
    · rcases hdom with hd | hd
      · exact absurd h (not_lt.2 hd.1)
      · exact absurd hp (by have := hd.1; omega)
    · rcases hdom with hd | hd
      · exact absurd h (not_lt.2 hd.2)
      · exact absurd hp (by have := hd.1; omega)
  unfold continuity
  simp only [hnot1, hnot2, if_false, heq, if_true]
  rfl


/-- Beyond the tolerance outside a non-periodic basis `continuity` raises `ValueError`. -/
theorem continuity_out_of_range [FloorRing K] (b : Basis K) (tol t : K) (hper : b.periodic < 0)
    (hout : t < b.start - tol ∨ b.stop + tol < t) : continuity b tol t = .error .value := by
  unfold continuity
  simp only [hper, hout, and_self, if_true]
  rfl

end Splipy.C20
