import Splipy.Lemmas.C04CoverRun

/-!
# C04 helper lemmas, part 21: the knots of the refined cover fold back to one period

After the `r+1` passes over the `(r+1)`-fold cover (images `x, x+T, …, x+rT`), the `ℤ`-extension of
the cover's knot vector satisfies `f (i + (n+1)) = f i + T`: the refined cover is the cover of a
periodic knot vector with `n+1` knots per period `T`.
-/

namespace Splipy
namespace C04

set_option linter.unusedSectionVars false

variable {K : Type} [Field K] [LinearOrder K] [IsStrictOrderedRing K] [FloorRing K]

/-- initial state of the cover loop -/
def cS0 (b : Basis K) (r : ℕ) (x : K) : Basis K × Mat K × K :=
  (coverBasis b (r + 1), (Basis.tileIdentity b.numFunctions (r + 1) : Mat K), x)

/-- cover basis after `j` passes -/
def cB (b : Basis K) (r : ℕ) (x : K) (j : ℕ) : Basis K := runB (b.stop - b.start) (cS0 b r x) j

/-- accumulated matrix after `j` passes -/
def cM (b : Basis K) (r : ℕ) (x : K) (j : ℕ) : Mat K := runM (b.stop - b.start) (cS0 b r x) j

/-- its knots on `ℤ` -/
def cF (b : Basis K) (r : ℕ) (x : K) (j : ℕ) : ℤ → K := zext (cB b r x j)

theorem cB_zero (b : Basis K) (r : ℕ) (x : K) : cB b r x 0 = coverBasis b (r + 1) := rfl

section fold

variable (b : Basis K) (hv : b.Valid) (k : ℕ) (hk : b.periodic = (k : Int)) (r : ℕ) (hr1 : 1 ≤ r)
  (hR : b.order + k ≤ (r + 1) * b.numFunctions) (hsmall : b.numFunctions < b.order + k)
  (x : K) (hx : b.start ≤ x ∧ x ≤ b.stop)

include hv hk hR hx

theorem cB_state (j : ℕ) (hj : j ≤ r + 1) : RunState b k r j (cB b r x j) (cM b r x j) :=
  (run_all b hv k hk r hR x hx j hj).2.1

theorem cB_run (j : ℕ) (hj : j ≤ r + 1) :
    coverRun (b.stop - b.start) (cS0 b r x) j
      = .ok (cB b r x j, cM b r x j, x + (j : K) * (b.stop - b.start)) :=
  (run_all b hv k hk r hR x hx j hj).1

theorem cB_step (j : ℕ) (hj : j ≤ r) :
    StepZ (cB b r x j) (cB b r x (j + 1)) (x + (j : K) * (b.stop - b.start)) :=
  (run_all b hv k hk r hR x hx (j + 1) (by omega)).2.2 j (by omega)

/-- the position facts of pass `j` on `ℤ` -/
theorem cB_pos (j : ℕ) (hj : j ≤ r) (c : Basis K) (hc : c = cB b r x j) (xj e : K)
    (hxj' : xj = x + (j : K) * (b.stop - b.start))
    (he' : e = b.stop + (r : K) * (b.stop - b.start)) :
    (zext c ((c.insertMu xj : ℤ) - 1) ≤ xj ∧ xj ≤ zext c (c.insertMu xj)) ∧
    (xj < e → xj < zext c (c.insertMu xj)) ∧
    (xj = e → c.insertMu xj = (r + 1) * b.numFunctions + j + k + 1) ∧
    c.insertMu xj ≤ (r + 1) * b.numFunctions + j + k + 1 ∧ 1 ≤ c.insertMu xj ∧ xj ≤ e := by
  subst hxj' he'
  have hs := cB_state b hv k hk r hR x hx j (by omega)
  rw [← hc] at hs
  have hT : 0 < b.stop - b.start := sub_pos.2 hv.start_lt_stop
  have hjK : (j : K) ≤ (r : K) := by exact_mod_cast hj
  have hxj : c.start ≤ x + (j : K) * (b.stop - b.start) ∧ x + (j : K) * (b.stop - b.start) ≤ c.stop := by
    rw [hs.start, hs.stop]
    have h1 : 0 ≤ (j : K) * (b.stop - b.start) := mul_nonneg (Nat.cast_nonneg j) (le_of_lt hT)
    have h2 : (j : K) * (b.stop - b.start) ≤ (r : K) * (b.stop - b.start) :=
      mul_le_mul_of_nonneg_right hjK (le_of_lt hT)
    exact ⟨by linarith [hx.1], by linarith [hx.2]⟩
  obtain ⟨m1, m2, m3, m4, m5, m6⟩ := insertMu_spec c hs.valid k hs.per _ hxj
  have hper : 0 ≤ c.periodic := by rw [hs.per]; omega
  have hp := hs.valid.order_pos
  have hsz := hs.valid.size_ge
  have hn := numFunctions_periodic c k hs.per
  have hnum := hs.num
  generalize hxjdef : x + (j : K) * (b.stop - b.start) = xj at *
  have e1 : ((c.insertMu xj : ℤ) - 1) = ((c.insertMu xj - 1 : ℕ) : ℤ) := by omega
  have z1 : zext c ((c.insertMu xj : ℤ) - 1) = c.kn (c.insertMu xj - 1) := by
    rw [e1]; exact zext_kn c hs.valid hper _ (by omega)
  have z2 : zext c (c.insertMu xj) = c.kn (c.insertMu xj) :=
    zext_kn c hs.valid hper _ (by omega)
  rw [z1, z2]
  have he : c.stop = b.stop + (r : K) * (b.stop - b.start) := hs.stop
  refine ⟨⟨m3, m4⟩, fun h => m5 (by rw [he]; exact h), fun h => ?_, by rw [← hnum]; exact m2,
    by omega, by rw [← he]; exact hxj.2⟩
  rw [m6 (by rw [he]; exact h), hnum]

include hsmall in
/-- the unrefined cover is `(n, T)`-periodic on `ℤ` -/
theorem cF_zero_per (i : ℤ) :
    cF b r x 0 (i + b.numFunctions) = cF b r x 0 i + (b.stop - b.start) := by
  obtain ⟨hcv, hcn, hcs, hce⟩ := coverBasis_valid b hv k hk r
  have hper : 0 ≤ b.periodic := by rw [hk]; omega
  have hn1 := numFunctions_pos hv
  have hn := numFunctions_periodic b k hk
  have hsz := hv.size_ge
  have hsize : (coverBasis b (r + 1)).knots.size = b.knots.size + r * b.numFunctions := by
    rw [coverBasis_size b hv (r + 1)]; rfl
  have hP : (coverBasis b (r + 1)).stop - (coverBasis b (r + 1)).start
      = ((r : K) + 1) * (b.stop - b.start) := by rw [hcs, hce]; ring
  have hN : (0 : ℤ) < ((r + 1) * b.numFunctions : ℕ) := by
    have : 0 < (r + 1) * b.numFunctions := by nlinarith
    exact_mod_cast this
  have hadd : ∀ i, cF b r x 0 (i + ((r + 1) * b.numFunctions : ℕ))
      = cF b r x 0 i + ((r : K) + 1) * (b.stop - b.start) := by
    intro i
    have := zext_add (coverBasis b (r + 1)) hcv i
    rw [hcn, hP] at this
    exact this
  have := zper_unique (fun i => cF b r x 0 (i + b.numFunctions) - (b.stop - b.start)) (cF b r x 0)
    ((r + 1) * b.numFunctions : ℕ) (((r : K) + 1) * (b.stop - b.start)) hN
    (by
      intro i
      show cF b r x 0 (i + ((r + 1) * b.numFunctions : ℕ) + b.numFunctions) - _ = _
      rw [show i + (((r + 1) * b.numFunctions : ℕ) : ℤ) + b.numFunctions
        = (i + b.numFunctions) + (((r + 1) * b.numFunctions : ℕ) : ℤ) by ring, hadd]
      ring)
    hadd 0
    (by
      intro i h1 h2
      obtain ⟨j, rfl⟩ : ∃ j : ℕ, i = (j : ℤ) := ⟨i.toNat, by omega⟩
      have hj : j < (r + 1) * b.numFunctions := by
        have h2' : (j : ℤ) < (((r + 1) * b.numFunctions : ℕ) : ℤ) := by omega
        exact_mod_cast h2'
      have e1 : (r + 1) * b.numFunctions = r * b.numFunctions + b.numFunctions := by ring
      show cF b r x 0 ((j : ℤ) + b.numFunctions) - (b.stop - b.start) = cF b r x 0 j
      have hper' : 0 ≤ (coverBasis b (r + 1)).periodic := hper
      have : ((j : ℤ) + b.numFunctions) = ((j + b.numFunctions : ℕ) : ℤ) := by push_cast; ring
      rw [this]
      show zext (coverBasis b (r + 1)) _ - _ = zext (coverBasis b (r + 1)) _
      rw [zext_kn _ hcv hper' _ (by rw [hsize]; omega), zext_kn _ hcv hper' _ (by rw [hsize]; omega),
        coverBasis_per b hv hper (r + 1) j (by rw [hsize]; omega)]
      ring)
  have h' : cF b r x 0 (i + b.numFunctions) - (b.stop - b.start) = cF b r x 0 i := this i
  linarith

include hsmall hr1 in
/-- The induction over the passes: canonical position of the `j`-th image, description of pass `j`
    at that position, and the shift relation between the states before and after pass `j`. -/
theorem cover_Q (n μ0 : ℤ) (hn : n = (b.numFunctions : ℤ))
    (hμ0 : μ0 = ((coverBasis b (r + 1)).insertMu x : ℤ)) (j : ℕ) (hj : j ≤ r) :
    (cF b r x j (μ0 + j * (n + 1) - 1) ≤ x + (j : K) * (b.stop - b.start) ∧
      x + (j : K) * (b.stop - b.start) < cF b r x j (μ0 + j * (n + 1))) ∧
    (∀ i, μ0 - n ≤ i → i ≤ μ0 - n + n + (((r : ℤ) + 1) * n + j) →
      cF b r x (j + 1) i = insZ (cF b r x j) (μ0 + j * (n + 1)) (x + (j : K) * (b.stop - b.start)) i) ∧
    (∀ i, μ0 - n ≤ i → i < μ0 - n + (((r : ℤ) + 1) * n + j) →
      cF b r x (j + 1) (i + n + 1) = cF b r x j i + (b.stop - b.start)) := by
  have hT : 0 < b.stop - b.start := sub_pos.2 hv.start_lt_stop
  have hn1 : (1 : ℤ) ≤ n := by rw [hn]; exact_mod_cast numFunctions_pos hv
  have hrZ : (1 : ℤ) ≤ r := by exact_mod_cast hr1
  -- facts about pass 0
  obtain ⟨p0a, p0b, p0c, p0d, p0e, p0f⟩ := cB_pos b hv k hk r hR x hx 0 (by omega)
    (coverBasis b (r + 1)) (cB_zero b r x).symm x _ (by simp) rfl
  have hμ0le : μ0 ≤ ((r : ℤ) + 1) * n + k + 1 := by
    rw [hμ0, hn]; exact_mod_cast p0d
  -- the numbers of functions
  have hnum : ∀ j, j ≤ r + 1 → ((cB b r x j).numFunctions : ℤ) = ((r : ℤ) + 1) * n + j := by
    intro j hj
    rw [(cB_state b hv k hk r hR x hx j hj).num, hn]; push_cast; ring
  -- description of pass j at the canonical position, from the position facts
  have hcan : ∀ j, j ≤ r →
      (cF b r x j (μ0 + j * (n + 1) - 1) ≤ x + (j : K) * (b.stop - b.start) ∧
        x + (j : K) * (b.stop - b.start) < cF b r x j (μ0 + j * (n + 1))) →
      ∀ i, μ0 - n ≤ i → i ≤ μ0 - n + n + (((r : ℤ) + 1) * n + j) →
        cF b r x (j + 1) i
          = insZ (cF b r x j) (μ0 + j * (n + 1)) (x + (j : K) * (b.stop - b.start)) i := by
    intro j hj hpos
    obtain ⟨pa, pb, pc, pd, pe, pf⟩ := cB_pos b hv k hk r hR x hx j hj (cB b r x j) rfl
      (x + (j : K) * (b.stop - b.start)) _ rfl rfl
    have hs := cB_state b hv k hk r hR x hx j (by omega)
    have hstep := cB_step b hv k hk r hR x hx j hj
    unfold StepZ at hstep
    rw [hnum j (by omega)] at hstep
    have hjZ : (j : ℤ) ≤ r := by exact_mod_cast hj
    have hjn : (j : ℤ) * n ≤ (r : ℤ) * n := mul_le_mul_of_nonneg_right hjZ (by omega)
    have hj0 : (0 : ℤ) ≤ (j : ℤ) * (n + 1) := mul_nonneg (by omega) (by omega)
    exact hcan_of_pos (cF b r x j) (cF b r x (j + 1)) (zext_mono _ hs.valid k hs.per)
      (((r : ℤ) + 1) * n + j) _ (μ0 + j * (n + 1)) μ0 (μ0 - n) n _
      (b.stop + (r : K) * (b.stop - b.start)) hstep pa pb
      (fun h => by
        have := pc h
        have h2 : (((cB b r x j).insertMu (x + (j : K) * (b.stop - b.start)) : ℕ) : ℤ)
            = ((r : ℤ) + 1) * n + j + k + 1 := by rw [this, hn]; push_cast; ring
        rw [h2]; linarith)
      pf hpos (by ring) (by linarith) (by nlinarith)
  induction j with
  | zero =>
    have hpos0 : cF b r x 0 (μ0 + (0 : ℕ) * (n + 1) - 1) ≤ x + ((0 : ℕ) : K) * (b.stop - b.start) ∧
        x + ((0 : ℕ) : K) * (b.stop - b.start) < cF b r x 0 (μ0 + (0 : ℕ) * (n + 1)) := by
      have hlt : x < b.stop + (r : K) * (b.stop - b.start) := by
        have : (1 : K) ≤ (r : K) := by exact_mod_cast hr1
        have := mul_le_mul_of_nonneg_right this (le_of_lt hT)
        linarith [hx.2]
      have e0 : μ0 + ((0 : ℕ) : ℤ) * (n + 1) = μ0 := by simp
      rw [e0, hμ0]
      simp only [Nat.cast_zero, zero_mul, add_zero]
      exact ⟨p0a.1, p0b hlt⟩
    have h0 := hcan 0 (by omega) hpos0
    refine ⟨hpos0, h0, ?_⟩
    have hb := shift_base (cF b r x 0) (cF b r x 1) n (((r : ℤ) + 1) * n + (0 : ℕ)) (b.stop - b.start)
      μ0 x (by omega)
      (fun i => by rw [hn]; exact cF_zero_per b hv k hk r hR hsmall x hx i)
      (fun i h1 h2 => by
        have := h0 i h1 (by linarith)
        simp only [Nat.cast_zero, zero_mul, add_zero] at this
        exact this)
    intro i h1 h2
    rw [hb i h1 h2]
  | succ j ih =>
    obtain ⟨ipos, ican, iinv⟩ := ih (by omega)
    have hjZ : (j : ℤ) + 1 ≤ r := by exact_mod_cast hj
    have hjn : ((j : ℤ) + 1) * n ≤ (r : ℤ) * n := mul_le_mul_of_nonneg_right hjZ (by omega)
    have hj0 : (0 : ℤ) ≤ (j : ℤ) * (n + 1) := mul_nonneg (by omega) (by omega)
    have ecast : μ0 + ((j + 1 : ℕ) : ℤ) * (n + 1) = μ0 + (j : ℤ) * (n + 1) + n + 1 := by
      push_cast; ring
    have exK : x + ((j + 1 : ℕ) : K) * (b.stop - b.start)
        = x + (j : K) * (b.stop - b.start) + (b.stop - b.start) := by push_cast; ring
    have hpos' : cF b r x (j + 1) (μ0 + ((j + 1 : ℕ) : ℤ) * (n + 1) - 1)
          ≤ x + ((j + 1 : ℕ) : K) * (b.stop - b.start) ∧
        x + ((j + 1 : ℕ) : K) * (b.stop - b.start)
          < cF b r x (j + 1) (μ0 + ((j + 1 : ℕ) : ℤ) * (n + 1)) := by
      rw [ecast, exK]
      have a1 := iinv (μ0 + (j : ℤ) * (n + 1) - 1) (by linarith) (by nlinarith)
      have a2 := iinv (μ0 + (j : ℤ) * (n + 1)) (by linarith) (by nlinarith)
      rw [show μ0 + (j : ℤ) * (n + 1) + n + 1 - 1 = μ0 + (j : ℤ) * (n + 1) - 1 + n + 1 by ring, a1, a2]
      exact ⟨by linarith [ipos.1], by linarith [ipos.2]⟩
    have hcan' := hcan (j + 1) hj hpos'
    refine ⟨hpos', hcan', ?_⟩
    have hstep := shift_step (cF b r x j) (cF b r x (j + 1)) (cF b r x (j + 2)) n
      (((r : ℤ) + 1) * n + j) (μ0 - n) (μ0 + (j : ℤ) * (n + 1)) (b.stop - b.start)
      (x + (j : K) * (b.stop - b.start)) (by nlinarith) (by linarith)
      (fun i h1 h2 => ican i h1 (by linarith))
      (fun i h1 h2 => by
        have := hcan' i (by linarith) (by push_cast; linarith)
        rw [ecast, exK] at this
        exact this)
      iinv
    intro i h1 h2
    have := hstep i h1 (by push_cast at h2; linarith)
    exact this

include hsmall hr1 in
/-- **Folding.**  The knots of the fully refined cover repeat with `n+1` knots per period `T`. -/
theorem cover_fold (i : ℤ) :
    cF b r x (r + 1) (i + ((b.numFunctions : ℤ) + 1)) = cF b r x (r + 1) i + (b.stop - b.start) := by
  obtain ⟨_, hcanr, hinvr⟩ := cover_Q b hv k hk r hr1 hR hsmall x hx (b.numFunctions : ℤ)
    ((coverBasis b (r + 1)).insertMu x : ℤ) rfl rfl r (le_refl r)
  set n : ℤ := (b.numFunctions : ℤ) with hn
  set μ0 : ℤ := ((coverBasis b (r + 1)).insertMu x : ℤ) with hμ0
  have hn1 : (1 : ℤ) ≤ n := by rw [hn]; exact_mod_cast numFunctions_pos hv
  have hs := cB_state b hv k hk r hR x hx (r + 1) (le_refl _)
  have hr0 : (0 : ℤ) ≤ (r : ℤ) * (n + 1) := mul_nonneg (by omega) (by omega)
  have hper : ∀ i, cF b r x (r + 1) (i + ((r + 1 : ℕ) : ℤ) * (n + 1))
      = cF b r x (r + 1) i + ((r + 1 : ℕ) : K) * (b.stop - b.start) := by
    intro i
    have := zext_add (cB b r x (r + 1)) hs.valid i
    rw [hs.num, hs.start, hs.stop] at this
    have e1 : (((r + 1) * b.numFunctions + (r + 1) : ℕ) : ℤ) = ((r + 1 : ℕ) : ℤ) * (n + 1) := by
      rw [hn]; push_cast; ring
    have e2 : b.stop + (r : K) * (b.stop - b.start) - b.start
        = ((r + 1 : ℕ) : K) * (b.stop - b.start) := by push_cast; ring
    rw [e1, e2] at this
    exact this
  have hrel : ∀ i, μ0 - n ≤ i → i < μ0 - n + ((r + 1 : ℕ) : ℤ) * (n + 1) - 1 →
      cF b r x (r + 1) (i + (n + 1)) = cF b r x (r + 1) i + (b.stop - b.start) := by
    intro i h1 h2
    have h2' : i < μ0 - n + (((r : ℤ) + 1) * n + (r : ℕ)) := by push_cast at h2 ⊢; linarith
    have a := hinvr i h1 h2'
    have c := hcanr i h1 (by linarith)
    rw [insZ_lt (by push_cast at h2 ⊢; linarith)] at c
    rw [← add_assoc, a, c]
  exact fold_complete (cF b r x (r + 1)) n (r + 1) (b.stop - b.start) (μ0 - n) (by omega) (by omega)
    hper hrel i

include hsmall hr1 in
/-- One period of the refined cover below the first image is the unrefined cover with `x`
    inserted. -/
theorem cover_low (j : ℕ) (hj : j ≤ r) (i : ℤ)
    (h1 : ((coverBasis b (r + 1)).insertMu x : ℤ) - b.numFunctions ≤ i)
    (h2 : i ≤ ((coverBasis b (r + 1)).insertMu x : ℤ)) :
    cF b r x (j + 1) i = insZ (cF b r x 0) ((coverBasis b (r + 1)).insertMu x : ℤ) x i := by
  have hn1 : (1 : ℤ) ≤ (b.numFunctions : ℤ) := by exact_mod_cast numFunctions_pos hv
  induction j with
  | zero =>
    obtain ⟨_, hc, _⟩ := cover_Q b hv k hk r hr1 hR hsmall x hx (b.numFunctions : ℤ)
      ((coverBasis b (r + 1)).insertMu x : ℤ) rfl rfl 0 (by omega)
    have := hc i h1 (by
      have : (0 : ℤ) ≤ ((r : ℤ) + 1) * (b.numFunctions : ℤ) := mul_nonneg (by omega) (by omega)
      push_cast; linarith)
    simp only [Nat.cast_zero, zero_mul, add_zero] at this
    exact this
  | succ j ih =>
    obtain ⟨_, hc, _⟩ := cover_Q b hv k hk r hr1 hR hsmall x hx (b.numFunctions : ℤ)
      ((coverBasis b (r + 1)).insertMu x : ℤ) rfl rfl (j + 1) hj
    have hj0 : (0 : ℤ) ≤ (j : ℤ) * ((b.numFunctions : ℤ) + 1) := mul_nonneg (by omega) (by omega)
    have := hc i h1 (by
      have : (0 : ℤ) ≤ ((r : ℤ) + 1) * (b.numFunctions : ℤ) := mul_nonneg (by omega) (by omega)
      push_cast; linarith)
    rw [insZ_lt (by push_cast; linarith)] at this
    rw [this]
    exact ih (by omega)

end fold

end C04
end Splipy
