import Splipy.Lemmas.C12Stages
import Splipy.Lemmas.C04Tensor
import Mathlib.Algebra.BigOperators.Fin

/-!
# C12 — curves on open bases: `insert_knot` keeps the evaluated map (discharging `H_insert`)

For a well-formed curve (`m = 1`) on a non-periodic basis the defining sum `C06.TP.eval` of component
`comp` is `splineVal` of the control-net column `comp`; `C04.insertKnots_fibres` (property C04) says
that `insert_knot(list)` keeps every such column spline.  Together: `SameMap 1 o o'`.
-/

namespace Splipy

set_option linter.unusedSectionVars false

variable {K : Type} [Field K] [LinearOrder K] [IsStrictOrderedRing K] [FloorRing K]

namespace C12

open C06 Finset

/-- Flat position of `[j, comp]` in a control array of shape `[n, nc]`. -/
theorem getIdx_curve (t : Tensor K) (n nc : ℕ) (hs : t.shape = [n, nc]) (I : Fin 1 → ℕ) (comp : ℕ) :
    getIdx t (midx I comp) = t.get (I 0 * nc + comp) := by
  unfold getIdx midx
  rw [hs]
  simp [flatIdx, Tensor.prod]

/-- The defining sum of a component of an open curve is `splineVal` of its column. -/
theorem toTP_eval_curve {o : Obj K} (hw : C06.WF o 1) (hper : (o.basis 0).periodic = -1) (comp : ℕ)
    (s : Fin 1 → Side) (u : Fin 1 → K) :
    (toTP o 1 comp).eval s u
      = splineVal (s 0) (o.basis 0).kn ((o.basis 0).order - 1) (o.basis 0).numFunctions
          (fun j => o.cps.get (j * o.ncomp + comp)) (u 0) := by
  rw [TP.eval_eq]
  unfold splineVal
  have hv : (o.basis 0).Valid := hw.valid 0
  have hn : (o.basis 0).nAll = (o.basis 0).numFunctions := by
    rw [valid_nAll_eq hv, hper]; simp
  have hshape : o.cps.shape = [(o.basis 0).numFunctions, o.ncomp] := by
    rw [hw.shape]; simp [midx]
  refine Finset.sum_bij' (fun I _ => I 0) (fun j _ => fun _ => j) ?_ ?_ ?_ ?_ ?_
  · intro I hI
    have := (Fintype.mem_piFinset.mp hI) 0
    show I 0 ∈ range (o.basis 0).numFunctions
    rw [← hn]; exact this
  · intro j hj
    rw [Fintype.mem_piFinset]
    intro d
    show j ∈ range (o.basis (d : ℕ)).nAll
    have hd : (d : ℕ) = 0 := by omega
    rw [hd, hn]; exact hj
  · intro I _
    funext d
    have hd : d = 0 := Subsingleton.elim _ _
    rw [hd]
  · intro j _; rfl
  · intro I hI
    have hI0 : I 0 < (o.basis 0).numFunctions := by
      have := (Fintype.mem_piFinset.mp hI) 0
      have h' : I 0 ∈ range (o.basis 0).nAll := this
      rw [hn] at h'; exact mem_range.mp h'
    rw [Fin.prod_univ_one]
    show getIdx o.cps (midx (fun d : Fin 1 => I d % (o.basis (d : ℕ)).numFunctions) comp)
        * B (s 0) (o.basis 0).kn ((o.basis 0).order - 1) (I 0) (u 0) = _
    rw [getIdx_curve o.cps _ _ hshape]
    show o.cps.get (I 0 % (o.basis 0).numFunctions * o.ncomp + comp) * _ = _
    rw [Nat.mod_eq_of_lt hI0]

/-- **`insert_knot(list)` on an open curve keeps the evaluated map** (values inside `[start, end)`). -/
theorem insertKnots_sameMap_curve {o o' : Obj K} (hw : C06.WF o 1) (hper : (o.basis 0).periodic = -1)
    (xs : List K) (hxs : ∀ x ∈ xs, (o.basis 0).start ≤ x ∧ x < (o.basis 0).stop)
    (h : o.insertKnots xs 0 = .ok o') : SameMap 1 o o' ∧ C06.WF o' 1 := by
  have hv : (o.basis 0).Valid := hw.valid 0
  have hsize : 0 < o.bases.size := by rw [hw.size]; exact Nat.one_pos
  have hshape : o.cps.shape = [(o.basis 0).numFunctions, o.ncomp] := by
    rw [hw.shape]; simp [midx]
  have hax : 0 < o.cps.shape.length := by rw [hshape]; simp
  have hsh0 : o.cps.shape.getD 0 0 = (o.basis 0).numFunctions := by rw [hshape]; rfl
  obtain ⟨o'', C, h1, h2, _, _, hrat, h6, _, _, h9⟩ :=
    C04.insertKnots_fibres o 0 hsize hax hv hper hsh0 xs hxs
  rw [h] at h1
  injection h1 with h1
  subst h1
  have hshape' : o'.cps.shape = [(o.basis 0).numFunctions + xs.length, o.ncomp] := by
    rw [h6, hshape]; rfl
  have hnc : o'.ncomp = o.ncomp := by
    unfold Obj.ncomp; rw [hshape', hshape]; rfl
  have hod : OnlyDir 0 o o' := insertKnots_onlyDir h
  have hwf' : C06.WF o' 1 := by
    refine ⟨by rw [hod.size, hw.size], ?_, ?_⟩
    · intro d
      have hd : (d : ℕ) = 0 := by omega
      rw [hd]; exact h2.valid
    · rw [hshape', hnc]
      simp [midx, h2.num_eq]
  refine ⟨⟨hnc, fun comp hc s u => ?_⟩, hwf'⟩
  have hper' : (o'.basis 0).periodic = -1 := by rw [h2.periodic_eq]; exact hper
  rw [toTP_eval_curve hwf' hper' comp s u, toTP_eval_curve hw hper comp s u, h2.order_eq, h2.num_eq, hnc]
  -- the columns are fibres of the control net
  have hout : C04.outerN o 0 = 1 := by simp [C04.outerN, Tensor.split3, Tensor.prod]
  have hinn : C04.innerN o 0 = o.ncomp := by simp [C04.innerN, Tensor.split3, Tensor.prod, hshape]
  have hf : ∀ (o₁ : Obj K) (m : ℕ), o₁.cps.shape = [m, o.ncomp] → ∀ i,
      C04.fibre o₁ 0 0 i = fun j => o₁.cps.get (j * o.ncomp + i) := by
    intro o₁ m hs i
    funext j
    simp [C04.fibre, Tensor.at3, Tensor.split3, Tensor.prod, hs]
  have hfib : ∀ r, r < (o.basis 0).numFunctions + xs.length →
      (fun j => o'.cps.get (j * o.ncomp + comp)) r
        = C04.mulVec C (o.basis 0).numFunctions (fun j => o.cps.get (j * o.ncomp + comp)) r := by
    intro r hr
    have := h9 0 comp r (by rw [hout]; exact Nat.one_pos) (by rw [hinn]; exact hc) hr
    rw [hf o _ hshape comp, hf o' _ hshape' comp] at this
    exact this
  rw [C04.splineVal_congr (s 0) _ _ _ _ _ (u 0) hfib]
  exact (h2.same (fun j => o.cps.get (j * o.ncomp + comp)) (s 0) (u 0)).1

/-- `raise_order(0, direction=0)` succeeds and returns the receiver unchanged. -/
theorem raiseOrderDispatch_zero_ok (tol : K) (isCurve : Bool) (o : Obj K) (hp : 0 < o.pardim) :
    ∃ r, o.raiseOrderDispatch tol isCurve [0] (some ((0 : ℕ) : Int)) = .ok (r, o) := by
  unfold Obj.raiseOrderDispatch
  cases isCurve with
  | true =>
    simp only [if_true]
    unfold Obj.curveRaiseOrder
    simp
  | false =>
    simp only [Bool.false_eq_true, if_false]
    unfold Obj.raiseOrder Obj.normRaises Obj.checkDirection
    simp [hp]

/-- **Two open curves of the same order, complete.**  `a` is the pair after `reparam`; its bases are
    the clamped bases over the common separated entry list `L`.  Then the remaining stages run, do
    nothing but the two insertion passes, give both curves the union knot vector, and keep both
    evaluated maps. -/
theorem open_curves_same_order (tol : K) (htol : 0 < tol) (c1 c2 : Bool) (p : ℕ) (hp : 2 ≤ p) (x0 xl : K)
    (L : List (K × ℕ × ℕ)) (hsep : Separated tol (clampedU x0 xl (L.map (·.1))))
    (a : Obj K × Obj K) (hw1 : C06.WF a.1 1) (hw2 : C06.WF a.2 1)
    (hb1 : a.1.basis 0 = openBasis p (clampedU x0 xl (L.map (·.1))) (clampedM p (L.map (·.2.1))))
    (hb2 : a.2.basis 0 = openBasis p (clampedU x0 xl (L.map (·.1))) (clampedM p (L.map (·.2.2)))) :
    ∃ r, Obj.stagePeriodic a 0 = .ok a ∧ Obj.stageOrder tol c1 c2 a 0 = .ok a
      ∧ Obj.stageMerge tol (max (a.1.basis 0).order (a.2.basis 0).order) a 0 = .ok r
      ∧ r.1.basis 0 = openBasis p (clampedU x0 xl (L.map (·.1))) (clampedM p (L.map (fun e => max e.2.1 e.2.2)))
      ∧ r.2.basis 0 = openBasis p (clampedU x0 xl (L.map (·.1))) (clampedM p (L.map (fun e => max e.2.1 e.2.2)))
      ∧ SameMap 1 a.1 r.1 ∧ SameMap 1 a.2 r.2 := by
  obtain ⟨hpass1, hins2, hpass2, hins1, _⟩ := mergeKnots_clamped tol htol p hp x0 xl L hsep
  simp only [] at hpass1 hins2 hpass2 hins1
  have hp1 : 1 ≤ p := by omega
  have hlen : ∀ g : K × ℕ × ℕ → ℕ, (L.map (·.1)).length = (L.map g).length := fun g => by simp
  have hends := separated_ends tol x0 xl (L.map (·.1)) hsep
  have ho1 : (a.1.basis 0).order = p := by rw [hb1]; rfl
  have ho2 : (a.2.basis 0).order = p := by rw [hb2]; rfl
  have hper1 : (a.1.basis 0).periodic = -1 := by rw [hb1]; rfl
  have hper2 : (a.2.basis 0).periodic = -1 := by rw [hb2]; rfl
  have hpd : ∀ o : Obj K, C06.WF o 1 → 0 < o.pardim := by
    intro o hw
    unfold Obj.pardim
    rw [hw.shape]; simp [C06.midx]
  -- stagePeriodic
  have hSP : Obj.stagePeriodic a 0 = .ok a := by
    unfold Obj.stagePeriodic
    simp [hper1, hper2]
  -- stageOrder
  have hSO : Obj.stageOrder tol c1 c2 a 0 = .ok a := by
    unfold Obj.stageOrder
    obtain ⟨r1, hr1⟩ := raiseOrderDispatch_zero_ok tol c1 a.1 (hpd _ hw1)
    obtain ⟨r2, hr2⟩ := raiseOrderDispatch_zero_ok tol c2 a.2 (hpd _ hw2)
    simp only [ho1, ho2, max_self, sub_self]
    rw [hr1, hr2]
  -- interior values
  have hinterior : ∀ (g : K × ℕ × ℕ → ℕ) (x : K), x ∈ expand (L.map (·.1)) (L.map g) → x0 ≤ x ∧ x < xl := by
    intro g x hx
    have := hends.2 x (mem_expand _ _ x hx)
    constructor <;> linarith
  have hst : ∀ g : K × ℕ × ℕ → ℕ,
      (openBasis p (clampedU x0 xl (L.map (·.1))) (clampedM p (L.map g))).start = x0
      ∧ (openBasis p (clampedU x0 xl (L.map (·.1))) (clampedM p (L.map g))).stop = xl :=
    fun g => ⟨clamped_start p hp1 x0 xl _ _, clamped_stop p hp1 x0 xl _ _ (hlen g)⟩
  -- first insertion (into curve 2)
  have hsz1 : 0 < a.1.bases.size := by rw [hw1.size]; exact Nat.one_pos
  have hsz2 : 0 < a.2.bases.size := by rw [hw2.size]; exact Nat.one_pos
  have hshape : ∀ o : Obj K, C06.WF o 1 → o.cps.shape = [(o.basis 0).numFunctions, o.ncomp] := by
    intro o hw; rw [hw.shape]; simp [C06.midx]
  have hin2 : ∀ x ∈ expand (L.map (·.1)) (L.map (fun e => max e.2.1 e.2.2 - e.2.2)),
      (a.2.basis 0).start ≤ x ∧ x < (a.2.basis 0).stop := by
    intro x hx
    rw [hb2, (hst (·.2.2)).1, (hst (·.2.2)).2]
    exact hinterior (fun e => max e.2.1 e.2.2 - e.2.2) x hx
  have hin1 : ∀ x ∈ expand (L.map (·.1)) (L.map (fun e => max e.2.1 e.2.2 - e.2.1)),
      (a.1.basis 0).start ≤ x ∧ x < (a.1.basis 0).stop := by
    intro x hx
    rw [hb1, (hst (·.2.1)).1, (hst (·.2.1)).2]
    exact hinterior (fun e => max e.2.1 e.2.2 - e.2.1) x hx
  have hex2 : ∃ r2, a.2.insertKnots (expand (L.map (·.1)) (L.map (fun e => max e.2.1 e.2.2 - e.2.2))) 0 = .ok r2 := by
    obtain ⟨o', _, h1, _⟩ := C04.insertKnots_fibres a.2 0 hsz2 (by rw [hshape _ hw2]; simp) (hw2.valid 0) hper2
      (by rw [hshape _ hw2]; rfl) _ hin2
    exact ⟨o', h1⟩
  obtain ⟨r2, hr2⟩ := hex2
  have hr2b : r2.basis 0 = openBasis p (clampedU x0 xl (L.map (·.1))) (clampedM p (L.map (fun e => max e.2.1 e.2.2))) := by
    have := insertAll_of_insertKnots hsz2 hr2
    rw [hb2, hins2] at this
    injection this with this
    exact this.symm
  have hex1 : ∃ r1, a.1.insertKnots (expand (L.map (·.1)) (L.map (fun e => max e.2.1 e.2.2 - e.2.1))) 0 = .ok r1 := by
    obtain ⟨o', _, h1, _⟩ := C04.insertKnots_fibres a.1 0 hsz1 (by rw [hshape _ hw1]; simp) (hw1.valid 0) hper1
      (by rw [hshape _ hw1]; rfl) _ hin1
    exact ⟨o', h1⟩
  obtain ⟨r1, hr1⟩ := hex1
  have hr1b : r1.basis 0 = openBasis p (clampedU x0 xl (L.map (·.1))) (clampedM p (L.map (fun e => max e.2.1 e.2.2))) := by
    have := insertAll_of_insertKnots hsz1 hr1
    rw [hb1, hins1] at this
    injection this with this
    exact this.symm
  have hSM : Obj.stageMerge tol (max (a.1.basis 0).order (a.2.basis 0).order) a 0 = .ok (r1, r2) := by
    unfold Obj.stageMerge Obj.firstInserts Obj.secondInserts
    rw [ho1, ho2, max_self]
    have e1 : Obj.mergeInserts tol p (a.1.basis 0) (a.2.basis 0) true ((a.1.basis 0).knotSpans tol false).toList
        = .ok (expand (L.map (·.1)) (L.map (fun e => max e.2.1 e.2.2 - e.2.2))) := by
      rw [hb1, hb2]; exact hpass1
    have e2 : Obj.mergeInserts tol p (a.1.basis 0) (r2.basis 0) false ((a.2.basis 0).knotSpans tol false).toList
        = .ok (expand (L.map (·.1)) (L.map (fun e => max e.2.1 e.2.2 - e.2.1))) := by
      rw [hb1, hr2b, hb2]; exact hpass2
    simp only [e1, hr2, e2, hr1]
  have hs1 := insertKnots_sameMap_curve hw1 hper1 _ hin1 hr1
  have hs2 := insertKnots_sameMap_curve hw2 hper2 _ hin2 hr2
  exact ⟨(r1, r2), hSP, hSO, hSM, hr1b, hr2b, hs1.1, hs2.1⟩

end C12

end Splipy
