import Splipy.Spec.BSpline
import Mathlib.Tactic.Ring
import Mathlib.Tactic.FieldSimp
import Mathlib.Tactic.Linarith
import Mathlib.Algebra.BigOperators.Intervals
import Mathlib.Algebra.BigOperators.Ring.Finset
import Mathlib.Algebra.Order.BigOperators.Group.Finset

/-!
# Kernel lemmas about the specification B-splines `B` / `dB`

Local support, non-negativity, partition of unity, locality / affine / reflection invariance,
vanishing of high derivatives, derivative of the partition of unity, clamped end-point values.
-/

namespace Splipy

variable {K : Type} [Field K] [LinearOrder K]

/-! ## Unfolding lemmas -/

theorem B_zero (s : Side) (τ : ℕ → K) (i : ℕ) (t : K) :
    B s τ 0 i t = ind s (τ i) (τ (i+1)) t := by
  rw [B]

theorem B_succ (s : Side) (τ : ℕ → K) (q i : ℕ) (t : K) :
    B s τ (q+1) i t =
      (t - τ i) / (τ (i+q+1) - τ i) * B s τ q i t
      + (τ (i+q+2) - t) / (τ (i+q+2) - τ (i+1)) * B s τ q (i+1) t := by
  rw [B]

theorem dB_zero (s : Side) (τ : ℕ → K) (q i : ℕ) (t : K) :
    dB s τ q i 0 t = B s τ q i t := by
  cases q <;> rw [dB]

theorem dB_zero_succ (s : Side) (τ : ℕ → K) (i d : ℕ) (t : K) :
    dB s τ 0 i (d+1) t = 0 := by
  rw [dB]

theorem dB_succ_succ (s : Side) (τ : ℕ → K) (q i d : ℕ) (t : K) :
    dB s τ (q+1) i (d+1) t =
      ((q : K) + 1) * (dB s τ q i d t / (τ (i+q+1) - τ i)
                        - dB s τ q (i+1) d t / (τ (i+q+2) - τ (i+1))) := by
  rw [dB]

/-! ## 1. Local support -/

theorem B_support_right (τ : ℕ → K) (hτ : Monotone τ) (q i : ℕ) (t : K)
    (h : t < τ i ∨ τ (i+q+1) ≤ t) : B .right τ q i t = 0 := by
  induction q generalizing i with
  | zero =>
    rw [B_zero, ind, if_neg]
    rintro ⟨h1, h2⟩
    rcases h with h | h
    · exact absurd h1 (not_le.mpr h)
    · exact absurd h2 (not_lt.mpr h)
  | succ q ih =>
    rw [B_succ, ih i, ih (i+1)]
    · simp
    · rcases h with h | h
      · left; exact lt_of_lt_of_le h (hτ (by omega))
      · right
        have e : i+1+q+1 = i+(q+1)+1 := by omega
        rw [e]; exact h
    · rcases h with h | h
      · left; exact h
      · right; exact le_trans (hτ (by omega)) h

theorem B_support_left (τ : ℕ → K) (hτ : Monotone τ) (q i : ℕ) (t : K)
    (h : t ≤ τ i ∨ τ (i+q+1) < t) : B .left τ q i t = 0 := by
  induction q generalizing i with
  | zero =>
    rw [B_zero, ind, if_neg]
    rintro ⟨h1, h2⟩
    rcases h with h | h
    · exact absurd h1 (not_lt.mpr h)
    · exact absurd h2 (not_le.mpr h)
  | succ q ih =>
    rw [B_succ, ih i, ih (i+1)]
    · simp
    · rcases h with h | h
      · left; exact le_trans h (hτ (by omega))
      · right
        have e : i+1+q+1 = i+(q+1)+1 := by omega
        rw [e]; exact h
    · rcases h with h | h
      · left; exact h
      · right; exact lt_of_le_of_lt (hτ (by omega)) h

/-- Side-independent (weak) support: left of the first knot. -/
theorem B_eq_zero_of_lt (s : Side) (τ : ℕ → K) (hτ : Monotone τ) (q i : ℕ) (t : K)
    (h : t < τ i) : B s τ q i t = 0 := by
  cases s
  · exact B_support_right τ hτ q i t (Or.inl h)
  · exact B_support_left τ hτ q i t (Or.inl h.le)

/-- Side-independent (weak) support: right of the last knot. -/
theorem B_eq_zero_of_gt (s : Side) (τ : ℕ → K) (hτ : Monotone τ) (q i : ℕ) (t : K)
    (h : τ (i+q+1) < t) : B s τ q i t = 0 := by
  cases s
  · exact B_support_right τ hτ q i t (Or.inr h.le)
  · exact B_support_left τ hτ q i t (Or.inr h)

/-- A B-spline on a degenerate (empty) support vanishes identically. -/
theorem B_eq_zero_of_knots_eq (s : Side) (τ : ℕ → K) (hτ : Monotone τ) (q i : ℕ) (t : K)
    (h : τ (i+q+1) = τ i) : B s τ q i t = 0 := by
  cases s
  · apply B_support_right τ hτ
    rw [h]; exact lt_or_ge t (τ i)
  · apply B_support_left τ hτ
    rw [h]; exact le_or_gt t (τ i)

/-! ## 3. Partition of unity -/

/-- `t` lies in the (half-open, according to the side) span between `a` and `b`. -/
def Side.mem (s : Side) (a b t : K) : Prop :=
  match s with
  | .right => a ≤ t ∧ t < b
  | .left  => a < t ∧ t ≤ b

theorem ind_eq_one (s : Side) (a b t : K) (h : s.mem a b t) : ind s a b t = 1 := by
  cases s <;> exact if_pos h

theorem B_eq_zero_of_mem_of_le (s : Side) (τ : ℕ → K) (hτ : Monotone τ) (q i μ : ℕ) (t : K)
    (h : s.mem (τ μ) (τ (μ+1)) t) (hi : i + q + 1 ≤ μ) : B s τ q i t = 0 := by
  cases s
  · exact B_support_right τ hτ q i t (Or.inr (le_trans (hτ hi) h.1))
  · exact B_support_left τ hτ q i t (Or.inr (lt_of_le_of_lt (hτ hi) h.1))

theorem B_eq_zero_of_mem_of_gt (s : Side) (τ : ℕ → K) (hτ : Monotone τ) (q i μ : ℕ) (t : K)
    (h : s.mem (τ μ) (τ (μ+1)) t) (hi : μ < i) : B s τ q i t = 0 := by
  cases s
  · exact B_support_right τ hτ q i t (Or.inl (lt_of_lt_of_le h.2 (hτ hi)))
  · exact B_support_left τ hτ q i t (Or.inl (le_trans h.2 (hτ hi)))

/-- Cox–de Boor with the second weight written as `1 - ω_{i+1}`. -/
theorem B_succ' (s : Side) (τ : ℕ → K) (hτ : Monotone τ) (q i : ℕ) (t : K) :
    B s τ (q+1) i t =
      (t - τ i) / (τ (i+q+1) - τ i) * B s τ q i t
      + (B s τ q (i+1) t
          - (t - τ (i+1)) / (τ (i+1+q+1) - τ (i+1)) * B s τ q (i+1) t) := by
  rw [B_succ]
  congr 1
  have e : i+1+q+1 = i+q+2 := by omega
  rw [e]
  by_cases h : τ (i+q+2) = τ (i+1)
  · rw [B_eq_zero_of_knots_eq s τ hτ q (i+1) t (by rw [e]; exact h)]
    simp
  · have h' : τ (i+q+2) - τ (i+1) ≠ 0 := sub_ne_zero.mpr h
    field_simp
    ring

/-- Partition of unity, summed over an initial segment of indices (side generic). -/
theorem B_sum_range_eq_one (s : Side) (τ : ℕ → K) (hτ : Monotone τ) (q μ N : ℕ) (hq : q ≤ μ)
    (hN : μ < N) (t : K) (h : s.mem (τ μ) (τ (μ+1)) t) :
    ∑ i ∈ Finset.range N, B s τ q i t = 1 := by
  induction q generalizing N with
  | zero =>
    rw [Finset.sum_eq_single μ]
    · rw [B_zero]; exact ind_eq_one s _ _ _ h
    · intro j _ hj
      rcases Nat.lt_or_gt_of_ne hj with hj | hj
      · exact B_eq_zero_of_mem_of_le s τ hτ 0 j μ t h (by omega)
      · exact B_eq_zero_of_mem_of_gt s τ hτ 0 j μ t h hj
    · intro hμ
      exact absurd (Finset.mem_range.mpr hN) hμ
  | succ q ih =>
    have key : ∀ i, B s τ (q+1) i t = B s τ q (i+1) t +
        ((fun j => (t - τ j) / (τ (j+q+1) - τ j) * B s τ q j t) i
          - (fun j => (t - τ j) / (τ (j+q+1) - τ j) * B s τ q j t) (i+1)) := by
      intro i
      rw [B_succ' s τ hτ]
      ring
    rw [Finset.sum_congr rfl (fun i _ => key i), Finset.sum_add_distrib, Finset.sum_range_sub']
    have h1 := ih (N+1) (by omega) (by omega)
    rw [Finset.sum_range_succ'] at h1
    have z0 : B s τ q 0 t = 0 := B_eq_zero_of_mem_of_le s τ hτ q 0 μ t h (by omega)
    have zN : B s τ q N t = 0 := B_eq_zero_of_mem_of_gt s τ hτ q N μ t h hN
    rw [z0] at h1
    simp only [z0, zN] at h1 ⊢
    rw [← h1]; ring

/-- Partition of unity over the `q+1` active indices (side generic). -/
theorem B_partition (s : Side) (τ : ℕ → K) (hτ : Monotone τ) (q μ : ℕ) (hq : q ≤ μ) (t : K)
    (h : s.mem (τ μ) (τ (μ+1)) t) :
    ∑ i ∈ Finset.Icc (μ - q) μ, B s τ q i t = 1 := by
  rw [← B_sum_range_eq_one s τ hτ q μ (μ+1) hq (by omega) t h]
  apply Finset.sum_subset
  · intro i hi
    rw [Finset.mem_Icc] at hi
    exact Finset.mem_range.mpr (by omega)
  · intro i hi hni
    rw [Finset.mem_range] at hi
    rw [Finset.mem_Icc] at hni
    exact B_eq_zero_of_mem_of_le s τ hτ q i μ t h (by omega)

theorem B_partition_right (τ : ℕ → K) (hτ : Monotone τ) (q μ : ℕ) (hq : q ≤ μ) (t : K)
    (h : τ μ ≤ t ∧ t < τ (μ+1)) : ∑ i ∈ Finset.Icc (μ - q) μ, B .right τ q i t = 1 :=
  B_partition .right τ hτ q μ hq t h

theorem B_partition_left (τ : ℕ → K) (hτ : Monotone τ) (q μ : ℕ) (hq : q ≤ μ) (t : K)
    (h : τ μ < t ∧ t ≤ τ (μ+1)) : ∑ i ∈ Finset.Icc (μ - q) μ, B .left τ q i t = 1 :=
  B_partition .left τ hτ q μ hq t h


/-! ## 5. Derivatives: vanishing of high derivatives, support, derivative of the partition -/

theorem dB_eq_zero_of_gt (s : Side) (τ : ℕ → K) (q i d : ℕ) (t : K) (h : q < d) :
    dB s τ q i d t = 0 := by
  induction q generalizing i d with
  | zero =>
    obtain ⟨d, rfl⟩ : ∃ d', d = d'+1 := ⟨d-1, by omega⟩
    rw [dB_zero_succ]
  | succ q ih =>
    obtain ⟨d, rfl⟩ : ∃ d', d = d'+1 := ⟨d-1, by omega⟩
    rw [dB_succ_succ, ih i d (by omega), ih (i+1) d (by omega)]
    simp

theorem dB_support_right (τ : ℕ → K) (hτ : Monotone τ) (q i d : ℕ) (t : K)
    (h : t < τ i ∨ τ (i+q+1) ≤ t) : dB .right τ q i d t = 0 := by
  induction q generalizing i d with
  | zero =>
    cases d with
    | zero => rw [dB_zero]; exact B_support_right τ hτ 0 i t h
    | succ d => rw [dB_zero_succ]
  | succ q ih =>
    cases d with
    | zero => rw [dB_zero]; exact B_support_right τ hτ (q+1) i t h
    | succ d =>
      rw [dB_succ_succ, ih i d, ih (i+1) d]
      · simp
      · rcases h with h | h
        · left; exact lt_of_lt_of_le h (hτ (by omega))
        · right
          have e : i+1+q+1 = i+(q+1)+1 := by omega
          rw [e]; exact h
      · rcases h with h | h
        · left; exact h
        · right; exact le_trans (hτ (by omega)) h

theorem dB_support_left (τ : ℕ → K) (hτ : Monotone τ) (q i d : ℕ) (t : K)
    (h : t ≤ τ i ∨ τ (i+q+1) < t) : dB .left τ q i d t = 0 := by
  induction q generalizing i d with
  | zero =>
    cases d with
    | zero => rw [dB_zero]; exact B_support_left τ hτ 0 i t h
    | succ d => rw [dB_zero_succ]
  | succ q ih =>
    cases d with
    | zero => rw [dB_zero]; exact B_support_left τ hτ (q+1) i t h
    | succ d =>
      rw [dB_succ_succ, ih i d, ih (i+1) d]
      · simp
      · rcases h with h | h
        · left; exact le_trans h (hτ (by omega))
        · right
          have e : i+1+q+1 = i+(q+1)+1 := by omega
          rw [e]; exact h
      · rcases h with h | h
        · left; exact h
        · right; exact lt_of_le_of_lt (hτ (by omega)) h

theorem dB_eq_zero_of_mem_of_le (s : Side) (τ : ℕ → K) (hτ : Monotone τ) (q i d μ : ℕ) (t : K)
    (h : s.mem (τ μ) (τ (μ+1)) t) (hi : i + q + 1 ≤ μ) : dB s τ q i d t = 0 := by
  cases s
  · exact dB_support_right τ hτ q i d t (Or.inr (le_trans (hτ hi) h.1))
  · exact dB_support_left τ hτ q i d t (Or.inr (lt_of_le_of_lt (hτ hi) h.1))

theorem dB_eq_zero_of_mem_of_gt (s : Side) (τ : ℕ → K) (hτ : Monotone τ) (q i d μ : ℕ) (t : K)
    (h : s.mem (τ μ) (τ (μ+1)) t) (hi : μ < i) : dB s τ q i d t = 0 := by
  cases s
  · exact dB_support_right τ hτ q i d t (Or.inl (lt_of_lt_of_le h.2 (hτ hi)))
  · exact dB_support_left τ hτ q i d t (Or.inl (le_trans h.2 (hτ hi)))

/-- Derivative of the partition of unity, summed over an initial segment (side generic). -/
theorem dB_sum_range_eq_zero (s : Side) (τ : ℕ → K) (hτ : Monotone τ) (q μ N d : ℕ)
    (hq : q ≤ μ) (hN : μ < N) (hd : 1 ≤ d) (t : K) (h : s.mem (τ μ) (τ (μ+1)) t) :
    ∑ i ∈ Finset.range N, dB s τ q i d t = 0 := by
  obtain ⟨d, rfl⟩ : ∃ d', d = d'+1 := ⟨d-1, by omega⟩
  cases q with
  | zero =>
    apply Finset.sum_eq_zero
    intro i _
    rw [dB_zero_succ]
  | succ q =>
    have key : ∀ i, dB s τ (q+1) i (d+1) t = ((q : K) + 1) *
        ((fun j => dB s τ q j d t / (τ (j+q+1) - τ j)) i
          - (fun j => dB s τ q j d t / (τ (j+q+1) - τ j)) (i+1)) := by
      intro i
      rw [dB_succ_succ]
      have e : i+1+q+1 = i+q+2 := by omega
      simp only [e]
    rw [Finset.sum_congr rfl (fun i _ => key i), ← Finset.mul_sum, Finset.sum_range_sub']
    have z0 : dB s τ q 0 d t = 0 := dB_eq_zero_of_mem_of_le s τ hτ q 0 d μ t h (by omega)
    have zN : dB s τ q N d t = 0 := dB_eq_zero_of_mem_of_gt s τ hτ q N d μ t h hN
    simp only [z0, zN]
    simp

theorem dB_sum_zero (s : Side) (τ : ℕ → K) (hτ : Monotone τ) (q μ d : ℕ) (hq : q ≤ μ)
    (hd : 1 ≤ d) (t : K) (h : s.mem (τ μ) (τ (μ+1)) t) :
    ∑ i ∈ Finset.Icc (μ - q) μ, dB s τ q i d t = 0 := by
  rw [← dB_sum_range_eq_zero s τ hτ q μ (μ+1) d hq (by omega) hd t h]
  apply Finset.sum_subset
  · intro i hi
    rw [Finset.mem_Icc] at hi
    exact Finset.mem_range.mpr (by omega)
  · intro i hi hni
    rw [Finset.mem_range] at hi
    rw [Finset.mem_Icc] at hni
    exact dB_eq_zero_of_mem_of_le s τ hτ q i d μ t h (by omega)

theorem dB_sum_zero_right (τ : ℕ → K) (hτ : Monotone τ) (q μ d : ℕ) (hq : q ≤ μ) (hd : 1 ≤ d)
    (t : K) (h : τ μ ≤ t ∧ t < τ (μ+1)) :
    ∑ i ∈ Finset.Icc (μ - q) μ, dB .right τ q i d t = 0 :=
  dB_sum_zero .right τ hτ q μ d hq hd t h

theorem dB_sum_zero_left (τ : ℕ → K) (hτ : Monotone τ) (q μ d : ℕ) (hq : q ≤ μ) (hd : 1 ≤ d)
    (t : K) (h : τ μ < t ∧ t ≤ τ (μ+1)) :
    ∑ i ∈ Finset.Icc (μ - q) μ, dB .left τ q i d t = 0 :=
  dB_sum_zero .left τ hτ q μ d hq hd t h


/-! ## 4a. Locality (no order structure needed) -/

theorem B_congr_knots (s : Side) (τ σ : ℕ → K) (q i i' : ℕ) (t : K)
    (h : ∀ j, j ≤ q+1 → τ (i+j) = σ (i'+j)) : B s τ q i t = B s σ q i' t := by
  induction q generalizing i i' with
  | zero =>
    rw [B_zero, B_zero]
    have h0 := h 0 (by omega)
    have h1 := h 1 (by omega)
    simp only [Nat.add_zero] at h0
    rw [h0, h1]
  | succ q ih =>
    rw [B_succ, B_succ]
    have h0 := h 0 (by omega)
    have h1 := h 1 (by omega)
    have h2 := h (q+1) (by omega)
    have h3 := h (q+2) (by omega)
    simp only [Nat.add_zero, ← Nat.add_assoc] at h0 h2 h3
    rw [h0, h1, h2, h3, ih i i' (fun j hj => h j (by omega)),
      ih (i+1) (i'+1) (fun j hj => by
        have e : i+1+j = i+(j+1) := by omega
        have e' : i'+1+j = i'+(j+1) := by omega
        rw [e, e']; exact h (j+1) (by omega))]

theorem dB_congr_knots (s : Side) (τ σ : ℕ → K) (q i i' d : ℕ) (t : K)
    (h : ∀ j, j ≤ q+1 → τ (i+j) = σ (i'+j)) : dB s τ q i d t = dB s σ q i' d t := by
  induction q generalizing i i' d with
  | zero =>
    cases d with
    | zero => rw [dB_zero, dB_zero]; exact B_congr_knots s τ σ 0 i i' t h
    | succ d => rw [dB_zero_succ, dB_zero_succ]
  | succ q ih =>
    cases d with
    | zero => rw [dB_zero, dB_zero]; exact B_congr_knots s τ σ (q+1) i i' t h
    | succ d =>
      rw [dB_succ_succ, dB_succ_succ]
      have h0 := h 0 (by omega)
      have h1 := h 1 (by omega)
      have h2 := h (q+1) (by omega)
      have h3 := h (q+2) (by omega)
      simp only [Nat.add_zero, ← Nat.add_assoc] at h0 h2 h3
      rw [h0, h1, h2, h3, ih i i' d (fun j hj => h j (by omega)),
        ih (i+1) (i'+1) d (fun j hj => by
          have e : i+1+j = i+(j+1) := by omega
          have e' : i'+1+j = i'+(j+1) := by omega
          rw [e, e']; exact h (j+1) (by omega))]

/-! ## 3a. Locating the knot span of a point -/

theorem mem_of_B_ne_zero (s : Side) (τ : ℕ → K) (hτ : Monotone τ) (q i : ℕ) (t : K)
    (h : B s τ q i t ≠ 0) : s.mem (τ i) (τ (i+q+1)) t := by
  cases s
  · exact ⟨le_of_not_gt fun h1 => h (B_support_right τ hτ q i t (Or.inl h1)),
      lt_of_not_ge fun h2 => h (B_support_right τ hτ q i t (Or.inr h2))⟩
  · exact ⟨lt_of_not_ge fun h1 => h (B_support_left τ hτ q i t (Or.inl h1)),
      le_of_not_gt fun h2 => h (B_support_left τ hτ q i t (Or.inr h2))⟩

omit [Field K] in
/-- A point of `[τ a, τ b)` (resp. `(τ a, τ b]`) lies in exactly one non-empty knot span. -/
theorem exists_span (s : Side) (τ : ℕ → K) (hτ : Monotone τ) (a b : ℕ) (t : K)
    (h : s.mem (τ a) (τ b) t) : ∃ μ, a ≤ μ ∧ μ < b ∧ s.mem (τ μ) (τ (μ+1)) t := by
  cases s
  · obtain ⟨h1, h2⟩ := h
    induction b with
    | zero => exact absurd (lt_of_lt_of_le h2 (hτ (Nat.zero_le a))) (not_lt.mpr h1)
    | succ b ih =>
      rcases lt_or_ge t (τ b) with hb | hb
      · obtain ⟨μ, h3, h4, h5⟩ := ih hb
        exact ⟨μ, h3, by omega, h5⟩
      · refine ⟨b, ?_, by omega, hb, h2⟩
        by_contra hab
        exact absurd (lt_of_lt_of_le h2 (hτ (by omega : b+1 ≤ a))) (not_lt.mpr h1)
  · obtain ⟨h1, h2⟩ := h
    induction b with
    | zero => exact absurd (lt_of_lt_of_le h1 h2) (not_lt.mpr (hτ (Nat.zero_le a)))
    | succ b ih =>
      rcases le_or_gt t (τ b) with hb | hb
      · obtain ⟨μ, h3, h4, h5⟩ := ih hb
        exact ⟨μ, h3, by omega, h5⟩
      · refine ⟨b, ?_, by omega, hb, h2⟩
        by_contra hab
        exact absurd (lt_of_lt_of_le h1 h2) (not_lt.mpr (hτ (by omega : b+1 ≤ a)))

/-! ## 6. End-point interpolation at clamped ends -/

/-- If `τ i = … = τ (i+q) < τ (i+q+1)` then `B_{i,q}` equals `1` at `τ i` from the right. -/
theorem B_right_eq_one_of_clamped (τ : ℕ → K) (hτ : Monotone τ) (q i : ℕ)
    (h : τ i = τ (i+q)) (hlt : τ (i+q) < τ (i+q+1)) : B .right τ q i (τ i) = 1 := by
  induction q generalizing i with
  | zero =>
    rw [B_zero, ind, if_pos]
    exact ⟨le_refl _, by simpa using hlt⟩
  | succ q ih =>
    have h1 : τ (i+1) = τ i :=
      le_antisymm (by rw [h]; exact hτ (by omega)) (hτ (by omega))
    have h2 : τ (i+1) = τ (i+1+q) := by
      rw [h1, h]; congr 1; omega
    have h3 : τ (i+1+q) < τ (i+1+q+1) := by
      have e : i+1+q = i+(q+1) := by omega
      rw [e]; exact hlt
    have h4 := ih (i+1) h2 h3
    rw [h1] at h4
    have h5 : τ (i+q+2) - τ (i+1) ≠ 0 := by
      apply sub_ne_zero.mpr
      rw [h1, h]
      exact ne_of_gt hlt
    rw [B_succ, h4, sub_self, zero_div, zero_mul, zero_add, mul_one, ← h1, div_self h5]

/-- If `τ i < τ (i+1) = … = τ (i+q+1)` then `B_{i,q}` equals `1` at `τ (i+q+1)` from the left. -/
theorem B_left_eq_one_of_clamped (τ : ℕ → K) (hτ : Monotone τ) (q i : ℕ)
    (h : τ (i+1) = τ (i+q+1)) (hlt : τ i < τ (i+1)) : B .left τ q i (τ (i+q+1)) = 1 := by
  induction q generalizing i with
  | zero =>
    rw [B_zero, ind, if_pos]
    exact ⟨by simpa using hlt, le_refl _⟩
  | succ q ih =>
    have h1 : τ (i+q+1) = τ (i+q+2) :=
      le_antisymm (hτ (by omega)) (by
        have e : i+q+2 = i+(q+1)+1 := by omega
        rw [e, ← h]; exact hτ (by omega))
    have h2 : τ (i+1) = τ (i+q+1) := by
      have e : i+q+2 = i+(q+1)+1 := by omega
      rw [h1, e]; exact h
    have h4 := ih i h2 hlt
    have h5 : τ (i+q+1) - τ i ≠ 0 := by
      apply sub_ne_zero.mpr
      rw [← h2]
      exact ne_of_gt hlt
    have e : i+(q+1)+1 = i+q+2 := by omega
    rw [e, B_succ, sub_self, zero_div, zero_mul, add_zero, ← h1, h4, mul_one, div_self h5]

theorem B_clamped_start (τ : ℕ → K) (hτ : Monotone τ) (q : ℕ) (h : τ 0 = τ q)
    (hlt : τ q < τ (q+1)) : B .right τ q 0 (τ q) = 1 := by
  have := B_right_eq_one_of_clamped τ hτ q 0 (by simpa using h) (by simpa using hlt)
  rw [h] at this
  exact this

theorem B_clamped_end (τ : ℕ → K) (hτ : Monotone τ) (q n : ℕ) (h : τ n = τ (n+q))
    (hlt : τ (n-1) < τ n) (hn : 1 ≤ n) : B .left τ q (n-1) (τ n) = 1 := by
  obtain ⟨k, rfl⟩ : ∃ k, n = k+1 := ⟨n-1, by omega⟩
  have e : k+1+q = k+q+1 := by omega
  have := B_left_eq_one_of_clamped τ hτ q k (by rw [← e]; exact h) hlt
  rw [← e, ← h] at this
  exact this

/-! # Lemmas that use the ordered-field structure -/

variable [IsStrictOrderedRing K]

/-! ## 2. Non-negativity -/

theorem B_nonneg (s : Side) (τ : ℕ → K) (hτ : Monotone τ) (q i : ℕ) (t : K) :
    0 ≤ B s τ q i t := by
  induction q generalizing i with
  | zero =>
    rw [B_zero]
    cases s <;> simp only [ind] <;> split_ifs <;> simp
  | succ q ih =>
    rw [B_succ]
    apply add_nonneg
    · rcases lt_or_ge t (τ i) with h | h
      · rw [B_eq_zero_of_lt s τ hτ q i t h]; simp
      · apply mul_nonneg _ (ih i)
        apply div_nonneg (sub_nonneg.mpr h)
        exact sub_nonneg.mpr (hτ (by omega))
    · rcases lt_or_ge (τ (i+q+2)) t with h | h
      · rw [B_eq_zero_of_gt s τ hτ q (i+1) t (by
          have e : i+1+q+1 = i+q+2 := by omega
          rw [e]; exact h)]
        simp
      · apply mul_nonneg _ (ih (i+1))
        apply div_nonneg (sub_nonneg.mpr h)
        exact sub_nonneg.mpr (hτ (by omega))



/-! ## 3b. `B ≤ 1` -/

theorem B_le_one_of_le (s : Side) (τ : ℕ → K) (hτ : Monotone τ) (q i : ℕ) (t : K)
    (hqi : q ≤ i) : B s τ q i t ≤ 1 := by
  by_cases h : B s τ q i t = 0
  · rw [h]; exact zero_le_one
  · obtain ⟨μ, h1, h2, h3⟩ := exists_span s τ hτ i (i+q+1) t (mem_of_B_ne_zero s τ hτ q i t h)
    rw [← B_partition s τ hτ q μ (by omega) t h3]
    exact Finset.single_le_sum (f := fun j => B s τ q j t)
      (fun j _ => B_nonneg s τ hτ q j t) (Finset.mem_Icc.mpr ⟨by omega, h1⟩)

theorem B_le_one (s : Side) (τ : ℕ → K) (hτ : Monotone τ) (q i : ℕ) (t : K) :
    B s τ q i t ≤ 1 := by
  have hσ : Monotone (fun j => τ (j - q)) := fun a b hab => hτ (Nat.sub_le_sub_right hab q)
  rw [B_congr_knots s τ (fun j => τ (j - q)) q i (i+q) t (fun j _ => by
    show τ (i+j) = τ (i+q+j-q)
    congr 1; omega)]
  exact B_le_one_of_le s _ hσ q (i+q) t (by omega)

/-! ## 4b. Affine invariance and reflection -/

theorem B_affine (s : Side) (τ : ℕ → K) (q i : ℕ) (t a b : K) (ha : 0 < a) :
    B s (fun j => a * τ j + b) q i (a * t + b) = B s τ q i t := by
  induction q generalizing i with
  | zero =>
    rw [B_zero, B_zero]
    cases s <;>
      simp only [ind, add_le_add_iff_right, add_lt_add_iff_right, mul_le_mul_iff_right₀ ha,
        mul_lt_mul_iff_right₀ ha]
  | succ q ih =>
    rw [B_succ, B_succ, ih, ih]
    have e1 : ∀ x y : K, a * x + b - (a * y + b) = a * (x - y) := fun x y => by ring
    simp only [e1, mul_div_mul_left _ _ ha.ne']

theorem dB_affine (s : Side) (τ : ℕ → K) (q i d : ℕ) (t a b : K) (ha : 0 < a) :
    dB s (fun j => a * τ j + b) q i d (a * t + b) = dB s τ q i d t / a ^ d := by
  induction q generalizing i d with
  | zero =>
    cases d with
    | zero => rw [dB_zero, dB_zero, B_affine s τ 0 i t a b ha]; simp
    | succ d => rw [dB_zero_succ, dB_zero_succ]; simp
  | succ q ih =>
    cases d with
    | zero => rw [dB_zero, dB_zero, B_affine s τ (q+1) i t a b ha]; simp
    | succ d =>
      rw [dB_succ_succ, dB_succ_succ, ih, ih]
      have e1 : ∀ x y : K, a * x + b - (a * y + b) = a * (x - y) := fun x y => by ring
      have e2 : ∀ X Δ : K, X / a ^ d / (a * Δ) = X / Δ / a ^ (d+1) := fun X Δ => by
        rw [div_div, div_div, pow_succ]; congr 1; ring
      simp only [e1, e2]
      ring

/-- Reflection `j ↦ c - τ (m - j)` of the knot sequence swaps the sides (side generic). -/
theorem B_reflect_side (s : Side) (τ : ℕ → K) (m q i : ℕ) (c t : K) (hi : i + q + 1 ≤ m) :
    B s τ q i t = B s.flip (fun j => c - τ (m - j)) q (m - q - 1 - i) (c - t) := by
  induction q generalizing i with
  | zero =>
    rw [B_zero, B_zero]
    have e1 : m - (m - 0 - 1 - i) = i + 1 := by omega
    have e2 : m - (m - 0 - 1 - i + 1) = i := by omega
    simp only [e1, e2]
    cases s <;>
      simp only [ind, Side.flip, sub_lt_sub_iff_left, sub_le_sub_iff_left, and_comm]
  | succ q ih =>
    rw [B_succ, B_succ, ih i (by omega), ih (i+1) (by omega)]
    have e1 : m - (m - (q+1) - 1 - i) = i + q + 2 := by omega
    have e2 : m - (m - (q+1) - 1 - i + q + 1) = i + 1 := by omega
    have e3 : m - (m - (q+1) - 1 - i + q + 2) = i := by omega
    have e4 : m - (m - (q+1) - 1 - i + 1) = i + q + 1 := by omega
    have e5 : m - q - 1 - (i + 1) = m - (q+1) - 1 - i := by omega
    have e6 : m - q - 1 - i = m - (q+1) - 1 - i + 1 := by omega
    simp only [e1, e2, e3, e4, e5]
    rw [e6]
    have a1 : c - t - (c - τ (i+q+2)) = τ (i+q+2) - t := by ring
    have a2 : c - τ (i+1) - (c - τ (i+q+2)) = τ (i+q+2) - τ (i+1) := by ring
    have a3 : c - τ i - (c - t) = t - τ i := by ring
    have a4 : c - τ i - (c - τ (i+q+1)) = τ (i+q+1) - τ i := by ring
    rw [a1, a2, a3, a4]
    ring

theorem B_reflect (τ : ℕ → K) (m q i : ℕ) (c t : K) (hi : i + q + 1 ≤ m) :
    B .right τ q i t = B .left (fun j => c - τ (m - j)) q (m - q - 1 - i) (c - t) :=
  B_reflect_side .right τ m q i c t hi

theorem B_reflect' (τ : ℕ → K) (m q i : ℕ) (c t : K) (hi : i + q + 1 ≤ m) :
    B .left τ q i t = B .right (fun j => c - τ (m - j)) q (m - q - 1 - i) (c - t) :=
  B_reflect_side .left τ m q i c t hi

theorem dB_reflect_side (s : Side) (τ : ℕ → K) (m q i d : ℕ) (c t : K) (hi : i + q + 1 ≤ m) :
    dB s τ q i d t
      = (-1) ^ d * dB s.flip (fun j => c - τ (m - j)) q (m - q - 1 - i) d (c - t) := by
  induction q generalizing i d with
  | zero =>
    cases d with
    | zero => rw [dB_zero, dB_zero, B_reflect_side s τ m 0 i c t hi]; simp
    | succ d => rw [dB_zero_succ, dB_zero_succ]; simp
  | succ q ih =>
    cases d with
    | zero => rw [dB_zero, dB_zero, B_reflect_side s τ m (q+1) i c t hi]; simp
    | succ d =>
      rw [dB_succ_succ, dB_succ_succ, ih i d (by omega), ih (i+1) d (by omega)]
      have e1 : m - (m - (q+1) - 1 - i) = i + q + 2 := by omega
      have e2 : m - (m - (q+1) - 1 - i + q + 1) = i + 1 := by omega
      have e3 : m - (m - (q+1) - 1 - i + q + 2) = i := by omega
      have e4 : m - (m - (q+1) - 1 - i + 1) = i + q + 1 := by omega
      have e5 : m - q - 1 - (i + 1) = m - (q+1) - 1 - i := by omega
      have e6 : m - q - 1 - i = m - (q+1) - 1 - i + 1 := by omega
      simp only [e1, e2, e3, e4, e5]
      rw [e6]
      have a2 : c - τ (i+1) - (c - τ (i+q+2)) = τ (i+q+2) - τ (i+1) := by ring
      have a4 : c - τ i - (c - τ (i+q+1)) = τ (i+q+1) - τ i := by ring
      rw [a2, a4]
      ring

theorem dB_reflect (τ : ℕ → K) (m q i d : ℕ) (c t : K) (hi : i + q + 1 ≤ m) :
    dB .right τ q i d t
      = (-1) ^ d * dB .left (fun j => c - τ (m - j)) q (m - q - 1 - i) d (c - t) :=
  dB_reflect_side .right τ m q i d c t hi

theorem dB_reflect' (τ : ℕ → K) (m q i d : ℕ) (c t : K) (hi : i + q + 1 ≤ m) :
    dB .left τ q i d t
      = (-1) ^ d * dB .right (fun j => c - τ (m - j)) q (m - q - 1 - i) d (c - t) :=
  dB_reflect_side .left τ m q i d c t hi

end Splipy
