import Splipy.Lemmas.C10Cummax
import Splipy.Lemmas.C10Insert
import Splipy.Lemmas.C10Ctor
import Splipy.Lemmas.C07Piece
import Splipy.Model.Split
import Splipy.Model.History

/-!
# C10 helper lemmas: `SplineObject.split` along a non-periodic direction returns well-formed pieces

`split(knots, direction)` (model `Obj.split`) on a non-periodic direction

1. inserts every split value up to multiplicity `p` (`Obj.splitInsert`), and
2. cuts the refined object at the indices `bisect_left(knots, k)` (`Obj.splitPieces`).

* `C10.splitInsert_inv`  : loop 1 keeps the object well formed, with the same number of bases and, along
  `dir`, the same periodicity, start, end, order and the same number of knots `≥ end`;
* `C10.piece_wf`         : one slice (knots `lo .. hi+p-1`, control points `lo .. hi-1`) of a well-formed
  object is well formed as soon as its domain is not empty;
* `C10.splitPieces_wf`   : every piece but the last is well formed (its domain is never empty: the knots
  before `bisect_left(k)` are `< k`, the knot at that index is `≥ k`); the last piece is well formed
  as soon as `start < end` holds for it, which is the case when the end knot of the original basis has
  multiplicity at most `p` (`kn (size - p - 1) < end`);
* `History.stepOut_split_wf_last_partial`, `History.stepOut_split_wf_partial`,
  `History.stepOut_split_wf_end_partial` : the history step.

The constructor `BSplineBasis.__init__` does not test `start < end`.  For the last piece this can fail:
order 2, knots `[0, 0, .5 - tol/2, 1, 1, 1]` (valid: `start = 0 < end = 1`), split at `.5`: the continuity
look-up finds one knot within the tolerance and one copy of `.5` is inserted, the last piece gets the
knots `[.5, 1, 1, 1]`, which the constructor accepts, with `start = end = 1`.
-/

set_option linter.unusedSectionVars false
set_option linter.unusedVariables false

namespace Splipy

variable {K : Type} [Field K] [LinearOrder K] [IsStrictOrderedRing K] [FloorRing K]

namespace C10

theorem bind_ok {ε α β : Type} {x : Except ε α} {f : α → Except ε β} {b : β}
    (h : x >>= f = .ok b) : ∃ a, x = .ok a ∧ f a = .ok b := by
  cases x with
  | error err => cases h
  | ok a => exact ⟨a, rfl, h⟩

/-! ## the number of knots `≥ e` -/

/-- Number of knots `≥ e`. -/
def countGe (b : Basis K) (e : K) : ℕ := b.knots.toList.countP (fun x => decide (e ≤ x))

theorem toList_getElem_eq_kn (b : Basis K) (i : ℕ) (h : i < b.knots.toList.length) :
    b.knots.toList[i] = b.kn i := by
  have h' : i < b.knots.size := by simpa using h
  rw [C04.kn_of_lt b h']
  simp

/-- The knot before the last `p` ones is `< e` ⇒ at most `p` knots are `≥ e`. -/
theorem countGe_le_of_end {b : Basis K} (hv : b.Valid) (e : K)
    (hend : b.kn (b.knots.size - b.order - 1) < e) : countGe b e ≤ b.order := by
  have hmono : Monotone b.kn := C04.kn_mono hv.sorted
  have hp := hv.order_pos
  have hsz := hv.size_ge
  unfold countGe
  rw [← List.take_append_drop (b.knots.size - b.order) b.knots.toList, List.countP_append]
  have h0 : (b.knots.toList.take (b.knots.size - b.order)).countP (fun x => decide (e ≤ x)) = 0 := by
    rw [List.countP_eq_zero]
    intro a ha
    obtain ⟨i, hi, rfl⟩ := List.getElem_of_mem ha
    have hi' : i < b.knots.size - b.order := by
      rw [List.length_take] at hi; omega
    rw [List.getElem_take, toList_getElem_eq_kn]
    simp only [decide_eq_true_eq, not_le]
    exact lt_of_le_of_lt (hmono (by omega)) hend
  rw [h0, Nat.zero_add]
  refine le_trans List.countP_le_length ?_
  rw [List.length_drop, Array.length_toList]
  omega

/-- At most `p` knots are `≥ e` ⇒ the knot before the last `p` ones is `< e`. -/
theorem end_of_countGe_le {b : Basis K} (hv : b.Valid) (e : K) (hc : countGe b e ≤ b.order) :
    b.kn (b.knots.size - b.order - 1) < e := by
  have hmono : Monotone b.kn := C04.kn_mono hv.sorted
  have hp := hv.order_pos
  have hsz := hv.size_ge
  by_contra hcon
  rw [not_lt] at hcon
  have hge : b.order + 1 ≤ countGe b e := by
    unfold countGe
    rw [← List.take_append_drop (b.knots.size - b.order - 1) b.knots.toList, List.countP_append]
    have h1 : (b.knots.toList.drop (b.knots.size - b.order - 1)).countP (fun x => decide (e ≤ x))
        = (b.knots.toList.drop (b.knots.size - b.order - 1)).length := by
      rw [List.countP_eq_length]
      intro a ha
      obtain ⟨i, hi, rfl⟩ := List.getElem_of_mem ha
      rw [List.getElem_drop, toList_getElem_eq_kn]
      simp only [decide_eq_true_eq]
      exact le_trans hcon (hmono (by omega))
    rw [h1, List.length_drop, Array.length_toList]
    omega
  omega

/-! ## the insertion loop -/

/-- Invariant of the insertion loop of `split` along the non-periodic direction `dir`: well formed,
    `n` bases, direction `dir` non-periodic with start `s`, end `e`, order `p` and `c` knots `≥ e`. -/
def SplitInv (dir n : ℕ) (s e : K) (p c : ℕ) (so : Obj K) : Prop :=
  so.WellFormed ∧ so.bases.size = n ∧ (so.basis dir).periodic = -1 ∧ (so.basis dir).start = s ∧
    (so.basis dir).stop = e ∧ (so.basis dir).order = p ∧ countGe (so.basis dir) e = c

theorem SplitInv.insertKnots {dir n : ℕ} {s e : K} {p c : ℕ} {so so' : Obj K}
    (h : SplitInv dir n s e p c so) (hd : dir < n) (xs : List K) (hxs : ∀ x ∈ xs, s ≤ x ∧ x < e)
    (hs : so.insertKnots xs dir = .ok so') : SplitInv dir n s e p c so' := by
  obtain ⟨hw, hn, hper, hst, hen, hp, hc⟩ := h
  have hd' : dir < so.bases.size := by rw [hn]; exact hd
  have hxs' : ∀ x ∈ xs, (so.basis dir).start ≤ x ∧ x < (so.basis dir).stop := by
    rw [hst, hen]; exact hxs
  obtain ⟨hw', hn', _, hper', hst', hen'⟩ := hw.insertKnots dir hd' hper xs hxs' hs
  obtain ⟨o2, C, hs2, href, hperm, _⟩ := C04.insertKnots_fibres so dir hd'
    (by rw [hw.shape_length]; omega) (hw.valid dir hd') hper (hw.shape_getD dir 0 hd') xs hxs'
  rw [hs] at hs2
  have e2 : so' = o2 := Except.ok.inj hs2
  subst e2
  refine ⟨hw', hn'.trans hn, hper', hst'.trans hst, hen'.trans hen, href.order_eq.trans hp, ?_⟩
  rw [← hc]
  unfold countGe
  rw [hperm.countP_eq, List.countP_append]
  have h0 : xs.countP (fun x => decide (e ≤ x)) = 0 := by
    rw [List.countP_eq_zero]
    intro a ha
    simp only [decide_eq_true_eq, not_le]
    exact (hxs a ha).2
  rw [h0, Nat.zero_add]

theorem SplitInv.insertKnotsSeq {dir n : ℕ} {s e : K} {p c : ℕ} (hd : dir < n) (xs : List K)
    (hxs : ∀ x ∈ xs, s ≤ x ∧ x < e) :
    ∀ {so so' : Obj K}, SplitInv dir n s e p c so → so.insertKnotsSeq xs dir = .ok so' →
      SplitInv dir n s e p c so' := by
  induction xs with
  | nil =>
    intro so so' h hs
    have : so = so' := Except.ok.inj hs
    rw [← this]; exact h
  | cons x xs ih =>
    intro so so' h hs
    unfold Obj.insertKnotsSeq at hs
    rw [List.foldlM_cons] at hs
    have hper := h.2.2.1
    simp only [] at hs
    rw [if_neg (by rw [hper]; rintro ⟨h0, _⟩; exact absurd h0 (by decide))] at hs
    obtain ⟨o1, hres, hrest⟩ := bind_ok hs
    have h1 := h.insertKnots hd [x] (by
      intro y hy
      rw [List.mem_singleton] at hy
      rw [hy]; exact hxs x List.mem_cons_self) hres
    exact ih (fun y hy => hxs y (List.mem_cons_of_mem _ hy)) h1 hrest

/-- The insertion loop of `split`, started from any object satisfying the invariant. -/
theorem SplitInv.splitInsertFold {dir n : ℕ} {s e : K} {p c : ℕ} (hd : dir < n) (o : Obj K) (tol : K)
    (knots : List K) (hk : ∀ k ∈ knots, s ≤ k ∧ k < e) :
    ∀ {so so' : Obj K}, SplitInv dir n s e p c so →
      knots.foldlM (fun (so : Obj K) k => do
        let c ← (o.basis dir).continuity tol k
        let cont : Int := match c with
          | none => ((o.basis dir).order : Int) - 1
          | some c => c
        so.insertKnots (List.replicate (cont + 1).toNat k) dir) so = .ok so' →
      SplitInv dir n s e p c so' := by
  induction knots with
  | nil =>
    intro so so' h hs
    have : so = so' := Except.ok.inj hs
    rw [← this]; exact h
  | cons k ks ih =>
    intro so so' h hs
    rw [List.foldlM_cons] at hs
    obtain ⟨so1, hstep, hrest⟩ := bind_ok hs
    obtain ⟨c, hc, hins⟩ := bind_ok hstep
    have hkk := hk k List.mem_cons_self
    have h1 := h.insertKnots hd _ (by
      intro y hy
      rw [List.eq_of_mem_replicate hy]; exact hkk) hins
    exact ih (fun y hy => hk y (List.mem_cons_of_mem _ hy)) h1 hrest

/-- **The first loop of `split` keeps the object well formed**, with the same number of bases and,
    along `dir`, the same periodicity, start, end, order and number of knots `≥ end`. -/
theorem splitInsert_inv {o so : Obj K} (h : o.WellFormed) (tol : K) (knots : List K) (dir : ℕ)
    (hd : dir < o.bases.size) (hper : (o.basis dir).periodic = -1)
    (hk : ∀ k ∈ knots, (o.basis dir).start ≤ k ∧ k < (o.basis dir).stop)
    (hs : o.splitInsert tol knots dir = .ok so) :
    SplitInv dir o.bases.size (o.basis dir).start (o.basis dir).stop (o.basis dir).order
      (countGe (o.basis dir) (o.basis dir).stop) so :=
  SplitInv.splitInsertFold hd o tol knots hk ⟨h, rfl, hper, rfl, rfl, rfl, rfl⟩ hs

/-- `splitInsert_inv` without the auxiliary predicate. -/
theorem splitInsert_wf {o so : Obj K} (h : o.WellFormed) (tol : K) (knots : List K) (dir : ℕ)
    (hd : dir < o.bases.size) (hper : (o.basis dir).periodic = -1)
    (hk : ∀ k ∈ knots, (o.basis dir).start ≤ k ∧ k < (o.basis dir).stop)
    (hs : o.splitInsert tol knots dir = .ok so) :
    so.WellFormed ∧ so.bases.size = o.bases.size ∧ (so.basis dir).periodic = -1 ∧
      (so.basis dir).start = (o.basis dir).start ∧ (so.basis dir).stop = (o.basis dir).stop ∧
      (so.basis dir).order = (o.basis dir).order := by
  obtain ⟨h1, h2, h3, h4, h5, h6, _⟩ := splitInsert_inv h tol knots dir hd hper hk hs
  exact ⟨h1, h2, h3, h4, h5, h6⟩

/-! ## one piece -/

/-- What a successful non-periodic constructor call returns and implies. -/
theorem mk?_ok_inv {p : ℕ} {knots : Array K} {tol : K} {nb : Basis K}
    (h : Basis.mk? p knots (-1) tol = .ok nb) :
    nb = { order := p, knots := Basis.cummax knots, periodic := -1 } ∧ 1 ≤ p ∧ 2 * p ≤ knots.size := by
  rcases Basis.mk?_cases p knots (-1) tol with he | ho
  · rw [he] at h; cases h
  · have hn := (Basis.mk?_ok_iff p knots (-1) tol).1 ho
    rw [ho] at h
    refine ⟨(Except.ok.inj h).symm, ?_, ?_⟩
    · by_contra hc; exact hn (Or.inl (by omega))
    · by_contra hc; exact hn (Or.inr (Or.inl (by omega)))

/-- **One piece of `split`**: the knots `lo .. hi+p-1` and the control points `lo .. hi-1` of a well-formed
    object, along a non-periodic direction, form a well-formed object as soon as the domain of the knot
    slice is not empty. -/
theorem piece_wf {so : Obj K} (h : so.WellFormed) (dir : ℕ) (hd : dir < so.bases.size)
    (hper : (so.basis dir).periodic = -1) (lo hi : ℕ) (h1 : lo + (so.basis dir).order ≤ hi)
    (h2 : hi + (so.basis dir).order ≤ (so.basis dir).knots.size)
    (hdom : ((so.basis dir).piece lo hi).start < ((so.basis dir).piece lo hi).stop) :
    ({ bases := so.bases.set! dir ((so.basis dir).piece lo hi), cps := so.cps.sliceAxis dir lo hi,
       rational := so.rational } : Obj K).WellFormed := by
  have hv := h.valid dir hd
  have hp := hv.order_pos
  have hpv : ((so.basis dir).piece lo hi).Valid := Basis.piece_valid hv lo hi h1 h2 (by
    rw [← Basis.piece_start _ lo hi hp h2 (by omega), ← Basis.piece_stop _ lo hi hp h2 (by omega)]
    exact hdom)
  exact h.reindex dir (hi - lo) (fun r => lo + r) _ hd hpv
    (Basis.piece_numFunctions _ lo hi h2 (by omega)) (by
      intro r hr
      unfold Basis.numFunctions
      rw [hper]
      simp only [Int.reduceNeg, Int.add_left_neg, Int.toNat_zero, Nat.sub_zero]
      omega)

/-- The basis of direction `dir` of a piece. -/
theorem piece_basis (so : Obj K) (dir : ℕ) (hd : dir < so.bases.size) (nb : Basis K) (cps : Tensor K) :
    ({ bases := so.bases.set! dir nb, cps := cps, rational := so.rational } : Obj K).basis dir = nb :=
  C04.basis_set so dir hd nb cps

/-- `bisect_left(knots, k) + p ≤ len(knots)` for `k < end`. -/
theorem bisectL_add_order_le {b : Basis K} (hv : b.Valid) {k : K} (hk : k < b.stop) :
    b.bisectL k + b.order ≤ b.knots.size := by
  have hmono : Monotone b.kn := C04.kn_mono hv.sorted
  obtain ⟨hm1, hm2, _⟩ := bisectLeft_spec b.kn hmono k b.knots.size
  have hp := hv.order_pos
  have hsz := hv.size_ge
  by_contra hlt
  have h2 : b.kn (b.knots.size - b.order) < k := hm2 _ (by unfold Basis.bisectL at hlt; omega)
  exact absurd hk (not_lt.2 (le_of_lt h2))

/-- The knots before `bisect_left(knots, k)` are `< k`, the one at that index is `≥ k`. -/
theorem kn_lt_kn_bisectL {b : Basis K} (hv : b.Valid) {k : K} (hk : k < b.stop) (i : ℕ)
    (hi : i < b.bisectL k) : b.kn i < b.kn (b.bisectL k) := by
  have hmono : Monotone b.kn := C04.kn_mono hv.sorted
  have hle := bisectL_add_order_le hv hk
  have hp := hv.order_pos
  obtain ⟨_, hm2, hm3⟩ := bisectLeft_spec b.kn hmono k b.knots.size
  exact lt_of_lt_of_le (hm2 i hi) (hm3 _ (le_refl _) (by unfold Basis.bisectL at hle ⊢; omega))

/-- The piece cut off by `splitPieces` between the knot indices `lo` and `hi` (`hi + p ≤ len(knots)`),
    given that the constructor accepted its knot vector. -/
theorem piece_of_mk? {self so : Obj K} {dir n c : ℕ}
    (hso : SplitInv dir n (self.basis dir).start (self.basis dir).stop (self.basis dir).order c so)
    (hd : dir < n) (tol : K) (lo hi : ℕ) (h2 : hi + (so.basis dir).order ≤ (so.basis dir).knots.size)
    {nb : Basis K}
    (hmk : Basis.mk? (self.basis dir).order
      ((so.basis dir).knots.extract lo (hi + (self.basis dir).order)) (-1) tol = .ok nb) :
    lo + (so.basis dir).order ≤ hi ∧
      nb.start = (so.basis dir).kn (lo + (so.basis dir).order - 1) ∧ nb.stop = (so.basis dir).kn hi ∧
      (nb.start < nb.stop → ∀ pc : Obj K,
        pc = ⟨so.bases.set! dir nb, so.cps.sliceAxis dir lo hi, so.rational⟩ → pc.WellFormed) := by
  obtain ⟨hw, hn, hper, _, _, hord, _⟩ := hso
  have hd' : dir < so.bases.size := by rw [hn]; exact hd
  rw [← hord] at hmk
  obtain ⟨hnb, hp, hsz⟩ := mk?_ok_inv hmk
  rw [Array.size_extract, Nat.min_eq_left h2] at hsz
  rw [Basis.cummax_extract_of_sorted _ _ _
    (Basis.sorted_getD_of_kn _ (hw.valid dir hd').sorted)] at hnb
  have hnb' : nb = (so.basis dir).piece lo hi := hnb
  have hlo : lo + (so.basis dir).order ≤ hi := by omega
  refine ⟨hlo, ?_, ?_, ?_⟩
  · rw [hnb']; exact Basis.piece_start _ lo hi hp h2 (by omega)
  · rw [hnb']; exact Basis.piece_stop _ lo hi hp h2 (by omega)
  · intro hdom pc hpc
    rw [hpc, hnb']
    rw [hnb'] at hdom
    exact piece_wf hw dir hd' hper lo hi hlo h2 hdom

/-! ## the loop of `splitPieces` -/

/-- Body of the loop of `Obj.splitPieces` (copied verbatim). -/
def splitStep (self so : Obj K) (tol : K) (dir : ℕ) (st : List (Obj K) × ℕ × ℕ) (k : K) :
    PyM (List (Obj K) × ℕ × ℕ) :=
  let p := (self.basis dir).order
  let b := so.basis dir
  let s := (self.basis dir).start
  let e := (self.basis dir).stop
  let (res, lastCp, lastKnot) := st
  if s < k ∧ k < e then do
    let mu := b.bisectL k
    let nCp := mu - lastKnot
    let cp := so.cps.sliceAxis dir lastCp (lastCp + nCp)
    let nb ← Basis.mk? p (b.knots.extract lastKnot (mu + p)) (-1) tol
    pure (res ++ [{ bases := so.bases.set! dir nb, cps := cp, rational := so.rational }],
          lastCp + nCp, mu)
  else pure st

theorem splitPieces_eq (self so : Obj K) (tol : K) (knots : List K) (dir : ℕ) :
    Obj.splitPieces self so tol knots dir = (do
      let st ← knots.foldlM (splitStep self so tol dir) ([], 0, 0)
      let nb ← Basis.mk? (self.basis dir).order
        ((so.basis dir).knots.extract st.2.2 (so.basis dir).knots.size) (-1) tol
      pure (st.1 ++ [{ bases := so.bases.set! dir nb,
                       cps := so.cps.sliceAxis dir st.2.1 (so.cps.shape.getD dir 0),
                       rational := so.rational }])) := rfl

/-- Invariant of the loop of `splitPieces`: every piece collected so far is well formed and
    `last_cp_i = last_knot_i`. -/
def PiecesInv (st : List (Obj K) × ℕ × ℕ) : Prop :=
  (∀ n ∈ st.1, n.WellFormed) ∧ st.2.1 = st.2.2

theorem splitStep_inv {self so : Obj K} {dir n c : ℕ}
    (hso : SplitInv dir n (self.basis dir).start (self.basis dir).stop (self.basis dir).order c so)
    (hd : dir < n) (tol : K) (st st' : List (Obj K) × ℕ × ℕ) (k : K) (hst : PiecesInv st)
    (hs : splitStep self so tol dir st k = .ok st') : PiecesInv st' := by
  obtain ⟨res, lastCp, lastKnot⟩ := st
  obtain ⟨hres, hcp⟩ := hst
  have hcp' : lastCp = lastKnot := hcp
  subst hcp'
  unfold splitStep at hs
  simp only [] at hs
  by_cases hc : (self.basis dir).start < k ∧ k < (self.basis dir).stop
  · rw [if_pos hc] at hs
    obtain ⟨nb, hmk, hpure⟩ := bind_ok hs
    have hst' := Except.ok.inj hpure
    have hd' : dir < so.bases.size := by rw [hso.2.1]; exact hd
    have hv := hso.1.valid dir hd'
    have hp := hv.order_pos
    have hke : k < (so.basis dir).stop := by rw [hso.2.2.2.2.1]; exact hc.2
    have hmu : (so.basis dir).bisectL k + (so.basis dir).order ≤ (so.basis dir).knots.size :=
      bisectL_add_order_le hv hke
    obtain ⟨hlo, hstart, hstop, hwf⟩ := piece_of_mk? hso hd tol lastCp _ hmu hmk
    have hle : lastCp ≤ (so.basis dir).bisectL k := by omega
    have hdom : nb.start < nb.stop := by
      rw [hstart, hstop]
      exact kn_lt_kn_bisectL hv hke _ (by omega)
    have hadd : lastCp + ((so.basis dir).bisectL k - lastCp) = (so.basis dir).bisectL k := by omega
    rw [← hst']
    refine ⟨?_, hadd⟩
    intro n hn
    rcases List.mem_append.1 hn with h1 | h1
    · exact hres n h1
    · rw [List.mem_singleton] at h1
      exact hwf hdom n (by rw [h1, hadd])
  · rw [if_neg hc] at hs
    have hst' := Except.ok.inj hs
    rw [← hst']
    exact ⟨hres, rfl⟩

theorem splitFold_inv {self so : Obj K} {dir n c : ℕ}
    (hso : SplitInv dir n (self.basis dir).start (self.basis dir).stop (self.basis dir).order c so)
    (hd : dir < n) (tol : K) (knots : List K) :
    ∀ (st st' : List (Obj K) × ℕ × ℕ), PiecesInv st →
      knots.foldlM (splitStep self so tol dir) st = .ok st' → PiecesInv st' := by
  induction knots with
  | nil =>
    intro st st' h hs
    have : st = st' := Except.ok.inj hs
    rw [← this]; exact h
  | cons k ks ih =>
    intro st st' h hs
    rw [List.foldlM_cons] at hs
    obtain ⟨st1, hstep, hrest⟩ := bind_ok hs
    exact ih st1 st' (splitStep_inv hso hd tol st st1 k h hstep) hrest

/-- **The second loop of `split`** (non-periodic branch): the result is `init ++ [last]`, every piece of
    `init` is well formed, `last` is well formed as soon as its domain is not empty, and its domain is not
    empty when at most `p` knots are `≥ end`. -/
theorem splitPieces_wf {self so : Obj K} {dir n c : ℕ}
    (hso : SplitInv dir n (self.basis dir).start (self.basis dir).stop (self.basis dir).order c so)
    (hd : dir < n) (tol : K) (knots : List K) {ps : List (Obj K)}
    (hs : Obj.splitPieces self so tol knots dir = .ok ps) :
    ∃ init last, ps = init ++ [last] ∧ (∀ pc ∈ init, pc.WellFormed) ∧
      ((last.basis dir).start < (last.basis dir).stop → last.WellFormed) ∧
      (c ≤ (self.basis dir).order → (last.basis dir).start < (last.basis dir).stop) := by
  rw [splitPieces_eq] at hs
  obtain ⟨st, hfold, hrest⟩ := bind_ok hs
  obtain ⟨nb, hmk, hpure⟩ := bind_ok hrest
  have hps := Except.ok.inj hpure
  obtain ⟨hres, hcp⟩ := splitFold_inv hso hd tol knots _ st
    ⟨fun n hn => absurd hn List.not_mem_nil, rfl⟩ hfold
  have hd' : dir < so.bases.size := by rw [hso.2.1]; exact hd
  have hv := hso.1.valid dir hd'
  have hmono : Monotone (so.basis dir).kn := C04.kn_mono hv.sorted
  have hp := hv.order_pos
  have hsz := hv.size_ge
  have hord := hso.2.2.2.2.2.1
  have hnum : so.cps.shape.getD dir 0 = (so.basis dir).knots.size - (so.basis dir).order := by
    rw [hso.1.shape_getD dir 0 hd']
    unfold Basis.numFunctions
    rw [hso.2.2.1]
    simp only [Int.reduceNeg, Int.add_left_neg, Int.toNat_zero, Nat.sub_zero]
  have hcancel : (so.basis dir).knots.size - (so.basis dir).order + (self.basis dir).order
      = (so.basis dir).knots.size := by rw [← hord]; omega
  obtain ⟨hlo, hstart, hstop, hwf⟩ := piece_of_mk? hso hd tol st.2.2
    ((so.basis dir).knots.size - (so.basis dir).order) (by omega) (by rw [hcancel]; exact hmk)
  refine ⟨st.1, _, hps.symm, hres, ?_, ?_⟩
  · intro hdom
    rw [piece_basis so dir hd'] at hdom
    exact hwf hdom _ (by rw [hnum, hcp])
  · intro hc
    rw [piece_basis so dir hd', hstart, hstop]
    have hend : (so.basis dir).kn ((so.basis dir).knots.size - (so.basis dir).order - 1)
        < (self.basis dir).stop :=
      end_of_countGe_le hv _ (by rw [hso.2.2.2.2.2.2, hord]; exact hc)
    have hstop' : (so.basis dir).kn ((so.basis dir).knots.size - (so.basis dir).order)
        = (self.basis dir).stop := hso.2.2.2.2.1
    rw [hstop']
    exact lt_of_le_of_lt (hmono (by omega)) hend

end C10

/-! ## `Obj.split` and the history step -/

namespace Obj

open C10

/-- **`split` along a non-periodic direction**: the result is a list `init ++ [last]`; every piece of
    `init` is well formed; `last` is well formed as soon as its domain is not empty, which is the case
    when the end knot of the direction has multiplicity at most `p`. -/
theorem WellFormed.split {o : Obj K} (h : o.WellFormed) (tol : K) (knots : List K) (dir : ℕ)
    (hd : dir < o.bases.size) (hper : (o.basis dir).periodic = -1)
    (hk : ∀ k ∈ knots, (o.basis dir).start ≤ k ∧ k < (o.basis dir).stop)
    {r : SplitRes K} (hs : o.split tol knots dir = .ok r) :
    ∃ init last, r = .many (init ++ [last]) ∧ (∀ pc ∈ init, pc.WellFormed) ∧
      ((last.basis dir).start < (last.basis dir).stop → last.WellFormed) ∧
      ((o.basis dir).kn ((o.basis dir).knots.size - (o.basis dir).order - 1) < (o.basis dir).stop →
        (last.basis dir).start < (last.basis dir).stop) := by
  unfold Obj.split at hs
  obtain ⟨so, hins, hrest⟩ := bind_ok hs
  have hinv := splitInsert_inv h tol knots dir hd hper hk hins
  simp only [] at hrest
  rw [if_neg (show ¬ (so.basis dir).periodic > -1 by rw [hinv.2.2.1]; decide)] at hrest
  obtain ⟨ps, hps, hpure⟩ := bind_ok hrest
  have hr : SplitRes.many ps = r := Except.ok.inj hpure
  obtain ⟨init, last, hpl, hinit, hlast, hdom⟩ := splitPieces_wf hinv hd tol knots hps
  refine ⟨init, last, by rw [← hr, hpl], hinit, hlast, fun hend => hdom ?_⟩
  exact countGe_le_of_end (h.valid dir hd) _ hend

end Obj

namespace History

open C10

/-- `_partial`: the split values must lie in `[start, stop)` of the (non-periodic) direction (outside
    `[start, stop]` the call raises; `stop` itself is not covered).  The receiver is untouched, the call
    returns `init ++ [last]`, every piece of `init` is well formed, the last piece is well formed as soon as
    `start < end` holds for it, which is the case when the end knot of the direction has multiplicity at
    most `p` (`hend`). -/
theorem stepOut_split_wf_last_partial {o : Obj K} (h : o.WellFormed) (tol : K) (knots : List K)
    (dir : ℕ) (hper : (o.basis dir).periodic = -1)
    (hk : ∀ k ∈ knots, (o.basis dir).start ≤ k ∧ k < (o.basis dir).stop)
    {out : Out K} (hs : stepOut tol o (.split knots dir) = .ok out) :
    out.recv = o ∧ ∃ init last, out.news = init ++ [last] ∧ (∀ n ∈ init, n.WellFormed) ∧
      ((last.basis dir).start < (last.basis dir).stop → last.WellFormed) ∧
      ((o.basis dir).kn ((o.basis dir).knots.size - (o.basis dir).order - 1) < (o.basis dir).stop →
        (last.basis dir).start < (last.basis dir).stop) := by
  change (if dir < o.pardim then (o.split tol knots dir).map (fun r => match r with
          | .single p => ({ recv := o, news := [p] } : Out K)
          | .many ps => { recv := o, news := ps })
      else .error .value) = .ok out at hs
  by_cases hpd : dir < o.pardim
  · rw [if_pos hpd] at hs
    have hd : dir < o.bases.size := by rw [← h.pardim_eq]; exact hpd
    cases hres : o.split tol knots dir with
    | error e => rw [hres] at hs; cases hs
    | ok r =>
      rw [hres] at hs
      obtain ⟨init, last, hr, hinit, hlast, hdom⟩ := h.split tol knots dir hd hper hk hres
      rw [hr] at hs
      have : ({ recv := o, news := init ++ [last] } : Out K) = out := Except.ok.inj hs
      rw [← this]
      exact ⟨rfl, init, last, rfl, hinit, hlast, hdom⟩
  · rw [if_neg hpd] at hs
    cases hs

/-- `_partial`: the split values must lie in `[start, stop)` of the direction (outside `[start, stop]` the
    call raises; `stop` itself is not covered), and `start < stop` of every returned piece is a hypothesis
    (`hdom`; it is only used for the last piece, see `stepOut_split_wf_last_partial`).  `htol` is not
    used. -/
theorem stepOut_split_wf_partial {o : Obj K} (h : o.WellFormed) (tol : K) (htol : 0 ≤ tol)
    (knots : List K) (dir : ℕ) (hper : (o.basis dir).periodic = -1)
    (hk : ∀ k ∈ knots, (o.basis dir).start ≤ k ∧ k < (o.basis dir).stop)
    {out : Out K} (hs : stepOut tol o (.split knots dir) = .ok out)
    (hdom : ∀ n ∈ out.news, (n.basis dir).start < (n.basis dir).stop) :
    out.recv.WellFormed ∧ ∀ n ∈ out.news, n.WellFormed := by
  obtain ⟨hrecv, init, last, hnews, hinit, hlast, _⟩ :=
    stepOut_split_wf_last_partial h tol knots dir hper hk hs
  refine ⟨by rw [hrecv]; exact h, fun n hn => ?_⟩
  have hn' := hn
  rw [hnews] at hn'
  rcases List.mem_append.1 hn' with h1 | h1
  · exact hinit n h1
  · rw [List.mem_singleton] at h1
    rw [h1]
    exact hlast (by rw [← h1]; exact hdom n hn)

/-- `_partial`: the split values must lie in `[start, stop)` of the direction.  No hypothesis on the
    pieces: `start < stop` of every piece is derived from `hend`, "the knot before the last `p` knots is
    smaller than the end of the domain" (the end knot has multiplicity at most `p`; true for every
    knot vector built by the factories). -/
theorem stepOut_split_wf_end_partial {o : Obj K} (h : o.WellFormed) (tol : K) (knots : List K)
    (dir : ℕ) (hper : (o.basis dir).periodic = -1)
    (hk : ∀ k ∈ knots, (o.basis dir).start ≤ k ∧ k < (o.basis dir).stop)
    (hend : (o.basis dir).kn ((o.basis dir).knots.size - (o.basis dir).order - 1) < (o.basis dir).stop)
    {out : Out K} (hs : stepOut tol o (.split knots dir) = .ok out) :
    out.recv.WellFormed ∧ ∀ n ∈ out.news, n.WellFormed := by
  obtain ⟨hrecv, init, last, hnews, hinit, hlast, hdom⟩ :=
    stepOut_split_wf_last_partial h tol knots dir hper hk hs
  refine ⟨by rw [hrecv]; exact h, fun n hn => ?_⟩
  rw [hnews] at hn
  rcases List.mem_append.1 hn with h1 | h1
  · exact hinit n h1
  · rw [List.mem_singleton] at h1
    rw [h1]
    exact hlast (hdom hend)

end History

end Splipy
