import Splipy.Lemmas.C12Stages
import Splipy.Lemmas.C04Tensor
import Mathlib.Algebra.BigOperators.Fin

/-!
# C12 — the defining tensor-product sum as a weighted sum of fibre splines (any pardim)

`C06.TP.eval` of a component of a well-formed object with `m` directions, split along a NON-periodic
direction `d`: a sum over the multi-indices of the other directions of (product of their B-spline
values) × (`splineVal` of the control-net fibre along `d`).  Hence two objects that differ only in
direction `d` and have the same fibre splines evaluate to the same map (`sameMap_of_fibres`); with
property C04 (`C04.insertKnots_fibres`) this gives `insertKnots_sameMap`: `insert_knot(list, d)` keeps
the evaluated map of curves, surfaces and volumes alike.
-/

namespace Splipy

set_option linter.unusedSectionVars false

variable {K : Type} [Field K] [LinearOrder K] [IsStrictOrderedRing K] [FloorRing K]

namespace C12

open C06 Finset

variable {m : ℕ}

/-- Fubini for a sum over multi-indices: split off the index of direction `d`. -/
theorem sum_piFinset_split {M : Type} [AddCommMonoid M] (t : Fin m → Finset ℕ) (d : Fin m)
    (F : (Fin m → ℕ) → M) :
    ∑ I ∈ Fintype.piFinset t, F I
      = ∑ J ∈ Fintype.piFinset (Function.update t d {0}), ∑ j ∈ t d, F (Function.update J d j) := by
  rw [← Finset.sum_product']
  symm
  refine Finset.sum_bij' (fun x _ => Function.update x.1 d x.2) (fun I _ => (Function.update I d 0, I d))
    ?_ ?_ ?_ ?_ ?_
  · intro x hx
    rw [Finset.mem_product] at hx
    rw [Fintype.mem_piFinset] at hx ⊢
    intro k
    by_cases hk : k = d
    · subst hk; rw [Function.update_self]; exact hx.2
    · rw [Function.update_of_ne hk]
      have := hx.1 k
      rwa [Function.update_of_ne hk] at this
  · intro I hI
    rw [Fintype.mem_piFinset] at hI
    rw [Finset.mem_product, Fintype.mem_piFinset]
    refine ⟨fun k => ?_, hI d⟩
    by_cases hk : k = d
    · subst hk; simp
    · show Function.update I d 0 k ∈ Function.update t d {0} k
      rw [Function.update_of_ne hk, Function.update_of_ne hk]; exact hI k
  · intro x hx
    rw [Finset.mem_product, Fintype.mem_piFinset] at hx
    have h0 : x.1 d = 0 := by
      have := hx.1 d
      rw [Function.update_self] at this
      simpa using this
    ext
    · simp only [Function.update_idem]
      rw [← h0, Function.update_eq_self]
    · simp
  · intro I _
    simp
  · intro x _
    rfl

/-- Outer / inner flat positions of a control-net entry around direction `d`. -/
def outerIdx (o : Obj K) (d : ℕ) (idx : List ℕ) : ℕ := flatIdx (o.cps.shape.take d) (idx.take d)
def innerIdx (o : Obj K) (d : ℕ) (idx : List ℕ) : ℕ := flatIdx (o.cps.shape.drop (d + 1)) (idx.drop (d + 1))

theorem inRange_take {idx shape : List ℕ} (h : InRange idx shape) (d : ℕ) : InRange (idx.take d) (shape.take d) := by
  induction h generalizing d with
  | nil => simp
  | cons hab _ ih =>
    cases d with
    | zero => simp
    | succ d => simp only [List.take_succ_cons]; exact List.Forall₂.cons hab (ih d)

theorem inRange_drop {idx shape : List ℕ} (h : InRange idx shape) (d : ℕ) : InRange (idx.drop d) (shape.drop d) := by
  induction h generalizing d with
  | nil => simp
  | cons hab hrest ih =>
    cases d with
    | zero => exact List.Forall₂.cons hab hrest
    | succ d => simp only [List.drop_succ_cons]; exact ih d

/-- A control-net entry read through the fibre along `d`. -/
theorem getIdx_eq_fibre {o : Obj K} (hw : C06.WF o m) (d : Fin m) (I : Fin m → ℕ) (comp : ℕ)
    (hI : ∀ k, I k < (o.basis k).numFunctions) (hc : comp < o.ncomp) :
    getIdx o.cps (midx I comp)
      = C04.fibre o d (outerIdx o d (midx I comp)) (innerIdx o d (midx I comp)) (I d)
    ∧ outerIdx o d (midx I comp) < C04.outerN o d ∧ innerIdx o d (midx I comp) < C04.innerN o d := by
  have hr : InRange (midx I comp) o.cps.shape := by
    rw [hw.shape, inRange_midx]; exact ⟨hI, hc⟩
  have hlen : (midx I comp).length = o.cps.shape.length := hr.length_eq
  have hd : (d : ℕ) < o.cps.shape.length := by rw [hw.shape, midx_length]; omega
  refine ⟨?_, ?_, ?_⟩
  · unfold getIdx C04.fibre Tensor.at3 outerIdx innerIdx
    rw [flatIdx_split o.cps.shape (midx I comp) d hd hlen, midx_getD_lt]
    simp only [Tensor.split3]
  · unfold outerIdx C04.outerN
    simp only [Tensor.split3]
    exact flatIdx_lt (inRange_take hr d)
  · unfold innerIdx C04.innerN
    simp only [Tensor.split3]
    exact flatIdx_lt (inRange_drop hr (d + 1))

theorem midx_take_congr (I I' : Fin m → ℕ) (c : ℕ) (d : Fin m) (h : ∀ k, k ≠ d → I k = I' k) :
    (midx I c).take d = (midx I' c).take d ∧ (midx I c).drop (d + 1) = (midx I' c).drop (d + 1) := by
  constructor
  · apply List.ext_getElem?
    intro k
    rw [List.getElem?_take, List.getElem?_take]
    by_cases hk : k < (d : ℕ)
    · rw [if_pos hk, if_pos hk, midx_getElem?, midx_getElem?]
      have hkm : k < m := by omega
      simp only [hkm, dite_true]
      rw [h ⟨k, hkm⟩ (by intro e; rw [← e] at hk; exact lt_irrefl _ hk)]
    · rw [if_neg hk, if_neg hk]
  · apply List.ext_getElem?
    intro k
    rw [List.getElem?_drop, List.getElem?_drop, midx_getElem?, midx_getElem?]
    by_cases hkm : (d : ℕ) + 1 + k < m
    · simp only [hkm, dite_true]
      rw [h ⟨(d : ℕ) + 1 + k, hkm⟩ (by intro e; have := congrArg Fin.val e; simp at this; omega)]
    · simp only [hkm, dite_false]

/-- The summand of the fibre form of `TP.eval` for the multi-index `J` of the other directions. -/
def fibreTerm (o : Obj K) (d : Fin m) (comp : ℕ) (s : Fin m → Side) (u : Fin m → K) (J : Fin m → ℕ) : K :=
  (∏ k ∈ (Finset.univ : Finset (Fin m)).erase d,
      B (s k) (o.basis k).kn ((o.basis k).order - 1) (J k) (u k))
    * splineVal (s d) (o.basis d).kn ((o.basis d).order - 1) (o.basis d).numFunctions
        (C04.fibre o d (outerIdx o d (midx (fun k => J k % (o.basis k).numFunctions) comp))
          (innerIdx o d (midx (fun k => J k % (o.basis k).numFunctions) comp))) (u d)

/-- **Fibre form of the defining sum** along a non-periodic direction `d`. -/
theorem toTP_eval_fibre {o : Obj K} (hw : C06.WF o m) (d : Fin m) (hper : (o.basis d).periodic = -1)
    (comp : ℕ) (hc : comp < o.ncomp) (s : Fin m → Side) (u : Fin m → K) :
    (toTP o m comp).eval s u
      = ∑ J ∈ Fintype.piFinset (Function.update (fun k : Fin m => range (o.basis k).nAll) d {0}),
          fibreTerm o d comp s u J := by
  rw [TP.eval_eq]
  have hnd : (o.basis d).nAll = (o.basis d).numFunctions := by
    rw [valid_nAll_eq (hw.valid d), hper]; simp
  have hpos : ∀ k : Fin m, 0 < (o.basis k).numFunctions := fun k => valid_numFunctions_pos (hw.valid k)
  show ∑ I ∈ Fintype.piFinset (fun k : Fin m => range (o.basis k).nAll),
      getIdx o.cps (midx (fun k => I k % (o.basis k).numFunctions) comp)
        * ∏ k, B (s k) (o.basis k).kn ((o.basis k).order - 1) (I k) (u k) = _
  rw [sum_piFinset_split (fun k : Fin m => range (o.basis k).nAll) d]
  apply Finset.sum_congr rfl
  intro J hJ
  rw [Fintype.mem_piFinset] at hJ
  have hJd : J d = 0 := by
    have := hJ d
    rw [Function.update_self] at this
    simpa using this
  unfold fibreTerm splineVal
  rw [Finset.mul_sum, hnd]
  apply Finset.sum_congr rfl
  intro j hj
  have hjn : j < (o.basis d).numFunctions := Finset.mem_range.mp hj
  -- the control-net entry through the fibre
  set I : Fin m → ℕ := fun k => Function.update J d j k % (o.basis k).numFunctions with hIdef
  have hIlt : ∀ k, I k < (o.basis k).numFunctions := fun k => Nat.mod_lt _ (hpos k)
  have hId : I d = j := by
    rw [hIdef]; simp only [Function.update_self]; exact Nat.mod_eq_of_lt hjn
  have hIk : ∀ k, k ≠ d → I k = (fun k => J k % (o.basis k).numFunctions) k := by
    intro k hk; rw [hIdef]; simp only [Function.update_of_ne hk]
  obtain ⟨hget, _, _⟩ := getIdx_eq_fibre hw d I comp hIlt hc
  obtain ⟨ht, hdr⟩ := midx_take_congr I (fun k => J k % (o.basis k).numFunctions) comp d hIk
  rw [hget, hId]
  unfold outerIdx innerIdx
  rw [ht, hdr]
  -- the product of the B-splines
  rw [← Finset.mul_prod_erase Finset.univ _ (Finset.mem_univ d)]
  rw [Function.update_self]
  have hprod : ∏ k ∈ (Finset.univ : Finset (Fin m)).erase d,
        B (s k) (o.basis k).kn ((o.basis k).order - 1) (Function.update J d j k) (u k)
      = ∏ k ∈ (Finset.univ : Finset (Fin m)).erase d,
        B (s k) (o.basis k).kn ((o.basis k).order - 1) (J k) (u k) := by
    apply Finset.prod_congr rfl
    intro k hk
    rw [Function.update_of_ne (Finset.ne_of_mem_erase hk)]
  rw [hprod]
  ring

/-- **Same fibre splines along a non-periodic direction ⇒ same evaluated map.**  `o'` has the bases
    of `o` in every direction but `d`, the same number of components, and every fibre of its control
    net along `d` is a spline (on its own basis of direction `d`) equal to the corresponding fibre
    spline of `o`. -/
theorem sameMap_of_fibres {o o' : Obj K} (hw : C06.WF o m) (hw' : C06.WF o' m) (d : Fin m)
    (hper : (o.basis d).periodic = -1) (hper' : (o'.basis d).periodic = -1)
    (hbases : ∀ k : Fin m, k ≠ d → o'.basis k = o.basis k) (hnc : o'.ncomp = o.ncomp)
    (hfib : ∀ a i, a < C04.outerN o d → i < C04.innerN o d → ∀ (sd : Side) (t : K),
      splineVal sd (o'.basis d).kn ((o'.basis d).order - 1) (o'.basis d).numFunctions (C04.fibre o' d a i) t
        = splineVal sd (o.basis d).kn ((o.basis d).order - 1) (o.basis d).numFunctions (C04.fibre o d a i) t) :
    SameMap m o o' := by
  refine ⟨hnc, fun comp hc s u => ?_⟩
  rw [toTP_eval_fibre hw' d hper' comp (by rw [hnc]; exact hc) s u, toTP_eval_fibre hw d hper comp hc s u]
  have hsets : Function.update (fun k : Fin m => range (o'.basis k).nAll) d {0}
      = Function.update (fun k : Fin m => range (o.basis k).nAll) d {0} := by
    funext k
    by_cases hk : k = d
    · subst hk; simp
    · rw [Function.update_of_ne hk, Function.update_of_ne hk, hbases k hk]
  rw [hsets]
  apply Finset.sum_congr rfl
  intro J hJ
  rw [Fintype.mem_piFinset] at hJ
  have hJd : J d = 0 := by
    have := hJ d
    rw [Function.update_self] at this
    simpa using this
  have hpos : ∀ k : Fin m, 0 < (o.basis k).numFunctions := fun k => valid_numFunctions_pos (hw.valid k)
  have hpos' : ∀ k : Fin m, 0 < (o'.basis k).numFunctions := fun k => valid_numFunctions_pos (hw'.valid k)
  unfold fibreTerm
  -- the products over the other directions
  have hprod : ∏ k ∈ (Finset.univ : Finset (Fin m)).erase d,
        B (s k) (o'.basis k).kn ((o'.basis k).order - 1) (J k) (u k)
      = ∏ k ∈ (Finset.univ : Finset (Fin m)).erase d,
        B (s k) (o.basis k).kn ((o.basis k).order - 1) (J k) (u k) := by
    apply Finset.prod_congr rfl
    intro k hk
    rw [hbases k (Finset.ne_of_mem_erase hk)]
  rw [hprod]
  congr 1
  -- the fibre positions coincide
  have hmod : (fun k : Fin m => J k % (o'.basis k).numFunctions) = (fun k : Fin m => J k % (o.basis k).numFunctions) := by
    funext k
    by_cases hk : k = d
    · subst hk; rw [hJd, Nat.zero_mod, Nat.zero_mod]
    · rw [hbases k hk]
  have hI0 : ∀ k : Fin m, (fun k : Fin m => J k % (o.basis k).numFunctions) k < (o.basis k).numFunctions :=
    fun k => Nat.mod_lt _ (hpos k)
  obtain ⟨_, hout, hinn⟩ := getIdx_eq_fibre hw d (fun k => J k % (o.basis k).numFunctions) comp hI0 hc
  have hshape_take : o'.cps.shape.take d = o.cps.shape.take d := by
    rw [hw'.shape, hw.shape, hnc]
    exact (midx_take_congr _ _ _ d (fun k hk => by rw [hbases k hk])).1
  have hshape_drop : o'.cps.shape.drop (d + 1) = o.cps.shape.drop (d + 1) := by
    rw [hw'.shape, hw.shape, hnc]
    exact (midx_take_congr _ _ _ d (fun k hk => by rw [hbases k hk])).2
  have hoi : outerIdx o' d (midx (fun k => J k % (o'.basis k).numFunctions) comp)
      = outerIdx o d (midx (fun k => J k % (o.basis k).numFunctions) comp) := by
    unfold outerIdx; rw [hmod, hshape_take]
  have hii : innerIdx o' d (midx (fun k => J k % (o'.basis k).numFunctions) comp)
      = innerIdx o d (midx (fun k => J k % (o.basis k).numFunctions) comp) := by
    unfold innerIdx; rw [hmod, hshape_drop]
  rw [hoi, hii]
  exact hfib _ _ hout hinn (s d) (u d)

/-- **`insert_knot(list, direction=d)` keeps the evaluated map — curves, surfaces, volumes** (a valid
    non-periodic direction `d`, values in `[start, end)`; the other directions may be periodic). -/
theorem insertKnots_sameMap {o o' : Obj K} (hw : C06.WF o m) (d : Fin m) (hper : (o.basis d).periodic = -1)
    (xs : List K) (hxs : ∀ x ∈ xs, (o.basis d).start ≤ x ∧ x < (o.basis d).stop)
    (h : o.insertKnots xs d = .ok o') :
    SameMap m o o' ∧ C06.WF o' m ∧ (∀ k : Fin m, k ≠ d → o'.basis k = o.basis k)
      ∧ (o'.basis d).periodic = -1 := by
  have hv := hw.valid d
  have hsize : (d : ℕ) < o.bases.size := by rw [hw.size]; exact d.isLt
  have hax : (d : ℕ) < o.cps.shape.length := by rw [hw.shape, midx_length]; omega
  have hsh0 : o.cps.shape.getD d 0 = (o.basis d).numFunctions := by rw [hw.shape, midx_getD_lt]
  obtain ⟨o'', C, h1, h2, _, hbne, _, h6, _, _, h9⟩ :=
    C04.insertKnots_fibres o d hsize hax hv hper hsh0 xs hxs
  rw [h] at h1
  injection h1 with h1
  subst h1
  have hbk : ∀ k : Fin m, k ≠ d → o'.basis k = o.basis k :=
    fun k hk => hbne k (fun e => hk (Fin.ext e))
  have hshape' : o'.cps.shape
      = midx (Function.update (fun k : Fin m => (o.basis k).numFunctions) d ((o.basis d).numFunctions + xs.length))
          o.ncomp := by
    rw [h6, hw.shape, midx_set]
  have hnc : o'.ncomp = o.ncomp := ncomp_of_shape o' _ _ hshape'
  have hod : OnlyDir d o o' := insertKnots_onlyDir h
  have hwf' : C06.WF o' m := by
    refine ⟨by rw [hod.size, hw.size], ?_, ?_⟩
    · intro k
      by_cases hk : k = d
      · subst hk; exact h2.valid
      · rw [hbk k hk]; exact hw.valid k
    · rw [hshape', hnc]
      congr 1
      funext k
      by_cases hk : k = d
      · subst hk; rw [Function.update_self, h2.num_eq]
      · rw [Function.update_of_ne hk, hbk k hk]
  have hper' : (o'.basis d).periodic = -1 := by rw [h2.periodic_eq]; exact hper
  refine ⟨sameMap_of_fibres hw hwf' d hper hper' hbk hnc ?_, hwf', hbk, hper'⟩
  intro a i ha hi sd t
  rw [h2.order_eq, h2.num_eq]
  rw [C04.splineVal_congr sd _ _ _ _ _ t (fun r hr => h9 a i r ha hi hr)]
  exact (h2.same (C04.fibre o d a i) sd t).1

end C12

end Splipy
