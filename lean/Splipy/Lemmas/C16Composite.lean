import Splipy.Lemmas.C16Bridge
import Splipy.Lemmas.C16Quadrature

/-!
# C16: the composite sums of the model (`gaussMap` + `gaussSum1/2/3`) element by element

`gaussMap spans x w` maps the rule to every pair of consecutive entries of `spans`; the sums
`gaussSum1/2/3` over the flattened node lists split into sums over elements, and on every element the
rule's exactness (`RuleExact`, i.e. the moment equations) applies.
-/

namespace Splipy

open Measure Polynomial

variable {K : Type} [Field K]

/-- The elements (consecutive pairs) of a span list. -/
def elements (spans : List K) : List (K × K) := List.zip spans (spans.drop 1)

/-- Index sum = sum over the zipped list. -/
theorem sum_range_eq_sum_zip {α : Type} (U : List α) (W : List K) (d : α)
    (h : U.length = W.length) (φ : α → K → K) :
    ∑ i ∈ Finset.range W.length, φ (U.getD i d) (W.getD i 0)
      = ((U.zip W).map (fun p => φ p.1 p.2)).sum := by
  induction U generalizing W with
  | nil =>
    cases W with
    | nil => simp
    | cons w W => simp at h
  | cons u U ih =>
    cases W with
    | nil => simp at h
    | cons w W =>
      have h' : U.length = W.length := by simpa using h
      rw [List.length_cons, Finset.sum_range_succ', List.zip_cons_cons, List.map_cons, List.sum_cons,
        ← ih W h', add_comm]
      simp

theorem gaussSum1_zip (W U : List K) (h : U.length = W.length) (g : K → K) :
    gaussSum1 W (fun i => g (U.getD i 0)) = ((U.zip W).map (fun p => p.2 * g p.1)).sum := by
  rw [gaussSum1_eq_sum]
  exact sum_range_eq_sum_zip U W 0 h (fun u w => w * g u)

theorem zip_flatMap {α β γ : Type} (l : List α) (f : α → List β) (g : α → List γ)
    (h : ∀ a ∈ l, (f a).length = (g a).length) :
    (l.flatMap f).zip (l.flatMap g) = l.flatMap (fun a => (f a).zip (g a)) := by
  induction l with
  | nil => simp
  | cons a l ih =>
    rw [List.flatMap_cons, List.flatMap_cons, List.flatMap_cons,
      List.zip_append (h a (by simp)), ih (fun b hb => h b (by simp [hb]))]

theorem sum_map_flatMap {α β : Type} (l : List α) (f : α → List β) (k : β → K) :
    ((l.flatMap f).map k).sum = (l.map (fun a => ((f a).map k).sum)).sum := by
  induction l with
  | nil => simp
  | cons a l ih =>
    rw [List.flatMap_cons, List.map_append, List.sum_append, ih, List.map_cons, List.sum_cons]

/-- **One direction, element by element**: the composite sum of `g` over the mapped nodes is the sum
over the elements `[a,b]` of the rule applied on `[a,b]`. -/
theorem gaussSum1_gaussMap (spans x w : List K) (h : x.length = w.length) (g : K → K) :
    gaussSum1 (gaussMap spans x w).2 (fun i => g ((gaussMap spans x w).1.getD i 0))
      = ((elements spans).map (fun e =>
          ∑ i ∈ Finset.range w.length,
            (w.getD i 0 / 2 * (e.2 - e.1)) * g ((x.getD i 0 + 1) / 2 * (e.2 - e.1) + e.1))).sum := by
  rw [gaussSum1_zip _ _ (gaussMap_length spans x w h)]
  unfold gaussMap elements
  simp only []
  rw [zip_flatMap _ _ _ (fun a _ => by simp [h]), sum_map_flatMap]
  congr 1
  apply List.map_congr_left
  intro e _
  rw [sum_range_eq_sum_zip x w 0 h
    (fun xi wi => (wi / 2 * (e.2 - e.1)) * g ((xi + 1) / 2 * (e.2 - e.1) + e.1))]
  rw [List.zip_map, List.map_map]
  rfl

/-- A rule given by the LISTS the model receives (`x`, `w` of equal length `m`) satisfies the moment
equations up to degree `D`:  `Σ_i w_i x_i^k = ∫_{-1}^{1} t^k dt` for `k ≤ D`
(in the division-free form of `RuleExact`).  For the `m`-point Gauss–Legendre rule `D = 2m − 1`;
that real nodes with this property exist is NOT proved here (it is for `m ≤ 3`:
`ruleExact_midpoint/gauss2/gauss3`) — it is the hypothesis under which the exactness theorems hold,
and `harness/props/C16.py` checks the moment equations of the nodes numpy returns to `1e-14`. -/
def GaussRule (x w : List K) (D : ℕ) : Prop :=
  x.length = w.length ∧
    RuleExact (fun i : Fin w.length => x.getD i.val 0) (fun i : Fin w.length => w.getD i.val 0) D

theorem sum_finset_list_comm {ι α : Type} (s : Finset ι) (l : List α) (f : ι → α → K) :
    ∑ i ∈ s, (l.map (f i)).sum = (l.map (fun e => ∑ i ∈ s, f i e)).sum := by
  induction l with
  | nil => simp
  | cons a l ih =>
    simp only [List.map_cons, List.sum_cons, Finset.sum_add_distrib, ih]

theorem mul_list_sum {α : Type} (c : K) (l : List α) (f : α → K) :
    c * (l.map f).sum = (l.map (fun e => c * f e)).sum := by
  induction l with
  | nil => simp
  | cons a l ih => simp only [List.map_cons, List.sum_cons, mul_add, ih]

variable [CharZero K]

/-- **One direction, exactness**: if on every element `e = [a,b]` the integrand agrees at the
element's nodes with a polynomial `(Q e)'` of degree `≤ D`, the composite sum is
`Σ_e (Q_e(b) − Q_e(a))` — the integral of the piecewise polynomial, defined by antiderivatives. -/
theorem gaussSum1_exact {x w : List K} {D : ℕ} (hr : GaussRule x w D) (spans : List K) (g : K → K)
    (Q : K × K → K[X])
    (hQ : ∀ e ∈ elements spans, (derivative (Q e)).natDegree ≤ D ∧
      ∀ i, i < w.length → g ((x.getD i 0 + 1) / 2 * (e.2 - e.1) + e.1)
        = (derivative (Q e)).eval ((x.getD i 0 + 1) / 2 * (e.2 - e.1) + e.1)) :
    gaussSum1 (gaussMap spans x w).2 (fun i => g ((gaussMap spans x w).1.getD i 0))
      = ((elements spans).map (fun e => (Q e).eval e.2 - (Q e).eval e.1)).sum := by
  rw [gaussSum1_gaussMap spans x w hr.1]
  congr 1
  apply List.map_congr_left
  intro e he
  obtain ⟨hd, hg⟩ := hQ e he
  rw [← hr.2.span e.1 e.2 (Q e) hd, ← Finset.sum_range
    (fun i => (w.getD i 0 / 2 * (e.2 - e.1))
      * (derivative (Q e)).eval ((x.getD i 0 + 1) / 2 * (e.2 - e.1) + e.1))]
  apply Finset.sum_congr rfl
  intro i hi
  rw [hg i (Finset.mem_range.mp hi)]

omit [CharZero K] in
/-- Three directions, element by element (nested form). -/
theorem gaussSum3_gaussMap (s1 s2 s3 x1 w1 x2 w2 x3 w3 : List K) (h1 : x1.length = w1.length)
    (h2 : x2.length = w2.length) (h3 : x3.length = w3.length) (F : K → K → K → K) :
    gaussSum3 (gaussMap s1 x1 w1).2 (gaussMap s2 x2 w2).2 (gaussMap s3 x3 w3).2
        (fun i j k => F ((gaussMap s1 x1 w1).1.getD i 0) ((gaussMap s2 x2 w2).1.getD j 0)
          ((gaussMap s3 x3 w3).1.getD k 0))
      = ((elements s1).map (fun e1 => ((elements s2).map (fun e2 => ((elements s3).map (fun e3 =>
          ∑ i ∈ Finset.range w1.length, ∑ j ∈ Finset.range w2.length, ∑ k ∈ Finset.range w3.length,
            (w1.getD i 0 / 2 * (e1.2 - e1.1)) * (w2.getD j 0 / 2 * (e2.2 - e2.1))
              * (w3.getD k 0 / 2 * (e3.2 - e3.1))
              * F ((x1.getD i 0 + 1) / 2 * (e1.2 - e1.1) + e1.1)
                  ((x2.getD j 0 + 1) / 2 * (e2.2 - e2.1) + e2.1)
                  ((x3.getD k 0 + 1) / 2 * (e3.2 - e3.1) + e3.1))).sum)).sum)).sum := by
  unfold gaussSum3
  rw [gaussSum1_gaussMap s1 x1 w1 h1 (fun u => gaussSum1 (gaussMap s2 x2 w2).2 (fun j =>
    gaussSum1 (gaussMap s3 x3 w3).2 (fun k => F u ((gaussMap s2 x2 w2).1.getD j 0)
      ((gaussMap s3 x3 w3).1.getD k 0))))]
  congr 1
  apply List.map_congr_left
  intro e1 _
  have hmid : ∀ u, gaussSum1 (gaussMap s2 x2 w2).2 (fun j =>
      gaussSum1 (gaussMap s3 x3 w3).2 (fun k => F u ((gaussMap s2 x2 w2).1.getD j 0)
        ((gaussMap s3 x3 w3).1.getD k 0)))
      = ((elements s2).map (fun e2 => ∑ j ∈ Finset.range w2.length,
          (w2.getD j 0 / 2 * (e2.2 - e2.1)) * ((elements s3).map (fun e3 =>
            ∑ k ∈ Finset.range w3.length, (w3.getD k 0 / 2 * (e3.2 - e3.1))
              * F u ((x2.getD j 0 + 1) / 2 * (e2.2 - e2.1) + e2.1)
                  ((x3.getD k 0 + 1) / 2 * (e3.2 - e3.1) + e3.1))).sum)).sum := by
    intro u
    rw [gaussSum1_gaussMap s2 x2 w2 h2 (fun v => gaussSum1 (gaussMap s3 x3 w3).2 (fun k =>
      F u v ((gaussMap s3 x3 w3).1.getD k 0)))]
    congr 1
    apply List.map_congr_left
    intro e2 _
    apply Finset.sum_congr rfl
    intro j _
    rw [gaussSum1_gaussMap s3 x3 w3 h3 (fun w => F u ((x2.getD j 0 + 1) / 2 * (e2.2 - e2.1) + e2.1) w)]
  simp_rw [hmid]
  simp only [mul_list_sum, sum_finset_list_comm, Finset.mul_sum]
  congr 1
  apply List.map_congr_left
  intro e2 _
  congr 1
  apply List.map_congr_left
  intro e3 _
  apply Finset.sum_congr rfl
  intro i _
  apply Finset.sum_congr rfl
  intro j _
  apply Finset.sum_congr rfl
  intro k _
  ring

/-- **Three directions, exactness** (`Volume.volume`'s sum): if on every element
`e1 × e2 × e3` the integrand agrees at the element's nodes with a finite sum of products
`Σ_c P_c'(u)·R_c'(v)·T_c'(w)` of polynomials of degree `≤ D1, D2, D3` (every trivariate polynomial of
those degrees is such a sum), then the composite sum is `Σ_elements Σ_c ΔP_c·ΔR_c·ΔT_c` — the integral
of the piecewise polynomial over the parametric box, defined by antiderivatives. -/
theorem gaussSum3_exact {x1 w1 x2 w2 x3 w3 : List K} {D1 D2 D3 : ℕ} (hr1 : GaussRule x1 w1 D1)
    (hr2 : GaussRule x2 w2 D2) (hr3 : GaussRule x3 w3 D3) (s1 s2 s3 : List K) (F : K → K → K → K)
    {ι : Type} (fam : K × K → K × K → K × K → Finset ι) (P R T : K × K → K × K → K × K → ι → K[X])
    (hF : ∀ e1 ∈ elements s1, ∀ e2 ∈ elements s2, ∀ e3 ∈ elements s3,
      (∀ c ∈ fam e1 e2 e3, (derivative (P e1 e2 e3 c)).natDegree ≤ D1 ∧
        (derivative (R e1 e2 e3 c)).natDegree ≤ D2 ∧ (derivative (T e1 e2 e3 c)).natDegree ≤ D3) ∧
      ∀ i j k, i < w1.length → j < w2.length → k < w3.length →
        F ((x1.getD i 0 + 1) / 2 * (e1.2 - e1.1) + e1.1) ((x2.getD j 0 + 1) / 2 * (e2.2 - e2.1) + e2.1)
            ((x3.getD k 0 + 1) / 2 * (e3.2 - e3.1) + e3.1)
          = ∑ c ∈ fam e1 e2 e3,
              (derivative (P e1 e2 e3 c)).eval ((x1.getD i 0 + 1) / 2 * (e1.2 - e1.1) + e1.1)
              * (derivative (R e1 e2 e3 c)).eval ((x2.getD j 0 + 1) / 2 * (e2.2 - e2.1) + e2.1)
              * (derivative (T e1 e2 e3 c)).eval ((x3.getD k 0 + 1) / 2 * (e3.2 - e3.1) + e3.1)) :
    gaussSum3 (gaussMap s1 x1 w1).2 (gaussMap s2 x2 w2).2 (gaussMap s3 x3 w3).2
        (fun i j k => F ((gaussMap s1 x1 w1).1.getD i 0) ((gaussMap s2 x2 w2).1.getD j 0)
          ((gaussMap s3 x3 w3).1.getD k 0))
      = ((elements s1).map (fun e1 => ((elements s2).map (fun e2 => ((elements s3).map (fun e3 =>
          ∑ c ∈ fam e1 e2 e3,
            ((P e1 e2 e3 c).eval e1.2 - (P e1 e2 e3 c).eval e1.1)
            * ((R e1 e2 e3 c).eval e2.2 - (R e1 e2 e3 c).eval e2.1)
            * ((T e1 e2 e3 c).eval e3.2 - (T e1 e2 e3 c).eval e3.1))).sum)).sum)).sum := by
  rw [gaussSum3_gaussMap s1 s2 s3 x1 w1 x2 w2 x3 w3 hr1.1 hr2.1 hr3.1 F]
  congr 1
  apply List.map_congr_left
  intro e1 he1
  congr 1
  apply List.map_congr_left
  intro e2 he2
  congr 1
  apply List.map_congr_left
  intro e3 he3
  obtain ⟨hdeg, hval⟩ := hF e1 he1 e2 he2 e3 he3
  rw [← hr1.2.tensor3 hr2.2 hr3.2 e1.1 e1.2 e2.1 e2.2 e3.1 e3.2 (fam e1 e2 e3) (P e1 e2 e3)
    (R e1 e2 e3) (T e1 e2 e3) (fun c hc => (hdeg c hc).1) (fun c hc => (hdeg c hc).2.1)
    (fun c hc => (hdeg c hc).2.2)]
  rw [← Finset.sum_range (fun i => ∑ j : Fin w2.length, ∑ l : Fin w3.length,
    (w1.getD i 0 / 2 * (e1.2 - e1.1)) * (w2.getD j.val 0 / 2 * (e2.2 - e2.1))
      * (w3.getD l.val 0 / 2 * (e3.2 - e3.1)) *
      ∑ c ∈ fam e1 e2 e3,
        (derivative (P e1 e2 e3 c)).eval ((x1.getD i 0 + 1) / 2 * (e1.2 - e1.1) + e1.1)
        * (derivative (R e1 e2 e3 c)).eval ((x2.getD j.val 0 + 1) / 2 * (e2.2 - e2.1) + e2.1)
        * (derivative (T e1 e2 e3 c)).eval ((x3.getD l.val 0 + 1) / 2 * (e3.2 - e3.1) + e3.1))]
  apply Finset.sum_congr rfl
  intro i hi
  rw [← Finset.sum_range (fun j => ∑ l : Fin w3.length,
    (w1.getD i 0 / 2 * (e1.2 - e1.1)) * (w2.getD j 0 / 2 * (e2.2 - e2.1))
      * (w3.getD l.val 0 / 2 * (e3.2 - e3.1)) *
      ∑ c ∈ fam e1 e2 e3,
        (derivative (P e1 e2 e3 c)).eval ((x1.getD i 0 + 1) / 2 * (e1.2 - e1.1) + e1.1)
        * (derivative (R e1 e2 e3 c)).eval ((x2.getD j 0 + 1) / 2 * (e2.2 - e2.1) + e2.1)
        * (derivative (T e1 e2 e3 c)).eval ((x3.getD l.val 0 + 1) / 2 * (e3.2 - e3.1) + e3.1))]
  apply Finset.sum_congr rfl
  intro j hj
  rw [← Finset.sum_range (fun l =>
    (w1.getD i 0 / 2 * (e1.2 - e1.1)) * (w2.getD j 0 / 2 * (e2.2 - e2.1))
      * (w3.getD l 0 / 2 * (e3.2 - e3.1)) *
      ∑ c ∈ fam e1 e2 e3,
        (derivative (P e1 e2 e3 c)).eval ((x1.getD i 0 + 1) / 2 * (e1.2 - e1.1) + e1.1)
        * (derivative (R e1 e2 e3 c)).eval ((x2.getD j 0 + 1) / 2 * (e2.2 - e2.1) + e2.1)
        * (derivative (T e1 e2 e3 c)).eval ((x3.getD l 0 + 1) / 2 * (e3.2 - e3.1) + e3.1))]
  apply Finset.sum_congr rfl
  intro k hk
  rw [hval i j k (Finset.mem_range.mp hi) (Finset.mem_range.mp hj) (Finset.mem_range.mp hk)]

omit [CharZero K] in
/-- Two directions, element by element. -/
theorem gaussSum2_gaussMap (s1 s2 x1 w1 x2 w2 : List K) (h1 : x1.length = w1.length)
    (h2 : x2.length = w2.length) (F : K → K → K) :
    gaussSum2 (gaussMap s1 x1 w1).2 (gaussMap s2 x2 w2).2
        (fun i j => F ((gaussMap s1 x1 w1).1.getD i 0) ((gaussMap s2 x2 w2).1.getD j 0))
      = ((elements s1).map (fun e1 => ((elements s2).map (fun e2 =>
          ∑ i ∈ Finset.range w1.length, ∑ j ∈ Finset.range w2.length,
            (w1.getD i 0 / 2 * (e1.2 - e1.1)) * (w2.getD j 0 / 2 * (e2.2 - e2.1))
              * F ((x1.getD i 0 + 1) / 2 * (e1.2 - e1.1) + e1.1)
                  ((x2.getD j 0 + 1) / 2 * (e2.2 - e2.1) + e2.1))).sum)).sum := by
  unfold gaussSum2
  rw [gaussSum1_gaussMap s1 x1 w1 h1 (fun u => gaussSum1 (gaussMap s2 x2 w2).2 (fun j =>
    F u ((gaussMap s2 x2 w2).1.getD j 0)))]
  congr 1
  apply List.map_congr_left
  intro e1 _
  have hmid : ∀ u, gaussSum1 (gaussMap s2 x2 w2).2 (fun j => F u ((gaussMap s2 x2 w2).1.getD j 0))
      = ((elements s2).map (fun e2 => ∑ j ∈ Finset.range w2.length,
          (w2.getD j 0 / 2 * (e2.2 - e2.1)) * F u ((x2.getD j 0 + 1) / 2 * (e2.2 - e2.1) + e2.1))).sum :=
    fun u => gaussSum1_gaussMap s2 x2 w2 h2 (fun v => F u v)
  simp_rw [hmid]
  simp only [mul_list_sum, sum_finset_list_comm, Finset.mul_sum]
  congr 1
  apply List.map_congr_left
  intro e2 _
  apply Finset.sum_congr rfl
  intro i _
  apply Finset.sum_congr rfl
  intro j _
  ring

/-- **Two directions, exactness** (`Surface.area`'s planar sum). -/
theorem gaussSum2_exact {x1 w1 x2 w2 : List K} {D1 D2 : ℕ} (hr1 : GaussRule x1 w1 D1)
    (hr2 : GaussRule x2 w2 D2) (s1 s2 : List K) (F : K → K → K)
    {ι : Type} (fam : K × K → K × K → Finset ι) (P R : K × K → K × K → ι → K[X])
    (hF : ∀ e1 ∈ elements s1, ∀ e2 ∈ elements s2,
      (∀ c ∈ fam e1 e2, (derivative (P e1 e2 c)).natDegree ≤ D1 ∧
        (derivative (R e1 e2 c)).natDegree ≤ D2) ∧
      ∀ i j, i < w1.length → j < w2.length →
        F ((x1.getD i 0 + 1) / 2 * (e1.2 - e1.1) + e1.1) ((x2.getD j 0 + 1) / 2 * (e2.2 - e2.1) + e2.1)
          = ∑ c ∈ fam e1 e2,
              (derivative (P e1 e2 c)).eval ((x1.getD i 0 + 1) / 2 * (e1.2 - e1.1) + e1.1)
              * (derivative (R e1 e2 c)).eval ((x2.getD j 0 + 1) / 2 * (e2.2 - e2.1) + e2.1)) :
    gaussSum2 (gaussMap s1 x1 w1).2 (gaussMap s2 x2 w2).2
        (fun i j => F ((gaussMap s1 x1 w1).1.getD i 0) ((gaussMap s2 x2 w2).1.getD j 0))
      = ((elements s1).map (fun e1 => ((elements s2).map (fun e2 =>
          ∑ c ∈ fam e1 e2,
            ((P e1 e2 c).eval e1.2 - (P e1 e2 c).eval e1.1)
            * ((R e1 e2 c).eval e2.2 - (R e1 e2 c).eval e2.1))).sum)).sum := by
  rw [gaussSum2_gaussMap s1 s2 x1 w1 x2 w2 hr1.1 hr2.1 F]
  congr 1
  apply List.map_congr_left
  intro e1 he1
  congr 1
  apply List.map_congr_left
  intro e2 he2
  obtain ⟨hdeg, hval⟩ := hF e1 he1 e2 he2
  rw [← hr1.2.tensor2 hr2.2 e1.1 e1.2 e2.1 e2.2 (fam e1 e2) (P e1 e2) (R e1 e2)
    (fun c hc => (hdeg c hc).1) (fun c hc => (hdeg c hc).2)]
  rw [← Finset.sum_range (fun i => ∑ j : Fin w2.length,
    (w1.getD i 0 / 2 * (e1.2 - e1.1)) * (w2.getD j.val 0 / 2 * (e2.2 - e2.1)) *
      ∑ c ∈ fam e1 e2,
        (derivative (P e1 e2 c)).eval ((x1.getD i 0 + 1) / 2 * (e1.2 - e1.1) + e1.1)
        * (derivative (R e1 e2 c)).eval ((x2.getD j.val 0 + 1) / 2 * (e2.2 - e2.1) + e2.1))]
  apply Finset.sum_congr rfl
  intro i hi
  rw [← Finset.sum_range (fun j =>
    (w1.getD i 0 / 2 * (e1.2 - e1.1)) * (w2.getD j 0 / 2 * (e2.2 - e2.1)) *
      ∑ c ∈ fam e1 e2,
        (derivative (P e1 e2 c)).eval ((x1.getD i 0 + 1) / 2 * (e1.2 - e1.1) + e1.1)
        * (derivative (R e1 e2 c)).eval ((x2.getD j 0 + 1) / 2 * (e2.2 - e2.1) + e2.1))]
  apply Finset.sum_congr rfl
  intro j hj
  rw [hval i j (Finset.mem_range.mp hi) (Finset.mem_range.mp hj)]

end Splipy
