import Std.Data.HashMap.Lemmas
import Splipy.Lemmas.C17Model

/-! Lemmas for C17: `nodes(d)`, `higher_nodes`, `boundary()` in a state satisfying the invariant. -/

namespace Splipy.MP

/-! ### `uniquify` -/

theorem uniquify_aux (l : List ℕ) (acc : List ℕ × Std.HashMap ℕ Unit)
    (hacc : acc.1.Nodup ∧ ∀ x, acc.2.contains x = true ↔ x ∈ acc.1) :
    let r := l.foldl (fun (acc : List ℕ × Std.HashMap ℕ Unit) x =>
      if acc.2.contains x then acc else (x :: acc.1, acc.2.insert x ())) acc
    r.1.Nodup ∧ (∀ x, x ∈ r.1 ↔ x ∈ acc.1 ∨ x ∈ l) := by
  induction l generalizing acc with
  | nil => simp [hacc.1]
  | cons a as ih =>
    simp only [List.foldl_cons]
    by_cases hc : acc.2.contains a = true
    · simp only [hc, if_true]
      obtain ⟨h1, h2⟩ := ih acc hacc
      refine ⟨h1, fun x => ?_⟩
      rw [h2 x]
      constructor
      · rintro (h | h)
        · exact Or.inl h
        · exact Or.inr (List.mem_cons_of_mem _ h)
      · rintro (h | h)
        · exact Or.inl h
        · rcases List.mem_cons.1 h with rfl | h'
          · exact Or.inl ((hacc.2 _).1 hc)
          · exact Or.inr h'
    · simp only [hc, Bool.false_eq_true, if_false]
      have hna : a ∉ acc.1 := fun h => hc ((hacc.2 a).2 h)
      obtain ⟨h1, h2⟩ := ih (a :: acc.1, acc.2.insert a ())
        ⟨List.nodup_cons.2 ⟨hna, hacc.1⟩, fun x => by
          simp only [Std.HashMap.contains_insert, Bool.or_eq_true, beq_iff_eq, List.mem_cons]
          rw [hacc.2 x]
          constructor
          · rintro (h | h)
            · exact Or.inl h.symm
            · exact Or.inr h
          · rintro (h | h)
            · exact Or.inl h.symm
            · exact Or.inr h⟩
      refine ⟨h1, fun x => ?_⟩
      rw [h2 x]
      simp only [List.mem_cons]
      tauto

theorem uniquify_spec (l : List ℕ) : (uniquify l).Nodup ∧ ∀ x, x ∈ uniquify l ↔ x ∈ l := by
  unfold uniquify
  have := uniquify_aux l ([], {}) ⟨List.nodup_nil, fun x => by simp⟩
  simp only [List.not_mem_nil, false_or] at this
  exact ⟨List.nodup_reverse.2 this.1, fun x => by rw [List.mem_reverse]; exact this.2 x⟩

/-! ### `nodes(d)` -/

/-- **`catalogue.nodes(d)`** lists exactly the nodes of dimension `d`, each once. -/
theorem nodesOf_spec {nc : ℕ} {S : Obj → Prop} {m : Model} (hI : Inv nc S m) (d : ℕ) :
    (m.nodesOf d).Nodup ∧
    ∀ c, c ∈ m.nodesOf d ↔ c < m.nodes.size ∧ (m.node c).obj.pardim = d := by
  unfold Model.nodesOf
  by_cases hd : d = 0
  · subst hd
    simp only [if_true]
    refine ⟨(uniquify_spec _).1, fun c => ?_⟩
    rw [(uniquify_spec _).2, List.mem_map]
    constructor
    · rintro ⟨kv, hkv, rfl⟩
      exact ⟨(hI.vnode kv hkv).1, (hI.vnode kv hkv).2.1⟩
    · rintro ⟨hc, h0⟩
      obtain ⟨kv, hkv, rfl⟩ := hI.vall c hc h0
      exact ⟨kv, hkv, rfl⟩
  · simp only [hd, if_false]
    refine ⟨(uniquify_spec _).1, fun c => ?_⟩
    rw [(uniquify_spec _).2, List.mem_flatMap]
    constructor
    · rintro ⟨q, _, hc⟩
      obtain ⟨a, b, _⟩ := hI.cand d q c hc
      exact ⟨a, b⟩
    · rintro ⟨hc, hpd⟩
      have hfiled := hI.filed c hc (by omega)
      rw [hpd] at hfiled
      refine ⟨facets m c, ?_, hfiled⟩
      apply hI.keys d
      intro hnone
      unfold Level.get at hfiled
      rw [hnone] at hfiled
      simp at hfiled

/-! ### `higher_nodes` -/

theorem higherAt_count (n : TNode) (d c : ℕ) :
    ((n.higherAt d).getD []).count c = n.higher.count (d, c) := by
  unfold TNode.higherAt
  have key : ∀ l : List (ℕ × ℕ), ((l.filter (·.1 == d)).map (·.2)).count c = l.count (d, c) := by
    intro l
    induction l with
    | nil => simp
    | cons a as ih =>
      obtain ⟨a1, a2⟩ := a
      by_cases h1 : a1 = d
      · subst h1
        simp only [List.filter_cons, beq_self_eq_true, if_true, List.map_cons, List.count_cons, ih]
        by_cases h2 : a2 = c
        · simp [h2]
        · simp [h2]
      · simp [h1, ih]
  dsimp only
  by_cases hemp : ((n.higher.filter (·.1 == d)).map (·.2)).isEmpty = true
  · rw [if_pos hemp]
    simp only [Option.getD_none, List.count_nil]
    rw [← key]
    simp only [List.isEmpty_iff] at hemp
    rw [hemp]; simp
  · rw [if_neg hemp]
    simp only [Option.getD_some]; exact key _

/-- **`higher_nodes` = incidences**: node `c` (of dimension `d`) occurs in `higher_nodes[d]` of
    node `k` exactly as often as `k` occurs among the lower links of `c`. -/
theorem higher_spec {nc : ℕ} {S : Obj → Prop} {m : Model} (hI : Inv nc S m) {k c : ℕ}
    (hk : k < m.nodes.size) (hc : c < m.nodes.size) :
    (((m.node k).higherAt (m.node c).obj.pardim).getD []).count c = (m.node c).lower.flatten.count k := by
  rw [higherAt_count, hI.high k hk, if_pos ⟨hc, hI.pdfield c hc⟩]

/-- … and nodes of another dimension, or no nodes at all, do not occur -/
theorem higher_spec_zero {nc : ℕ} {S : Obj → Prop} {m : Model} (hI : Inv nc S m) {k c d : ℕ}
    (hk : k < m.nodes.size) (hc : ¬ (c < m.nodes.size ∧ (m.node c).obj.pardim = d)) :
    (((m.node k).higherAt d).getD []).count c = 0 := by
  rw [higherAt_count, hI.high k hk, if_neg]
  rintro ⟨h1, h2⟩
  exact hc ⟨h1, by rw [← hI.pdfield c h1]; exact h2⟩

/-- a lower link is the node `F` iff the corresponding section is `≈` to `F`'s object -/
theorem lower_eq_iff {nc : ℕ} {S : Obj → Prop} {m : Model} (hI : Inv nc S m) {c F i j : ℕ}
    (hc : c < m.nodes.size) (hF : F < m.nodes.size) (hi : i < (m.node c).obj.pardim)
    (hj : j < (sections (m.node c).obj.pardim i).length) :
    ((m.node c).lower.getD i []).getD j 0 = F ↔
      Equiv (m.node F).obj ((m.node c).obj.sect ((sections (m.node c).obj.pardim i).getD j [])) := by
  have hrep := hI.low c hc i hi j hj
  have hgc := hI.gu hc
  have hsm : (sections (m.node c).obj.pardim i).getD j [] ∈ sections (m.node c).obj.pardim i := by
    rw [List.getD_eq_getElem _ _ hj]; exact List.getElem_mem _
  have hgs := hgc.sect (mem_sections hgc.small (by omega) hsm).1
  constructor
  · rintro rfl; exact hrep.2
  · intro heq
    exact hI.rep_unique hgs hrep ⟨hF, heq⟩

/-! ### `boundary()` -/

theorem boundary_fold (m : Model) (l : List ℕ) (acc bs : List ℕ)
    (h : l.foldlM (fun acc k =>
      match (m.node k).higherAt ((m.node k).pardim + 1) with
      | none => none
      | some hl => some (if hl.length = 1 then acc ++ [k] else acc)) acc = some bs) :
    bs = acc ++ l.filter (fun k =>
      match (m.node k).higherAt ((m.node k).pardim + 1) with
      | none => false
      | some hl => decide (hl.length = 1)) := by
  induction l generalizing acc with
  | nil => simp at h; simp [h]
  | cons k ks ih =>
    rw [List.foldlM_cons] at h
    cases hk : (m.node k).higherAt ((m.node k).pardim + 1) with
    | none => rw [hk] at h; simp at h
    | some hl =>
      rw [hk] at h
      simp only [Option.bind_eq_bind, Option.bind_some] at h
      have := ih _ h
      rw [this, List.filter_cons, hk]
      by_cases h1 : hl.length = 1
      · simp [h1]
      · simp [h1]

/-- **`boundary()`** (when it returns): the codimension-1 nodes whose `higher_nodes[pardim]` has
    exactly one entry. -/
theorem boundary_spec {nc : ℕ} {S : Obj → Prop} {sm : SplineModel} (hI : Inv nc S sm.cat)
    {bs : List ℕ} (h : sm.boundary = some bs) :
    ∀ k, k ∈ bs ↔ (k < sm.cat.nodes.size ∧ (sm.cat.node k).obj.pardim = sm.pardim - 1) ∧
      ∃ c, (sm.cat.node k).higherAt ((sm.cat.node k).pardim + 1) = some [c] := by
  unfold SplineModel.boundary at h
  have := boundary_fold sm.cat _ [] bs h
  intro k
  rw [this, List.nil_append, List.mem_filter, (nodesOf_spec hI _).2]
  constructor
  · rintro ⟨h1, h2⟩
    refine ⟨h1, ?_⟩
    cases hk : (sm.cat.node k).higherAt ((sm.cat.node k).pardim + 1) with
    | none => rw [hk] at h2; simp at h2
    | some hl =>
      rw [hk] at h2
      simp only [decide_eq_true_eq] at h2
      obtain ⟨c, hc⟩ := List.length_eq_one_iff.1 h2
      exact ⟨c, by rw [hc]⟩
  · rintro ⟨h1, c, hc⟩
    exact ⟨h1, by rw [hc]; simp⟩

/-! ### the state after adding patches to a fresh model -/

theorem fresh_add_inv {nc : ℕ} (P D : ℕ) (frh : Bool) (ktol : ℚ)
    (patches : List Obj) (tw : List ℕ) (sm0 sm : SplineModel)
    (hnew : SplineModel.new P D frh = .ok sm0)
    (hgu : ∀ p ∈ patches, GU nc p ∧ p.pardim ≤ P)
    (hadd : sm0.add ktol patches tw = .ok sm) :
    Inv nc (Cell patches) sm.cat ∧ sm.pardim = P ∧ sm.cat.levels.size = P + 1 ∧
      ∀ p ∈ patches, ∃ c, Rep sm.cat c p := by
  have hsm0 : sm0.pardim = P ∧ sm0.cat = Model.empty P := by
    unfold SplineModel.new at hnew
    split at hnew
    · simp at hnew
    · simp only [Except.ok.injEq] at hnew
      subst hnew; exact ⟨rfl, rfl⟩
  have hsect : ∀ y sec, Cell patches y → sec.length = y.pardim → secTgtDim sec < y.pardim →
      Cell patches (y.sect sec) := fun y sec hy hl ht => Cell.sect hy hl ht
  obtain ⟨hp, hfold⟩ := SplineModel.add_ok hadd
  obtain ⟨a, b, c⟩ := addAll_sound (nc := nc) hsect sm0.pardim tw patches sm0.cat sm.cat
    (by rw [hsm0.2]; exact Inv.empty nc _ P) (by rw [hsm0.2, hsm0.1]; exact Model.empty_lsize P)
    (fun p hp => ⟨(hgu p hp).1, by rw [hsm0.1]; exact (hgu p hp).2, Cell.patch hp⟩) hfold
  exact ⟨a, by rw [hp, hsm0.1], by rw [b.lsize, hsm0.2]; exact Model.empty_lsize P, c⟩

end Splipy.MP
