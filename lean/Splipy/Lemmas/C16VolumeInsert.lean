import Splipy.Lemmas.C16VolumeWhole
import Splipy.Properties.C04

/-!
# C16: knot insertion in the first direction of a non-rational volume leaves every specification
partial derivative — hence the Jacobian determinant — unchanged
-/

namespace Splipy

open Measure C04

variable {K : Type} [Field K] [LinearOrder K] [IsStrictOrderedRing K] [FloorRing K]

namespace Obj

omit [LinearOrder K] [IsStrictOrderedRing K] [FloorRing K] in
theorem bases_eq_triple (o : Obj K) (h : o.bases.size = 3) :
    o.bases = #[o.basis 0, o.basis 1, o.basis 2] := by
  have hl : o.bases.toList.length = 3 := by simpa using h
  match hh : o.bases.toList, hl with
  | [x, y, z], _ =>
    have hx : o.bases = #[x, y, z] := by
      rw [← Array.toArray_toList (xs := o.bases), hh]
    have h0 : o.basis 0 = x := by unfold basis; rw [hx]; rfl
    have h1 : o.basis 1 = y := by unfold basis; rw [hx]; rfl
    have h2 : o.basis 2 = z := by unfold basis; rw [hx]; rfl
    rw [h0, h1, h2, hx]

/-- A non-rational (or rational) volume after `insert_knot(xs, direction=0)`: same second and third
bases, refined first basis (valid, non-periodic, same order and domain), and EVERY specification
partial derivative `specD3` unchanged at every parameter triple. -/
theorem volume_insert_specD3 {o o' : Obj K} {b1 b2 b3 : Basis K} (hb : o.bases = #[b1, b2, b3])
    (hv1 : b1.Valid) (hper : b1.periodic = -1)
    (hs : o.cps.shape = [b1.numFunctions, b2.numFunctions, b3.numFunctions, 3]) (xs : List K)
    (hxs : ∀ x ∈ xs, b1.start ≤ x ∧ x < b1.stop) (ho' : o.insertKnots xs 0 = .ok o') :
    ∃ b1', o'.bases = #[b1', b2, b3] ∧ b1'.Valid ∧ b1'.periodic = -1 ∧ b1'.order = b1.order ∧
      o'.cps.shape = [b1'.numFunctions, b2.numFunctions, b3.numFunctions, 3] ∧
      o'.rational = o.rational ∧ b1'.start = b1.start ∧ b1'.stop = b1.stop ∧
      ∀ u v w d1 d2 d3, o'.specD3 b1' b2 b3 3 u v w d1 d2 d3 = o.specD3 b1 b2 b3 3 u v w d1 d2 d3 := by
  obtain ⟨hb0, hb1, hb2⟩ := basis_of_bases3 hb
  have hdir : 0 < o.bases.size := by rw [hb]; simp
  have hax : 0 < o.cps.shape.length := by rw [hs]; simp
  have hshape : o.cps.shape.getD 0 0 = (o.basis 0).numFunctions := by rw [hs, hb0]; rfl
  obtain ⟨o2, C, h1, h2, _, h4, h5, h6, _, _, _, h10⟩ := C04_object o 0 hdir hax (hb0 ▸ hv1)
    (hb0 ▸ hper) hshape xs (hb0 ▸ hxs)
  rw [ho'] at h1
  cases h1
  rw [hb0] at h2 h6 h10
  have hsz : o'.bases.size = 3 := by rw [insertKnots_bases_size o o' xs 0 ho', hb]; simp
  have hnum : (o'.basis 0).numFunctions = b1.numFunctions + xs.length := h2.num_eq
  have hbases : o'.bases = #[o'.basis 0, b2, b3] := by
    rw [bases_eq_triple o' hsz, h4 1 (by decide), h4 2 (by decide), hb1, hb2]
  have hshape' : o'.cps.shape = [(o'.basis 0).numFunctions, b2.numFunctions, b3.numFunctions, 3] := by
    rw [h6, hs, hnum]; rfl
  refine ⟨o'.basis 0, hbases, h2.valid, by rw [h2.periodic_eq, hper], h2.order_eq, hshape', h5,
    h2.start_eq, h2.stop_eq, ?_⟩
  intro u v w d1 d2 d3
  -- geometry of the fibres along direction 0
  have houter : outerN o 0 = 1 := by simp [outerN, Tensor.split3, Tensor.prod, hs]
  have hinner : innerN o 0 = b2.numFunctions * b3.numFunctions * 3 := by
    simp [innerN, Tensor.split3, Tensor.prod, hs]
  have hfib : ∀ (i : ℕ), fibre o 0 0 i
      = fun j => o.cps.get (j * (b2.numFunctions * b3.numFunctions * 3) + i) := by
    intro i
    funext j
    simp [fibre, Tensor.at3, Tensor.split3, Tensor.prod, hs]
  have hfib' : ∀ (i : ℕ), fibre o' 0 0 i
      = fun j => o'.cps.get (j * (b2.numFunctions * b3.numFunctions * 3) + i) := by
    intro i
    funext j
    simp [fibre, Tensor.at3, Tensor.split3, Tensor.prod, hshape']
  unfold specD3
  congr 1
  funext c
  -- pull the first direction inside
  have hre : ∀ (bb : Basis K) (oo : Obj K),
      ∑ j1 ∈ Finset.range bb.numFunctions, ∑ j2 ∈ Finset.range b2.numFunctions,
        ∑ j3 ∈ Finset.range b3.numFunctions,
          bb.rowSpec u true d1 j1 * b2.rowSpec v true d2 j2 * b3.rowSpec w true d3 j3
            * oo.cps.get (((j1 * b2.numFunctions + j2) * b3.numFunctions + j3) * 3 + c.val)
      = ∑ j2 ∈ Finset.range b2.numFunctions, ∑ j3 ∈ Finset.range b3.numFunctions,
          b2.rowSpec v true d2 j2 * b3.rowSpec w true d3 j3 *
            ∑ j1 ∈ Finset.range bb.numFunctions, bb.rowSpec u true d1 j1
              * oo.cps.get (j1 * (b2.numFunctions * b3.numFunctions * 3)
                  + ((j2 * b3.numFunctions + j3) * 3 + c.val)) := by
    intro bb oo
    rw [Finset.sum_comm]
    apply Finset.sum_congr rfl
    intro j2 _
    rw [Finset.sum_comm]
    apply Finset.sum_congr rfl
    intro j3 _
    rw [Finset.mul_sum]
    apply Finset.sum_congr rfl
    intro j1 _
    have e : ((j1 * b2.numFunctions + j2) * b3.numFunctions + j3) * 3 + c.val
        = j1 * (b2.numFunctions * b3.numFunctions * 3) + ((j2 * b3.numFunctions + j3) * 3 + c.val) := by
      ring
    rw [e]
    ring
  rw [hre (o'.basis 0) o', hre b1 o]
  apply Finset.sum_congr rfl
  intro j2 hj2
  apply Finset.sum_congr rfl
  intro j3 hj3
  congr 1
  rw [Finset.mem_range] at hj2 hj3
  have hi : (j2 * b3.numFunctions + j3) * 3 + c.val < innerN o 0 := by
    rw [hinner]
    have hc := c.isLt
    have h1 : j2 * b3.numFunctions + j3 < b2.numFunctions * b3.numFunctions := by
      calc j2 * b3.numFunctions + j3 < j2 * b3.numFunctions + b3.numFunctions := by omega
        _ = (j2 + 1) * b3.numFunctions := by ring
        _ ≤ b2.numFunctions * b3.numFunctions := Nat.mul_le_mul_right _ (by omega)
    omega
  have e1 := C03_nonrational_curve_open (o'.basis 0) (by rw [h2.periodic_eq, hper])
    (o'.basis 0).numFunctions (fibre o' 0 0 ((j2 * b3.numFunctions + j3) * 3 + c.val)) u true d1
  have e2 := C03_nonrational_curve_open b1 hper b1.numFunctions
    (fibre o 0 0 ((j2 * b3.numFunctions + j3) * 3 + c.val)) u true d1
  simp only [hfib, hfib'] at e1 e2
  simp only [Finset.sum_range] at e1 e2 ⊢
  rw [e1, e2]
  rw [if_neg (by simp), if_neg (by simp)]
  have hside : effSide (o'.basis 0) u true = effSide b1 u true := by
    unfold effSide
    rw [h2.stop_eq]
  rw [hside, h2.order_eq, hnum]
  have := (h10 0 ((j2 * b3.numFunctions + j3) * 3 + c.val) (by rw [houter]; exact Nat.one_pos) hi
    (effSide b1 u true) u).2 d1
  simp only [hfib, hfib'] at this
  convert this using 2

/-- `sliceSum` depends on the object only through its Jacobian determinant function. -/
theorem sliceSum_congr (o o' : Obj ℝ) (b1 b1' b2 b3 : Basis ℝ) (tol : ℝ)
    (h : ∀ u v w, o'.jacSpec b1' b2 b3 u v w = o.jacSpec b1 b2 b3 u v w) (u : ℝ) :
    o'.sliceSum b1' b2 b3 tol u = o.sliceSum b1 b2 b3 tol u := by
  unfold sliceSum sliceInt
  simp only [h]

/-- **`Obj.volume` is unchanged by knot insertion in the first parametric direction** (`K = ℝ`). -/
theorem volume_insertKnots_dir0 {o o' : Obj ℝ} {b1 b2 b3 : Basis ℝ} (hb : o.bases = #[b1, b2, b3])
    (hv1 : b1.Valid) (hv2 : b2.Valid) (hv3 : b3.Valid) (hp1 : b1.periodic = -1)
    (hp2 : b2.periodic = -1) (hp3 : b3.periodic = -1) (ho1 : 2 ≤ b1.order)
    (hs : o.cps.shape = [b1.numFunctions, b2.numFunctions, b3.numFunctions, 3])
    (hr : o.rational = false) {tol : ℝ} (htol : 0 < tol)
    (hsep1 : b1.SepStrict tol) (hsep2 : b2.SepStrict tol) (hsep3 : b3.SepStrict tol)
    {x1 wt1 x2 wt2 x3 wt3 : List ℝ} {D1 D2 D3 : ℕ} (hr1 : GaussRule x1 wt1 D1)
    (hr2 : GaussRule x2 wt2 D2) (hr3 : GaussRule x3 wt3 D3)
    (hD1 : (b1.order - 1 - 1) + (b1.order - 1) + (b1.order - 1) ≤ D1)
    (hD2 : (b2.order - 1) + (b2.order - 1 - 1) + (b2.order - 1) ≤ D2)
    (hD3 : (b3.order - 1) + (b3.order - 1) + (b3.order - 1 - 1) ≤ D3)
    (hx1 : ∀ i, i < wt1.length → -1 < x1.getD i 0 ∧ x1.getD i 0 < 1)
    (hx2 : ∀ i, i < wt2.length → -1 < x2.getD i 0 ∧ x2.getD i 0 < 1)
    (hx3 : ∀ i, i < wt3.length → -1 < x3.getD i 0 ∧ x3.getD i 0 < 1)
    (hadm1 : ∀ u ∈ (gaussMap (b1.knotSpans tol false).toList x1 wt1).1, b1.Admissible tol u)
    (hadm2 : ∀ u ∈ (gaussMap (b2.knotSpans tol false).toList x2 wt2).1, b2.Admissible tol u)
    (hadm3 : ∀ u ∈ (gaussMap (b3.knotSpans tol false).toList x3 wt3).1, b3.Admissible tol u)
    (hne1 : (gaussMap (b1.knotSpans tol false).toList x1 wt1).1 ≠ [])
    (hne2 : (gaussMap (b2.knotSpans tol false).toList x2 wt2).1 ≠ [])
    (hne3 : (gaussMap (b3.knotSpans tol false).toList x3 wt3).1 ≠ [])
    (hsign : ∀ e1 ∈ elements (b1.knotSpans tol false).toList,
      ∀ e2 ∈ elements (b2.knotSpans tol false).toList,
      ∀ e3 ∈ elements (b3.knotSpans tol false).toList,
      (∀ u v w, e1.1 < u → u < e1.2 → e2.1 < v → v < e2.2 → e3.1 < w → w < e3.2 →
        0 ≤ o.jacSpec b1 b2 b3 u v w) ∨
      (∀ u v w, e1.1 < u → u < e1.2 → e2.1 < v → v < e2.2 → e3.1 < w → w < e3.2 →
        o.jacSpec b1 b2 b3 u v w ≤ 0))
    (xs : List ℝ) (hxs : ∀ x ∈ xs, b1.start ≤ x ∧ x < b1.stop) (ho' : o.insertKnots xs 0 = .ok o')
    (hsep1' : (o'.basis 0).SepStrict tol)
    (hadm1' : ∀ u ∈ (gaussMap ((o'.basis 0).knotSpans tol false).toList x1 wt1).1,
      (o'.basis 0).Admissible tol u)
    (hne1' : (gaussMap ((o'.basis 0).knotSpans tol false).toList x1 wt1).1 ≠ [])
    (hsign' : ∀ e1 ∈ elements ((o'.basis 0).knotSpans tol false).toList,
      ∀ e2 ∈ elements (b2.knotSpans tol false).toList,
      ∀ e3 ∈ elements (b3.knotSpans tol false).toList,
      (∀ u v w, e1.1 < u → u < e1.2 → e2.1 < v → v < e2.2 → e3.1 < w → w < e3.2 →
        0 ≤ o.jacSpec b1 b2 b3 u v w) ∨
      (∀ u v w, e1.1 < u → u < e1.2 → e2.1 < v → v < e2.2 → e3.1 < w → w < e3.2 →
        o.jacSpec b1 b2 b3 u v w ≤ 0)) :
    o'.volume tol x1 wt1 x2 wt2 x3 wt3 = o.volume tol x1 wt1 x2 wt2 x3 wt3 := by
  obtain ⟨b1', hb', hv1', hp1', hord, hs', hr', hst, hen, hD⟩ :=
    volume_insert_specD3 hb hv1 hp1 hs xs hxs ho'
  have hb0' : o'.basis 0 = b1' := by unfold basis; rw [hb']; rfl
  rw [hb0'] at hsep1' hadm1' hne1' hsign'
  have hJ' : ∀ u v w, o'.jacSpec b1' b2 b3 u v w = o.jacSpec b1 b2 b3 u v w := by
    intro u v w
    unfold jacSpec
    rw [hD, hD, hD]
  have hsign'' : ∀ e1 ∈ elements (b1'.knotSpans tol false).toList,
      ∀ e2 ∈ elements (b2.knotSpans tol false).toList,
      ∀ e3 ∈ elements (b3.knotSpans tol false).toList,
      (∀ u v w, e1.1 < u → u < e1.2 → e2.1 < v → v < e2.2 → e3.1 < w → w < e3.2 →
        0 ≤ o'.jacSpec b1' b2 b3 u v w) ∨
      (∀ u v w, e1.1 < u → u < e1.2 → e2.1 < v → v < e2.2 → e3.1 < w → w < e3.2 →
        o'.jacSpec b1' b2 b3 u v w ≤ 0) := by
    intro e1 he1 e2 he2 e3 he3
    rcases hsign' e1 he1 e2 he2 e3 he3 with h | h
    · left
      intro u v w a1 a2 a3 a4 a5 a6
      rw [hJ']
      exact h u v w a1 a2 a3 a4 a5 a6
    · right
      intro u v w a1 a2 a3 a4 a5 a6
      rw [hJ']
      exact h u v w a1 a2 a3 a4 a5 a6
  have hord1 : 2 ≤ b1'.order := by rw [hord]; exact ho1
  have hD1' : (b1'.order - 1 - 1) + (b1'.order - 1) + (b1'.order - 1) ≤ D1 := by rw [hord]; exact hD1
  have hrr : o'.rational = false := by rw [hr', hr]
  have e1 := volume_eq_whole hb hv1 hv2 hv3 hp1 hp2 hp3 ho1 hs hr htol hsep1 hsep2 hsep3 hr1 hr2 hr3
    hD1 hD2 hD3 hx1 hx2 hx3 hadm1 hadm2 hadm3 hne1 hne2 hne3 hsign
  have e2 := volume_eq_whole hb' hv1' hv2 hv3 hp1' hp2 hp3 hord1 hs' hrr htol hsep1' hsep2 hsep3
    hr1 hr2 hr3 hD1' hD2 hD3 hx1 hx2 hx3 hadm1' hadm2 hadm3 hne1' hne2 hne3 hsign''
  have hfun : o'.sliceSum b1' b2 b3 tol = o.sliceSum b1 b2 b3 tol :=
    funext (sliceSum_congr o o' b1 b1' b2 b3 tol hJ')
  rw [e1, e2, hst, hen, hfun]

end Obj

end Splipy
