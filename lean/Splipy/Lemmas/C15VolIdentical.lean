import Splipy.Lemmas.C15Vol

/-!
# `make_splines_identical` on two volumes of the unit family
-/

set_option linter.unusedSectionVars false

namespace Splipy
namespace C15

open C06 C12 Obj Basis

variable {K : Type} [Field K] [LinearOrder K] [IsStrictOrderedRing K] [FloorRing K]

/-- One direction of `make_splines_identical` for two volumes on `[0,1]` in that direction (the volume
    analogue of `identicalDir_unit_surface`). -/
theorem identicalDir_unit_volume (tol : K) (htol : 0 < tol) (p1 p2 : ℕ) (hp1 : 2 ≤ p1) (hp2 : 2 ≤ p2)
    (U : List K) (Ma Mb : List ℕ) (hla : Ma.length = U.length) (hlb : Mb.length = U.length)
    (hma : ∀ x ∈ Ma, x ≤ p1 - 1) (hmb : ∀ x ∈ Mb, x ≤ p2 - 1)
    (hgap : Splipy.Separated (2 * ((max p1 p2 - 1 : ℕ) : K) * tol) (clampedU 0 1 U))
    (i : Fin 3) (s : Obj K × Obj K) (hw1 : C06.WF s.1 3) (hw2 : C06.WF s.2 3)
    (hb1 : s.1.basis i = openBasis p1 (clampedU 0 1 U) (clampedM p1 Ma))
    (hb2 : s.2.basis i = openBasis p2 (clampedU 0 1 U) (clampedM p2 Mb))
    (hother₁ : p1 < max p1 p2 → ∀ k : Fin 3, k ≠ i → GrevilleOK tol (s.1.basis k))
    (hother₂ : p2 < max p1 p2 → ∀ k : Fin 3, k ≠ i → GrevilleOK tol (s.2.basis k))
    (hguard₁ : p1 < max p1 p2 → Obj.raiseGuard tol s.1.bases.toList = .ok true)
    (hguard₂ : p2 < max p1 p2 → Obj.raiseGuard tol s.2.bases.toList = .ok true) :
    ∃ r, identicalDir tol false false s i = .ok r
      ∧ r.1.basis i = openBasis (max p1 p2) (clampedU 0 1 U) (clampedM (max p1 p2) (unionMult p1 p2 Ma Mb))
      ∧ r.2.basis i = r.1.basis i
      ∧ (∀ k : Fin 3, k ≠ i → r.1.basis k = s.1.basis k ∧ r.2.basis k = s.2.basis k)
      ∧ SameMap 3 s.1 r.1 ∧ SameMap 3 s.2 r.2 ∧ C06.WF r.1 3 ∧ C06.WF r.2 3 := by
  set L := entries U Ma Mb with hL
  have e0 : L.map (·.1) = U := entries_fst U Ma Mb hla hlb
  have e1 : L.map (·.2.1) = Ma := entries_snd1 U Ma Mb hla hlb
  have e2 : L.map (·.2.2) = Mb := entries_snd2 U Ma Mb hla hlb
  have hm : ∀ e ∈ L, e.2.1 ≤ p1 - 1 ∧ e.2.2 ≤ p2 - 1 := by
    intro e he
    exact ⟨hma _ (by rw [← e1]; exact List.mem_map_of_mem he), hmb _ (by rw [← e2]; exact List.mem_map_of_mem he)⟩
  have hfac : tol ≤ 2 * ((max p1 p2 - 1 : ℕ) : K) * tol := by
    have h : (1 : K) ≤ ((max p1 p2 - 1 : ℕ) : K) := by
      have : 1 ≤ max p1 p2 - 1 := by have := le_max_left p1 p2; omega
      exact_mod_cast this
    nlinarith
  have hi3 : (i : ℕ) < 3 := i.isLt
  have hst1 : (s.1.basis i).start = 0 ∧ (s.1.basis i).stop = 1 := by
    rw [hb1]; exact ⟨clamped_start p1 (by omega) 0 1 U Ma, clamped_stop p1 (by omega) 0 1 U Ma hla.symm⟩
  have hst2 : (s.2.basis i).start = 0 ∧ (s.2.basis i).stop = 1 := by
    rw [hb2]; exact ⟨clamped_start p2 (by omega) 0 1 U Mb, clamped_stop p2 (by omega) 0 1 U Mb hlb.symm⟩
  have ha : stageReparam s i = .ok s :=
    stageReparam_unit s i (by omega) (by rw [hw1.size]; exact hi3) (by rw [hw2.size]; exact hi3)
      (hw1.valid i) (hw2.valid i) hst1.1 hst1.2 hst2.1 hst2.2
  have hgap' : Splipy.Separated (2 * ((max p1 p2 - 1 : ℕ) : K) * tol) (clampedU 0 1 (L.map (·.1))) := by
    rw [e0]; exact hgap
  obtain ⟨r, hr, hrb, hrbb, hk, hre1, hre2, hwr1, hwr2⟩ :=
    identicalDir_open_wf (m := 3) tol htol false false p1 p2 hp1 hp2 0 1 L (separated_mono hfac hgap') i
      (by omega) s s hw1 hw2 ha (by rw [e0, e1]; exact hb1) (by rw [e0, e2]; exact hb2)
      (fun h => raisesTo_volume tol htol i p1 (max p1 p2) hp1 (le_max_left _ _) 0 1 L (·.1) (·.2.1)
        (fun e he => (hm e he).1) hgap' s.1 hw1 (by rw [e0, e1]; exact hb1) (hother₁ h) (hguard₁ h))
      (fun h => raisesTo_volume tol htol i p2 (max p1 p2) hp2 (le_max_right _ _) 0 1 L (·.1) (·.2.2)
        (fun e he => (hm e he).2) hgap' s.2 hw2 (by rw [e0, e2]; exact hb2) (hother₂ h) (hguard₂ h))
  rw [hst1.1, hst1.2] at hre1
  rw [hst2.1, hst2.2] at hre2
  refine ⟨r, hr, ?_, hrbb, hk, rescaled_sameMap_unit hre1, rescaled_sameMap_unit hre2, hwr1, hwr2⟩
  rw [hrb, e0, entries_union p1 p2 U Ma Mb hla hlb]

/-- A basis that causes no exception as another direction of a `raise_order` on a volume or as the
    first direction of the volume being raised. -/
def Nice3 (tol : K) (B : Basis K) : Prop :=
  GrevilleOK tol B ∧ ∀ o : Obj K, o.basis 0 = B → o.bases.size = 3 → Obj.raiseGuard tol o.bases.toList = .ok true

theorem UnitKnots.nice3 {tol : K} (htol : 0 < tol) {p : ℕ} {U : List K} {M : List ℕ}
    (h : UnitKnots tol p U M) : Nice3 tol (unitBasis p U M) := by
  refine ⟨h.greville htol, fun o hb hs => ?_⟩
  rw [bases_of_size_three hs, hb]
  exact raiseGuard_clamped tol htol p (by have := h.hp; omega) 0 1 U M h.hlen.symm (h.sep htol)
    (fun j hj => (h.hm j hj).1) _

theorem linear_nice3 {tol : K} (htol : 0 < tol) (h2 : (0 : K) + 2 * ((1 : ℕ) : K) * tol < 1) :
    Nice3 tol (linearBasis : Basis K) := by
  rw [linearBasis_unit]
  exact (linear_unitKnots h2).nice3 htol

/-- **`make_splines_identical(v1, v2)` (all three directions) for two volumes of the unit family** in
    common-entry form per direction; all bases involved are `Nice3`. -/
theorem makeIdentical_unit_volumes (tol : K) (htol : 0 < tol) (p1 p2 : Fin 3 → ℕ)
    (hp1 : ∀ i, 2 ≤ p1 i) (hp2 : ∀ i, 2 ≤ p2 i) (U : Fin 3 → List K) (Ma Mb : Fin 3 → List ℕ)
    (hla : ∀ i, (Ma i).length = (U i).length) (hlb : ∀ i, (Mb i).length = (U i).length)
    (hma : ∀ i, ∀ x ∈ Ma i, x ≤ p1 i - 1) (hmb : ∀ i, ∀ x ∈ Mb i, x ≤ p2 i - 1)
    (hgap : ∀ i, Splipy.Separated (2 * ((max (p1 i) (p2 i) - 1 : ℕ) : K) * tol) (clampedU 0 1 (U i)))
    (rat : Bool) (nc : ℕ) (s1 s2 : Obj K) (h1 : UnitVol s1 p1 U Ma rat nc) (h2 : UnitVol s2 p2 U Mb rat nc)
    (hn1 : ∀ i : Fin 3, Nice3 tol (unitBasis (p1 i) (U i) (Ma i)))
    (hn2 : ∀ i : Fin 3, Nice3 tol (unitBasis (p2 i) (U i) (Mb i)))
    (hnu : ∀ i : Fin 3, Nice3 tol (unitBasis (max (p1 i) (p2 i)) (U i) (unionMult (p1 i) (p2 i) (Ma i) (Mb i)))) :
    ∃ r, makeIdentical tol false false s1 s2 none = .ok r
      ∧ UnitVol r.1 (fun i => max (p1 i) (p2 i)) U (fun i => unionMult (p1 i) (p2 i) (Ma i) (Mb i)) rat nc
      ∧ UnitVol r.2 (fun i => max (p1 i) (p2 i)) U (fun i => unionMult (p1 i) (p2 i) (Ma i) (Mb i)) rat nc
      ∧ SameMap 3 s1 r.1 ∧ SameMap 3 s2 r.2 := by
  have hr : s1.rational = s2.rational := h1.rational.trans h2.rational.symm
  have hd : s1.dimension = s2.dimension := dimension_eq_of hr (h1.ncomp.trans h2.ncomp.symm)
  have hcomp : makeCompatible s1 s2 = (s1, s2) := makeCompatible_of_eq s1 s2 hr hd
  have ne01 : (0 : Fin 3) ≠ 1 := by decide
  have ne02 : (0 : Fin 3) ≠ 2 := by decide
  have ne12 : (1 : Fin 3) ≠ 2 := by decide
  -- direction 0
  obtain ⟨r0, hr0, hb0, hbb0, hk0, hs01, hs02, hw01, hw02⟩ :=
    identicalDir_unit_volume tol htol (p1 0) (p2 0) (hp1 0) (hp2 0) (U 0) (Ma 0) (Mb 0) (hla 0) (hlb 0)
      (hma 0) (hmb 0) (hgap 0) 0 (s1, s2) h1.wf h2.wf (h1.basis 0) (h2.basis 0)
      (fun _ k _ => by show GrevilleOK tol (s1.basis k); rw [h1.basis k]; exact (hn1 k).1)
      (fun _ k _ => by show GrevilleOK tol (s2.basis k); rw [h2.basis k]; exact (hn2 k).1)
      (fun _ => (hn1 0).2 s1 (h1.basis 0) h1.wf.size) (fun _ => (hn2 0).2 s2 (h2.basis 0) h2.wf.size)
  obtain ⟨k1, k2, k3, k4, k5⟩ := identicalDir_keeps h1.wf h2.wf hr0 hs01 hs02 hr hd
  have hcomp0 : makeCompatible r0.1 r0.2 = r0 := makeCompatible_of_eq r0.1 r0.2 k1 k2
  have hb00 : r0.2.basis (0 : Fin 3) = unitBasis (max (p1 0) (p2 0)) (U 0) (unionMult (p1 0) (p2 0) (Ma 0) (Mb 0)) := by
    rw [hbb0]; exact hb0
  -- direction 1
  obtain ⟨r1, hr1, hb1, hbb1, hk1, hs11, hs12, hw11, hw12⟩ :=
    identicalDir_unit_volume tol htol (p1 1) (p2 1) (hp1 1) (hp2 1) (U 1) (Ma 1) (Mb 1) (hla 1) (hlb 1)
      (hma 1) (hmb 1) (hgap 1) 1 r0 hw01 hw02
      (by rw [(hk0 1 ne01.symm).1]; exact h1.basis 1) (by rw [(hk0 1 ne01.symm).2]; exact h2.basis 1)
      (fun _ => by
        apply fin3_cases
        · intro _; show GrevilleOK tol (r0.1.basis (0 : Fin 3)); rw [hb0]; exact (hnu 0).1
        · intro h; exact absurd rfl h
        · intro _; show GrevilleOK tol (r0.1.basis (2 : Fin 3)); rw [(hk0 2 ne02.symm).1, h1.basis 2]; exact (hn1 2).1)
      (fun _ => by
        apply fin3_cases
        · intro _; show GrevilleOK tol (r0.2.basis (0 : Fin 3)); rw [hb00]; exact (hnu 0).1
        · intro h; exact absurd rfl h
        · intro _; show GrevilleOK tol (r0.2.basis (2 : Fin 3)); rw [(hk0 2 ne02.symm).2, h2.basis 2]; exact (hn2 2).1)
      (fun _ => (hnu 0).2 r0.1 hb0 hw01.size) (fun _ => (hnu 0).2 r0.2 hb00 hw02.size)
  obtain ⟨l1, l2, l3, l4, l5⟩ := identicalDir_keeps hw01 hw02 hr1 hs11 hs12 k1 k2
  have hcomp1 : makeCompatible r1.1 r1.2 = r1 := makeCompatible_of_eq r1.1 r1.2 l1 l2
  have hb10 : r1.1.basis (0 : Fin 3) = unitBasis (max (p1 0) (p2 0)) (U 0) (unionMult (p1 0) (p2 0) (Ma 0) (Mb 0)) := by
    rw [(hk1 0 ne01).1]; exact hb0
  have hb10' : r1.2.basis (0 : Fin 3) = unitBasis (max (p1 0) (p2 0)) (U 0) (unionMult (p1 0) (p2 0) (Ma 0) (Mb 0)) := by
    rw [(hk1 0 ne01).2]; exact hb00
  have hb11' : r1.2.basis (1 : Fin 3) = unitBasis (max (p1 1) (p2 1)) (U 1) (unionMult (p1 1) (p2 1) (Ma 1) (Mb 1)) := by
    rw [hbb1]; exact hb1
  -- direction 2
  obtain ⟨r2, hr2, hb2, hbb2, hk2, hs21, hs22, hw21, hw22⟩ :=
    identicalDir_unit_volume tol htol (p1 2) (p2 2) (hp1 2) (hp2 2) (U 2) (Ma 2) (Mb 2) (hla 2) (hlb 2)
      (hma 2) (hmb 2) (hgap 2) 2 r1 hw11 hw12
      (by rw [(hk1 2 ne12.symm).1, (hk0 2 ne02.symm).1]; exact h1.basis 2)
      (by rw [(hk1 2 ne12.symm).2, (hk0 2 ne02.symm).2]; exact h2.basis 2)
      (fun _ => by
        apply fin3_cases
        · intro _; show GrevilleOK tol (r1.1.basis (0 : Fin 3)); rw [hb10]; exact (hnu 0).1
        · intro _; show GrevilleOK tol (r1.1.basis (1 : Fin 3)); rw [hb1]; exact (hnu 1).1
        · intro h; exact absurd rfl h)
      (fun _ => by
        apply fin3_cases
        · intro _; show GrevilleOK tol (r1.2.basis (0 : Fin 3)); rw [hb10']; exact (hnu 0).1
        · intro _; show GrevilleOK tol (r1.2.basis (1 : Fin 3)); rw [hb11']; exact (hnu 1).1
        · intro h; exact absurd rfl h)
      (fun _ => (hnu 0).2 r1.1 hb10 hw11.size) (fun _ => (hnu 0).2 r1.2 hb10' hw12.size)
  obtain ⟨m1, m2, m3, m4, m5⟩ := identicalDir_keeps hw11 hw12 hr2 hs21 hs22 l1 l2
  have hcall : makeIdentical tol false false s1 s2 none = .ok r2 := by
    show identicalLoop tol false false (List.range (makeCompatible s1 s2).1.pardimB) (makeCompatible s1 s2) = _
    rw [hcomp]
    have hp : (s1, s2).1.pardimB = 3 := h1.wf.size
    rw [hp]
    have hr3 : List.range 3 = [0, 1, 2] := rfl
    rw [hr3]
    have hcd0 : Splipy.checkDirection (.int ((0 : ℕ) : Int)) 3 = .ok 0 := by decide
    have hcd1 : Splipy.checkDirection (.int ((1 : ℕ) : Int)) 3 = .ok 1 := by decide
    have hcd2 : Splipy.checkDirection (.int ((2 : ℕ) : Int)) 3 = .ok 2 := by decide
    have hp0 : r0.1.pardimB = 3 := hw01.size
    have hp1' : r1.1.pardimB = 3 := hw11.size
    have hr0' : identicalDir tol false false (s1, s2) 0 = .ok r0 := hr0
    have hr1' : identicalDir tol false false r0 1 = .ok r1 := hr1
    have hr2' : identicalDir tol false false r1 2 = .ok r2 := hr2
    simp only [identicalLoop, makeIdenticalDir, hcomp, hp, hcd0, hr0', hcomp0, hp0, hcd1, hr1', hcomp1, hp1', hcd2, hr2']
  have hrat1 : r2.1.rational = rat := (m3.trans (l3.trans k3)).trans h1.rational
  have hrat2 : r2.2.rational = rat := m1.symm.trans hrat1
  have hnc1 : r2.1.ncomp = nc := ((hs01.trans hs11).trans hs21).ncomp.trans h1.ncomp
  have hnc2 : r2.2.ncomp = nc := ((hs02.trans hs12).trans hs22).ncomp.trans h2.ncomp
  refine ⟨r2, hcall, ⟨hw21, ?_, hrat1, hnc1⟩, ⟨hw22, ?_, hrat2, hnc2⟩, (hs01.trans hs11).trans hs21,
    (hs02.trans hs12).trans hs22⟩
  · apply fin3_cases
    · show r2.1.basis (0 : Fin 3) = _
      rw [(hk2 0 ne02).1]; exact hb10
    · show r2.1.basis (1 : Fin 3) = _
      rw [(hk2 1 ne12).1]; exact hb1
    · exact hb2
  · apply fin3_cases
    · show r2.2.basis (0 : Fin 3) = _
      rw [(hk2 0 ne02).2]; exact hb10'
    · show r2.2.basis (1 : Fin 3) = _
      rw [(hk2 1 ne12).2]; exact hb11'
    · show r2.2.basis (2 : Fin 3) = _
      rw [hbb2]; exact hb2

end C15
end Splipy
