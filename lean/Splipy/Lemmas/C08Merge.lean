import Splipy.Model.Periodic
import Mathlib.Tactic.Ring
import Mathlib.Tactic.FieldSimp
import Mathlib.Tactic.Linarith
import Mathlib.Tactic.IntervalCases

/-!
# Lemmas for property C08: the control-point merge of `make_periodic`

`Tensor.at3_build3` (reading back an entry of a tensor built along an axis) and the closed form of
`Obj.mergeCps`.
-/

namespace Splipy

set_option linter.unusedSectionVars false
set_option linter.unusedVariables false

namespace Tensor

variable {K : Type} [Zero K]

theorem prod_set_drop (shape : List ℕ) (axis m : ℕ) :
    (shape.set axis m).drop (axis + 1) = shape.drop (axis + 1) := by
  induction shape generalizing axis with
  | nil => simp
  | cons x xs ih =>
    cases axis with
    | zero => simp
    | succ a => simp [ih a]

theorem getD_set_self (shape : List ℕ) (axis m : ℕ) (h : axis < shape.length) :
    (shape.set axis m).getD axis 1 = m := by
  simp [List.getD, h]

/-- Reading back: entry `(a, r, i)` of `build3 shape axis m f` is `f a r i`
(`r < m`, `i <` inner size, `a <` outer size). -/
theorem at3_build3 (shape : List ℕ) (axis m : ℕ) (f : ℕ → ℕ → ℕ → K) (a r i : ℕ)
    (hax : axis < shape.length) (hr : r < m) (hi : i < (split3 shape axis).2.2)
    (ha : a < (split3 shape axis).1) :
    (build3 shape axis m f).at3 axis a r i = f a r i := by
  unfold at3 build3
  simp only [split3]
  simp only [split3] at hi ha
  rw [getD_set_self shape axis m hax, prod_set_drop]
  set inn := prod (shape.drop (axis + 1)) with hinn
  set o := prod (shape.take axis) with ho
  unfold get
  have hflat : (a * m + r) * inn + i < o * m * inn := by
    have h1 : a * m + r < o * m := by
      calc a * m + r < a * m + m := by omega
        _ = (a + 1) * m := by ring
        _ ≤ o * m := Nat.mul_le_mul_right m ha
    calc (a * m + r) * inn + i < (a * m + r) * inn + inn := by omega
      _ = (a * m + r + 1) * inn := by ring
      _ ≤ o * m * inn := Nat.mul_le_mul_right inn h1
  have hinn_pos : 0 < inn := by omega
  have hm_pos : 0 < m := by omega
  rw [Array.getD_eq_getD_getElem?, Array.getElem?_ofFn]
  simp only [hflat, dite_true, Option.getD_some]
  have e1 : ((a * m + r) * inn + i) % inn = i := by
    rw [Nat.add_comm, Nat.add_mul_mod_self_right]; exact Nat.mod_eq_of_lt hi
  have e2 : ((a * m + r) * inn + i) / inn = a * m + r := by
    rw [Nat.add_comm, Nat.add_mul_div_right _ _ hinn_pos, Nat.div_eq_of_lt hi, Nat.zero_add]
  have e3 : (a * m + r) % m = r := by
    rw [Nat.add_comm, Nat.add_mul_mod_self_right]; exact Nat.mod_eq_of_lt hr
  have e4 : ((a * m + r) * inn + i) / (inn * m) = a := by
    rw [← Nat.div_div_eq_div_mul, e2, Nat.add_comm, Nat.add_mul_div_right _ _ hm_pos,
      Nat.div_eq_of_lt hr, Nat.zero_add]
  rw [e1, e2, e3, e4]

end Tensor

variable {K : Type} [Field K] [LinearOrder K] [IsStrictOrderedRing K] [FloorRing K]

/-- Closed form of the merged control net of `make_periodic`. -/
theorem Obj.mergeCps_at3 (cps : Tensor K) (dir k a r i : ℕ) (hax : dir < cps.shape.length)
    (hr : r < cps.shape.getD dir 0 - (k + 1)) (hi : i < (Tensor.split3 cps.shape dir).2.2)
    (ha : a < (Tensor.split3 cps.shape dir).1) :
    (Obj.mergeCps cps dir k).at3 dir a r i =
      if r ≤ k then
        Obj.periodicWeight k r * cps.at3 dir a r i
          + (1 - Obj.periodicWeight k r) * cps.at3 dir a (cps.shape.getD dir 0 - (k + 1) + r) i
      else cps.at3 dir a r i := by
  unfold Obj.mergeCps
  simp only []
  rw [Tensor.at3_build3 cps.shape dir _ _ a r i hax hr hi ha]

theorem Obj.periodicWeight_zero_zero : (Obj.periodicWeight 0 0 : K) = 1 / 2 := by
  simp [Obj.periodicWeight]

theorem Obj.periodicWeight_first (k : ℕ) (hk : 1 ≤ k) : (Obj.periodicWeight k 0 : K) = 0 := by
  have : k ≠ 0 := by omega
  simp [Obj.periodicWeight, this]

theorem Obj.periodicWeight_last (k : ℕ) (hk : 1 ≤ k) : (Obj.periodicWeight k k : K) = 1 := by
  have h : k ≠ 0 := by omega
  have h' : (k : K) ≠ 0 := by exact_mod_cast h
  simp [Obj.periodicWeight, h]

/-- The merge of `make_periodic(k)` for `k ≤ 1` returns the periodic net when rows `k … n` of the
opened net are the periodic rows `r mod n`. -/
theorem Obj.mergeCps_k_le_1 (cps : Tensor K) (dir n k : ℕ) (hk : k ≤ 1)
    (hn : 1 ≤ n) (hax : dir < cps.shape.length) (hrows : cps.shape.getD dir 0 = n + k + 1)
    (c : ℕ → ℕ → ℕ → K)
    (a r i : ℕ) (hOpen : ∀ r, k ≤ r → r ≤ n → cps.at3 dir a r i = c a (r % n) i)
    (hr : r < n) (hi : i < (Tensor.split3 cps.shape dir).2.2)
    (ha : a < (Tensor.split3 cps.shape dir).1) :
    (Obj.mergeCps cps dir k).at3 dir a r i = c a r i := by
  rw [Obj.mergeCps_at3 cps dir k a r i hax (by omega) hi ha, hrows,
    show n + k + 1 - (k + 1) = n by omega]
  have hmod : r % n = r := Nat.mod_eq_of_lt hr
  interval_cases k
  · split_ifs with h
    · have hr0 : r = 0 := by omega
      subst hr0
      rw [Obj.periodicWeight_zero_zero, hOpen 0 (le_refl _) (by omega),
        hOpen (n + 0) (by omega) (by omega)]
      simp only [Nat.add_zero, Nat.mod_self, Nat.zero_mod]
      ring
    · rw [hOpen r (by omega) (by omega), hmod]
  · split_ifs with h
    · rcases Nat.eq_zero_or_pos r with hr0 | hr0
      · subst hr0
        rw [Obj.periodicWeight_first 1 (le_refl _), hOpen (n + 0) (by omega) (by omega)]
        simp only [Nat.add_zero, Nat.mod_self]
        ring
      · have hr1 : r = 1 := by omega
        subst hr1
        rw [Obj.periodicWeight_last 1 (le_refl _), hOpen 1 (le_refl _) (by omega), hmod]
        ring
    · rw [hOpen r (by omega) (by omega), hmod]

end Splipy
