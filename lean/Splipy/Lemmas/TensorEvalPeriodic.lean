import Splipy.Lemmas.TensorEvalSnap
import Splipy.Lemmas.C08SeamRow

/-!
# Periodic directions wrap by the period (C02 helpers)
-/

namespace Splipy
set_option linter.unusedSectionVars false
open Tensor
variable {K : Type} [Field K] [LinearOrder K] [IsStrictOrderedRing K] [FloorRing K]

/-- Periodic basis: the specification row only depends on the parameter modulo the period. -/
theorem Basis.specRow_add_period {b : Basis K} (hv : b.Valid) (hper : 0 ≤ b.periodic) (u : K)
    (m : ℤ) (h1 : u ≠ b.stop) (h2 : u + m * (b.stop - b.start) ≠ b.stop) (j : ℕ) :
    b.specRow (u + m * (b.stop - b.start)) j = b.specRow u j := by
  rw [Basis.specRow_periodic hper, Basis.specRow_periodic hper, b.wrap_add_int_mul hv u m h1 h2]


/-- The seam of a periodic basis has multiplicity `< order` (the basis functions are continuous
across the seam), and the two domain ends are exact. -/
def Basis.SeamContinuous (b : Basis K) (tol : K) : Prop :=
  (∀ j, j + (b.order - 1) < b.knots.size → b.kn j = b.start →
      b.kn (j + (b.order - 1)) ≠ b.start) ∧
  b.ExactAt tol b.start ∧ b.ExactAt tol b.stop

/-- Periodic basis with continuous seam: the specification row depends on the parameter only
modulo the period, at EVERY exact parameter (domain end included). -/
theorem Basis.rowVal_add_period {b : Basis K} (hv : b.Valid) (hper : 0 ≤ b.periodic) {tol : K}
    (htol : 0 < tol) (hseam : b.SeamContinuous tol) {u : K} (m : ℤ) (hex : b.ExactAt tol u)
    (hex' : b.ExactAt tol (u + m * (b.stop - b.start))) (j : ℕ) :
    b.rowVal tol (u + m * (b.stop - b.start)) j = b.rowVal tol u j := by
  unfold Basis.rowVal
  rw [snap_of_exact b htol hex, snap_of_exact b htol hex',
    evaluate_value_shift hv hper hseam.1 htol hseam.2.1 hseam.2.2 m hex hex']

/-- Per-direction hypothesis of the period-shift theorems: either nothing is shifted, or the
direction is periodic, all original and shifted parameters are exact, and either none of them is
the domain end `stop` or the seam is continuous (`b.SeamContinuous`). -/
def Basis.ShiftOK (b : Basis K) (tol : K) (us : List K) (m : K → ℤ) : Prop :=
  (∀ u ∈ us, m u = 0) ∨
  (0 ≤ b.periodic ∧ ∀ u ∈ us, b.ExactAt tol u ∧ b.ExactAt tol (u + m u * (b.stop - b.start)) ∧
      u ≠ b.stop ∧ u + m u * (b.stop - b.start) ≠ b.stop) ∨
  (0 ≤ b.periodic ∧ b.SeamContinuous tol ∧
    ∀ u ∈ us, b.ExactAt tol u ∧ b.ExactAt tol (u + m u * (b.stop - b.start)))

theorem Basis.ShiftOK.basisMat_eq {b : Basis K} (hv : b.Valid) {tol : K} (htol : 0 < tol)
    {us : List K} {m : K → ℤ} (h : b.ShiftOK tol us m) :
    Obj.basisMat b tol ((us.map (fun u => u + m u * (b.stop - b.start))).map (snap b tol)) 0 true
      = Obj.basisMat b tol (us.map (snap b tol)) 0 true := by
  unfold Obj.basisMat
  rw [List.map_map, List.map_map, List.map_map]
  congr 1
  apply List.map_congr_left
  intro u hu
  simp only [Function.comp]
  rcases h with h | ⟨hper, h⟩ | ⟨hper, hseam, h⟩
  · rw [h u hu]; simp
  · obtain ⟨e1, e2, e3, e4⟩ := h u hu
    rw [snap_of_exact b htol e1, snap_of_exact b htol e2]
    exact C01_periodic_any_real hv hper htol (m u) e1 e2 e3 e4 0 true
  · obtain ⟨e1, e2⟩ := h u hu
    rw [snap_of_exact b htol e1, snap_of_exact b htol e2]
    exact evaluate_value_shift hv hper hseam.1 htol hseam.2.1 hseam.2.2 (m u) e1 e2

theorem Basis.ShiftOK.out_iff {b : Basis K} {tol : K} {us : List K} {m : K → ℤ}
    (h : b.ShiftOK tol us m) :
    (b.periodic < 0 ∧ (us.map (fun u => u + m u * (b.stop - b.start)) = [] ∨
      ∃ t ∈ us.map (fun u => u + m u * (b.stop - b.start)),
        snap b tol t < b.start ∨ b.stop < snap b tol t))
    ↔ (b.periodic < 0 ∧ (us = [] ∨ ∃ t ∈ us, snap b tol t < b.start ∨ b.stop < snap b tol t)) := by
  rcases h with h | ⟨hper, -⟩ | ⟨hper, -⟩
  · have : us.map (fun u => u + m u * (b.stop - b.start)) = us := by
      conv_rhs => rw [← List.map_id us]
      apply List.map_congr_left
      intro u hu
      rw [h u hu]; simp
    rw [this]
  · constructor <;> (rintro ⟨h, -⟩; omega)
  · constructor <;> (rintro ⟨h, -⟩; omega)

/-- Surface: shifting the parameters of periodic directions by whole periods does not change the
result (either calling form). -/
theorem Obj.evaluate2_periodic_shift {o : Obj K} {b1 b2 : Basis K} (hb : o.bases = #[b1, b2])
    (hv1 : b1.Valid) (hv2 : b2.Valid) {tol : K} (htol : 0 < tol) (us vs : List K)
    (m1 m2 : K → ℤ) (h1 : b1.ShiftOK tol us m1) (h2 : b2.ShiftOK tol vs m2) (tensor : Bool) :
    o.evaluate tol [us.map (fun u => u + m1 u * (b1.stop - b1.start)),
                    vs.map (fun v => v + m2 v * (b2.stop - b2.start))] tensor
      = o.evaluate tol [us, vs] tensor := by
  have hlen : ([us.map (fun u => u + m1 u * (b1.stop - b1.start)),
      vs.map (fun v => v + m2 v * (b2.stop - b2.start))].map List.length)
      = [us, vs].map List.length := by simp
  have hdomiff : o.OutOfDomain tol [us.map (fun u => u + m1 u * (b1.stop - b1.start)),
      vs.map (fun v => v + m2 v * (b2.stop - b2.start))] ↔ o.OutOfDomain tol [us, vs] := by
    rw [Obj.outOfDomain2_iff hb, Obj.outOfDomain2_iff hb, h1.out_iff, h2.out_iff]
  by_cases c1 : tensor = false ∧ ([us, vs].map List.length).eraseDups.length ≠ 1
  · rw [o.evaluate_error_len tol _ tensor c1,
      o.evaluate_error_len tol _ tensor (by rw [hlen]; exact c1)]
  · by_cases c2 : o.OutOfDomain tol [us, vs]
    · rw [o.evaluate_error_dom tol _ tensor c2, o.evaluate_error_dom tol _ tensor (hdomiff.mpr c2)]
    · rw [o.evaluate_ok tol _ tensor c1 c2,
        o.evaluate_ok tol _ tensor (by rw [hlen]; exact c1) (fun h => c2 (hdomiff.mp h)),
        Obj.evalCore2 hb, Obj.evalCore2 hb]
      unfold Obj.hom2
      rw [h1.basisMat_eq hv1 htol, h2.basisMat_eq hv2 htol, List.length_map]


/-- Curve: shifting the parameters of a periodic direction by whole periods does not change the
result (either calling form). -/
theorem Obj.evaluate1_periodic_shift {o : Obj K} {b1 : Basis K} (hb : o.bases = #[b1])
    (hv1 : b1.Valid) {tol : K} (htol : 0 < tol) (us : List K)
    (m1 : K → ℤ) (h1 : b1.ShiftOK tol us m1) (tensor : Bool) :
    o.evaluate tol [us.map (fun u => u + m1 u * (b1.stop - b1.start))] tensor
      = o.evaluate tol [us] tensor := by
  have hlen : ([us.map (fun u => u + m1 u * (b1.stop - b1.start))].map List.length)
      = [us].map List.length := by simp
  have hdomiff : o.OutOfDomain tol [us.map (fun u => u + m1 u * (b1.stop - b1.start))]
      ↔ o.OutOfDomain tol [us] := by
    rw [Obj.outOfDomain1_iff hb, Obj.outOfDomain1_iff hb, h1.out_iff]
  by_cases c1 : tensor = false ∧ ([us].map List.length).eraseDups.length ≠ 1
  · rw [o.evaluate_error_len tol _ tensor c1,
      o.evaluate_error_len tol _ tensor (by rw [hlen]; exact c1)]
  · by_cases c2 : o.OutOfDomain tol [us]
    · rw [o.evaluate_error_dom tol _ tensor c2, o.evaluate_error_dom tol _ tensor (hdomiff.mpr c2)]
    · rw [o.evaluate_ok tol _ tensor c1 c2,
        o.evaluate_ok tol _ tensor (by rw [hlen]; exact c1) (fun h => c2 (hdomiff.mp h)),
        Obj.evalCore1 hb, Obj.evalCore1 hb]
      unfold Obj.hom1
      rw [h1.basisMat_eq hv1 htol, List.length_map]

/-- Volume: shifting the parameters of periodic directions by whole periods does not change the
result (either calling form). -/
theorem Obj.evaluate3_periodic_shift {o : Obj K} {b1 b2 b3 : Basis K}
    (hb : o.bases = #[b1, b2, b3]) (hv1 : b1.Valid) (hv2 : b2.Valid) (hv3 : b3.Valid) {tol : K}
    (htol : 0 < tol) (us vs ws : List K) (m1 m2 m3 : K → ℤ) (h1 : b1.ShiftOK tol us m1)
    (h2 : b2.ShiftOK tol vs m2) (h3 : b3.ShiftOK tol ws m3) (tensor : Bool) :
    o.evaluate tol [us.map (fun u => u + m1 u * (b1.stop - b1.start)),
                    vs.map (fun v => v + m2 v * (b2.stop - b2.start)),
                    ws.map (fun w => w + m3 w * (b3.stop - b3.start))] tensor
      = o.evaluate tol [us, vs, ws] tensor := by
  have hlen : ([us.map (fun u => u + m1 u * (b1.stop - b1.start)),
      vs.map (fun v => v + m2 v * (b2.stop - b2.start)),
      ws.map (fun w => w + m3 w * (b3.stop - b3.start))].map List.length)
      = [us, vs, ws].map List.length := by simp
  have hdomiff : o.OutOfDomain tol [us.map (fun u => u + m1 u * (b1.stop - b1.start)),
      vs.map (fun v => v + m2 v * (b2.stop - b2.start)),
      ws.map (fun w => w + m3 w * (b3.stop - b3.start))] ↔ o.OutOfDomain tol [us, vs, ws] := by
    rw [Obj.outOfDomain3_iff hb, Obj.outOfDomain3_iff hb, h1.out_iff, h2.out_iff, h3.out_iff]
  by_cases c1 : tensor = false ∧ ([us, vs, ws].map List.length).eraseDups.length ≠ 1
  · rw [o.evaluate_error_len tol _ tensor c1,
      o.evaluate_error_len tol _ tensor (by rw [hlen]; exact c1)]
  · by_cases c2 : o.OutOfDomain tol [us, vs, ws]
    · rw [o.evaluate_error_dom tol _ tensor c2, o.evaluate_error_dom tol _ tensor (hdomiff.mpr c2)]
    · rw [o.evaluate_ok tol _ tensor c1 c2,
        o.evaluate_ok tol _ tensor (by rw [hlen]; exact c1) (fun h => c2 (hdomiff.mp h)),
        Obj.evalCore3 hb, Obj.evalCore3 hb]
      unfold Obj.hom3
      rw [h1.basisMat_eq hv1 htol, h2.basisMat_eq hv2 htol, h3.basisMat_eq hv3 htol,
        List.length_map]

end Splipy
