import Splipy.Model.Object
import Splipy.Lemmas.C20Tol

/-!
# Object level: `SplineObject.evaluate` / `derivative` at fuzzed parameters (C20)

`Obj.evaluate` and `Obj.derivativeGeneric` look at their parameters only through
`_validate_domain`, which snaps them first.  Hence two parameter tuples that are entry-wise
*equal or within `tol` of the same knot* give the same result (value or exception), for objects
of any parametric dimension, rational or not, `tensor` or not, any derivative orders and sides.
-/

namespace Splipy.C20

open Splipy Splipy.Tol

variable {K : Type} [Field K] [LinearOrder K] [IsStrictOrderedRing K]

/-- `t` and `τ` are the same parameter as far as the basis is concerned: equal, or `τ` is a knot
    and `t` lies strictly within `tol` of it. -/
def NearOrEq (b : Basis K) (tol t τ : K) : Prop :=
  t = τ ∨ ∃ j, j < b.size ∧ τ = b.kn j ∧ |t - b.kn j| < tol

/-- entry-wise `NearOrEq` of two parameter lists of one direction -/
def NearKnots (b : Basis K) (tol : K) (ts τs : List K) : Prop :=
  List.Forall₂ (NearOrEq b tol) ts τs

/-- Two parameter tuples `ps`, `qs` (one list per direction) over the bases `bs`: direction by
    direction the knots are sorted and `2·tol`-separated and the lists are entry-wise `NearOrEq`.
    (Surplus parameter lists, which the code ignores except for their lengths, must have equal
    lengths.) -/
def NearAll (tol : K) : List (Basis K) → List (List K) → List (List K) → Prop
  | _, [], [] => True
  | [], ts :: ps, τs :: qs => ts.length = τs.length ∧ NearAll tol [] ps qs
  | b :: bs, ts :: ps, τs :: qs =>
      (KnotsSorted b ∧ KnotsSeparated b tol ∧ NearKnots b tol ts τs) ∧ NearAll tol bs ps qs
  | _, _, _ => False

theorem snap_eq_of_nearOrEq {b : Basis K} {tol t τ : K} (htol : 0 < tol) (hs : KnotsSorted b)
    (hsep : KnotsSeparated b tol) (h : NearOrEq b tol t τ) : snap b tol t = snap b tol τ := by
  rcases h with rfl | ⟨j, hj, rfl, hnear⟩
  · rfl
  · rw [snap_of_near b tol t hs hsep hj hnear, snap_knot b tol htol hs hsep hj]

theorem map_snap_eq_of_nearKnots {b : Basis K} {tol : K} (htol : 0 < tol) (hs : KnotsSorted b)
    (hsep : KnotsSeparated b tol) {ts τs : List K} (h : NearKnots b tol ts τs) :
    ts.map (snap b tol) = τs.map (snap b tol) := by
  induction h with
  | nil => rfl
  | cons h1 _ ih => simp only [List.map_cons, ih, snap_eq_of_nearOrEq htol hs hsep h1]

omit [IsStrictOrderedRing K] in
theorem NearKnots.length_eq {b : Basis K} {tol : K} {ts τs : List K} (h : NearKnots b tol ts τs) :
    ts.length = τs.length := List.Forall₂.length_eq h

/-- what `_validate_domain` does to one direction -/
def snapDir (tol : K) (x : Basis K × List K) : Basis K × List K := (x.1, x.2.map (snap x.1 tol))

theorem nearAll_spec {tol : K} (htol : 0 < tol) :
    ∀ (bs : List (Basis K)) (ps qs : List (List K)), NearAll tol bs ps qs →
      (List.zip bs ps).map (snapDir tol) = (List.zip bs qs).map (snapDir tol) ∧
      ps.map List.length = qs.map List.length := by
  intro bs ps
  induction ps generalizing bs with
  | nil =>
    intro qs h
    cases qs with
    | nil => exact ⟨rfl, rfl⟩
    | cons _ _ => cases bs <;> simp [NearAll] at h
  | cons ts ps ih =>
    intro qs h
    cases qs with
    | nil => cases bs <;> simp [NearAll] at h
    | cons τs qs =>
      cases bs with
      | nil =>
        simp only [NearAll] at h
        obtain ⟨_, h2⟩ := ih [] qs h.2
        exact ⟨by simp, by simp [h.1, h2]⟩
      | cons b bs =>
        simp only [NearAll] at h
        obtain ⟨⟨hs, hsep, hn⟩, hrest⟩ := h
        obtain ⟨h1, h2⟩ := ih bs qs hrest
        refine ⟨?_, by simp [hn.length_eq, h2]⟩
        simp only [List.zip_cons_cons, List.map_cons, h1]
        congr 1
        simp only [snapDir, map_snap_eq_of_nearKnots htol hs hsep hn]

section obj
variable [FloorRing K]

omit [FloorRing K] in
/-- `_validate_domain` does not distinguish the two tuples. -/
theorem validateDomain_congr (o : Obj K) {tol : K} (htol : 0 < tol) {ps qs : List (List K)}
    (h : NearAll tol o.bases.toList ps qs) : o.validateDomain tol ps = o.validateDomain tol qs := by
  have hz := (nearAll_spec htol _ _ _ h).1
  unfold Obj.validateDomain
  simp only []
  have e : ∀ xs : List (List K),
      (List.zip o.bases.toList xs).map (fun (x : Basis K × List K) => (x.1, x.2.map (snap x.1 tol)))
        = (List.zip o.bases.toList xs).map (snapDir tol) := fun _ => rfl
  rw [e ps, e qs, hz]

/-- **`SplineObject.evaluate` at fuzzed parameters**: same result (value or exception) as at the
    tuple in which every fuzzed entry is replaced by its knot. -/
theorem evaluate_congr (o : Obj K) {tol : K} (htol : 0 < tol) {ps qs : List (List K)}
    (h : NearAll tol o.bases.toList ps qs) (tensor : Bool) :
    o.evaluate tol ps tensor = o.evaluate tol qs tensor := by
  have hl := (nearAll_spec htol _ _ _ h).2
  unfold Obj.evaluate
  rw [validateDomain_congr o htol h, hl]

/-- **`SplineObject.derivative` (generic path) at fuzzed parameters**: same result for every
    choice of derivative orders and sides. -/
theorem derivativeGeneric_congr (o : Obj K) {tol : K} (htol : 0 < tol) {ps qs : List (List K)}
    (h : NearAll tol o.bases.toList ps qs) (derivs : List ℕ) (above : List Bool) (tensor : Bool) :
    o.derivativeGeneric tol ps derivs above tensor = o.derivativeGeneric tol qs derivs above tensor := by
  have hl := (nearAll_spec htol _ _ _ h).2
  unfold Obj.derivativeGeneric
  rw [validateDomain_congr o htol h, hl]

omit [IsStrictOrderedRing K] [FloorRing K] in
/-- `_validate_domain` succeeds when every snapped parameter of every non-periodic direction is
    in the domain and no non-periodic direction has an empty parameter list (`min()` of an empty
    sequence raises `ValueError`). -/
theorem validateDomain_ok_of_inDomain (o : Obj K) (tol : K) (qs : List (List K))
    (hdom : ∀ bp ∈ List.zip o.bases.toList qs, bp.1.periodic < 0 →
        ∀ τ ∈ bp.2, bp.1.start ≤ snap bp.1 tol τ ∧ snap bp.1 tol τ ≤ bp.1.stop)
    (hne : ∀ bp ∈ List.zip o.bases.toList qs, bp.1.periodic < 0 → bp.2 ≠ []) :
    o.validateDomain tol qs =
      .ok ((List.zip o.bases.toList qs).map (fun bp => bp.2.map (snap bp.1 tol))) := by
  unfold Obj.validateDomain
  simp only []
  rw [if_neg]
  · simp [List.map_map, Function.comp_def]
  · intro hany
    obtain ⟨x, hx, hbad⟩ := List.any_eq_true.1 hany
    obtain ⟨bp, hbp, rfl⟩ := List.mem_map.1 hx
    have hbad' := of_decide_eq_true hbad
    rcases hbad'.2 with hemp | hany'
    · have hnil : bp.2 = [] := by
        have := List.isEmpty_iff.1 hemp
        simpa using this
      exact hne bp hbp hbad'.1 hnil
    obtain ⟨t, ht, hout⟩ := List.any_eq_true.1 hany'
    obtain ⟨τ, hτ, rfl⟩ := List.mem_map.1 ht
    have := hdom bp hbp hbad'.1 τ hτ
    rcases of_decide_eq_true hout with h1 | h1
    · exact absurd h1 (not_lt.2 this.1)
    · exact absurd h1 (not_lt.2 this.2)

/-- **Fuzz never fails.**  If, after replacing every fuzzed entry by its knot, the (snapped)
    parameters of the non-periodic directions are in the domain, then `evaluate` at the fuzzed
    tuple succeeds (for `tensor=False` the usual equal-length condition is required) and returns
    exactly the value at the knots. -/
theorem evaluate_fuzz_ok (o : Obj K) {tol : K} (htol : 0 < tol) {ps qs : List (List K)}
    (h : NearAll tol o.bases.toList ps qs)
    (hdom : ∀ bp ∈ List.zip o.bases.toList qs, bp.1.periodic < 0 →
        ∀ τ ∈ bp.2, bp.1.start ≤ snap bp.1 tol τ ∧ snap bp.1 tol τ ≤ bp.1.stop)
    (hne : ∀ bp ∈ List.zip o.bases.toList qs, bp.1.periodic < 0 → bp.2 ≠ [])
    (tensor : Bool) (hlen : tensor = true ∨ (qs.map List.length).eraseDups.length = 1) :
    ∃ r, o.evaluate tol ps tensor = .ok r ∧ o.evaluate tol qs tensor = .ok r := by
  rw [evaluate_congr o htol h tensor]
  unfold Obj.evaluate
  rw [validateDomain_ok_of_inDomain o tol qs hdom hne]
  have hc : ¬ ((!tensor) = true ∧ (qs.map List.length).eraseDups.length ≠ 1) := by
    rintro ⟨h1, h2⟩
    rcases hlen with h3 | h3
    · rw [h3] at h1; exact absurd h1 (by decide)
    · exact h2 h3
  rw [if_neg hc]
  exact ⟨_, rfl, rfl⟩

/-- The same for the generic derivative path, for non-rational objects or total order `≤ 1`
    (the generic rational path raises `RuntimeError` for higher total order by design). -/
theorem derivativeGeneric_fuzz_ok (o : Obj K) {tol : K} (htol : 0 < tol) {ps qs : List (List K)}
    (h : NearAll tol o.bases.toList ps qs)
    (hdom : ∀ bp ∈ List.zip o.bases.toList qs, bp.1.periodic < 0 →
        ∀ τ ∈ bp.2, bp.1.start ≤ snap bp.1 tol τ ∧ snap bp.1 tol τ ≤ bp.1.stop)
    (hne : ∀ bp ∈ List.zip o.bases.toList qs, bp.1.periodic < 0 → bp.2 ≠ [])
    (derivs : List ℕ) (above : List Bool) (tensor : Bool)
    (hlen : tensor = true ∨ (qs.map List.length).eraseDups.length = 1)
    (hrat : o.rational = false ∨ derivs.sum ≤ 1) :
    ∃ r, o.derivativeGeneric tol ps derivs above tensor = .ok r ∧
      o.derivativeGeneric tol qs derivs above tensor = .ok r := by
  rw [derivativeGeneric_congr o htol h derivs above tensor]
  unfold Obj.derivativeGeneric
  rw [validateDomain_ok_of_inDomain o tol qs hdom hne]
  have hc : ¬ ((!tensor) = true ∧ (qs.map List.length).eraseDups.length ≠ 1) := by
    rintro ⟨h1, h2⟩
    rcases hlen with h3 | h3
    · rw [h3] at h1; exact absurd h1 (by decide)
    · exact h2 h3
  rw [if_neg hc]
  simp only []
  rcases hrat with hr | hr
  · rw [hr]; exact ⟨_, rfl, rfl⟩
  · by_cases hrt : o.rational = true
    · rw [hrt]
      simp only [if_true]
      rw [if_neg (by omega)]
      by_cases h0 : derivs.sum = 0
      · rw [if_pos h0]; exact ⟨_, rfl, rfl⟩
      · rw [if_neg h0]; exact ⟨_, rfl, rfl⟩
    · have : o.rational = false := by simpa using hrt
      rw [this]; exact ⟨_, rfl, rfl⟩

/-- A curve evaluated within `tol` *outside* (or inside) the end of a non-periodic basis: no
    exception, and the value is the value at the end point. -/
theorem curve_fuzz_at_end (o : Obj K) (b : Basis K) (hb : o.bases = #[b]) {tol : K} (htol : 0 < tol)
    (hs : KnotsSorted b) (hsep : KnotsSeparated b tol) (hord : 0 < b.order) (hsz : 2 * b.order ≤ b.size)
    (t : K) (hnear : |t - b.stop| < tol) :
    ∃ r, o.evaluate tol [[t]] true = .ok r ∧ o.evaluate tol [[b.stop]] true = .ok r := by
  have hidx : b.knots.size - b.order < b.size := by unfold Basis.size at *; omega
  have hstop : b.stop = b.kn (b.knots.size - b.order) := rfl
  have hnear' : |t - b.kn (b.knots.size - b.order)| < tol := by rw [← hstop]; exact hnear
  apply evaluate_fuzz_ok o htol (qs := [[b.stop]])
  · rw [hb]
    simp only [NearAll, NearKnots]
    refine ⟨⟨hs, hsep, ?_⟩, trivial⟩
    exact List.Forall₂.cons (Or.inr ⟨_, hidx, hstop, hnear'⟩) List.Forall₂.nil
  · intro bp hbp _ τ hτ
    rw [hb] at hbp
    simp at hbp
    subst hbp
    simp at hτ
    subst hτ
    show b.start ≤ snap b tol b.stop ∧ snap b tol b.stop ≤ b.stop
    rw [hstop, snap_knot b tol htol hs hsep hidx]
    refine ⟨?_, le_refl _⟩
    show b.kn (b.order - 1) ≤ _
    exact hs _ _ (by unfold Basis.size at *; omega) hidx
  · intro bp hbp _
    rw [hb] at hbp
    simp at hbp
    subst hbp
    simp
  · exact Or.inl rfl

end obj

end Splipy.C20
