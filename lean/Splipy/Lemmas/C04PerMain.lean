import Splipy.Lemmas.C04PerB2

/-!
# C04 helper lemmas, part 12: periodic Boehm — all three branches, with the repaired sequence
-/

namespace Splipy
namespace C04

set_option linter.unusedSectionVars false

variable {K : Type} [Field K] [LinearOrder K] [IsStrictOrderedRing K]

theorem wsum_congr (s : Side) (τ : ℕ → K) (q nAll n : ℕ) (hn : 0 < n) (c c' : ℕ → K) (d : ℕ) (t : K)
    (h : ∀ r, r < n → c r = c' r) : wsum s τ q nAll n c d t = wsum s τ q nAll n c' d t := by
  unfold wsum
  apply Finset.sum_congr rfl
  intro i _
  rw [h _ (Nat.mod_lt _ hn)]

section main

variable (τ : ℕ → K) (x T : K) (n p k mu : ℕ)

/-- branch 1: the repaired sequence is the doubly refined one on the array -/
theorem repSeq_branch1 (hp : k + 2 ≤ p) (hguard : p + k ≤ n)
    (hg : ∀ i, i ≤ p + k → τ (i + n) = τ i + T) (h1 : p ≤ mu) (h2 : mu ≤ p + k) (j : ℕ)
    (hj : j ≤ n + k + 1 + p) :
    repSeq (insertSeq τ mu x) mu n (p + k) j
      = insertSeq (insertSeq τ mu x) (n + 1 + mu) (x + T) j := by
  have hmn : mu ≤ n := by omega
  unfold repSeq
  rw [if_pos h2]
  by_cases ha : n + 1 ≤ j ∧ j < n + 1 + (p + k + 1)
  · rw [if_pos ha]
    obtain ⟨i, hi, rfl⟩ : ∃ i, i ≤ p + k ∧ j = n + 1 + i := ⟨j - (n + 1), by omega, by omega⟩
    rw [show n + 1 + i - (n + 1) = i by omega,
      show insertSeq τ mu x (n + 1) = τ 0 + T from by
        simpa using sigma_shift τ x T n p k mu hg hmn 0 (by omega),
      show insertSeq τ mu x 0 = τ 0 from bo_ins_lt (by omega)]
    rcases Nat.lt_trichotomy i mu with h | h | h
    · rw [bo_ins_lt (show n + 1 + i < n + 1 + mu by omega), sigma_shift τ x T n p k mu hg hmn i hi,
        bo_ins_lt h]
      ring
    · subst h
      rw [bo_ins_self, bo_ins_self]
      ring
    · rw [bo_ins_gt (k := n + i) (show n + 1 + mu ≤ n + i by omega) (by omega),
        show n + i = n + 1 + (i - 1) by omega, sigma_shift τ x T n p k mu hg hmn (i - 1) (by omega),
        bo_ins_gt (k := i - 1) (show mu ≤ i - 1 by omega) (by omega)]
      ring
  · rw [if_neg ha, bo_ins_lt (show j < n + 1 + mu by omega)]

/-- branch 2: the repaired sequence is the doubly refined one, shifted by one index -/
theorem repSeq_branch2 (hp : k + 2 ≤ p) (hguard : p + k ≤ n)
    (hg : ∀ i, i ≤ p + k → τ (i + n) = τ i + T) (h1 : n + 1 ≤ mu) (h2 : mu ≤ n + k + 1) (j : ℕ) :
    repSeq (insertSeq τ mu x) mu n (p + k) j
      = insertSeq (insertSeq τ mu x) (mu - n) (x - T) (j + 1) := by
  unfold repSeq
  rw [if_neg (by omega), if_pos h1]
  by_cases ha : j < p + k + 1
  · rw [if_pos ha, show insertSeq τ mu x (p + k) = τ (p + k) from bo_ins_lt (by omega),
      show insertSeq τ mu x (n + (p + k) + 1) = τ (p + k) + T from by
        rw [bo_ins_gt (k := n + (p + k)) (by omega) rfl, Nat.add_comm n (p + k), hg _ le_rfl]]
    rcases Nat.lt_trichotomy (j + 1) (mu - n) with h | h | h
    · rw [bo_ins_lt h, bo_ins_lt (show j + 1 < mu by omega),
        bo_ins_lt (show n + 1 + j < mu by omega), show n + 1 + j = (j + 1) + n by omega,
        hg (j + 1) (by omega)]
      ring
    · rw [h, bo_ins_self, show n + 1 + j = mu by omega, bo_ins_self]
      ring
    · rw [bo_ins_gt (k := j) (show mu - n ≤ j by omega) rfl, bo_ins_lt (show j < mu by omega),
        bo_ins_gt (k := n + j) (show mu ≤ n + j by omega) (by omega), Nat.add_comm n j,
        hg j (by omega)]
      ring
  · rw [if_neg ha, bo_ins_gt (k := j) (show mu - n ≤ j by omega) rfl]

/-- **Periodic Boehm (specification level).**  `τ` monotone with ghost knots repeating with period
`T` over `n` functions (`nAll = n+k+1` functions on the ghost-extended vector), order `p = q+1`,
`k+2 ≤ p`, guard `p+k ≤ n`; `x` inserted at `μ ∈ [p, n+k+1]` with `τ (μ-1) ≤ x ≤ τ μ`.  Then for
every `(n)`-periodic coefficient vector `c`, with `c' = matF·c` (the functional form of the matrix
`insert_knot` builds, wrapped writes included) and the repaired knot sequence `repSeq`, the periodic
splines agree at every parameter of the domain `[τ (p-1), τ (n+k+1)]` (one-sided: `[a,e)` for the
right-continuous, `(a,e]` for the left-continuous version), with all derivatives. -/
theorem wsum_insert_periodic (s : Side) (hτ : Monotone τ) (q : ℕ) (hpq : p = q + 1)
    (hp : k + 2 ≤ p) (hguard : p + k ≤ n) (hg : ∀ i, i ≤ p + k → τ (i + n) = τ i + T)
    (h1 : p ≤ mu) (h2 : mu ≤ n + k + 1) (hx : τ (mu - 1) ≤ x ∧ x ≤ τ mu)
    (c : ℕ → K) (d : ℕ) (t : K) (ht : s.mem (τ (p - 1)) (τ (n + k + 1)) t) :
    wsum s (repSeq (insertSeq τ mu x) mu n (p + k)) q (n + k + 1 + 1) (n + 1)
        (mulVecF (matF τ x n p mu) n c) d t
      = wsum s τ q (n + k + 1) n c d t := by
  by_cases hB1 : mu ≤ p + k
  · -- right ghost knots rewritten
    have hc : ∀ r, r < n + 1 → mulVecF (matF τ x n p mu) n c r = mulVecF (codeF τ x p mu) n c r := by
      intro r _
      unfold mulVecF
      apply Finset.sum_congr rfl
      intro j hj
      rw [matF_closed τ x n p mu (by omega) h1 (by omega) hx r j (Finset.mem_range.1 hj)]
    rw [wsum_congr s _ q _ (n + 1) (by omega) _ _ d t hc]
    exact wsum_branch1 τ x T n p k mu s hτ q hpq hp hguard hg h1 hB1 hx _
      (repSeq_branch1 τ x T n p k mu hp hguard hg h1 hB1) c d _ t ht
  · by_cases hB2 : n + 1 ≤ mu
    · have hc : ∀ r, r < n + 1 → mulVecF (matF τ x n p mu) n c r = mulVecF (wrapRow τ x n p mu) n c r := by
        intro r hr
        unfold mulVecF
        apply Finset.sum_congr rfl
        intro j hj
        rw [matF_wrap τ x n p k mu hp hguard hB2 h2 r j hr (Finset.mem_range.1 hj)]
      rw [wsum_congr s _ q _ (n + 1) (by omega) _ _ d t hc]
      exact wsum_branch2 τ x T n p k mu s hτ q hpq hp hguard hg hB2 h2 hx _
        (fun j _ => repSeq_branch2 τ x T n p k mu hp hguard hg hB2 h2 j) c d _ t ht
    · have hc : ∀ r, r < n + 1 → mulVecF (matF τ x n p mu) n c r = mulVecF (codeF τ x p mu) n c r := by
        intro r _
        unfold mulVecF
        apply Finset.sum_congr rfl
        intro j hj
        rw [matF_closed τ x n p mu (by omega) h1 (by omega) hx r j (Finset.mem_range.1 hj)]
      rw [wsum_congr s _ q _ (n + 1) (by omega) _ _ d t hc]
      have hρ : repSeq (insertSeq τ mu x) mu n (p + k) = insertSeq τ mu x := by
        funext j; unfold repSeq; rw [if_neg hB1, if_neg hB2]
      rw [hρ]
      subst hpq
      exact wsum_branch3 s τ hτ x n q k mu hp hguard (by omega) (by omega) hx c d t

end main

end C04
end Splipy
