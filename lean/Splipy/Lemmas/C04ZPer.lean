import Mathlib.Algebra.Order.Field.Basic
import Mathlib.Algebra.Order.Ring.Cast
import Mathlib.Algebra.BigOperators.Intervals
import Mathlib.Tactic.Ring
import Mathlib.Tactic.Linarith
import Mathlib.Order.Monotone.Basic

/-!
# C04 helper lemmas, part 17: periodic sequences indexed by `ℤ`

Pure index arithmetic, no B-splines.  `insZ f m x` is the sequence `f` with `x` inserted at
position `m`; a periodic insertion (all images of `x`) into a sequence with `f (i+N) = f i + P`
is described on one period and extended by periodicity.  `shift_base`/`shift_step` are the
induction that shows: refining the `R`-fold cover of an `(n,T)`-periodic sequence at the `R`
images `x, x+T, …, x+(R-1)T` (in this order) produces a sequence that is again `T`-periodic, with
`n+1` entries per period.
-/

namespace Splipy
namespace C04

set_option linter.unusedSectionVars false

variable {K : Type} [Field K] [LinearOrder K] [IsStrictOrderedRing K]

/-- `f` with `x` inserted at position `m` (one insertion). -/
def insZ (f : ℤ → K) (m : ℤ) (x : K) : ℤ → K :=
  fun i => if i < m then f i else if i = m then x else f (i - 1)

theorem insZ_lt {f : ℤ → K} {m : ℤ} {x : K} {i : ℤ} (h : i < m) : insZ f m x i = f i := by
  unfold insZ; rw [if_pos h]

theorem insZ_self {f : ℤ → K} {m : ℤ} {x : K} : insZ f m x m = x := by
  unfold insZ; rw [if_neg (lt_irrefl m), if_pos rfl]

theorem insZ_gt {f : ℤ → K} {m : ℤ} {x : K} {i : ℤ} (h : m < i) : insZ f m x i = f (i - 1) := by
  unfold insZ; rw [if_neg (by omega), if_neg (by omega)]

/-- Two valid positions of `x` in a monotone sequence give the same sequence. -/
theorem insZ_pos_indep (f : ℤ → K) (hf : Monotone f) (m m' : ℤ) (x : K)
    (h1 : f (m - 1) ≤ x ∧ x ≤ f m) (h2 : f (m' - 1) ≤ x ∧ x ≤ f m') (hle : m' ≤ m) :
    insZ f m x = insZ f m' x := by
  funext i
  have hconst : ∀ j, m' ≤ j → j < m → f j = x := by
    intro j hj1 hj2
    exact le_antisymm (le_trans (hf (show j ≤ m - 1 by omega)) h1.1)
      (le_trans h2.2 (hf hj1))
  rcases lt_trichotomy i m' with h | h | h
  · rw [insZ_lt (by omega), insZ_lt h]
  · subst h
    rw [insZ_self]
    rcases eq_or_lt_of_le hle with e | e
    · rw [e, insZ_self]
    · rw [insZ_lt e, hconst i le_rfl e]
  · rw [insZ_gt h]
    rcases lt_trichotomy i m with h' | h' | h'
    · rw [insZ_lt h', hconst i (by omega) h', hconst (i - 1) (by omega) (by omega)]
    · subst h'
      rw [insZ_self, hconst (i - 1) (by omega) (by omega)]
    · rw [insZ_gt h']

/-- A periodic insertion known on one period `[lo, lo+N] ∋ m` of the new sequence is known on
    `[m-N, m+N]`. -/
theorem insZ_extend (f0 f1 : ℤ → K) (N : ℤ) (P : K) (m lo : ℤ) (x : K)
    (h0 : ∀ i, f0 (i + N) = f0 i + P) (h1 : ∀ i, f1 (i + (N + 1)) = f1 i + P)
    (hlo : lo ≤ m) (hhi : m ≤ lo + N)
    (hs : ∀ i, lo ≤ i → i ≤ lo + N → f1 i = insZ f0 m x i) :
    ∀ i, m - N ≤ i → i ≤ m + N → f1 i = insZ f0 m x i := by
  intro i h1' h2'
  by_cases ha : i < lo
  · -- below the window: one period up
    have e : f1 i = f1 (i + (N + 1)) - P := by rw [h1 i]; ring
    rw [e, hs (i + (N + 1)) (by omega) (by omega), insZ_gt (by omega), insZ_lt (by omega),
      show i + (N + 1) - 1 = i + N by ring, h0 i]
    ring
  · by_cases hb : i ≤ lo + N
    · exact hs i (by omega) hb
    · -- above the window: one period down
      have e : f1 i = f1 (i - (N + 1)) + P := by
        have := h1 (i - (N + 1))
        rw [show i - (N + 1) + (N + 1) = i by ring] at this
        exact this
      rw [e, hs (i - (N + 1)) (by omega) (by omega), insZ_lt (by omega), insZ_gt (by omega)]
      have := h0 (i - (N + 1))
      rw [show i - (N + 1) + N = i - 1 by ring] at this
      rw [this]

/-- Base of the induction: after the first insertion (`x` at `m`), the new sequence one period
    (`n+1` indices, `T`) later is the old one. -/
theorem shift_base (f0 f1 : ℤ → K) (n N : ℤ) (T : K) (m : ℤ) (x : K) (hn : 0 ≤ n)
    (hper : ∀ i, f0 (i + n) = f0 i + T)
    (h1 : ∀ i, m - n ≤ i → i ≤ m + N → f1 i = insZ f0 m x i) :
    ∀ i, m - n ≤ i → i < m - n + N → f1 (i + n + 1) = f0 i + T := by
  intro i hlo hhi
  rw [h1 (i + n + 1) (by omega) (by omega), insZ_gt (by omega),
    show i + n + 1 - 1 = i + n by ring, hper]

/-- Step of the induction: levels `j, j+1, j+2` (`f0, f1, f2`), `x` inserted at `m` into `f0`,
    `x+T` at `m+n+1` into `f1`. -/
theorem shift_step (f0 f1 f2 : ℤ → K) (n N β m : ℤ) (T x : K)
    (hA : m ≤ β + N) (hC : β ≤ m)
    (h1 : ∀ i, β ≤ i → i ≤ β + N → f1 i = insZ f0 m x i)
    (h2 : ∀ i, β + n + 1 ≤ i → i ≤ β + n + 1 + N → f2 i = insZ f1 (m + n + 1) (x + T) i)
    (inv : ∀ i, β ≤ i → i < β + N → f1 (i + n + 1) = f0 i + T) :
    ∀ i, β ≤ i → i < β + N + 1 → f2 (i + n + 1) = f1 i + T := by
  intro i hlo hhi
  rw [h2 (i + n + 1) (by omega) (by omega), h1 i hlo (by omega)]
  rcases lt_trichotomy i m with h | h | h
  · rw [insZ_lt (by omega), insZ_lt h, inv i hlo (by omega)]
  · subst h
    rw [show i + n + 1 = i + n + 1 from rfl, insZ_self, insZ_self]
  · rw [insZ_gt (by omega), insZ_gt h, show i + n + 1 - 1 = (i - 1) + n + 1 by ring,
      inv (i - 1) (by omega) (by omega)]

/-- Iterating a shift relation that holds on `[a, b)`. -/
theorem shift_iter (f : ℤ → K) (d : ℤ) (T : K) (a b : ℤ) (hd : 0 ≤ d)
    (h : ∀ i, a ≤ i → i < b → f (i + d) = f i + T) :
    ∀ (s : ℕ) (i : ℤ), a ≤ i → i + ((s : ℤ) - 1) * d < b → f (i + s * d) = f i + s * T := by
  intro s
  induction s with
  | zero => intro i _ _; simp
  | succ s ih =>
    intro i hi hb
    have hsd : 0 ≤ (s : ℤ) * d := mul_nonneg (Int.natCast_nonneg s) hd
    have e1 : i + ((s + 1 : ℕ) : ℤ) * d = (i + s * d) + d := by push_cast; ring
    have hb' : i + (s : ℤ) * d < b := by
      have : i + (((s + 1 : ℕ) : ℤ) - 1) * d = i + s * d := by push_cast; ring
      rw [this] at hb; exact hb
    rw [e1, h (i + s * d) (by omega) hb', ih i hi (by
      have : i + ((s : ℤ) - 1) * d = i + s * d - d := by ring
      rw [this]; omega)]
    push_cast; ring

/-- A function with period `N > 0` that vanishes on one period vanishes. -/
theorem per_zero (g : ℤ → K) (N : ℤ) (hN : 0 < N) (hg : ∀ i, g (i + N) = g i) (a : ℤ)
    (hz : ∀ i, a ≤ i → i < a + N → g i = 0) : ∀ i, g i = 0 := by
  have hq : ∀ (q : ℤ) (i : ℤ), g (i + q * N) = g i := by
    intro q
    induction q using Int.induction_on with
    | zero => intro i; simp
    | succ q ih =>
      intro i
      rw [show i + ((q : ℤ) + 1) * N = (i + q * N) + N by ring, hg, ih]
    | pred q ih =>
      intro i
      have := hg (i + (-(q : ℤ) - 1) * N)
      rw [show i + (-(q : ℤ) - 1) * N + N = i + (-(q : ℤ)) * N by ring] at this
      rw [← this, ih]
  intro i
  have e : i = (a + (i - a) % N) + ((i - a) / N) * N := by
    have := Int.emod_add_mul_ediv (i - a) N
    linarith [mul_comm N ((i - a) / N)]
  rw [e, hq]
  exact hz _ (by have := Int.emod_nonneg (i - a) (ne_of_gt hN); omega)
    (by have := Int.emod_lt_of_pos (i - a) hN; omega)

/-- Completion: `f` has period `(R·(n+1), R·T)` and satisfies the `(n+1, T)` shift relation on
    all but the last index of one period; then it satisfies it everywhere. -/
theorem fold_complete (f : ℤ → K) (n : ℤ) (R : ℕ) (T : K) (β : ℤ) (hn : 0 ≤ n) (hR : 1 ≤ R)
    (hper : ∀ i, f (i + (R : ℤ) * (n + 1)) = f i + (R : K) * T)
    (h : ∀ i, β ≤ i → i < β + (R : ℤ) * (n + 1) - 1 → f (i + (n + 1)) = f i + T) :
    ∀ i, f (i + (n + 1)) = f i + T := by
  -- the missing index: the last of the period
  have hRi : (1 : ℤ) ≤ R := by exact_mod_cast hR
  have hlast : f (β + (R : ℤ) * (n + 1) - 1 + (n + 1)) = f (β + (R : ℤ) * (n + 1) - 1) + T := by
    have e1 := shift_iter f (n + 1) T β (β + (R : ℤ) * (n + 1) - 1) (by omega) h (R - 1) (β + n)
      (by omega) (by
        have : ((R - 1 : ℕ) : ℤ) = (R : ℤ) - 1 := by omega
        rw [this]
        nlinarith)
    have hc : ((R - 1 : ℕ) : ℤ) = (R : ℤ) - 1 := by omega
    have hcK : ((R - 1 : ℕ) : K) = (R : K) - 1 := by
      rw [Nat.cast_sub hR]; simp
    rw [hc, hcK] at e1
    have e2 := hper (β + n)
    rw [show β + (R : ℤ) * (n + 1) - 1 + (n + 1) = β + n + (R : ℤ) * (n + 1) by ring, e2,
      show β + (R : ℤ) * (n + 1) - 1 = β + n + ((R : ℤ) - 1) * (n + 1) by ring, e1]
    ring
  have hall : ∀ i, β ≤ i → i < β + (R : ℤ) * (n + 1) → f (i + (n + 1)) = f i + T := by
    intro i h1 h2
    by_cases hc : i < β + (R : ℤ) * (n + 1) - 1
    · exact h i h1 hc
    · have : i = β + (R : ℤ) * (n + 1) - 1 := by omega
      rw [this]; exact hlast
  have hpos : 0 < (R : ℤ) * (n + 1) := by nlinarith
  have := per_zero (fun i => f (i + (n + 1)) - f i - T) ((R : ℤ) * (n + 1)) hpos
    (by
      intro i
      show f (i + (R : ℤ) * (n + 1) + (n + 1)) - f (i + (R : ℤ) * (n + 1)) - T = _
      rw [show i + (R : ℤ) * (n + 1) + (n + 1) = (i + (n + 1)) + (R : ℤ) * (n + 1) by ring,
        hper, hper]
      ring) β
    (by intro i h1 h2; show f (i + (n + 1)) - f i - T = 0; rw [hall i h1 h2]; ring)
  intro i
  have h' : f (i + (n + 1)) - f i - T = 0 := this i
  linarith

/-- a position with strict upper bound in a monotone sequence is unique -/
theorem pos_unique (f : ℤ → K) (hf : Monotone f) (a b : ℤ) (x : K)
    (ha : f (a - 1) ≤ x ∧ x < f a) (hb : f (b - 1) ≤ x ∧ x < f b) : a = b := by
  rcases lt_trichotomy a b with h | h | h
  · exact absurd (lt_of_lt_of_le ha.2 (le_trans (hf (show a ≤ b - 1 by omega)) hb.1)) (lt_irrefl _)
  · exact h
  · exact absurd (lt_of_lt_of_le hb.2 (le_trans (hf (show b ≤ a - 1 by omega)) ha.1)) (lt_irrefl _)

/-- From the description of a pass at the actual insertion index `μ` (possibly clamped, when
    `x` is the end `e` of the domain) to the description at the canonical position `mh`. -/
theorem hcan_of_pos (f0 f1 : ℤ → K) (hf : Monotone f0) (N μ mh μ0 β n : ℤ) (x e : K)
    (hstep : ∀ i, μ - N ≤ i → i ≤ μ + N → f1 i = insZ f0 μ x i)
    (hval : f0 (μ - 1) ≤ x ∧ x ≤ f0 μ) (hstrict : x < e → x < f0 μ) (hclamp : x = e → μ0 ≤ μ)
    (hxle : x ≤ e) (hpos : f0 (mh - 1) ≤ x ∧ x < f0 mh)
    (hβ : β + n = μ0) (hμ0 : μ0 ≤ mh) (hB : mh - N ≤ β) :
    ∀ i, β ≤ i → i ≤ β + n + N → f1 i = insZ f0 mh x i := by
  have hle : μ ≤ mh := by
    by_contra hc
    have : f0 mh ≤ f0 (μ - 1) := hf (by omega)
    exact absurd (lt_of_lt_of_le hpos.2 (le_trans this hval.1)) (lt_irrefl _)
  have hlo : μ0 ≤ μ := by
    rcases lt_or_eq_of_le hxle with h | h
    · have := pos_unique f0 hf μ mh x ⟨hval.1, hstrict h⟩ hpos
      omega
    · exact hclamp h
  rw [insZ_pos_indep f0 hf mh μ x ⟨hpos.1, le_of_lt hpos.2⟩ hval hle]
  intro i h1 h2
  exact hstep i (by omega) (by omega)

/-! ### the periodic extension of a window -/

/-- `(N, P)`-periodic extension to `ℤ` of the first `N` entries of `κ`. -/
def zper (κ : ℕ → K) (N : ℕ) (P : K) : ℤ → K :=
  fun i => κ (i % (N : ℤ)).toNat + ((i / (N : ℤ) : ℤ) : K) * P

theorem zper_add (κ : ℕ → K) (N : ℕ) (P : K) (hN : 0 < N) (i : ℤ) :
    zper κ N P (i + N) = zper κ N P i + P := by
  unfold zper
  have hN' : (N : ℤ) ≠ 0 := by omega
  rw [Int.add_emod_right, Int.add_ediv_of_dvd_right (dvd_refl _), Int.ediv_self hN']
  push_cast
  ring

/-- On a window whose ghost entries repeat with the period the extension is the window. -/
theorem zper_window (κ : ℕ → K) (N : ℕ) (P : K) (hN : 0 < N) (size : ℕ)
    (hg : ∀ i, i + N < size → κ (i + N) = κ i + P) :
    ∀ i : ℕ, i < size → zper κ N P (i : ℤ) = κ i := by
  intro i
  induction i using Nat.strong_induction_on with
  | _ i ih =>
    intro hi
    by_cases h : i < N
    · unfold zper
      rw [Int.emod_eq_of_lt (by omega) (by omega), Int.ediv_eq_zero_of_lt (by omega) (by omega)]
      simp
    · obtain ⟨j, rfl⟩ : ∃ j, i = j + N := ⟨i - N, by omega⟩
      have := zper_add κ N P hN (j : ℤ)
      rw [show ((j + N : ℕ) : ℤ) = (j : ℤ) + N by push_cast; ring, this, ih j (by omega) (by omega),
        hg j hi]

theorem zper_mono (κ : ℕ → K) (N : ℕ) (P : K) (hN : 0 < N)
    (hs : ∀ i, i + 1 < N → κ i ≤ κ (i + 1)) (hlast : κ (N - 1) ≤ κ 0 + P) :
    Monotone (zper κ N P) := by
  apply monotone_int_of_le_succ
  intro i
  unfold zper
  have hN' : (0 : ℤ) < N := by omega
  have hr0 := Int.emod_nonneg i (ne_of_gt hN')
  have hr1 := Int.emod_lt_of_pos i hN'
  have hdec := Int.emod_add_mul_ediv i N
  by_cases h : i % (N : ℤ) + 1 < N
  · have h0 : i + 1 = (i % (N : ℤ) + 1) + (N : ℤ) * (i / (N : ℤ)) := by linarith
    have e1 : (i + 1) % (N : ℤ) = i % (N : ℤ) + 1 := by
      calc (i + 1) % (N : ℤ) = ((i % (N : ℤ) + 1) + (N : ℤ) * (i / (N : ℤ))) % (N : ℤ) := by rw [← h0]
        _ = i % (N : ℤ) + 1 := by
          rw [Int.add_mul_emod_self_left, Int.emod_eq_of_lt (by omega) h]
    have e2 : (i + 1) / (N : ℤ) = i / (N : ℤ) := by
      calc (i + 1) / (N : ℤ) = ((i % (N : ℤ) + 1) + (N : ℤ) * (i / (N : ℤ))) / (N : ℤ) := by rw [← h0]
        _ = i / (N : ℤ) := by
          rw [Int.add_mul_ediv_left _ _ (ne_of_gt hN'), Int.ediv_eq_zero_of_lt (by omega) h]
          ring
    rw [e1, e2]
    have : (i % (N : ℤ) + 1).toNat = (i % (N : ℤ)).toNat + 1 := by omega
    rw [this]
    have := hs (i % (N : ℤ)).toNat (by omega)
    linarith
  · have hr : i % (N : ℤ) = N - 1 := by omega
    have e1 : (i + 1) % (N : ℤ) = 0 := by
      have : i + 1 = (N : ℤ) * (i / N + 1) := by linarith
      rw [this]; exact Int.mul_emod_right _ _
    have e2 : (i + 1) / (N : ℤ) = i / (N : ℤ) + 1 := by
      have : i + 1 = (N : ℤ) * (i / N + 1) := by linarith
      rw [this, Int.mul_ediv_cancel_left _ (ne_of_gt hN')]
    rw [e1, e2, hr]
    have : ((N : ℤ) - 1).toNat = N - 1 := by omega
    rw [this]
    push_cast
    linarith

/-- Two sequences with the same period that agree on one period agree. -/
theorem zper_unique (f g : ℤ → K) (N : ℤ) (P : K) (hN : 0 < N)
    (hf : ∀ i, f (i + N) = f i + P) (hg : ∀ i, g (i + N) = g i + P) (a : ℤ)
    (h : ∀ i, a ≤ i → i < a + N → f i = g i) : ∀ i, f i = g i := by
  have := per_zero (fun i => f i - g i) N hN (by intro i; show f (i + N) - g (i + N) = _; rw [hf, hg]; ring) a
    (by intro i h1 h2; show f i - g i = 0; rw [h i h1 h2]; ring)
  intro i
  have h' : f i - g i = 0 := this i
  linarith

end C04
end Splipy
