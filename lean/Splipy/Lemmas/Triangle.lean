import Mathlib.Tactic.Ring
import Mathlib.Tactic.Linarith
import Mathlib.Order.Monotone.Basic
import Splipy.Spec.BSpline
import Splipy.Model.Basis

/-!
# L1: the model's de Boor triangle computes the specification

`triangle τ p mu d t` (the scratch array `M` of `basis_eval.evaluate` after the value levels and
the derivative levels) holds in slot `j` the value `dB s τ (p-1) (mu-p+j) d t`, provided
`t` lies in the knot span `[τ (mu-1), τ mu)` (right) resp. `(τ (mu-1), τ mu]` (left).
-/

namespace Splipy

set_option linter.unusedSectionVars false

variable {K : Type} [Field K] [LinearOrder K] [IsStrictOrderedRing K]

/-! ## Side-generic span predicates -/

/-- `t` is outside the half-open interval of side `s`. -/
def triOut (s : Side) (a b t : K) : Prop :=
  match s with
  | .right => t < a ∨ b ≤ t
  | .left  => t ≤ a ∨ b < t

/-- `t` is inside the half-open interval of side `s`. -/
def triIn (s : Side) (a b t : K) : Prop :=
  match s with
  | .right => a ≤ t ∧ t < b
  | .left  => a < t ∧ t ≤ b

omit [Field K] [IsStrictOrderedRing K] in
theorem triOut_mono {s : Side} {a b a' b' t : K} (h : triOut s a b t) (ha : a ≤ a')
    (hb : b' ≤ b) : triOut s a' b' t := by
  cases s <;> simp only [triOut] at * <;> rcases h with h | h
  · exact Or.inl (lt_of_lt_of_le h ha)
  · exact Or.inr (le_trans hb h)
  · exact Or.inl (le_trans h ha)
  · exact Or.inr (lt_of_le_of_lt hb h)

omit [Field K] [IsStrictOrderedRing K] in
theorem triIn_out_below {s : Side} {a b t : K} (h : triIn s a b t) (c : K) :
    triOut s c a t := by
  cases s <;> simp only [triIn, triOut] at *
  · exact Or.inr h.1
  · exact Or.inr h.1

omit [Field K] [IsStrictOrderedRing K] in
theorem triIn_out_above {s : Side} {a b t : K} (h : triIn s a b t) (c : K) :
    triOut s b c t := by
  cases s <;> simp only [triIn, triOut] at *
  · exact Or.inl h.2
  · exact Or.inl h.2

omit [IsStrictOrderedRing K] in
theorem tri_ind_of_out {s : Side} {a b t : K} (h : triOut s a b t) : ind s a b t = 0 := by
  cases s <;> simp only [ind, triOut] at * <;> rw [if_neg] <;> rintro ⟨h1, h2⟩ <;>
    rcases h with h | h
  · exact absurd h1 (not_le.mpr h)
  · exact absurd h2 (not_lt.mpr h)
  · exact absurd h1 (not_lt.mpr h)
  · exact absurd h2 (not_le.mpr h)

omit [IsStrictOrderedRing K] in
theorem tri_ind_of_in {s : Side} {a b t : K} (h : triIn s a b t) : ind s a b t = 1 := by
  cases s <;> simp only [ind, triIn] at * <;> rw [if_pos h]

/-! ## Local support of `B` and `dB` -/

omit [IsStrictOrderedRing K] in
theorem tri_dB_zero (s : Side) (τ : ℕ → K) (q i : ℕ) (t : K) :
    dB s τ q i 0 t = B s τ q i t := by
  cases q <;> simp [dB]

omit [IsStrictOrderedRing K] in
theorem tri_B_supp (s : Side) (τ : ℕ → K) (hτ : Monotone τ) (q i : ℕ) (t : K)
    (h : triOut s (τ i) (τ (i+q+1)) t) : B s τ q i t = 0 := by
  induction q generalizing i with
  | zero => simpa [B] using tri_ind_of_out h
  | succ q ih =>
    rw [B, ih i (triOut_mono h le_rfl (hτ (by omega))),
      ih (i+1) (triOut_mono h (hτ (by omega)) (hτ (by omega)))]
    simp

omit [IsStrictOrderedRing K] in
theorem tri_dB_supp (s : Side) (τ : ℕ → K) (hτ : Monotone τ) (q i e : ℕ) (t : K)
    (h : triOut s (τ i) (τ (i+q+1)) t) : dB s τ q i e t = 0 := by
  induction q generalizing i e with
  | zero =>
    cases e with
    | zero => rw [tri_dB_zero]; exact tri_B_supp s τ hτ 0 i t h
    | succ e => simp [dB]
  | succ q ih =>
    cases e with
    | zero => rw [tri_dB_zero]; exact tri_B_supp s τ hτ (q+1) i t h
    | succ e =>
      rw [dB, ih i e (triOut_mono h le_rfl (hτ (by omega))),
        ih (i+1) e (triOut_mono h (hτ (by omega)) (hτ (by omega)))]
      simp

theorem tri_B_supp_right (τ : ℕ → K) (hτ : Monotone τ) (q i : ℕ) (t : K)
    (h : t < τ i ∨ τ (i+q+1) ≤ t) : B .right τ q i t = 0 :=
  tri_B_supp .right τ hτ q i t h

theorem tri_B_supp_left (τ : ℕ → K) (hτ : Monotone τ) (q i : ℕ) (t : K)
    (h : t ≤ τ i ∨ τ (i+q+1) < t) : B .left τ q i t = 0 :=
  tri_B_supp .left τ hτ q i t h

theorem tri_dB_supp_right (τ : ℕ → K) (hτ : Monotone τ) (q i e : ℕ) (t : K)
    (h : t < τ i ∨ τ (i+q+1) ≤ t) : dB .right τ q i e t = 0 :=
  tri_dB_supp .right τ hτ q i e t h

theorem tri_dB_supp_left (τ : ℕ → K) (hτ : Monotone τ) (q i e : ℕ) (t : K)
    (h : t ≤ τ i ∨ τ (i+q+1) < t) : dB .left τ q i e t = 0 :=
  tri_dB_supp .left τ hτ q i e t h

/-! ## `tab` / `untab` -/

omit [Field K] [LinearOrder K] [IsStrictOrderedRing K] in
theorem tab_size [Zero K] (p : ℕ) (f : ℕ → K) : (tab p f).size = p := by
  simp [tab]

omit [LinearOrder K] [IsStrictOrderedRing K] in
theorem untab_tab (p : ℕ) (f : ℕ → K) (j : ℕ) :
    untab (tab p f) j = if j < p then f j else 0 := by
  unfold untab tab
  by_cases h : j < p
  · simp [Array.getD, h]
  · simp [Array.getD, h]

/-! ## The loop invariant -/

/-- After level `Q` (with `e` derivative levels done so far): slots `j ≥ p-1-Q` hold
`dB s τ Q (mu-p+j) e t`, slots below hold `0`. -/
def TriInv (s : Side) (τ : ℕ → K) (p mu : ℕ) (t : K) (Q e : ℕ) (M : ℕ → K) : Prop :=
  ∀ j, j < p → (j + Q + 1 < p → M j = 0) ∧
    (p ≤ j + Q + 1 → M j = dB s τ Q (mu - p + j) e t)

omit [IsStrictOrderedRing K] in
/-- One value level preserves the invariant (degree `q` → `q+1`). -/
theorem tri_levelVal_step (s : Side) (τ : ℕ → K) (hτ : Monotone τ) (p mu : ℕ) (t : K)
    (hmu : p ≤ mu) (hspan : triIn s (τ (mu-1)) (τ mu) t) (q : ℕ)
    (M : ℕ → K) (hM : TriInv s τ p mu t q 0 M) :
    TriInv s τ p mu t (q+1) 0 (levelVal τ p mu t (q+1) M) := by
  intro j hj
  refine ⟨fun h => ?_, fun h => ?_⟩
  · simp only [levelVal, if_pos h]
    exact (hM j hj).1 (by omega)
  · rw [tri_dB_zero]
    have h1 : ¬ (j + (q+1) + 1 < p) := by omega
    by_cases h2 : j + (q+1) + 1 = p
    · -- first active slot: old `M j = 0`, spec term `B q k` vanishes
      have hMj : M j = 0 := (hM j hj).1 (by omega)
      have hMj1 : M (j+1) = B s τ q (mu - p + j + 1) t := by
        rw [← tri_dB_zero]; exact (hM (j+1) (by omega)).2 (by omega)
      have hz : B s τ q (mu - p + j) t = 0 := by
        apply tri_B_supp s τ hτ
        have : mu - p + j + q + 1 = mu - 1 := by omega
        rw [this]; exact triIn_out_below hspan _
      simp only [levelVal, if_neg h1, if_pos h2, hMj, hMj1, B, hz]
      rw [show mu - p + j + (q + 1) + 1 = mu - p + j + q + 2 from rfl]
      ring
    · have hMj : M j = B s τ q (mu - p + j) t := by
        rw [← tri_dB_zero]; exact (hM j hj).2 (by omega)
      by_cases h3 : j + 1 < p
      · have hMj1 : M (j+1) = B s τ q (mu - p + j + 1) t := by
          rw [← tri_dB_zero]; exact (hM (j+1) h3).2 (by omega)
        simp only [levelVal, if_neg h1, if_neg h2, if_pos h3, hMj, hMj1, B]
        rw [show mu - p + j + (q + 1) + 1 = mu - p + j + q + 2 from rfl,
          show mu - p + j + (q + 1) = mu - p + j + q + 1 from rfl]
        ring
      · -- last slot: spec term `B q mu` vanishes
        have hz : B s τ q (mu - p + j + 1) t = 0 := by
          apply tri_B_supp s τ hτ
          have : mu - p + j + 1 = mu := by omega
          rw [this]; exact triIn_out_above hspan _
        simp only [levelVal, if_neg h1, if_neg h2, if_neg h3, hMj, B, hz]
        rw [show mu - p + j + (q + 1) = mu - p + j + q + 1 from rfl]
        ring

omit [IsStrictOrderedRing K] in
/-- One derivative level preserves the invariant (degree `q` → `q+1`, derivative `e` → `e+1`). -/
theorem tri_levelDer_step (s : Side) (τ : ℕ → K) (hτ : Monotone τ) (p mu : ℕ) (t : K)
    (hmu : p ≤ mu) (hspan : triIn s (τ (mu-1)) (τ mu) t) (q e : ℕ)
    (M : ℕ → K) (hM : TriInv s τ p mu t q e M) :
    TriInv s τ p mu t (q+1) (e+1) (levelDer τ p mu (q+1) M) := by
  intro j hj
  refine ⟨fun h => ?_, fun h => ?_⟩
  · simp only [levelDer, if_pos h]
    exact (hM j hj).1 (by omega)
  · have h1 : ¬ (j + (q+1) + 1 < p) := by omega
    by_cases h2 : j + (q+1) + 1 = p
    · have hMj : M j = 0 := (hM j hj).1 (by omega)
      have hMj1 : M (j+1) = dB s τ q (mu - p + j + 1) e t :=
        (hM (j+1) (by omega)).2 (by omega)
      have hz : dB s τ q (mu - p + j) e t = 0 := by
        apply tri_dB_supp s τ hτ
        have : mu - p + j + q + 1 = mu - 1 := by omega
        rw [this]; exact triIn_out_below hspan _
      have h3 : j + 1 ≠ p := by omega
      simp only [levelDer, lt_self_iff_false, ne_eq, h2, not_true_eq_false, if_false, h3,
        not_false_eq_true, if_true, hMj, hMj1, dB, hz]
      rw [show mu - p + j + (q + 1) + 1 = mu - p + j + q + 2 from rfl]
      push_cast
      ring
    · have hMj : M j = dB s τ q (mu - p + j) e t := (hM j hj).2 (by omega)
      by_cases h3 : j + 1 = p
      · have hz : dB s τ q (mu - p + j + 1) e t = 0 := by
          apply tri_dB_supp s τ hτ
          have : mu - p + j + 1 = mu := by omega
          rw [this]; exact triIn_out_above hspan _
        simp only [levelDer, if_neg h1, ne_eq, h2, not_true_eq_false, if_false, h3,
          not_false_eq_true, if_true, hMj, dB, hz]
        rw [show mu - p + j + (q + 1) = mu - p + j + q + 1 from rfl]
        push_cast
        ring
      · have hMj1 : M (j+1) = dB s τ q (mu - p + j + 1) e t :=
          (hM (j+1) (by omega)).2 (by omega)
        simp only [levelDer, if_neg h1, ne_eq, h2, h3,
          not_false_eq_true, if_true, hMj, hMj1, dB]
        rw [show mu - p + j + (q + 1) + 1 = mu - p + j + q + 2 from rfl,
          show mu - p + j + (q + 1) = mu - p + j + q + 1 from rfl]
        push_cast
        ring

omit [IsStrictOrderedRing K] in
theorem TriInv_tab {s : Side} {τ : ℕ → K} {p mu : ℕ} {t : K} {Q e : ℕ} {f : ℕ → K}
    (h : TriInv s τ p mu t Q e f) : TriInv s τ p mu t Q e (untab (tab p f)) := by
  intro j hj
  rw [untab_tab, if_pos hj]
  exact h j hj

/-- Generic invariant rule for a fold over `List.range' a n`. -/
theorem tri_foldl_range' {α : Type} (f : α → ℕ → α) (P : ℕ → α → Prop) (n a : ℕ) (x : α)
    (h0 : P a x) (hstep : ∀ q y, a ≤ q → q < a + n → P q y → P (q+1) (f y q)) :
    P (a+n) ((List.range' a n).foldl f x) := by
  induction n generalizing a x with
  | zero => simpa using h0
  | succ n ih =>
    rw [List.range'_succ, List.foldl_cons]
    have := ih (a+1) (f x a) (hstep a x le_rfl (by omega) h0)
      (fun q y h1 h2 => hstep q y (by omega) (by omega))
    rwa [show a + 1 + n = a + (n+1) by omega] at this

omit [IsStrictOrderedRing K] in
/-- **L1**, side-generic form. -/
theorem triangle_side (s : Side) (τ : ℕ → K) (hτ : Monotone τ) (p mu d : ℕ) (t : K)
    (hp : 1 ≤ p) (hd : d < p) (hmu : p ≤ mu) (hspan : triIn s (τ (mu-1)) (τ mu) t)
    (j : ℕ) (hj : j < p) :
    (triangle τ p mu d t).getD j 0 = dB s τ (p-1) (mu - p + j) d t := by
  -- initial array
  have H0 : TriInv s τ p mu t 0 0
      (untab (tab p (fun j => if j + 1 = p then (1:K) else 0))) := by
    apply TriInv_tab
    intro j hj
    beta_reduce
    refine ⟨fun h => ?_, fun h => ?_⟩
    · rw [if_neg (by omega)]
    · have hjp : j + 1 = p := by omega
      rw [if_pos hjp, tri_dB_zero, B]
      have e1 : mu - p + j = mu - 1 := by omega
      have e2 : mu - 1 + 1 = mu := by omega
      rw [e1, e2, tri_ind_of_in hspan]
  -- value levels
  have H1 := tri_foldl_range'
    (fun M q => tab p (levelVal τ p mu t q (untab M)))
    (fun q M => 1 ≤ q ∧ TriInv s τ p mu t (q-1) 0 (untab M)) (p - d - 1) 1 _ ⟨le_rfl, H0⟩
    (by
      rintro q M hq1 hq2 ⟨_, hM⟩
      refine ⟨by omega, ?_⟩
      apply TriInv_tab
      have := tri_levelVal_step s τ hτ p mu t hmu hspan (q-1) _ hM
      rw [show q - 1 + 1 = q by omega] at this
      exact this)
  -- derivative levels
  have H2 := tri_foldl_range'
    (fun M q => tab p (levelDer τ p mu q (untab M)))
    (fun q M => TriInv s τ p mu t (q-1) (q-(p-d)) (untab M)) d (p - d) _
    (by
      have := H1.2
      rw [show 1 + (p - d - 1) - 1 = p - d - 1 by omega] at this
      rw [show p - d - (p - d) = 0 by omega]
      exact this)
    (by
      intro q M hq1 hq2 hM
      apply TriInv_tab
      have := tri_levelDer_step s τ hτ p mu t hmu hspan (q-1) _ _ hM
      rw [show q - 1 + 1 = q by omega] at this
      rw [show q + 1 - 1 = q by omega, show q + 1 - (p - d) = q - (p - d) + 1 by omega]
      exact this)
  have H3 := (H2 j hj).2 (by omega)
  rw [show p - d + d - 1 = p - 1 by omega, show p - d + d - (p - d) = d by omega] at H3
  exact H3

/-- **L1 (right)**: on `[τ (mu-1), τ mu)` the triangle holds the right-continuous spec values. -/
theorem triangle_right (τ : ℕ → K) (hτ : Monotone τ) (p mu d : ℕ) (t : K)
    (hp : 1 ≤ p) (hd : d < p) (hmu : p ≤ mu) (hspan : τ (mu-1) ≤ t ∧ t < τ mu)
    (j : ℕ) (hj : j < p) :
    (triangle τ p mu d t).getD j 0 = dB .right τ (p-1) (mu - p + j) d t :=
  triangle_side .right τ hτ p mu d t hp hd hmu hspan j hj

/-- **L1 (left)**: on `(τ (mu-1), τ mu]` the triangle holds the left-continuous spec values. -/
theorem triangle_left (τ : ℕ → K) (hτ : Monotone τ) (p mu d : ℕ) (t : K)
    (hp : 1 ≤ p) (hd : d < p) (hmu : p ≤ mu) (hspan : τ (mu-1) < t ∧ t ≤ τ mu)
    (j : ℕ) (hj : j < p) :
    (triangle τ p mu d t).getD j 0 = dB .left τ (p-1) (mu - p + j) d t :=
  triangle_side .left τ hτ p mu d t hp hd hmu hspan j hj

omit [LinearOrder K] [IsStrictOrderedRing K] in
theorem tri_foldl_tab_size (p : ℕ) (g : ℕ → Array K → ℕ → K) (l : List ℕ) (M0 : Array K)
    (h0 : M0.size = p) : (l.foldl (fun M q => tab p (g q M)) M0).size = p := by
  induction l generalizing M0 with
  | nil => simpa using h0
  | cons a l ih => rw [List.foldl_cons]; exact ih _ (tab_size p _)

omit [IsStrictOrderedRing K] in
theorem triangle_size (τ : ℕ → K) (p mu d : ℕ) (t : K) : (triangle τ p mu d t).size = p := by
  unfold triangle
  exact tri_foldl_tab_size p (fun q M => levelDer τ p mu q (untab M)) _ _
    (tri_foldl_tab_size p (fun q M => levelVal τ p mu t q (untab M)) _ _ (tab_size p _))

/-! ## The denominators actually used by the code are positive -/

/-- Denominators `knots[k+q] - knots[k]` (slots `p-q ≤ j < p`) and
`knots[k+q+1] - knots[k+1]` (slots `p-q-1 ≤ j < p-1`), `k = mu-p+j`, are positive as soon as
`τ (mu-1) < τ mu`. -/
theorem triangle_denoms_pos (τ : ℕ → K) (hτ : Monotone τ) (p mu : ℕ)
    (hmu : p ≤ mu) (hlt : τ (mu-1) < τ mu) (q : ℕ) (hq1 : 1 ≤ q) (hq : q < p) (j : ℕ) :
    (p - q ≤ j → j < p → 0 < τ (mu - p + j + q) - τ (mu - p + j)) ∧
    (p - q - 1 ≤ j → j < p - 1 → 0 < τ (mu - p + j + q + 1) - τ (mu - p + j + 1)) := by
  refine ⟨fun h1 h2 => ?_, fun h1 h2 => ?_⟩
  · have a : τ (mu - p + j) ≤ τ (mu - 1) := hτ (by omega)
    have b : τ mu ≤ τ (mu - p + j + q) := hτ (by omega)
    exact sub_pos.mpr (lt_of_le_of_lt a (lt_of_lt_of_le hlt b))
  · have a : τ (mu - p + j + 1) ≤ τ (mu - 1) := hτ (by omega)
    have b : τ mu ≤ τ (mu - p + j + q + 1) := hτ (by omega)
    exact sub_pos.mpr (lt_of_le_of_lt a (lt_of_lt_of_le hlt b))

theorem triangle_denoms_pos_right (τ : ℕ → K) (hτ : Monotone τ) (p mu : ℕ) (t : K)
    (hmu : p ≤ mu) (hspan : τ (mu-1) ≤ t ∧ t < τ mu)
    (q : ℕ) (hq1 : 1 ≤ q) (hq : q < p) (j : ℕ) :
    (p - q ≤ j → j < p → 0 < τ (mu - p + j + q) - τ (mu - p + j)) ∧
    (p - q - 1 ≤ j → j < p - 1 → 0 < τ (mu - p + j + q + 1) - τ (mu - p + j + 1)) :=
  triangle_denoms_pos τ hτ p mu hmu (lt_of_le_of_lt hspan.1 hspan.2) q hq1 hq j

theorem triangle_denoms_pos_left (τ : ℕ → K) (hτ : Monotone τ) (p mu : ℕ) (t : K)
    (hmu : p ≤ mu) (hspan : τ (mu-1) < t ∧ t ≤ τ mu)
    (q : ℕ) (hq1 : 1 ≤ q) (hq : q < p) (j : ℕ) :
    (p - q ≤ j → j < p → 0 < τ (mu - p + j + q) - τ (mu - p + j)) ∧
    (p - q - 1 ≤ j → j < p - 1 → 0 < τ (mu - p + j + q + 1) - τ (mu - p + j + 1)) :=
  triangle_denoms_pos τ hτ p mu hmu (lt_of_lt_of_le hspan.1 hspan.2) q hq1 hq j

/-! ## Binary search on monotone sequences -/

omit [Field K] [IsStrictOrderedRing K] in
theorem bisectRightAux_spec (a : ℕ → K) (ha : Monotone a) (v : K) (lo hi : ℕ) (hle : lo ≤ hi) :
    lo ≤ bisectRightAux a v lo hi ∧ bisectRightAux a v lo hi ≤ hi ∧
    (∀ i, lo ≤ i → i < bisectRightAux a v lo hi → a i ≤ v) ∧
    (∀ i, bisectRightAux a v lo hi ≤ i → i < hi → v < a i) := by
  fun_induction bisectRightAux a v lo hi with
  | case1 lo hi h mid hlt ih =>
    have hmid : mid = (lo + hi) / 2 := rfl
    obtain ⟨h1, h2, h3, h4⟩ := ih (by omega)
    refine ⟨h1, by omega, h3, fun i hi1 hi2 => ?_⟩
    by_cases hc : i < mid
    · exact h4 i hi1 hc
    · exact lt_of_lt_of_le hlt (ha (by omega))
  | case2 lo hi h mid hlt ih =>
    have hmid : mid = (lo + hi) / 2 := rfl
    obtain ⟨h1, h2, h3, h4⟩ := ih (by omega)
    refine ⟨by omega, h2, fun i hi1 hi2 => ?_, h4⟩
    by_cases hc : mid + 1 ≤ i
    · exact h3 i hc hi2
    · exact le_trans (ha (by omega)) (not_lt.mp hlt)
  | case3 lo hi h =>
    exact ⟨le_rfl, hle, fun i h1 h2 => absurd h2 (by omega), fun i h1 h2 => absurd h2 (by omega)⟩

omit [Field K] [IsStrictOrderedRing K] in
theorem bisectLeftAux_spec (a : ℕ → K) (ha : Monotone a) (v : K) (lo hi : ℕ) (hle : lo ≤ hi) :
    lo ≤ bisectLeftAux a v lo hi ∧ bisectLeftAux a v lo hi ≤ hi ∧
    (∀ i, lo ≤ i → i < bisectLeftAux a v lo hi → a i < v) ∧
    (∀ i, bisectLeftAux a v lo hi ≤ i → i < hi → v ≤ a i) := by
  fun_induction bisectLeftAux a v lo hi with
  | case1 lo hi h mid hlt ih =>
    have hmid : mid = (lo + hi) / 2 := rfl
    obtain ⟨h1, h2, h3, h4⟩ := ih (by omega)
    refine ⟨by omega, h2, fun i hi1 hi2 => ?_, h4⟩
    by_cases hc : mid + 1 ≤ i
    · exact h3 i hc hi2
    · exact lt_of_le_of_lt (ha (by omega)) hlt
  | case2 lo hi h mid hlt ih =>
    have hmid : mid = (lo + hi) / 2 := rfl
    obtain ⟨h1, h2, h3, h4⟩ := ih (by omega)
    refine ⟨h1, by omega, h3, fun i hi1 hi2 => ?_⟩
    by_cases hc : i < mid
    · exact h4 i hi1 hc
    · exact le_trans (not_lt.mp hlt) (ha (by omega))
  | case3 lo hi h =>
    exact ⟨le_rfl, hle, fun i h1 h2 => absurd h2 (by omega), fun i h1 h2 => absurd h2 (by omega)⟩

omit [Field K] [IsStrictOrderedRing K] in
theorem bisectRight_spec (a : ℕ → K) (ha : Monotone a) (v : K) (hi : ℕ) :
    let m := bisectRight a v hi
    m ≤ hi ∧ (∀ i, i < m → a i ≤ v) ∧ (∀ i, m ≤ i → i < hi → v < a i) := by
  obtain ⟨_, h2, h3, h4⟩ := bisectRightAux_spec a ha v 0 hi (Nat.zero_le _)
  exact ⟨h2, fun i hi' => h3 i (Nat.zero_le _) hi', h4⟩

omit [Field K] [IsStrictOrderedRing K] in
theorem bisectLeft_spec (a : ℕ → K) (ha : Monotone a) (v : K) (hi : ℕ) :
    let m := bisectLeft a v hi
    m ≤ hi ∧ (∀ i, i < m → a i < v) ∧ (∀ i, m ≤ i → i < hi → v ≤ a i) := by
  obtain ⟨_, h2, h3, h4⟩ := bisectLeftAux_spec a ha v 0 hi (Nat.zero_le _)
  exact ⟨h2, fun i hi' => h3 i (Nat.zero_le _) hi', h4⟩

end Splipy
