import Splipy.Lemmas.C14Lsq
set_option linter.unusedSectionVars false

/-!
# C14: periodic interpolation — solvability from a dominant diagonal

The collocation matrix of a periodic basis at exact parameters is row-stochastic (non-negative rows
summing to one: C01).  If every diagonal entry exceeds `1/2` the matrix is strictly diagonally
dominant, hence injective (Levy–Desplanques), hence the model's Gauss–Jordan solve succeeds.
-/

namespace Splipy
open Finset

section algebra
variable {K : Type} [Field K] [LinearOrder K] [IsStrictOrderedRing K]

/-- A row-stochastic matrix with diagonal `> 1/2` is injective. -/
theorem stochastic_diag_injective_c14 (n : ℕ) (A : ℕ → ℕ → K)
    (hnn : ∀ i < n, ∀ j < n, 0 ≤ A i j) (hsum : ∀ i < n, ∑ j ∈ range n, A i j = 1)
    (hdiag : ∀ i < n, 1 / 2 < A i i)
    (x : ℕ → K) (h : ∀ i < n, ∑ j ∈ range n, A i j * x j = 0) : ∀ j < n, x j = 0 := by
  rcases Nat.eq_zero_or_pos n with h0 | hpos
  · intro j hj; omega
  obtain ⟨i, hi, hmax⟩ := exists_max_image (range n) (fun j => |x j|) ⟨0, mem_range.mpr hpos⟩
  have hi' := mem_range.mp hi
  -- A i i * x i = - Σ_{j ≠ i} A i j x j
  have hsplit : A i i * x i = - ∑ j ∈ (range n).erase i, A i j * x j := by
    have := h i hi'
    rw [← add_sum_erase _ _ hi] at this
    linarith
  have hsplit1 : ∑ j ∈ (range n).erase i, A i j = 1 - A i i := by
    have := hsum i hi'
    rw [← add_sum_erase _ _ hi] at this
    linarith
  have hbound : |∑ j ∈ (range n).erase i, A i j * x j| ≤ (1 - A i i) * |x i| := by
    calc |∑ j ∈ (range n).erase i, A i j * x j|
        ≤ ∑ j ∈ (range n).erase i, |A i j * x j| := abs_sum_le_sum_abs _ _
      _ ≤ ∑ j ∈ (range n).erase i, A i j * |x i| := by
          apply sum_le_sum
          intro j hj
          have hj' := mem_range.mp (mem_of_mem_erase hj)
          rw [abs_mul, abs_of_nonneg (hnn i hi' j hj')]
          exact mul_le_mul_of_nonneg_left (hmax j (mem_of_mem_erase hj)) (hnn i hi' j hj')
      _ = (1 - A i i) * |x i| := by rw [← sum_mul, hsplit1]
  have habs : A i i * |x i| ≤ (1 - A i i) * |x i| := by
    have : |A i i * x i| = A i i * |x i| := by rw [abs_mul, abs_of_nonneg (hnn i hi' i hi')]
    rw [← this, hsplit, abs_neg]
    exact hbound
  have hxi : |x i| = 0 := by
    have hd := hdiag i hi'
    have h0 : 0 ≤ |x i| := abs_nonneg _
    nlinarith
  intro j hj
  have := hmax j (mem_range.mpr hj)
  rw [hxi] at this
  exact abs_eq_zero.mp (le_antisymm this (abs_nonneg _))

end algebra
end Splipy

namespace Splipy
open Finset
namespace Interp
variable {K : Type} [Field K] [LinearOrder K] [IsStrictOrderedRing K] [FloorRing K]

/-- **Periodic (or any) basis with a dominant collocation diagonal**: valid basis, `n` exact
parameters (their wrapped images exact as well for a periodic basis), diagonal entries `> 1/2`:
`curve_factory.interpolate` succeeds. -/
theorem interpolateCurve_ok_of_diag {b : Basis K} (hv : b.Valid) (hper : 0 ≤ b.periodic)
    {tol : K} (htol : 0 < tol) (ts : List K) (hlen : ts.length = b.numFunctions)
    (hex : ∀ i < b.numFunctions, b.ExactAt tol (ts.getD i 0))
    (hexw : ∀ i < b.numFunctions, b.ExactAt tol (b.wrap (ts.getD i 0)))
    (hdiag : ∀ i < b.numFunctions, 1 / 2 < (b.evaluate tol (ts.getD i 0) 0 true).getD i 0)
    (x : Mat K) (m : ℕ) (hxs : x.size = b.numFunctions ∧ ∀ i, i < b.numFunctions → (x.getD i #[]).size = m) :
    ∃ c, interpolateCurve b tol (some ts) x = .ok c := by
  set N := colloc b tol ts 0 with hN
  have hshape : N.size = b.numFunctions ∧ ∀ i, i < b.numFunctions → (N.getD i #[]).size = b.numFunctions := by
    refine ⟨by rw [hN, size_colloc, hlen], fun i hi => ?_⟩
    rw [hN, row_colloc b tol ts 0 i (by omega), size_evaluate_c14]
  have hget : ∀ i < b.numFunctions, ∀ j, N.get i j = (b.evaluate tol (ts.getD i 0) 0 true).getD j 0 :=
    fun i hi j => get_colloc b tol ts 0 i j (by omega)
  have hinj : ∀ y : ℕ → K, (∀ i < b.numFunctions, ∑ j ∈ range b.numFunctions, N.get i j * y j = 0) →
      ∀ j < b.numFunctions, y j = 0 := by
    intro y hy
    apply stochastic_diag_injective_c14 b.numFunctions (fun i j => N.get i j) _ _ _ y hy
    · intro i hi j _
      rw [hget i hi j]
      exact C01_nonneg hv htol (hex i hi) (fun _ => hexw i hi) true j
    · intro i hi
      rw [sum_congr rfl (fun j _ => hget i hi j)]
      exact C01_partition_of_unity_periodic_any_real hv hper htol (hex i hi) (hexw i hi) true
    · intro i hi
      show 1 / 2 < N.get i i
      rw [hget i hi i]; exact hdiag i hi
  obtain ⟨L, hL⟩ := left_inverse_of_injective_c14 b.numFunctions (fun i j => N.get i j) hinj
  obtain ⟨c, hc⟩ := solveC_complete N x b.numFunctions m hshape hxs L hL
  refine ⟨c, ?_⟩
  unfold interpolateCurve
  simp only [paramsOrGreville, bind, Except.bind]
  rw [if_neg (by rw [size_colloc]; omega)]
  exact hc

end Interp
end Splipy

namespace Splipy
open Finset
section values
variable {K : Type} [Field K] [LinearOrder K] [IsStrictOrderedRing K]

/-- The uniform cubic B-spline takes the value `2/3` at the centre of its support. -/
theorem uniform_cubic_value_c14 (τ : ℕ → K) (i : ℕ) (c h : K) (hh : 0 < h)
    (hu : ∀ j, j ≤ 4 → τ (i + j) = h * (j : K) + c) : B .right τ 3 i (h * 2 + c) = 2 / 3 := by
  rw [B_congr_knots .right τ (fun j : ℕ => h * (j : K) + c) 3 i 0 (h * 2 + c)
    (fun j hj => by rw [hu j hj]; simp)]
  rw [B_affine .right (fun j : ℕ => (j : K)) 3 0 2 h c hh]
  simp only [B, ind]
  norm_num

theorem one_le_abs_cast_sub_c14 (i j : ℕ) (hij : i ≠ j) : (1 : K) ≤ |(i : K) - (j : K)| := by
  have h1 : (1 : ℤ) ≤ |(i : ℤ) - (j : ℤ)| := Int.one_le_abs (sub_ne_zero.mpr (by exact_mod_cast hij))
  have : ((1 : ℤ) : K) ≤ ((|(i : ℤ) - (j : ℤ)| : ℤ) : K) := by exact_mod_cast h1
  rw [Int.cast_abs] at this
  push_cast at this
  exact this

end values

namespace Interp
variable {K : Type} [Field K] [LinearOrder K] [IsStrictOrderedRing K] [FloorRing K]

/-- **Uniform C² periodic cubic basis at its Greville points** (which are knots): the collocation
matrix is the circulant `(1/6, 2/3, 1/6)`; its diagonal dominates, so interpolation succeeds. -/
theorem interpolateCurve_ok_uniform_periodic_cubic {b : Basis K} (hv : b.Valid)
    (hord : b.order = 4) (hper : b.periodic = 2) (s0 h : K) (hh : 0 < h)
    (hkn : ∀ i, i < b.knots.size → b.kn i = s0 + h * (i : K))
    {tol : K} (htol : 0 < tol) (htolh : tol ≤ h)
    (x : Mat K) (m : ℕ) (hxs : x.size = b.numFunctions ∧ ∀ i, i < b.numFunctions → (x.getD i #[]).size = m) :
    ∃ c, interpolateCurve b tol none x = .ok c := by
  have hτ : Monotone b.kn := hv.kn_mono
  have hsz := hv.size_ge
  rw [hord] at hsz
  have hn : b.numFunctions = b.knots.size - 7 := by
    unfold Basis.numFunctions; rw [hord, hper]; simp; omega
  have hnAll : b.nAll = b.numFunctions + 3 := by unfold Basis.nAll; rw [hord, hn]; omega
  have hnpos : 1 ≤ b.numFunctions := by omega
  have hsize : b.knots.size = b.numFunctions + 7 := by omega
  have hstart : b.start = s0 + h * 3 := by
    unfold Basis.start; rw [hord, hkn 3 (by omega)]; norm_num
  have hstop : b.stop = s0 + h * ((b.numFunctions : K) + 3) := by
    unfold Basis.stop; rw [hord, show b.knots.size - 4 = b.numFunctions + 3 by omega, hkn _ (by omega)]
    push_cast; ring
  have hperiod : b.stop - b.start = h * (b.numFunctions : K) := by rw [hstart, hstop]; ring
  have hnK : (1 : K) ≤ (b.numFunctions : K) := by exact_mod_cast hnpos
  -- Greville points
  have hg := sw_greville_eq b (by omega)
  rw [hord] at hg
  set pts := Array.ofFn (n := b.numFunctions) (fun i => grevilleAbscissa b.kn (4 - 1) i.val) with hpts
  have hlen : pts.toList.length = b.numFunctions := by rw [hpts]; simp
  have hG : ∀ l, l < b.numFunctions → pts.toList.getD l 0 = s0 + h * ((l : K) + 2) := by
    intro l hl
    rw [hpts]
    simp only [List.getD_eq_getElem?_getD, Array.toList_ofFn, List.getElem?_ofFn, hl, dite_true, Option.getD_some]
    unfold grevilleAbscissa grevilleSum
    rw [sum_range_succ, sum_range_succ, sum_range_succ, sum_range_zero,
      hkn _ (by omega), hkn _ (by omega), hkn _ (by omega)]
    push_cast
    field_simp
    ring
  -- exactness of every knot value
  have hexk : ∀ j, j < b.knots.size → b.ExactAt tol (s0 + h * (j : K)) := by
    intro j hj i hi
    rw [hkn i hi]
    by_cases hij : i = j
    · left; rw [hij]
    · right
      have := one_le_abs_cast_sub_c14 (K := K) i j hij
      rw [show s0 + h * (i : K) - (s0 + h * (j : K)) = h * ((i : K) - (j : K)) by ring, abs_mul,
        abs_of_pos hh]
      calc tol ≤ h := htolh
        _ = h * 1 := by ring
        _ ≤ h * |(i : K) - (j : K)| := mul_le_mul_of_nonneg_left this hh.le
  -- the wrapped Greville points
  let w : ℕ → ℕ := fun l => if l = 0 then b.numFunctions + 2 else l + 2
  have hw : ∀ l, l < b.numFunctions → b.wrap (s0 + h * ((l : K) + 2)) = s0 + h * ((w l : ℕ) : K) := by
    intro l hl
    by_cases h0 : l = 0
    · subst h0
      simp only [w, if_true]
      have e : s0 + h * ((b.numFunctions + 2 : ℕ) : K)
          = (s0 + h * (((0 : ℕ) : K) + 2)) + ((1 : ℤ) : K) * (b.stop - b.start) := by
        rw [hperiod]; push_cast; ring
      have hne1 : s0 + h * (((0 : ℕ) : K) + 2) ≠ b.stop := by
        rw [hstop]; intro hc
        have : h * (((0 : ℕ) : K) + 2) = h * ((b.numFunctions : K) + 3) := by linarith
        have := mul_left_cancel₀ (ne_of_gt hh) this
        push_cast at this; linarith
      have hne2 : s0 + h * (((0 : ℕ) : K) + 2) + ((1 : ℤ) : K) * (b.stop - b.start) ≠ b.stop := by
        rw [← e, hstop]; intro hc
        have : h * ((b.numFunctions + 2 : ℕ) : K) = h * ((b.numFunctions : K) + 3) := by linarith
        have := mul_left_cancel₀ (ne_of_gt hh) this
        push_cast at this; linarith
      rw [← Basis.wrap_add_int_mul hv _ 1 hne1 hne2, ← e]
      apply Basis.wrap_of_mem
      · rw [hstart]; push_cast; nlinarith
      · rw [hstop]; push_cast; nlinarith
    · simp only [w, if_neg h0]
      have hl1 : (1 : K) ≤ (l : K) := by exact_mod_cast (Nat.pos_of_ne_zero h0)
      have hl2 : (l : K) + 1 ≤ (b.numFunctions : K) := by exact_mod_cast hl
      rw [show s0 + h * ((l : K) + 2) = s0 + h * ((l + 2 : ℕ) : K) by push_cast; ring]
      apply Basis.wrap_of_mem
      · rw [hstart]; push_cast; nlinarith
      · rw [hstop]; push_cast; nlinarith
  have hwlt : ∀ l, l < b.numFunctions → w l < b.knots.size ∧ 2 ≤ w l ∧ w l ≤ b.numFunctions + 2 ∧
      (w l - 2) % b.numFunctions = l := by
    intro l hl
    by_cases h0 : l = 0
    · subst h0; simp only [w, if_true]
      refine ⟨by omega, by omega, by omega, ?_⟩
      rw [show b.numFunctions + 2 - 2 = b.numFunctions by omega, Nat.mod_self]
    · simp only [w, if_neg h0]
      refine ⟨by omega, by omega, by omega, ?_⟩
      rw [show l + 2 - 2 = l by omega, Nat.mod_eq_of_lt hl]
  obtain ⟨c, hc⟩ := interpolateCurve_ok_of_diag hv (by rw [hper]; decide) htol pts.toList hlen
    (fun i hi => by
      rw [hG i hi, show s0 + h * ((i : K) + 2) = s0 + h * ((i + 2 : ℕ) : K) by push_cast; ring]
      exact hexk (i + 2) (by omega))
    (fun i hi => by rw [hG i hi, hw i hi]; exact hexk _ (hwlt i hi).1)
    (fun l hl => by
      obtain ⟨w1, w2, w3, w4⟩ := hwlt l hl
      have hexl : b.ExactAt tol (pts.toList.getD l 0) := by
        rw [hG l hl, show s0 + h * ((l : K) + 2) = s0 + h * ((l + 2 : ℕ) : K) by push_cast; ring]
        exact hexk (l + 2) (by omega)
      have hexwl : b.ExactAt tol (b.wrap (pts.toList.getD l 0)) := by
        rw [hG l hl, hw l hl]; exact hexk _ w1
      rw [C01_value_deriv_periodic_any_real hv (by rw [hper]; decide) htol hexl hexwl true
        (by rw [hord]; omega) hl]
      rw [hG l hl, hw l hl]
      have hWne : s0 + h * ((w l : ℕ) : K) ≠ b.stop := by
        rw [hstop]; intro hc
        have := mul_left_cancel₀ (ne_of_gt hh) (by linarith : h * ((w l : ℕ) : K) = h * ((b.numFunctions : K) + 3))
        have : ((w l : ℕ) : K) = ((b.numFunctions + 3 : ℕ) : K) := by push_cast; exact this
        have := Nat.cast_injective this
        omega
      have hpe : periodicEff b (s0 + h * ((w l : ℕ) : K)) true = (s0 + h * ((w l : ℕ) : K), Side.right) := by
        unfold periodicEff effSide
        simp [hWne]
      rw [hpe]
      simp only
      have hmem : w l - 2 ∈ (range b.nAll).filter (fun i => i % b.numFunctions = l) := by
        rw [mem_filter, mem_range, hnAll]; exact ⟨by omega, w4⟩
      have hval : dB .right b.kn (b.order - 1) (w l - 2) 0 (s0 + h * ((w l : ℕ) : K)) = 2 / 3 := by
        rw [dB_zero, hord]
        have := uniform_cubic_value_c14 b.kn (w l - 2) (s0 + h * ((w l - 2 : ℕ) : K)) h hh
          (fun j hj => by rw [hkn _ (by omega)]; push_cast; ring)
        rw [← this]
        congr 1
        rw [Nat.cast_sub w2]; push_cast; ring
      calc (1 : K) / 2 < 2 / 3 := by norm_num
        _ = dB .right b.kn (b.order - 1) (w l - 2) 0 (s0 + h * ((w l : ℕ) : K)) := hval.symm
        _ ≤ _ := single_le_sum (f := fun i => dB .right b.kn (b.order - 1) i 0 (s0 + h * ((w l : ℕ) : K)))
            (fun i _ => by rw [dB_zero]; exact B_nonneg _ _ hτ _ _ _) hmem)
    x m hxs
  exact ⟨c, by rw [interpolateCurve_none b tol x pts hg]; exact hc⟩

end Interp
end Splipy
