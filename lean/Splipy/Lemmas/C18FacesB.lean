import Splipy.Lemmas.C18Faces
import Splipy.Lemmas.C17Equiv

/-!
# C18 — faces of a structured trilinear patch: every cell face once, six faces per cell
-/

namespace Splipy.MP.C18L

open Splipy.MP

/-! ## all multi-indices of a shape, in C order -/

/-- `np.ndindex(*s)` -/
def allIdx (s : List ℕ) : List (List ℕ) := (List.range (shapeSize s)).map (unravel s)

theorem mem_allIdx {s i : List ℕ} : i ∈ allIdx s ↔ InRange i s := by
  unfold allIdx
  constructor
  · intro h
    obtain ⟨k, hk, rfl⟩ := List.mem_map.1 h
    exact unravel_inRange (List.mem_range.1 hk)
  · intro h
    exact List.mem_map.2 ⟨ravel s i, List.mem_range.2 (ravel_lt h), unravel_ravel h⟩

theorem allIdx_nodup (s : List ℕ) : (allIdx s).Nodup := by
  unfold allIdx
  refine List.Nodup.map_on ?_ List.nodup_range
  intro a ha b hb hab
  have h1 := ravel_unravel (List.mem_range.1 ha)
  have h2 := ravel_unravel (List.mem_range.1 hb)
  rw [hab] at h1
  omega

theorem count_allIdx (s i : List ℕ) [Decidable (InRange i s)] : (allIdx s).count i = if InRange i s then 1 else 0 := by
  split
  · rename_i h
    exact List.count_eq_one_of_mem (allIdx_nodup s) (mem_allIdx.2 h)
  · rename_i h
    exact List.count_eq_zero_of_not_mem (fun hm => h (mem_allIdx.1 hm))

/-! ## rank 3 -/

theorem inRange3 {idx : List ℕ} {a b c : ℕ} :
    InRange idx [a, b, c] ↔ ∃ i j k, idx = [i, j, k] ∧ i < a ∧ j < b ∧ k < c := by
  constructor
  · intro h
    match idx, h with
    | [i, j, k], h =>
      rw [inRange_cons, inRange_cons, inRange_cons] at h
      exact ⟨i, j, k, rfl, h.1, h.2.1, h.2.2.1⟩
    | [], h => exact absurd h.1 (by simp)
    | [_], h => exact absurd h.1 (by simp)
    | [_, _], h => exact absurd h.1 (by simp)
    | _ :: _ :: _ :: _ :: _, h => exact absurd h.1 (by simp)
  · rintro ⟨i, j, k, rfl, hi, hj, hk⟩
    rw [inRange_cons, inRange_cons, inRange_cons]
    exact ⟨hi, hj, hk, inRange_nil⟩

theorem inRange2 {idx : List ℕ} {a b : ℕ} :
    InRange idx [a, b] ↔ ∃ i j, idx = [i, j] ∧ i < a ∧ j < b := by
  constructor
  · intro h
    match idx, h with
    | [i, j], h =>
      rw [inRange_cons, inRange_cons] at h
      exact ⟨i, j, rfl, h.1, h.2.1⟩
    | [], h => exact absurd h.1 (by simp)
    | [_], h => exact absurd h.1 (by simp)
    | _ :: _ :: _ :: _, h => exact absurd h.1 (by simp)
  · rintro ⟨i, j, rfl, hi, hj⟩
    rw [inRange_cons, inRange_cons]
    exact ⟨hi, hj, inRange_nil⟩

instance (i s : List ℕ) : Decidable (InRange i s) := by unfold InRange; infer_instance

end Splipy.MP.C18L

namespace Splipy.MP.C18L

open Splipy.MP

theorem count_nodup {α : Type} [BEq α] [LawfulBEq α] {l : List α} (h : l.Nodup) (x : α) [Decidable (x ∈ l)] :
    l.count x = if x ∈ l then 1 else 0 := by
  split
  · rename_i hx; exact List.count_eq_one_of_mem h hx
  · rename_i hx; exact List.count_eq_zero_of_not_mem hx

/-! ## the cells incident to the faces a patch lists, direction by direction -/

/-- shape of the array of internal faces in direction `d` -/
def shpInt (cs : List ℕ) (d : ℕ) : List ℕ := cs.set d (cs.getD d 0 - 1)

/-- owner cells of the internal faces of direction `d` (the neighbour is one step further) -/
def intOwners (cs : List ℕ) (d : ℕ) : List (List ℕ) := allIdx (shpInt cs d)
/-- neighbour cells of the internal faces -/
def intNeighs (cs : List ℕ) (d : ℕ) : List (List ℕ) := (allIdx (shpInt cs d)).map (fun idx => bumpIdx idx d)
/-- owner cells of the faces on the boundary `0` / `-1` of direction `d` -/
def firstCells (cs : List ℕ) (d : ℕ) : List (List ℕ) := (allIdx (cs.eraseIdx d)).map (fun i2 => insertAt i2 d 0)
def lastCells (cs : List ℕ) (d : ℕ) : List (List ℕ) :=
  (allIdx (cs.eraseIdx d)).map (fun i2 => insertAt i2 d (cs.getD d 0 - 1))

section rank3
variable (a b c : ℕ)

theorem mem_intOwners (d i j k : ℕ) (hd : d < 3) :
    [i, j, k] ∈ intOwners [a, b, c] d ↔ i < a ∧ j < b ∧ k < c ∧ [i, j, k].getD d 0 + 1 < [a, b, c].getD d 0 := by
  unfold intOwners shpInt
  rw [mem_allIdx]
  interval_cases d <;> simp [inRange3] <;> omega

theorem mem_intNeighs (d i j k : ℕ) (hd : d < 3) :
    [i, j, k] ∈ intNeighs [a, b, c] d ↔ i < a ∧ j < b ∧ k < c ∧ 1 ≤ [i, j, k].getD d 0 := by
  unfold intNeighs shpInt
  rw [List.mem_map]
  constructor
  · rintro ⟨idx, hidx, heq⟩
    rw [mem_allIdx] at hidx
    interval_cases d <;> simp [inRange3] at hidx <;> obtain ⟨i', j', k', rfl, h1, h2, h3⟩ := hidx <;>
      simp [bumpIdx] at heq <;> obtain ⟨rfl, rfl, rfl⟩ := heq <;> simp <;> omega
  · rintro ⟨hi, hj, hk, h1⟩
    interval_cases d
    · simp at h1
      exact ⟨[i - 1, j, k], mem_allIdx.2 (by simp [inRange3]; omega), by simp [bumpIdx]; omega⟩
    · simp at h1
      exact ⟨[i, j - 1, k], mem_allIdx.2 (by simp [inRange3]; omega), by simp [bumpIdx]; omega⟩
    · simp at h1
      exact ⟨[i, j, k - 1], mem_allIdx.2 (by simp [inRange3]; omega), by simp [bumpIdx]; omega⟩

theorem mem_firstCells (d i j k : ℕ) (hd : d < 3) (ha : 0 < a) (hb : 0 < b) (hc : 0 < c) :
    [i, j, k] ∈ firstCells [a, b, c] d ↔ i < a ∧ j < b ∧ k < c ∧ [i, j, k].getD d 0 = 0 := by
  unfold firstCells
  rw [List.mem_map]
  constructor
  · rintro ⟨idx, hidx, heq⟩
    rw [mem_allIdx] at hidx
    interval_cases d <;> simp [inRange2] at hidx <;> obtain ⟨i', j', rfl, h1, h2⟩ := hidx <;>
      simp [insertAt] at heq <;> obtain ⟨rfl, rfl, rfl⟩ := heq <;> simp <;> omega
  · rintro ⟨hi, hj, hk, h1⟩
    interval_cases d
    · simp at h1; subst h1
      exact ⟨[j, k], mem_allIdx.2 (by simp [inRange2]; omega), by simp [insertAt]⟩
    · simp at h1; subst h1
      exact ⟨[i, k], mem_allIdx.2 (by simp [inRange2]; omega), by simp [insertAt]⟩
    · simp at h1; subst h1
      exact ⟨[i, j], mem_allIdx.2 (by simp [inRange2]; omega), by simp [insertAt]⟩

theorem mem_lastCells (d i j k : ℕ) (hd : d < 3) (ha : 0 < a) (hb : 0 < b) (hc : 0 < c) :
    [i, j, k] ∈ lastCells [a, b, c] d ↔ i < a ∧ j < b ∧ k < c ∧ [i, j, k].getD d 0 + 1 = [a, b, c].getD d 0 := by
  unfold lastCells
  rw [List.mem_map]
  constructor
  · rintro ⟨idx, hidx, heq⟩
    rw [mem_allIdx] at hidx
    interval_cases d
    · simp [inRange2] at hidx
      obtain ⟨i', j', rfl, h1, h2⟩ := hidx
      simp [insertAt] at heq
      obtain ⟨rfl, rfl, rfl⟩ := heq
      refine ⟨by omega, h1, h2, ?_⟩
      simp; omega
    · simp [inRange2] at hidx
      obtain ⟨i', j', rfl, h1, h2⟩ := hidx
      simp [insertAt] at heq
      obtain ⟨rfl, rfl, rfl⟩ := heq
      refine ⟨h1, by omega, h2, ?_⟩
      simp; omega
    · simp [inRange2] at hidx
      obtain ⟨i', j', rfl, h1, h2⟩ := hidx
      simp [insertAt] at heq
      obtain ⟨rfl, rfl, rfl⟩ := heq
      refine ⟨h1, h2, by omega, ?_⟩
      simp; omega
  · rintro ⟨hi, hj, hk, h1⟩
    interval_cases d
    · simp at h1
      exact ⟨[j, k], mem_allIdx.2 (by simp [inRange2]; omega), by simp [insertAt]; omega⟩
    · simp at h1
      exact ⟨[i, k], mem_allIdx.2 (by simp [inRange2]; omega), by simp [insertAt]; omega⟩
    · simp at h1
      exact ⟨[i, j], mem_allIdx.2 (by simp [inRange2]; omega), by simp [insertAt]; omega⟩

end rank3

end Splipy.MP.C18L

namespace Splipy.MP.C18L

open Splipy.MP

/-! ## every cell face once -/

theorem intOwners_nodup (cs : List ℕ) (d : ℕ) : (intOwners cs d).Nodup := allIdx_nodup _

theorem intNeighs_nodup (a b c d : ℕ) (hd : d < 3) : (intNeighs [a, b, c] d).Nodup := by
  unfold intNeighs
  refine List.Nodup.map_on ?_ (allIdx_nodup _)
  intro x hx y hy hxy
  rw [mem_allIdx] at hx hy
  unfold shpInt at hx hy
  interval_cases d <;> simp [inRange3] at hx hy <;> obtain ⟨i, j, k, rfl, -⟩ := hx <;>
    obtain ⟨i', j', k', rfl, -⟩ := hy <;> simp [bumpIdx] at hxy ⊢ <;> omega

theorem firstCells_nodup (a b c d : ℕ) (hd : d < 3) : (firstCells [a, b, c] d).Nodup := by
  unfold firstCells
  refine List.Nodup.map_on ?_ (allIdx_nodup _)
  intro x hx y hy hxy
  rw [mem_allIdx] at hx hy
  interval_cases d <;> simp [inRange2] at hx hy <;> obtain ⟨i, j, rfl, -⟩ := hx <;>
    obtain ⟨i', j', rfl, -⟩ := hy <;> simp [insertAt] at hxy ⊢ <;> omega

theorem lastCells_nodup (a b c d : ℕ) (hd : d < 3) : (lastCells [a, b, c] d).Nodup := by
  unfold lastCells
  refine List.Nodup.map_on ?_ (allIdx_nodup _)
  intro x hx y hy hxy
  rw [mem_allIdx] at hx hy
  interval_cases d <;> simp [inRange2] at hx hy <;> obtain ⟨i, j, rfl, -⟩ := hx <;>
    obtain ⟨i', j', rfl, -⟩ := hy <;> simp [insertAt] at hxy ⊢ <;> omega

/-- **two faces per cell and direction**: a cell `[i,j,k]` of the grid occurs, among the faces of
    direction `d`, exactly twice as owner or neighbour: its low face (boundary face of index `0`, or
    internal face of which it is the neighbour) and its high face (internal face of which it is
    the owner, or boundary face of index `-1`). -/
theorem incident_count (a b c d i j k : ℕ) (hd : d < 3) (hi : i < a) (hj : j < b) (hk : k < c) :
    (intOwners [a, b, c] d).count [i, j, k] + (intNeighs [a, b, c] d).count [i, j, k] +
      (firstCells [a, b, c] d).count [i, j, k] + (lastCells [a, b, c] d).count [i, j, k] = 2 := by
  rw [count_nodup (intOwners_nodup _ _), count_nodup (intNeighs_nodup a b c d hd),
    count_nodup (firstCells_nodup a b c d hd), count_nodup (lastCells_nodup a b c d hd)]
  simp only [mem_intOwners a b c d i j k hd, mem_intNeighs a b c d i j k hd,
    mem_firstCells a b c d i j k hd (by omega) (by omega) (by omega),
    mem_lastCells a b c d i j k hd (by omega) (by omega) (by omega), hi, hj, hk, true_and]
  interval_cases d <;> simp <;> split_ifs <;> omega

end Splipy.MP.C18L

namespace Splipy.MP.C18L

open Splipy.MP

/-! ## the face lists of the model in terms of cell indices -/

/-- columns 1 and 3 exchanged (`bdindex == 0`) -/
def swap13 (q : List ℤ) : List ℤ := [q.getD 0 0, q.getD 3 0, q.getD 2 0, q.getD 1 0]

theorem internalFaces_eq (cs : List ℕ) (cp cell : NdArr ℤ) (d : ℕ) :
    internalFaces cs cp cell d = (intOwners cs d).map fun idx =>
      { nodes := quadNodes cp d (bumpIdx idx d), owner := cell.get idx, neighbor := cell.get (bumpIdx idx d),
        name := none } := by
  simp [internalFaces, intOwners, allIdx, shpInt, List.map_map, Function.comp_def]

theorem sideFaces_first_eq (cs : List ℕ) (cp cell : NdArr ℤ) (d : ℕ) (nm : Option String) :
    sideFaces cs cp cell d false nm = (allIdx (cs.eraseIdx d)).map fun i2 =>
      { nodes := swap13 (quadNodes cp d (insertAt i2 d 0)), owner := cell.get (insertAt i2 d 0), neighbor := -1,
        name := nm } := by
  simp [sideFaces, allIdx, List.map_map, Function.comp_def, swap13]

theorem sideFaces_last_eq (cs : List ℕ) (cp cell : NdArr ℤ) (d : ℕ) (nm : Option String) :
    sideFaces cs cp cell d true nm = (allIdx (cs.eraseIdx d)).map fun i2 =>
      { nodes := quadNodes cp d (insertAt i2 d (cp.shape.getD d 0 - 1)),
        owner := cell.get (insertAt i2 d (cs.getD d 0 - 1)), neighbor := -1, name := nm } := by
  simp [sideFaces, allIdx, List.map_map, Function.comp_def]

theorem owners_internal (cs : List ℕ) (cp cell : NdArr ℤ) (d : ℕ) :
    (internalFaces cs cp cell d).map (·.owner) = (intOwners cs d).map cell.get := by
  rw [internalFaces_eq]; simp [List.map_map, Function.comp_def]

theorem neighs_internal (cs : List ℕ) (cp cell : NdArr ℤ) (d : ℕ) :
    (internalFaces cs cp cell d).map (·.neighbor) = (intNeighs cs d).map cell.get := by
  rw [internalFaces_eq]; simp [intNeighs, intOwners, List.map_map, Function.comp_def]

theorem owners_first (cs : List ℕ) (cp cell : NdArr ℤ) (d : ℕ) (nm : Option String) :
    (sideFaces cs cp cell d false nm).map (·.owner) = (firstCells cs d).map cell.get := by
  rw [sideFaces_first_eq]; simp [firstCells, List.map_map, Function.comp_def]

theorem owners_last (cs : List ℕ) (cp cell : NdArr ℤ) (d : ℕ) (nm : Option String) :
    (sideFaces cs cp cell d true nm).map (·.owner) = (lastCells cs d).map cell.get := by
  rw [sideFaces_last_eq]; simp [lastCells, List.map_map, Function.comp_def]

theorem neighs_side (cs : List ℕ) (cp cell : NdArr ℤ) (d : ℕ) (last : Bool) (nm : Option String) :
    ∀ f ∈ sideFaces cs cp cell d last nm, f.neighbor = -1 ∧ f.name = nm := by
  intro f hf
  simp only [sideFaces, List.mem_map] at hf
  obtain ⟨k, _, rfl⟩ := hf
  exact ⟨rfl, rfl⟩

/-! ## the vertex cycles are translates of the six cycles of a single cell -/

/-- control-point multi-index of the local corner `n = 4i+2j+k` of the cell `[x,y,z]` -/
def cornerOf (x y z n : ℕ) : List ℕ := [x + n / 4 % 2, y + n / 2 % 2, z + n % 2]

/-- **translates**: for the cell `[x,y,z]` of any trilinear patch, the quad on its HIGH side in
    direction `d` (listed for an internal face, of which the cell is the owner, and for a boundary
    face of index `-1`) is the cycle of `oneCell_sides` for that side read at the cell's corners;
    the quad on its LOW side with columns 1 and 3 exchanged (listed for a boundary face of index
    `0`) is the cycle of the low side.  (An internal face is listed once, by its owner, as the
    owner's high side: seen from the neighbour it is the low-side cycle reversed — the normal
    points INTO the neighbour.) -/
theorem quad_translate (cp : NdArr ℤ) (x y z : ℕ) :
    quadNodes cp 0 (bumpIdx [x, y, z] 0) = [4, 6, 7, 5].map (fun n => cp.get (cornerOf x y z n)) ∧
    quadNodes cp 1 (bumpIdx [x, y, z] 1) = [2, 3, 7, 6].map (fun n => cp.get (cornerOf x y z n)) ∧
    quadNodes cp 2 (bumpIdx [x, y, z] 2) = [1, 5, 7, 3].map (fun n => cp.get (cornerOf x y z n)) ∧
    swap13 (quadNodes cp 0 [x, y, z]) = [0, 1, 3, 2].map (fun n => cp.get (cornerOf x y z n)) ∧
    swap13 (quadNodes cp 1 [x, y, z]) = [0, 4, 5, 1].map (fun n => cp.get (cornerOf x y z n)) ∧
    swap13 (quadNodes cp 2 [x, y, z]) = [0, 2, 6, 4].map (fun n => cp.get (cornerOf x y z n)) := by
  simp [quadNodes, bumpIdx, cornerOf, swap13]

end Splipy.MP.C18L

namespace Splipy.MP.C18L

open Splipy.MP

/-! ## six faces per cell -/

theorem count_map_injOn {α β : Type} [BEq α] [LawfulBEq α] [BEq β] [LawfulBEq β] (f : α → β) (x : α) :
    ∀ (l : List α), (∀ y ∈ l, f y = f x → y = x) → (l.map f).count (f x) = l.count x
  | [], _ => rfl
  | y :: l, h => by
    have ih := count_map_injOn f x l (fun z hz => h z (List.mem_cons_of_mem _ hz))
    simp only [List.map_cons, List.count_cons, ih]
    by_cases hyx : y = x
    · subst hyx; simp
    · have : f y ≠ f x := fun hf => hyx (h y (by simp) hf)
      simp [hyx, this]

/-- the faces a patch lists when it owns all its sides and has no neighbour -/
def patchFaces (cs : List ℕ) (cp cell : NdArr ℤ) (nm : ℕ → Option String) : List Face :=
  (List.range 3).flatMap fun d =>
    internalFaces cs cp cell d ++ sideFaces cs cp cell d false (nm (2 * d)) ++ sideFaces cs cp cell d true (nm (2 * d + 1))

theorem arange_get_inj (start : ℕ) {cs x y : List ℕ} (hx : InRange x cs) (hy : InRange y cs)
    (h : (arangeArr start cs).get y = (arangeArr start cs).get x) : y = x := by
  rw [arangeArr_get start hx, arangeArr_get start hy] at h
  have : ravel cs y = ravel cs x := by omega
  rw [← unravel_ravel hy, ← unravel_ravel hx, this]

theorem mem_incident_inRange (a b c d : ℕ) (hd : d < 3) (ha : 0 < a) (hb : 0 < b) (hc : 0 < c) (y : List ℕ)
    (hy : y ∈ intOwners [a, b, c] d ∨ y ∈ intNeighs [a, b, c] d ∨ y ∈ firstCells [a, b, c] d ∨
      y ∈ lastCells [a, b, c] d) : InRange y [a, b, c] := by
  rcases hy with hy | hy | hy | hy
  · exact (inRange_of_set_pred (mem_allIdx.1 hy)).1
  · obtain ⟨idx, hidx, rfl⟩ := List.mem_map.1 hy
    exact (inRange_of_set_pred (mem_allIdx.1 hidx)).2
  · obtain ⟨i2, hi2, rfl⟩ := List.mem_map.1 hy
    rw [mem_allIdx] at hi2
    interval_cases d <;> simp [inRange2] at hi2 <;> obtain ⟨i, j, rfl, h1, h2⟩ := hi2 <;>
      simp [insertAt, inRange3] <;> omega
  · obtain ⟨i2, hi2, rfl⟩ := List.mem_map.1 hy
    rw [mem_allIdx] at hi2
    interval_cases d <;> simp [inRange2] at hi2 <;> obtain ⟨i, j, rfl, h1, h2⟩ := hi2 <;>
      simp [insertAt, inRange3] <;> omega

/-- **each cell is bounded by exactly six faces**: in the face list of a structured trilinear
    patch with `a × b × c` cells (numbered `start …` in C order), the number of the cell `[i,j,k]`
    occurs exactly six times in the owner and neighbour columns together. -/
theorem six_faces_per_cell (a b c start : ℕ) (cp : NdArr ℤ) (nm : ℕ → Option String) (i j k : ℕ)
    (hi : i < a) (hj : j < b) (hk : k < c) :
    let cell := arangeArr start [a, b, c]
    let F := patchFaces [a, b, c] cp cell nm
    (F.map (·.owner)).count (cell.get [i, j, k]) + (F.map (·.neighbor)).count (cell.get [i, j, k]) = 6 := by
  intro cell F
  have ha : 0 < a := by omega
  have hb : 0 < b := by omega
  have hc : 0 < c := by omega
  have hx : InRange [i, j, k] [a, b, c] := inRange3.2 ⟨i, j, k, rfl, hi, hj, hk⟩
  have hnn : cell.get [i, j, k] ≠ -1 := by
    show (arangeArr start [a, b, c]).get [i, j, k] ≠ -1
    rw [arangeArr_get start hx]; omega
  -- per direction
  have hcnt : ∀ (L : List (List ℕ)) (d : ℕ), d < 3 →
      (∀ y ∈ L, y ∈ intOwners [a, b, c] d ∨ y ∈ intNeighs [a, b, c] d ∨ y ∈ firstCells [a, b, c] d ∨
        y ∈ lastCells [a, b, c] d) →
      (L.map cell.get).count (cell.get [i, j, k]) = L.count [i, j, k] := by
    intro L d hd hL
    refine count_map_injOn cell.get [i, j, k] L (fun y hy h => ?_)
    exact arange_get_inj start hx (mem_incident_inRange a b c d hd ha hb hc y (hL y hy)) h
  have hside : ∀ d last, ((sideFaces [a, b, c] cp cell d last (nm (if last then 2 * d + 1 else 2 * d))).map (·.neighbor)).count
      (cell.get [i, j, k]) = 0 := by
    intro d last
    apply List.count_eq_zero_of_not_mem
    intro hm
    obtain ⟨f, hf, hfe⟩ := List.mem_map.1 hm
    rw [(neighs_side _ _ _ _ _ _ f hf).1] at hfe
    exact hnn hfe.symm
  have hdir : ∀ d, d < 3 →
      ((internalFaces [a, b, c] cp cell d ++ sideFaces [a, b, c] cp cell d false (nm (2 * d)) ++
          sideFaces [a, b, c] cp cell d true (nm (2 * d + 1))).map (·.owner)).count (cell.get [i, j, k]) +
      ((internalFaces [a, b, c] cp cell d ++ sideFaces [a, b, c] cp cell d false (nm (2 * d)) ++
          sideFaces [a, b, c] cp cell d true (nm (2 * d + 1))).map (·.neighbor)).count (cell.get [i, j, k]) = 2 := by
    intro d hd
    have s0 := hside d false
    have s1 := hside d true
    simp only [Bool.false_eq_true, if_false, if_true] at s0 s1
    simp only [List.map_append, List.count_append, owners_internal, neighs_internal, owners_first, owners_last, s0, s1]
    rw [hcnt _ d hd (fun y hy => Or.inl hy), hcnt _ d hd (fun y hy => Or.inr (Or.inr (Or.inl hy))),
      hcnt _ d hd (fun y hy => Or.inr (Or.inr (Or.inr hy))), hcnt _ d hd (fun y hy => Or.inr (Or.inl hy))]
    have := incident_count a b c d i j k hd hi hj hk
    omega
  have h0 := hdir 0 (by omega)
  have h1 := hdir 1 (by omega)
  have h2 := hdir 2 (by omega)
  have hr : List.range 3 = [0, 1, 2] := by decide
  simp only [F, patchFaces, hr, List.flatMap_cons, List.flatMap_nil, List.append_nil, List.map_append, List.count_append] at h0 h1 h2 ⊢
  omega

end Splipy.MP.C18L
