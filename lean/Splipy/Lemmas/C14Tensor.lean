import Splipy.Lemmas.C14LinAlg

/-!
# C14 helper lemmas: index algebra of the tensor primitives (L11)

`Tensor.build3 / at3 / applyAxis` and `Interp.moveFront / tensordot` as entry functions, first for an
arbitrary shape and axis in the (outer, axis, inner) view, then specialised to the 3-d arrays
`n₀ × n₁ × dim` of surfaces and the 4-d arrays of volumes.
-/

namespace Splipy

open Finset

namespace Tensor

theorem flat_lt_c14 {o m inn a r i : ℕ} (ha : a < o) (hr : r < m) (hi : i < inn) :
    (a * m + r) * inn + i < o * m * inn := by
  have h1 : a * m + r + 1 ≤ o * m := by
    calc a * m + r + 1 ≤ a * m + m := by omega
      _ = (a + 1) * m := by ring
      _ ≤ o * m := Nat.mul_le_mul_right m ha
  calc (a * m + r) * inn + i < (a * m + r) * inn + inn := by omega
    _ = (a * m + r + 1) * inn := by ring
    _ ≤ o * m * inn := Nat.mul_le_mul_right inn h1

theorem decode_inner_c14 {x inn i : ℕ} (hi : i < inn) : (x * inn + i) % inn = i :=
  Nat.mul_add_mod_of_lt hi

theorem decode_div_c14 {x inn i : ℕ} (hi : i < inn) : (x * inn + i) / inn = x := by
  have h0 : 0 < inn := by omega
  rw [Nat.add_comm, Nat.add_mul_div_right _ _ h0, Nat.div_eq_of_lt hi, Nat.zero_add]

theorem decode_mid_c14 {a m r inn i : ℕ} (hr : r < m) (hi : i < inn) :
    ((a * m + r) * inn + i) / inn % m = r := by
  rw [decode_div_c14 hi, decode_inner_c14 hr]

theorem decode_outer_c14 {a m r inn i : ℕ} (hr : r < m) (hi : i < inn) :
    ((a * m + r) * inn + i) / (inn * m) = a := by
  rw [← Nat.div_div_eq_div_mul, decode_div_c14 hi, decode_div_c14 hr]

theorem split3_set_c14 {sh : List ℕ} {ax m : ℕ} (h : ax < sh.length) :
    split3 (sh.set ax m) ax = ((split3 sh ax).1, m, (split3 sh ax).2.2) := by
  unfold split3
  simp only [List.take_set_of_le (Nat.le_refl ax), List.drop_set_of_lt (Nat.lt_succ_self ax)]
  congr 2
  simp [List.getD, h]

variable {K : Type}

section
variable [Zero K]

omit [Zero K] in
theorem shape_build3_c14 (sh : List ℕ) (ax m : ℕ) (f : ℕ → ℕ → ℕ → K) :
    (build3 sh ax m f).shape = sh.set ax m := rfl

/-- Reading back what `build3` tabulated. -/
theorem at3_build3_c14 (sh : List ℕ) (ax m : ℕ) (f : ℕ → ℕ → ℕ → K) (a r i : ℕ) (hax : ax < sh.length)
    (ha : a < (split3 sh ax).1) (hr : r < m) (hi : i < (split3 sh ax).2.2) :
    (build3 sh ax m f).at3 ax a r i = f a r i := by
  unfold at3
  rw [shape_build3_c14, split3_set_c14 hax]
  simp only
  unfold build3 get
  simp only
  rw [getD_ofFn_c14 _ _ _ _ (flat_lt_c14 ha hr hi)]
  simp only [decode_inner_c14 hi, decode_mid_c14 hr hi, decode_outer_c14 hr hi]

end

section
variable [Field K]

theorem shape_applyAxis_c14 (M : Mat K) (t : Tensor K) (ax : ℕ) :
    (applyAxis M t ax).shape = t.shape.set ax M.size := rfl

/-- Entries of `applyAxis` in the (outer, axis, inner) view. -/
theorem at3_applyAxis_c14 (M : Mat K) (t : Tensor K) (ax a r i : ℕ) (hax : ax < t.shape.length)
    (ha : a < (split3 t.shape ax).1) (hr : r < M.size) (hi : i < (split3 t.shape ax).2.2) :
    (applyAxis M t ax).at3 ax a r i =
      ∑ j ∈ range (t.shape.getD ax 1), (M.getD r #[]).getD j 0 * t.at3 ax a j i := by
  unfold applyAxis
  simp only
  rw [at3_build3_c14 _ _ _ _ _ _ _ hax ha hr hi]
  exact foldl_add_eq_sum_c14 (fun j => (M.getD r #[]).getD j 0 * t.at3 ax a j i) _

end
end Tensor

end Splipy

namespace Splipy
open Finset

namespace Interp
variable {K : Type} [Field K]

theorem shape_moveFront (t : Tensor K) (ax : ℕ) :
    (moveFront t ax).shape = t.shape.getD ax 1 :: t.shape.eraseIdx ax := rfl

/-- Entries of `np.moveaxis(t, ax, 0)`: flat position `(r·o + a)·inn + i` holds `t[a, r, i]`. -/
theorem get_moveFront (t : Tensor K) (ax a r i : ℕ) (ha : a < (Tensor.split3 t.shape ax).1)
    (hr : r < t.shape.getD ax 1) (hi : i < (Tensor.split3 t.shape ax).2.2) :
    (moveFront t ax).get ((r * (Tensor.split3 t.shape ax).1 + a) * (Tensor.split3 t.shape ax).2.2 + i)
      = t.at3 ax a r i := by
  unfold moveFront Tensor.get
  simp only
  have hr' : r < (Tensor.split3 t.shape ax).2.1 := hr
  rw [getD_ofFn_c14 _ _ _ _ (Tensor.flat_lt_c14 hr' ha hi)]
  simp only [Tensor.decode_inner_c14 hi, Tensor.decode_mid_c14 ha hi, Tensor.decode_outer_c14 ha hi]

end Interp

/-! ## 3-d arrays `A × B × C` -/

namespace Tensor
variable {K : Type} [Field K]

/-- Entry `[i, j, k]` of a 3-d array whose last two extents are `B`, `C`. -/
def entry3 (t : Tensor K) (B C i j k : ℕ) : K := t.get ((i * B + j) * C + k)

theorem split3_3_0_c14 (A B C : ℕ) : split3 [A, B, C] 0 = (1, A, B * C) := by
  simp [split3, prod]
theorem split3_3_1_c14 (A B C : ℕ) : split3 [A, B, C] 1 = (A, B, C) := by
  simp [split3, prod]

theorem at3_3_1_c14 (t : Tensor K) {A B C : ℕ} (hs : t.shape = [A, B, C]) (i j k : ℕ) :
    t.at3 1 i j k = t.entry3 B C i j k := by
  unfold at3 entry3; rw [hs, split3_3_1_c14]

theorem at3_3_0_c14 (t : Tensor K) {A B C : ℕ} (hs : t.shape = [A, B, C]) (i j k : ℕ) :
    t.at3 0 0 i (j * C + k) = t.entry3 B C i j k := by
  unfold at3 entry3; rw [hs, split3_3_0_c14]; simp only; congr 1; ring

/-- `applyAxis` along axis 1 of an `A × B × C` array. -/
theorem applyAxis3_1_c14 (M : Mat K) (t : Tensor K) {A B C : ℕ} (hs : t.shape = [A, B, C]) :
    (applyAxis M t 1).shape = [A, M.size, C] ∧
    ∀ i < A, ∀ r < M.size, ∀ k < C,
      (applyAxis M t 1).entry3 M.size C i r k = ∑ j ∈ range B, M.get r j * t.entry3 B C i j k := by
  have hsh : (applyAxis M t 1).shape = [A, M.size, C] := by rw [shape_applyAxis_c14, hs]; rfl
  refine ⟨hsh, fun i hi r hr k hk => ?_⟩
  rw [← at3_3_1_c14 _ hsh, at3_applyAxis_c14 M t 1 i r k (by rw [hs]; simp) (by rw [hs, split3_3_1_c14]; exact hi) hr
        (by rw [hs, split3_3_1_c14]; exact hk)]
  have : t.shape.getD 1 1 = B := by rw [hs]; rfl
  rw [this]
  exact sum_congr rfl (fun j _ => by rw [at3_3_1_c14 t hs]; rfl)

/-- `applyAxis` along axis 0 of an `A × B × C` array. -/
theorem applyAxis3_0_c14 (M : Mat K) (t : Tensor K) {A B C : ℕ} (hs : t.shape = [A, B, C]) :
    (applyAxis M t 0).shape = [M.size, B, C] ∧
    ∀ r < M.size, ∀ j < B, ∀ k < C,
      (applyAxis M t 0).entry3 B C r j k = ∑ i ∈ range A, M.get r i * t.entry3 B C i j k := by
  have hsh : (applyAxis M t 0).shape = [M.size, B, C] := by rw [shape_applyAxis_c14, hs]; rfl
  refine ⟨hsh, fun r hr j hj k hk => ?_⟩
  have hjk : j * C + k < B * C := by
    have := flat_lt_c14 (o := 1) (a := 0) (Nat.zero_lt_one) hj hk
    simpa using this
  rw [← at3_3_0_c14 _ hsh, at3_applyAxis_c14 M t 0 0 r (j * C + k) (by rw [hs]; simp) (by rw [hs, split3_3_0_c14]; exact Nat.zero_lt_one) hr
        (by rw [hs, split3_3_0_c14]; exact hjk)]
  have : t.shape.getD 0 1 = A := by rw [hs]; rfl
  rw [this]
  exact sum_congr rfl (fun i _ => by rw [at3_3_0_c14 t hs]; rfl)

end Tensor

namespace Interp
variable {K : Type} [Field K]
open Tensor

/-- `np.tensordot(M, t, axes=(1,1))` on an `A × B × C` array: the result is `M.size × A × C`. -/
theorem tensordot3 (M : Mat K) (t R : Tensor K) {A B C : ℕ} (hs : t.shape = [A, B, C])
    (h : tensordot M t 1 = .ok R) :
    R.shape = [M.size, A, C] ∧ (∀ r < M.size, (M.getD r #[]).size = B) ∧
    ∀ r < M.size, ∀ i < A, ∀ k < C,
      R.entry3 A C r i k = ∑ j ∈ range B, M.get r j * t.entry3 B C i j k := by
  unfold tensordot at h
  split at h
  · exact absurd h (by simp)
  · rename_i hc
    have hR : R = moveFront (applyAxis M t 1) 1 := by cases h; rfl
    obtain ⟨hsh, hent⟩ := applyAxis3_1_c14 M t hs
    have hrows : ∀ r < M.size, (M.getD r #[]).size = B := by
      intro r hr
      by_contra hne
      apply hc
      left
      rw [Array.any_eq_true]
      refine ⟨r, hr, ?_⟩
      have : t.shape.getD 1 0 = B := by rw [hs]; rfl
      rw [this]
      have : M[r] = M.getD r #[] := by simp [Array.getD, hr]
      rw [this]
      simpa using hne
    refine ⟨by rw [hR, shape_moveFront, hsh]; rfl, hrows, fun r hr i hi k hk => ?_⟩
    have hg := get_moveFront (applyAxis M t 1) 1 i r k (by rw [hsh, split3_3_1_c14]; exact hi)
                (by rw [hsh]; exact hr) (by rw [hsh, split3_3_1_c14]; exact hk)
    rw [hsh, split3_3_1_c14] at hg
    simp only at hg
    rw [hR]
    show (moveFront (applyAxis M t 1) 1).get ((r * A + i) * C + k) = _
    rw [hg, at3_3_1_c14 _ hsh, hent i hi r hr k hk]

end Interp
end Splipy

/-! ## 4-d arrays `A × B × C × D` (volumes) -/

namespace Splipy
open Finset

namespace Tensor
variable {K : Type} [Field K]

/-- Entry `[i, j, k, l]` of a 4-d array whose last three extents are `B`, `C`, `D`. -/
def entry4 (t : Tensor K) (B C D i j k l : ℕ) : K := t.get (((i * B + j) * C + k) * D + l)

theorem split3_4_0 (A B C D : ℕ) : split3 [A, B, C, D] 0 = (1, A, B * C * D) := by
  simp [split3, prod]
theorem split3_4_1 (A B C D : ℕ) : split3 [A, B, C, D] 1 = (A, B, C * D) := by
  simp [split3, prod]
theorem split3_4_2 (A B C D : ℕ) : split3 [A, B, C, D] 2 = (A * B, C, D) := by
  simp [split3, prod]

theorem at3_4_2 (t : Tensor K) {A B C D : ℕ} (hs : t.shape = [A, B, C, D]) (i j k l : ℕ) :
    t.at3 2 (i * B + j) k l = t.entry4 B C D i j k l := by
  unfold at3 entry4; rw [hs, split3_4_2]

theorem at3_4_1 (t : Tensor K) {A B C D : ℕ} (hs : t.shape = [A, B, C, D]) (i j k l : ℕ) :
    t.at3 1 i j (k * D + l) = t.entry4 B C D i j k l := by
  unfold at3 entry4; rw [hs, split3_4_1]; simp only; congr 1; ring

theorem at3_4_0 (t : Tensor K) {A B C D : ℕ} (hs : t.shape = [A, B, C, D]) (i j k l : ℕ) :
    t.at3 0 0 i ((j * C + k) * D + l) = t.entry4 B C D i j k l := by
  unfold at3 entry4; rw [hs, split3_4_0]; simp only; congr 1; ring

theorem flat2_lt {B C j k : ℕ} (hj : j < B) (hk : k < C) : j * C + k < B * C := by
  have := flat_lt_c14 (o := 1) (a := 0) Nat.zero_lt_one hj hk
  simpa using this

theorem applyAxis4_2 (M : Mat K) (t : Tensor K) {A B C D : ℕ} (hs : t.shape = [A, B, C, D]) :
    (applyAxis M t 2).shape = [A, B, M.size, D] ∧
    ∀ i < A, ∀ j < B, ∀ r < M.size, ∀ l < D,
      (applyAxis M t 2).entry4 B M.size D i j r l = ∑ k ∈ range C, M.get r k * t.entry4 B C D i j k l := by
  have hsh : (applyAxis M t 2).shape = [A, B, M.size, D] := by rw [shape_applyAxis_c14, hs]; rfl
  refine ⟨hsh, fun i hi j hj r hr l hl => ?_⟩
  rw [← at3_4_2 _ hsh, at3_applyAxis_c14 M t 2 (i * B + j) r l (by rw [hs]; simp)
        (by rw [hs, split3_4_2]; exact flat2_lt hi hj) hr (by rw [hs, split3_4_2]; exact hl)]
  have : t.shape.getD 2 1 = C := by rw [hs]; rfl
  rw [this]
  exact sum_congr rfl (fun k _ => by rw [at3_4_2 t hs]; rfl)

theorem applyAxis4_1 (M : Mat K) (t : Tensor K) {A B C D : ℕ} (hs : t.shape = [A, B, C, D]) :
    (applyAxis M t 1).shape = [A, M.size, C, D] ∧
    ∀ i < A, ∀ r < M.size, ∀ k < C, ∀ l < D,
      (applyAxis M t 1).entry4 M.size C D i r k l = ∑ j ∈ range B, M.get r j * t.entry4 B C D i j k l := by
  have hsh : (applyAxis M t 1).shape = [A, M.size, C, D] := by rw [shape_applyAxis_c14, hs]; rfl
  refine ⟨hsh, fun i hi r hr k hk l hl => ?_⟩
  rw [← at3_4_1 _ hsh, at3_applyAxis_c14 M t 1 i r (k * D + l) (by rw [hs]; simp)
        (by rw [hs, split3_4_1]; exact hi) hr (by rw [hs, split3_4_1]; exact flat2_lt hk hl)]
  have : t.shape.getD 1 1 = B := by rw [hs]; rfl
  rw [this]
  exact sum_congr rfl (fun j _ => by rw [at3_4_1 t hs]; rfl)

theorem applyAxis4_0 (M : Mat K) (t : Tensor K) {A B C D : ℕ} (hs : t.shape = [A, B, C, D]) :
    (applyAxis M t 0).shape = [M.size, B, C, D] ∧
    ∀ r < M.size, ∀ j < B, ∀ k < C, ∀ l < D,
      (applyAxis M t 0).entry4 B C D r j k l = ∑ i ∈ range A, M.get r i * t.entry4 B C D i j k l := by
  have hsh : (applyAxis M t 0).shape = [M.size, B, C, D] := by rw [shape_applyAxis_c14, hs]; rfl
  refine ⟨hsh, fun r hr j hj k hk l hl => ?_⟩
  have hin : (j * C + k) * D + l < B * C * D := flat2_lt (flat2_lt hj hk) hl
  rw [← at3_4_0 _ hsh, at3_applyAxis_c14 M t 0 0 r ((j * C + k) * D + l) (by rw [hs]; simp)
        (by rw [hs, split3_4_0]; exact Nat.zero_lt_one) hr (by rw [hs, split3_4_0]; exact hin)]
  have : t.shape.getD 0 1 = A := by rw [hs]; rfl
  rw [this]
  exact sum_congr rfl (fun i _ => by rw [at3_4_0 t hs]; rfl)

end Tensor

namespace Interp
variable {K : Type} [Field K]
open Tensor

/-- `np.tensordot(M, t, axes=(1,2))` on an `A × B × C × D` array: the result is `M.size × A × B × D`. -/
theorem tensordot4 (M : Mat K) (t R : Tensor K) {A B C D : ℕ} (hs : t.shape = [A, B, C, D])
    (h : tensordot M t 2 = .ok R) :
    R.shape = [M.size, A, B, D] ∧ (∀ r < M.size, (M.getD r #[]).size = C) ∧
    ∀ r < M.size, ∀ i < A, ∀ j < B, ∀ l < D,
      R.entry4 A B D r i j l = ∑ k ∈ range C, M.get r k * t.entry4 B C D i j k l := by
  unfold tensordot at h
  split at h
  · exact absurd h (by simp)
  · rename_i hc
    have hR : R = moveFront (applyAxis M t 2) 2 := by cases h; rfl
    obtain ⟨hsh, hent⟩ := applyAxis4_2 M t hs
    have hrows : ∀ r < M.size, (M.getD r #[]).size = C := by
      intro r hr
      by_contra hne
      apply hc
      left
      rw [Array.any_eq_true]
      refine ⟨r, hr, ?_⟩
      have : t.shape.getD 2 0 = C := by rw [hs]; rfl
      rw [this]
      have : M[r] = M.getD r #[] := by simp [Array.getD, hr]
      rw [this]
      simpa using hne
    refine ⟨by rw [hR, shape_moveFront, hsh]; rfl, hrows, fun r hr i hi j hj l hl => ?_⟩
    have hg := get_moveFront (applyAxis M t 2) 2 (i * B + j) r l (by rw [hsh, split3_4_2]; exact flat2_lt hi hj)
                (by rw [hsh]; exact hr) (by rw [hsh, split3_4_2]; exact hl)
    rw [hsh, split3_4_2] at hg
    simp only at hg
    rw [hR]
    have e : ((r * A + i) * B + j) * D + l = (r * (A * B) + (i * B + j)) * D + l := by ring
    show (moveFront (applyAxis M t 2) 2).get (((r * A + i) * B + j) * D + l) = _
    rw [e, hg, at3_4_2 _ hsh, hent i hi j hj r hr l hl]

end Interp
end Splipy

namespace Splipy
namespace Interp
open Tensor
variable {K : Type} [Field K]

theorem tensordot3_size (M : Mat K) (t R : Tensor K) {A B C : ℕ} (hs : t.shape = [A, B, C])
    (h : tensordot M t 1 = .ok R) : R.data.size = M.size * A * C := by
  unfold tensordot at h
  split at h
  · exact absurd h (by simp)
  · have hR : R = moveFront (applyAxis M t 1) 1 := by cases h; rfl
    rw [hR]
    unfold moveFront
    simp only [Array.size_ofFn]
    rw [shape_applyAxis_c14, hs]
    simp [Tensor.split3, Tensor.prod]

theorem tensordot4_size (M : Mat K) (t R : Tensor K) {A B C D : ℕ} (hs : t.shape = [A, B, C, D])
    (h : tensordot M t 2 = .ok R) : R.data.size = M.size * A * B * D := by
  unfold tensordot at h
  split at h
  · exact absurd h (by simp)
  · have hR : R = moveFront (applyAxis M t 2) 2 := by cases h; rfl
    rw [hR]
    unfold moveFront
    simp only [Array.size_ofFn]
    rw [shape_applyAxis_c14, hs]
    simp only [Tensor.split3, Tensor.prod, List.take, List.drop, List.foldl, List.set, List.getD_cons_succ, List.getD_cons_zero]
    ring

end Interp
end Splipy
