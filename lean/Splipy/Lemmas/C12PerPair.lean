import Splipy.Lemmas.C12Periodic
import Splipy.Lemmas.C12All
import Splipy.Lemmas.C04PerSeq
import Splipy.Lemmas.C04PerKnots
import Splipy.Lemmas.C12Stages

/-!
# C12 — two periodic partners of different continuity (equal orders)

* `continuity_periodic_ok`, `mergeInserts_periodic_ok`: on periodic bases `continuity` never raises, so the
  two passes that collect the values to insert succeed;
* `insertKnots_sameMapOn_periodic`: property C04, periodic branch — direct algorithm or cover branch, no
  guard on the number of functions (`C04.insertKnots_fibres_periodic_all`) —, lifted to the tensor-product
  sum of any pardim;
* `periodic_pair_direction`: the three stages after `reparam` for a direction that is periodic in both
  objects with continuities `k₁ < k₂` and equal orders.
-/

namespace Splipy

set_option linter.unusedSectionVars false

variable {K : Type} [Field K] [LinearOrder K] [IsStrictOrderedRing K] [FloorRing K]

namespace C12

open C06

variable {m : ℕ}

/-- `continuity` of a periodic basis never raises (the argument is wrapped into the domain). -/
theorem continuity_periodic_ok (b : Basis K) (tol x : K) (hper : 0 ≤ b.periodic) :
    ∃ c, b.continuity tol x = .ok c := by
  unfold Basis.continuity
  simp only [ge_iff_le, hper, if_true]
  split <;> (split <;> exact ⟨_, rfl⟩)

/-- The pass collecting the values to insert succeeds when both bases are periodic. -/
theorem mergeInserts_periodic_ok (tol : K) (p : ℕ) (b1 b2 : Basis K) (h1 : 0 ≤ b1.periodic)
    (h2 : 0 ≤ b2.periodic) (into2 : Bool) :
    ∀ ks : List K, ∃ ins, Obj.mergeInserts tol p b1 b2 into2 ks = .ok ins := by
  intro ks
  induction ks with
  | nil => exact ⟨[], rfl⟩
  | cons k ks ih =>
    obtain ⟨c1, hc1⟩ := continuity_periodic_ok b1 tol k h1
    obtain ⟨c2, hc2⟩ := continuity_periodic_ok b2 tol k h2
    obtain ⟨rest, hrest⟩ := ih
    unfold Obj.mergeInserts
    simp only [hc1, hc2, hrest]
    exact ⟨_, rfl⟩

/-- **`insert_knot(list, direction=d)` in a PERIODIC direction keeps the evaluated map on the domain —
    curves, surfaces, volumes** (property C04, ANY valid periodic direction, no guard): ANY list of reals;
    the call succeeds, the
    result is well formed, direction `d` keeps order, continuity and domain and gains `xs.length`
    functions, the other bases are untouched. -/
theorem insertKnots_sameMapOn_periodic {o : Obj K} (hw : C06.WF o m) (d : Fin m) (k : ℕ)
    (hk : (o.basis d).periodic = (k : Int)) (xs : List K) :
    ∃ o', o.insertKnots xs d = .ok o' ∧ C06.WF o' m ∧ SameMapOn m d o o'
      ∧ (o'.basis d).periodic = (k : Int) ∧ (o'.basis d).order = (o.basis d).order
      ∧ (o'.basis d).numFunctions = (o.basis d).numFunctions + xs.length
      ∧ (∀ j : Fin m, j ≠ d → o'.basis j = o.basis j) := by
  have hv := hw.valid d
  have hsize : (d : ℕ) < o.bases.size := by rw [hw.size]; exact d.isLt
  have hax : (d : ℕ) < o.cps.shape.length := by rw [hw.shape, midx_length]; omega
  have hsh0 : o.cps.shape.getD d 0 = (o.basis d).numFunctions := by rw [hw.shape, midx_getD_lt]
  obtain ⟨o', C, h1, h2, _, hbne, _, h6, _, _, h9, _⟩ :=
    C04.insertKnots_fibres_periodic_all o d hsize hax hv k hk hsh0 xs
  have hbk : ∀ j : Fin m, j ≠ d → o'.basis j = o.basis j :=
    fun j hj => hbne j (fun e => hj (Fin.ext e))
  have hshape' : o'.cps.shape
      = midx (Function.update (fun j : Fin m => (o.basis j).numFunctions) d ((o.basis d).numFunctions + xs.length))
          o.ncomp := by
    rw [h6, hw.shape, midx_set]
  have hnc : o'.ncomp = o.ncomp := ncomp_of_shape o' _ _ hshape'
  have hod : OnlyDir d o o' := insertKnots_onlyDir h1
  have hwf' : C06.WF o' m := by
    refine ⟨by rw [hod.size, hw.size], ?_, ?_⟩
    · intro j
      by_cases hj : j = d
      · subst hj; exact h2.valid
      · rw [hbk j hj]; exact hw.valid j
    · rw [hshape', hnc]
      congr 1
      funext j
      by_cases hj : j = d
      · subst hj; rw [Function.update_self, h2.num_eq]
      · rw [Function.update_of_ne hj, hbk j hj]
  refine ⟨o', h1, hwf', sameMapOn_of_fibres hw hwf' d hbk hnc h2.start_eq h2.stop_eq ?_,
    h2.periodic_eq.trans hk, h2.order_eq, h2.num_eq, hbk⟩
  intro a i ha hi sd t ht
  rw [h2.order_eq, h2.num_eq, h2.nAll_eq hv]
  have hn := C04.numFunctions_pos hv
  rw [C04.wsum_congr sd _ _ _ _ (by omega) _ _ 0 t (fun r hr => h9 a i r ha hi hr)]
  exact h2.same (C04.fibre o d a i) sd 0 t ht

/-- **Direction `i` periodic in BOTH objects with continuities `k₁ < k₂`, equal orders** (pair `a` after
    `reparam`): `lower_periodic` brings object 2 down to `k₁` (C08), `raise_order(0)` does nothing, the two
    insertion passes are periodic insertions (C04).  All three stages succeed, both objects keep their
    evaluated map on the domain, end with continuity `k₁` and the common order, stay well formed, and the
    other directions are untouched.  (That the two knot vectors end up EQUAL is not part of this
    statement.) -/
theorem periodic_pair_direction (tol : K) (c1 c2 : Bool) (i : Fin m) (hi : (i : ℕ) ≤ 2)
    (a : Obj K × Obj K) (hw1 : C06.WF a.1 m) (hw2 : C06.WF a.2 m) (k1 k2 : ℕ)
    (hk1 : (a.1.basis i).periodic = (k1 : Int)) (hk2 : (a.2.basis i).periodic = (k2 : Int)) (hlt : k1 < k2)
    (hord : (a.1.basis i).order = (a.2.basis i).order) :
    ∃ b c r, Obj.stagePeriodic a i = .ok b ∧ Obj.stageOrder tol c1 c2 b i = .ok c
      ∧ Obj.stageMerge tol (max (b.1.basis i).order (b.2.basis i).order) c i = .ok r
      ∧ SameMapOn m i a.1 r.1 ∧ SameMapOn m i a.2 r.2
      ∧ C06.WF r.1 m ∧ C06.WF r.2 m
      ∧ (r.1.basis i).periodic = (k1 : Int) ∧ (r.2.basis i).periodic = (k1 : Int)
      ∧ (r.1.basis i).order = (a.1.basis i).order ∧ (r.2.basis i).order = (a.1.basis i).order
      ∧ (∀ j : Fin m, j ≠ i → r.1.basis j = a.1.basis j ∧ r.2.basis j = a.2.basis j) := by
  -- lower_periodic
  obtain ⟨o2, hl, hwo2, hson, hper2, hord2, _, _, hoth2, hnum2⟩ :=
    lowerPeriodic_sameMapOn_num hw2 i k2 hk2 (k1 : Int) (by omega) (by omega)
  have hSP : Obj.stagePeriodic a i = .ok (a.1, o2) := by
    unfold Obj.stagePeriodic
    have hlt' : (a.1.basis i).periodic < (a.2.basis i).periodic := by rw [hk1, hk2]; omega
    simp only [hlt', if_true]
    rw [hk1, hl]
  -- raise_order(0)
  have hpd : ∀ o : Obj K, C06.WF o m → (i : ℕ) < o.pardim := by
    intro o hw
    unfold Obj.pardim
    rw [hw.shape, midx_length]
    have := i.isLt
    omega
  have ho2 : (o2.basis i).order = (a.1.basis i).order := by rw [hord2, hord]
  have hSO : Obj.stageOrder tol c1 c2 (a.1, o2) i = .ok (a.1, o2) := by
    unfold Obj.stageOrder
    obtain ⟨r1, hr1⟩ := raiseOrderDispatch_zero_dir tol c1 a.1 i hi (hpd _ hw1)
    obtain ⟨r2, hr2⟩ := raiseOrderDispatch_zero_dir tol c2 o2 i hi (hpd _ hwo2)
    simp only [ho2, max_self, sub_self]
    rw [hr1, hr2]
  -- the two periodic insertion passes
  have hp1 : (0 : Int) ≤ (a.1.basis i).periodic := by rw [hk1]; omega
  have hp2 : (0 : Int) ≤ (o2.basis i).periodic := by rw [hper2]; omega
  obtain ⟨ins2, hins2⟩ := mergeInserts_periodic_ok tol (a.1.basis i).order (a.1.basis i) (o2.basis i) hp1 hp2 true
    ((a.1.basis i).knotSpans tol false).toList
  obtain ⟨r2, hr2, hwr2, hs2, hpr2, hor2, _, hk2'⟩ := insertKnots_sameMapOn_periodic hwo2 i k1 hper2 ins2
  have hp2' : (0 : Int) ≤ (r2.basis i).periodic := by rw [hpr2]; omega
  obtain ⟨ins1, hins1⟩ := mergeInserts_periodic_ok tol (a.1.basis i).order (a.1.basis i) (r2.basis i) hp1 hp2' false
    ((o2.basis i).knotSpans tol false).toList
  obtain ⟨r1, hr1, hwr1, hs1, hpr1, hor1, _, hk1'⟩ := insertKnots_sameMapOn_periodic hw1 i k1 hk1 ins1
  have hSM : Obj.stageMerge tol (max ((a.1, o2).1.basis i).order ((a.1, o2).2.basis i).order) (a.1, o2) i
      = .ok (r1, r2) := by
    unfold Obj.stageMerge Obj.firstInserts Obj.secondInserts
    simp only [ho2, max_self]
    simp only [hins2, hr2, hins1, hr1]
  refine ⟨(a.1, o2), (a.1, o2), (r1, r2), hSP, hSO, hSM, hs1, hson.trans hs2, hwr1, hwr2, hpr1, hpr2,
    hor1, hor2.trans ho2, fun j hj => ⟨hk1' j hj, (hk2' j hj).trans (hoth2 j hj)⟩⟩

/-- `periodic_pair_direction` with the roles exchanged: `k₂ < k₁`, object 1 is lowered. -/
theorem periodic_pair_direction_swap (tol : K) (c1 c2 : Bool) (i : Fin m) (hi : (i : ℕ) ≤ 2)
    (a : Obj K × Obj K) (hw1 : C06.WF a.1 m) (hw2 : C06.WF a.2 m) (k1 k2 : ℕ)
    (hk1 : (a.1.basis i).periodic = (k1 : Int)) (hk2 : (a.2.basis i).periodic = (k2 : Int)) (hlt : k2 < k1)
    (hord : (a.1.basis i).order = (a.2.basis i).order) :
    ∃ b c r, Obj.stagePeriodic a i = .ok b ∧ Obj.stageOrder tol c1 c2 b i = .ok c
      ∧ Obj.stageMerge tol (max (b.1.basis i).order (b.2.basis i).order) c i = .ok r
      ∧ SameMapOn m i a.1 r.1 ∧ SameMapOn m i a.2 r.2
      ∧ C06.WF r.1 m ∧ C06.WF r.2 m
      ∧ (r.1.basis i).periodic = (k2 : Int) ∧ (r.2.basis i).periodic = (k2 : Int)
      ∧ (r.1.basis i).order = (a.1.basis i).order ∧ (r.2.basis i).order = (a.1.basis i).order
      ∧ (∀ j : Fin m, j ≠ i → r.1.basis j = a.1.basis j ∧ r.2.basis j = a.2.basis j) := by
  obtain ⟨o1, hl, hwo1, hson, hper1, hord1, _, _, hoth1, hnum1⟩ :=
    lowerPeriodic_sameMapOn_num hw1 i k1 hk1 (k2 : Int) (by omega) (by omega)
  have hSP : Obj.stagePeriodic a i = .ok (o1, a.2) := by
    unfold Obj.stagePeriodic
    have hlt' : (a.2.basis i).periodic < (a.1.basis i).periodic := by rw [hk1, hk2]; omega
    have hnlt : ¬ (a.1.basis i).periodic < (a.2.basis i).periodic := by omega
    simp only [hnlt, hlt', if_true, if_false]
    rw [hk2, hl]
  have hpd : ∀ o : Obj K, C06.WF o m → (i : ℕ) < o.pardim := by
    intro o hw
    unfold Obj.pardim
    rw [hw.shape, midx_length]
    have := i.isLt
    omega
  have ho1 : (o1.basis i).order = (a.2.basis i).order := by rw [hord1, hord]
  have hSO : Obj.stageOrder tol c1 c2 (o1, a.2) i = .ok (o1, a.2) := by
    unfold Obj.stageOrder
    obtain ⟨r1, hr1⟩ := raiseOrderDispatch_zero_dir tol c1 o1 i hi (hpd _ hwo1)
    obtain ⟨r2, hr2⟩ := raiseOrderDispatch_zero_dir tol c2 a.2 i hi (hpd _ hw2)
    simp only [ho1, max_self, sub_self]
    rw [hr1, hr2]
  have hp1 : (0 : Int) ≤ (o1.basis i).periodic := by rw [hper1]; omega
  have hp2 : (0 : Int) ≤ (a.2.basis i).periodic := by rw [hk2]; omega
  obtain ⟨ins2, hins2⟩ := mergeInserts_periodic_ok tol (a.2.basis i).order (o1.basis i) (a.2.basis i) hp1 hp2 true
    ((o1.basis i).knotSpans tol false).toList
  obtain ⟨r2, hr2, hwr2, hs2, hpr2, hor2, _, hk2'⟩ := insertKnots_sameMapOn_periodic hw2 i k2 hk2 ins2
  have hp2' : (0 : Int) ≤ (r2.basis i).periodic := by rw [hpr2]; omega
  obtain ⟨ins1, hins1⟩ := mergeInserts_periodic_ok tol (a.2.basis i).order (o1.basis i) (r2.basis i) hp1 hp2' false
    ((a.2.basis i).knotSpans tol false).toList
  obtain ⟨r1, hr1, hwr1, hs1, hpr1, hor1, _, hk1'⟩ := insertKnots_sameMapOn_periodic hwo1 i k2 hper1 ins1
  have hSM : Obj.stageMerge tol (max ((o1, a.2).1.basis i).order ((o1, a.2).2.basis i).order) (o1, a.2) i
      = .ok (r1, r2) := by
    unfold Obj.stageMerge Obj.firstInserts Obj.secondInserts
    simp only [ho1, max_self]
    simp only [hins2, hr2, hins1, hr1]
  refine ⟨(o1, a.2), (o1, a.2), (r1, r2), hSP, hSO, hSM, hson.trans hs1, hs2, hwr1, hwr2, hpr1, hpr2,
    hor1.trans hord1, hor2.trans hord.symm, fun j hj => ⟨(hk1' j hj).trans (hoth1 j hj), hk2' j hj⟩⟩

/-- **Two periodic partners of different continuity, equal orders — the whole per-direction body.** -/
theorem core_periodic_pair (tol : K) (c1 c2 : Bool) (i : Fin m) (hi : (i : ℕ) ≤ 2)
    (s : Obj K × Obj K) (hw1 : C06.WF s.1 m) (hw2 : C06.WF s.2 m) (k1 k2 : ℕ)
    (hk1 : (s.1.basis i).periodic = (k1 : Int)) (hk2 : (s.2.basis i).periodic = (k2 : Int)) (hne : k1 ≠ k2)
    (hord : (s.1.basis i).order = (s.2.basis i).order) :
    ∃ r, Obj.identicalDir tol c1 c2 s i = .ok r
      ∧ RescaledOn m i (s.1.basis i).start (s.1.basis i).stop s.1 r.1
      ∧ RescaledOn m i (s.2.basis i).start (s.2.basis i).stop s.2 r.2
      ∧ C06.WF r.1 m ∧ C06.WF r.2 m
      ∧ (r.1.basis i).periodic = ((min k1 k2 : ℕ) : Int) ∧ (r.2.basis i).periodic = ((min k1 k2 : ℕ) : Int)
      ∧ (r.1.basis i).order = (s.1.basis i).order ∧ (r.2.basis i).order = (s.1.basis i).order
      ∧ (∀ j : Fin m, j ≠ i → r.1.basis j = s.1.basis j ∧ r.2.basis j = s.2.basis j) := by
  have ha := stageReparam_succeeds hw1 hw2 i hi
  obtain ⟨_, _, ha1, ha2⟩ := stageReparam_ok ha
  have hre1 := reparam_rescaled hw1 i ha1
  have hre2 := reparam_rescaled hw2 i ha2
  have hb1 : (C06.reparamObj s.1 i 0 1).basis i = C06.reparamOk (s.1.basis i) 0 1 := reparamObj_basis hw1 i
  have hb2 : (C06.reparamObj s.2 i 0 1).basis i = C06.reparamOk (s.2.basis i) 0 1 := reparamObj_basis hw2 i
  have hod1 := reparamDir_onlyDir ha1
  have hod2 := reparamDir_onlyDir ha2
  have hA1 : ((C06.reparamObj s.1 i 0 1, C06.reparamObj s.2 i 0 1) : Obj K × Obj K).1.basis i
      = C06.reparamOk (s.1.basis i) 0 1 := hb1
  have hA2 : ((C06.reparamObj s.1 i 0 1, C06.reparamObj s.2 i 0 1) : Obj K × Obj K).2.basis i
      = C06.reparamOk (s.2.basis i) 0 1 := hb2
  have hfin : ∀ (b c r : Obj K × Obj K) (kk : ℕ),
      Obj.stagePeriodic (C06.reparamObj s.1 i 0 1, C06.reparamObj s.2 i 0 1) i = .ok b →
      Obj.stageOrder tol c1 c2 b i = .ok c →
      Obj.stageMerge tol (max (b.1.basis i).order (b.2.basis i).order) c i = .ok r →
      SameMapOn m i (C06.reparamObj s.1 i 0 1) r.1 → SameMapOn m i (C06.reparamObj s.2 i 0 1) r.2 →
      C06.WF r.1 m → C06.WF r.2 m →
      (r.1.basis i).periodic = (kk : Int) → (r.2.basis i).periodic = (kk : Int) → kk = min k1 k2 →
      (r.1.basis i).order = ((C06.reparamObj s.1 i 0 1).basis i).order →
      (r.2.basis i).order = ((C06.reparamObj s.1 i 0 1).basis i).order →
      (∀ j : Fin m, j ≠ i → r.1.basis j = (C06.reparamObj s.1 i 0 1).basis j
        ∧ r.2.basis j = (C06.reparamObj s.2 i 0 1).basis j) →
      ∃ r, Obj.identicalDir tol c1 c2 s i = .ok r
      ∧ RescaledOn m i (s.1.basis i).start (s.1.basis i).stop s.1 r.1
      ∧ RescaledOn m i (s.2.basis i).start (s.2.basis i).stop s.2 r.2
      ∧ C06.WF r.1 m ∧ C06.WF r.2 m
      ∧ (r.1.basis i).periodic = ((min k1 k2 : ℕ) : Int) ∧ (r.2.basis i).periodic = ((min k1 k2 : ℕ) : Int)
      ∧ (r.1.basis i).order = (s.1.basis i).order ∧ (r.2.basis i).order = (s.1.basis i).order
      ∧ (∀ j : Fin m, j ≠ i → r.1.basis j = s.1.basis j ∧ r.2.basis j = s.2.basis j) := by
    intro b c r kk hSP hSO hSM hs1 hs2 hwr1 hwr2 hp1 hp2 hkk ho1 ho2 hoth
    refine ⟨r, identicalDir_of_stages ha hSP hSO hSM,
      hre1.1.trans_on (hw1.valid i).start_lt_stop ⟨hre1.2.2.1, hre1.2.2.2⟩ hs1,
      hre2.1.trans_on (hw2.valid i).start_lt_stop ⟨hre2.2.2.1, hre2.2.2.2⟩ hs2, hwr1, hwr2,
      by rw [hp1, hkk], by rw [hp2, hkk], by rw [ho1, hb1]; rfl, by rw [ho2, hb1]; rfl, fun j hj => ?_⟩
    have hne' : (j : ℕ) ≠ (i : ℕ) := fun e => hj (Fin.ext e)
    exact ⟨((hoth j hj).1).trans (hod1.basis_ne j hne'), ((hoth j hj).2).trans (hod2.basis_ne j hne')⟩
  rcases lt_or_gt_of_ne hne with hlt | hlt
  · obtain ⟨b, c, r, hSP, hSO, hSM, hs1, hs2, hwr1, hwr2, hp1, hp2, ho1, ho2, hoth⟩ :=
      periodic_pair_direction tol c1 c2 i hi (C06.reparamObj s.1 i 0 1, C06.reparamObj s.2 i 0 1)
        hre1.2.1 hre2.2.1 k1 k2 (by rw [hA1]; exact hk1) (by rw [hA2]; exact hk2) hlt
        (by rw [hA1, hA2]; exact hord)
    exact hfin b c r k1 hSP hSO hSM hs1 hs2 hwr1 hwr2 hp1 hp2 (by rw [min_eq_left (le_of_lt hlt)]) ho1 ho2 hoth
  · obtain ⟨b, c, r, hSP, hSO, hSM, hs1, hs2, hwr1, hwr2, hp1, hp2, ho1, ho2, hoth⟩ :=
      periodic_pair_direction_swap tol c1 c2 i hi (C06.reparamObj s.1 i 0 1, C06.reparamObj s.2 i 0 1)
        hre1.2.1 hre2.2.1 k1 k2 (by rw [hA1]; exact hk1) (by rw [hA2]; exact hk2) hlt
        (by rw [hA1, hA2]; exact hord)
    exact hfin b c r k2 hSP hSO hSM hs1 hs2 hwr1 hwr2 hp1 hp2 (by rw [min_eq_right (le_of_lt hlt)]) ho1 ho2 hoth

end C12

end Splipy
