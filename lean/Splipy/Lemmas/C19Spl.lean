import Splipy.Lemmas.C19G2
import Splipy.Lemmas.C19Mesh

/-! `SPL.read` on a file in the SPL layout returns the object the file describes. -/

namespace Splipy.FileIO

variable {K : Type}

/-- The coefficient block of an SPL file: component-major, the grid first-index-fastest
    (`for c in range(physdim): for j in F-order: cps[j][c]`), as position `c·N + j`. -/
def splVals [Zero K] (physdim : ℕ) (shape : List ℕ) (cps : List (List K)) : List K :=
  (List.range (physdim * shape.prod)).map fun idx =>
    ((flattenF shape cps).getD (idx % shape.prod) []).getD (idx / shape.prod) 0

/-- The lines of an SPL file describing `o` (any accuracy value `acc`). -/
def splLines [Zero K] (acc : K) (o : Obj K) : List (List (Token K)) :=
  [[.word "C", .int o.bases.length, .int o.ncomp, .int 0]]
  ++ o.bases.map (fun b => [Token.int b.order])
  ++ o.bases.map (fun b => [Token.int b.numFunctions])
  ++ [[.num acc]]
  ++ o.bases.flatMap (fun b => b.knots.map fun k => [Token.num k])
  ++ (splVals o.ncomp o.shape o.cps).map (fun x => [Token.num x])

def linesToToks (ls : List (List (Token K))) : List (Token K) := ls.flatMap (· ++ [Token.nl])

theorem splitLines_linesToToks : ∀ (ls : List (List (Token K))) (fuel : ℕ),
    (∀ l ∈ ls, ∀ t ∈ l, t.isNl = false) → ls.length < fuel →
    splitLines fuel (linesToToks ls) = ls
  | [], fuel, _, hf => by
    obtain ⟨f, rfl⟩ : ∃ f, fuel = f + 1 := ⟨fuel - 1, by omega⟩
    simp [linesToToks, splitLines, nextLine]
  | l :: ls, fuel, h, hf => by
    obtain ⟨f, rfl⟩ : ∃ f, fuel = f + 1 := ⟨fuel - 1, by omega⟩
    have ih := splitLines_linesToToks ls f (fun l' hl' => h l' (by simp [hl'])) (by simp at hf; omega)
    have e : linesToToks (l :: ls) = l ++ Token.nl :: linesToToks ls := by
      simp [linesToToks]
    rw [e]
    simp only [splitLines, nextLine_append l _ (h l (by simp)), ih]

theorem length_le_linesToToks (ls : List (List (Token K))) : ls.length ≤ (linesToToks ls).length := by
  induction ls with
  | nil => simp [linesToToks]
  | cons l ls ih =>
    simp only [linesToToks, List.flatMap_cons, List.length_append, List.length_cons, List.length_nil] at ih ⊢
    omega

section
variable [Field K] [LinearOrder K]

omit [LinearOrder K] in
theorem mapM_lineInt_map {α : Type} (f : α → Int) : ∀ (l : List α),
    (l.map fun a => [Token.int (K := K) (f a)]).mapM lineInt = some (l.map f)
  | [] => rfl
  | a :: l => by simp [List.mapM_cons, lineInt, Token.toInt?, mapM_lineInt_map f l]

omit [LinearOrder K] in
theorem mapM_lineFloat_map : ∀ (l : List K),
    (l.map fun x => [Token.num x]).mapM lineFloat = some l
  | [] => rfl
  | a :: l => by simp [List.mapM_cons, lineFloat, Token.toFloat?, mapM_lineFloat_map l]

theorem splKnots_lines (tol : K) : ∀ (bs : List (IOBasis K)), (∀ b ∈ bs, b.WF tol) →
    ∀ more : List (List (Token K)),
    splKnots tol (bs.map fun b => ((b.order : Int), (b.numFunctions : Int)))
      (bs.flatMap (fun b => b.knots.map fun k => [Token.num k]) ++ more) = .ok (bs, more)
  | [], _, more => by simp [splKnots]
  | b :: bs, h, more => by
    have hb := h b (by simp)
    obtain ⟨h1, h2, h3, h4⟩ := hb
    have ih := splKnots_lines tol bs (fun b' hb' => h b' (by simp [hb'])) more
    have hcnt : ((b.order : Int) + (b.numFunctions : Int)).toNat = b.knots.length := by
      unfold IOBasis.numFunctions; omega
    have hneg : ¬ ((b.order : Int) + (b.numFunctions : Int) < 0) := by omega
    simp only [List.map_cons, List.flatMap_cons, List.append_assoc, splKnots, hneg, if_false, hcnt]
    rw [List.take_left' (by simp), List.drop_left' (by simp), mapM_lineFloat_map]
    have c1 : ¬ ((b.order : Int) < 1) := by omega
    have c2 : ¬ ((b.knots.length : Int) < 2 * (b.order : Int)) := by omega
    simp only [mkBasis, c1, c2, h3, if_false, Bool.not_true, Bool.false_eq_true, Int.toNat_natCast, ih]
    cases b
    simp_all

omit [LinearOrder K] in
/-- The coefficient block read back through `reshape(physdim, *ncoeffs[::-1]).transpose()` is the
    control net. -/
theorem splCps_splVals (physdim : ℕ) (shape : List ℕ) (cps : List (List K))
    (hc : cps.length = shape.prod) (hp : ∀ p ∈ cps, p.length = physdim) :
    splCps physdim shape (splVals physdim shape cps) = cps := by
  apply List.ext_getElem
  · simp [splCps, hc]
  · intro pos h1 h2
    have hpos : pos < shape.prod := by simpa [splCps] using h1
    have hlen : (cps[pos]).length = physdim := hp _ (List.getElem_mem h2)
    simp only [splCps, List.getElem_map, List.getElem_range]
    apply List.ext_getElem
    · simp [hlen]
    · intro c hc1 hc2
      have hcp : c < physdim := by simpa using hc1
      simp only [List.getElem_map, List.getElem_range]
      rw [spl_index physdim c (idxOk_length (unravelC_ok shape pos hpos))]
      have hidx : c * shape.prod + ravelF shape (unravelC shape pos) < physdim * shape.prod := by
        have := cToF_lt hpos
        unfold cToF at this
        calc c * shape.prod + ravelF shape (unravelC shape pos) < c * shape.prod + shape.prod := by omega
          _ = (c + 1) * shape.prod := by ring
          _ ≤ physdim * shape.prod := Nat.mul_le_mul_right _ hcp
      unfold splVals
      rw [List.getD_eq_getElem _ _ (by simpa using hidx)]
      simp only [List.getElem_map, List.getElem_range]
      have hN : 0 < shape.prod := by omega
      have hlt := cToF_lt hpos
      unfold cToF at hlt
      have e1 : (c * shape.prod + ravelF shape (unravelC shape pos)) % shape.prod
          = ravelF shape (unravelC shape pos) := by
        rw [Nat.mul_comm, Nat.mul_add_mod, Nat.mod_eq_of_lt hlt]
      have e2 : (c * shape.prod + ravelF shape (unravelC shape pos)) / shape.prod = c := by
        rw [Nat.mul_comm, Nat.mul_add_div hN, Nat.div_eq_of_lt hlt]; simp
      have hfc : fToC shape (ravelF shape (unravelC shape pos)) = pos := fToC_cToF hpos
      have hg : (flattenF shape cps).getD (ravelF shape (unravelC shape pos)) [] = cps[pos] := by
        rw [List.getD_eq_getElem _ _ (by rw [length_flattenF]; exact hlt),
          getElem_flattenF shape cps hc _ hlt]
        simp only [hfc]
      rw [e1, e2, hg]
      exact List.getD_eq_getElem _ _ hc2

/-- `SPL.read` of the file describing a well-formed non-rational object (any extra lines after
    the coefficients are ignored). -/
theorem splRead_lines (tol acc : K) (o : Obj K) (ho : o.WF tol) (hr : o.rational = false)
    (extra : List (List (Token K))) (hx : ∀ l ∈ extra, ∀ t ∈ l, t.isNl = false) :
    splRead tol (linesToToks (splLines acc o ++ extra)) = .ok o := by
  obtain ⟨hpd, hb, hs, hc, hp, hn⟩ := ho
  have hnl : ∀ l ∈ splLines acc o ++ extra, ∀ t ∈ l, t.isNl = false := by
    intro l hl t ht
    rcases List.mem_append.mp hl with hl | hl
    · simp only [splLines, List.mem_append, List.mem_map, List.mem_flatMap, List.mem_cons,
        List.not_mem_nil, or_false] at hl
      rcases hl with ((((rfl | ⟨b, _, rfl⟩) | ⟨b, _, rfl⟩) | rfl) | ⟨b, _, k, _, rfl⟩) | ⟨x, _, rfl⟩ <;>
        (simp at ht; first | (rcases ht with rfl | rfl | rfl | rfl <;> rfl) | (subst ht; rfl))
    · exact hx l hl t ht
  unfold splRead
  rw [splitLines_linesToToks _ _ hnl (by have := length_le_linesToToks (splLines acc o ++ extra); omega)]
  have hpdpos : 1 ≤ o.bases.length := by rcases hpd with h | h | h <;> omega
  have e0 : splLines acc o ++ extra =
      [Token.word "C", Token.int o.bases.length, Token.int o.ncomp, Token.int 0] ::
      (o.bases.map (fun b => [Token.int (K := K) b.order]) ++ (o.bases.map (fun b => [Token.int (K := K) b.numFunctions])
        ++ ([Token.num acc] :: (o.bases.flatMap (fun b => b.knots.map fun k => [Token.num k])
        ++ ((splVals o.ncomp o.shape o.cps).map (fun x => [Token.num x]) ++ extra))))) := by
    simp [splLines]
  rw [e0]
  have c1 : ¬ ((o.bases.length : Int) < 1 ∨ (o.ncomp : Int) < 1) := by omega
  simp only [splHeader, Token.toInt?, c1, if_false, Int.toNat_natCast]
  unfold splBody
  rw [List.take_left' (by simp), List.drop_left' (by simp), List.take_left' (by simp)]
  have m1 := mapM_lineInt_map (K := K) (fun b : IOBasis K => (b.order : Int)) o.bases
  have m2 := mapM_lineInt_map (K := K) (fun b : IOBasis K => (b.numFunctions : Int)) o.bases
  rw [m1, m2]
  simp only [List.length_map, ne_eq, not_true_eq_false, or_self, if_false]
  have hany : ((o.bases.map fun b => (b.numFunctions : Int)).any (· < 0)) = false := by
    rw [List.any_eq_false]
    intro x hx'
    obtain ⟨b, _, rfl⟩ := List.mem_map.mp hx'
    simp
  rw [hany]
  simp only [Bool.false_eq_true, if_false]
  have hdrop : List.drop (2 * o.bases.length)
      (o.bases.map (fun b => [Token.int (K := K) b.order]) ++ (o.bases.map (fun b => [Token.int (K := K) b.numFunctions])
        ++ ([Token.num acc] :: (o.bases.flatMap (fun b => b.knots.map fun k => [Token.num k])
        ++ ((splVals o.ncomp o.shape o.cps).map (fun x => [Token.num x]) ++ extra))))) =
      [Token.num acc] :: (o.bases.flatMap (fun b => b.knots.map fun k => [Token.num k])
        ++ ((splVals o.ncomp o.shape o.cps).map (fun x => [Token.num x]) ++ extra)) := by
    rw [← List.append_assoc]
    exact List.drop_left' (by simp; omega)
  rw [hdrop]
  simp only []
  have hzip : (o.bases.map fun b => (b.order : Int)).zip (o.bases.map fun b => (b.numFunctions : Int)) =
      o.bases.map fun b => ((b.order : Int), (b.numFunctions : Int)) := by
    rw [List.zip_map']
  rw [hzip, splKnots_lines tol o.bases hb]
  simp only []
  have hshape : (o.bases.map fun b => (b.numFunctions : Int)).map Int.toNat = o.shape := by
    rw [hs, List.map_map]
    apply List.map_congr_left
    intro b _
    simp
  rw [hshape]
  have hlen : (splVals o.ncomp o.shape o.cps).length = o.shape.prod * o.ncomp := by
    simp [splVals, Nat.mul_comm]
  rw [← hlen, List.take_left' (by simp), mapM_lineFloat_map]
  simp only [ne_eq, not_true_eq_false, if_false]
  rw [splCps_splVals o.ncomp o.shape o.cps hc hp]
  cases o
  simp_all

end

end Splipy.FileIO
