import Mathlib.Tactic.Ring
import Mathlib.Tactic.Linarith
import Mathlib.Algebra.Order.Floor.Ring
import Mathlib.Algebra.BigOperators.Intervals
import Mathlib.Algebra.Order.BigOperators.Group.Finset
import Splipy.Model.Valid
import Splipy.Lemmas.Basic
import Splipy.Lemmas.Triangle

/-!
# The per-point evaluation `evalRow` / `Basis.evaluate` computes the specification

Helper lemmas for property C01.
-/

namespace Splipy

set_option linter.unusedSectionVars false

variable {K : Type} [Field K] [LinearOrder K] [IsStrictOrderedRing K]

/-! ## Knot accessor and arithmetic facts of a valid basis -/

theorem Basis.kn_of_lt (b : Basis K) {i : ℕ} (h : i < b.knots.size) : b.kn i = b.knots[i] := by
  simp [Basis.kn, Array.getD, h]

theorem Basis.kn_of_ge (b : Basis K) {i : ℕ} (h : b.knots.size ≤ i) :
    b.kn i = b.kn (b.knots.size - 1) := by
  by_cases h0 : b.knots.size = 0
  · simp [Basis.kn, Array.getD, h0]
  · have h1 : ¬ i < b.knots.size := by omega
    have h2 : b.knots.size - 1 < b.knots.size := by omega
    simp [Basis.kn, Array.getD, h1, h2]

theorem Basis.Valid.kn_mono {b : Basis K} (hv : b.Valid) : Monotone b.kn := by
  apply monotone_nat_of_le_succ
  intro n
  by_cases h : n + 1 < b.knots.size
  · exact hv.sorted n h
  · rw [b.kn_of_ge (i := n+1) (by omega)]
    by_cases h' : n < b.knots.size
    · rw [show b.knots.size - 1 = n by omega]
    · rw [b.kn_of_ge (i := n) (by omega)]

theorem Basis.Valid.nAll_add {b : Basis K} (hv : b.Valid) : b.nAll + b.order = b.knots.size := by
  have := hv.size_ge
  unfold Basis.nAll; omega

theorem Basis.Valid.order_le_nAll {b : Basis K} (hv : b.Valid) : b.order ≤ b.nAll := by
  have := hv.size_ge
  unfold Basis.nAll; omega

theorem Basis.Valid.numFunctions_pos {b : Basis K} (hv : b.Valid) : 1 ≤ b.numFunctions := by
  have h1 := hv.size_ge
  have h2 := hv.order_pos
  have h3 := hv.periodic_ge
  have h4 := hv.periodic_le
  unfold Basis.numFunctions; omega

theorem Basis.Valid.numFunctions_le {b : Basis K} (_hv : b.Valid) : b.numFunctions ≤ b.nAll := by
  unfold Basis.numFunctions Basis.nAll; omega

theorem Basis.numFunctions_of_nonperiodic {b : Basis K} (h : b.periodic = -1) :
    b.numFunctions = b.nAll := by
  unfold Basis.numFunctions Basis.nAll; rw [h]; simp

theorem Basis.Valid.order_sub_lt {b : Basis K} (hv : b.Valid) : b.order - 1 < b.knots.size := by
  have h1 := hv.size_ge
  have h2 := hv.order_pos
  omega

theorem Basis.Valid.nAll_lt {b : Basis K} (hv : b.Valid) : b.nAll < b.knots.size := by
  have h1 := hv.size_ge
  have h2 := hv.order_pos
  unfold Basis.nAll; omega

theorem Basis.stop_eq (b : Basis K) : b.stop = b.kn b.nAll := rfl

theorem Basis.start_eq (b : Basis K) : b.start = b.kn (b.order - 1) := rfl

/-! ## Exactness of the tolerance tests -/

/-- `t` is a knot or at least `tol` away from every knot: then `snap` and all `|·| < tol` tests of
the code are exact comparisons. -/
def Basis.ExactAt (b : Basis K) (tol t : K) : Prop :=
  ∀ i, i < b.knots.size → b.kn i = t ∨ tol ≤ |b.kn i - t|

theorem Basis.ExactAt.abs_lt_iff {b : Basis K} {tol t : K} (h : b.ExactAt tol t) (htol : 0 < tol)
    {i : ℕ} (hi : i < b.knots.size) : |b.kn i - t| < tol ↔ b.kn i = t := by
  constructor
  · intro h1
    rcases h i hi with h2 | h2
    · exact h2
    · exact absurd h1 (not_lt.mpr h2)
  · intro h1
    rw [h1, sub_self, abs_zero]; exact htol

theorem Basis.ExactAt.abs_lt_iff' {b : Basis K} {tol t : K} (h : b.ExactAt tol t) (htol : 0 < tol)
    {i : ℕ} (hi : i < b.knots.size) : |t - b.kn i| < tol ↔ t = b.kn i := by
  rw [abs_sub_comm, h.abs_lt_iff htol hi, eq_comm]

omit [Field K] [IsStrictOrderedRing K] in
theorem bisectLeftAux_le (a : ℕ → K) (v : K) (lo hi : ℕ) (hle : lo ≤ hi) :
    bisectLeftAux a v lo hi ≤ hi := by
  fun_induction bisectLeftAux a v lo hi with
  | case1 lo hi h mid hlt ih => exact ih (by omega)
  | case2 lo hi h mid hlt ih => have := ih (by omega); omega
  | case3 lo hi h => exact hle

omit [Field K] [IsStrictOrderedRing K] in
theorem bisectLeft_le (a : ℕ → K) (v : K) (hi : ℕ) : bisectLeft a v hi ≤ hi :=
  bisectLeftAux_le a v 0 hi (Nat.zero_le _)

/-- At an exact point `snap` is the identity. -/
theorem snap_of_exact (b : Basis K) {tol t : K} (htol : 0 < tol) (h : b.ExactAt tol t) :
    snap b tol t = t := by
  unfold snap
  simp only []
  have hle := bisectLeft_le b.kn t b.knots.size
  split_ifs with h1 h2
  · exact (h.abs_lt_iff htol h1.1).mp h1.2
  · exact (h.abs_lt_iff htol (by omega)).mp h2.2
  · rfl

/-- A knot is never moved by `snap` (no exactness needed). -/
theorem snap_knot {b : Basis K} (hv : b.Valid) {tol : K} (htol : 0 < tol) {k : ℕ}
    (hk : k < b.knots.size) : snap b tol (b.kn k) = b.kn k := by
  unfold snap
  simp only []
  obtain ⟨h1, h2, h3⟩ := bisectLeft_spec b.kn hv.kn_mono (b.kn k) b.knots.size
  have hik : bisectLeft b.kn (b.kn k) b.knots.size ≤ k := by
    by_contra hc
    exact absurd (h2 k (by omega)) (lt_irrefl _)
  have heq : b.kn (bisectLeft b.kn (b.kn k) b.knots.size) = b.kn k :=
    le_antisymm (hv.kn_mono hik) (h3 _ le_rfl (by omega))
  rw [if_pos ⟨by omega, by rw [heq, sub_self, abs_zero]; exact htol⟩, heq]

/-- Distinct knot values are at least `tol` apart (true for every sensible knot vector and the
default `knot_tolerance = 1e-10`).  Then every snapped parameter is exact. -/
def Basis.Separated (b : Basis K) (tol : K) : Prop :=
  ∀ i j, i < b.knots.size → j < b.knots.size → b.kn i = b.kn j ∨ tol ≤ |b.kn i - b.kn j|

theorem exactAt_snap {b : Basis K} (hv : b.Valid) {tol : K} (hsep : b.Separated tol) (t : K) :
    b.ExactAt tol (snap b tol t) := by
  have hmono := hv.kn_mono
  obtain ⟨a1, a2, a3⟩ := bisectLeft_spec b.kn hmono t b.knots.size
  unfold snap
  simp only []
  set i := bisectLeft b.kn t b.knots.size with hi
  split_ifs with h1 h2
  · intro j hj
    exact hsep j i hj h1.1
  · intro j hj
    exact hsep j (i - 1) hj (by omega)
  · intro j hj
    right
    by_cases hji : j < i
    · have e1 : b.kn j ≤ b.kn (i - 1) := hmono (by omega)
      have e2 : b.kn (i - 1) < t := a2 (i - 1) (by omega)
      have e3 : ¬ |b.kn (i - 1) - t| < tol := fun h => h2 ⟨by omega, h⟩
      rw [abs_of_neg (by linarith), not_lt] at e3
      rw [abs_of_neg (by linarith)]
      linarith
    · have hiN : i < b.knots.size := by omega
      have e1 : b.kn i ≤ b.kn j := hmono (by omega)
      have e2 : t ≤ b.kn i := a3 i le_rfl hiN
      have e3 : ¬ |b.kn i - t| < tol := fun h => h1 ⟨hiN, h⟩
      rw [abs_of_nonneg (by linarith), not_lt] at e3
      rw [abs_of_nonneg (by linarith)]
      linarith

/-! ## Decomposition of `evalRow` into wrap + per-point evaluation -/

/-- The periodic wrap at the top of `basis_eval.evaluate` (identity for non-periodic bases). -/
def wrapT [FloorRing K] (b : Basis K) (tol : K) (fromRight : Bool) (t0 : K) : K :=
  if b.periodic ≥ 0 then
    let w := if t0 < b.kn (b.order - 1) ∨ t0 > b.kn b.nAll then
        pmod (t0 - b.kn (b.order - 1)) (b.kn b.nAll - b.kn (b.order - 1)) + b.kn (b.order - 1)
      else t0
    if |w - b.kn (b.order - 1)| < tol ∧ !fromRight then b.kn b.nAll else w
  else t0

/-- The row produced for span index data `mu` (the part after `mu = min(mu, n_all)`). -/
def rowAt (b : Basis K) (d : ℕ) (s : Side) (t1 : K) : Row K :=
  let mu0 := match s with
    | .right => bisectRight b.kn t1 (b.nAll + b.order)
    | .left => bisectLeft b.kn t1 (b.nAll + b.order)
  let mu := min mu0 b.nAll
  { data := triangle b.kn b.order mu d t1,
    idx := Array.ofFn (n := b.order) (fun j => (mu - b.order + j.val) % b.numFunctions) }

/-- The all-zero row left behind by `continue`. -/
def zeroRow (K : Type) [Zero K] (p : ℕ) : Row K :=
  { data := Array.replicate p 0, idx := Array.replicate p 0 }

/-- The main-loop body of `basis_eval.evaluate` for an already wrapped point. -/
def evalAt (b : Basis K) (tol : K) (d : ℕ) (fromRight : Bool) (t1 : K) : Row K :=
  let right := if |t1 - b.kn b.nAll| < tol then false else fromRight
  if t1 < b.kn (b.order - 1) ∨ t1 > b.kn b.nAll ∨ (|t1 - b.kn (b.order - 1)| < tol ∧ !right) then
    zeroRow K b.order
  else
    rowAt b d (if right then .right else .left) t1

theorem evalRow_eq [FloorRing K] (b : Basis K) (tol : K) (d : ℕ) (fromRight : Bool) (t0 : K) :
    evalRow b tol d fromRight t0 = evalAt b tol d fromRight (wrapT b tol fromRight t0) := by
  unfold evalRow evalAt wrapT rowAt zeroRow
  simp only []
  split_ifs <;> rfl

/-! ## Characterisation of the span index `mu` -/

/-- The bisect result clipped by `n_all`. -/
def muOf (b : Basis K) (s : Side) (t1 : K) : ℕ :=
  min (match s with
    | .right => bisectRight b.kn t1 (b.nAll + b.order)
    | .left => bisectLeft b.kn t1 (b.nAll + b.order)) b.nAll

theorem muOf_spec {b : Basis K} (hv : b.Valid) (s : Side) (t1 : K)
    (h1 : b.start ≤ t1) (h2 : t1 ≤ b.stop)
    (hr : s = .right → t1 < b.stop) (hl : s = .left → b.start < t1) :
    b.order ≤ muOf b s t1 ∧ muOf b s t1 ≤ b.nAll ∧
      triIn s (b.kn (muOf b s t1 - 1)) (b.kn (muOf b s t1)) t1 := by
  have hmono := hv.kn_mono
  have hsz := hv.nAll_add
  have hp := hv.order_pos
  have hn := hv.nAll_lt
  have hpn := hv.order_le_nAll
  rw [b.start_eq] at h1 hl
  rw [b.stop_eq] at h2 hr
  unfold muOf
  cases s with
  | right =>
    have hr' := hr rfl
    simp only []
    obtain ⟨a1, a2, a3⟩ := bisectRight_spec b.kn hmono t1 (b.nAll + b.order)
    set m := bisectRight b.kn t1 (b.nAll + b.order) with hm
    have hpm : b.order ≤ m := by
      by_contra hc
      exact absurd (a3 (b.order - 1) (by omega) (by omega)) (not_lt.mpr h1)
    have hmn : m ≤ b.nAll := by
      by_contra hc
      exact absurd (a2 b.nAll (by omega)) (not_le.mpr hr')
    rw [min_eq_left hmn]
    exact ⟨hpm, hmn, a2 (m - 1) (by omega), a3 m le_rfl (by omega)⟩
  | left =>
    have hl' := hl rfl
    simp only []
    obtain ⟨a1, a2, a3⟩ := bisectLeft_spec b.kn hmono t1 (b.nAll + b.order)
    set m := bisectLeft b.kn t1 (b.nAll + b.order) with hm
    have hpm : b.order ≤ m := by
      by_contra hc
      exact absurd (a3 (b.order - 1) (by omega) (by omega)) (not_le.mpr hl')
    have hmn : m ≤ b.nAll := by
      by_contra hc
      exact absurd (a2 b.nAll (by omega)) (not_lt.mpr h2)
    rw [min_eq_left hmn]
    exact ⟨hpm, hmn, a2 (m - 1) (by omega), a3 m le_rfl (by omega)⟩

/-! ## `Row.toDense` as a finite sum -/

omit [LinearOrder K] [IsStrictOrderedRing K] in
theorem foldl_range_cond_sum (P : ℕ → Prop) [DecidablePred P] (g : ℕ → K) (m : ℕ) :
    (List.range m).foldl (fun acc j => if P j then acc + g j else acc) 0
      = ∑ j ∈ Finset.range m, if P j then g j else 0 := by
  induction m with
  | zero => simp
  | succ m ih =>
    rw [List.range_succ, List.foldl_append, ih, Finset.sum_range_succ]
    by_cases h : P m <;> simp [h]

omit [LinearOrder K] [IsStrictOrderedRing K] in
theorem toDense_size (r : Row K) (n : ℕ) : (r.toDense n).size = n := by
  simp [Row.toDense]

omit [LinearOrder K] [IsStrictOrderedRing K] in
theorem toDense_getD (r : Row K) (n c : ℕ) (hc : c < n) :
    (r.toDense n).getD c 0
      = ∑ j ∈ Finset.range r.data.size, if r.idx.getD j 0 = c then r.data.getD j 0 else 0 := by
  rw [← foldl_range_cond_sum]
  simp [Row.toDense, Array.getD, hc]

omit [LinearOrder K] [IsStrictOrderedRing K] in
theorem toDense_getD_of_ge (r : Row K) (n c : ℕ) (hc : n ≤ c) : (r.toDense n).getD c 0 = 0 := by
  have : ¬ c < n := by omega
  simp [Row.toDense, Array.getD, this]

omit [LinearOrder K] [IsStrictOrderedRing K] in
theorem toDense_zeroRow (p n : ℕ) : (zeroRow K p).toDense n = Array.replicate n 0 := by
  apply Array.ext
  · simp [toDense_size]
  · intro i h1 h2
    rw [toDense_size] at h1
    have e1 := toDense_getD (zeroRow K p) n i h1
    have e2 : ((zeroRow K p).toDense n).getD i 0 = ((zeroRow K p).toDense n)[i] := by
      simp [Array.getD, toDense_size, h1]
    rw [← e2, e1]
    simp only [Array.getElem_replicate]
    apply Finset.sum_eq_zero
    intro j hj
    have hj' : j < p := by simpa [zeroRow] using hj
    simp [zeroRow, Array.getD, hj']

/-! ## The dense row of `rowAt` is the sum of wrapped images of the specification -/

theorem rowAt_eq (b : Basis K) (d : ℕ) (s : Side) (t1 : K) :
    rowAt b d s t1 = Row.mk (triangle b.kn b.order (muOf b s t1) d t1)
      (Array.ofFn (n := b.order)
        (fun j => (muOf b s t1 - b.order + j.val) % b.numFunctions)) := rfl

/-- Outside the `p` active indices the specification vanishes. -/
theorem dB_eq_zero_of_triIn (s : Side) (τ : ℕ → K) (hτ : Monotone τ) (q mu i e : ℕ) (t : K)
    (hspan : triIn s (τ (mu - 1)) (τ mu) t) (hi : i + q + 1 < mu ∨ mu ≤ i) :
    dB s τ q i e t = 0 := by
  apply tri_dB_supp s τ hτ
  rcases hi with hi | hi
  · exact triOut_mono (triIn_out_below hspan (τ i)) le_rfl (hτ (by omega))
  · exact triOut_mono (triIn_out_above hspan (τ (i + q + 1))) (hτ hi) le_rfl

theorem sum_active_eq (f : ℕ → K) (p mu N : ℕ) (hp : p ≤ mu) (hN : mu ≤ N)
    (hf : ∀ i, i < mu - p ∨ mu ≤ i → f i = 0) :
    ∑ j ∈ Finset.range p, f (mu - p + j) = ∑ i ∈ Finset.range N, f i := by
  have h1 : ∑ i ∈ Finset.range N, f i = ∑ i ∈ Finset.Ico (mu - p) mu, f i := by
    symm
    apply Finset.sum_subset
    · intro i hi
      rw [Finset.mem_Ico] at hi
      exact Finset.mem_range.mpr (by omega)
    · intro i hi hni
      rw [Finset.mem_Ico] at hni
      apply hf
      omega
  rw [h1, Finset.sum_Ico_eq_sum_range]
  rw [show mu - (mu - p) = p by omega]

theorem rowAt_toDense_getD {b : Basis K} (hv : b.Valid) {d : ℕ} (hd : d < b.order) (s : Side)
    (t1 : K) (h1 : b.start ≤ t1) (h2 : t1 ≤ b.stop)
    (hr : s = .right → t1 < b.stop) (hl : s = .left → b.start < t1)
    {c : ℕ} (hc : c < b.numFunctions) :
    ((rowAt b d s t1).toDense b.numFunctions).getD c 0
      = ∑ i ∈ (Finset.range b.nAll).filter (fun i => i % b.numFunctions = c),
          dB s b.kn (b.order - 1) i d t1 := by
  obtain ⟨m1, m2, m3⟩ := muOf_spec hv s t1 h1 h2 hr hl
  have hmono := hv.kn_mono
  have hp := hv.order_pos
  rw [toDense_getD _ _ _ hc, rowAt_eq]
  simp only [triangle_size]
  rw [Finset.sum_filter]
  have key : ∀ j ∈ Finset.range b.order,
      (if (Array.ofFn (n := b.order)
            (fun j => (muOf b s t1 - b.order + j.val) % b.numFunctions)).getD j 0 = c
        then (triangle b.kn b.order (muOf b s t1) d t1).getD j 0 else 0)
      = (fun i => if i % b.numFunctions = c then dB s b.kn (b.order - 1) i d t1 else 0)
          (muOf b s t1 - b.order + j) := by
    intro j hj
    rw [Finset.mem_range] at hj
    have e1 : (Array.ofFn (n := b.order)
        (fun j => (muOf b s t1 - b.order + j.val) % b.numFunctions)).getD j 0
        = (muOf b s t1 - b.order + j) % b.numFunctions := by
      simp [Array.getD, hj]
    rw [e1, triangle_side s b.kn hmono b.order (muOf b s t1) d t1 hp hd m1 m3 j hj]
  rw [Finset.sum_congr rfl key]
  apply sum_active_eq
    (fun i => if i % b.numFunctions = c then dB s b.kn (b.order - 1) i d t1 else 0) _ _ _ m1 m2
  intro i hi
  rw [dB_eq_zero_of_triIn s b.kn hmono (b.order - 1) (muOf b s t1) i d t1 m3 (by omega)]
  simp

/-! ## The effective point / side and the branches of `evalAt` -/

/-- The side actually evaluated at a point of `[start, stop]`: at the domain end always the limit
from inside. -/
def effSide (b : Basis K) (t : K) (fromRight : Bool) : Side :=
  if t = b.stop then .left else (if fromRight then .right else .left)

/-- For periodic bases: the effective point and side.  The left limit at the seam `start` is the
left limit at the domain end `stop`. -/
def periodicEff (b : Basis K) (t : K) (fromRight : Bool) : K × Side :=
  if t = b.start ∧ fromRight = false then (b.stop, .left) else (t, effSide b t fromRight)

theorem evalAt_outside (b : Basis K) (tol : K) (d : ℕ) (fromRight : Bool) {t1 : K}
    (h : t1 < b.start ∨ b.stop < t1) : evalAt b tol d fromRight t1 = zeroRow K b.order := by
  unfold evalAt
  simp only []
  rw [if_pos]
  rcases h with h | h
  · exact Or.inl h
  · exact Or.inr (Or.inl h)

theorem evalAt_start_left (b : Basis K) {tol : K} (htol : 0 < tol) (d : ℕ) :
    evalAt b tol d false b.start = zeroRow K b.order := by
  unfold evalAt
  simp only []
  rw [if_pos]
  right; right
  refine ⟨?_, ?_⟩
  · rw [show b.start - b.kn (b.order - 1) = 0 from sub_self _, abs_zero]; exact htol
  · split_ifs <;> rfl

theorem evalAt_inside {b : Basis K} (hv : b.Valid) {tol : K} (htol : 0 < tol) (d : ℕ)
    (fromRight : Bool) {t1 : K}
    (hS : t1 = b.start ∨ tol ≤ |t1 - b.start|) (hE : t1 = b.stop ∨ tol ≤ |t1 - b.stop|)
    (h1 : b.start ≤ t1) (h2 : t1 ≤ b.stop) (hnot : ¬ (t1 = b.start ∧ fromRight = false)) :
    evalAt b tol d fromRight t1 = rowAt b d (effSide b t1 fromRight) t1 := by
  have hlt := hv.start_lt_stop
  have hSiff : |t1 - b.kn (b.order - 1)| < tol ↔ t1 = b.start := by
    constructor
    · intro h
      rcases hS with hS | hS
      · exact hS
      · exact absurd h (not_lt.mpr hS)
    · intro h
      rw [h, show b.start - b.kn (b.order - 1) = 0 from sub_self _, abs_zero]; exact htol
  have hEiff : |t1 - b.kn b.nAll| < tol ↔ t1 = b.stop := by
    constructor
    · intro h
      rcases hE with hE | hE
      · exact hE
      · exact absurd h (not_lt.mpr hE)
    · intro h
      rw [h, show b.stop - b.kn b.nAll = 0 from sub_self _, abs_zero]; exact htol
  unfold evalAt effSide
  simp only [hSiff, hEiff]
  have hc : ¬ (t1 < b.kn (b.order - 1) ∨ t1 > b.kn b.nAll ∨
      (t1 = b.start ∧ (!(if t1 = b.stop then false else fromRight)) = true)) := by
    rintro (h | h | ⟨h3, h4⟩)
    · exact absurd h1 (not_le.mpr h)
    · exact absurd h2 (not_le.mpr h)
    · have hne : t1 ≠ b.stop := by rw [h3]; exact ne_of_lt hlt
      rw [if_neg hne] at h4
      exact hnot ⟨h3, by simpa using h4⟩
  rw [if_neg hc]
  by_cases hst : t1 = b.stop
  · simp [hst]
  · simp [hst]

theorem effSide_spec {b : Basis K} (hv : b.Valid) {t : K} {fromRight : Bool}
    (h1 : b.start ≤ t) (h2 : t ≤ b.stop) (hnot : ¬ (t = b.start ∧ fromRight = false)) :
    (effSide b t fromRight = .right → t < b.stop) ∧
    (effSide b t fromRight = .left → b.start < t) := by
  have hlt := hv.start_lt_stop
  unfold effSide
  by_cases hst : t = b.stop
  · simp only [hst, if_true]
    exact ⟨fun h => (by cases h), fun _ => hlt⟩
  · simp only [hst, if_false]
    cases fromRight with
    | true =>
      simp only [if_true]
      exact ⟨fun _ => lt_of_le_of_ne h2 hst, fun h => (by cases h)⟩
    | false =>
      refine ⟨fun h => by simp at h, fun _ => lt_of_le_of_ne h1 ?_⟩
      intro h
      exact hnot ⟨h.symm, rfl⟩

/-- Dense row of the main-loop body at a point of the domain: the sum of all wrapped images of the
specification B-spline (derivative), one-sided according to `effSide`. -/
theorem evalAt_toDense_inside {b : Basis K} (hv : b.Valid) {tol : K} (htol : 0 < tol) {d : ℕ}
    (hd : d < b.order) (fromRight : Bool) {t1 : K}
    (hS : t1 = b.start ∨ tol ≤ |t1 - b.start|) (hE : t1 = b.stop ∨ tol ≤ |t1 - b.stop|)
    (h1 : b.start ≤ t1) (h2 : t1 ≤ b.stop) (hnot : ¬ (t1 = b.start ∧ fromRight = false))
    {c : ℕ} (hc : c < b.numFunctions) :
    ((evalAt b tol d fromRight t1).toDense b.numFunctions).getD c 0
      = ∑ i ∈ (Finset.range b.nAll).filter (fun i => i % b.numFunctions = c),
          dB (effSide b t1 fromRight) b.kn (b.order - 1) i d t1 := by
  obtain ⟨hr, hl⟩ := effSide_spec hv h1 h2 hnot
  rw [evalAt_inside hv htol d fromRight hS hE h1 h2 hnot]
  exact rowAt_toDense_getD hv hd _ t1 h1 h2 hr hl hc

omit [LinearOrder K] [IsStrictOrderedRing K] in
theorem sum_filter_mod_self (f : ℕ → K) (N c : ℕ) (hc : c < N) :
    ∑ i ∈ (Finset.range N).filter (fun i => i % N = c), f i = f c := by
  apply Finset.sum_eq_single_of_mem c
  · rw [Finset.mem_filter, Finset.mem_range]
    exact ⟨hc, Nat.mod_eq_of_lt hc⟩
  · intro j hj hne
    rw [Finset.mem_filter, Finset.mem_range] at hj
    rw [Nat.mod_eq_of_lt hj.1] at hj
    exact absurd hj.2 hne

theorem Basis.ExactAt.start {b : Basis K} {tol t : K} (h : b.ExactAt tol t) (hv : b.Valid) :
    t = b.start ∨ tol ≤ |t - b.start| := by
  rcases h (b.order - 1) hv.order_sub_lt with h | h
  · exact Or.inl h.symm
  · right; rw [abs_sub_comm]; exact h

theorem Basis.ExactAt.stop {b : Basis K} {tol t : K} (h : b.ExactAt tol t) (hv : b.Valid) :
    t = b.stop ∨ tol ≤ |t - b.stop| := by
  rcases h b.nAll hv.nAll_lt with h | h
  · exact Or.inl h.symm
  · right; rw [abs_sub_comm]; exact h

/-! ## Periodic wrap -/

section Wrap

variable [FloorRing K]

theorem pmod_add_int_mul (x y : K) (m : ℤ) (hy : y ≠ 0) : pmod (x + m * y) y = pmod x y := by
  unfold pmod
  have e : (x + m * y) / y = x / y + m := by
    field_simp
  rw [e, Int.floor_add_intCast]
  push_cast
  ring

theorem pmod_eq_fract (x y : K) (hy : y ≠ 0) : pmod x y = Int.fract (x / y) * y := by
  unfold pmod
  rw [← Int.self_sub_floor]
  field_simp

theorem pmod_nonneg (x y : K) (hy : 0 < y) : 0 ≤ pmod x y := by
  rw [pmod_eq_fract x y hy.ne']
  exact mul_nonneg (Int.fract_nonneg _) hy.le

theorem pmod_lt (x y : K) (hy : 0 < y) : pmod x y < y := by
  rw [pmod_eq_fract x y hy.ne']
  calc Int.fract (x / y) * y < 1 * y := mul_lt_mul_of_pos_right (Int.fract_lt_one _) hy
    _ = y := one_mul y

theorem pmod_of_mem (x y : K) (h0 : 0 ≤ x) (hxy : x < y) : pmod x y = x := by
  have hy : 0 < y := lt_of_le_of_lt h0 hxy
  unfold pmod
  have : ⌊x / y⌋ = 0 := by
    rw [Int.floor_eq_zero_iff]
    exact ⟨div_nonneg h0 hy.le, (div_lt_one hy).mpr hxy⟩
  rw [this]; simp

/-- The wrap of an arbitrary real parameter into the domain of a periodic basis. -/
def Basis.wrap (b : Basis K) (u : K) : K :=
  if u < b.start ∨ u > b.stop then pmod (u - b.start) (b.stop - b.start) + b.start else u

theorem wrapT_nonperiodic {b : Basis K} (h : b.periodic = -1) (tol : K) (fromRight : Bool)
    (t0 : K) : wrapT b tol fromRight t0 = t0 := by
  unfold wrapT
  rw [if_neg (by rw [h]; decide)]

theorem wrapT_periodic {b : Basis K} (h : 0 ≤ b.periodic) (tol : K) (fromRight : Bool) (t0 : K) :
    wrapT b tol fromRight t0
      = if |b.wrap t0 - b.start| < tol ∧ (!fromRight) = true then b.stop else b.wrap t0 := by
  unfold wrapT
  rw [if_pos h]
  rfl

theorem Basis.wrap_of_mem (b : Basis K) {u : K} (h1 : b.start ≤ u) (h2 : u ≤ b.stop) :
    b.wrap u = u := by
  unfold Basis.wrap
  rw [if_neg]
  rintro (h | h)
  · exact absurd h1 (not_le.mpr h)
  · exact absurd h2 (not_le.mpr h)

theorem Basis.wrap_eq_pmod {b : Basis K} (_hv : b.Valid) {u : K} (hu : u ≠ b.stop) :
    b.wrap u = pmod (u - b.start) (b.stop - b.start) + b.start := by
  unfold Basis.wrap
  split_ifs with h
  · rfl
  · rw [not_or, not_lt, not_lt] at h
    rw [pmod_of_mem _ _ (sub_nonneg.mpr h.1)
      (sub_lt_sub_right (lt_of_le_of_ne h.2 hu) _)]
    ring

theorem Basis.wrap_mem {b : Basis K} (hv : b.Valid) (u : K) :
    b.start ≤ b.wrap u ∧ b.wrap u ≤ b.stop := by
  have hT : 0 < b.stop - b.start := sub_pos.mpr hv.start_lt_stop
  unfold Basis.wrap
  split_ifs with h
  · have a1 := pmod_nonneg (u - b.start) _ hT
    have a2 := pmod_lt (u - b.start) _ hT
    constructor <;> linarith
  · rw [not_or, not_lt, not_lt] at h
    exact h

theorem Basis.wrap_wrap {b : Basis K} (hv : b.Valid) (u : K) : b.wrap (b.wrap u) = b.wrap u :=
  b.wrap_of_mem (b.wrap_mem hv u).1 (b.wrap_mem hv u).2

/-- Shifting by whole periods does not change the wrapped point (away from the domain end, which
is the one point of `[start, stop]` that is not its own canonical representative). -/
theorem Basis.wrap_add_int_mul {b : Basis K} (hv : b.Valid) (u : K) (m : ℤ)
    (h1 : u ≠ b.stop) (h2 : u + m * (b.stop - b.start) ≠ b.stop) :
    b.wrap (u + m * (b.stop - b.start)) = b.wrap u := by
  have hT : b.stop - b.start ≠ 0 := (sub_pos.mpr hv.start_lt_stop).ne'
  rw [Basis.wrap_eq_pmod hv h1, Basis.wrap_eq_pmod hv h2]
  rw [show u + m * (b.stop - b.start) - b.start = (u - b.start) + m * (b.stop - b.start) by ring,
    pmod_add_int_mul _ _ _ hT]

/-! ## `periodicEff` -/

omit [FloorRing K] in
theorem periodicEff_spec {b : Basis K} (hv : b.Valid) {tol t : K}
    (hex : b.ExactAt tol t) (fromRight : Bool) (h1 : b.start ≤ t) (h2 : t ≤ b.stop) :
    ((periodicEff b t fromRight).1 = b.start ∨ tol ≤ |(periodicEff b t fromRight).1 - b.start|) ∧
    ((periodicEff b t fromRight).1 = b.stop ∨ tol ≤ |(periodicEff b t fromRight).1 - b.stop|) ∧
    b.start ≤ (periodicEff b t fromRight).1 ∧ (periodicEff b t fromRight).1 ≤ b.stop ∧
    ¬ ((periodicEff b t fromRight).1 = b.start ∧ fromRight = false) ∧
    effSide b (periodicEff b t fromRight).1 fromRight = (periodicEff b t fromRight).2 := by
  have hlt := hv.start_lt_stop
  unfold periodicEff
  by_cases hA : t = b.start ∧ fromRight = false
  · rw [if_pos hA]
    refine ⟨?_, Or.inl rfl, hlt.le, le_rfl, ?_, ?_⟩
    · rcases hex b.nAll hv.nAll_lt with h | h
      · rw [hA.1] at h
        exact absurd h.symm (ne_of_lt hlt)
      · right; rw [hA.1] at h; exact h
    · rintro ⟨h, _⟩
      exact absurd h.symm (ne_of_lt hlt)
    · unfold effSide; rw [if_pos rfl]
  · rw [if_neg hA]
    exact ⟨hex.start hv, hex.stop hv, h1, h2, hA, rfl⟩

theorem wrapT_periodic_inside {b : Basis K} (hv : b.Valid) (hper : 0 ≤ b.periodic) {tol t : K}
    (htol : 0 < tol) (hex : b.ExactAt tol t) (fromRight : Bool)
    (h1 : b.start ≤ t) (h2 : t ≤ b.stop) :
    wrapT b tol fromRight t = (periodicEff b t fromRight).1 := by
  rw [wrapT_periodic hper, b.wrap_of_mem h1 h2]
  unfold periodicEff
  have hiff : |t - b.start| < tol ↔ t = b.start := hex.abs_lt_iff' htol hv.order_sub_lt
  by_cases hA : t = b.start ∧ fromRight = false
  · rw [if_pos hA, if_pos ⟨hiff.mpr hA.1, by rw [hA.2]; rfl⟩]
  · rw [if_neg hA, if_neg]
    rintro ⟨h3, h4⟩
    exact hA ⟨hiff.mp h3, by simpa using h4⟩

/-! ## `Basis.evaluate` in terms of `evalAt` -/

theorem evaluate_size (b : Basis K) (tol t : K) (d : ℕ) (fromRight : Bool) :
    (b.evaluate tol t d fromRight).size = b.numFunctions := by
  unfold Basis.evaluate
  simp only []
  split_ifs
  · simp
  · exact toDense_size _ _

theorem evaluate_getD_of_ge (b : Basis K) (tol t : K) (d : ℕ) (fromRight : Bool) {c : ℕ}
    (hc : b.numFunctions ≤ c) : (b.evaluate tol t d fromRight).getD c 0 = 0 := by
  have : ¬ c < (b.evaluate tol t d fromRight).size := by rw [evaluate_size]; omega
  simp [Array.getD, this]

theorem evaluate_of_exact (b : Basis K) {tol t : K} (htol : 0 < tol) (hex : b.ExactAt tol t)
    {d : ℕ} (hd : d < b.order) (fromRight : Bool) :
    b.evaluate tol t d fromRight
      = (evalAt b tol d fromRight (wrapT b tol fromRight t)).toDense b.numFunctions := by
  unfold Basis.evaluate
  simp only []
  rw [if_neg (by omega), snap_of_exact b htol hex, evalRow_eq]

/-- For separated knots, evaluating at `t` is evaluating at the (exact) snapped parameter. -/
theorem evaluate_snap {b : Basis K} (hv : b.Valid) {tol : K} (htol : 0 < tol)
    (hsep : b.Separated tol) (t : K) (d : ℕ) (fromRight : Bool) :
    b.evaluate tol t d fromRight = b.evaluate tol (snap b tol t) d fromRight := by
  unfold Basis.evaluate
  simp only []
  rw [snap_of_exact b htol (exactAt_snap hv hsep t)]

theorem evaluate_high (b : Basis K) (tol t : K) {d : ℕ} (hd : b.order ≤ d) (fromRight : Bool) :
    b.evaluate tol t d fromRight = Array.replicate b.numFunctions 0 := by
  unfold Basis.evaluate
  simp only []
  rw [if_pos hd]

/-- Evaluation of a periodic basis at an arbitrary real equals evaluation at the wrapped point. -/
theorem evaluate_wrap {b : Basis K} (hv : b.Valid) (hper : 0 ≤ b.periodic) {tol u : K}
    (htol : 0 < tol) (hex : b.ExactAt tol u) (hexw : b.ExactAt tol (b.wrap u))
    (d : ℕ) (fromRight : Bool) :
    b.evaluate tol u d fromRight = b.evaluate tol (b.wrap u) d fromRight := by
  by_cases hd : b.order ≤ d
  · rw [evaluate_high b tol u hd, evaluate_high b tol _ hd]
  · rw [evaluate_of_exact b htol hex (by omega), evaluate_of_exact b htol hexw (by omega),
      wrapT_periodic hper, wrapT_periodic hper, b.wrap_wrap hv]

theorem evaluate_add_int_mul {b : Basis K} (hv : b.Valid) (hper : 0 ≤ b.periodic) {tol t : K}
    (htol : 0 < tol) (m : ℤ) (hex : b.ExactAt tol t)
    (hex' : b.ExactAt tol (t + m * (b.stop - b.start)))
    (h1 : t ≠ b.stop) (h2 : t + m * (b.stop - b.start) ≠ b.stop) (d : ℕ) (fromRight : Bool) :
    b.evaluate tol (t + m * (b.stop - b.start)) d fromRight = b.evaluate tol t d fromRight := by
  by_cases hd : b.order ≤ d
  · rw [evaluate_high b tol _ hd, evaluate_high b tol _ hd]
  · rw [evaluate_of_exact b htol hex (by omega), evaluate_of_exact b htol hex' (by omega),
      wrapT_periodic hper, wrapT_periodic hper, b.wrap_add_int_mul hv t m h1 h2]

end Wrap

/-! ## Non-negativity and partition of unity at the `evalAt` level -/

theorem getD_replicate_zero (n c : ℕ) : (Array.replicate n (0 : K)).getD c 0 = 0 := by
  by_cases h : c < n <;> simp [Array.getD, h]

theorem evalAt_toDense_nonneg {b : Basis K} (hv : b.Valid) {tol : K} (htol : 0 < tol)
    (hpos : 0 < b.order) (fromRight : Bool) {t1 : K}
    (hS : t1 = b.start ∨ tol ≤ |t1 - b.start|) (hE : t1 = b.stop ∨ tol ≤ |t1 - b.stop|)
    (c : ℕ) : 0 ≤ ((evalAt b tol 0 fromRight t1).toDense b.numFunctions).getD c 0 := by
  by_cases hc : c < b.numFunctions
  · by_cases hout : t1 < b.start ∨ b.stop < t1
    · rw [evalAt_outside b tol 0 fromRight hout, toDense_zeroRow, getD_replicate_zero]
    · rw [not_or, not_lt, not_lt] at hout
      by_cases hA : t1 = b.start ∧ fromRight = false
      · rw [hA.1, hA.2, evalAt_start_left b htol, toDense_zeroRow, getD_replicate_zero]
      · rw [evalAt_toDense_inside hv htol hpos fromRight hS hE hout.1 hout.2 hA hc]
        apply Finset.sum_nonneg
        intro i _
        rw [dB_zero]
        exact B_nonneg _ _ hv.kn_mono _ _ _
  · rw [toDense_getD_of_ge _ _ _ (by omega)]

theorem evalAt_toDense_partition {b : Basis K} (hv : b.Valid) {tol : K} (htol : 0 < tol)
    (fromRight : Bool) {t1 : K}
    (hS : t1 = b.start ∨ tol ≤ |t1 - b.start|) (hE : t1 = b.stop ∨ tol ≤ |t1 - b.stop|)
    (h1 : b.start ≤ t1) (h2 : t1 ≤ b.stop) (hnot : ¬ (t1 = b.start ∧ fromRight = false)) :
    ∑ c ∈ Finset.range b.numFunctions,
      ((evalAt b tol 0 fromRight t1).toDense b.numFunctions).getD c 0 = 1 := by
  have hp := hv.order_pos
  have hn := hv.numFunctions_pos
  have key : ∀ c ∈ Finset.range b.numFunctions,
      ((evalAt b tol 0 fromRight t1).toDense b.numFunctions).getD c 0
      = ∑ i ∈ (Finset.range b.nAll).filter (fun i => i % b.numFunctions = c),
          B (effSide b t1 fromRight) b.kn (b.order - 1) i t1 := by
    intro c hc
    rw [evalAt_toDense_inside hv htol (by omega) fromRight hS hE h1 h2 hnot
      (Finset.mem_range.mp hc)]
    exact Finset.sum_congr rfl (fun i _ => dB_zero _ _ _ _ _)
  rw [Finset.sum_congr rfl key,
    Finset.sum_fiberwise_of_maps_to (g := fun i => i % b.numFunctions)
      (fun i _ => Finset.mem_range.mpr (Nat.mod_lt _ (by omega)))]
  obtain ⟨hr, hl⟩ := effSide_spec hv h1 h2 hnot
  obtain ⟨m1, m2, m3⟩ := muOf_spec hv (effSide b t1 fromRight) t1 h1 h2 hr hl
  set mu := muOf b (effSide b t1 fromRight) t1 with hmu
  apply B_sum_range_eq_one _ b.kn hv.kn_mono (b.order - 1) (mu - 1) b.nAll (by omega) (by omega)
  rw [show mu - 1 + 1 = mu by omega]
  revert m3
  cases effSide b t1 fromRight <;> exact fun h => h

end Splipy
