import Splipy.Lemmas.C15SurfaceEdges
import Splipy.Lemmas.BridgeTransfer

/-!
# From homogeneous component maps (`C06.toTP`) to `Obj.evaluate`

`Bridge.eval_curve / eval_surface` (C02 in `IsEval` form) express every entry of the array returned
by `Obj.evaluate` through the homogeneous sums `Bridge.num`; for non-periodic directions these sums
are `(toTP o m comp).eval` at the effective sides (`effSide`: from the right, at the domain end from
the left).  Hence equal component maps give equal `evaluate` results — for rational objects the
quotient by the weight component included (`IsEval.data_eq`).
-/

set_option linter.unusedSectionVars false

namespace Splipy
namespace C15

open C06 C12 Obj Basis Finset Bridge

variable {K : Type} [Field K] [LinearOrder K] [IsStrictOrderedRing K] [FloorRing K]

theorem bases_eq_one {o : Obj K} (hw : C06.WF o 1) : o.bases = #[o.basis 0] := by
  apply Array.ext'
  rw [bases_of_size_one hw.size]

theorem bases_eq_two {o : Obj K} (hw : C06.WF o 2) : o.bases = #[o.basis 0, o.basis 1] := by
  apply Array.ext'
  rw [bases_of_size_two hw.size]

/-- The homogeneous sum of a curve at `u` is the component map at the effective side. -/
theorem num_curve {o : Obj K} (hw : C06.WF o 1) (hper : (o.basis 0).periodic = -1) (comp : ℕ) (u : K) :
    Bridge.num o.cps (o.basis 0).numFunctions o.ncomp ((o.basis 0).specRow u) comp
      = (toTP o 1 comp).eval (fun _ => effSide (o.basis 0) u true) (fun _ => u) := by
  rw [toTP_eval_curve_sum hw hper]
  unfold Bridge.num
  apply Finset.sum_congr rfl
  intro k _
  rw [Basis.specRow_nonperiodic hper, mul_comm]

/-- The homogeneous sum of a surface at `(u, v)`. -/
theorem num_surface {o : Obj K} (hw : C06.WF o 2) (h0 : (o.basis 0).periodic = -1)
    (h1 : (o.basis 1).periodic = -1) (comp : ℕ) (u v : K) :
    Bridge.num o.cps ((o.basis 0).numFunctions * (o.basis 1).numFunctions) o.ncomp
        (Bridge.Ws (o.basis 1).numFunctions ((o.basis 0).specRow u) ((o.basis 1).specRow v)) comp
      = (toTP o 2 comp).eval ![effSide (o.basis 0) u true, effSide (o.basis 1) v true] ![u, v] := by
  rw [toTP_eval_surface hw h0 h1, Bridge.num_Ws]
  apply Finset.sum_congr rfl
  intro i _
  apply Finset.sum_congr rfl
  intro j _
  rw [Basis.specRow_nonperiodic h0, Basis.specRow_nonperiodic h1]
  simp only [Matrix.cons_val_zero, Matrix.cons_val_one]
  ring


/-- **Curves with the same component maps evaluate alike** (same rationality; bases with the same
    domain end; parameters admissible for both bases). -/
theorem evaluate_eq_curve {a e : Obj K} (ha : C06.WF a 1) (he : C06.WF e 1)
    (pa : (a.basis 0).periodic = -1) (pe : (e.basis 0).periodic = -1)
    (hstop : (e.basis 0).stop = (a.basis 0).stop) (hrat : e.rational = a.rational)
    (hpos : a.rational = true → 1 ≤ a.ncomp) (hm : SameMap 1 a e)
    {tol : K} (htol : 0 < tol) {us : List K} (hne : us ≠ [])
    (hua : ∀ u ∈ us, (a.basis 0).Admissible tol u) (hue : ∀ u ∈ us, (e.basis 0).Admissible tol u) :
    ∃ res, a.evaluate tol [us] true = .ok res ∧ e.evaluate tol [us] true = .ok res
      ∧ res.shape = [us.length, a.dimension] := by
  have hsa := curve_shape ha
  have hse := curve_shape he
  obtain ⟨ra, e1, e2, e3⟩ := Bridge.eval_curve (bases_eq_one ha) (ha.valid 0) hsa hpos htol hua (fun _ => hne)
  obtain ⟨re, f1, f2, f3⟩ := Bridge.eval_curve (bases_eq_one he) (he.valid 0) hse
    (by rw [hrat, hm.ncomp]; exact hpos) htol hue (fun _ => hne)
  have hdim : e.dimension = a.dimension := by unfold Obj.dimension; rw [hrat, hm.ncomp]
  have hd := e3.data_eq f3 hrat hm.ncomp (by
    intro p c hp hc
    rw [← hm.ncomp, num_curve he pe, hm.ncomp, num_curve ha pa, hm.eval c hc]
    unfold effSide
    rw [hstop])
  refine ⟨ra, e1, ?_, e2⟩
  rw [f1, Bridge.tensor_eq (by rw [e2, f2, hdim]) hd]

/-- **A surface and a curve**: if on the line `v = x` the surface's component maps are the curve's,
    then evaluating the surface on `us × [x]` returns the numbers of evaluating the curve on `us`. -/
theorem evaluate_edge_v {s a : Obj K} (hs : C06.WF s 2) (ha : C06.WF a 1)
    (p0 : (s.basis 0).periodic = -1) (p1 : (s.basis 1).periodic = -1) (pa : (a.basis 0).periodic = -1)
    (hstop : (s.basis 0).stop = (a.basis 0).stop) (hrat : s.rational = a.rational)
    (hnc : s.ncomp = a.ncomp) (hpos : a.rational = true → 1 ≤ a.ncomp) (x : K)
    (hmap : ∀ comp, comp < a.ncomp → ∀ (sd : Side) (t : K),
      (toTP s 2 comp).eval ![sd, effSide (s.basis 1) x true] ![t, x]
        = (toTP a 1 comp).eval (fun _ => sd) (fun _ => t))
    {tol : K} (htol : 0 < tol) {us : List K} (hne : us ≠ [])
    (hua : ∀ u ∈ us, (a.basis 0).Admissible tol u) (hus : ∀ u ∈ us, (s.basis 0).Admissible tol u)
    (hx : (s.basis 1).Admissible tol x) :
    ∃ rs ra, s.evaluate tol [us, [x]] true = .ok rs ∧ a.evaluate tol [us] true = .ok ra
      ∧ rs.data = ra.data ∧ rs.shape = [us.length, 1, a.dimension] ∧ ra.shape = [us.length, a.dimension] := by
  have hsa := curve_shape ha
  have hss := surface_shape hs
  obtain ⟨ra, e1, e2, e3⟩ := Bridge.eval_curve (bases_eq_one ha) (ha.valid 0) hsa hpos htol hua (fun _ => hne)
  obtain ⟨rs, f1, f2, f3⟩ := Bridge.eval_surface (bases_eq_two hs) (hs.valid 0) (hs.valid 1) hss
    (by rw [hrat, hnc]; exact hpos) htol hus (fun v hv => by rw [List.mem_singleton.mp hv]; exact hx)
    (fun _ => hne) (fun _ => by simp)
  have hdim : s.dimension = a.dimension := by unfold Obj.dimension; rw [hrat, hnc]
  simp only [List.length_singleton, mul_one, Nat.div_one, Nat.mod_one, List.getD_cons_zero] at f3
  have hd := e3.data_eq f3 hrat hnc (by
    intro p c hp hc
    rw [← hnc, num_surface hs p0 p1, hnc, num_curve ha pa, hmap c hc]
    unfold effSide
    rw [hstop])
  refine ⟨rs, ra, f1, e1, hd, by rw [f2, hdim]; rfl, e2⟩

/-- The same for a line `u = x`. -/
theorem evaluate_edge_u {s a : Obj K} (hs : C06.WF s 2) (ha : C06.WF a 1)
    (p0 : (s.basis 0).periodic = -1) (p1 : (s.basis 1).periodic = -1) (pa : (a.basis 0).periodic = -1)
    (hstop : (s.basis 1).stop = (a.basis 0).stop) (hrat : s.rational = a.rational)
    (hnc : s.ncomp = a.ncomp) (hpos : a.rational = true → 1 ≤ a.ncomp) (x : K)
    (hmap : ∀ comp, comp < a.ncomp → ∀ (sd : Side) (t : K),
      (toTP s 2 comp).eval ![effSide (s.basis 0) x true, sd] ![x, t]
        = (toTP a 1 comp).eval (fun _ => sd) (fun _ => t))
    {tol : K} (htol : 0 < tol) {vs : List K} (hne : vs ≠ [])
    (hva : ∀ v ∈ vs, (a.basis 0).Admissible tol v) (hvs : ∀ v ∈ vs, (s.basis 1).Admissible tol v)
    (hx : (s.basis 0).Admissible tol x) :
    ∃ rs ra, s.evaluate tol [[x], vs] true = .ok rs ∧ a.evaluate tol [vs] true = .ok ra
      ∧ rs.data = ra.data ∧ rs.shape = [1, vs.length, a.dimension] ∧ ra.shape = [vs.length, a.dimension] := by
  have hsa := curve_shape ha
  have hss := surface_shape hs
  obtain ⟨ra, e1, e2, e3⟩ := Bridge.eval_curve (bases_eq_one ha) (ha.valid 0) hsa hpos htol hva (fun _ => hne)
  obtain ⟨rs, f1, f2, f3⟩ := Bridge.eval_surface (bases_eq_two hs) (hs.valid 0) (hs.valid 1) hss
    (by rw [hrat, hnc]; exact hpos) htol (fun u hu => by rw [List.mem_singleton.mp hu]; exact hx) hvs
    (fun _ => by simp) (fun _ => hne)
  have hdim : s.dimension = a.dimension := by unfold Obj.dimension; rw [hrat, hnc]
  simp only [List.length_singleton, one_mul] at f3 f2
  have hd := e3.data_eq f3 hrat hnc (by
    intro p c hp hc
    have hpd : p / vs.length = 0 := Nat.div_eq_of_lt hp
    have hpm : p % vs.length = p := Nat.mod_eq_of_lt hp
    simp only [hpd, hpm, List.getD_cons_zero]
    rw [← hnc, num_surface hs p0 p1, hnc, num_curve ha pa, hmap c hc]
    unfold effSide
    rw [hstop])
  refine ⟨rs, ra, f1, e1, hd, by rw [f2, hdim], e2⟩

/-- **Surfaces with the same component maps evaluate alike.** -/
theorem evaluate_eq_surface {a e : Obj K} (ha : C06.WF a 2) (he : C06.WF e 2)
    (pa0 : (a.basis 0).periodic = -1) (pa1 : (a.basis 1).periodic = -1)
    (pe0 : (e.basis 0).periodic = -1) (pe1 : (e.basis 1).periodic = -1)
    (hstop0 : (e.basis 0).stop = (a.basis 0).stop) (hstop1 : (e.basis 1).stop = (a.basis 1).stop)
    (hrat : e.rational = a.rational) (hpos : a.rational = true → 1 ≤ a.ncomp) (hm : SameMap 2 a e)
    {tol : K} (htol : 0 < tol) {us vs : List K} (hneu : us ≠ []) (hnev : vs ≠ [])
    (hua : ∀ u ∈ us, (a.basis 0).Admissible tol u) (hue : ∀ u ∈ us, (e.basis 0).Admissible tol u)
    (hva : ∀ v ∈ vs, (a.basis 1).Admissible tol v) (hve : ∀ v ∈ vs, (e.basis 1).Admissible tol v) :
    ∃ res, a.evaluate tol [us, vs] true = .ok res ∧ e.evaluate tol [us, vs] true = .ok res
      ∧ res.shape = [us.length, vs.length, a.dimension] := by
  obtain ⟨ra, e1, e2, e3⟩ := Bridge.eval_surface (bases_eq_two ha) (ha.valid 0) (ha.valid 1) (surface_shape ha)
    hpos htol hua hva (fun _ => hneu) (fun _ => hnev)
  obtain ⟨re, f1, f2, f3⟩ := Bridge.eval_surface (bases_eq_two he) (he.valid 0) (he.valid 1) (surface_shape he)
    (by rw [hrat, hm.ncomp]; exact hpos) htol hue hve (fun _ => hneu) (fun _ => hnev)
  have hdim : e.dimension = a.dimension := by unfold Obj.dimension; rw [hrat, hm.ncomp]
  have hd := e3.data_eq f3 hrat hm.ncomp (by
    intro p c hp hc
    rw [← hm.ncomp, num_surface he pe0 pe1, hm.ncomp, num_surface ha pa0 pa1, hm.eval c hc]
    unfold effSide
    rw [hstop0, hstop1])
  refine ⟨ra, e1, ?_, e2⟩
  rw [f1, Bridge.tensor_eq (by rw [e2, f2, hdim]) hd]

end C15
end Splipy
