import Mathlib.Algebra.Order.Field.Basic
import Mathlib.Algebra.Order.AbsoluteValue.Basic
import Mathlib.Tactic.Linarith
import Mathlib.Tactic.Positivity
import Splipy.Model.Orientation
import Splipy.Model.Tolerance

/-!
# The tolerance of `Orientation.compute` (C20)

`Model/Orientation.lean` compares control nets exactly (`decide (o.mapArray nb = na)`).  The code
uses `np.allclose(cps_a, test_b, rtol=state.controlpoint_relative_tolerance,
atol=state.controlpoint_absolute_tolerance)`.  Here the tolerant comparison is defined and related
to the exact one: the exact model is the instance `rtol = atol = 0`; nets that are exactly equal are
`allclose` for all non-negative tolerances; nets that differ somewhere by more than
`atol + rtol·|b|` are not.
-/

namespace Splipy.C20

open Splipy Splipy.Tol

section lists
variable {K : Type} [Field K] [LinearOrder K] [IsStrictOrderedRing K]

omit [IsStrictOrderedRing K] in
/-- entry-wise characterisation of `allclose` -/
theorem allclose_iff (rtol atol : K) (a b : List K) :
    allclose rtol atol a b = true ↔
      a.length = b.length ∧
        ∀ i (h1 : i < a.length) (h2 : i < b.length), |a[i] - b[i]| ≤ atol + rtol * |b[i]| := by
  unfold allclose
  simp only [Bool.and_eq_true, decide_eq_true_eq, List.all_eq_true]
  constructor
  · rintro ⟨hl, hall⟩
    refine ⟨hl, fun i h1 h2 => ?_⟩
    have hm : (a[i], b[i]) ∈ List.zip a b := by
      apply List.mem_iff_getElem.2
      exact ⟨i, by simp [h1, h2], by simp⟩
    exact hall _ hm
  · rintro ⟨hl, hall⟩
    refine ⟨hl, fun p hp => ?_⟩
    obtain ⟨i, hi, rfl⟩ := List.mem_iff_getElem.1 hp
    rw [List.length_zip] at hi
    rw [List.getElem_zip]
    exact hall i (by omega) (by omega)

/-- equal arrays are `allclose` for all non-negative tolerances -/
theorem allclose_self (rtol atol : K) (hr : 0 ≤ rtol) (ha : 0 ≤ atol) (a : List K) :
    allclose rtol atol a a = true := by
  rw [allclose_iff]
  refine ⟨rfl, fun i h1 _ => ?_⟩
  rw [sub_self, abs_zero]
  have := abs_nonneg a[i]
  positivity

/-- with zero tolerances `allclose` is equality -/
theorem allclose_zero_iff (a b : List K) : allclose 0 0 a b = true ↔ a = b := by
  rw [allclose_iff]
  constructor
  · rintro ⟨hl, hall⟩
    apply List.ext_getElem hl
    intro i h1 h2
    have := hall i h1 h2
    simp only [zero_mul, add_zero] at this
    exact sub_eq_zero.1 (abs_eq_zero.1 (le_antisymm this (abs_nonneg _)))
  · rintro rfl
    refine ⟨rfl, fun i _ _ => by simp⟩

omit [IsStrictOrderedRing K] in
/-- an entry farther apart than `atol + rtol·|b|` makes `allclose` fail -/
theorem allclose_false_of_far (rtol atol : K) (a b : List K) (i : ℕ) (h1 : i < a.length)
    (h2 : i < b.length) (hfar : atol + rtol * |b[i]| < |a[i] - b[i]|) :
    allclose rtol atol a b = false := by
  apply Bool.eq_false_iff.2
  intro h
  exact absurd ((allclose_iff rtol atol a b).1 h).2 (fun hall => absurd (hall i h1 h2) (not_le.2 hfar))

end lists

section nets
open Splipy.MP

/-- `np.allclose(na, nb, rtol, atol)` on two control nets (arrays of points). -/
def netsAllclose (rtol atol : ℚ) (na nb : NdArr (List ℚ)) : Bool :=
  decide (na.shape = nb.shape) && decide (na.data.size = nb.data.size) &&
    (List.zip na.data.toList nb.data.toList).all (fun p => allclose rtol atol p.1 p.2)

/-- the test of one candidate orientation with the tolerant comparison of the code:
    `np.allclose(cps_a, test_b, rtol, atol)` and `matches` -/
def orientationFitsTol (rtol atol : ℚ) (na nb : NdArr (List ℚ)) (a b : MP.Obj) (o : Orientation) : Bool :=
  decide (o.mapShape nb.shape = na.shape) && netsAllclose rtol atol na (o.mapArray nb) && basesMatch o a b

/-- `Orientation.compute` with the control-point tolerances as parameters. -/
def computeTol (rtol atol : ℚ) (a b : MP.Obj) : Except MErr Orientation :=
  if a.pardim ≠ b.pardim then .error .orientation
  else if a.dimension ≠ b.dimension then .error .orientation
  else if !sameShapeCounter a b then .error .orientation
  else
    let nets := compareNets a b
    match (Orientation.all a.pardim).find? (orientationFitsTol rtol atol nets.1 nets.2 a b) with
    | some o => .ok o
    | none => .error .orientation

theorem netsAllclose_iff (rtol atol : ℚ) (na nb : NdArr (List ℚ)) :
    netsAllclose rtol atol na nb = true ↔
      na.shape = nb.shape ∧ na.data.size = nb.data.size ∧
        ∀ i (h1 : i < na.data.size) (h2 : i < nb.data.size),
          allclose rtol atol na.data[i] nb.data[i] = true := by
  unfold netsAllclose
  simp only [Bool.and_eq_true, decide_eq_true_eq, List.all_eq_true]
  constructor
  · rintro ⟨⟨hs, hl⟩, hall⟩
    refine ⟨hs, hl, fun i h1 h2 => ?_⟩
    have hm : (na.data[i], nb.data[i]) ∈ List.zip na.data.toList nb.data.toList := by
      apply List.mem_iff_getElem.2
      exact ⟨i, by simp [h1, h2], by simp⟩
    exact hall _ hm
  · rintro ⟨hs, hl, hall⟩
    refine ⟨⟨hs, hl⟩, fun p hp => ?_⟩
    obtain ⟨i, hi, rfl⟩ := List.mem_iff_getElem.1 hp
    rw [List.length_zip] at hi
    simp only [Array.length_toList] at hi
    rw [List.getElem_zip]
    simpa using hall i (by omega) (by omega)

/-- exactly equal nets are `allclose` for all non-negative tolerances -/
theorem netsAllclose_self (rtol atol : ℚ) (hr : 0 ≤ rtol) (ha : 0 ≤ atol) (na : NdArr (List ℚ)) :
    netsAllclose rtol atol na na = true := by
  rw [netsAllclose_iff]
  exact ⟨rfl, rfl, fun i _ _ => allclose_self rtol atol hr ha _⟩

/-- with zero tolerances the tolerant comparison is the exact one of `Model/Orientation.lean` -/
theorem netsAllclose_zero_iff (na nb : NdArr (List ℚ)) : netsAllclose 0 0 na nb = true ↔ na = nb := by
  rw [netsAllclose_iff]
  constructor
  · rintro ⟨hs, hl, hall⟩
    cases na; cases nb
    simp only [NdArr.mk.injEq]
    refine ⟨hs, Array.ext hl (fun i h1 h2 => ?_)⟩
    exact (allclose_zero_iff _ _).1 (hall i h1 h2)
  · rintro rfl
    exact ⟨rfl, rfl, fun i _ _ => (allclose_zero_iff _ _).2 rfl⟩

/-- a coordinate of a point farther apart than `atol + rtol·|b|` makes the nets not `allclose` -/
theorem netsAllclose_false_of_far (rtol atol : ℚ) (na nb : NdArr (List ℚ)) (i c : ℕ)
    (h1 : i < na.data.size) (h2 : i < nb.data.size) (c1 : c < na.data[i].length)
    (c2 : c < nb.data[i].length)
    (hfar : atol + rtol * |nb.data[i][c]| < |na.data[i][c] - nb.data[i][c]|) :
    netsAllclose rtol atol na nb = false := by
  apply Bool.eq_false_iff.2
  intro h
  have := ((netsAllclose_iff rtol atol na nb).1 h).2.2 i h1 h2
  rw [allclose_false_of_far rtol atol _ _ c c1 c2 hfar] at this
  exact absurd this (by decide)

theorem orientationFitsTol_zero (na nb : NdArr (List ℚ)) (a b : MP.Obj) (o : Orientation) :
    orientationFitsTol 0 0 na nb a b o = orientationFits na nb a b o := by
  unfold orientationFitsTol orientationFits
  congr 2
  rw [Bool.eq_iff_iff, netsAllclose_zero_iff, decide_eq_true_eq]
  exact eq_comm

/-- the exact model is the zero-tolerance instance of the tolerant one -/
theorem computeTol_zero (a b : MP.Obj) : computeTol 0 0 a b = Orientation.compute a b := by
  unfold computeTol Orientation.compute
  have : orientationFitsTol 0 0 (compareNets a b).1 (compareNets a b).2 a b
      = orientationFits (compareNets a b).1 (compareNets a b).2 a b := by
    funext o; exact orientationFitsTol_zero _ _ _ _ _
  simp only [this]
  rfl

/-- a candidate accepted by the exact comparison is accepted for all non-negative tolerances -/
theorem orientationFitsTol_of_exact (rtol atol : ℚ) (hr : 0 ≤ rtol) (ha : 0 ≤ atol)
    (na nb : NdArr (List ℚ)) (a b : MP.Obj) (o : Orientation)
    (h : orientationFits na nb a b o = true) : orientationFitsTol rtol atol na nb a b o = true := by
  unfold orientationFits at h
  unfold orientationFitsTol
  simp only [Bool.and_eq_true, decide_eq_true_eq] at h ⊢
  refine ⟨⟨h.1.1, ?_⟩, h.2⟩
  rw [h.1.2]
  exact netsAllclose_self rtol atol hr ha na

/-- a candidate accepted by the tolerant comparison has every coordinate of every control point
    within `atol + rtol·|b|` of the mapped net -/
theorem orientationFitsTol_close (rtol atol : ℚ) (na nb : NdArr (List ℚ)) (a b : MP.Obj)
    (o : Orientation) (h : orientationFitsTol rtol atol na nb a b o = true) :
    ∀ i (h1 : i < na.data.size) (h2 : i < (o.mapArray nb).data.size),
      na.data[i].length = (o.mapArray nb).data[i].length ∧
      ∀ c (c1 : c < na.data[i].length) (c2 : c < (o.mapArray nb).data[i].length),
        |na.data[i][c] - (o.mapArray nb).data[i][c]| ≤ atol + rtol * |(o.mapArray nb).data[i][c]| := by
  unfold orientationFitsTol at h
  simp only [Bool.and_eq_true, decide_eq_true_eq] at h
  intro i h1 h2
  have := ((netsAllclose_iff rtol atol na _).1 h.1.2).2.2 i h1 h2
  exact (allclose_iff rtol atol _ _).1 this

end nets

end Splipy.C20
