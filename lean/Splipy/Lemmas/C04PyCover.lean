import Splipy.Lemmas.PyBasisEq
import Splipy.Lemmas.C04CoverMain

/-!
# C04 helper lemmas, part 25: the translated `insert_knot` in the cover branch, for valid bases

`PyBasis_insert_knot_eq_cover` (in `Lemmas/PyBasisEq.lean`, independent of the C04 theory) states the
equality of the translated method and the hand model under per-pass guards; here the guards are
discharged for every valid periodic basis with fewer than `p + k` functions.
-/

namespace Splipy
namespace C04

set_option linter.unusedSectionVars false

open Splipy.Generated Splipy.PyB

variable {K : Type} [Field K] [LinearOrder K] [IsStrictOrderedRing K] [FloorRing K]

theorem coverIterM_eq_coverRun (T : K) (s0 : Basis K × Mat K × K) (j : ℕ) :
    PyB.coverIterM T s0 j = coverRun T s0 j := by
  induction j with
  | zero => rfl
  | succ j ih =>
    rw [PyB.coverIterM, coverRun, ih]
    rfl

/-- the wrap of `PyBasisEq.lean` on a value of the domain -/
theorem pyb_wrapX_mem (c : Basis K) (hper : 0 ≤ c.periodic) (y : K) (hy : c.start ≤ y ∧ y ≤ c.stop) :
    PyB.wrapX c y = .ok y := by
  unfold PyB.wrapX
  rw [if_pos hper, if_neg (not_or.2 ⟨not_lt.2 hy.1, not_lt.2 hy.2⟩)]

end C04
end Splipy

open Splipy Splipy.C04 Splipy.Generated Splipy.PyB

variable {K : Type} [Field K] [LinearOrder K] [IsStrictOrderedRing K] [FloorRing K]

/-- **The translated `insert_knot` is the hand model in the cover branch**, for every valid periodic basis
    with fewer than `p + k` functions and every real `x0`, provided the constructor accepts the knot vector
    of the cover (`hinit`, which the hand model assumes). -/
theorem C04_source_insert_knot_small (b : Basis K) (hv : b.Valid) (k : ℕ) (hk : b.periodic = (k : Int))
    (hsmall : b.numFunctions < b.order + k) (tol x0 : K)
    (hinit : PyBasis.init tol (b.order : Int)
        (b.coverKnots ((b.order + k + b.numFunctions - 1) / b.numFunctions)) b.periodic
      = .ok (ofBasis { b with knots := b.coverKnots ((b.order + k + b.numFunctions - 1) / b.numFunctions) })) :
    PyBasis.insert_knot (ofBasis b) tol x0 = (b.insertKnot x0).map (fun r => (ofBasis r.1, r.2)) := by
  have hn1 := numFunctions_pos hv
  have hn := numFunctions_periodic b k hk
  have hp := hv.order_pos
  have hsz0 := hv.size_ge
  have hper : 0 ≤ b.periodic := by rw [hk]; omega
  have hpk : k + 2 ≤ b.order := by
    rcases hv.periodic_le with h | h
    · rw [hk] at h; omega
    · rw [hk] at h; omega
  obtain ⟨r, hRdef, hr1, hR⟩ := cover_R b.order k b.numFunctions hn1 hsmall
  obtain ⟨hx1, hx2, _⟩ := wrapVal_mem b hv.start_lt_stop x0
  have hT : b.stop - b.start ≠ 0 := ne_of_gt (sub_pos.2 hv.start_lt_stop)
  have hw : PyB.wrapX b x0 = .ok (wrapVal b x0) := by
    unfold PyB.wrapX wrapVal
    rw [if_pos hper]
  refine PyBasis_insert_knot_eq_cover b tol x0 (wrapVal b x0) hp hw k hk hn1 (by omega) hsmall hT hinit ?_
  rw [hRdef]
  intro j hj st hst
  rw [coverIterM_eq_coverRun] at hst
  have hrun := cB_run b hv k hk r hR (wrapVal b x0) ⟨hx1, hx2⟩ j (by omega)
  have hs := cB_state b hv k hk r hR (wrapVal b x0) ⟨hx1, hx2⟩ j (by omega)
  have hst' : st = (cB b r (wrapVal b x0) j, cM b r (wrapVal b x0) j,
      wrapVal b x0 + (j : K) * (b.stop - b.start)) := by
    have : coverRun (b.stop - b.start) (cS0 b r (wrapVal b x0)) j = .ok st := hst
    rw [hrun] at this
    injection this with this
    exact this.symm
  subst hst'
  set c := cB b r (wrapVal b x0) j with hc
  set y := wrapVal b x0 + (j : K) * (b.stop - b.start) with hy
  have hTpos : 0 < b.stop - b.start := sub_pos.2 hv.start_lt_stop
  have hjK : (j : K) ≤ (r : K) := by exact_mod_cast (by omega : j ≤ r)
  have hyc : c.start ≤ y ∧ y ≤ c.stop := by
    rw [hs.start, hs.stop]
    have a1 : 0 ≤ (j : K) * (b.stop - b.start) := mul_nonneg (Nat.cast_nonneg j) (le_of_lt hTpos)
    have a2 : (j : K) * (b.stop - b.start) ≤ (r : K) * (b.stop - b.start) :=
      mul_le_mul_of_nonneg_right hjK (le_of_lt hTpos)
    exact ⟨by linarith, by linarith⟩
  have hguard : c.order + k ≤ c.numFunctions := by rw [hs.order, hs.num]; omega
  have hperc : 0 ≤ c.periodic := by rw [hs.per]; omega
  obtain ⟨m1, _⟩ := insertMu_spec c hs.valid k hs.per y hyc
  obtain ⟨c', C, e1, hr, _⟩ := insertKnot_periodic_full c hs.valid k hs.per hguard y hyc
  have hplain : c.insertKnotPlain y = .ok (c', C) := by
    rw [← insertKnot_eq_plain c _ (not_coverCond_of_guard c hs.valid.order_pos k hs.per hguard)]
    exact e1
  refine ⟨hs.valid.order_pos, by show -1 ≤ c.periodic; rw [hs.per]; omega,
    by have := hs.valid.size_ge; have := hs.valid.order_pos; show c.order + 1 ≤ c.knots.size; omega,
    fun _ _ => ne_of_gt (sub_pos.2 hs.valid.start_lt_stop), fun x' hx' => ?_,
    not_coverCond_of_guard c hs.valid.order_pos k hs.per hguard, fun c'' Ck hck => ?_⟩
  · rw [pyb_wrapX_mem c hperc y hyc] at hx'
    injection hx' with hx'
    rw [← hx']; exact m1
  · show ¬ (0 < Ck.size ∧ (Ck.getD 0 #[]).size ≠ (cM b r (wrapVal b x0) j).size)
    rw [hplain] at hck
    injection hck with hck
    have hCk : Ck = C := (congrArg Prod.snd hck).symm
    rw [hCk]
    have hsh := hr.shape
    rw [hs.num] at hsh
    rw [hsh.2 0 (by omega), hs.shape.1]
    omega
