import Splipy.Lemmas.C17Owner
import Splipy.Model.Numbering

/-!
# C18 — `assign_cp_numbers` (the recursion `assignViews`): what a pass over one top node writes
-/

namespace Splipy.MP.C18L

open Splipy.MP Splipy.MP.Own

theorem foldl_preserve {α β : Type} (Pr : β → Prop) (f : β → α → β) :
    ∀ (l : List α), (∀ b, ∀ a ∈ l, Pr b → Pr (f b a)) → ∀ b, Pr b → Pr (l.foldl f b)
  | [], _, _, hb => hb
  | a :: l, h, b, hb =>
    foldl_preserve Pr f l (fun b' a' ha' => h b' a' (List.mem_cons_of_mem _ ha')) _
      (h b a List.mem_cons_self hb)

/-- the body of the loop of `assign_cp_numbers` -/
def viewStep (fuel : ℕ) (m : Model) (node : ℕ) (view : CpView) (acc : Array (Option CpView)) (cs : ℕ × Sec) :
    Array (Option CpView) :=
  if (m.node cs.1).owner == some node || (m.node cs.1).owner == (m.node node).owner then
    assignViews fuel m cs.1 ⟨view.top, view.path ++ [cs.2]⟩ acc
  else acc

theorem assignViews_succ (fuel : ℕ) (m : Model) (node : ℕ) (view : CpView) (acc : Array (Option CpView)) :
    assignViews (fuel + 1) m node view acc =
      if (m.node node).pardim > 1 then
        (List.zip ((m.node node).lower.getLastD []) (sections (m.node node).pardim ((m.node node).pardim - 1))).foldl
          (viewStep fuel m node view) (acc.setIfInBounds node (some view))
      else acc.setIfInBounds node (some view) := rfl

theorem assignViews_size (m : Model) : ∀ (fuel node : ℕ) (view : CpView) (acc : Array (Option CpView)),
    (assignViews fuel m node view acc).size = acc.size := by
  intro fuel
  induction fuel with
  | zero => intro node view acc; rfl
  | succ fuel ih =>
    intro node view acc
    rw [assignViews_succ]
    split
    · apply foldl_preserve (fun b : Array (Option CpView) => b.size = acc.size)
      · intro b cs _ hb
        unfold viewStep
        split
        · rw [ih]; exact hb
        · exact hb
      · simp
    · simp

theorem viewStep_size (fuel : ℕ) (m : Model) (node : ℕ) (view : CpView) (acc : Array (Option CpView))
    (cs : ℕ × Sec) : (viewStep fuel m node view acc cs).size = acc.size := by
  unfold viewStep
  split
  · rw [assignViews_size]
  · rfl

theorem default_pardim : (default : TNode).pardim = 0 := rfl

theorem getD_set_ne (acc : Array (Option CpView)) (node x : ℕ) (v : Option CpView) (h : x ≠ node) :
    (acc.setIfInBounds node v).getD x none = acc.getD x none := by
  simp [Array.getD_eq_getD_getElem?, Array.getElem?_setIfInBounds_ne (Ne.symm h)]

theorem getD_set_self (acc : Array (Option CpView)) (node : ℕ) (v : Option CpView) (h : node < acc.size) :
    (acc.setIfInBounds node v).getD node none = v := by
  simp [Array.getD_eq_getD_getElem?, Array.getElem?_setIfInBounds_self_of_lt h]

/-- a pass over `node` writes at `node` and at nodes of smaller dimension only -/
theorem assignViews_frame {m : Model} (hD : DimOK m) : ∀ (fuel node : ℕ) (view : CpView)
    (acc : Array (Option CpView)) (x : ℕ), x ≠ node → (m.node node).pardim ≤ (m.node x).pardim →
    (assignViews fuel m node view acc).getD x none = acc.getD x none := by
  intro fuel
  induction fuel with
  | zero => intro node view acc x _ _; rfl
  | succ fuel ih =>
    intro node view acc x hx hdim
    rw [assignViews_succ]
    split
    · rename_i hgt
      have hn : node < m.nodes.size := by
        by_contra hn
        rw [node_default hn, default_pardim] at hgt
        omega
      apply foldl_preserve (fun b : Array (Option CpView) => b.getD x none = acc.getD x none)
      · intro b cs hcs hb
        have hmem := (List.of_mem_zip hcs).1
        obtain ⟨_, hd⟩ := hD node hn cs.1 hmem
        unfold viewStep
        split
        · rw [ih _ _ _ _ (by rintro rfl; omega) (by omega)]; exact hb
        · exact hb
      · exact getD_set_ne _ _ _ _ hx
    · exact getD_set_ne _ _ _ _ hx

/-- … and at `node` it writes the view -/
theorem assignViews_self {m : Model} (hD : DimOK m) (fuel node : ℕ) (view : CpView)
    (acc : Array (Option CpView)) (hn : node < acc.size) :
    (assignViews (fuel + 1) m node view acc).getD node none = some view := by
  rw [assignViews_succ]
  split
  · rename_i hgt
    have hn' : node < m.nodes.size := by
      by_contra hn'
      rw [node_default hn', default_pardim] at hgt
      omega
    apply foldl_preserve (fun b : Array (Option CpView) => b.getD node none = some view)
    · intro b cs hcs hb
      have hmem := (List.of_mem_zip hcs).1
      obtain ⟨_, hd⟩ := hD node hn' cs.1 hmem
      unfold viewStep
      split
      · rw [assignViews_frame hD _ _ _ _ _ (by rintro h; rw [h] at hd; omega) (by omega)]; exact hb
      · exact hb
    · exact getD_set_self _ _ _ hn
  · exact getD_set_self _ _ _ hn

/-- the loop over the children leaves `F` alone when no child that is taken is `F` -/
theorem childFold_frame {m : Model} (hD : DimOK m) (fuel node : ℕ) (view : CpView) (F : ℕ)
    (l : List (ℕ × Sec)) (hl : ∀ cs ∈ l, (m.node cs.1).pardim ≤ (m.node F).pardim)
    (hno : ∀ cs ∈ l, cs.1 = F →
      ((m.node F).owner == some node || (m.node F).owner == (m.node node).owner) = false)
    (acc : Array (Option CpView)) :
    (l.foldl (viewStep fuel m node view) acc).getD F none = acc.getD F none := by
  apply foldl_preserve (fun b : Array (Option CpView) => b.getD F none = acc.getD F none)
  · intro b cs hcs hb
    unfold viewStep
    by_cases hcF : cs.1 = F
    · rw [hcF, hno cs hcs hcF]; exact hb
    · split
      · rw [assignViews_frame hD _ _ _ _ _ (fun h => hcF h.symm) (hl cs hcs)]; exact hb
      · exact hb
  · rfl

theorem childFold_size (fuel : ℕ) (m : Model) (node : ℕ) (view : CpView) (l : List (ℕ × Sec))
    (acc : Array (Option CpView)) : (l.foldl (viewStep fuel m node view) acc).size = acc.size := by
  apply foldl_preserve (fun b : Array (Option CpView) => b.size = acc.size)
  · intro b cs _ hb; rw [viewStep_size]; exact hb
  · rfl

/-- the LAST child that is `F` (if it is taken) decides the view of `F` -/
theorem childFold_hit {m : Model} (hD : DimOK m) (fuel node : ℕ) (view : CpView) (F : ℕ)
    (l1 l2 : List (ℕ × Sec)) (s : Sec) (hfuel : 1 ≤ fuel)
    (hl : ∀ cs ∈ l2, (m.node cs.1).pardim ≤ (m.node F).pardim)
    (hno : ∀ cs ∈ l2, cs.1 ≠ F)
    (hyes : ((m.node F).owner == some node || (m.node F).owner == (m.node node).owner) = true)
    (acc : Array (Option CpView)) (hF : F < acc.size) :
    ((l1 ++ (F, s) :: l2).foldl (viewStep fuel m node view) acc).getD F none =
      some ⟨view.top, view.path ++ [s]⟩ := by
  obtain ⟨f, rfl⟩ : ∃ f, fuel = f + 1 := ⟨fuel - 1, by omega⟩
  rw [List.foldl_append, List.foldl_cons]
  rw [childFold_frame hD _ _ _ F l2 hl (fun cs hcs h => absurd h (hno cs hcs))]
  have hsz := childFold_size (f + 1) m node view l1 acc
  generalize List.foldl (viewStep (f + 1) m node view) acc l1 = acc1 at hsz ⊢
  unfold viewStep
  simp only
  rw [if_pos hyes]
  exact assignViews_self hD _ _ _ _ (by rw [hsz]; exact hF)

theorem foldl_hit {α β : Type} (I G : β → Prop) (f : β → α → β) (l : List α)
    (hpres : ∀ b, ∀ x ∈ l, I b → I (f b x) ∧ (G b → G (f b x))) (x0 : α) (hx0 : x0 ∈ l)
    (hset : ∀ b, I b → G (f b x0)) (b : β) (hb : I b) : G (l.foldl f b) := by
  obtain ⟨l1, l2, rfl⟩ := List.append_of_mem hx0
  rw [List.foldl_append, List.foldl_cons]
  have h1 : I (l1.foldl f b) :=
    foldl_preserve I f l1 (fun b' x hx hI => (hpres b' x (by simp [hx]) hI).1) b hb
  have h2 : I (f (l1.foldl f b) x0) ∧ G (f (l1.foldl f b) x0) :=
    ⟨(hpres _ x0 (by simp) h1).1, hset _ h1⟩
  exact (foldl_preserve (fun b => I b ∧ G b) f l2 (fun b' x hx hIG =>
    ⟨(hpres b' x (by simp [hx]) hIG.1).1, (hpres b' x (by simp [hx]) hIG.1).2 hIG.2⟩) _ h2).2

/-! ## two list facts -/

/-- in a strictly ordered list `find?` returns the least element with the property -/
theorem find?_of_pairwise {α : Type} (R : α → α → Prop) (p : α → Bool) :
    ∀ (l : List α) (x : α), l.Pairwise R → x ∈ l → p x = true → (∀ a ∈ l, R a x → p a = false) →
      l.find? p = some x
  | [], x, _, hx, _, _ => by simp at hx
  | a :: l, x, hpw, hx, hpx, hmin => by
    rcases List.mem_cons.1 hx with rfl | hxl
    · simp [hpx]
    · have hR := (List.pairwise_cons.1 hpw).1 x hxl
      have hpa := hmin a List.mem_cons_self hR
      rw [List.find?_cons, hpa]
      exact find?_of_pairwise R p l x (List.pairwise_cons.1 hpw).2 hxl hpx
        (fun b hb => hmin b (List.mem_cons_of_mem _ hb))

/-- the last index below `n` with a property -/
theorem lastIdx_spec (n : ℕ) (p : ℕ → Bool) (i0 : ℕ) (hi0 : i0 < n) (hp : p i0 = true) :
    (((List.range n).filter p).getLast?.getD i0) < n ∧ p (((List.range n).filter p).getLast?.getD i0) = true ∧
      ∀ j, j < n → p j = true → j ≤ ((List.range n).filter p).getLast?.getD i0 := by
  have hmem : i0 ∈ (List.range n).filter p := List.mem_filter.2 ⟨List.mem_range.2 hi0, hp⟩
  cases hg : ((List.range n).filter p).getLast? with
  | none =>
    rw [List.getLast?_eq_none_iff] at hg
    rw [hg] at hmem; simp at hmem
  | some a =>
    simp only [Option.getD_some]
    obtain ⟨l', hl'⟩ := List.getLast?_eq_some_iff.1 hg
    have ha : a ∈ (List.range n).filter p := by rw [hl']; simp
    obtain ⟨ha1, ha2⟩ := List.mem_filter.1 ha
    refine ⟨List.mem_range.1 ha1, ha2, fun j hj hpj => ?_⟩
    have hjm : j ∈ (List.range n).filter p := List.mem_filter.2 ⟨List.mem_range.2 hj, hpj⟩
    have hpw : ((List.range n).filter p).Pairwise (· < ·) := List.Pairwise.filter _ List.pairwise_lt_range
    rw [hl'] at hjm hpw
    rcases List.mem_append.1 hjm with h1 | h1
    · have := (List.pairwise_append.1 hpw).2.2 j h1 a (by simp)
      omega
    · simp at h1; omega

end Splipy.MP.C18L
