import Splipy.Lemmas.C17Extend

/-! Lemmas for C17: `lookupPoint` keeps the invariant and returns the representing node. -/

namespace Splipy.MP

/-- the invariant only looks at the nodes, the vertex table, the number of levels and the
    candidate lists -/
theorem Inv.of_same {nc : ℕ} {S : Obj → Prop} {m m' : Model} (hI : Inv nc S m)
    (hn : m'.nodes = m.nodes) (hv : m'.verts = m.verts) (hs : m'.levels.size = m.levels.size)
    (hg : ∀ d q, (m'.level d).get q = (m.level d).get q)
    (hk : ∀ d, Cov (m.level d) → Cov (m'.level d)) : Inv nc S m' := by
  have hnode : ∀ c, m'.node c = m.node c := fun c => by unfold Model.node; rw [hn]
  have hfac : ∀ c, facets m' c = facets m c := fun c => by unfold facets; rw [hnode]
  have hrep : ∀ id x, Rep m' id x ↔ Rep m id x := fun id x => by unfold Rep; rw [hn, hnode]
  refine ⟨?_, ?_, ?_, ?_, ?_, ?_, ?_, ?_, ?_, ?_, ?_, ?_, ?_, ?_⟩
  · rw [hv]; exact hI.vkeys
  · intro kv hkv; rw [hv] at hkv; rw [hn, hnode]; exact hI.vnode kv hkv
  · intro c hc h0; rw [hn] at hc; rw [hnode] at h0; rw [hv]; exact hI.vall c hc h0
  · intro c hc; rw [hn] at hc; rw [hnode, hs]; exact hI.orig c hc
  · intro c hc; rw [hn] at hc; rw [hnode]; exact hI.lowshape c hc
  · intro c hc; rw [hn] at hc; rw [hnode]
    intro i hi j hj; rw [hrep]; exact hI.low c hc i hi j hj
  · intro c hc hp; rw [hn] at hc; rw [hnode] at hp ⊢; rw [hfac, hg]; exact hI.filed c hc hp
  · intro d q c hc; rw [hg] at hc; rw [hn, hnode, hfac]; exact hI.cand d q c hc
  · intro d q q' h; rw [hg, hg]; exact hI.closed d q q' h
  · intro c c' hc hc' h; rw [hn] at hc hc'; rw [hnode, hnode] at h; exact hI.uniq c c' hc hc' h
  · intro c hc; rw [hn] at hc; rw [hnode]; exact hI.pdfield c hc
  · intro c hc k hk; rw [hn] at hc ⊢; rw [hnode] at hk; exact hI.lowlt c hc k hk
  · intro d; exact hk d (hI.keys d)
  · intro k hk d c; rw [hn] at hk ⊢; rw [hnode, hnode]; exact hI.high k hk d c

theorem Ext.of_same {m m' : Model} (hn : m'.nodes = m.nodes) (hs : m'.levels.size = m.levels.size) :
    Ext m m' :=
  ⟨by rw [hn], hs, fun c _ => by unfold Model.node; rw [hn], fun c _ => by unfold Model.node; rw [hn]⟩

/-- the `count += 1` of `lookupPoint` -/
def bump (m : Model) : Model := m.modifyLevel 0 (fun lv => { lv with count := lv.count + 1 })

theorem bump_get (m : Model) (d : ℕ) (q : List ℕ) : ((bump m).level d).get q = (m.level d).get q := by
  unfold bump
  by_cases hd : d = 0
  · subst hd
    by_cases h0 : 0 < m.levels.size
    · rw [Model.level_modifyLevel _ _ _ h0]; rfl
    · simp [Model.level, Model.modifyLevel, Array.getD_eq_getD_getElem?, Array.getElem?_modify]
      have : m.levels[0]? = none := by
        apply Array.getElem?_eq_none; omega
      simp [this]
  · rw [Model.level_modifyLevel_ne _ _ _ _ (Ne.symm hd)]

theorem bump_lsize (m : Model) : (bump m).levels.size = m.levels.size := by
  simp [bump, Model.modifyLevel]

theorem bump_cov (m : Model) (d : ℕ) (h : Cov (m.level d)) : Cov ((bump m).level d) := by
  unfold bump
  by_cases hd : d = 0
  · subst hd
    by_cases h0 : 0 < m.levels.size
    · rw [Model.level_modifyLevel _ _ _ h0]; exact h
    · have hnone : m.levels[0]? = none := Array.getElem?_eq_none (by omega)
      have : (m.modifyLevel 0 (fun lv => { lv with count := lv.count + 1 })).level 0 = m.level 0 := by
        simp [Model.level, Model.modifyLevel, Array.getD_eq_getD_getElem?, Array.getElem?_modify, hnone]
      rw [this]; exact h
  · rw [Model.level_modifyLevel_ne _ _ _ _ (Ne.symm hd)]; exact h

theorem Inv.bump {nc : ℕ} {S : Obj → Prop} {m : Model} (hI : Inv nc S m) : Inv nc S (bump m) :=
  hI.of_same rfl rfl (bump_lsize m) (bump_get m) (bump_cov m)

theorem compute_point_identity {nc : ℕ} {a b : Obj} (_ha : GU nc a) (h0 : a.pardim = 0)
    (h : Equiv a b) : Orientation.compute a b = .ok (Orientation.identity 0) := by
  obtain ⟨o, ho⟩ := h
  have := (compute_sound a b o ho).1
  rw [h0] at this
  rw [ho, wf_zero this]

theorem pointKey_eq (x : Obj) :
    (if x.rational then (x.cps.data.getD 0 []).dropLast else x.cps.data.getD 0 []) = pointKey x := rfl

/-- the vertex entry for a key, when there is one -/
theorem find_vert {nc : ℕ} {S : Obj → Prop} {m : Model} (hI : Inv nc S m) {x : Obj} (hx : GU nc x)
    (h0 : x.pardim = 0) {kv : List ℚ × ℕ}
    (hf : m.verts.find? (fun kv => kv.1 == pointKey x) = some kv) : Rep m kv.2 x := by
  have hmem : kv ∈ m.verts.toList := by
    have := Array.mem_of_find?_eq_some hf
    simpa using this
  have hkey : kv.1 = pointKey x := by
    have := Array.find?_some hf
    simpa using this
  obtain ⟨a, b, c⟩ := hI.vnode kv hmem
  exact ⟨a, (point_equiv_iff (hI.gu a) hx b h0).2 (by rw [c, hkey])⟩

theorem find_vert_none {nc : ℕ} {S : Obj → Prop} {m : Model} (hI : Inv nc S m) {x : Obj}
    (hx : GU nc x) (h0 : x.pardim = 0)
    (hf : m.verts.find? (fun kv => kv.1 == pointKey x) = none) :
    (∀ kv ∈ m.verts.toList, kv.1 ≠ pointKey x) ∧ ∀ c, c < m.nodes.size → ¬ Equiv (m.node c).obj x := by
  have hk : ∀ kv ∈ m.verts.toList, kv.1 ≠ pointKey x := by
    intro kv hkv heq
    have := Array.find?_eq_none.1 hf kv (by simpa using hkv)
    simp [heq] at this
  refine ⟨hk, fun c hc heq => ?_⟩
  have hpd : (m.node c).obj.pardim = 0 := by rw [heq.pardim_eq]; exact h0
  obtain ⟨kv, hkv, rfl⟩ := hI.vall c hc hpd
  have hkey := (hI.vnode kv hkv).2.2
  exact hk kv hkv (by rw [← hkey]; exact (point_equiv_iff (hI.gu hc) hx hpd h0).1 heq)

/-- `lookupPoint` written with `bump` and `pointKey` -/
def pointNew (m : Model) (x : Obj) : Model × ℕ × Orientation :=
  let r := (bump m).newNode x [] (m.level 0).count
  ({ r.1 with verts := r.1.verts.push (pointKey x, r.2) }, r.2, Orientation.identity 0)

theorem lookupPoint_eq (m : Model) (x : Obj) (add : Bool) :
    m.lookupPoint x add =
      if add then
        match (bump m).verts.find? (fun kv => kv.1 == pointKey x) with
        | some kv => .ok (bump m, kv.2, Orientation.identity 0)
        | none => .ok (pointNew m x)
      else
        match m.verts.find? (fun kv => kv.1 == pointKey x) with
        | some kv => .ok (m, kv.2, Orientation.identity 0)
        | none => .error .key := by
  unfold Model.lookupPoint pointNew bump
  dsimp only
  rw [pointKey_eq x]
  cases add <;> rfl

/-- **`lookupPoint` (soundness).** -/
theorem lookupPoint_sound {nc : ℕ} {S : Obj → Prop} {m : Model} (hI : Inv nc S m) {x : Obj}
    (hx : GU nc x) (h0 : x.pardim = 0) (add : Bool) (hS : add = true → S x)
    (hlv : 0 < m.levels.size) {m' : Model} {id : ℕ} {o : Orientation}
    (h : m.lookupPoint x add = .ok (m', id, o)) :
    Inv nc S m' ∧ Ext m m' ∧ Rep m' id x ∧ Orientation.compute (m'.node id).obj x = .ok o ∧
      (add = false → m' = m) := by
  rw [lookupPoint_eq m x add] at h
  cases add with
  | false =>
    simp only [Bool.false_eq_true, if_false] at h
    cases hf : m.verts.find? (fun kv => kv.1 == pointKey x) with
    | none => rw [hf] at h; simp at h
    | some kv =>
      rw [hf] at h
      simp only [Except.ok.injEq, Prod.mk.injEq] at h
      obtain ⟨rfl, rfl, rfl⟩ := h
      have hr := find_vert hI hx h0 hf
      exact ⟨hI, Ext.refl _, hr, compute_point_identity (hI.gu hr.1)
        (by rw [hr.2.pardim_eq]; exact h0) hr.2, fun _ => rfl⟩
  | true =>
    simp only [if_true] at h
    have hIb := hI.bump
    cases hf : (bump m).verts.find? (fun kv => kv.1 == pointKey x) with
    | some kv =>
      rw [hf] at h
      simp only [Except.ok.injEq, Prod.mk.injEq] at h
      obtain ⟨rfl, rfl, rfl⟩ := h
      have hr := find_vert hIb hx h0 hf
      exact ⟨hIb, Ext.of_same rfl (bump_lsize m), hr, compute_point_identity (hIb.gu hr.1)
        (by rw [hr.2.pardim_eq]; exact h0) hr.2, fun h => by simp at h⟩
    | none =>
      rw [hf] at h
      simp only [Except.ok.injEq] at h
      obtain ⟨hkfresh, hfresh⟩ := find_vert_none hIb hx h0 hf
      obtain ⟨hid, hs⟩ := Model.newNode_full (bump m) x [] (m.level 0).count
      have hhi := fun j hj => Model.newNode_higher (bump m) x [] (m.level 0).count j hj
      have hA : NodeAdded (bump m) (pointNew m x).1 x [] := by
        refine ⟨hs.size, ?_, hs.new_obj, hs.new_lower, hs.old_obj, hs.old_lower, hs.new_pardim,
          hs.old_pardim, ?_, ?_, ?_, ?_, ?_⟩
        · show ((bump m).newNode x [] (m.level 0).count).1.levels.size = _
          rw [hs.levels]
        · show (((bump m).newNode x [] (m.level 0).count).1.node (bump m).nodes.size).higher = _
          have hn0 : (0 : ℕ) < (bump m).nodes.size ∨ (bump m).nodes.size = 0 := by omega
          rcases hn0 with hn0 | hn0
          · exact (hhi 0 hn0).2
          · -- empty model: the pushed node is node 0
            simp only [List.flatten_nil, List.count_nil, List.replicate_zero]
            have key : ∀ (mm : Model) (idx : ℕ),
                ((mm.newNode x [] idx).1.node mm.nodes.size).higher = [] := by
              intro mm idx
              unfold Model.newNode
              simp [Model.node]
            exact key _ _
        · intro j hj
          exact (hhi j hj).1
        · intro d hcov
          have : (pointNew m x).1.level d = (bump m).level d :=
            congrArg (fun l : Array Level => l.getD d {}) hs.levels
          rw [this]; exact hcov
        · show (((bump m).newNode x [] (m.level 0).count).1.verts.push
            (pointKey x, ((bump m).newNode x [] (m.level 0).count).2)).toList = _
          simp [h0, hs.verts, hid]
        · intro d q
          have : ¬ (d = x.pardim ∧ 1 ≤ x.pardim ∧ q.Perm (([] : List (List ℕ)).getLastD [])) := by
            rintro ⟨_, h1, _⟩; omega
          rw [if_neg this]
          exact congrArg (fun l : Array Level => (l.getD d {}).get q) hs.levels
      have hidp : (pointNew m x).2.1 = (bump m).nodes.size := hid
      have hInv := hIb.extend hA (hS rfl) hx (by rw [bump_lsize]; rw [h0]; exact hlv) hfresh
        (fun _ => hkfresh) ⟨by simp [h0], fun i hi => by omega⟩ (fun i hi => by omega)
        (fun k hk => by simp at hk)
      have hE := (Ext.of_same (m := m) (m' := bump m) rfl (bump_lsize m)).trans hA.ext
      have hm' : m' = (pointNew m x).1 := by rw [h]
      have hid' : id = (bump m).nodes.size := by rw [← hidp, h]
      have ho : o = Orientation.identity 0 := by
        have : (pointNew m x).2.2 = Orientation.identity 0 := rfl
        rw [← this, h]
      subst hm' hid' ho
      refine ⟨hInv, hE, ⟨by rw [hA.size]; omega, ?_⟩, ?_, fun h => by simp at h⟩
      · rw [hA.new_obj]; exact hx.equiv_refl
      · rw [hA.new_obj]
        exact compute_point_identity hx h0 hx.equiv_refl

end Splipy.MP
