import Splipy.Model.IOFiles
import Splipy.Lemmas.C19Mesh

/-! The STL writer model: declared count = records written; every vertex is an evaluated grid point. -/

namespace Splipy.FileIO

variable {K : Type}

/-- Invariants are carried through a monadic fold. -/
theorem foldlM_inv {σ α : Type} (f : σ → α → PyM σ) (I : σ → Prop) :
    ∀ (l : List α) (init s : σ), (∀ a ∈ l, ∀ s s', I s → f s a = .ok s' → I s') → I init →
      l.foldlM f init = .ok s → I s
  | [], init, s, _, hi, h => by
    simp only [List.foldlM_nil] at h
    cases h; exact hi
  | a :: l, init, s, hstep, hi, h => by
    simp only [List.foldlM_cons] at h
    cases hf : f init a with
    | error e => rw [hf] at h; cases h
    | ok s1 =>
      rw [hf] at h
      exact foldlM_inv f I l s1 s (fun a' ha' => hstep a' (by simp [ha'])) (hstep a (by simp) init s1 hi hf) h

theorem foldl_write_inv (I : List (List K) → Prop) (fs : List (List (List K))) (hfs : ∀ f ∈ fs, I f) :
    ∀ (w : StlWriter K), (w.counter = w.records.length ∧ ∀ r ∈ w.records, I r) →
      ((fs.foldl StlWriter.write w).counter = (fs.foldl StlWriter.write w).records.length ∧
        ∀ r ∈ (fs.foldl StlWriter.write w).records, I r) := by
  induction fs with
  | nil => intro w h; exact h
  | cons f fs ih =>
    intro w h
    simp only [List.foldl_cons]
    apply ih (fun f' hf' => hfs f' (by simp [hf']))
    refine ⟨by simp [StlWriter.write, h.1], ?_⟩
    intro r hr
    simp only [StlWriter.write, List.mem_append, List.mem_singleton] at hr
    rcases hr with hr | rfl
    · exact h.2 r hr
    · exact hfs _ (by simp)

section
variable [Field K] [LinearOrder K] [FloorRing K]

/-- A facet record of the tessellation of surface `s`: three vertices, each the padded value
    `x[i,j]` of `s.evaluate` on the grid of sampling parameters. -/
def IsFacetOf (tol : K) (n : Option (ℕ × ℕ)) (s : Splipy.Obj K) (rec : List (List K)) : Prop :=
  ∃ u v X, stlParamsObj tol s 0 (n.map Prod.fst) = .ok u ∧ stlParamsObj tol s 1 (n.map Prod.snd) = .ok v ∧
    s.evaluate tol [u, v] true = .ok X ∧ rec.length = 3 ∧
    ∀ vtx ∈ rec, ∃ i j, i < u.length ∧ j < v.length ∧ vtx = stlVertex X v.length s.dimension i j

theorem stlSurfaceFacets_spec (tol : K) (s : Splipy.Obj K) (n : Option (ℕ × ℕ))
    (fs : List (List (List K))) (h : stlSurfaceFacets tol s n = .ok fs) :
    (∃ u v, stlParamsObj tol s 0 (n.map Prod.fst) = .ok u ∧ stlParamsObj tol s 1 (n.map Prod.snd) = .ok v ∧
      fs.length = 2 * (u.length - 1) * (v.length - 1)) ∧
    ∀ rec ∈ fs, IsFacetOf tol n s rec := by
  unfold stlSurfaceFacets at h
  cases hu : stlParamsObj tol s 0 (n.map Prod.fst) with
  | error e => rw [hu] at h; cases h
  | ok u =>
    cases hv : stlParamsObj tol s 1 (n.map Prod.snd) with
    | error e => rw [hu, hv] at h; cases h
    | ok v =>
      cases hX : s.evaluate tol [u, v] true with
      | error e => rw [hu, hv] at h; simp only [bind, Except.bind, hX] at h; cases h
      | ok X =>
        rw [hu, hv] at h
        simp only [bind, Except.bind, hX] at h
        by_cases hd : 3 < s.dimension
        · simp [hd, throw, throwThe, MonadExceptOf.throw] at h
        · simp only [hd, if_false, pure, Except.pure] at h
          have hfs := Except.ok.inj h
          subst hfs
          refine ⟨⟨u, v, by first | rfl | assumption, by first | rfl | assumption,
            by simp [stlFacets, length_stlTriangles]⟩, ?_⟩
          intro rec hrec
          refine ⟨u, v, X, by first | rfl | assumption, by first | rfl | assumption, hX, ?_, ?_⟩
          · obtain ⟨t, ht, rfl⟩ := List.mem_map.mp hrec
            simpa using (stlTriangles_vertex ht).1
          · intro vtx hv'
            obtain ⟨t, ht, rfl⟩ := List.mem_map.mp hrec
            obtain ⟨ij, hij, rfl⟩ := List.mem_map.mp hv'
            exact ⟨ij.1, ij.2, ((stlTriangles_vertex ht).2 ij hij).1, ((stlTriangles_vertex ht).2 ij hij).2, rfl⟩

/-- What holds of a writer after any sequence of `write` calls. -/
def StlInv (tol : K) (n : Option (ℕ × ℕ)) (objs : List (Splipy.Obj K)) (w : StlWriter K) : Prop :=
  w.counter = w.records.length ∧
  ∀ rec ∈ w.records, ∃ o ∈ objs, ∃ ss, stlSurfaces o = .ok ss ∧ ∃ s ∈ ss, IsFacetOf tol n s rec

theorem writeObj_inv (tol : K) (n : Option (ℕ × ℕ)) (objs : List (Splipy.Obj K)) (o : Splipy.Obj K)
    (ho : o ∈ objs) (w w' : StlWriter K) (hw : StlInv tol n objs w)
    (h : StlWriter.writeObj tol n w o = .ok w') : StlInv tol n objs w' := by
  unfold StlWriter.writeObj at h
  cases hss : stlSurfaces o with
  | error e => rw [hss] at h; cases h
  | ok ss =>
    rw [hss] at h
    simp only [bind, Except.bind] at h
    refine foldlM_inv _ (StlInv tol n objs) ss w w' ?_ hw h
    intro s hs w1 w2 hw1 hstep
    cases hfs : stlSurfaceFacets tol s n with
    | error e => simp only [hfs, bind, Except.bind] at hstep; cases hstep
    | ok fs =>
      simp only [hfs, bind, Except.bind, pure, Except.pure] at hstep
      have := Except.ok.inj hstep
      subst this
      exact foldl_write_inv
        (fun rec => ∃ o ∈ objs, ∃ ss, stlSurfaces o = .ok ss ∧ ∃ s ∈ ss, IsFacetOf tol n s rec) fs
        (fun f hf => ⟨o, ho, ss, hss, s, hs, (stlSurfaceFacets_spec tol s n fs hfs).2 f hf⟩) w1 hw1

/-- The finished file. -/
theorem stlFile_spec (tol : K) (objs : List (Splipy.Obj K)) (n : Option (ℕ × ℕ)) (f : StlFile K)
    (h : stlFile tol objs n = .ok f) :
    f.declared = f.records.length ∧
    ∀ rec ∈ f.records, ∃ o ∈ objs, ∃ ss, stlSurfaces o = .ok ss ∧ ∃ s ∈ ss, IsFacetOf tol n s rec := by
  unfold stlFile at h
  cases hw : objs.foldlM (StlWriter.writeObj tol n) { counter := 0, records := [] } with
  | error e => simp only [hw, bind, Except.bind] at h; cases h
  | ok w =>
    simp only [hw, bind, Except.bind, pure, Except.pure] at h
    have := Except.ok.inj h
    subst this
    exact foldlM_inv _ (StlInv tol n objs) objs _ w
      (fun o ho w1 w2 hw1 hs => writeObj_inv tol n objs o ho w1 w2 hw1 hs)
      ⟨rfl, by simp⟩ hw

end

end Splipy.FileIO
