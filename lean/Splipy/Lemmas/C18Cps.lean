import Mathlib.Tactic.Linarith
import Splipy.Model.Numbering

/-!
# C18 — `cps()`: the table holds at every number the control point numbered so
-/

namespace Splipy.MP.C18L

/-- the number at position `j` of patch `k` -/
def cpNum (cp : Array (NdArr ℤ)) (k j : ℕ) : ℤ := (cp.getD k default).data.getD j 0

theorem cpsStep_ok {cp : Array (NdArr ℤ)} {o : Obj} {k j : ℕ} {acc acc' : Array (List ℚ)}
    (h : cpsStep cp o k acc j = .ok acc') (hnn : 0 ≤ cpNum cp k j) :
    (cpNum cp k j).toNat < acc.size ∧ acc' = acc.setIfInBounds (cpNum cp k j).toNat (o.cps.data.getD j []) := by
  unfold cpsStep at h
  simp only at h
  have hi : ¬ (cp.getD k default).data.getD j 0 < 0 := by unfold cpNum at hnn; omega
  rw [if_neg hi] at h
  split at h
  · cases h
  · rename_i hb
    simp only [Except.ok.injEq] at h
    refine ⟨?_, h.symm⟩
    unfold cpNum
    omega

/-- the table is right at the position `(k', j')` -/
def GoodAt (objs : List Obj) (cp : Array (NdArr ℤ)) (acc : Array (List ℚ)) (k' j' : ℕ) : Prop :=
  acc.getD (cpNum cp k' j').toNat [] = (objs.getD k' default).cps.data.getD j' []

theorem inner_spec (objs : List Obj) (cp : Array (NdArr ℤ)) (k : ℕ) (o : Obj) (ho : objs.getD k default = o)
    (J : ℕ → Prop) (S : ℕ → ℕ → Prop)
    (hnn : ∀ k' j', (S k' j' ∨ (k' = k ∧ J j')) → 0 ≤ cpNum cp k' j')
    (hdet : ∀ k' j' j, (S k' j' ∨ (k' = k ∧ J j')) → J j → cpNum cp k' j' = cpNum cp k j →
      (objs.getD k' default).cps.data.getD j' [] = o.cps.data.getD j []) :
    ∀ (js : List ℕ) (acc acc' : Array (List ℚ)), (∀ j ∈ js, J j) → js.foldlM (cpsStep cp o k) acc = .ok acc' →
      (∀ k' j', S k' j' → GoodAt objs cp acc k' j') →
      acc'.size = acc.size ∧ ∀ k' j', (S k' j' ∨ (k' = k ∧ j' ∈ js)) → GoodAt objs cp acc' k' j'
  | [], acc, acc', _, h, hgood => by
    simp only [List.foldlM_nil, pure, Except.pure, Except.ok.injEq] at h
    subst h
    refine ⟨rfl, fun k' j' hS => ?_⟩
    rcases hS with hS | ⟨_, hj⟩
    · exact hgood k' j' hS
    · simp at hj
  | j :: js, acc, acc', hJ, h, hgood => by
    rw [List.foldlM_cons] at h
    simp only [bind, Except.bind] at h
    split at h
    · cases h
    · rename_i acc1 h1
      have hJj : J j := hJ j (by simp)
      obtain ⟨hlt, hacc1⟩ := cpsStep_ok h1 (hnn k j (Or.inr ⟨rfl, hJj⟩))
      -- after the write everything processed so far (S, and (k, j)) is good
      have hgood1 : ∀ k' j', (S k' j' ∨ (k' = k ∧ j' = j)) → GoodAt objs cp acc1 k' j' := by
        intro k' j' hS
        have hS' : S k' j' ∨ (k' = k ∧ J j') := by
          rcases hS with hS | ⟨hk, hj⟩
          · exact Or.inl hS
          · exact Or.inr ⟨hk, hj ▸ hJj⟩
        unfold GoodAt
        rw [hacc1, Array.getD_eq_getD_getElem?, Array.getElem?_setIfInBounds]
        by_cases heq : (cpNum cp k j).toNat = (cpNum cp k' j').toNat
        · have hnum : cpNum cp k' j' = cpNum cp k j := by
            have h1 := hnn k j (Or.inr ⟨rfl, hJj⟩)
            have h2 := hnn k' j' hS'
            omega
          rw [if_pos heq, if_pos hlt]
          simp only [Option.getD_some]
          exact (hdet k' j' j hS' hJj hnum).symm
        · rw [if_neg heq]
          rcases hS with hS | ⟨rfl, rfl⟩
          · have := hgood k' j' hS
            unfold GoodAt at this
            rw [← this, Array.getD_eq_getD_getElem?]
          · exact absurd rfl heq
      have hsub : ∀ k' j', ((S k' j' ∨ (k' = k ∧ j' = j)) ∨ (k' = k ∧ J j')) → (S k' j' ∨ (k' = k ∧ J j')) := by
        intro k' j' h
        rcases h with (h | ⟨hk, hj⟩) | h
        · exact Or.inl h
        · exact Or.inr ⟨hk, hj ▸ hJj⟩
        · exact Or.inr h
      obtain ⟨hsz, hfin⟩ := inner_spec objs cp k o ho J (fun k' j' => S k' j' ∨ (k' = k ∧ j' = j))
        (fun k' j' h => hnn k' j' (hsub k' j' h))
        (fun k' j' j0 h => hdet k' j' j0 (hsub k' j' h))
        js acc1 acc' (fun j' hj' => hJ j' (List.mem_cons_of_mem _ hj')) h hgood1
      refine ⟨by rw [hsz, hacc1]; simp, fun k' j' hS => hfin k' j' ?_⟩
      rcases hS with hS | ⟨hk, hj⟩
      · exact Or.inl (Or.inl hS)
      · rcases List.mem_cons.1 hj with rfl | hj'
        · exact Or.inl (Or.inr ⟨hk, rfl⟩)
        · exact Or.inr ⟨hk, hj'⟩

/-- positions of the patches `off ≤ k' < bound` -/
def Done (cp : Array (NdArr ℤ)) (lo hi : ℕ) (k' j' : ℕ) : Prop :=
  lo ≤ k' ∧ k' < hi ∧ j' < (cp.getD k' default).data.size

theorem outer_spec (dimension : ℕ) (objs : List Obj) (cp : Array (NdArr ℤ))
    (hnn : ∀ k' j', k' < objs.length → j' < (cp.getD k' default).data.size → 0 ≤ cpNum cp k' j')
    (hdet : ∀ k' j' k j, k' < objs.length → j' < (cp.getD k' default).data.size →
      k < objs.length → j < (cp.getD k default).data.size → cpNum cp k' j' = cpNum cp k j →
      (objs.getD k' default).cps.data.getD j' [] = (objs.getD k default).cps.data.getD j []) :
    ∀ (l : List Obj) (off : ℕ) (acc acc' : Array (List ℚ)),
      (∀ i o, l[i]? = some o → objs[off + i]? = some o) →
      (l.zipIdx off).foldlM (fun (acc : Array (List ℚ)) (ok : Obj × ℕ) =>
        if ok.1.ncomp ≠ dimension then .error .value
        else (List.range (cp.getD ok.2 default).data.size).foldlM (cpsStep cp ok.1 ok.2) acc) acc = .ok acc' →
      (∀ k' j', Done cp 0 off k' j' → GoodAt objs cp acc k' j') →
      acc'.size = acc.size ∧ ∀ k' j', Done cp 0 (off + l.length) k' j' → GoodAt objs cp acc' k' j'
  | [], off, acc, acc', _, h, hgood => by
    simp only [List.zipIdx_nil, List.foldlM_nil, pure, Except.pure, Except.ok.injEq] at h
    subst h
    exact ⟨rfl, fun k' j' hd => hgood k' j' (by simpa using hd)⟩
  | o :: l, off, acc, acc', hl, h, hgood => by
    simp only [List.zipIdx_cons, List.foldlM_cons, bind, Except.bind] at h
    split at h
    · cases h
    · rename_i acc1 h1
      split at h1
      · cases h1
      · have ho : objs[off]? = some o := by simpa using hl 0 o (by simp)
        have hoff : off < objs.length := (List.getElem?_eq_some_iff.1 ho).1
        have hoD : objs.getD off default = o := by simp [List.getD_eq_getElem?_getD, ho]
        have hDone : ∀ k' j', Done cp 0 off k' j' → k' < objs.length ∧ j' < (cp.getD k' default).data.size :=
          fun k' j' hd => ⟨by have := hd.2.1; omega, hd.2.2⟩
        obtain ⟨hsz1, hg1⟩ := inner_spec objs cp off o hoD (fun j => j < (cp.getD off default).data.size)
          (Done cp 0 off)
          (fun k' j' hS => by
            rcases hS with hS | ⟨rfl, hj⟩
            · exact hnn k' j' (hDone k' j' hS).1 (hDone k' j' hS).2
            · exact hnn k' j' hoff hj)
          (fun k' j' j hS hj hnum => by
            rw [← hoD]
            rcases hS with hS | ⟨rfl, hj'⟩
            · exact hdet k' j' off j (hDone k' j' hS).1 (hDone k' j' hS).2 hoff hj hnum
            · exact hdet k' j' k' j hoff hj' hoff hj hnum)
          _ acc acc1 (fun j hj => List.mem_range.1 hj) h1 hgood
        obtain ⟨hsz2, hg2⟩ := outer_spec dimension objs cp hnn hdet l (off + 1) acc1 acc'
          (fun i o' hi => by
            have := hl (i + 1) o' (by simpa using hi)
            rw [show off + 1 + i = off + (i + 1) by omega]
            exact this) h
          (fun k' j' hd => hg1 k' j' (by
            rcases Nat.lt_or_eq_of_le (Nat.lt_succ_iff.1 hd.2.1) with hlt | heq
            · exact Or.inl ⟨hd.1, hlt, hd.2.2⟩
            · exact Or.inr ⟨heq, List.mem_range.2 (heq ▸ hd.2.2)⟩))
        refine ⟨by rw [hsz2, hsz1], fun k' j' hd => hg2 k' j' ?_⟩
        simp only [List.length_cons] at hd
        exact ⟨hd.1, by have := hd.2.1; omega, hd.2.2⟩

/-- **`cps()` returns each point's coordinates**: if all numbers are non-negative and a number
    determines the control point, the table holds at `N_k[j]` the control point `j` of patch `k`. -/
theorem cpsTable_spec (dimension : ℕ) (objs : List Obj) (cp : Array (NdArr ℤ)) (ncps : ℕ) (tbl : Array (List ℚ))
    (h : cpsTable dimension objs cp ncps = .ok tbl)
    (hnn : ∀ k' j', k' < objs.length → j' < (cp.getD k' default).data.size → 0 ≤ cpNum cp k' j')
    (hdet : ∀ k' j' k j, k' < objs.length → j' < (cp.getD k' default).data.size →
      k < objs.length → j < (cp.getD k default).data.size → cpNum cp k' j' = cpNum cp k j →
      (objs.getD k' default).cps.data.getD j' [] = (objs.getD k default).cps.data.getD j []) :
    tbl.size = ncps ∧ ∀ k j, k < objs.length → j < (cp.getD k default).data.size →
      tbl.getD (cpNum cp k j).toNat [] = (objs.getD k default).cps.data.getD j [] := by
  unfold cpsTable at h
  obtain ⟨h1, h2⟩ := outer_spec dimension objs cp hnn hdet objs 0 _ tbl (fun i o hi => by simpa using hi) h
    (fun k' j' hd => by have := hd.2.1; omega)
  refine ⟨by rw [h1]; simp, fun k j hk hj => h2 k j ⟨Nat.zero_le _, by omega, hj⟩⟩

end Splipy.MP.C18L
