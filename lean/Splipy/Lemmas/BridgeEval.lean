import Splipy.Lemmas.TensorEvalDefault
import Splipy.Lemmas.TensorEvalObj3
import Splipy.Lemmas.C09Algebra
import Mathlib.Tactic.Ring
import Mathlib.Tactic.Linarith

/-!
# Bridge (work package p11), part 1: `Obj.evaluate` as a weighted sum over the control points

`Bridge.num cps N nc W c = Σ_{k<N} W k · cps[k·nc + c]` is one homogeneous coordinate of one
evaluated point; `Bridge.IsEval o N M W res` says that the tensor `res` holds, for `M` points with
weight families `W p`, the (projected, if `o.rational`) points of `o`.

* `IsEval.data_eq` — two objects with equal homogeneous sums have equal result arrays;
* `IsEval.evalPt` — the entries are `C09.evalPt` of the control points;
* `eval_curve / eval_surface / eval_volume` — C02 in this form (`specRow` weights, flattened in
  C order: `Ws`, `Wv`);
* `W3`, `num_W3`, `dir_transfer` — the weights split as outer × direction × inner, so a 1-D identity
  on every fibre along one direction transfers to the whole sum.
-/

namespace Splipy
namespace Bridge

set_option linter.unusedSectionVars false

open Finset

section algebra
variable {K : Type} [Field K]

/-- `Σ_{k<N} W k · cps[k·nc + c]`. -/
def num (cps : Tensor K) (N nc : ℕ) (W : ℕ → K) (c : ℕ) : K :=
  ∑ k ∈ range N, W k * cps.get (k * nc + c)

/-- Flattening of a double sum in C order. -/
theorem sum_range_mul_flat {M : Type} [AddCommMonoid M] (n1 n2 : ℕ) (F : ℕ → ℕ → M) :
    ∑ k ∈ range (n1 * n2), F (k / n2) (k % n2) = ∑ i ∈ range n1, ∑ j ∈ range n2, F i j := by
  induction n1 with
  | zero => simp
  | succ n1 ih =>
    rw [Nat.succ_mul, sum_range_add, ih, sum_range_succ]
    congr 1
    apply sum_congr rfl
    intro j hj
    have hj' := mem_range.mp hj
    have hpos : 0 < n2 := by omega
    rw [Nat.mul_comm n1 n2, Nat.mul_add_div hpos, Nat.mul_add_mod, Nat.div_eq_of_lt hj',
      Nat.mod_eq_of_lt hj', Nat.add_zero]

/-- Tensor weights, outer × direction × inner: `k = (a·n + j)·I + i`. -/
def W3 (n I : ℕ) (wa wm wi : ℕ → K) (k : ℕ) : K := wa (k / I / n) * wm (k / I % n) * wi (k % I)

/-- Surface weights `k = j₁·n₂ + j₂`. -/
def Ws (n2 : ℕ) (w1 w2 : ℕ → K) (k : ℕ) : K := w1 (k / n2) * w2 (k % n2)

/-- Volume weights `k = (j₁·n₂ + j₂)·n₃ + j₃`. -/
def Wv (n2 n3 : ℕ) (w1 w2 w3 : ℕ → K) (k : ℕ) : K :=
  w1 (k / n3 / n2) * w2 (k / n3 % n2) * w3 (k % n3)

theorem num_congr (cps : Tensor K) (N nc : ℕ) (W W' : ℕ → K) (c : ℕ)
    (h : ∀ k, k < N → W k = W' k) : num cps N nc W c = num cps N nc W' c := by
  unfold num
  exact sum_congr rfl (fun k hk => by rw [h k (mem_range.mp hk)])

/-- Expansion of the sum with `W3` weights. -/
theorem num_W3 (cps : Tensor K) (A n I nc : ℕ) (wa wm wi : ℕ → K) (c : ℕ) :
    num cps (A * n * I) nc (W3 n I wa wm wi) c
      = ∑ a ∈ range A, ∑ i ∈ range I, wa a * wi i *
          ∑ j ∈ range n, wm j * cps.get (((a * n + j) * I + i) * nc + c) := by
  unfold num W3
  have h1 := sum_range_mul_flat (A * n) I
    (fun r i => wa (r / n) * wm (r % n) * wi i * cps.get ((r * I + i) * nc + c))
  have e : ∀ k, wa (k / I / n) * wm (k / I % n) * wi (k % I) * cps.get (k * nc + c)
      = (fun r i => wa (r / n) * wm (r % n) * wi i * cps.get ((r * I + i) * nc + c))
          (k / I) (k % I) := by
    intro k
    simp only []
    rw [Nat.div_add_mod' k I]
  rw [sum_congr rfl (fun k _ => e k), h1]
  have h2 := sum_range_mul_flat A n
    (fun a j => ∑ i ∈ range I, wa a * wm j * wi i * cps.get (((a * n + j) * I + i) * nc + c))
  have e2 : ∀ r, (∑ i ∈ range I, wa (r / n) * wm (r % n) * wi i * cps.get ((r * I + i) * nc + c))
      = (fun a j => ∑ i ∈ range I, wa a * wm j * wi i * cps.get (((a * n + j) * I + i) * nc + c))
          (r / n) (r % n) := by
    intro r
    simp only []
    rw [Nat.div_add_mod' r n]
  rw [sum_congr rfl (fun r _ => e2 r), h2]
  apply sum_congr rfl
  intro a _
  rw [sum_comm]
  apply sum_congr rfl
  intro i _
  rw [mul_sum]
  apply sum_congr rfl
  intro j _
  ring

/-- **Direction transfer**: a 1-D identity on every fibre along the middle direction gives the
identity of the full sums. -/
theorem dir_transfer (cps cps' : Tensor K) (A n n' I nc : ℕ) (wa wm wm' wi : ℕ → K) (c : ℕ)
    (h : ∀ a i, a < A → i < I →
      ∑ j ∈ range n', wm' j * cps'.get (((a * n' + j) * I + i) * nc + c)
        = ∑ j ∈ range n, wm j * cps.get (((a * n + j) * I + i) * nc + c)) :
    num cps' (A * n' * I) nc (W3 n' I wa wm' wi) c = num cps (A * n * I) nc (W3 n I wa wm wi) c := by
  rw [num_W3, num_W3]
  apply sum_congr rfl
  intro a ha
  apply sum_congr rfl
  intro i hi
  rw [h a i (mem_range.mp ha) (mem_range.mp hi)]

/-! ### The evaluate weights in `W3` form, per parametric dimension and direction -/

theorem curve_W3 (n1 : ℕ) (w1 : ℕ → K) (k : ℕ) (hk : k < n1) :
    w1 k = W3 n1 1 (fun _ => 1) w1 (fun _ => 1) k := by
  unfold W3
  simp [Nat.mod_eq_of_lt hk]

theorem Ws_W3_u (n1 n2 : ℕ) (w1 w2 : ℕ → K) (k : ℕ) (hk : k < n1 * n2) :
    Ws n2 w1 w2 k = W3 n1 n2 (fun _ => 1) w1 w2 k := by
  unfold Ws W3
  have : k / n2 < n1 := Nat.div_lt_of_lt_mul (by rw [Nat.mul_comm]; exact hk)
  simp [Nat.mod_eq_of_lt this]

theorem Ws_W3_v (n2 : ℕ) (w1 w2 : ℕ → K) (k : ℕ) :
    Ws n2 w1 w2 k = W3 n2 1 w1 w2 (fun _ => 1) k := by
  unfold Ws W3
  simp

theorem Wv_W3_u (n1 n2 n3 : ℕ) (w1 w2 w3 : ℕ → K) (k : ℕ) (hk : k < n1 * n2 * n3) :
    Wv n2 n3 w1 w2 w3 k = W3 n1 (n2 * n3) (fun _ => 1) w1 (Ws n3 w2 w3) k := by
  unfold Wv W3 Ws
  have h1 : k / (n2 * n3) < n1 :=
    Nat.div_lt_of_lt_mul (by rw [Nat.mul_comm, ← Nat.mul_assoc]; exact hk)
  rw [Nat.mod_eq_of_lt h1, Nat.mul_comm n2 n3, ← Nat.div_div_eq_div_mul, Nat.mod_mul_right_div_self,
    Nat.mod_mul_right_mod]
  ring

theorem Wv_W3_v (n2 n3 : ℕ) (w1 w2 w3 : ℕ → K) (k : ℕ) :
    Wv n2 n3 w1 w2 w3 k = W3 n2 n3 w1 w2 w3 k := rfl

theorem Wv_W3_w (n2 n3 : ℕ) (w1 w2 w3 : ℕ → K) (k : ℕ) :
    Wv n2 n3 w1 w2 w3 k = W3 n3 1 (Ws n2 w1 w2) w3 (fun _ => 1) k := by
  unfold Wv W3 Ws
  simp

end algebra

section eval
variable {K : Type} [Field K] [LinearOrder K] [IsStrictOrderedRing K] [FloorRing K]

/-- `res` holds the `M` evaluated points of `o` whose weight families over the `N` control points
are `W p`: homogeneous sums, divided by the weight sum if `o.rational`. -/
structure IsEval (o : Obj K) (N M : ℕ) (W : ℕ → ℕ → K) (res : Tensor K) : Prop where
  size : res.data.size = M * o.dimension
  entry : ∀ p c, p < M → c < o.dimension → res.get (p * o.dimension + c)
    = if o.rational then num o.cps N o.ncomp (W p) c / num o.cps N o.ncomp (W p) o.dimension
      else num o.cps N o.ncomp (W p) c

omit [LinearOrder K] [IsStrictOrderedRing K] [FloorRing K] in
/-- Two arrays of the same size with the same entries. -/
theorem data_ext {t t' : Tensor K} (hsz : t'.data.size = t.data.size)
    (h : ∀ k, k < t.data.size → t'.get k = t.get k) : t'.data = t.data := by
  apply Array.ext hsz
  intro k h1 h2
  have := h k h2
  unfold Tensor.get at this
  rw [Array.getD_eq_getD_getElem?, Array.getD_eq_getD_getElem?, Array.getElem?_eq_getElem h1,
    Array.getElem?_eq_getElem h2] at this
  simpa using this

omit [LinearOrder K] [IsStrictOrderedRing K] [FloorRing K] in
/-- **Same homogeneous sums ⇒ same result array.** -/
theorem IsEval.data_eq {o o' : Obj K} {N N' M : ℕ} {W W' : ℕ → ℕ → K} {res res' : Tensor K}
    (h : IsEval o N M W res) (h' : IsEval o' N' M W' res')
    (hrat : o'.rational = o.rational) (hnc : o'.ncomp = o.ncomp)
    (hnum : ∀ p c, p < M → c < o.ncomp →
      num o'.cps N' o.ncomp (W' p) c = num o.cps N o.ncomp (W p) c) :
    res'.data = res.data := by
  have hdim : o'.dimension = o.dimension := by unfold Obj.dimension; rw [hrat, hnc]
  apply data_ext (by rw [h.size, h'.size, hdim])
  intro k hk
  rw [h.size] at hk
  have hdpos : 0 < o.dimension := by
    rcases Nat.eq_zero_or_pos o.dimension with h0 | h0
    · rw [h0] at hk; omega
    · exact h0
  have hp : k / o.dimension < M := Nat.div_lt_of_lt_mul (by rw [Nat.mul_comm]; exact hk)
  have hc : k % o.dimension < o.dimension := Nat.mod_lt _ hdpos
  have hk' : k = k / o.dimension * o.dimension + k % o.dimension := (Nat.div_add_mod' k _).symm
  have e1 := h.entry _ _ hp hc
  have e2 := h'.entry _ _ hp (by rw [hdim]; exact hc)
  rw [hdim, ← hk'] at e2
  rw [← hk'] at e1
  rw [e1, e2, hrat, hnc]
  have hcn : k % o.dimension < o.ncomp := by
    have : o.dimension ≤ o.ncomp := by unfold Obj.dimension; omega
    omega
  cases hr : o.rational with
  | false =>
    simp only [Bool.false_eq_true, if_false]
    exact hnum _ _ hp hcn
  | true =>
    simp only [if_true]
    have hdn : o.dimension < o.ncomp := by
      unfold Obj.dimension at hdpos ⊢; rw [hr] at hdpos ⊢; simp only [if_true] at hdpos ⊢; omega
    rw [hnum _ _ hp hcn, hnum _ _ hp hdn]

omit [LinearOrder K] [IsStrictOrderedRing K] [FloorRing K] in
/-- The entries are `C09.evalPt` of the control points (weight sum one if non-rational). -/
theorem IsEval.evalPt {o : Obj K} {M : ℕ} {W : ℕ → ℕ → K} {res : Tensor K}
    (h : IsEval o o.npts M W res)
    (hsum : o.rational = false → ∀ p, p < M → ∑ k ∈ range o.npts, W p k = 1)
    {p c : ℕ} (hp : p < M) (hc : c < o.dimension) :
    res.get (p * o.dimension + c) = C09.evalPt (range o.npts) (W p) o.cpPhys o.cpWt c := by
  rw [h.entry p c hp hc, C09.evalPt_apply]
  unfold num Obj.cpPhys Obj.cpWt Obj.cp
  cases hr : o.rational with
  | false =>
    simp only [Bool.false_eq_true, if_false, mul_one, if_pos hc]
    rw [hsum hr p hp, div_one]
  | true =>
    simp only [if_true, if_pos hc]

omit [LinearOrder K] [IsStrictOrderedRing K] [FloorRing K] in
/-- … and beyond the dimension `evalPt` is zero. -/
theorem evalPt_beyond (o : Obj K) (W : ℕ → K) {c : ℕ} (hc : ¬ c < o.dimension) :
    C09.evalPt (range o.npts) W o.cpPhys o.cpWt c = 0 := by
  rw [C09.evalPt_apply]
  unfold Obj.cpPhys
  simp [hc]

/-! ### Convex weight families -/

/-- Non-negative weights summing to one. -/
def Convex (N : ℕ) (W : ℕ → K) : Prop := (∀ k, k < N → 0 ≤ W k) ∧ ∑ k ∈ range N, W k = 1

theorem convex_specRow {b : Basis K} (hv : b.Valid) {tol u : K} (htol : 0 < tol)
    (h : b.Admissible tol u) : Convex b.numFunctions (b.specRow u) := by
  constructor
  · intro k hk
    rw [← Basis.rowVal_eq_specRow hv htol h hk]
    exact Basis.rowVal_nonneg hv htol h k
  · rw [← Basis.rowVal_sum hv htol h]
    exact sum_congr rfl (fun k hk => (Basis.rowVal_eq_specRow hv htol h (mem_range.mp hk)).symm)

omit [FloorRing K] in
theorem Convex.ws {n1 n2 : ℕ} {w1 w2 : ℕ → K} (h1 : Convex n1 w1) (h2 : Convex n2 w2) :
    Convex (n1 * n2) (Ws n2 w1 w2) := by
  constructor
  · intro k hk
    rcases Nat.eq_zero_or_pos n2 with h0 | h0
    · rw [h0] at hk; omega
    · exact mul_nonneg (h1.1 _ (Nat.div_lt_of_lt_mul (by rw [Nat.mul_comm]; exact hk)))
        (h2.1 _ (Nat.mod_lt _ h0))
  · unfold Ws
    rw [C09.sum_range_mul, h1.2, h2.2, one_mul]

omit [FloorRing K] in
theorem Convex.wv {n1 n2 n3 : ℕ} {w1 w2 w3 : ℕ → K} (h1 : Convex n1 w1) (h2 : Convex n2 w2)
    (h3 : Convex n3 w3) : Convex (n1 * n2 * n3) (Wv n2 n3 w1 w2 w3) := by
  have h := (h1.ws h2).ws h3
  refine ⟨fun k hk => ?_, ?_⟩
  · have := h.1 k hk
    unfold Ws at this
    unfold Wv
    exact this
  · rw [← h.2]
    apply sum_congr rfl
    intro k _
    rfl

/-- Positive weights: the weight sum of a convex family is positive. -/
theorem Convex.homW_pos {o : Obj K} {W : ℕ → K} (h : Convex o.npts W)
    (hw : ∀ k, k < o.npts → 0 < o.cpWt k) : 0 < C09.homW (range o.npts) W o.cpWt :=
  convex_sum_pos o.npts W o.cpWt h.1 h.2 hw

/-! ### Nested form of the flattened sums -/

omit [LinearOrder K] [IsStrictOrderedRing K] [FloorRing K] in
theorem num_Ws (cps : Tensor K) (n1 n2 nc : ℕ) (w1 w2 : ℕ → K) (c : ℕ) :
    num cps (n1 * n2) nc (Ws n2 w1 w2) c
      = ∑ j1 ∈ range n1, ∑ j2 ∈ range n2, w1 j1 * w2 j2 * cps.get ((j1 * n2 + j2) * nc + c) := by
  unfold num Ws
  rw [← sum_range_mul_flat n1 n2 (fun j1 j2 => w1 j1 * w2 j2 * cps.get ((j1 * n2 + j2) * nc + c))]
  apply sum_congr rfl
  intro k _
  rw [Nat.div_add_mod' k n2]

omit [LinearOrder K] [IsStrictOrderedRing K] [FloorRing K] in
theorem num_Wv (cps : Tensor K) (n1 n2 n3 nc : ℕ) (w1 w2 w3 : ℕ → K) (c : ℕ) :
    num cps (n1 * n2 * n3) nc (Wv n2 n3 w1 w2 w3) c
      = ∑ j1 ∈ range n1, ∑ j2 ∈ range n2, ∑ j3 ∈ range n3,
          w1 j1 * w2 j2 * w3 j3 * cps.get (((j1 * n2 + j2) * n3 + j3) * nc + c) := by
  unfold num Wv
  rw [← sum_range_mul_flat n1 n2 (fun j1 j2 => ∑ j3 ∈ range n3,
    w1 j1 * w2 j2 * w3 j3 * cps.get (((j1 * n2 + j2) * n3 + j3) * nc + c))]
  rw [← sum_range_mul_flat (n1 * n2) n3 (fun r j3 =>
    w1 (r / n2) * w2 (r % n2) * w3 j3 * cps.get (((r / n2 * n2 + r % n2) * n3 + j3) * nc + c))]
  apply sum_congr rfl
  intro k _
  rw [Nat.div_add_mod' (k / n3) n2, Nat.div_add_mod' k n3]

/-! ### C02 in `IsEval` form -/

/-- Curves (rational or not), valid basis, admissible parameters (non-empty in a non-periodic
direction: the real code raises `ValueError` for `[]` there). -/
theorem eval_curve {o : Obj K} {b1 : Basis K} (hb : o.bases = #[b1]) (hv1 : b1.Valid) {nc : ℕ}
    (hs : o.cps.shape = [b1.numFunctions, nc]) (hnc : o.rational = true → 1 ≤ nc)
    {tol : K} (htol : 0 < tol) {us : List K} (hus : ∀ u ∈ us, b1.Admissible tol u)
    (hne1 : b1.periodic < 0 → us ≠ [] := by (first | assumption | (simp; done) | skip)) :
    ∃ res, o.evaluate tol [us] true = .ok res ∧ res.shape = [us.length, o.dimension] ∧
      IsEval o b1.numFunctions us.length (fun p => b1.specRow (us.getD p 0)) res := by
  obtain ⟨hncomp, hdim⟩ := Obj.dimension_of_shape (o := o) (pre := [b1.numFunctions]) hs
  cases hr : o.rational with
  | false =>
    rw [hr] at hdim
    simp only [Bool.false_eq_true, if_false, Nat.sub_zero] at hdim
    obtain ⟨res, h1, h2, h3, h4⟩ := Obj.evaluate1_spec_nonrational hb hv1 hs hr htol hus
    refine ⟨res, h1, by rw [hdim]; exact h2, by rw [hdim]; exact h3, ?_⟩
    intro p c hp hc
    rw [hdim] at hc ⊢
    rw [h4 p c hp hc, hr, hncomp]
    rfl
  | true =>
    have h1 := hnc hr
    obtain ⟨dim, rfl⟩ : ∃ dim, nc = dim + 1 := ⟨nc - 1, by omega⟩
    rw [hr] at hdim
    simp only [if_true, Nat.add_sub_cancel] at hdim
    obtain ⟨res, h1, h2, h3, h4⟩ := Obj.evaluate1_grid_rational hb hs hr tol us
      (Obj.not_outOfDomain1 hb hv1 htol hus)
    refine ⟨res, h1, by rw [hdim]; exact h2, by rw [hdim]; exact h3, ?_⟩
    intro p c hp hc
    rw [hdim] at hc ⊢
    rw [h4 p c hp hc, hr, hncomp]
    simp only [if_true]
    unfold num
    have hu := hus _ (getD_mem_of_lt us hp 0)
    congr 1 <;>
    · apply sum_congr rfl
      intro j hj
      rw [Basis.rowVal_eq_specRow hv1 htol hu (mem_range.mp hj)]

/-- Surfaces (rational or not): point `p = i₁·len(vs) + i₂`, weights `Ws`. -/
theorem eval_surface {o : Obj K} {b1 b2 : Basis K} (hb : o.bases = #[b1, b2]) (hv1 : b1.Valid)
    (hv2 : b2.Valid) {nc : ℕ} (hs : o.cps.shape = [b1.numFunctions, b2.numFunctions, nc])
    (hnc : o.rational = true → 1 ≤ nc) {tol : K} (htol : 0 < tol) {us vs : List K}
    (hus : ∀ u ∈ us, b1.Admissible tol u) (hvs : ∀ v ∈ vs, b2.Admissible tol v)
    (hne1 : b1.periodic < 0 → us ≠ [] := by (first | assumption | (simp; done) | skip))
    (hne2 : b2.periodic < 0 → vs ≠ [] := by (first | assumption | (simp; done) | skip)) :
    ∃ res, o.evaluate tol [us, vs] true = .ok res ∧
      res.shape = [us.length, vs.length, o.dimension] ∧
      IsEval o (b1.numFunctions * b2.numFunctions) (us.length * vs.length)
        (fun p => Ws b2.numFunctions (b1.specRow (us.getD (p / vs.length) 0))
          (b2.specRow (vs.getD (p % vs.length) 0))) res := by
  obtain ⟨hncomp, hdim⟩ := Obj.dimension_of_shape (o := o)
    (pre := [b1.numFunctions, b2.numFunctions]) hs
  have hidx : ∀ p, p < us.length * vs.length → p / vs.length < us.length ∧
      p % vs.length < vs.length := by
    intro p hp
    have hpos : 0 < vs.length := by
      rcases Nat.eq_zero_or_pos vs.length with h0 | h0
      · rw [h0] at hp; omega
      · exact h0
    exact ⟨Nat.div_lt_of_lt_mul (by rw [Nat.mul_comm]; exact hp), Nat.mod_lt _ hpos⟩
  cases hr : o.rational with
  | false =>
    rw [hr] at hdim
    simp only [Bool.false_eq_true, if_false, Nat.sub_zero] at hdim
    obtain ⟨res, h1, h2, h3, h4⟩ := Obj.evaluate2_spec_nonrational hb hv1 hv2 hs hr htol hus hvs
    refine ⟨res, h1, by rw [hdim]; exact h2, by rw [hdim]; exact h3, ?_⟩
    intro p c hp hc
    rw [hdim] at hc ⊢
    obtain ⟨hi1, hi2⟩ := hidx p hp
    have e := h4 _ _ c hi1 hi2 hc
    rw [Nat.div_add_mod' p vs.length] at e
    rw [e, hr, hncomp, num_Ws]
    rfl
  | true =>
    have h1 := hnc hr
    obtain ⟨dim, rfl⟩ : ∃ dim, nc = dim + 1 := ⟨nc - 1, by omega⟩
    rw [hr] at hdim
    simp only [if_true, Nat.add_sub_cancel] at hdim
    obtain ⟨res, h1, h2, h3, h4⟩ := Obj.evaluate2_grid_rational hb hs hr tol us vs
      (Obj.not_outOfDomain2 hb hv1 hv2 htol hus hvs)
    refine ⟨res, h1, by rw [hdim]; exact h2, by rw [hdim]; exact h3, ?_⟩
    intro p c hp hc
    rw [hdim] at hc ⊢
    obtain ⟨hi1, hi2⟩ := hidx p hp
    have e := h4 _ _ c hi1 hi2 hc
    rw [Nat.div_add_mod' p vs.length] at e
    rw [e, hr, hncomp, num_Ws, num_Ws]
    simp only [if_true]
    have hu := hus _ (getD_mem_of_lt us hi1 0)
    have hv := hvs _ (getD_mem_of_lt vs hi2 0)
    congr 1 <;>
    · apply sum_congr rfl
      intro j1 hj1
      apply sum_congr rfl
      intro j2 hj2
      rw [Basis.rowVal_eq_specRow hv1 htol hu (mem_range.mp hj1),
        Basis.rowVal_eq_specRow hv2 htol hv (mem_range.mp hj2)]

/-- Volumes (rational or not): point `p = (i₁·len(vs) + i₂)·len(ws) + i₃`, weights `Wv`. -/
theorem eval_volume {o : Obj K} {b1 b2 b3 : Basis K} (hb : o.bases = #[b1, b2, b3])
    (hv1 : b1.Valid) (hv2 : b2.Valid) (hv3 : b3.Valid) {nc : ℕ}
    (hs : o.cps.shape = [b1.numFunctions, b2.numFunctions, b3.numFunctions, nc])
    (hnc : o.rational = true → 1 ≤ nc) {tol : K} (htol : 0 < tol) {us vs ws : List K}
    (hus : ∀ u ∈ us, b1.Admissible tol u) (hvs : ∀ v ∈ vs, b2.Admissible tol v)
    (hws : ∀ w ∈ ws, b3.Admissible tol w)
    (hne1 : b1.periodic < 0 → us ≠ [] := by (first | assumption | (simp; done) | skip))
    (hne2 : b2.periodic < 0 → vs ≠ [] := by (first | assumption | (simp; done) | skip))
    (hne3 : b3.periodic < 0 → ws ≠ [] := by (first | assumption | (simp; done) | skip)) :
    ∃ res, o.evaluate tol [us, vs, ws] true = .ok res ∧
      res.shape = [us.length, vs.length, ws.length, o.dimension] ∧
      IsEval o (b1.numFunctions * b2.numFunctions * b3.numFunctions)
        (us.length * vs.length * ws.length)
        (fun p => Wv b2.numFunctions b3.numFunctions
          (b1.specRow (us.getD (p / ws.length / vs.length) 0))
          (b2.specRow (vs.getD (p / ws.length % vs.length) 0))
          (b3.specRow (ws.getD (p % ws.length) 0))) res := by
  obtain ⟨hncomp, hdim⟩ := Obj.dimension_of_shape (o := o)
    (pre := [b1.numFunctions, b2.numFunctions, b3.numFunctions]) hs
  have hidx : ∀ p, p < us.length * vs.length * ws.length →
      p / ws.length / vs.length < us.length ∧ p / ws.length % vs.length < vs.length ∧
      p % ws.length < ws.length := by
    intro p hp
    have hpos3 : 0 < ws.length := by
      rcases Nat.eq_zero_or_pos ws.length with h0 | h0
      · rw [h0] at hp; omega
      · exact h0
    have h12 : p / ws.length < us.length * vs.length :=
      Nat.div_lt_of_lt_mul (by rw [Nat.mul_comm]; exact hp)
    have hpos2 : 0 < vs.length := by
      rcases Nat.eq_zero_or_pos vs.length with h0 | h0
      · rw [h0, Nat.mul_zero] at h12; exact absurd h12 (Nat.not_lt_zero _)
      · exact h0
    exact ⟨Nat.div_lt_of_lt_mul (by rw [Nat.mul_comm]; exact h12), Nat.mod_lt _ hpos2,
      Nat.mod_lt _ hpos3⟩
  have hp_eq : ∀ p, (p / ws.length / vs.length * vs.length + p / ws.length % vs.length)
      * ws.length + p % ws.length = p := by
    intro p
    rw [Nat.div_add_mod' (p / ws.length) vs.length, Nat.div_add_mod' p ws.length]
  cases hr : o.rational with
  | false =>
    rw [hr] at hdim
    simp only [Bool.false_eq_true, if_false, Nat.sub_zero] at hdim
    obtain ⟨res, h1, h2, h3, h4⟩ :=
      Obj.evaluate3_spec_nonrational hb hv1 hv2 hv3 hs hr htol hus hvs hws
    refine ⟨res, h1, by rw [hdim]; exact h2, by rw [hdim]; exact h3, ?_⟩
    intro p c hp hc
    rw [hdim] at hc ⊢
    obtain ⟨hi1, hi2, hi3⟩ := hidx p hp
    have e := h4 _ _ _ c hi1 hi2 hi3 hc
    rw [hp_eq p] at e
    rw [e, hr, hncomp, num_Wv]
    rfl
  | true =>
    have h1 := hnc hr
    obtain ⟨dim, rfl⟩ : ∃ dim, nc = dim + 1 := ⟨nc - 1, by omega⟩
    rw [hr] at hdim
    simp only [if_true, Nat.add_sub_cancel] at hdim
    obtain ⟨res, h1, h2, h3, h4⟩ := Obj.evaluate3_grid_rational hb hs hr tol us vs ws
      (Obj.not_outOfDomain3 hb hv1 hv2 hv3 htol hus hvs hws)
    refine ⟨res, h1, by rw [hdim]; exact h2, by rw [hdim]; exact h3, ?_⟩
    intro p c hp hc
    rw [hdim] at hc ⊢
    obtain ⟨hi1, hi2, hi3⟩ := hidx p hp
    have e := h4 _ _ _ c hi1 hi2 hi3 hc
    rw [hp_eq p] at e
    rw [e, hr, hncomp, num_Wv, num_Wv]
    simp only [if_true]
    have hu := hus _ (getD_mem_of_lt us hi1 0)
    have hv := hvs _ (getD_mem_of_lt vs hi2 0)
    have hw := hws _ (getD_mem_of_lt ws hi3 0)
    congr 1 <;>
    · apply sum_congr rfl
      intro j1 hj1
      apply sum_congr rfl
      intro j2 hj2
      apply sum_congr rfl
      intro j3 hj3
      rw [Basis.rowVal_eq_specRow hv1 htol hu (mem_range.mp hj1),
        Basis.rowVal_eq_specRow hv2 htol hv (mem_range.mp hj2),
        Basis.rowVal_eq_specRow hv3 htol hw (mem_range.mp hj3)]

end eval

end Bridge
end Splipy
