import Splipy.Lemmas.C07OpenInsert
import Splipy.Lemmas.C07Roll
import Splipy.Lemmas.BridgeC07

/-!
# `Obj.split` along a non-periodic direction: every piece is an exact restriction

`PieceOK o dir pc lv hv`: `pc` is well formed, differs from `o` only along `dir`, where it is a
non-periodic basis of the same order on `[lv, hv]`, and every control-net fibre of `pc` is — value
and all derivatives, both sides — the spline of the corresponding fibre of `o` on `[lv, hv]`.
-/

namespace Splipy

set_option linter.unusedSectionVars false
set_option linter.unusedVariables false

open C04 C10

variable {K : Type} [Field K] [LinearOrder K] [IsStrictOrderedRing K] [FloorRing K]

/-- `t[..., lo:hi, ...]`: entry `r` along the axis is the old entry `lo + r`. -/
theorem Tensor.sliceAxis_at3 {K : Type} [Zero K] (t : Tensor K) (axis lo hi a r i : ℕ)
    (hax : axis < t.shape.length) (hr : r < hi - lo)
    (hi' : i < (Tensor.split3 t.shape axis).2.2) (ha : a < (Tensor.split3 t.shape axis).1) :
    (t.sliceAxis axis lo hi).at3 axis a r i = t.at3 axis a (lo + r) i := by
  unfold Tensor.sliceAxis Tensor.reindexAxis
  rw [Tensor.at3_build3 t.shape axis _ _ a r i hax hr hi' ha]

theorem Tensor.sliceAxis_shape {K : Type} [Zero K] (t : Tensor K) (axis lo hi : ℕ) :
    (t.sliceAxis axis lo hi).shape = t.shape.set axis (hi - lo) := rfl

theorem split3_set_outer (shape : List ℕ) (axis m : ℕ) :
    (Tensor.split3 (shape.set axis m) axis).1 = (Tensor.split3 shape axis).1 := by
  simp only [Tensor.split3]
  rw [List.take_set_of_le (le_refl _)]

theorem split3_set_inner (shape : List ℕ) (axis m : ℕ) :
    (Tensor.split3 (shape.set axis m) axis).2.2 = (Tensor.split3 shape axis).2.2 := by
  simp only [Tensor.split3]
  rw [List.drop_set_of_lt (by omega)]

/-- What the property demands of one piece. -/
structure PieceOK (o : Obj K) (dir : ℕ) (pc : Obj K) (lv hv : K) : Prop where
  wf : pc.WellFormed
  bases_size : pc.bases.size = o.bases.size
  other : ∀ d, d ≠ dir → pc.basis d = o.basis d
  rational_eq : pc.rational = o.rational
  periodic_eq : (pc.basis dir).periodic = -1
  order_eq : (pc.basis dir).order = (o.basis dir).order
  start_eq : (pc.basis dir).start = lv
  stop_eq : (pc.basis dir).stop = hv
  outer_eq : outerN pc dir = outerN o dir
  inner_eq : innerN pc dir = innerN o dir
  /-- at a split value the piece is clamped (its first `p` knots equal `lv`) … -/
  clamped_start : lv ≠ (o.basis dir).start → (pc.basis dir).kn 0 = lv
  /-- … and, unless the original already had more than `p` copies, the next knot is larger -/
  strict_start : lv ≠ (o.basis dir).start → (o.basis dir).mult lv ≤ (o.basis dir).order →
    lv < (pc.basis dir).kn (o.basis dir).order
  clamped_end : hv ≠ (o.basis dir).stop →
    (pc.basis dir).kn ((pc.basis dir).numFunctions + (o.basis dir).order - 1) = hv
  strict_end : hv ≠ (o.basis dir).stop → (pc.basis dir).kn ((pc.basis dir).numFunctions - 1) < hv
  same : ∀ a i, a < outerN o dir → i < innerN o dir → ∀ (s : Side) (d : ℕ) (t : K), s.mem lv hv t →
    splineDeriv s (pc.basis dir).kn ((o.basis dir).order - 1) (pc.basis dir).numFunctions
        (fibre pc dir a i) d t
      = splineDeriv s (o.basis dir).kn ((o.basis dir).order - 1) (o.basis dir).numFunctions
        (fibre o dir a i) d t

theorem pieceObj_ok {o so : Obj K} {dir : ℕ} {done : List K} (hd : dir < o.bases.size)
    (hI : OpenInv o so dir done) (lo hi : ℕ) (h1 : lo + (so.basis dir).order ≤ hi)
    (h2 : hi + (so.basis dir).order ≤ (so.basis dir).knots.size) (lv hv : K)
    (hlv : (so.basis dir).kn (lo + (so.basis dir).order - 1) = lv) (hhv : (so.basis dir).kn hi = hv)
    (hlt : lv < hv)
    (hcs : lv ≠ (o.basis dir).start → (so.basis dir).kn lo = lv)
    (hss : lv ≠ (o.basis dir).start → (o.basis dir).mult lv ≤ (o.basis dir).order →
      lv < (so.basis dir).kn (lo + (so.basis dir).order))
    (hce : hv ≠ (o.basis dir).stop → (so.basis dir).kn (hi + (so.basis dir).order - 1) = hv)
    (hse : hv ≠ (o.basis dir).stop → (so.basis dir).kn (hi - 1) < hv) :
    PieceOK o dir (Bridge.pieceObj so dir lo hi) lv hv := by
  obtain ⟨hw, hn, hper, hst, hen, hp, hc⟩ := hI.inv
  have hd' : dir < so.bases.size := by rw [hn]; exact hd
  have hvb := hw.valid dir hd'
  have hpos := hvb.order_pos
  have hpb : (Bridge.pieceObj so dir lo hi).basis dir = (so.basis dir).piece lo hi :=
    piece_basis so dir hd' _ _
  have hstart := Basis.piece_start (so.basis dir) lo hi hpos h2 (by omega)
  have hstop := Basis.piece_stop (so.basis dir) lo hi hpos h2 (by omega)
  have hax : dir < so.cps.shape.length := by rw [hw.shape_length]; omega
  have hnum : ((so.basis dir).piece lo hi).numFunctions = hi - lo :=
    Basis.piece_numFunctions _ lo hi h2 (by omega)
  have hnAll : hi ≤ (so.basis dir).numFunctions := by
    rw [Basis.numFunctions_of_nonperiodic hper]; unfold Basis.nAll; omega
  have hpk : ∀ j, lo + j < hi + (so.basis dir).order →
      ((so.basis dir).piece lo hi).kn j = (so.basis dir).kn (lo + j) :=
    fun j hj => Basis.piece_kn _ lo hi j h2 hj
  refine ⟨?_, ?_, ?_, hI.rational_eq, ?_, ?_, ?_, ?_, ?_, ?_, ?_, ?_, ?_, ?_, ?_⟩
  · exact piece_wf hw dir hd' hper lo hi h1 h2 (by rw [hstart, hstop, hlv, hhv]; exact hlt)
  · show (so.bases.set! dir _).size = _
    rw [size_set!, hn]
  · intro d hdd
    show ({ bases := so.bases.set! dir _, cps := _, rational := _ } : Obj K).basis d = _
    rw [basis_set_ne so dir d hdd, hI.other d hdd]
  · rw [hpb]; rfl
  · rw [hpb]; exact hp
  · rw [hpb, hstart, hlv]
  · rw [hpb, hstop, hhv]
  · show (Tensor.split3 (so.cps.sliceAxis dir lo hi).shape dir).1 = _
    rw [Tensor.sliceAxis_shape, split3_set_outer]; exact hI.outer_eq
  · show (Tensor.split3 (so.cps.sliceAxis dir lo hi).shape dir).2.2 = _
    rw [Tensor.sliceAxis_shape, split3_set_inner]; exact hI.inner_eq
  · intro hne; rw [hpb, hpk 0 (by omega)]; exact hcs hne
  · intro hne hm; rw [hpb, ← hp, hpk _ (by omega)]; exact hss hne hm
  · intro hne
    rw [hpb, hnum, ← hp, hpk _ (by omega), show lo + (hi - lo + (so.basis dir).order - 1)
      = hi + (so.basis dir).order - 1 by omega]
    exact hce hne
  · intro hne
    rw [hpb, hnum, hpk _ (by omega), show lo + (hi - lo - 1) = hi - 1 by omega]
    exact hse hne
  · intro a i ha hi' s d t ht
    rw [hpb, hnum, ← hI.same a i ha hi' s d t]
    have hfib : ∀ r, r < hi - lo → fibre (Bridge.pieceObj so dir lo hi) dir a i r = fibre so dir a i (lo + r) := by
      intro r hr
      exact Tensor.sliceAxis_at3 so.cps dir lo hi a r i hax hr
        (by have := hI.inner_eq; unfold innerN at this; rw [this]; exact hi')
        (by have := hI.outer_eq; unfold outerN at this; rw [this]; exact ha)
    rw [splineDeriv_congr s _ _ _ _ (fun j => fibre so dir a i (lo + j)) d t hfib, ← hp]
    exact Basis.piece_splineDeriv hvb lo hi _ (fibre so dir a i) (by omega) h2 hnAll s d t
      (by rw [hlv, hhv]; exact ht)

/-- The consecutive sub-intervals `[lv, k₁], [k₁, k₂], …, [k_m, e]`. -/
def ivalsAll (lv : K) : List K → K → List (K × K)
  | [], e => [(lv, e)]
  | k :: ks, e => (lv, k) :: ivalsAll k ks e

theorem ivalsAll_length (lv : K) (ks : List K) (e : K) : (ivalsAll lv ks e).length = ks.length + 1 := by
  induction ks generalizing lv with
  | nil => rfl
  | cons k ks ih => simp [ivalsAll, ih]

/-- **The second loop of `split` and the final piece**, started at knot/control index `lo` with
`kn (lo+p-1) = lv`. -/
theorem splitPieces_open_fold {o so : Obj K} {dir : ℕ} {done : List K} (hd : dir < o.bases.size)
    (hI : OpenInv o so dir done) {tol : K} (htol : 0 ≤ tol) :
    ∀ (ks : List K) (res : List (Obj K)) (lo : ℕ) (lv : K),
      (lo + (so.basis dir).order ≤ (so.basis dir).knots.size) →
      (so.basis dir).kn (lo + (so.basis dir).order - 1) = lv →
      (lv ≠ (o.basis dir).start → (so.basis dir).kn lo = lv) →
      (lv ≠ (o.basis dir).start → (o.basis dir).mult lv ≤ (o.basis dir).order →
        lv < (so.basis dir).kn (lo + (so.basis dir).order)) →
      List.Pairwise (· < ·) (lv :: ks) → (∀ k ∈ ks, k < (o.basis dir).stop ∧ (o.basis dir).start < k) →
      lv < (o.basis dir).stop → (∀ k ∈ ks, k ∈ done) →
      ∃ ps, (do
          let st ← ks.foldlM (splitStep o so tol dir) (res, lo, lo)
          let nb ← Basis.mk? (o.basis dir).order
            ((so.basis dir).knots.extract st.2.2 (so.basis dir).knots.size) (-1) tol
          pure (st.1 ++ [(⟨so.bases.set! dir nb, so.cps.sliceAxis dir st.2.1 (so.cps.shape.getD dir 0), so.rational⟩ : Obj K)])) = .ok (res ++ ps) ∧
        List.Forall₂ (fun pc iv => PieceOK o dir pc iv.1 iv.2) ps (ivalsAll lv ks (o.basis dir).stop) := by
  obtain ⟨hw, hn, hper, hst, hen, hp, hc⟩ := hI.inv
  have hd' : dir < so.bases.size := by rw [hn]; exact hd
  have hvb := hw.valid dir hd'
  have hpos := hvb.order_pos
  have hsz := hvb.size_ge
  have hmono := hvb.kn_mono
  have hstopkn : (so.basis dir).kn ((so.basis dir).knots.size - (so.basis dir).order) = (o.basis dir).stop := by rw [← hen]; rfl
  intro ks
  induction ks with
  | nil =>
    intro res lo lv hlo hlv hcs hss _ _ hlvs _
    -- the final piece `[lo, nAll)`
    have hlt : lo + (so.basis dir).order - 1 < (so.basis dir).knots.size - (so.basis dir).order := by
      by_contra hc'
      have := hmono (show (so.basis dir).knots.size - (so.basis dir).order ≤ lo + (so.basis dir).order - 1 by omega)
      rw [hstopkn, hlv] at this
      exact absurd hlvs (not_lt.2 this)
    have hmk := Basis.mk?_piece hvb lo ((so.basis dir).knots.size - (so.basis dir).order) tol htol (by omega) (by omega)
    rw [show (so.basis dir).knots.size - (so.basis dir).order + (so.basis dir).order = (so.basis dir).knots.size by omega] at hmk
    have hshape : so.cps.shape.getD dir 0 = (so.basis dir).knots.size - (so.basis dir).order := by
      rw [hw.shape_getD dir 0 hd', Basis.numFunctions_of_nonperiodic hper]; rfl
    refine ⟨[Bridge.pieceObj so dir lo ((so.basis dir).knots.size - (so.basis dir).order)], ?_, ?_⟩
    · simp only [List.foldlM_nil, bind, Except.bind, pure, Except.pure]
      rw [← hp, hmk, hshape]
      rfl
    · refine List.Forall₂.cons ?_ List.Forall₂.nil
      exact pieceObj_ok hd hI lo ((so.basis dir).knots.size - (so.basis dir).order) (by omega) (by omega) lv _ hlv hstopkn hlvs
        hcs hss (fun h => absurd rfl h) (fun h => absurd rfl h)
  | cons k ks ih =>
    intro res lo lv hlo hlv hcs hss hpw hin hlvs hdone
    rw [List.pairwise_cons] at hpw
    obtain ⟨hlvk, hpw'⟩ := hpw
    have hlk : lv < k := hlvk k List.mem_cons_self
    obtain ⟨hke, hks⟩ := hin k List.mem_cons_self
    have hkeq := hI.mult_done k (hdone k List.mem_cons_self)
    have hkdone : (so.basis dir).order ≤ (so.basis dir).mult k := by
      rw [hkeq, hp]; exact le_max_right _ _
    -- the position of `k` in the refined knots
    set mu := (so.basis dir).bisectL k with hmu
    obtain ⟨l1, l2, l3⟩ := bisectLeft_spec (so.basis dir).kn hmono k (so.basis dir).knots.size
    have l3' : ∀ i, mu ≤ i → i < (so.basis dir).knots.size → k ≤ (so.basis dir).kn i := l3
    have hmup : mu + (so.basis dir).order ≤ (so.basis dir).knots.size := bisectL_add_order_le hvb (by rw [hen]; exact hke)
    have hll := Basis.bisectL_le_bisectR hvb k
    have hrun : ∀ j, j < (so.basis dir).order → (so.basis dir).kn (mu + j) = k := by
      intro j hj
      unfold Basis.mult at hkdone
      exact Basis.kn_of_mem_run hvb k _ (by omega) (by omega)
    have hlomu : lo + (so.basis dir).order ≤ mu := by
      by_contra hc'
      have := l3' (lo + (so.basis dir).order - 1) (by omega) (by omega)
      rw [hlv] at this
      exact absurd hlk (not_lt.2 this)
    have hmk := Basis.mk?_piece hvb lo mu tol htol hlomu hmup
    have hstep : splitStep o so tol dir (res, lo, lo) k
        = .ok (res ++ [Bridge.pieceObj so dir lo mu], mu, mu) := by
      unfold splitStep
      simp only []
      rw [if_pos ⟨hks, hke⟩]
      simp only [bind, Except.bind, pure, Except.pure]
      rw [← hp, hmk, show lo + (mu - lo) = mu by omega]
      rfl
    obtain ⟨r1, r2, r3⟩ := bisectRight_spec (so.basis dir).kn hmono k (so.basis dir).knots.size
    have l2' : ∀ i, i < mu → (so.basis dir).kn i < k := l2
    have hstrict : (o.basis dir).mult k ≤ (o.basis dir).order →
        k < (so.basis dir).kn (mu + (so.basis dir).order) := by
      intro hm
      have hexact : (so.basis dir).mult k = (so.basis dir).order := by
        rw [hkeq, hp]; exact max_eq_right hm
      unfold Basis.mult at hexact
      have hR : (so.basis dir).bisectR k = mu + (so.basis dir).order := by omega
      have hRlt : (so.basis dir).bisectR k < (so.basis dir).knots.size := by
        by_contra hc'
        have : (so.basis dir).kn ((so.basis dir).knots.size - (so.basis dir).order) ≤ k :=
          r2 _ (by unfold Basis.bisectR at hc' hR; omega)
        rw [hstopkn] at this
        exact absurd hke (not_lt.2 this)
      rw [← hR]
      exact r3 _ (le_refl _) hRlt
    obtain ⟨ps, hps, hall⟩ := ih (res ++ [Bridge.pieceObj so dir lo mu]) mu k hmup
      (by rw [show mu + (so.basis dir).order - 1 = mu + ((so.basis dir).order - 1) by omega]; exact hrun _ (by omega))
      (fun _ => by have := hrun 0 hpos; simpa using this)
      (fun _ hm => hstrict hm)
      hpw' (fun x hx => hin x (List.mem_cons_of_mem _ hx)) hke
      (fun x hx => hdone x (List.mem_cons_of_mem _ hx))
    refine ⟨Bridge.pieceObj so dir lo mu :: ps, ?_, ?_⟩
    · rw [List.foldlM_cons, hstep]
      simp only [bind, Except.bind] at hps ⊢
      rw [hps]
      simp
    · refine List.Forall₂.cons ?_ hall
      exact pieceObj_ok hd hI lo mu hlomu hmup lv k hlv (by have := hrun 0 hpos; simpa using this) hlk
        hcs hss
        (fun _ => by
          rw [show mu + (so.basis dir).order - 1 = mu + ((so.basis dir).order - 1) by omega]
          exact hrun _ (by omega))
        (fun _ => l2' (mu - 1) (by omega))

/-- **`split` along a non-periodic direction** (model level). -/
theorem split_open_obj {o : Obj K} (h : o.WellFormed) (dir : ℕ) (hd : dir < o.bases.size)
    (hper : (o.basis dir).periodic = -1) {tol : K} (htol : 0 < tol) (ks : List K)
    (hks : SplitOK (o.basis dir) tol ks) (hsorted : ks.Pairwise (· < ·)) :
    ∃ ps, o.split tol ks dir = .ok (.many ps) ∧
      List.Forall₂ (fun pc iv => PieceOK o dir pc iv.1 iv.2) ps
        (ivalsAll (o.basis dir).start ks (o.basis dir).stop) := by
  obtain ⟨so, hins, hI⟩ := splitInsert_open h dir hd hper htol ks hks
    (hsorted.imp (fun hab => ne_of_lt hab))
  obtain ⟨hw, hn, hper', hst, hen, hp, hc⟩ := hI.inv
  have hd' : dir < so.bases.size := by rw [hn]; exact hd
  have hvb := hw.valid dir hd'
  obtain ⟨ps, hps, hall⟩ := splitPieces_open_fold hd hI (le_of_lt htol) ks [] 0 (o.basis dir).start
    (by have := hvb.size_ge; have := hvb.order_pos; omega)
    (by rw [Nat.zero_add, ← hst]; rfl)
    (fun hne => absurd rfl hne) (fun hne => absurd rfl hne)
    (by
      rw [List.pairwise_cons]
      exact ⟨fun k hk => (hks k hk).1.1, hsorted⟩)
    (fun k hk => ⟨(hks k hk).1.2, (hks k hk).1.1⟩)
    (h.valid dir hd).start_lt_stop
    (fun k hk => List.mem_reverse.2 hk)
  refine ⟨ps, ?_, hall⟩
  unfold Obj.split
  rw [hins]
  simp only [bind, Except.bind]
  rw [if_neg (by rw [hper']; decide), splitPieces_eq]
  simp only [bind, Except.bind, List.nil_append] at hps ⊢
  rw [hps]
  rfl

end Splipy
