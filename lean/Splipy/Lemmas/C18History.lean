import Splipy.Lemmas.C18TopOrder
import Splipy.Lemmas.C18Plans

/-!
# C18 — the ownership invariant holds for every add-history (twins rejected at the top level,
# every patch a new top node)
-/

namespace Splipy.MP.C18L

open Splipy.MP Splipy.MP.Own

/-- lexicographic order of the face occurrences `(patch, section index)` -/
def occLt (a b : ℕ × ℕ) : Prop := a.1 < b.1 ∨ (a.1 = b.1 ∧ a.2 < b.2)

/-- **state of the catalogue after the patches `objs`** (all of parametric dimension `P`, each a new
    top node): C17's invariant, well-formed key tables, `top_nodes()` = the patches in insertion order,
    and for every node of dimension `P-1` its PROVENANCE — the first occurrence of its class among
    the faces of the history, whose object it stores and whose patch owns it. -/
structure Hist (nc P : ℕ) (S : Obj → Prop) (objs : List Obj) (m : Model) : Prop where
  inv : Inv nc S m
  lsize : m.levels.size = P + 1
  lvok : ∀ e, LvOK (m.level e)
  gu : ∀ p ∈ objs, GU nc p ∧ p.pardim = P ∧ S p
  tops_len : (m.nodesOf P).length = objs.length
  top_obj : ∀ k, k < objs.length → (m.node ((m.nodesOf P).getD k 0)).obj = objs.getD k default
  top_owner : ∀ k, k < objs.length → (m.node ((m.nodesOf P).getD k 0)).owner = none
  prov : ∀ F, F < m.nodes.size → (m.node F).obj.pardim + 1 = P →
    ∃ k i, k < objs.length ∧ i < (sections P (P - 1)).length ∧
      (m.node F).obj = occObj objs (k, i) ∧ (m.node F).owner = some ((m.nodesOf P).getD k 0) ∧
      ∀ a b, a < objs.length → b < (sections P (P - 1)).length → occLt (a, b) (k, i) →
        ¬ Equiv (occObj objs (a, b)) (m.node F).obj

theorem occObj_append_lt (objs : List Obj) (y : Obj) (k i : ℕ) (hk : k < objs.length) :
    occObj (objs ++ [y]) (k, i) = occObj objs (k, i) := by
  unfold occObj
  simp [List.getD_eq_getElem?_getD, List.getElem?_append_left hk]

theorem occObj_append_last (objs : List Obj) (y : Obj) (i : ℕ) :
    occObj (objs ++ [y]) (objs.length, i) = y.sect ((faceSecs y).getD i []) := by
  unfold occObj
  simp [List.getD_eq_getElem?_getD]

theorem occObj_pardim_sect {P : ℕ} (objs : List Obj) (k i : ℕ) (hP : (objs.getD k default).pardim = P) :
    occObj objs (k, i) = (objs.getD k default).sect ((sections P (P - 1)).getD i []) := by
  unfold occObj faceSecs
  simp only
  rw [hP]

theorem empty_level (P e : ℕ) : (Model.empty P).level e = {} := by
  simp only [Model.level, Model.empty, Array.getD_eq_getD_getElem?]
  by_cases he : e < P + 1
  · simp [he]
  · simp [he]

theorem Hist.empty (nc P : ℕ) (S : Obj → Prop) (hP : P ≠ 0) : Hist nc P S [] (Model.empty P) := by
  have hn : (Model.empty P).nodesOf P = [] := by
    simp [Model.nodesOf, hP, empty_level, uniquify, Level.get]
  refine ⟨Inv.empty nc S P, Model.empty_lsize P, fun e => by rw [empty_level]; exact LvOK.empty,
    fun p hp => by simp at hp, by rw [hn]; rfl, fun k hk => by simp at hk, fun k hk => by simp at hk,
    fun F hF => ?_⟩
  have : (Model.empty P).nodes.size = 0 := rfl
  omega


theorem Hist.top_lt {nc P : ℕ} {S : Obj → Prop} {objs : List Obj} {m : Model} (H : Hist nc P S objs m)
    {k : ℕ} (hk : k < objs.length) :
    (m.nodesOf P).getD k 0 < m.nodes.size ∧ (m.node ((m.nodesOf P).getD k 0)).obj.pardim = P := by
  have hk' : k < (m.nodesOf P).length := by rw [H.tops_len]; exact hk
  rw [List.getD_eq_getElem _ _ hk']
  exact ((nodesOf_spec H.inv P).2 _).1 (List.getElem_mem _)

theorem Hist.obj_pardim {nc P : ℕ} {S : Obj → Prop} {objs : List Obj} {m : Model} (H : Hist nc P S objs m)
    {k : ℕ} (hk : k < objs.length) : (objs.getD k default).pardim = P := by
  rw [← H.top_obj k hk]; exact (H.top_lt hk).2

theorem Hist.obj_gu {nc P : ℕ} {S : Obj → Prop} {objs : List Obj} {m : Model} (H : Hist nc P S objs m)
    {k : ℕ} (hk : k < objs.length) : GU nc (objs.getD k default) := by
  rw [List.getD_eq_getElem _ _ hk]; exact (H.gu _ (List.getElem_mem _)).1

/-- the `i`-th facet node of the `k`-th top node represents the face `(k, i)` of the history -/
theorem Hist.face_rep {nc P : ℕ} {S : Obj → Prop} {objs : List Obj} {m : Model} (H : Hist nc P S objs m)
    (hP : 1 ≤ P) {k i : ℕ} (hk : k < objs.length) (hi : i < (sections P (P - 1)).length) :
    Rep m (((m.node ((m.nodesOf P).getD k 0)).lower.getD (P - 1) []).getD i 0) (occObj objs (k, i)) := by
  obtain ⟨hlt, hpd⟩ := H.top_lt hk
  have := H.inv.low _ hlt (P - 1) (by rw [hpd]; omega) i (by rw [hpd]; exact hi)
  rw [hpd, H.top_obj k hk] at this
  rw [occObj_pardim_sect objs k i (H.obj_pardim hk)]
  exact this

theorem occ_gu {nc P : ℕ} {S : Obj → Prop} {objs : List Obj} {m : Model} (H : Hist nc P S objs m)
    {k i : ℕ} (hk : k < objs.length) (hi : i < (sections P (P - 1)).length) :
    GU nc (occObj objs (k, i)) := by
  rw [occObj_pardim_sect objs k i (H.obj_pardim hk)]
  have hg := H.obj_gu hk
  have hsm : (sections P (P - 1)).getD i [] ∈ sections P (P - 1) := by
    rw [List.getD_eq_getElem _ _ hi]; exact List.getElem_mem _
  have hP3 : P ≤ 3 := by rw [← H.obj_pardim hk]; exact hg.small
  exact hg.sect (by rw [H.obj_pardim hk]; exact (sect_pardim_of_mem hP3 (by omega) hsm default).1)

/-- **One `add` step preserves the history invariant**: a patch `y` that is not `≈` to an earlier one
    becomes a new top node at the END of `top_nodes()`; the faces it shares keep their node, object
    and owner; the faces it brings are created at their first section, store that section and are
    owned by the new node. -/
theorem Hist.step {nc P : ℕ} {S : Obj → Prop}
    (hsect : ∀ y sec, S y → sec.length = y.pardim → secTgtDim sec < y.pardim → S (y.sect sec))
    (tw : List ℕ) (htw : tw.contains P = true) (hP : 1 ≤ P)
    {objs : List Obj} {m : Model} (H : Hist nc P S objs m) {y : Obj} (hy : GU nc y) (hyP : y.pardim = P)
    (hS : S y) (hne : ∀ k, k < objs.length → ¬ Equiv (objs.getD k default) y)
    {m' : Model} {id : ℕ} {o : Orientation} (h : Model.lookup P m y true tw = .ok (m', id, o)) :
    Hist nc P S (objs ++ [y]) m' := by
  subst hyP
  have h' : Model.lookup ((y.pardim - 1) + 1) m y true tw = .ok (m', id, o) := by
    rwa [Nat.sub_add_cancel hP]
  have hlv : y.pardim < m.levels.size := by rw [H.lsize]; omega
  obtain ⟨hI', hE, hrep, _, _⟩ := lookup_sound (nc := nc) hsect true tw _ m y m' id o H.inv hy
    (by omega) hlv (fun _ => hS) h'
  -- the node is new
  have hnew : m.nodes.size ≤ id := by
    by_contra hlt
    have hlt : id < m.nodes.size := by omega
    have hobj := hE.obj id hlt
    have heq : Equiv (m.node id).obj y := by rw [← hobj]; exact hrep.2
    have hmem : id ∈ m.nodesOf y.pardim := ((nodesOf_spec H.inv _).2 id).2 ⟨hlt, heq.pardim_eq⟩
    obtain ⟨k, hk, hkid⟩ := List.getElem_of_mem hmem
    have hk' : k < objs.length := by rw [← H.tops_len]; exact hk
    apply hne k hk'
    rw [← H.top_obj k hk', List.getD_eq_getElem _ _ hk, hkid]
    exact heq
  obtain ⟨htops, hlvok⟩ := lookup_patch_tops hsect tw (y.pardim - 1) H.inv H.lvok hy hP (by omega) hlv hS
    htw h' hnew
  obtain ⟨m1, lower, hI1, hE1, hE2, hL, hF, hid, hspec, hprov, hnone, htake, hcov⟩ :=
    (lookup_patch_own hsect tw (y.pardim - 1) H.inv hy hP (by omega) hlv hS h' hnew).ex
  have hlast : lower.getLastD [] = lower.getD (y.pardim - 1) [] :=
    getLastD_eq_getD _ _ y.pardim hL.len hP
  have hP3 : y.pardim ≤ 3 := hy.small
  have hsecgu : ∀ j, j < (sections y.pardim (y.pardim - 1)).length →
      GU nc (y.sect ((sections y.pardim (y.pardim - 1)).getD j [])) := by
    intro j hj
    have hsm : (sections y.pardim (y.pardim - 1)).getD j [] ∈ sections y.pardim (y.pardim - 1) := by
      rw [List.getD_eq_getElem _ _ hj]; exact List.getElem_mem _
    exact hy.sect (sect_pardim_of_mem hP3 (by omega) hsm default).1
  have htopk : ∀ k, k < objs.length → (m'.nodesOf y.pardim).getD k 0 = (m.nodesOf y.pardim).getD k 0 := by
    intro k hk
    rw [htops, List.getD_eq_getElem?_getD, List.getD_eq_getElem?_getD,
      List.getElem?_append_left (by rw [H.tops_len]; exact hk)]
  have htopl : (m'.nodesOf y.pardim).getD objs.length 0 = id := by
    rw [htops, List.getD_eq_getElem?_getD, ← H.tops_len]; simp
  have hidobj : (m'.node id).obj = y := by rw [hid]; exact hspec.new_obj
  refine ⟨hI', by rw [hE.lsize]; exact H.lsize, hlvok, ?_, ?_, ?_, ?_, ?_⟩
  · intro p hp
    rcases List.mem_append.1 hp with hp | hp
    · exact H.gu p hp
    · simp only [List.mem_singleton] at hp; subst hp; exact ⟨hy, rfl, hS⟩
  · rw [htops]; simp [H.tops_len]
  · intro k hk
    simp only [List.length_append, List.length_singleton] at hk
    by_cases hk' : k < objs.length
    · rw [htopk k hk', hE.obj _ (H.top_lt hk').1, H.top_obj k hk']
      simp [List.getD_eq_getElem?_getD, List.getElem?_append_left hk']
    · have : k = objs.length := by omega
      subst this
      rw [htopl, hidobj]; simp [List.getD_eq_getElem?_getD]
  · intro k hk
    simp only [List.length_append, List.length_singleton] at hk
    by_cases hk' : k < objs.length
    · obtain ⟨hlt, hpd⟩ := H.top_lt hk'
      have hlt1 : (m.nodesOf y.pardim).getD k 0 < m1.nodes.size := lt_of_lt_of_le hlt hE1.size_le
      rw [htopk k hk', htake _ hlt1 (by rw [hE1.obj _ hlt, hpd]; omega),
        hF.keep _ hlt (by rw [hpd]; omega), H.top_owner k hk']
      rw [if_neg]
      rintro ⟨hmem, _⟩
      have := (facets_of_lowerOK hy hP hL _ hmem).2
      rw [hE1.obj _ hlt, hpd] at this
      omega
    · have : k = objs.length := by omega
      subst this
      rw [htopl]; exact hnone
  · intro F hF' hdim
    have hnsec : ∀ k, k < objs.length → ∀ i, occObj (objs ++ [y]) (k, i) = occObj objs (k, i) :=
      fun k hk i => occObj_append_lt objs y k i hk
    by_cases hFm : F < m.nodes.size
    · -- an old face: same object, same owner, same first occurrence
      obtain ⟨k, i, hk, hi, hobj, hown, hmin⟩ := H.prov F hFm (by rw [← hE.obj F hFm]; exact hdim)
      have hF1 : F < m1.nodes.size := lt_of_lt_of_le hFm hE1.size_le
      have hdimm : (m.node F).obj.pardim + 1 = y.pardim := by rw [← hE.obj F hFm]; exact hdim
      refine ⟨k, i, by simp; omega, hi, ?_, ?_, ?_⟩
      · rw [hE.obj F hFm, hnsec k hk]; exact hobj
      · rw [htopk k hk, htake F hF1 (by rw [hE1.obj F hFm]; omega), hF.keep F hFm (by omega), hown]
        simp
      · intro a b ha hb hlt
        have hak : a < objs.length := by
          rcases hlt with h1 | ⟨h1, _⟩
          · simp only at h1; omega
          · simp only at h1; omega
        rw [hnsec a hak, hE.obj F hFm]
        exact hmin a b hak hb hlt
    · -- a new face
      have hFid : F ≠ id := by
        rintro rfl
        rw [hidobj] at hdim; omega
      have hsz : m'.nodes.size = m1.nodes.size + 1 := hspec.size
      have hF1 : F < m1.nodes.size := by omega
      have hdim1 : (m1.node F).obj.pardim + 1 = y.pardim := by rw [← hE2.obj F hF1]; exact hdim
      have hex := hcov F (by omega) hF1 hdim1
      classical
      let jm := Nat.find hex
      obtain ⟨hjm, hjmF⟩ : jm < (sections y.pardim (y.pardim - 1)).length ∧
          (lower.getD (y.pardim - 1) []).getD jm 0 = F := Nat.find_spec hex
      have hjmin : ∀ j, j < jm → (lower.getD (y.pardim - 1) []).getD j 0 ≠ F := by
        intro j hj he
        exact Nat.find_min hex hj ⟨by omega, he⟩
      obtain ⟨j0, hj0, hj0e, hj0obj⟩ := hprov jm hjm (by rw [hjmF]; omega)
      have hj0jm : j0 = jm := by
        by_contra hne'
        exact hjmin j0 (by omega) (by rw [hj0e, hjmF])
      subst hj0jm
      rw [hjmF] at hj0obj
      have hobjF : (m'.node F).obj = y.sect ((sections y.pardim (y.pardim - 1)).getD jm []) := by
        rw [hE2.obj F hF1]; exact hj0obj
      have hrepF : Rep m1 F (y.sect ((sections y.pardim (y.pardim - 1)).getD jm [])) := by
        have := hL.rep (y.pardim - 1) (by omega) jm hjm
        rwa [hjmF] at this
      refine ⟨objs.length, jm, by simp, hjm, ?_, ?_, ?_⟩
      · rw [hobjF, occObj_append_last]; rfl
      · rw [htopl, htake F hF1 (by omega), (hF.fresh F (by omega) hF1).2 (by omega), if_pos]
        refine ⟨?_, rfl⟩
        rw [hlast, ← hjmF]
        have : jm < (lower.getD (y.pardim - 1) []).length := by
          rw [hL.lens (y.pardim - 1) (by omega)]; exact hjm
        rw [List.getD_eq_getElem _ _ this]; exact List.getElem_mem _
      · intro a b ha hb hlt hEq
        simp only [List.length_append, List.length_singleton] at ha
        rw [hobjF] at hEq
        by_cases hak : a < objs.length
        · -- the face of an earlier patch has an OLD node
          rw [hnsec a hak] at hEq
          have hr := (H.face_rep hP hak hb).ext hE1
          have hr2 := Rep.equiv hI1 (occ_gu H hak hb) (hsecgu jm hjm) hr hEq
          have := hI1.rep_unique (hsecgu jm hjm) hr2 hrepF
          have hlt2 := (H.face_rep hP hak hb).1
          omega
        · have hal : a = objs.length := by omega
          subst hal
          have hbj : b < jm := by
            rcases hlt with h1 | ⟨_, h1⟩
            · simp only at h1; omega
            · exact h1
          rw [occObj_append_last] at hEq
          have hrb := hL.rep (y.pardim - 1) (by omega) b hb
          have hr2 := Rep.equiv hI1 (hsecgu b hb) (hsecgu jm hjm) hrb hEq
          exact hjmin b hbj (hI1.rep_unique (hsecgu jm hjm) hr2 hrepF)

end Splipy.MP.C18L
