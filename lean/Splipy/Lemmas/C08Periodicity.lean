import Splipy.Lemmas.EvalRow
import Splipy.Lemmas.C08SeamRow
import Splipy.Model.Object

/-!
# Lemmas for property C08: lifting periodicity of the basis rows to `Obj.evaluate`

`Obj.evaluate` depends on the parameters only through `zip bases params`; if in every direction the
parameters are pointwise equal or — valid periodic basis — moved by whole periods, the snapped basis
matrices coincide (`evaluate_add_int_mul`, the statement of `C01_periodic_any_real`), hence so does
the evaluated grid.
-/

namespace Splipy

set_option linter.unusedSectionVars false
set_option linter.unusedVariables false

variable {K : Type} [Field K] [LinearOrder K] [IsStrictOrderedRing K] [FloorRing K]

/-- The seam of a periodic basis has multiplicity `< p` (no `p` consecutive knots equal `start`):
the declared continuity is at least `0`. -/
def Basis.SeamSimple (b : Basis K) : Prop :=
  ∀ j, j + (b.order - 1) < b.knots.size → b.kn j = b.start → b.kn (j + (b.order - 1)) ≠ b.start

/-- `t'` is `t`, or `t` moved by a whole number of periods of a valid periodic basis, both parameters
exact for the tolerance; either neither is the domain end, or the seam has multiplicity `< p` and the
two seam parameters `start`, `stop` are exact too (then the domain end itself is allowed: the value
row at `stop` is the one at `start`). -/
def Basis.PeriodShift (b : Basis K) (tol t t' : K) : Prop :=
  t' = t ∨ (b.Valid ∧ 0 ≤ b.periodic ∧ b.ExactAt tol t ∧ b.ExactAt tol t' ∧
    ((t ≠ b.stop ∧ t' ≠ b.stop) ∨ (b.SeamSimple ∧ b.ExactAt tol b.start ∧ b.ExactAt tol b.stop))
    ∧ ∃ m : ℤ, t' = t + m * (b.stop - b.start))

theorem Basis.PeriodShift.evaluate_eq {b : Basis K} {tol t t' : K} (h : b.PeriodShift tol t t')
    (htol : 0 < tol) :
    b.evaluate tol (snap b tol t') 0 true = b.evaluate tol (snap b tol t) 0 true := by
  rcases h with h | ⟨hv, hper, hex, hex', hcase, m, hm⟩
  · rw [h]
  · rw [snap_of_exact b htol hex, snap_of_exact b htol hex']
    subst hm
    rcases hcase with ⟨h1, h2⟩ | ⟨hs, he0, he1⟩
    · exact evaluate_add_int_mul hv hper htol m hex hex' h1 h2 0 true
    · exact evaluate_value_shift hv hper hs htol he0 he1 m hex hex'

theorem Basis.PeriodShift.eq_of_nonperiodic {b : Basis K} {tol t t' : K}
    (h : b.PeriodShift tol t t') (hb : b.periodic < 0) : t' = t := by
  rcases h with h | ⟨_, hper, _⟩
  · exact h
  · omega

theorem forall₂_periodShift_map {b : Basis K} {tol : K} (htol : 0 < tol)
    {ps ps' : List K} (h : List.Forall₂ (b.PeriodShift tol) ps ps') :
    (ps'.map (snap b tol)).map (fun t => b.evaluate tol t 0 true)
      = (ps.map (snap b tol)).map (fun t => b.evaluate tol t 0 true) := by
  induction h with
  | nil => rfl
  | cons hx _ ih =>
    simp only [List.map_cons]
    rw [hx.evaluate_eq htol, ih]

theorem forall₂_periodShift_eq {b : Basis K} {tol : K} (hb : b.periodic < 0)
    {ps ps' : List K} (h : List.Forall₂ (b.PeriodShift tol) ps ps') : ps' = ps := by
  induction h with
  | nil => rfl
  | cons hx _ ih => rw [hx.eq_of_nonperiodic hb, ih]

/-- Relation between two zipped parameter lists: same bases, parameters related direction-wise. -/
def ZipShift (tol : K) (z z' : List (Basis K × List K)) : Prop :=
  List.Forall₂ (fun x y => x.1 = y.1 ∧ List.Forall₂ (x.1.PeriodShift tol) x.2 y.2) z z'

theorem zip_map_snd_zip {α β γ : Type} (f : α → β → γ) (l1 : List α) (l2 : List β) :
    List.zip l1 ((List.zip l1 l2).map (fun x => f x.1 x.2))
      = (List.zip l1 l2).map (fun x => (x.1, f x.1 x.2)) := by
  induction l1 generalizing l2 with
  | nil => simp
  | cons a l1 ih =>
    cases l2 with
    | nil => simp
    | cons b l2 => simp [ih l2]

/-- The snapped parameter lists of `_validate_domain`. -/
def snappedOf (tol : K) (z : List (Basis K × List K)) : List (Basis K × List K) :=
  z.map (fun (b, ps) => (b, ps.map (snap b tol)))

/-- The domain test of `_validate_domain` as a function of the zipped list (an empty list in a
non-periodic direction fails it: `min()` of an empty sequence). -/
def domainBad (tol : K) (z : List (Basis K × List K)) : Bool :=
  (snappedOf tol z).any (fun (b, ps) => b.periodic < 0 ∧
    (ps.isEmpty ∨ ps.any (fun t => t < b.start ∨ b.stop < t)))

/-- The basis matrices of `evaluate` as a function of the zipped list. -/
def matsOf (tol : K) (z : List (Basis K × List K)) : List (Mat K) :=
  z.map (fun x => Obj.basisMat x.1 tol (x.2.map (snap x.1 tol)) 0 true)

theorem Obj.validateDomain_eq (o : Obj K) (tol : K) (params : List (List K)) :
    o.validateDomain tol params
      = if domainBad tol (List.zip o.bases.toList params) then .error .value
        else .ok ((snappedOf tol (List.zip o.bases.toList params)).map (·.2)) := rfl

theorem matsOf_eq (tol : K) (bs : List (Basis K)) (params : List (List K)) :
    (List.zip bs ((snappedOf tol (List.zip bs params)).map (·.2))).map
        (fun (b, p) => Obj.basisMat b tol p 0 true)
      = matsOf tol (List.zip bs params) := by
  unfold snappedOf matsOf
  have := zip_map_snd_zip (fun (b : Basis K) (ps : List K) => ps.map (snap b tol)) bs params
  rw [List.map_map]
  have e : ((fun x : Basis K × List K => x.2) ∘ fun x : Basis K × List K =>
      match x with | (b, ps) => (b, List.map (snap b tol) ps))
      = fun x => x.2.map (snap x.1 tol) := by
    funext x; rfl
  rw [e, this, List.map_map]
  rfl

theorem Obj.evaluate_tensor_eq (o : Obj K) (tol : K) (params : List (List K)) :
    o.evaluate tol params true
      = if domainBad tol (List.zip o.bases.toList params) then .error .value
        else .ok (if o.rational then
            Obj.project (Obj.contractGrid (matsOf tol (List.zip o.bases.toList params)) o.cps) o.dimension
          else Obj.contractGrid (matsOf tol (List.zip o.bases.toList params)) o.cps) := by
  unfold Obj.evaluate
  simp only [Bool.not_true, Bool.false_eq_true, false_and, if_false]
  rw [Obj.validateDomain_eq]
  by_cases hbad : domainBad tol (List.zip o.bases.toList params) = true
  · simp only [hbad, if_true]
  · simp only [hbad, if_false, Bool.false_eq_true]
    rw [matsOf_eq]
    simp only [if_true]

theorem domainBad_congr {tol : K} {z z' : List (Basis K × List K)} (h : ZipShift tol z z') :
    domainBad tol z' = domainBad tol z := by
  unfold domainBad snappedOf
  induction h with
  | nil => rfl
  | @cons x y l l' hx hl ih =>
    obtain ⟨hb, hp⟩ := hx
    simp only [List.map_cons, List.any_cons]
    rw [ih]
    congr 1
    obtain ⟨xb, xp⟩ := x
    obtain ⟨yb, yp⟩ := y
    simp only at hb hp ⊢
    subst hb
    by_cases hper : xb.periodic < 0
    · rw [forall₂_periodShift_eq hper hp]
    · simp [hper]

theorem matsOf_congr {tol : K} (htol : 0 < tol) {z z' : List (Basis K × List K)}
    (h : ZipShift tol z z') : matsOf tol z' = matsOf tol z := by
  unfold matsOf
  induction h with
  | nil => rfl
  | @cons x y l l' hx hl ih =>
    obtain ⟨hb, hp⟩ := hx
    simp only [List.map_cons]
    rw [ih]
    congr 1
    unfold Obj.basisMat
    rw [← hb, forall₂_periodShift_map htol hp]

end Splipy
