import Splipy.Lemmas.C03Nonrational

/-!
# C03 – the homogeneous jets of the rational curve paths are the specification's derivative sums

For a valid non-periodic basis and an admissible parameter `t` (not the domain start approached from the
left) the jets the model computes — `Obj.curveJet` for the closed forms of `Curve.derivative`, `Obj.homJet` for
the generic quotient rule — are `splineDeriv (effSide b t a) b.kn (order-1) n P_c k t`, for EVERY order `k`.
-/

namespace Splipy

set_option linter.unusedSectionVars false
open Tensor

variable {K : Type} [Field K] [LinearOrder K] [IsStrictOrderedRing K] [FloorRing K]

theorem basisMat_entry (b : Basis K) (tol : K) (ps : List K) (d : ℕ) (a : Bool) {i : ℕ}
    (hi : i < ps.length) (j : ℕ) :
    ((Obj.basisMat b tol ps d a).getD i #[]).getD j 0 = (b.evaluate tol (ps.getD i 0) d a).getD j 0 := by
  unfold Obj.basisMat
  rw [Array.getD_eq_getD_getElem?]
  simp [hi, List.getD_eq_getElem?_getD]

/-- For an exact parameter `b.evaluate` at `t` is the code's row `drowVal`. -/
theorem evaluate_eq_drowVal {b : Basis K} {tol t : K} (htol : 0 < tol) (h : b.Admissible tol t) (d : ℕ)
    (a : Bool) (j : ℕ) : (b.evaluate tol t d a).getD j 0 = b.drowVal tol t d a j := by
  unfold Basis.drowVal
  rw [h.snap_eq htol]

/-- `rowSpec` of a non-periodic basis away from the start-from-the-left corner. -/
theorem rowSpec_open {b : Basis K} (hper : b.periodic = -1) {t : K} {a : Bool}
    (hnot : ¬ (t = b.start ∧ a = false)) (d j : ℕ) :
    b.rowSpec t a d j = dB (effSide b t a) b.kn (b.order - 1) j d t := by
  unfold Basis.rowSpec
  rw [if_pos (by rw [hper]; decide), if_neg hnot]

namespace Obj

theorem basis_zero {o : Obj K} {b1 : Basis K} (hb : o.bases = #[b1]) : o.basis 0 = b1 := by
  unfold Obj.basis; rw [hb]; rfl

/-- Entry of a curve jet in terms of the basis row. -/
theorem curveJet_get {o : Obj K} {b1 : Basis K} (hb : o.bases = #[b1]) {n1 nc : ℕ}
    (hs : o.cps.shape = [n1, nc]) (tol : K) (ts : List K) (k : ℕ) (a : Bool) {i c : ℕ}
    (hi : i < ts.length) (hc : c < nc) :
    (o.curveJet tol ts k a).get (i * nc + c) =
      ∑ j ∈ Finset.range n1, (b1.evaluate tol (ts.getD i 0) k a).getD j 0 * o.cps.get (j * nc + c) := by
  unfold curveJet
  rw [basis_zero hb, ← Splipy.contractGrid_one,
    contractGrid1_get _ _ hs (by rw [basisMat_rows]; exact hi) hc]
  exact Finset.sum_congr rfl (fun j _ => by rw [basisMat_entry b1 tol ts k a hi])

/-- **Jets of the closed forms are the specification sums.** -/
theorem curveJet_spec {o : Obj K} {b1 : Basis K} (hb : o.bases = #[b1]) (hv : b1.Valid)
    (hper : b1.periodic = -1) {nc : ℕ} (hs : o.cps.shape = [b1.numFunctions, nc]) {tol : K}
    (htol : 0 < tol) (ts : List K) (k : ℕ) (a : Bool) {i c : ℕ} (hi : i < ts.length) (hc : c < nc)
    (hadm : b1.Admissible tol (ts.getD i 0)) (hnot : ¬ (ts.getD i 0 = b1.start ∧ a = false)) :
    (o.curveJet tol ts k a).get (i * nc + c) =
      splineDeriv (effSide b1 (ts.getD i 0) a) b1.kn (b1.order - 1) b1.numFunctions
        (fun j => o.cps.get (j * nc + c)) k (ts.getD i 0) := by
  rw [curveJet_get hb hs tol ts k a hi hc]
  unfold splineDeriv
  apply Finset.sum_congr rfl
  intro j hj
  rw [evaluate_eq_drowVal htol hadm, Basis.drowVal_eq_rowSpec hv htol hadm k a (Finset.mem_range.mp hj),
    rowSpec_open hper hnot]
  ring

end Obj

end Splipy

namespace Splipy

set_option linter.unusedSectionVars false
open Tensor

variable {K : Type} [Field K] [LinearOrder K] [IsStrictOrderedRing K] [FloorRing K]

namespace Obj

/-- **Jets of the generic path are the specification sums** (grid form, curve). -/
theorem homJet1_spec {o : Obj K} {b1 : Basis K} (hb : o.bases = #[b1]) (hv : b1.Valid)
    (hper : b1.periodic = -1) {nc : ℕ} (hs : o.cps.shape = [b1.numFunctions, nc]) {tol : K}
    (htol : 0 < tol) (us : List K) (d : ℕ) (a : Bool) {i c : ℕ} (hi : i < us.length) (hc : c < nc)
    (hadm : b1.Admissible tol (us.getD i 0)) (hnot : ¬ (us.getD i 0 = b1.start ∧ a = false)) :
    (o.homJet tol (o.snapParams tol [us]) [d] [a] true).get (i * nc + c) =
      splineDeriv (effSide b1 (us.getD i 0) a) b1.kn (b1.order - 1) b1.numFunctions
        (fun j => o.cps.get (j * nc + c)) d (us.getD i 0) := by
  rw [homJet1 hb]
  simp only [if_true]
  rw [contractGrid1_get _ _ hs (by rw [basisMat_rows, List.length_map]; exact hi) hc]
  unfold splineDeriv
  apply Finset.sum_congr rfl
  intro j hj
  rw [basisMat_snap_entry_d b1 tol us d a hi,
    Basis.drowVal_eq_rowSpec hv htol hadm d a (Finset.mem_range.mp hj), rowSpec_open hper hnot]
  ring

theorem homJet1_size {o : Obj K} {b1 : Basis K} (hb : o.bases = #[b1]) {n1 nc : ℕ}
    (hs : o.cps.shape = [n1, nc]) (tol : K) (us : List K) (d : ℕ) (a : Bool) :
    (o.homJet tol (o.snapParams tol [us]) [d] [a] true).size = us.length * nc := by
  rw [homJet1 hb]
  simp only [if_true]
  unfold Tensor.size
  rw [(contractGrid1_size _ _ hs).1, basisMat_rows, List.length_map]
  simp [Tensor.prod_cons, Tensor.prod_nil]

end Obj

end Splipy

namespace Splipy

set_option linter.unusedSectionVars false
open Tensor

variable {K : Type} [Field K] [LinearOrder K] [IsStrictOrderedRing K] [FloorRing K]

namespace Obj

/-- Entries of the homogeneous jet of a surface call (rational or not), grid form. -/
theorem homJet2_grid_get {o : Obj K} {b1 b2 : Basis K} (hb : o.bases = #[b1, b2]) {n1 n2 nc : ℕ}
    (hs : o.cps.shape = [n1, n2, nc]) (tol : K) (us vs : List K) (d1 d2 : ℕ) (a1 a2 : Bool)
    {i1 i2 c : ℕ} (h1 : i1 < us.length) (h2 : i2 < vs.length) (hc : c < nc) :
    (o.homJet tol (o.snapParams tol [us, vs]) [d1, d2] [a1, a2] true).get
        ((i1 * vs.length + i2) * nc + c) =
      ∑ j1 ∈ Finset.range n1, ∑ j2 ∈ Finset.range n2,
        b1.drowVal tol (us.getD i1 0) d1 a1 j1 * b2.drowVal tol (vs.getD i2 0) d2 a2 j2
          * o.cps.get ((j1 * n2 + j2) * nc + c) := by
  rw [homJet2 hb]
  simp only [if_true]
  have hsz : (basisMat b2 tol (vs.map (snap b2 tol)) d2 a2).size = vs.length := by
    rw [basisMat_rows, List.length_map]
  rw [← hsz, contractGrid2_get _ _ _ hs (by rw [basisMat_rows, List.length_map]; exact h1)
    (by rw [hsz]; exact h2) hc]
  exact Finset.sum_congr rfl (fun j1 _ => Finset.sum_congr rfl (fun j2 _ => by
    rw [basisMat_snap_entry_d b1 tol us d1 a1 h1, basisMat_snap_entry_d b2 tol vs d2 a2 h2]))

theorem homJet2_size {o : Obj K} {b1 b2 : Basis K} (hb : o.bases = #[b1, b2]) {n1 n2 nc : ℕ}
    (hs : o.cps.shape = [n1, n2, nc]) (tol : K) (us vs : List K) (d1 d2 : ℕ) (a1 a2 : Bool) :
    (o.homJet tol (o.snapParams tol [us, vs]) [d1, d2] [a1, a2] true).size
      = us.length * vs.length * nc := by
  rw [homJet2 hb]
  simp only [if_true]
  unfold Tensor.size
  rw [(contractGrid2_size _ _ _ hs).1, basisMat_rows, basisMat_rows, List.length_map, List.length_map]
  simp [Tensor.prod_cons, Tensor.prod_nil, Nat.mul_assoc]

/-- **Jets of the generic surface path as a spline in `u`** (for fixed `v`): with the `u`-coefficients
`cf j₁ = Σ_{j₂} rowSpec²(v, d₂)_{j₂} · P[j₁, j₂, c]` the jet entry is `splineDeriv … cf d₁ u`. -/
theorem homJet2_spec_u {o : Obj K} {b1 b2 : Basis K} (hb : o.bases = #[b1, b2]) (hv1 : b1.Valid)
    (hv2 : b2.Valid) (hper : b1.periodic = -1) {nc : ℕ}
    (hs : o.cps.shape = [b1.numFunctions, b2.numFunctions, nc]) {tol : K} (htol : 0 < tol)
    (us vs : List K) (d1 d2 : ℕ) (a1 a2 : Bool) {i1 i2 c : ℕ} (h1 : i1 < us.length)
    (h2 : i2 < vs.length) (hc : c < nc) (hu : b1.Admissible tol (us.getD i1 0))
    (hvv : b2.Admissible tol (vs.getD i2 0)) (hnot : ¬ (us.getD i1 0 = b1.start ∧ a1 = false)) :
    (o.homJet tol (o.snapParams tol [us, vs]) [d1, d2] [a1, a2] true).get
        ((i1 * vs.length + i2) * nc + c) =
      splineDeriv (effSide b1 (us.getD i1 0) a1) b1.kn (b1.order - 1) b1.numFunctions
        (fun j1 => ∑ j2 ∈ Finset.range b2.numFunctions,
          b2.rowSpec (vs.getD i2 0) a2 d2 j2 * o.cps.get ((j1 * b2.numFunctions + j2) * nc + c))
        d1 (us.getD i1 0) := by
  rw [homJet2_grid_get hb hs tol us vs d1 d2 a1 a2 h1 h2 hc]
  unfold splineDeriv
  apply Finset.sum_congr rfl
  intro j1 hj1
  rw [Finset.sum_mul]
  apply Finset.sum_congr rfl
  intro j2 hj2
  rw [Basis.drowVal_eq_rowSpec hv1 htol hu d1 a1 (Finset.mem_range.mp hj1),
    Basis.drowVal_eq_rowSpec hv2 htol hvv d2 a2 (Finset.mem_range.mp hj2), rowSpec_open hper hnot]
  ring

/-- … and as a spline in `v` (for fixed `u`). -/
theorem homJet2_spec_v {o : Obj K} {b1 b2 : Basis K} (hb : o.bases = #[b1, b2]) (hv1 : b1.Valid)
    (hv2 : b2.Valid) (hper : b2.periodic = -1) {nc : ℕ}
    (hs : o.cps.shape = [b1.numFunctions, b2.numFunctions, nc]) {tol : K} (htol : 0 < tol)
    (us vs : List K) (d1 d2 : ℕ) (a1 a2 : Bool) {i1 i2 c : ℕ} (h1 : i1 < us.length)
    (h2 : i2 < vs.length) (hc : c < nc) (hu : b1.Admissible tol (us.getD i1 0))
    (hvv : b2.Admissible tol (vs.getD i2 0)) (hnot : ¬ (vs.getD i2 0 = b2.start ∧ a2 = false)) :
    (o.homJet tol (o.snapParams tol [us, vs]) [d1, d2] [a1, a2] true).get
        ((i1 * vs.length + i2) * nc + c) =
      splineDeriv (effSide b2 (vs.getD i2 0) a2) b2.kn (b2.order - 1) b2.numFunctions
        (fun j2 => ∑ j1 ∈ Finset.range b1.numFunctions,
          b1.rowSpec (us.getD i1 0) a1 d1 j1 * o.cps.get ((j1 * b2.numFunctions + j2) * nc + c))
        d2 (vs.getD i2 0) := by
  rw [homJet2_grid_get hb hs tol us vs d1 d2 a1 a2 h1 h2 hc, Finset.sum_comm]
  unfold splineDeriv
  apply Finset.sum_congr rfl
  intro j2 hj2
  rw [Finset.sum_mul]
  apply Finset.sum_congr rfl
  intro j1 hj1
  rw [Basis.drowVal_eq_rowSpec hv1 htol hu d1 a1 (Finset.mem_range.mp hj1),
    Basis.drowVal_eq_rowSpec hv2 htol hvv d2 a2 (Finset.mem_range.mp hj2), rowSpec_open hper hnot]
  ring

end Obj

end Splipy

/-! ## Any valid basis (periodic or not): the rows as ONE unwrapped derivative sum -/

namespace Splipy

set_option linter.unusedSectionVars false
open Tensor

variable {K : Type} [Field K] [LinearOrder K] [IsStrictOrderedRing K] [FloorRing K]

/-- Effective point and side of a row: the parameter itself with `effSide` for a non-periodic basis, the
wrapped parameter with the seam rule (`periodicEff`) for a periodic one. -/
def Basis.effPt (b : Basis K) (t : K) (a : Bool) : K × Side :=
  if b.periodic < 0 then (t, effSide b t a) else periodicEff b (b.wrap t) a

omit [FloorRing K] in
theorem sum_wrapped_images' (f : ℕ → K) (P : ℕ → K) (n N : ℕ) (hn : 0 < n) :
    (Finset.range n).sum (fun j => ((Finset.range N).filter (fun i => i % n = j)).sum f * P j) =
      (Finset.range N).sum (fun i => f i * P (i % n)) := by
  have h1 : ∀ j ∈ Finset.range n,
      ((Finset.range N).filter (fun i => i % n = j)).sum f * P j =
        (Finset.range N).sum (fun i => if i % n = j then f i * P (i % n) else 0) := by
    intro j _
    rw [Finset.sum_mul, Finset.sum_filter]
    apply Finset.sum_congr rfl
    intro i _
    by_cases h : i % n = j
    · rw [if_pos h, if_pos h, h]
    · rw [if_neg h, if_neg h]
  rw [Finset.sum_congr rfl h1, Finset.sum_comm]
  apply Finset.sum_congr rfl
  intro i _
  rw [Finset.sum_ite_eq, if_pos (Finset.mem_range.mpr (Nat.mod_lt _ hn))]

/-- `Σ_j rowSpec_j · P_j` is the derivative sum of the UNWRAPPED spline with coefficients `P (i % n)` over all
`nAll` functions, at the effective point/side — for a non-periodic basis `nAll = n` and nothing wraps. -/
theorem rowSpec_sum {b : Basis K} (hv : b.Valid) (hn : 0 < b.numFunctions) (t : K) (a : Bool) (d : ℕ)
    (hnot : b.periodic < 0 → ¬ (t = b.start ∧ a = false)) (P : ℕ → K) :
    ∑ j ∈ Finset.range b.numFunctions, b.rowSpec t a d j * P j =
      splineDeriv (b.effPt t a).2 b.kn (b.order - 1) b.nAll (fun i => P (i % b.numFunctions)) d
        (b.effPt t a).1 := by
  unfold splineDeriv Basis.rowSpec Basis.effPt
  by_cases hper : b.periodic < 0
  · have hper' : b.periodic = -1 := by have := hv.periodic_ge; omega
    simp only [if_pos hper, if_neg (hnot hper)]
    rw [← Basis.numFunctions_of_nonperiodic hper']
    apply Finset.sum_congr rfl
    intro j hj
    rw [Nat.mod_eq_of_lt (Finset.mem_range.mp hj)]
    ring
  · simp only [if_neg hper]
    rw [sum_wrapped_images' _ P b.numFunctions b.nAll hn]
    apply Finset.sum_congr rfl
    intro i _
    ring

/-- The effective point lies in the half-open domain piece its side selects. -/
theorem effPt_mem {b : Basis K} (hv : b.Valid) {t : K} (a : Bool)
    (hin : b.periodic < 0 → b.start ≤ t ∧ t ≤ b.stop)
    (hnot : b.periodic < 0 → ¬ (t = b.start ∧ a = false)) :
    (b.effPt t a).2.mem (b.kn (b.order - 1)) (b.kn b.nAll) (b.effPt t a).1 := by
  have hlt := hv.start_lt_stop
  rw [← b.start_eq, ← b.stop_eq]
  have key : ∀ w : K, b.start ≤ w → w ≤ b.stop → ¬ (w = b.start ∧ a = false) →
      (effSide b w a).mem b.start b.stop w := by
    intro w h1 h2 hn'
    unfold effSide
    by_cases hs : w = b.stop
    · rw [if_pos hs]; exact ⟨by rw [hs]; exact hlt, h2⟩
    · rw [if_neg hs]
      cases a
      · have hne : w ≠ b.start := fun h => hn' ⟨h, rfl⟩
        exact ⟨lt_of_le_of_ne h1 (Ne.symm hne), h2⟩
      · exact ⟨h1, lt_of_le_of_ne h2 hs⟩
  unfold Basis.effPt
  by_cases hper : b.periodic < 0
  · rw [if_pos hper]
    exact key t (hin hper).1 (hin hper).2 (hnot hper)
  · rw [if_neg hper]
    have hw := b.wrap_mem hv t
    unfold periodicEff
    by_cases hsl : b.wrap t = b.start ∧ a = false
    · rw [if_pos hsl]; exact ⟨hlt, le_refl _⟩
    · rw [if_neg hsl]; exact key _ hw.1 hw.2 hsl

namespace Obj

/-- Jets of the closed forms, any valid basis. -/
theorem curveJet_spec_any {o : Obj K} {b1 : Basis K} (hb : o.bases = #[b1]) (hv : b1.Valid)
    (hn : 0 < b1.numFunctions) {nc : ℕ} (hs : o.cps.shape = [b1.numFunctions, nc]) {tol : K}
    (htol : 0 < tol) (ts : List K) (k : ℕ) (a : Bool) {i c : ℕ} (hi : i < ts.length) (hc : c < nc)
    (hadm : b1.Admissible tol (ts.getD i 0))
    (hnot : b1.periodic < 0 → ¬ (ts.getD i 0 = b1.start ∧ a = false)) :
    (o.curveJet tol ts k a).get (i * nc + c) =
      splineDeriv (b1.effPt (ts.getD i 0) a).2 b1.kn (b1.order - 1) b1.nAll
        (fun j => o.cps.get ((j % b1.numFunctions) * nc + c)) k (b1.effPt (ts.getD i 0) a).1 := by
  rw [curveJet_get hb hs tol ts k a hi hc,
    ← rowSpec_sum hv hn (ts.getD i 0) a k hnot (fun j => o.cps.get (j * nc + c))]
  apply Finset.sum_congr rfl
  intro j hj
  rw [evaluate_eq_drowVal htol hadm, Basis.drowVal_eq_rowSpec hv htol hadm k a (Finset.mem_range.mp hj)]

/-- Jets of the generic path, any valid basis. -/
theorem homJet1_spec_any {o : Obj K} {b1 : Basis K} (hb : o.bases = #[b1]) (hv : b1.Valid)
    (hn : 0 < b1.numFunctions) {nc : ℕ} (hs : o.cps.shape = [b1.numFunctions, nc]) {tol : K}
    (htol : 0 < tol) (us : List K) (d : ℕ) (a : Bool) {i c : ℕ} (hi : i < us.length) (hc : c < nc)
    (hadm : b1.Admissible tol (us.getD i 0))
    (hnot : b1.periodic < 0 → ¬ (us.getD i 0 = b1.start ∧ a = false)) :
    (o.homJet tol (o.snapParams tol [us]) [d] [a] true).get (i * nc + c) =
      splineDeriv (b1.effPt (us.getD i 0) a).2 b1.kn (b1.order - 1) b1.nAll
        (fun j => o.cps.get ((j % b1.numFunctions) * nc + c)) d (b1.effPt (us.getD i 0) a).1 := by
  rw [homJet1 hb]
  simp only [if_true]
  rw [contractGrid1_get _ _ hs (by rw [basisMat_rows, List.length_map]; exact hi) hc,
    ← rowSpec_sum hv hn (us.getD i 0) a d hnot (fun j => o.cps.get (j * nc + c))]
  apply Finset.sum_congr rfl
  intro j hj
  rw [basisMat_snap_entry_d b1 tol us d a hi,
    Basis.drowVal_eq_rowSpec hv htol hadm d a (Finset.mem_range.mp hj)]

end Obj

end Splipy

/-! ## Jets of the surface closed forms -/

namespace Splipy

set_option linter.unusedSectionVars false
open Tensor

variable {K : Type} [Field K] [LinearOrder K] [IsStrictOrderedRing K] [FloorRing K]

namespace Obj

theorem basis_pair {o : Obj K} {b1 b2 : Basis K} (hb : o.bases = #[b1, b2]) :
    o.basis 0 = b1 ∧ o.basis 1 = b2 := by
  unfold Obj.basis; rw [hb]; exact ⟨rfl, rfl⟩

/-- Entry of a surface jet of the closed-form section (raw parameters, sides `frU`, `frV`). -/
theorem surfJet_get {o : Obj K} {b1 b2 : Basis K} (hb : o.bases = #[b1, b2]) {n1 n2 nc : ℕ}
    (hs : o.cps.shape = [n1, n2, nc]) (tol : K) (us vs : List K) (frU frV : Bool) (a c : ℕ)
    {i1 i2 cc : ℕ} (h1 : i1 < us.length) (h2 : i2 < vs.length) (hc : cc < nc) :
    (o.surfJet tol us vs frU frV a c).get ((i1 * vs.length + i2) * nc + cc) =
      ∑ j1 ∈ Finset.range n1, ∑ j2 ∈ Finset.range n2,
        (b1.evaluate tol (us.getD i1 0) a frU).getD j1 0 * (b2.evaluate tol (vs.getD i2 0) c frV).getD j2 0
          * o.cps.get ((j1 * n2 + j2) * nc + cc) := by
  unfold surfJet
  rw [(basis_pair hb).1, (basis_pair hb).2]
  have hsz : (basisMat b2 tol vs c frV).size = vs.length := basisMat_rows _ _ _ _ _
  rw [← hsz, contractGrid2_get _ _ _ hs (by rw [basisMat_rows]; exact h1) (by rw [hsz]; exact h2) hc]
  exact Finset.sum_congr rfl (fun j1 _ => Finset.sum_congr rfl (fun j2 _ => by
    rw [basisMat_entry b1 tol us a frU h1, basisMat_entry b2 tol vs c frV h2]))

/-- … as a spline in `u` (for fixed `v`) … -/
theorem surfJet_spec_u {o : Obj K} {b1 b2 : Basis K} (hb : o.bases = #[b1, b2]) (hv1 : b1.Valid)
    (hv2 : b2.Valid) (hper : b1.periodic = -1) {nc : ℕ}
    (hs : o.cps.shape = [b1.numFunctions, b2.numFunctions, nc]) {tol : K} (htol : 0 < tol)
    (us vs : List K) (frU frV : Bool) (a c : ℕ) {i1 i2 cc : ℕ} (h1 : i1 < us.length)
    (h2 : i2 < vs.length) (hc : cc < nc) (hu : b1.Admissible tol (us.getD i1 0))
    (hvv : b2.Admissible tol (vs.getD i2 0)) (hnot : ¬ (us.getD i1 0 = b1.start ∧ frU = false)) :
    (o.surfJet tol us vs frU frV a c).get ((i1 * vs.length + i2) * nc + cc) =
      splineDeriv (effSide b1 (us.getD i1 0) frU) b1.kn (b1.order - 1) b1.numFunctions
        (fun j1 => ∑ j2 ∈ Finset.range b2.numFunctions,
          b2.rowSpec (vs.getD i2 0) frV c j2 * o.cps.get ((j1 * b2.numFunctions + j2) * nc + cc))
        a (us.getD i1 0) := by
  rw [surfJet_get hb hs tol us vs frU frV a c h1 h2 hc]
  unfold splineDeriv
  apply Finset.sum_congr rfl
  intro j1 hj1
  rw [Finset.sum_mul]
  apply Finset.sum_congr rfl
  intro j2 hj2
  rw [evaluate_eq_drowVal htol hu, evaluate_eq_drowVal htol hvv,
    Basis.drowVal_eq_rowSpec hv1 htol hu a frU (Finset.mem_range.mp hj1),
    Basis.drowVal_eq_rowSpec hv2 htol hvv c frV (Finset.mem_range.mp hj2), rowSpec_open hper hnot]
  ring

/-- … and as a spline in `v` (for fixed `u`). -/
theorem surfJet_spec_v {o : Obj K} {b1 b2 : Basis K} (hb : o.bases = #[b1, b2]) (hv1 : b1.Valid)
    (hv2 : b2.Valid) (hper : b2.periodic = -1) {nc : ℕ}
    (hs : o.cps.shape = [b1.numFunctions, b2.numFunctions, nc]) {tol : K} (htol : 0 < tol)
    (us vs : List K) (frU frV : Bool) (a c : ℕ) {i1 i2 cc : ℕ} (h1 : i1 < us.length)
    (h2 : i2 < vs.length) (hc : cc < nc) (hu : b1.Admissible tol (us.getD i1 0))
    (hvv : b2.Admissible tol (vs.getD i2 0)) (hnot : ¬ (vs.getD i2 0 = b2.start ∧ frV = false)) :
    (o.surfJet tol us vs frU frV a c).get ((i1 * vs.length + i2) * nc + cc) =
      splineDeriv (effSide b2 (vs.getD i2 0) frV) b2.kn (b2.order - 1) b2.numFunctions
        (fun j2 => ∑ j1 ∈ Finset.range b1.numFunctions,
          b1.rowSpec (us.getD i1 0) frU a j1 * o.cps.get ((j1 * b2.numFunctions + j2) * nc + cc))
        c (vs.getD i2 0) := by
  rw [surfJet_get hb hs tol us vs frU frV a c h1 h2 hc, Finset.sum_comm]
  unfold splineDeriv
  apply Finset.sum_congr rfl
  intro j2 hj2
  rw [Finset.sum_mul]
  apply Finset.sum_congr rfl
  intro j1 hj1
  rw [evaluate_eq_drowVal htol hu, evaluate_eq_drowVal htol hvv,
    Basis.drowVal_eq_rowSpec hv1 htol hu a frU (Finset.mem_range.mp hj1),
    Basis.drowVal_eq_rowSpec hv2 htol hvv c frV (Finset.mem_range.mp hj2), rowSpec_open hper hnot]
  ring

end Obj

end Splipy
