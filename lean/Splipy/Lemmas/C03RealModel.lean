import Splipy.Lemmas.C03Nonrational

/-!
# C03 – the homogeneous jets of the rational curve paths are the specification's derivative sums

For a valid non-periodic basis and an admissible parameter `t` (not the domain start approached from the
left) the jets the model computes — `Obj.curveJet` for the closed forms of `Curve.derivative`, `Obj.homJet` for
the generic quotient rule — are `splineDeriv (effSide b t a) b.kn (order-1) n P_c k t`, for EVERY order `k`.
-/

namespace Splipy

set_option linter.unusedSectionVars false
open Tensor

variable {K : Type} [Field K] [LinearOrder K] [IsStrictOrderedRing K] [FloorRing K]

theorem basisMat_entry (b : Basis K) (tol : K) (ps : List K) (d : ℕ) (a : Bool) {i : ℕ}
    (hi : i < ps.length) (j : ℕ) :
    ((Obj.basisMat b tol ps d a).getD i #[]).getD j 0 = (b.evaluate tol (ps.getD i 0) d a).getD j 0 := by
  unfold Obj.basisMat
  rw [Array.getD_eq_getD_getElem?]
  simp [hi, List.getD_eq_getElem?_getD]

/-- For an exact parameter `b.evaluate` at `t` is the code's row `drowVal`. -/
theorem evaluate_eq_drowVal {b : Basis K} {tol t : K} (htol : 0 < tol) (h : b.Admissible tol t) (d : ℕ)
    (a : Bool) (j : ℕ) : (b.evaluate tol t d a).getD j 0 = b.drowVal tol t d a j := by
  unfold Basis.drowVal
  rw [h.snap_eq htol]

/-- `rowSpec` of a non-periodic basis away from the start-from-the-left corner. -/
theorem rowSpec_open {b : Basis K} (hper : b.periodic = -1) {t : K} {a : Bool}
    (hnot : ¬ (t = b.start ∧ a = false)) (d j : ℕ) :
    b.rowSpec t a d j = dB (effSide b t a) b.kn (b.order - 1) j d t := by
  unfold Basis.rowSpec
  rw [if_pos (by rw [hper]; decide), if_neg hnot]

namespace Obj

theorem basis_zero {o : Obj K} {b1 : Basis K} (hb : o.bases = #[b1]) : o.basis 0 = b1 := by
  unfold Obj.basis; rw [hb]; rfl

/-- Entry of a curve jet in terms of the basis row. -/
theorem curveJet_get {o : Obj K} {b1 : Basis K} (hb : o.bases = #[b1]) {n1 nc : ℕ}
    (hs : o.cps.shape = [n1, nc]) (tol : K) (ts : List K) (k : ℕ) (a : Bool) {i c : ℕ}
    (hi : i < ts.length) (hc : c < nc) :
    (o.curveJet tol ts k a).get (i * nc + c) =
      ∑ j ∈ Finset.range n1, (b1.evaluate tol (ts.getD i 0) k a).getD j 0 * o.cps.get (j * nc + c) := by
  unfold curveJet
  rw [basis_zero hb, ← Splipy.contractGrid_one,
    contractGrid1_get _ _ hs (by rw [basisMat_rows]; exact hi) hc]
  exact Finset.sum_congr rfl (fun j _ => by rw [basisMat_entry b1 tol ts k a hi])

/-- **Jets of the closed forms are the specification sums.** -/
theorem curveJet_spec {o : Obj K} {b1 : Basis K} (hb : o.bases = #[b1]) (hv : b1.Valid)
    (hper : b1.periodic = -1) {nc : ℕ} (hs : o.cps.shape = [b1.numFunctions, nc]) {tol : K}
    (htol : 0 < tol) (ts : List K) (k : ℕ) (a : Bool) {i c : ℕ} (hi : i < ts.length) (hc : c < nc)
    (hadm : b1.Admissible tol (ts.getD i 0)) (hnot : ¬ (ts.getD i 0 = b1.start ∧ a = false)) :
    (o.curveJet tol ts k a).get (i * nc + c) =
      splineDeriv (effSide b1 (ts.getD i 0) a) b1.kn (b1.order - 1) b1.numFunctions
        (fun j => o.cps.get (j * nc + c)) k (ts.getD i 0) := by
  rw [curveJet_get hb hs tol ts k a hi hc]
  unfold splineDeriv
  apply Finset.sum_congr rfl
  intro j hj
  rw [evaluate_eq_drowVal htol hadm, Basis.drowVal_eq_rowSpec hv htol hadm k a (Finset.mem_range.mp hj),
    rowSpec_open hper hnot]
  ring

end Obj

end Splipy

namespace Splipy

set_option linter.unusedSectionVars false
open Tensor

variable {K : Type} [Field K] [LinearOrder K] [IsStrictOrderedRing K] [FloorRing K]

namespace Obj

/-- **Jets of the generic path are the specification sums** (grid form, curve). -/
theorem homJet1_spec {o : Obj K} {b1 : Basis K} (hb : o.bases = #[b1]) (hv : b1.Valid)
    (hper : b1.periodic = -1) {nc : ℕ} (hs : o.cps.shape = [b1.numFunctions, nc]) {tol : K}
    (htol : 0 < tol) (us : List K) (d : ℕ) (a : Bool) {i c : ℕ} (hi : i < us.length) (hc : c < nc)
    (hadm : b1.Admissible tol (us.getD i 0)) (hnot : ¬ (us.getD i 0 = b1.start ∧ a = false)) :
    (o.homJet tol (o.snapParams tol [us]) [d] [a] true).get (i * nc + c) =
      splineDeriv (effSide b1 (us.getD i 0) a) b1.kn (b1.order - 1) b1.numFunctions
        (fun j => o.cps.get (j * nc + c)) d (us.getD i 0) := by
  rw [homJet1 hb]
  simp only [if_true]
  rw [contractGrid1_get _ _ hs (by rw [basisMat_rows, List.length_map]; exact hi) hc]
  unfold splineDeriv
  apply Finset.sum_congr rfl
  intro j hj
  rw [basisMat_snap_entry_d b1 tol us d a hi,
    Basis.drowVal_eq_rowSpec hv htol hadm d a (Finset.mem_range.mp hj), rowSpec_open hper hnot]
  ring

theorem homJet1_size {o : Obj K} {b1 : Basis K} (hb : o.bases = #[b1]) {n1 nc : ℕ}
    (hs : o.cps.shape = [n1, nc]) (tol : K) (us : List K) (d : ℕ) (a : Bool) :
    (o.homJet tol (o.snapParams tol [us]) [d] [a] true).size = us.length * nc := by
  rw [homJet1 hb]
  simp only [if_true]
  unfold Tensor.size
  rw [(contractGrid1_size _ _ hs).1, basisMat_rows, List.length_map]
  simp [Tensor.prod_cons, Tensor.prod_nil]

end Obj

end Splipy

namespace Splipy

set_option linter.unusedSectionVars false
open Tensor

variable {K : Type} [Field K] [LinearOrder K] [IsStrictOrderedRing K] [FloorRing K]

namespace Obj

/-- Entries of the homogeneous jet of a surface call (rational or not), grid form. -/
theorem homJet2_grid_get {o : Obj K} {b1 b2 : Basis K} (hb : o.bases = #[b1, b2]) {n1 n2 nc : ℕ}
    (hs : o.cps.shape = [n1, n2, nc]) (tol : K) (us vs : List K) (d1 d2 : ℕ) (a1 a2 : Bool)
    {i1 i2 c : ℕ} (h1 : i1 < us.length) (h2 : i2 < vs.length) (hc : c < nc) :
    (o.homJet tol (o.snapParams tol [us, vs]) [d1, d2] [a1, a2] true).get
        ((i1 * vs.length + i2) * nc + c) =
      ∑ j1 ∈ Finset.range n1, ∑ j2 ∈ Finset.range n2,
        b1.drowVal tol (us.getD i1 0) d1 a1 j1 * b2.drowVal tol (vs.getD i2 0) d2 a2 j2
          * o.cps.get ((j1 * n2 + j2) * nc + c) := by
  rw [homJet2 hb]
  simp only [if_true]
  have hsz : (basisMat b2 tol (vs.map (snap b2 tol)) d2 a2).size = vs.length := by
    rw [basisMat_rows, List.length_map]
  rw [← hsz, contractGrid2_get _ _ _ hs (by rw [basisMat_rows, List.length_map]; exact h1)
    (by rw [hsz]; exact h2) hc]
  exact Finset.sum_congr rfl (fun j1 _ => Finset.sum_congr rfl (fun j2 _ => by
    rw [basisMat_snap_entry_d b1 tol us d1 a1 h1, basisMat_snap_entry_d b2 tol vs d2 a2 h2]))

theorem homJet2_size {o : Obj K} {b1 b2 : Basis K} (hb : o.bases = #[b1, b2]) {n1 n2 nc : ℕ}
    (hs : o.cps.shape = [n1, n2, nc]) (tol : K) (us vs : List K) (d1 d2 : ℕ) (a1 a2 : Bool) :
    (o.homJet tol (o.snapParams tol [us, vs]) [d1, d2] [a1, a2] true).size
      = us.length * vs.length * nc := by
  rw [homJet2 hb]
  simp only [if_true]
  unfold Tensor.size
  rw [(contractGrid2_size _ _ _ hs).1, basisMat_rows, basisMat_rows, List.length_map, List.length_map]
  simp [Tensor.prod_cons, Tensor.prod_nil, Nat.mul_assoc]

/-- **Jets of the generic surface path as a spline in `u`** (for fixed `v`): with the `u`-coefficients
`cf j₁ = Σ_{j₂} rowSpec²(v, d₂)_{j₂} · P[j₁, j₂, c]` the jet entry is `splineDeriv … cf d₁ u`. -/
theorem homJet2_spec_u {o : Obj K} {b1 b2 : Basis K} (hb : o.bases = #[b1, b2]) (hv1 : b1.Valid)
    (hv2 : b2.Valid) (hper : b1.periodic = -1) {nc : ℕ}
    (hs : o.cps.shape = [b1.numFunctions, b2.numFunctions, nc]) {tol : K} (htol : 0 < tol)
    (us vs : List K) (d1 d2 : ℕ) (a1 a2 : Bool) {i1 i2 c : ℕ} (h1 : i1 < us.length)
    (h2 : i2 < vs.length) (hc : c < nc) (hu : b1.Admissible tol (us.getD i1 0))
    (hvv : b2.Admissible tol (vs.getD i2 0)) (hnot : ¬ (us.getD i1 0 = b1.start ∧ a1 = false)) :
    (o.homJet tol (o.snapParams tol [us, vs]) [d1, d2] [a1, a2] true).get
        ((i1 * vs.length + i2) * nc + c) =
      splineDeriv (effSide b1 (us.getD i1 0) a1) b1.kn (b1.order - 1) b1.numFunctions
        (fun j1 => ∑ j2 ∈ Finset.range b2.numFunctions,
          b2.rowSpec (vs.getD i2 0) a2 d2 j2 * o.cps.get ((j1 * b2.numFunctions + j2) * nc + c))
        d1 (us.getD i1 0) := by
  rw [homJet2_grid_get hb hs tol us vs d1 d2 a1 a2 h1 h2 hc]
  unfold splineDeriv
  apply Finset.sum_congr rfl
  intro j1 hj1
  rw [Finset.sum_mul]
  apply Finset.sum_congr rfl
  intro j2 hj2
  rw [Basis.drowVal_eq_rowSpec hv1 htol hu d1 a1 (Finset.mem_range.mp hj1),
    Basis.drowVal_eq_rowSpec hv2 htol hvv d2 a2 (Finset.mem_range.mp hj2), rowSpec_open hper hnot]
  ring

/-- … and as a spline in `v` (for fixed `u`). -/
theorem homJet2_spec_v {o : Obj K} {b1 b2 : Basis K} (hb : o.bases = #[b1, b2]) (hv1 : b1.Valid)
    (hv2 : b2.Valid) (hper : b2.periodic = -1) {nc : ℕ}
    (hs : o.cps.shape = [b1.numFunctions, b2.numFunctions, nc]) {tol : K} (htol : 0 < tol)
    (us vs : List K) (d1 d2 : ℕ) (a1 a2 : Bool) {i1 i2 c : ℕ} (h1 : i1 < us.length)
    (h2 : i2 < vs.length) (hc : c < nc) (hu : b1.Admissible tol (us.getD i1 0))
    (hvv : b2.Admissible tol (vs.getD i2 0)) (hnot : ¬ (vs.getD i2 0 = b2.start ∧ a2 = false)) :
    (o.homJet tol (o.snapParams tol [us, vs]) [d1, d2] [a1, a2] true).get
        ((i1 * vs.length + i2) * nc + c) =
      splineDeriv (effSide b2 (vs.getD i2 0) a2) b2.kn (b2.order - 1) b2.numFunctions
        (fun j2 => ∑ j1 ∈ Finset.range b1.numFunctions,
          b1.rowSpec (us.getD i1 0) a1 d1 j1 * o.cps.get ((j1 * b2.numFunctions + j2) * nc + c))
        d2 (vs.getD i2 0) := by
  rw [homJet2_grid_get hb hs tol us vs d1 d2 a1 a2 h1 h2 hc, Finset.sum_comm]
  unfold splineDeriv
  apply Finset.sum_congr rfl
  intro j2 hj2
  rw [Finset.sum_mul]
  apply Finset.sum_congr rfl
  intro j1 hj1
  rw [Basis.drowVal_eq_rowSpec hv1 htol hu d1 a1 (Finset.mem_range.mp hj1),
    Basis.drowVal_eq_rowSpec hv2 htol hvv d2 a2 (Finset.mem_range.mp hj2), rowSpec_open hper hnot]
  ring

end Obj

end Splipy
