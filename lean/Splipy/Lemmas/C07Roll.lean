import Splipy.Lemmas.C10Cummax
import Splipy.Lemmas.C08Knots
import Splipy.Lemmas.C08Merge
import Mathlib.Tactic.Ring
import Mathlib.Tactic.Linarith

/-!
# `Basis.roll` and `Tensor.rollAxisNeg` compute shifted periodic sequences

`perExt τ n T` is the infinite periodic continuation of the first `n` knots.  For a valid periodic
basis it agrees with the knot array (`Basis.ext_eq`), is monotone and `n`-periodic with period `T`.
`roll μ` produces the knots `ext (μ + ·)`; `np.roll(cps, -μ)` the control points `(· + μ) % n`.
-/

namespace Splipy

set_option linter.unusedSectionVars false
set_option linter.unusedVariables false

variable {K : Type} [Field K] [LinearOrder K] [IsStrictOrderedRing K]

/-- Periodic continuation of `τ 0 … τ (n-1)` with period `T`. -/
def perExt (τ : ℕ → K) (n : ℕ) (T : K) (i : ℕ) : K := τ (i % n) + ((i / n : ℕ) : K) * T

theorem perExt_add (τ : ℕ → K) (n : ℕ) (T : K) (hn : 0 < n) (i : ℕ) :
    perExt τ n T (i + n) = perExt τ n T i + T := by
  unfold perExt
  rw [Nat.add_mod_right, Nat.add_div_right i hn]
  push_cast
  ring

theorem perExt_eq (τ : ℕ → K) (n : ℕ) (T : K) (hn : 0 < n) (size : ℕ)
    (hg : ∀ i, i + n < size → τ (i + n) = τ i + T) : ∀ i, i < size → perExt τ n T i = τ i := by
  intro i
  induction i using Nat.strong_induction_on with
  | _ i ih =>
    intro hi
    rcases Nat.lt_or_ge i n with h | h
    · unfold perExt
      rw [Nat.mod_eq_of_lt h, Nat.div_eq_of_lt h]
      simp
    · obtain ⟨j, rfl⟩ : ∃ j, i = j + n := ⟨i - n, by omega⟩
      rw [perExt_add τ n T hn j, ih j (by omega) (by omega), hg j hi]

theorem perExt_mono (τ : ℕ → K) (n : ℕ) (T : K) (hn : 0 < n) (hτ : Monotone τ)
    (hT : τ n = τ 0 + T) : Monotone (perExt τ n T) := by
  apply monotone_nat_of_le_succ
  intro i
  unfold perExt
  have hdm := Nat.div_add_mod i n
  have hr := Nat.mod_lt i hn
  rcases Nat.lt_or_ge (i % n + 1) n with h | h
  · have e1 : (i + 1) % n = i % n + 1 := by
      have : i + 1 = n * (i / n) + (i % n + 1) := by omega
      rw [this, Nat.mul_add_mod, Nat.mod_eq_of_lt h]
    have e2 : (i + 1) / n = i / n := by
      have : i + 1 = n * (i / n) + (i % n + 1) := by omega
      rw [this, Nat.mul_add_div hn, Nat.div_eq_of_lt h]; simp
    rw [e1, e2]
    have := hτ (Nat.le_succ (i % n))
    linarith
  · have hrn : i % n = n - 1 := by omega
    have e : i + 1 = n * (i / n + 1) := by
      have : i + 1 = n * (i / n) + n := by omega
      rw [this]; ring
    have e1 : (i + 1) % n = 0 := by rw [e]; exact Nat.mul_mod_right _ _
    have e2 : (i + 1) / n = i / n + 1 := by rw [e]; exact Nat.mul_div_cancel_left _ hn
    rw [e1, e2, hrn]
    push_cast
    have := hτ (show n - 1 ≤ n by omega)
    linarith

namespace Basis

section
variable {b : Basis K} (hv : b.Valid) (hper : 0 ≤ b.periodic)
include hv hper

/-- The knots of a valid periodic basis, continued periodically. -/
def ext (b : Basis K) : ℕ → K := perExt b.kn b.numFunctions (b.stop - b.start)

theorem ext_eq (i : ℕ) (hi : i < b.knots.size) : b.ext i = b.kn i :=
  perExt_eq b.kn b.numFunctions _ hv.numFunctions_pos b.knots.size
    (fun j hj => hv.ghosts hper j hj) i hi

theorem ext_add (i : ℕ) : b.ext (i + b.numFunctions) = b.ext i + (b.stop - b.start) :=
  perExt_add b.kn b.numFunctions _ hv.numFunctions_pos i

theorem ext_mono : Monotone b.ext := by
  apply perExt_mono b.kn b.numFunctions _ hv.numFunctions_pos hv.kn_mono
  have hs := per_size hv hper
  have := hv.ghosts hper 0 (by omega)
  rw [Nat.zero_add] at this
  exact this

/-- **`roll(μ)`** for `μ ≤ n`: same order / periodicity / length, knots `ext (μ + ·)` (the running maximum `roll`
    applies after its shifted copy is the identity here: the exact result is non-decreasing). -/
theorem roll_spec (mu : ℕ) (hmu : mu ≤ b.numFunctions) :
    ∃ b1, b.roll mu = .ok b1 ∧ b1.order = b.order ∧ b1.periodic = b.periodic ∧
      b1.knots.size = b.knots.size ∧ ∀ j, j < b.knots.size → b1.knots[j]? = some (b.ext (mu + j)) := by
  have hs := per_size hv hper
  have hk := per_k_le hv hper
  have hp := hv.order_pos
  set n := b.numFunctions with hn
  set k := b.periodic.toNat with hkdef
  have hnidx : b.knots.size - b.order - k - 1 = n := by omega
  unfold Basis.roll
  rw [if_neg (by omega)]
  simp only [← hkdef, hnidx]
  -- the array before the running maximum
  obtain ⟨raw, hraw⟩ : ∃ raw : Array K, raw = b.knots.extract mu n ++
      Array.map (fun x => x - (b.kn 0 - b.kn n)) (b.knots.extract 0 (b.knots.size - (n - mu))) := ⟨_, rfl⟩
  rw [← hraw]
  have hsize : raw.size = b.knots.size := by
    rw [hraw]
    simp only [Array.size_append, Array.size_extract, Array.size_map]
    omega
  have hent : ∀ j, j < b.knots.size → raw[j]? = some (b.ext (mu + j)) := by
    intro j hj
    rw [hraw]
    have hT : b.kn 0 - b.kn n = -(b.stop - b.start) := by
      have := hv.ghosts hper 0 (by omega)
      rw [Nat.zero_add] at this
      rw [this]; ring
    simp only [Array.getElem?_append, Array.size_extract, Array.getElem?_map, Array.getElem?_extract]
    have hmin : min n b.knots.size = n := by omega
    rw [hmin]
    by_cases h1 : j < n - mu
    · rw [if_pos h1, if_pos h1, per_getElem? hv hper _ (by omega), ext_eq hv hper _ (by omega)]
    · rw [if_neg h1]
      have hmin2 : min (b.knots.size - (n - mu)) b.knots.size = b.knots.size - (n - mu) := by omega
      rw [hmin2, Nat.sub_zero, if_pos (by omega), Nat.zero_add,
        per_getElem? hv hper _ (by omega)]
      simp only [Option.map_some]
      congr 1
      rw [hT, show mu + j = (j - (n - mu)) + n by omega, ext_add hv hper,
        ext_eq hv hper _ (by omega)]
      ring
  have hcm : Basis.cummax raw = raw := by
    apply Basis.cummax_of_sorted
    intro i hi
    have h1 := hent i (by omega)
    have h2 := hent (i + 1) (by omega)
    rw [Array.getD_eq_getD_getElem?, Array.getD_eq_getD_getElem?, h1, h2]
    exact ext_mono hv hper (by omega)
  rw [hcm]
  exact ⟨_, rfl, rfl, rfl, hsize, hent⟩

end

end Basis

/-- `np.roll(cps, -μ, axis)`: entry `r` along the axis is the old entry `(r + μ) % n`. -/
theorem Tensor.rollAxisNeg_at3 {K : Type} [Zero K] (t : Tensor K) (axis k a r i : ℕ)
    (hax : axis < t.shape.length) (hr : r < t.shape.getD axis 1)
    (hi : i < (Tensor.split3 t.shape axis).2.2) (ha : a < (Tensor.split3 t.shape axis).1) :
    (t.rollAxisNeg axis k).at3 axis a r i = t.at3 axis a ((r + k) % t.shape.getD axis 1) i := by
  unfold Tensor.rollAxisNeg Tensor.reindexAxis
  simp only []
  rw [Tensor.at3_build3 t.shape axis _ _ a r i hax hr hi ha]

theorem Tensor.rollAxisNeg_shape {K : Type} [Zero K] (t : Tensor K) (axis k : ℕ)
    (hax : axis < t.shape.length) : (t.rollAxisNeg axis k).shape = t.shape := by
  unfold Tensor.rollAxisNeg Tensor.reindexAxis Tensor.build3
  simp only []
  apply List.ext_getElem
  · simp
  · intro j h1 h2
    rw [List.getElem_set]
    split_ifs with h
    · subst h; simp [List.getD, h2]
    · rfl

end Splipy
